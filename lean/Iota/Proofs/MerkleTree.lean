/-
C15, the clause "which is what an independent bottom-up construction yields and what RFC 6962 audit paths verify
against".  Definitions: Iota/Spec/MerkleTree.lean.  Core Lean only.
-/
import Iota.Spec.MerkleTree
import Iota.Proofs.Merkle

namespace Iota.Proofs.MerkleTree
open Iota.Merkle Iota.Spec.Merkle Iota.Spec.MerkleTree

variable (H : Bytes → Bytes)

/-! ## A. the bottom-up construction computes MTH -/

/-- `IsMTH` over a list of *nodes* (a single node is its own root). -/
inductive IsTree : List Bytes → Bytes → Prop
  | single (x : Bytes) : IsTree [x] x
  | node (L : List Bytes) (k e : Nat) (l r : Bytes) :
      2 ≤ L.length → k = 2 ^ e → k < L.length → L.length ≤ 2 * k →
      IsTree (L.take k) l → IsTree (L.drop k) r → IsTree L (hashNode H l r)

theorem length_pairUp : ∀ L : List Bytes, (pairUp H L).length = (L.length + 1) / 2 := by
  intro L
  fun_induction pairUp H L with
  | case1 l r rest ih => simp only [List.length_cons, ih]; omega
  | case2 x => simp
  | case3 => simp

/-- one pairing pass commutes with a split at an even position: left part … -/
theorem pairUp_take : ∀ (k : Nat) (L : List Bytes), (pairUp H L).take k = pairUp H (L.take (2 * k)) := by
  intro k
  induction k with
  | zero => intro L; simp [pairUp]
  | succ k ih =>
    intro L
    have : 2 * (k + 1) = 2 * k + 1 + 1 := by omega
    rw [this]
    match L with
    | [] => simp [pairUp]
    | [x] => simp [pairUp]
    | l :: r :: rest =>
      simp only [pairUp, List.take_succ_cons, ih rest]

/-- … and right part. -/
theorem pairUp_drop : ∀ (k : Nat) (L : List Bytes), (pairUp H L).drop k = pairUp H (L.drop (2 * k)) := by
  intro k
  induction k with
  | zero => intro L; simp
  | succ k ih =>
    intro L
    have : 2 * (k + 1) = 2 * k + 1 + 1 := by omega
    rw [this]
    match L with
    | [] => simp [pairUp]
    | [x] => simp [pairUp]
    | l :: r :: rest =>
      simp only [pairUp, List.drop_succ_cons, ih rest]

theorem isTree_single_inv {x h : Bytes} (t : IsTree H [x] h) : h = x := by
  cases t with
  | single => rfl
  | node _ k e l r h2 => simp at h2

/-- Key lemma: a tree over the paired-up level is a tree over the level itself (the split point doubles). -/
theorem isTree_of_pairUp : ∀ (n : Nat) (L : List Bytes), L.length = n → ∀ h, IsTree H (pairUp H L) h →
    IsTree H L h := by
  intro n
  induction n using Nat.strongRecOn with
  | _ n ih =>
    intro L hn h t
    match L, hn with
    | [], _ => exact t
    | [x], _ => exact t
    | [l, r], _ =>
      have := isTree_single_inv H t
      subst this
      exact IsTree.node [l, r] 1 0 l r (by simp) rfl (by simp) (by simp) (IsTree.single l) (IsTree.single r)
    | a :: b :: c :: rest, hn =>
      generalize hL : a :: b :: c :: rest = L at hn t ⊢
      have hlen : 3 ≤ L.length := by rw [← hL]; simp
      have hplen := length_pairUp H L
      generalize hP : pairUp H L = P at t
      cases t with
      | single x =>
        have := congrArg List.length hP
        simp at this; omega
      | node _ k e l r h2 hk hlt hle tl tr =>
        subst hP
        rw [pairUp_take] at tl
        rw [pairUp_drop] at tr
        have tl' := ih (L.take (2 * k)).length (by rw [List.length_take]; omega) _ rfl _ tl
        have tr' := ih (L.drop (2 * k)).length (by rw [List.length_drop]; omega) _ rfl _ tr
        exact IsTree.node L (2 * k) (e + 1) l r (by omega) (by rw [hk, Nat.pow_succ]; omega)
          (by omega) (by omega) tl' tr'

theorem isTree_collapse : ∀ (n : Nat) (L : List Bytes), L.length = n → 1 ≤ n → IsTree H L (collapse H L) := by
  intro n
  induction n using Nat.strongRecOn with
  | _ n ih =>
    intro L hn h1
    match L, hn with
    | [], hn => simp at hn; omega
    | [x], _ => rw [collapse]; exact IsTree.single x
    | l :: r :: rest, hn =>
      rw [collapse]
      have hp := length_pairUp H (l :: r :: rest)
      simp only [List.length_cons] at hp hn
      exact isTree_of_pairUp H _ _ rfl _
        (ih (pairUp H (l :: r :: rest)).length (by rw [hp]; omega) _ rfl (by rw [hp]; omega))

/-- a tree over the leaf hashes is RFC 6962's MTH of the leaves. -/
theorem isMTH_of_isTree (L : List Bytes) (h : Bytes) (t : IsTree H L h) :
    ∀ D : List Bytes, L = D.map (hashLeaf H) → IsMTH H D h := by
  induction t with
  | single x =>
    intro D hD
    match D, hD with
    | [d], hD => simp at hD; subst hD; exact IsMTH.leaf d
  | node L k e l r h2 hk hlt hle _ _ ihl ihr =>
    intro D hD
    have hlen : L.length = D.length := by rw [hD, List.length_map]
    exact IsMTH.node D k e l r (by omega) hk (by omega) (by omega)
      (ihl _ (by rw [hD, List.map_take])) (ihr _ (by rw [hD, List.map_drop]))

/-- the bottom-up construction satisfies the RFC 6962 relation, for every list of leaves and every `H`. -/
theorem bottomUp_isMTH (D : List Bytes) : IsMTH H D (bottomUp H D) := by
  unfold bottomUp
  match D with
  | [] => rw [List.map_nil, collapse]; exact IsMTH.empty
  | d :: ds =>
    exact isMTH_of_isTree H _ _ (isTree_collapse H _ _ rfl (by simp)) _ rfl

/-- **Headline A.**  `Hash` returns what the independent bottom-up construction yields. -/
theorem hash_eq_bottomUp {ε : Type} (D : List Bytes) (h63 : D.length ≤ 2 ^ 63) :
    hash (ε := ε) H (D.map .ok) = .ok (bottomUp H D) :=
  (Proofs.Merkle.hash_eq_mth H D h63 _).mpr (bottomUp_isMTH H D)

/-! ## B. RFC 6962 MTH / audit paths, and the RFC 9162 iterative verifier -/

/-- the split point is a power of two `k` with `k < n ≤ 2k` (for every `n ≥ 2`; no upper bound). -/
theorem splitPoint_spec (n : Nat) (h2 : 2 ≤ n) :
    ∃ e, splitPoint n = 2 ^ e ∧ splitPoint n < n ∧ n ≤ 2 * splitPoint n := by
  refine ⟨(n - 1).log2, rfl, (splitPoint_pos_lt n h2).2, ?_⟩
  unfold splitPoint
  have := @Nat.lt_log2_self (n - 1)
  rw [Nat.pow_succ] at this; omega

theorem splitPoint_eq (n e : Nat) (hlo : 2 ^ e < n) (hhi : n ≤ 2 ^ (e + 1)) : splitPoint n = 2 ^ e := by
  unfold splitPoint
  have hp : 0 < 2 ^ e := Nat.pow_pos (by omega)
  have hs : 2 ^ (e + 1) = 2 * 2 ^ e := by rw [Nat.pow_succ]; omega
  have : (n - 1).log2 = e := (Nat.log2_eq_iff (by omega)).mpr ⟨by omega, by omega⟩
  rw [this]

theorem mth_nil : mth H [] = H [] := by rw [mth]; simp
theorem mth_single (d : Bytes) : mth H [d] = hashLeaf H d := by rw [mth]; simp
theorem mth_split (D : List Bytes) (h2 : 2 ≤ D.length) :
    mth H D = hashNode H (mth H (D.take (splitPoint D.length))) (mth H (D.drop (splitPoint D.length))) := by
  rw [mth]
  have : ¬ D.length < 2 := by omega
  simp only [this, dite_false]

theorem auditPath_small (D : List Bytes) (m : Nat) (h : D.length < 2) : auditPath H D m = [] := by
  rw [auditPath]; simp [h]
theorem auditPath_left (D : List Bytes) (m : Nat) (h2 : 2 ≤ D.length) (hm : m < splitPoint D.length) :
    auditPath H D m = auditPath H (D.take (splitPoint D.length)) m ++ [mth H (D.drop (splitPoint D.length))] := by
  rw [auditPath]
  have : ¬ D.length < 2 := by omega
  simp only [this, dite_false, hm, if_true]
theorem auditPath_right (D : List Bytes) (m : Nat) (h2 : 2 ≤ D.length) (hm : splitPoint D.length ≤ m) :
    auditPath H D m =
      auditPath H (D.drop (splitPoint D.length)) (m - splitPoint D.length) ++ [mth H (D.take (splitPoint D.length))] := by
  rw [auditPath]
  have : ¬ D.length < 2 := by omega
  have hm' : ¬ m < splitPoint D.length := by omega
  simp only [this, dite_false, hm', if_false]

/-- the function `mth` satisfies the RFC 6962 relation `IsMTH` (Iota/Spec/Merkle.lean), for every list. -/
theorem mth_isMTH : ∀ (n : Nat) (D : List Bytes), D.length = n → IsMTH H D (mth H D) := by
  intro n
  induction n using Nat.strongRecOn with
  | _ n ih =>
    intro D hn
    match D, hn with
    | [], _ => rw [mth_nil]; exact IsMTH.empty
    | [d], _ => rw [mth_single]; exact IsMTH.leaf d
    | a :: b :: rest, hn =>
      generalize hD : a :: b :: rest = D at hn
      have h2 : 2 ≤ D.length := by rw [← hD]; simp
      obtain ⟨e, hke, hklt, hkle⟩ := splitPoint_spec D.length h2
      have hpos := (splitPoint_pos_lt D.length h2).1
      rw [mth_split H D h2]
      exact IsMTH.node D _ e _ _ h2 hke hklt hkle
        (ih _ (by rw [List.length_take]; omega) _ rfl)
        (ih _ (by rw [List.length_drop]; omega) _ rfl)

/-! ### the verifier, step by step -/

theorem rfp_nil (fn sn : Nat) (r : Bytes) :
    rootFromPath H fn sn r [] = if sn = 0 then some r else none := by
  simp [rootFromPath]

/-- the current node is a right child: the path element goes on the left. -/
theorem rfp_right (fn sn : Nat) (r p : Bytes) (path : List Bytes) (hsn : sn ≠ 0) (hodd : fn % 2 = 1) :
    rootFromPath H fn sn r (p :: path) = rootFromPath H (fn / 2) (sn / 2) (hashNode H p r) path := by
  have hs : shiftOdd fn sn = (fn, sn) := by rw [shiftOdd]; simp [hodd]
  simp [rootFromPath, hsn, hodd, hs]

/-- the current node is a left child with a sibling: the path element goes on the right. -/
theorem rfp_left (fn sn : Nat) (r p : Bytes) (path : List Bytes) (heven : fn % 2 = 0) (hlt : fn < sn) :
    rootFromPath H fn sn r (p :: path) = rootFromPath H (fn / 2) (sn / 2) (hashNode H r p) path := by
  have h1 : sn ≠ 0 := by omega
  have h2 : ¬ (fn % 2 = 1 ∨ fn = sn) := by omega
  simp [rootFromPath, h1, h2]

theorem shiftOdd_two_mul (F S : Nat) (hF : F ≠ 0) : shiftOdd (2 * F) (2 * S) = shiftOdd F S := by
  rw [shiftOdd]
  have h : ¬ (2 * F % 2 = 1 ∨ 2 * F = 0) := by omega
  simp only [h, if_false]
  congr 1 <;> omega

/-- the current node is the unpaired last node of its level: it is the same node one level up. -/
theorem rfp_double (F : Nat) (r : Bytes) (path : List Bytes) :
    rootFromPath H (2 * F) (2 * F) r path = rootFromPath H F F r path := by
  by_cases hF : F = 0
  · subst hF; rfl
  have h1 : 2 * F ≠ 0 := by omega
  match path with
  | [] => rw [rfp_nil, rfp_nil]; simp [hF, h1]
  | p :: path => simp [rootFromPath, hF, h1, shiftOdd_two_mul F F hF]

/-- Main lemma.  `D` is a subtree with `n ≤ 2^e` leaves whose first leaf has index `b * 2^e` in the whole tree, and
either it is the last subtree (`sn` is the index of its last leaf) or it is a complete subtree (`n = 2^e`) with
something to its right.  Walking the audit path of leaf `m` of `D` takes the verifier from that leaf to the node `b`,
`e` levels up, with the value `MTH(D)`. -/
theorem rfp_subtree : ∀ (e n : Nat) (D : List Bytes), D.length = n → 1 ≤ n → n ≤ 2 ^ e →
    ∀ (m b sn : Nat) (leaf : Bytes) (rest : List Bytes), D[m]? = some leaf →
    (sn = b * 2 ^ e + (n - 1) ∨ (n = 2 ^ e ∧ (b + 1) * 2 ^ e ≤ sn)) →
    rootFromPath H (b * 2 ^ e + m) sn (hashLeaf H leaf) (auditPath H D m ++ rest) =
      rootFromPath H b (sn / 2 ^ e) (mth H D) rest := by
  intro e
  induction e with
  | zero =>
    intro n D hn h1 hle m b sn leaf rest hm hsn
    simp only [Nat.pow_zero] at hle
    obtain ⟨d, rfl⟩ := List.length_eq_one_iff.mp (by omega : D.length = 1)
    have hm0 : m = 0 := by
      have := (List.getElem?_eq_some_iff.mp hm).1
      simp at this; omega
    subst hm0
    simp at hm; subst hm
    rw [auditPath_small H _ _ (by simp), mth_single]
    simp
  | succ e ih =>
    intro n D hn h1 hle m b sn leaf rest hm hsn
    have hs : 2 ^ (e + 1) = 2 * 2 ^ e := by rw [Nat.pow_succ]; omega
    have hp : 0 < 2 ^ e := Nat.pow_pos (by omega)
    have hmn : m < n := by rw [← hn]; exact (List.getElem?_eq_some_iff.mp hm).1
    have hse : ∀ h0 h1 : Nat, 2 ^ e < h0 → h0 ≤ 2 ^ (e + 1) → h1 = h0 → splitPoint h1 = 2 ^ e :=
      fun h0 h1 a b c => c ▸ splitPoint_eq h0 e a b
    rw [hs] at hle hsn ⊢
    generalize 2 ^ e = P at *
    have hb1 : b * (2 * P) = 2 * (b * P) := Nat.mul_left_comm ..
    have hb2 : 2 * b * P = 2 * (b * P) := Nat.mul_assoc ..
    have hb3 : (2 * b + 1) * P = 2 * (b * P) + P := by rw [Nat.add_mul, Nat.one_mul, Nat.mul_assoc]
    have hb4 : (b + 1) * (2 * P) = 2 * (b * P) + 2 * P := by rw [Nat.add_mul, Nat.one_mul, hb1]
    have hb5 : (2 * b + 1 + 1) * P = 2 * (b * P) + 2 * P := by rw [Nat.add_mul, Nat.one_mul, hb3]; omega
    have hdd : sn / (2 * P) = sn / P / 2 := by rw [Nat.div_div_eq_div_mul, Nat.mul_comm]
    by_cases hnP : n ≤ P
    · -- the subtree does not reach this level: its root is carried up unchanged
      have hsn' : sn = b * (2 * P) + (n - 1) := by omega
      have := ih n D hn h1 hnP m (2 * b) sn leaf rest hm (Or.inl (by omega))
      rw [hb2, ← hb1] at this
      rw [this]
      have hd : sn / P = 2 * b := Nat.div_eq_of_lt_le (by omega) (by omega)
      rw [hdd, hd, rfp_double]
      congr 1; omega
    · have h2 : 2 ≤ D.length := by omega
      have hk : splitPoint D.length = P := hse n D.length (by omega) (by omega) hn
      rw [mth_split H D h2, hk]
      by_cases hmP : m < P
      · rw [auditPath_left H D m h2 (by omega), hk, List.append_assoc]
        have := ih P (D.take P) (by rw [List.length_take]; omega) (by omega) (Nat.le_refl _) m (2 * b) sn leaf
          ([mth H (D.drop P)] ++ rest) (by rw [List.getElem?_take_of_lt hmP]; exact hm)
          (Or.inr ⟨rfl, by omega⟩)
        rw [hb2, ← hb1] at this
        rw [this]
        have hlt : 2 * b + 1 ≤ sn / P := (Nat.le_div_iff_mul_le hp).mpr (by omega)
        rw [List.singleton_append, rfp_left H _ _ _ _ _ (by omega) (by omega), hdd]
        congr 1; omega
      · rw [auditPath_right H D m h2 (by omega), hk, List.append_assoc]
        have := ih (n - P) (D.drop P) (by rw [List.length_drop]; omega) (by omega) (by omega) (m - P) (2 * b + 1)
          sn leaf ([mth H (D.take P)] ++ rest)
          (by rw [List.getElem?_drop, ← hm]; congr 1; omega)
          (by rcases hsn with h | h
              · exact Or.inl (by omega)
              · exact Or.inr ⟨by omega, by omega⟩)
        have hfn : (2 * b + 1) * P + (m - P) = b * (2 * P) + m := by omega
        rw [hfn] at this
        rw [this]
        have hlt : 2 * b + 1 ≤ sn / P := (Nat.le_div_iff_mul_le hp).mpr (by omega)
        rw [List.singleton_append, rfp_right H _ _ _ _ _ (by omega) (by omega), hdd]
        congr 1; omega

/-- **Headline B(i), completeness.**  For every `H`, every list of leaves and every leaf index `m < n`, the iterative
verifier run on the RFC 6962 audit path of leaf `m` computes `MTH(D)`. -/
theorem verifyPath_auditPath (D : List Bytes) (m : Nat) (leaf : Bytes) (hm : D[m]? = some leaf) :
    verifyPath H m D.length leaf (auditPath H D m) = some (mth H D) := by
  have hmn : m < D.length := (List.getElem?_eq_some_iff.mp hm).1
  have hpow : D.length ≤ 2 ^ D.length := Nat.le_of_lt Nat.lt_two_pow_self
  have := rfp_subtree H D.length D.length D rfl (by omega) hpow m 0 (D.length - 1) leaf [] hm (Or.inl (by omega))
  rw [Nat.zero_mul, Nat.zero_add, List.append_nil] at this
  unfold verifyPath
  rw [if_pos hmn, this, rfp_nil]
  have : (D.length - 1) / 2 ^ D.length = 0 := Nat.div_eq_of_lt (by omega)
  simp [this]

/-! ### the three constructions agree, and agree with the model of the Go code -/

/-- RFC recursion = bottom-up construction, for every list (no size bound). -/
theorem mth_eq_bottomUp (D : List Bytes) : mth H D = bottomUp H D :=
  Proofs.Merkle.isMTH_functional H D _ _ (mth_isMTH H _ D rfl) (bottomUp_isMTH H D)

theorem hash_eq_mth {ε : Type} (D : List Bytes) (h63 : D.length ≤ 2 ^ 63) :
    hash (ε := ε) H (D.map .ok) = .ok (mth H D) :=
  (Proofs.Merkle.hash_eq_mth H D h63 _).mpr (mth_isMTH H _ D rfl)

/-- **Headline B(i), against the model.**  The root returned by `Hash` is the one the RFC 9162 verifier computes
from the RFC 6962 audit path of any leaf. -/
theorem hash_verifies {ε : Type} (D : List Bytes) (h63 : D.length ≤ 2 ^ 63) (root : Bytes)
    (hroot : hash (ε := ε) H (D.map .ok) = .ok root) (m : Nat) (leaf : Bytes) (hm : D[m]? = some leaf) :
    verifyPath H m D.length leaf (auditPath H D m) = some root := by
  rw [hash_eq_mth H D h63] at hroot
  cases hroot
  exact verifyPath_auditPath H D m leaf hm

theorem hash_verifyInclusion {ε : Type} (D : List Bytes) (h63 : D.length ≤ 2 ^ 63) (root : Bytes)
    (hroot : hash (ε := ε) H (D.map .ok) = .ok root) (m : Nat) (leaf : Bytes) (hm : D[m]? = some leaf) :
    verifyInclusion H m D.length leaf (auditPath H D m) root = true := by
  unfold verifyInclusion
  rw [hash_verifies H D h63 root hroot m leaf hm]
  simp

/-! ### B(ii): path length -/

/-- an audit path in a tree of `n ≤ 2^e` leaves has at most `e` elements, i.e. at most `⌈log₂ n⌉`. -/
theorem auditPath_length_le : ∀ (e n : Nat) (D : List Bytes) (m : Nat), D.length = n → n ≤ 2 ^ e →
    (auditPath H D m).length ≤ e := by
  intro e
  induction e with
  | zero =>
    intro n D m hn hle
    simp only [Nat.pow_zero] at hle
    rw [auditPath_small H D m (by omega)]; simp
  | succ e ih =>
    intro n D m hn hle
    have hs : 2 ^ (e + 1) = 2 * 2 ^ e := by rw [Nat.pow_succ]; omega
    by_cases hnP : n ≤ 2 ^ e
    · exact Nat.le_succ_of_le (ih n D m hn hnP)
    · have h2 : 2 ≤ D.length := by have := Nat.pow_pos (n := e) (by omega : 0 < 2); omega
      have hk : splitPoint D.length = 2 ^ e := by rw [hn]; exact splitPoint_eq n e (by omega) hle
      by_cases hm : m < splitPoint D.length
      · rw [auditPath_left H D m h2 hm, List.length_append, List.length_singleton]
        have := ih _ (D.take (splitPoint D.length)) m rfl (by rw [List.length_take, hk]; omega)
        omega
      · rw [auditPath_right H D m h2 (by omega), List.length_append, List.length_singleton]
        have := ih _ (D.drop (splitPoint D.length)) (m - splitPoint D.length) rfl
          (by rw [List.length_drop, hk]; omega)
        omega

/-- in a complete tree (`n = 2^e`) every audit path has exactly `e` elements. -/
theorem auditPath_length_pow2 : ∀ (e : Nat) (D : List Bytes) (m : Nat), D.length = 2 ^ e →
    (auditPath H D m).length = e := by
  intro e
  induction e with
  | zero =>
    intro D m hn
    simp only [Nat.pow_zero] at hn
    rw [auditPath_small H D m (by omega)]; simp
  | succ e ih =>
    intro D m hn
    have hs : 2 ^ (e + 1) = 2 * 2 ^ e := by rw [Nat.pow_succ]; omega
    have hp : 0 < 2 ^ e := Nat.pow_pos (by omega)
    have h2 : 2 ≤ D.length := by omega
    have hk : splitPoint D.length = 2 ^ e := by rw [hn]; exact splitPoint_eq _ e (by omega) (Nat.le_refl _)
    by_cases hm : m < splitPoint D.length
    · rw [auditPath_left H D m h2 hm, List.length_append, List.length_singleton,
        ih (D.take (splitPoint D.length)) m (by rw [List.length_take, hk]; omega)]
    · rw [auditPath_right H D m h2 (by omega), List.length_append, List.length_singleton,
        ih (D.drop (splitPoint D.length)) _ (by rw [List.length_drop, hk]; omega)]

/-- `⌈log₂ n⌉` (0 for `n ≤ 1`). -/
def clog2 (n : Nat) : Nat := if n ≤ 1 then 0 else Nat.log2 (n - 1) + 1

/-- `clog2 n` is the least `e` with `n ≤ 2^e`. -/
theorem clog2_spec (n : Nat) : n ≤ 2 ^ clog2 n ∧ ∀ e, n ≤ 2 ^ e → clog2 n ≤ e := by
  unfold clog2
  by_cases h : n ≤ 1
  · simp [h]
  · simp only [h, if_false]
    refine ⟨?_, fun e he => ?_⟩
    · have := @Nat.lt_log2_self (n - 1); omega
    · have : (n - 1).log2 < e := (Nat.log2_lt (by omega)).mpr (by omega)
      omega

/-- **Headline B(ii).** -/
theorem auditPath_length_le_clog2 (D : List Bytes) (m : Nat) : (auditPath H D m).length ≤ clog2 D.length :=
  auditPath_length_le H _ _ D m rfl (clog2_spec D.length).1

/-! ### B(iii): soundness, relative to collision-freeness on the strings actually hashed -/

/-- The verifier's control flow depends only on `fn`, `sn` and the number of path elements, so two runs from the same
position that end in the same root either started from the same node with the same path or feed `H` two different
strings with the same image at the same step. -/
theorem rfp_injective (len : Nat) (hlen : ∀ x, (H x).length = len) (X : Bytes) :
    ∀ (path path' : List Bytes) (fn sn : Nat) (r r' : Bytes), r.length = len → r'.length = len →
    (∀ x ∈ rootFromPathInputs H fn sn r path, ∀ y ∈ rootFromPathInputs H fn sn r' path', H x = H y → x = y) →
    rootFromPath H fn sn r path = some X → rootFromPath H fn sn r' path' = some X →
    r = r' ∧ path = path' := by
  intro path
  induction path with
  | nil =>
    intro path' fn sn r r' _ _ _ h1 h2
    rw [rfp_nil] at h1
    by_cases hsn : sn = 0
    · match path' with
      | [] =>
        rw [rfp_nil] at h2
        simp only [hsn, if_true, Option.some.injEq] at h1 h2
        exact ⟨h1.trans h2.symm, rfl⟩
      | p' :: path' => simp [rootFromPath, hsn] at h2
    · simp [hsn] at h1
  | cons p path ih =>
    intro path' fn sn r r' hr hr' hcf h1 h2
    match path' with
    | [] =>
      rw [rfp_nil] at h2
      by_cases hsn : sn = 0
      · simp [rootFromPath, hsn] at h1
      · simp [hsn] at h2
    | p' :: path' =>
      by_cases hsn : sn = 0
      · simp [rootFromPath, hsn] at h1
      by_cases hc : fn % 2 = 1 ∨ fn = sn
      · simp only [rootFromPath, rootFromPathInputs, hsn, hc, if_true, if_false] at h1 h2 hcf
        have := ih path' _ _ _ _ (hlen _) (hlen _)
          (fun x hx y hy => hcf x (List.mem_cons_of_mem _ hx) y (List.mem_cons_of_mem _ hy)) h1 h2
        have he := hcf _ List.mem_cons_self _ List.mem_cons_self this.1
        have he' := List.append_inj' (List.cons.inj he).2 (hr.trans hr'.symm)
        exact ⟨he'.2, by rw [he'.1, this.2]⟩
      · simp only [rootFromPath, rootFromPathInputs, hsn, hc, if_false] at h1 h2 hcf
        have := ih path' _ _ _ _ (hlen _) (hlen _)
          (fun x hx y hy => hcf x (List.mem_cons_of_mem _ hx) y (List.mem_cons_of_mem _ hy)) h1 h2
        have he := hcf _ List.mem_cons_self _ List.mem_cons_self this.1
        have he' := List.append_inj (List.cons.inj he).2 (hr.trans hr'.symm)
        exact ⟨he'.1, by rw [he'.2, this.2]⟩

/-- **B(iii), soundness.**  Let `H` have fixed output length.  If a path verifies for index `m` and leaf content `leaf'`
against `MTH(D)`, and `H` has no collision between the strings hashed in that run and the strings hashed when
verifying the genuine audit path of leaf `m` (the preimages of the leaf and of the tree nodes above it), then `leaf'`
is leaf `m` of `D` and the path is the genuine audit path. -/
theorem verifyPath_sound (len : Nat) (hlen : ∀ x, (H x).length = len) (D : List Bytes) (m : Nat) (leaf' : Bytes)
    (path' : List Bytes)
    (hcf : ∀ d, D[m]? = some d → ∀ x ∈ verifyPathInputs H m D.length d (auditPath H D m),
      ∀ y ∈ verifyPathInputs H m D.length leaf' path', H x = H y → x = y)
    (hv : verifyPath H m D.length leaf' path' = some (mth H D)) :
    D[m]? = some leaf' ∧ path' = auditPath H D m := by
  unfold verifyPath at hv
  by_cases hm : m < D.length
  · have hd : D[m]? = some D[m] := List.getElem?_eq_getElem hm
    have hc := verifyPath_auditPath H D m D[m] hd
    unfold verifyPath at hc
    rw [if_pos hm] at hv hc
    have hcf' := hcf _ hd
    unfold verifyPathInputs at hcf'
    have := rfp_injective H len hlen _ _ _ _ _ _ _ (hlen _) (hlen _)
      (fun x hx y hy => hcf' x (List.mem_cons_of_mem _ hx) y (List.mem_cons_of_mem _ hy)) hc hv
    have he := hcf' _ List.mem_cons_self _ List.mem_cons_self this.1
    exact ⟨by rw [hd, (List.cons.inj he).2], this.2.symm⟩
  · rw [if_neg hm] at hv; cases hv

/-- the same, as "a forged inclusion proof exhibits a collision of `H`". -/
theorem verifyPath_forgery_collision (len : Nat) (hlen : ∀ x, (H x).length = len) (D : List Bytes) (m : Nat)
    (leaf' : Bytes) (path' : List Bytes) (hv : verifyPath H m D.length leaf' path' = some (mth H D)) :
    (D[m]? = some leaf' ∧ path' = auditPath H D m) ∨
    ∃ d, D[m]? = some d ∧ ∃ x ∈ verifyPathInputs H m D.length d (auditPath H D m),
      ∃ y ∈ verifyPathInputs H m D.length leaf' path', x ≠ y ∧ H x = H y := by
  apply Classical.byContradiction
  intro hn
  rw [not_or] at hn
  apply hn.1
  apply verifyPath_sound H len hlen D m leaf' path' _ hv
  intro d hd x hx y hy hxy
  apply Classical.byContradiction
  intro hne
  exact hn.2 ⟨d, hd, x, hx, y, hy, hne, hxy⟩

/-! ## C. non-vacuity: the constructions evaluated on small trees -/
section Examples

/-- a toy "hash" with 4-byte output that depends on the length and the first three bytes of its input. -/
private def toy : Bytes → Bytes := fun b => [b.length.toUInt8] ++ (b ++ [0, 0, 0]).take 3
/-- `n` distinct leaves of varying length. -/
private def leaves (n : Nat) : List Bytes := (List.range n).map fun i => List.replicate (i % 3 + 1) i.toUInt8

private def rootOf {ε : Type} : Except ε Bytes → Option Bytes
  | .ok r => some r
  | .error _ => none

/-- model = bottom-up = RFC recursion, and every leaf's audit path verifies against that root. -/
private def agree (H : Bytes → Bytes) (n : Nat) : Bool :=
  let D := leaves n
  rootOf (hash (ε := Unit) H (D.map .ok)) == some (bottomUp H D) && bottomUp H D == mth H D &&
  (List.range n).all fun m =>
    verifyInclusion H m n (D.getD m []) (auditPath H D m) (bottomUp H D) &&
    (auditPath H D m).length ≤ clog2 n

example : agree toy 0 ∧ agree toy 1 ∧ agree toy 2 ∧ agree toy 3 ∧ agree toy 4 ∧ agree toy 5 ∧ agree toy 6 ∧
    agree toy 7 ∧ agree toy 8 ∧ agree toy 9 ∧ agree toy 13 := by decide +kernel
example : agree id 0 ∧ agree id 1 ∧ agree id 2 ∧ agree id 3 ∧ agree id 5 ∧ agree id 7 ∧ agree id 11 := by
  decide +kernel

/-! with `H = id` the tree shape is visible in the result -/
example : bottomUp id [] = [] ∧ bottomUp id [[7]] = [0, 7] ∧ bottomUp id [[7], [8]] = [1, 0, 7, 0, 8] := by
  decide +kernel
example : bottomUp id [[7], [8], [9]] = [1, 1, 0, 7, 0, 8, 0, 9] := by decide +kernel
example : rootOf (hash (ε := Unit) id [.ok [7], .ok [8], .ok [9]]) = some [1, 1, 0, 7, 0, 8, 0, 9] := by
  decide +kernel
/-- five leaves: ((a b) (c d)) e -/
example : bottomUp id [[10], [11], [12], [13], [14]] =
    [1, 1, 1, 0, 10, 0, 11, 1, 0, 12, 0, 13, 0, 14] := by decide +kernel
example : mth id [[10], [11], [12], [13], [14]] = [1, 1, 1, 0, 10, 0, 11, 1, 0, 12, 0, 13, 0, 14] := by
  decide +kernel
/-- the audit path of the last of five leaves is the single node over the first four;
that of leaf 2 is `d`, `(a b)`, `e`. -/
example : auditPath id [[10], [11], [12], [13], [14]] 4 = [[1, 1, 0, 10, 0, 11, 1, 0, 12, 0, 13]] := by
  decide +kernel
example : auditPath id [[10], [11], [12], [13], [14]] 2 = [[0, 13], [1, 0, 10, 0, 11], [0, 14]] := by
  decide +kernel
example : verifyPath id 2 5 [12] [[0, 13], [1, 0, 10, 0, 11], [0, 14]] =
    some [1, 1, 1, 0, 10, 0, 11, 1, 0, 12, 0, 13, 0, 14] := by decide +kernel

/-! the verifier is not trivially accepting (`H = id`, which is collision-free): a wrong leaf, a wrong index, a tree
size that does not fit the path, a truncated or an extended path, and an index outside the tree all fail -/
example : verifyInclusion id 2 5 [9, 9] (auditPath id (leaves 5) 2) (bottomUp id (leaves 5)) = false := by
  decide +kernel
example : verifyInclusion id 3 5 ((leaves 5).getD 2 []) (auditPath id (leaves 5) 2) (bottomUp id (leaves 5))
    = false := by decide +kernel
example : verifyPath id 2 9 ((leaves 5).getD 2 []) (auditPath id (leaves 5) 2) = none := by decide +kernel
example : verifyPath id 2 5 ((leaves 5).getD 2 []) ((auditPath id (leaves 5) 2).take 2) = none := by
  decide +kernel
example : verifyPath id 2 5 ((leaves 5).getD 2 []) (auditPath id (leaves 5) 2 ++ [[1]]) = none := by
  decide +kernel
example : verifyPath id 5 5 [] [] = none := by decide +kernel

/-! B(iii): the strings hashed by the verifier; `toy` has fixed output length; and because `toy` is weak, a forged
leaf does verify against the genuine root -- with the collision the soundness theorem promises (third node preimage:
`[1, 9, 1, 2, 0, 9, 1, 4, 0]` and `[1, 9, 1, 2, 0, 9, 1, 3, 0]` both hash to `[9, 1, 9, 1]`). -/
example : verifyPathInputs id 2 5 [12] [[0, 13], [1, 0, 10, 0, 11], [0, 14]] =
    [[0, 12], [1, 0, 12, 0, 13], [1, 1, 0, 10, 0, 11, 1, 0, 12, 0, 13],
     [1, 1, 1, 0, 10, 0, 11, 1, 0, 12, 0, 13, 0, 14]] := by decide +kernel
example : ∀ x, (toy x).length = 4 := by intro x; simp [toy]
example : verifyPath toy 2 5 [9, 9] (auditPath toy (leaves 5) 2) = some (mth toy (leaves 5)) ∧
    (leaves 5)[2]? = some [2, 2, 2] ∧
    [1, 9, 1, 2, 0, 9, 1, 4, 0] ∈ verifyPathInputs toy 2 5 [2, 2, 2] (auditPath toy (leaves 5) 2) ∧
    [1, 9, 1, 2, 0, 9, 1, 3, 0] ∈ verifyPathInputs toy 2 5 [9, 9] (auditPath toy (leaves 5) 2) ∧
    toy [1, 9, 1, 2, 0, 9, 1, 4, 0] = toy [1, 9, 1, 2, 0, 9, 1, 3, 0] := by decide +kernel

end Examples

end Iota.Proofs.MerkleTree
