import Iota.Proofs.B1T6

namespace Iota.Proofs.B1T8
open Iota.B1T8

def bit2 : Fin 2 → Int
  | 0 => 0 | 1 => 1

theorem not_bad {t : Int} (h : badTrit t = false) : ∃ i : Fin 2, t = bit2 i := by
  simp only [badTrit, Bool.not_eq_false', Bool.or_eq_true, beq_iff_eq] at h
  rcases h with h | h
  · exact ⟨0, h⟩
  · exact ⟨1, h⟩

def byteCheck (b : UInt8) : Bool :=
  match encodeByte b with
  | [t0,t1,t2,t3,t4,t5,t6,t7] =>
    (packByte [t0,t1,t2,t3,t4,t5,t6,t7] == some b) &&
    (encodeByte b == (List.range 8).map (fun i => (((b.toNat >>> i) % 2 : Nat) : Int)))
  | _ => false

theorem byteCheck_all (b : UInt8) : byteCheck b = true :=
  forall_byte (P := fun b => byteCheck b = true) (by decide +kernel) b

theorem encodeByte_shape (b : UInt8) : ∃ t0 t1 t2 t3 t4 t5 t6 t7,
    encodeByte b = [t0,t1,t2,t3,t4,t5,t6,t7] ∧ packByte [t0,t1,t2,t3,t4,t5,t6,t7] = some b := by
  have h := byteCheck_all b
  unfold byteCheck at h
  split at h
  · rename_i t0 t1 t2 t3 t4 t5 t6 t7 he
    simp only [Bool.and_eq_true, beq_iff_eq] at h
    exact ⟨t0,t1,t2,t3,t4,t5,t6,t7, he, h.1⟩
  · simp at h

theorem encodeByte_spec (b : UInt8) :
    encodeByte b = (List.range 8).map (fun i => (((b.toNat >>> i) % 2 : Nat) : Int)) := by
  have h := byteCheck_all b
  unfold byteCheck at h
  split at h
  · simp only [Bool.and_eq_true, beq_iff_eq] at h
    exact h.2
  · simp at h

def groupCheck (t0 t1 t2 t3 t4 t5 t6 t7 : Int) : Bool :=
  match packByte [t0,t1,t2,t3,t4,t5,t6,t7] with
  | some b => encodeByte b == [t0,t1,t2,t3,t4,t5,t6,t7]
  | none => false

theorem groupCheck_all : ∀ i0 i1 i2 i3 i4 i5 i6 i7 : Fin 2,
    groupCheck (bit2 i0) (bit2 i1) (bit2 i2) (bit2 i3) (bit2 i4) (bit2 i5) (bit2 i6) (bit2 i7) = true := by
  decide +kernel

theorem packByte_none_iff (g : List Int) : packByte g = none ↔ g.any badTrit = true := by
  unfold packByte
  split <;> simp_all

theorem group_sound {t0 t1 t2 t3 t4 t5 t6 t7 : Int} {b : UInt8}
    (h : packByte [t0,t1,t2,t3,t4,t5,t6,t7] = some b) :
    encodeByte b = [t0,t1,t2,t3,t4,t5,t6,t7] := by
  have hn : ¬ ([t0,t1,t2,t3,t4,t5,t6,t7].any badTrit = true) := by
    intro hb
    rw [← packByte_none_iff, h] at hb
    simp at hb
  simp only [List.any_cons, List.any_nil, Bool.or_false, Bool.or_eq_true, not_or,
    Bool.not_eq_true] at hn
  obtain ⟨h0, h1, h2, h3, h4, h5, h6, h7⟩ := hn
  obtain ⟨i0, rfl⟩ := not_bad h0
  obtain ⟨i1, rfl⟩ := not_bad h1
  obtain ⟨i2, rfl⟩ := not_bad h2
  obtain ⟨i3, rfl⟩ := not_bad h3
  obtain ⟨i4, rfl⟩ := not_bad h4
  obtain ⟨i5, rfl⟩ := not_bad h5
  obtain ⟨i6, rfl⟩ := not_bad h6
  obtain ⟨i7, rfl⟩ := not_bad h7
  have := groupCheck_all i0 i1 i2 i3 i4 i5 i6 i7
  unfold groupCheck at this
  rw [h] at this
  simpa using this

theorem encode_cons (b : UInt8) (bs : List UInt8) : encode (b :: bs) = encodeByte b ++ encode bs := by
  simp [encode]

theorem decode_encode_append (bs : List UInt8) (rest : List Int) :
    decode (encode bs ++ rest) = (bs ++ (decode rest).1, (decode rest).2) := by
  induction bs with
  | nil => simp [encode]
  | cons b bs ih =>
    obtain ⟨t0,t1,t2,t3,t4,t5,t6,t7, he, hp⟩ := encodeByte_shape b
    rw [encode_cons, List.append_assoc, he]
    simp only [List.cons_append, List.nil_append, decode, hp, ih]

theorem decode_nil : decode [] = ([], none) := by simp [decode]

theorem decode_encode (bs : List UInt8) : decode (encode bs) = (bs, none) := by
  have := decode_encode_append bs []
  simpa [decode_nil] using this

theorem decode_ok_imp (ts : List Int) : ∀ bs, decode ts = (bs, none) → ts = encode bs := by
  fun_induction decode ts with
  | case1 t0 t1 t2 t3 t4 t5 t6 t7 rest hd =>
    intro bs h; simp at h
  | case2 t0 t1 t2 t3 t4 t5 t6 t7 rest b hd r ih =>
    intro bs h
    simp only [Prod.mk.injEq] at h
    have hg := group_sound hd
    have hr := ih r.1 (Prod.ext rfl h.2)
    rw [← h.1, encode_cons, hg, ← hr]
    rfl
  | case3 =>
    intro bs h
    simp only [Prod.mk.injEq] at h
    rw [← h.1]; simp [encode]
  | case4 rem h1 h2 hb =>
    intro bs h; simp at h
  | case5 rem h1 h2 hb =>
    intro bs h; simp at h

theorem decode_ok_iff (ts : List Int) (bs : List UInt8) :
    decode ts = (bs, none) ↔ ts = encode bs :=
  ⟨decode_ok_imp ts bs, fun h => h ▸ decode_encode bs⟩

theorem decode_invalid_group (pre : List UInt8) (g rest : List Int)
    (hg : g.length = 8) (hbad : g.any badTrit = true) :
    decode (encode pre ++ g ++ rest) = (pre, some .invalidTrit) := by
  rw [List.append_assoc, decode_encode_append]
  match g, hg with
  | [t0,t1,t2,t3,t4,t5,t6,t7], _ =>
    have hp := (packByte_none_iff _).mpr hbad
    simp only [List.cons_append, List.nil_append, decode, hp]
    simp

theorem decode_remainder (pre : List UInt8) (r : List Int)
    (h0 : 0 < r.length) (h8 : r.length < 8) :
    decode (encode pre ++ r) =
      (pre, some (if r.any badTrit then .invalidTrit else .invalidLength)) := by
  rw [decode_encode_append]
  match r, h0, h8 with
  | [_], _, _ => simp only [decode]; split <;> simp_all
  | [_,_], _, _ => simp only [decode]; split <;> simp_all
  | [_,_,_], _, _ => simp only [decode]; split <;> simp_all
  | [_,_,_,_], _, _ => simp only [decode]; split <;> simp_all
  | [_,_,_,_,_], _, _ => simp only [decode]; split <;> simp_all
  | [_,_,_,_,_,_], _, _ => simp only [decode]; split <;> simp_all
  | [_,_,_,_,_,_,_], _, _ => simp only [decode]; split <;> simp_all
  | _ :: _ :: _ :: _ :: _ :: _ :: _ :: _ :: _, _, h8 => simp at h8; omega

end Iota.Proofs.B1T8
