/- ASCII case folding, separator search and case validation lemmas for the Bech32 model. -/
import Iota.Proofs.Bech32Checksum
import Iota.Spec.Bip173

namespace Iota.Proofs.Bech32
open Iota.Bech32 Iota.Proofs Iota.Spec.Bip173

/-! ### per-character facts (256 cases) -/

def caseCheck (c : UInt8) : Bool :=
  (toLowerAscii (toLowerAscii c) == toLowerAscii c) &&
  (toLowerAscii (toUpperAscii c) == toLowerAscii c) &&
  (isValidHRPChar (toLowerAscii c) == isValidHRPChar c) &&
  (isValidHRPChar (toUpperAscii c) == isValidHRPChar c) &&
  ((toLowerAscii c == 49) == (c == 49)) && ((toUpperAscii c == 49) == (c == 49)) &&
  (isUpperAscii (toLowerAscii c) == false) && (isLowerAscii (toUpperAscii c) == false) &&
  (decide ((toLowerAscii c).toNat < 128) == decide (c.toNat < 128)) &&
  (decide ((toUpperAscii c).toNat < 128) == decide (c.toNat < 128)) &&
  (!(isUpperAscii c && isLowerAscii c)) &&
  (isUpperAscii c || (toLowerAscii c == c)) && (isLowerAscii c || (toUpperAscii c == c)) &&
  (!isUpperAscii c || (toLowerAscii c != c)) && (!isLowerAscii c || (toUpperAscii c != c)) &&
  (decide (33 ≤ c.toNat ∧ c.toNat ≤ 126) == isValidHRPChar c)

theorem caseCheck_all (c : UInt8) : caseCheck c = true :=
  forall_byte (P := fun c => caseCheck c = true) (by decide +kernel) c

theorem lower_lower_c (c : UInt8) : toLowerAscii (toLowerAscii c) = toLowerAscii c := by
  have := caseCheck_all c; simp only [caseCheck, Bool.and_eq_true, beq_iff_eq] at this; exact this.1.1.1.1.1.1.1.1.1.1.1.1.1.1.1
theorem lower_upper_c (c : UInt8) : toLowerAscii (toUpperAscii c) = toLowerAscii c := by
  have := caseCheck_all c; simp only [caseCheck, Bool.and_eq_true, beq_iff_eq] at this; exact this.1.1.1.1.1.1.1.1.1.1.1.1.1.1.2
theorem valid_lower_c (c : UInt8) : isValidHRPChar (toLowerAscii c) = isValidHRPChar c := by
  have := caseCheck_all c; simp only [caseCheck, Bool.and_eq_true, beq_iff_eq] at this; exact this.1.1.1.1.1.1.1.1.1.1.1.1.1.2
theorem valid_upper_c (c : UInt8) : isValidHRPChar (toUpperAscii c) = isValidHRPChar c := by
  have := caseCheck_all c; simp only [caseCheck, Bool.and_eq_true, beq_iff_eq] at this; exact this.1.1.1.1.1.1.1.1.1.1.1.1.2
theorem lower_eq_sep (c : UInt8) : toLowerAscii c = 49 ↔ c = 49 := by
  have := caseCheck_all c; simp only [caseCheck, Bool.and_eq_true, beq_iff_eq] at this
  have h := this.1.1.1.1.1.1.1.1.1.1.1.2
  constructor
  · intro h1; have : (toLowerAscii c == 49) = true := by simp [h1]
    rw [h] at this; simpa using this
  · intro h1; have : (c == 49) = true := by simp [h1]
    rw [← h] at this; simpa using this
theorem upper_eq_sep (c : UInt8) : toUpperAscii c = 49 ↔ c = 49 := by
  have := caseCheck_all c; simp only [caseCheck, Bool.and_eq_true, beq_iff_eq] at this
  have h := this.1.1.1.1.1.1.1.1.1.1.2
  constructor
  · intro h1; have : (toUpperAscii c == 49) = true := by simp [h1]
    rw [h] at this; simpa using this
  · intro h1; have : (c == 49) = true := by simp [h1]
    rw [← h] at this; simpa using this
theorem not_upper_lower_c (c : UInt8) : isUpperAscii (toLowerAscii c) = false := by
  have := caseCheck_all c; simp only [caseCheck, Bool.and_eq_true, beq_iff_eq] at this; exact this.1.1.1.1.1.1.1.1.1.2
theorem not_lower_upper_c (c : UInt8) : isLowerAscii (toUpperAscii c) = false := by
  have := caseCheck_all c; simp only [caseCheck, Bool.and_eq_true, beq_iff_eq] at this; exact this.1.1.1.1.1.1.1.1.2
theorem ascii_lower_c (c : UInt8) : (toLowerAscii c).toNat < 128 ↔ c.toNat < 128 := by
  have := caseCheck_all c; simp only [caseCheck, Bool.and_eq_true, beq_iff_eq] at this
  have h := this.1.1.1.1.1.1.1.2
  simpa using h
theorem ascii_upper_c (c : UInt8) : (toUpperAscii c).toNat < 128 ↔ c.toNat < 128 := by
  have := caseCheck_all c; simp only [caseCheck, Bool.and_eq_true, beq_iff_eq] at this
  have h := this.1.1.1.1.1.1.2
  simpa using h
theorem not_both_c (c : UInt8) : ¬ (isUpperAscii c = true ∧ isLowerAscii c = true) := by
  have := caseCheck_all c; simp only [caseCheck, Bool.and_eq_true, beq_iff_eq] at this
  have h := this.1.1.1.1.1.2
  intro ⟨h1, h2⟩
  simp [h1, h2] at h
theorem lower_id_c (c : UInt8) (h : isUpperAscii c = false) : toLowerAscii c = c := by
  have := caseCheck_all c; simp only [caseCheck, Bool.and_eq_true, beq_iff_eq] at this
  have h' := this.1.1.1.1.2
  simpa [h] using h'
theorem upper_id_c (c : UInt8) (h : isLowerAscii c = false) : toUpperAscii c = c := by
  have := caseCheck_all c; simp only [caseCheck, Bool.and_eq_true, beq_iff_eq] at this
  have h' := this.1.1.1.2
  simpa [h] using h'
theorem lower_ne_c (c : UInt8) (h : isUpperAscii c = true) : toLowerAscii c ≠ c := by
  have := caseCheck_all c; simp only [caseCheck, Bool.and_eq_true, beq_iff_eq] at this
  have h' := this.1.1.2
  simpa [h] using h'
theorem upper_ne_c (c : UInt8) (h : isLowerAscii c = true) : toUpperAscii c ≠ c := by
  have := caseCheck_all c; simp only [caseCheck, Bool.and_eq_true, beq_iff_eq] at this
  have h' := this.1.2
  simpa [h] using h'
theorem valid_iff_c (c : UInt8) : isValidHRPChar c = true ↔ 33 ≤ c.toNat ∧ c.toNat ≤ 126 := by
  have := caseCheck_all c; simp only [caseCheck, Bool.and_eq_true, beq_iff_eq] at this
  have h := this.2
  rw [← h]; simp

/-! ### strings -/

theorem lower_length (s : Str) : (lower s).length = s.length := by simp [lower]
theorem upper_length (s : Str) : (upper s).length = s.length := by simp [upper]
theorem lower_append (a b : Str) : lower (a ++ b) = lower a ++ lower b := by simp [lower]
theorem upper_append (a b : Str) : upper (a ++ b) = upper a ++ upper b := by simp [upper]
theorem lower_take (n : Nat) (s : Str) : (lower s).take n = lower (s.take n) := by simp [lower, List.map_take]
theorem lower_drop (n : Nat) (s : Str) : (lower s).drop n = lower (s.drop n) := by simp [lower, List.map_drop]
theorem lower_lower (s : Str) : lower (lower s) = lower s := by
  simp [lower, lower_lower_c]
theorem lower_upper (s : Str) : lower (upper s) = lower s := by
  simp [lower, upper, lower_upper_c]
theorem lower_sep : lower [separator] = [separator] := by decide

theorem lower_eq_self_iff (s : Str) : lower s = s ↔ ∀ c ∈ s, isUpperAscii c = false := by
  induction s with
  | nil => simp [lower]
  | cons c cs ih =>
    simp only [lower, List.map_cons, List.cons.injEq, List.mem_cons, forall_eq_or_imp] at ih ⊢
    constructor
    · rintro ⟨h1, h2⟩
      refine ⟨?_, ih.mp h2⟩
      cases hu : isUpperAscii c with
      | false => rfl
      | true => exact absurd h1 (lower_ne_c c hu)
    · rintro ⟨h1, h2⟩
      exact ⟨lower_id_c c h1, ih.mpr h2⟩

theorem upper_eq_self_of (s : Str) (h : ∀ c ∈ s, isLowerAscii c = false) : upper s = s := by
  induction s with
  | nil => rfl
  | cons c cs ih =>
    simp only [upper, List.map_cons, List.cons.injEq]
    exact ⟨upper_id_c c (h c (by simp)), ih (fun x hx => h x (by simp [hx]))⟩

/-! ### separator search -/

theorem lastIndexSep_none (s : Str) : lastIndexSep s = none ↔ separator ∉ s := by
  induction s with
  | nil => simp [lastIndexSep]
  | cons c cs ih =>
    simp only [lastIndexSep]
    split
    · rename_i i hi
      simp only [reduceCtorEq, List.mem_cons, not_or, false_iff, not_and, Classical.not_not]
      intro _
      have : ¬ (lastIndexSep cs = none) := by rw [hi]; simp
      exact Classical.not_not.mp (fun h => this (ih.mpr h))
    · rename_i hn
      have := ih.mp hn
      by_cases hc : c = separator
      · simp [hc]
      · simp [hc, this]; exact fun h => hc h.symm

theorem lastIndexSep_some (s : Str) (i : Nat) (h : lastIndexSep s = some i) :
    i < s.length ∧ s = s.take i ++ [separator] ++ s.drop (i + 1) ∧ separator ∉ s.drop (i + 1) := by
  induction s generalizing i with
  | nil => simp [lastIndexSep] at h
  | cons c cs ih =>
    simp only [lastIndexSep] at h
    split at h
    · rename_i j hj
      simp only [Option.some.injEq] at h
      subst h
      obtain ⟨h1, h2, h3⟩ := ih j hj
      refine ⟨by simp; omega, ?_, ?_⟩
      · simp only [List.take_succ_cons, List.drop_succ_cons, List.cons_append, List.cons.injEq, true_and]
        simpa using h2
      · simpa using h3
    · rename_i hn
      split at h
      · rename_i hc
        simp only [Option.some.injEq] at h
        subst h
        refine ⟨by simp, by simp [hc], ?_⟩
        simpa using (lastIndexSep_none cs).mp hn
      · simp at h

theorem lastIndexSep_of_split (h d : Str) (hd : separator ∉ d) :
    lastIndexSep (h ++ [separator] ++ d) = some h.length := by
  induction h with
  | nil =>
    simp only [List.nil_append, List.cons_append, lastIndexSep, (lastIndexSep_none d).mpr hd]
    simp
  | cons c cs ih =>
    simp only [List.cons_append, lastIndexSep]
    rw [ih]; simp

/-! ### case validation -/

theorem findIdx_none_iff (p : UInt8 → Bool) (s : Str) : s.findIdx? p = none ↔ ∀ c ∈ s, p c = false := by
  rw [List.findIdx?_eq_none_iff]

theorem findIdx_some_lt (p : UInt8 → Bool) (s : Str) (i : Nat) (h : s.findIdx? p = some i) : i < s.length := by
  have := List.findIdx?_eq_some_iff_getElem.mp h
  exact this.1

theorem findIdx_some_get (p : UInt8 → Bool) (s : Str) (i : Nat) (h : s.findIdx? p = some i) :
    ∃ c ∈ s, p c = true := by
  obtain ⟨hlt, hp, _⟩ := List.findIdx?_eq_some_iff_getElem.mp h
  exact ⟨s[i], List.getElem_mem hlt, hp⟩

theorem validateCase_none_iff (s : Str) : validateCase s = none ↔ ¬ (hasUpper s ∧ hasLower s) := by
  unfold validateCase firstUpper firstLower
  constructor
  · intro h ⟨⟨cu, hcu, hu⟩, ⟨cl, hcl, hl⟩⟩
    cases hU : s.findIdx? isUpperAscii with
    | none => rw [findIdx_none_iff] at hU; rw [hU cu hcu] at hu; simp at hu
    | some u =>
      cases hL : s.findIdx? isLowerAscii with
      | none => rw [findIdx_none_iff] at hL; rw [hL cl hcl] at hl; simp at hl
      | some l =>
        rw [hU, hL] at h
        simp only at h
        obtain ⟨hu1, hu2, _⟩ := List.findIdx?_eq_some_iff_getElem.mp hU
        obtain ⟨hl1, hl2, _⟩ := List.findIdx?_eq_some_iff_getElem.mp hL
        by_cases h1 : u < l
        · simp [h1] at h
        · by_cases h2 : l < u
          · simp [h1, h2] at h
          · have : u = l := by omega
            subst this
            exact not_both_c _ ⟨hu2, hl2⟩
  · intro h
    cases hU : s.findIdx? isUpperAscii with
    | none => rfl
    | some u =>
      cases hL : s.findIdx? isLowerAscii with
      | none => rfl
      | some l =>
        exact absurd ⟨findIdx_some_get _ _ _ hU, findIdx_some_get _ _ _ hL⟩ h

theorem validateCase_some_lt (s : Str) (off : Nat) (h : validateCase s = some off) : off < s.length := by
  unfold validateCase firstUpper firstLower at h
  cases hU : s.findIdx? isUpperAscii with
  | none => rw [hU] at h; simp at h
  | some u =>
    cases hL : s.findIdx? isLowerAscii with
    | none => rw [hU, hL] at h; simp at h
    | some l =>
      rw [hU, hL] at h
      simp only at h
      have hu := findIdx_some_lt _ _ _ hU
      have hl := findIdx_some_lt _ _ _ hL
      split at h
      · simp only [Option.some.injEq] at h; omega
      · split at h
        · simp only [Option.some.injEq] at h; omega
        · simp at h

theorem hasUpper_lower (s : Str) : ¬ hasUpper (lower s) := by
  rintro ⟨c, hc, hu⟩
  simp only [lower, List.mem_map] at hc
  obtain ⟨x, _, rfl⟩ := hc
  rw [not_upper_lower_c] at hu; simp at hu

theorem hasLower_upper (s : Str) : ¬ hasLower (upper s) := by
  rintro ⟨c, hc, hu⟩
  simp only [upper, List.mem_map] at hc
  obtain ⟨x, _, rfl⟩ := hc
  rw [not_lower_upper_c] at hu; simp at hu

end Iota.Proofs.Bech32
