/-
C08: shifting a private key and shifting its public key agree, in any group of order `n` generated
by the base point (Weierstrass keys of pkg/slip10/elliptic over abstract curve operations).
-/
import Iota.Model.Slip10
import Mathlib.GroupTheory.OrderOfElement

namespace Iota.Proofs.Slip10Shift
open Iota.Slip10

variable {Pt : Type} [AddCommGroup Pt]

/-- what is assumed of the curve operations: they are the group operations of a cyclic group of order `n`. -/
structure LawfulW (w : WCurve Pt) (g : Pt) : Prop where
  add_eq : ∀ a b, w.add a b = a + b
  baseMul_eq : ∀ k : Bytes, w.baseMul k = (beNat k) • g
  inf_iff : ∀ a, w.isInfinity a = true ↔ a = 0
  order : addOrderOf g = w.n
  n_pos : 0 < w.n

theorem beNat_snoc (b : Bytes) (x : UInt8) : beNat (b ++ [x]) = beNat b * 256 + x.toNat := by
  simp [beNat, List.foldl_append]

theorem beNat_natBytes (fuel n : Nat) (h : n < 256 ^ fuel) : beNat (natBytes fuel n) = n := by
  induction fuel generalizing n with
  | zero => simp at h; subst h; rfl
  | succ fuel ih =>
    unfold natBytes
    split
    · rename_i h0; subst h0; rfl
    · have hdiv : n / 256 < 256 ^ fuel := by rw [Nat.pow_succ] at h; omega
      rw [beNat_snoc, ih _ hdiv]
      have : (UInt8.ofNat (n % 256)).toNat = n % 256 := by
        simp [UInt8.toNat_ofNat']
      rw [this]; omega

theorem nsmul_mod (g : Pt) (n m : Nat) (hn : addOrderOf g = n) : (m % n) • g = m • g := by
  rw [← hn]; exact mod_addOrderOf_nsmul g m

theorem nsmul_eq_zero_iff (g : Pt) (n m : Nat) (hn : addOrderOf g = n) : m • g = 0 ↔ m % n = 0 := by
  rw [← hn, ← Nat.dvd_iff_mod_eq_zero]; exact addOrderOf_dvd_iff_nsmul_eq_zero.symm

/-- the public key of the private key `k`. -/
theorem pub_priv (w : WCurve Pt) (g : Pt) (hw : LawfulW w g) (hk : Bytes) (k : Nat) (hkb : k < 256 ^ 40) :
    (wCurve w hk).pub (.priv k) = .pub (k • g) := by
  simp only [wCurve, hw.baseMul_eq, beNat_natBytes 40 k hkb]

/-- **C08**: for a private key `0 < k < n` and every shift `buf`, the private shift and the shift of the public
key either both report ErrInvalidKey — exactly when the shift is ≥ n or k + shift ≡ 0 (mod n) — or both succeed,
and then the public key of the shifted private key is the shifted public key. -/
theorem shift_commutes (w : WCurve Pt) (g : Pt) (hw : LawfulW w g) (hk : Bytes) (k : Nat)
    (hk0 : 0 < k) (hkn : k < w.n) (hn : w.n < 256 ^ 40) (buf : Bytes) :
    let c := wCurve w hk
    (beNat buf ≥ w.n ∨ (beNat buf + k) % w.n = 0 →
      c.shift (.priv k) buf = .error .invalidKey ∧ c.shift (c.pub (.priv k)) buf = .error .invalidKey) ∧
    (¬ (beNat buf ≥ w.n ∨ (beNat buf + k) % w.n = 0) →
      ∃ k' q, c.shift (.priv k) buf = .ok (.priv k') ∧ c.shift (c.pub (.priv k)) buf = .ok (.pub q) ∧
        0 < k' ∧ k' < w.n ∧ c.pub (.priv k') = .pub q) := by
  intro c
  have hpub : c.pub (.priv k) = .pub (k • g) := pub_priv w g hw hk k (by omega)
  have hsum : ∀ s : Nat, w.add (k • g) (w.baseMul buf) = (beNat buf + k) • g := by
    intro _; rw [hw.add_eq, hw.baseMul_eq, add_nsmul, add_comm]
  constructor
  · intro h
    rcases h with h | h
    · constructor
      · simp only [c, wCurve, h, if_true]
      · rw [hpub]; simp only [c, wCurve, h, if_true]
    · by_cases hge : beNat buf ≥ w.n
      · constructor
        · simp only [c, wCurve, hge, if_true]
        · rw [hpub]; simp only [c, wCurve, hge, if_true]
      · constructor
        · simp only [c, wCurve, hge, if_false, h, if_true]
        · rw [hpub]
          have hz : w.isInfinity (w.add (k • g) (w.baseMul buf)) = true := by
            rw [hw.inf_iff, hsum 0, nsmul_eq_zero_iff g w.n _ hw.order]; exact h
          simp only [c, wCurve, hge, if_false, hz, if_true]
  · intro h
    have hlt : ¬ beNat buf ≥ w.n := fun hh => h (Or.inl hh)
    have hne : ¬ (beNat buf + k) % w.n = 0 := fun hh => h (Or.inr hh)
    refine ⟨(beNat buf + k) % w.n, (beNat buf + k) • g, ?_, ?_, by omega, Nat.mod_lt _ hw.n_pos, ?_⟩
    · simp only [c, wCurve, hlt, if_false, hne]
    · rw [hpub]
      have hz : w.isInfinity (w.add (k • g) (w.baseMul buf)) = false := by
        cases hi : w.isInfinity (w.add (k • g) (w.baseMul buf)) with
        | false => rfl
        | true =>
          rw [hw.inf_iff, hsum 0, nsmul_eq_zero_iff g w.n _ hw.order] at hi
          exact absurd hi hne
      have hz' : w.isInfinity ((beNat buf + k) • g) = false := by rw [← hsum 0]; exact hz
      simp only [c, wCurve, hlt, if_false, hsum 0, hz']
      simp
    · have hlt' : (beNat buf + k) % w.n < 256 ^ 40 := Nat.lt_trans (Nat.mod_lt _ hw.n_pos) hn
      rw [pub_priv w g hw hk _ hlt', nsmul_mod g w.n _ hw.order]

end Iota.Proofs.Slip10Shift
