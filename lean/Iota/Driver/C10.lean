import Iota.Driver.Util
import Iota.Model.Bip32Path

namespace Iota.Driver.C10
open Iota Iota.Driver

def ops : List (String × Handler) := [
  ("path.parse", fun
    | [h] => match bytesOfHex h with
      | some s => match Bip32Path.parsePath s with
        | some p => s!"ok {csvOfNats p}"
        | none => "err"
      | none => badOp
    | _ => badOp),
  -- String, MarshalText, and parse(String) in one line
  ("path.print", fun
    | [c] => match natsOfCsv c with
      | some p =>
        let s := Bip32Path.printPath p
        let back := match Bip32Path.parsePath s with
          | some q => s!"ok {csvOfNats q}"
          | none => "err"
        s!"{hexOfBytes s} back={back}"
      | none => badOp
    | _ => badOp)
]

end Iota.Driver.C10
