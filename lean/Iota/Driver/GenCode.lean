import Iota.Driver.Util
import Iota.Gen.B1T6
import Iota.Gen.Pow
import Iota.Gen.Curl
import Iota.Gen.Bech32
import Iota.Gen.Ed
import Iota.Gen.Merkle
import Iota.Gen.Bip32Path
import Iota.Gen.Migration
import Iota.Model.Hash.Blake2b
import Iota.Driver.C15

/-!
Translation validation by execution: these ops run the definitions that cmd/extract GENERATED from the Go source
(`Iota/Gen/*.lean`), not the hand-written model, against the Go functions themselves — including destinations that are
too short, input outside the documented domain and negative lengths, where the outcome is a run-time panic.  A translator
that gave Go a wrong meaning would show up here as a disagreement even where the tie theorems (generated = model) and
the model-level correspondence (model = Go) say nothing.  Core Lean only.
-/
namespace Iota.Driver.GenCode
open Iota Iota.Driver

def bvOfBytes (bs : List UInt8) : List (BitVec 8) := bs.map UInt8.toBitVec
def bytesOfBv (bs : List (BitVec 8)) : List UInt8 := bs.map UInt8.ofBitVec
def bvOfInts (xs : List Int) : List (BitVec 8) := xs.map (BitVec.ofInt 8)
def intsOfBv (xs : List (BitVec 8)) : List Int := xs.map BitVec.toInt
def errStr : Option String → String
  | none => "nil" | some e => e

def wordsOfHex (s : String) : Option (List (BitVec 64)) := do
  let bs ← bytesOfHex s
  if bs.length % 8 ≠ 0 then none else
  pure <| (List.range (bs.length / 8)).map fun k =>
    BitVec.ofNat 64 ((List.range 8).foldl (fun acc j => acc * 256 + (bs.getD (8 * k + j) 0).toNat) 0)

def hexOfWords (ws : List (BitVec 64)) : String :=
  hexOfBytes (ws.flatMap fun w => (List.range 8).map fun j => UInt8.ofNat ((w.toNat >>> (8 * (7 - j))) % 256))

/-- `c.transform()` for the generated `Absorb` / `Squeeze`: the generated `transformGeneric` on two zeroed scratch planes -/
def trGen (l h : List (BitVec 64)) : Option (List (BitVec 64) × List (BitVec 64)) :=
  let z : List (BitVec 64) := List.replicate 729 0#64
  (Gen.Curl.code.transformGeneric z z l h).map fun r => (r.1, r.2.1)

def lanesOf (s : String) : Option (List (List (BitVec 8))) :=
  if s == "-" then some [] else (s.splitOn ";").mapM fun l => (intsOfCsv l).map bvOfInts

def strOfLanes (ls : List (List (BitVec 8))) : String :=
  if ls.isEmpty then "-" else ";".intercalate (ls.map fun l => csvOfInts (intsOfBv l))

/-- ASCII case mapping; the marker [0xff, 0xfe] for a string that is not ASCII -/
def asciiMap (f : BitVec 8 → BitVec 8) (s : List (BitVec 8)) : List (BitVec 8) :=
  if s.all (fun c => decide (c.toNat < 128)) then s.map f else [0xff#8, 0xfe#8]
def toLowerImpl : List (BitVec 8) → List (BitVec 8) :=
  asciiMap fun c => if 65 ≤ c.toNat ∧ c.toNat ≤ 90 then c + 32#8 else c
def toUpperImpl : List (BitVec 8) → List (BitVec 8) :=
  asciiMap fun c => if 97 ≤ c.toNat ∧ c.toNat ≤ 122 then c - 32#8 else c
/-- `strings.LastIndex(s, sep)` for a one-byte `sep` -/
def lastIndexImpl (s sep : List (BitVec 8)) : BitVec 64 :=
  match sep with
  | [b] =>
    match (List.range s.length).reverse.find? (fun i => s.getD i 0 == b) with
    | some i => BitVec.ofNat 64 i
    | none => BitVec.ofInt 64 (-1)
  | _ => BitVec.ofInt 64 (-1)
/-- the two tables of the package variable `charset`: what the generated `newEncoding` returns on the source's alphabet -/
def bechTables : Option (List (BitVec 8) × List (BitVec 8)) :=
  Gen.Bech32.chars.newEncoding (Gen.Bech32.charset.map (BitVec.ofNat 8))
def bechErr (e : String × Option (BitVec 64)) : String :=
  let kind := match e.1 with
    | "ErrInvalidLength" => "length" | "ErrMissingSeparator" => "missing-sep" | "ErrInvalidSeparator" => "sep"
    | "ErrInvalidCharacter" => "char" | "ErrMixedCase" => "case" | "ErrInvalidChecksum" => "checksum"
    | "base32.ErrInvalidLength" => "b32length" | "base32.ErrNonZeroPadding" => "padding" | other => other
  s!"err {kind} " ++ (match e.2 with | some o => toString o.toInt | none => "-")

/-- the generated `Hasher.Hash` on a list of leaves of the model's type: `hash_sum` = the named hash function on the
code's bytes, a failing leaf = (no bytes, the error number as its name), fuel = number of leaves + 1 -/
def merkleGen (H : List UInt8 → List UInt8) (leaves : List (Except Nat (List UInt8))) : String :=
  let hs : List (BitVec 8) → List (BitVec 8) := fun x => bvOfBytes (H (bytesOfBv x))
  let data : List (List (BitVec 8) × Option String) := leaves.map fun
    | .ok b => (bvOfBytes b, none)
    | .error k => ([], some (toString k))
  match Gen.Merkle.code.Hasher_Hash hs (leaves.length + 1) data with
  | none => "panic"
  | some (r, none) => s!"ok {hexOfBytes (bytesOfBv r)}"
  | some (_, some e) => s!"err {e}"

/-- `keyReg.FindStringSubmatch` for the regexp `(\d+)([H']?)`, leftmost-first: nothing without a digit; otherwise the
match starts at the first digit, takes all digits that follow and one `H` or `'` if it comes next -/
def findImpl (key : List (BitVec 8)) : List (List (BitVec 8)) :=
  let isD := fun (c : BitVec 8) => decide (48 ≤ c.toNat ∧ c.toNat ≤ 57)
  let rest := key.dropWhile (fun c => !isD c)
  if rest.isEmpty then [] else
  let ds := rest.takeWhile isD
  let mk := match rest.dropWhile isD with
    | c :: _ => if c == 72#8 || c == 39#8 then [c] else []
    | [] => []
  [ds ++ mk, ds, mk]
/-- `strconv.ParseUint(s, 10, bits)`: syntax error for an empty string or a non-digit, range error (with the maximum value)
beyond `bits` bits; only base 10 is implemented (other bases: a syntax error, never requested by the generated code) -/
def parseUintImpl (s : List (BitVec 8)) (base bits : BitVec 64) : BitVec 64 × Option String :=
  if base != 10#64 || s.isEmpty || !s.all (fun c => decide (48 ≤ c.toNat ∧ c.toNat ≤ 57)) then (0#64, some "ErrSyntax") else
  let v := s.foldl (fun acc c => acc * 10 + (c.toNat - 48)) 0
  if v < 2 ^ bits.toNat then (BitVec.ofNat 64 v, none) else (BitVec.ofNat 64 (2 ^ bits.toNat - 1), some "ErrRange")

/-- `blake2b.Sum256` for the generated migration code: the driver's BLAKE2b-256 on the code's bytes -/
def blakeImpl (x : List (BitVec 8)) : List (BitVec 8) := bvOfBytes (Hash.blake2b256 (bytesOfBv x))
def migErrKind (e : String) : String :=
  if e == "consts.ErrInvalidTrytesLength" then "length"
  else if e == "consts.ErrInvalidChecksum" then "checksum"
  else if (e.splitOn "prefix").length > 1 then "prefix"
  else if (e.splitOn "suffix").length > 1 then "suffix"
  else if e == "b1t6.ErrInvalidTrits" then "enc"
  else e

/-- the ops of stages 8 and 9 (bip32path, migration) -/
def opsB : List (String × Handler) := [
  -- pkg/migration: the generated Encode / Decode (with the iota.go b1t6 copy and guard they call)
  ("gen.mig.enc", fun
    | [h] => match bytesOfHex h with
      | some a =>
        let a32 := (a ++ List.replicate 32 0).take 32   -- the harness copies into a [32]byte
        match Gen.Migration.migration.Encode blakeImpl (bvOfBytes a32) with
        | none => "panic"
        | some r => hexOfBytes (bytesOfBv r)
      | none => badOp
    | _ => badOp),
  ("gen.mig.dec", fun
    | [h] => match bytesOfHex h with
      | some t => match Gen.Migration.migration.Decode blakeImpl (bvOfBytes t) with
        | none => "panic"
        | some (a, none) => s!"ok {hexOfBytes (bytesOfBv a)}"
        | some (_, some e) => s!"err {migErrKind e}"
      | none => badOp
    | _ => badOp),
  -- pkg/bip32path: the generated ParsePath / Path.String with the two library functions above
  ("gen.path.parse", fun
    | [h] => match bytesOfHex h with
      | some s => match Gen.Bip32Path.code.ParsePath findImpl parseUintImpl (bvOfBytes s) with
        | none => "panic"
        | some (p, none) => s!"ok {csvOfNats (p.map BitVec.toNat)}"
        | some (_, some e) => s!"err {e}"
      | none => badOp
    | _ => badOp),
  ("gen.path.print", fun
    | [c] => match natsOfCsv c with
      | some p => hexOfBytes (bytesOfBv (Gen.Bip32Path.code.Path_String (p.map (BitVec.ofNat 32))))
      | none => badOp
    | _ => badOp)
]

def ops : List (String × Handler) := [
  -- pkg/merkle: the four ops of the C15 stream, answered by the generated code (mirrored by the harness)
  ("gen.merkle.hash", fun
    | [hn, ls] => match C15.hashByName hn, (if ls == "-" then some [] else (ls.splitOn ";").mapM C15.parseLeaf) with
      | some H, some leaves => merkleGen H leaves
      | _, _ => badOp
    | _ => badOp),
  ("gen.merkle.gen", fun
    | [hn, n, seed, len, errAt] => match C15.hashByName hn, n.toNat?, seed.toNat?, len.toNat?, errAt.toInt? with
      | some H, some n, some seed, some len, some errAt =>
        merkleGen H ((List.range n).map fun (i : Nat) =>
          if Int.ofNat i == errAt then .error i else .ok (C15.genLeaf seed i (len + i % 3)))
      | _, _, _, _, _ => badOp
    | _ => badOp),
  ("gen.merkle.generrs", fun
    | [hn, n, seed, len, errs] => match C15.hashByName hn, n.toNat?, seed.toNat?, len.toNat? with
      | some H, some n, some seed, some len =>
        let bad := (errs.splitOn ",").filterMap String.toNat?
        merkleGen H ((List.range n).map fun (i : Nat) =>
          if bad.contains i then .error i else .ok (C15.genLeaf seed i (len + i % 3)))
      | _, _, _, _ => badOp
    | _ => badOp),
  ("gen.merkle.empty", fun
    | [hn] => match C15.hashByName hn with
      | some H => hexOfBytes (bytesOfBv (Gen.Merkle.code.Hasher_EmptyRoot fun x => bvOfBytes (H (bytesOfBv x))))
      | none => badOp
    | _ => badOp),
  ("gen.b1t6.enc", fun
    | [n, h] => match n.toNat?, bytesOfHex h with
      | some n, some src => match Gen.B1T6.b1t6.Encode (List.replicate n 7#8) (bvOfBytes src) with
        | none => "panic"
        | some (k, dst) => s!"n={k.toInt} dst={csvOfInts (intsOfBv dst)}"
      | _, _ => badOp
    | _ => badOp),
  ("gen.b1t6.dec", fun
    | [n, t] => match n.toNat?, intsOfCsv t with
      | some n, some ts => match Gen.B1T6.b1t6.Decode (List.replicate n 0xAA#8) (bvOfInts ts) with
        | none => "panic"
        | some (k, e, dst) => s!"n={k.toInt} err={errStr e} dst={hexOfBytes (bytesOfBv dst)}"
      | _, _ => badOp
    | _ => badOp),
  ("gen.b1t6.enctrytes", fun
    | [h] => match bytesOfHex h with
      | some src => match Gen.B1T6.b1t6.EncodeToTrytes (bvOfBytes src) with
        | none => "panic"
        | some r => s!"ok {hexOfBytes (bytesOfBv r)}"
      | none => badOp
    | _ => badOp),
  ("gen.b1t6.dectrytes", fun
    | [h] => match bytesOfHex h with
      | some src => match Gen.B1T6.b1t6.DecodeTrytes (bvOfBytes src) with
        | none => "panic"
        | some (bs, e) => s!"ok {hexOfBytes (bytesOfBv bs)} err={errStr e}"
      | none => badOp
    | _ => badOp),
  ("gen.b1t8.enc", fun
    | [n, h] => match n.toNat?, bytesOfHex h with
      | some n, some src => match Gen.B1T6.b1t8.Encode (List.replicate n 7#8) (bvOfBytes src) with
        | none => "panic"
        | some (k, dst) => s!"n={k.toInt} dst={csvOfInts (intsOfBv dst)}"
      | _, _ => badOp
    | _ => badOp),
  ("gen.b1t8.dec", fun
    | [n, t] => match n.toNat?, intsOfCsv t with
      | some n, some ts => match Gen.B1T6.b1t8.Decode (List.replicate n 0xAA#8) (bvOfInts ts) with
        | none => "panic"
        | some (k, e, dst) => s!"n={k.toInt} err={errStr e} dst={hexOfBytes (bytesOfBv dst)}"
      | _, _ => badOp
    | _ => badOp),
  ("gen.tri.put", fun
    | [t, v] => match intsOfCsv t, v.toInt? with
      | some ts, some v => match Gen.B1T6.trinary.MustPutTryteTrits (bvOfInts ts) (BitVec.ofInt 8 v) with
        | none => "panic"
        | some r => s!"ok {csvOfInts (intsOfBv r)}"
      | _, _ => badOp
    | _ => badOp),
  ("gen.tri.val", fun
    | [t] => match intsOfCsv t with
      | some ts => match Gen.B1T6.trinary.MustTritsToTryteValue (bvOfInts ts) with
        | none => "panic"
        | some r => s!"ok {r.toInt}"
      | none => badOp
    | _ => badOp),
  ("gen.tri.tochar", fun
    | [v] => match v.toInt? with
      | some v => match Gen.B1T6.trinary.MustTryteValueToTryte (BitVec.ofInt 8 v) with
        | none => "panic"
        | some r => s!"ok {r.toNat}"
      | none => badOp
    | _ => badOp),
  ("gen.tri.fromchar", fun
    | [c] => match c.toNat? with
      | some c => match Gen.B1T6.trinary.MustTryteToTryteValue (BitVec.ofNat 8 c) with
        | none => "panic"
        | some r => s!"ok {r.toInt}"
      | none => badOp
    | _ => badOp),
  ("gen.pow.lanes", fun
    | [l, h, n] => match wordsOfHex l, wordsOfHex h, n.toNat? with
      | some l, some h, some n => match Gen.Pow.v1.checkStateTrits l h (BitVec.ofNat 64 n) with
        | none => "panic"
        | some r => s!"ok {r.toInt}"
      | _, _, _ => badOp
    | _ => badOp),
  ("gen.b32.polymod", fun
    | [h] => match bytesOfHex h with
      | some v => s!"ok {(Gen.Bech32.bech32Polymod (bvOfBytes v)).toInt}"
      | none => badOp
    | _ => badOp),
  ("gen.b32.hrpexpand", fun
    | [h] => match bytesOfHex h with
      | some v => s!"ok {hexOfBytes (bytesOfBv (Gen.Bech32.bech32HrpExpand (bvOfBytes v)))}"
      | none => badOp
    | _ => badOp),
  ("gen.b32.create", fun
    | [h, d] => match bytesOfHex h, bytesOfHex d with
      | some hrp, some blocks => s!"ok {hexOfBytes (bytesOfBv (Gen.Bech32.bech32CreateChecksum (bvOfBytes hrp) (bvOfBytes blocks)))}"
      | _, _ => badOp
    | _ => badOp),
  ("gen.b32.verify", fun
    | [h, d] => match bytesOfHex h, bytesOfHex d with
      | some hrp, some data => s!"ok {Gen.Bech32.bech32VerifyChecksum (bvOfBytes hrp) (bvOfBytes data)}"
      | _, _ => badOp
    | _ => badOp),
  ("gen.base32.len", fun
    | [n] => match n.toInt? with
      | some n => s!"ok {(Gen.Bech32.base32.EncodedLen (BitVec.ofInt 64 n)).toInt} {(Gen.Bech32.base32.DecodedLen (BitVec.ofInt 64 n)).toInt}"
      | none => badOp
    | _ => badOp),
  ("gen.base32.enc", fun
    | [n, h] => match n.toNat?, bytesOfHex h with
      | some n, some src => match Gen.Bech32.base32.Encode (List.replicate n 0x55#8) (bvOfBytes src) with
        | none => "panic"
        | some (k, dst) => s!"n={k.toInt} dst={hexOfBytes (bytesOfBv dst)}"
      | _, _ => badOp
    | _ => badOp),
  ("gen.base32.dec", fun
    | [n, h] => match n.toNat?, bytesOfHex h with
      | some n, some src => match Gen.Bech32.base32.Decode (List.replicate n 0x55#8) (bvOfBytes src) with
        | none => "panic"
        | some (k, e, dst) =>
          let es := match e with | none => "nil" | some (name, off) => s!"{name}@{off.toInt}"
          s!"n={k.toInt} err={es} dst={hexOfBytes (bytesOfBv dst)}"
      | _, _ => badOp
    | _ => badOp),
  ("gen.chars.new", fun
    | [h] => match bytesOfHex h with
      | some a => match Gen.Bech32.chars.newEncoding (bvOfBytes a) with
        | none => "panic"
        | some (enc, dec) => s!"ok {hexOfBytes (bytesOfBv enc)} {hexOfBytes (bytesOfBv dec)}"
      | none => badOp
    | _ => badOp),
  ("gen.chars.enc", fun
    | [h] => match bytesOfHex h with
      | some src => match Gen.Bech32.chars.newEncoding (Gen.Bech32.charset.map (BitVec.ofNat 8)) with
        | none => "panic-new"
        | some (enc, _) => match Gen.Bech32.chars.encoding_encode enc (bvOfBytes src) with
          | none => "panic"
          | some r => s!"ok {hexOfBytes (bytesOfBv r)}"
      | none => badOp
    | _ => badOp),
  ("gen.chars.dec", fun
    | [h] => match bytesOfHex h with
      | some src => match Gen.Bech32.chars.newEncoding (Gen.Bech32.charset.map (BitVec.ofNat 8)) with
        | none => "panic-new"
        | some (_, dec) => match Gen.Bech32.chars.encoding_decode dec (bvOfBytes src) with
          | none => "panic"
          | some (r, e) => s!"ok {hexOfBytes (bytesOfBv r)} err={errStr e}"
      | none => badOp
    | _ => badOp),
  ("gen.vrf.canon", fun
    | [h] => match bytesOfHex h with
      | some x => match Gen.Ed.vrf.isCanonicalY (bvOfBytes x) with
        | none => "panic"
        | some b => s!"ok {b}"
      | none => badOp
    | _ => badOp),
  -- the public entry points through the generated bech32.go (namespace api); the library functions it takes as
  -- parameters are given their ASCII meaning, with a trap: called on a non-ASCII string they return a marker that cannot
  -- be a correct answer (the generated code is supposed to reach them only after it has checked the input to be ASCII)
  ("gen.bech32.dec", fun
    | [h] => match bytesOfHex h with
      | some s => match bechTables with
        | none => "panic-tables"
        | some (_, dec) => match Gen.Bech32.api.Decode dec lastIndexImpl toLowerImpl toUpperImpl (bvOfBytes s) with
          | none => "panic"
          | some (hrp, d, none) => s!"ok {hexOfBytes (bytesOfBv hrp)} {hexOfBytes (bytesOfBv d)}"
          | some (_, _, some e) => bechErr e
      | none => badOp
    | _ => badOp),
  ("gen.bech32.enc", fun
    | [h, d] => match bytesOfHex h, bytesOfHex d with
      | some hrp, some src => match bechTables with
        | none => "panic-tables"
        | some (enc, _) => match Gen.Bech32.api.Encode enc toLowerImpl toUpperImpl (bvOfBytes hrp) (bvOfBytes src) with
          | none => "panic"
          | some (r, none) => s!"ok {hexOfBytes (bytesOfBv r)}"
          | some (_, some e) => bechErr e
      | _, _ => badOp
    | _ => badOp),
  -- a fresh sponge: Reset, Absorb(src, a), Squeeze(len(dst) = k lanes, s); all through the generated code
  ("gen.curl.sponge", fun
    | [src, a, k, s] => match lanesOf src, a.toInt?, k.toNat?, s.toInt? with
      | some src, some a, some k, some s =>
        match Gen.Curl.code.Curl_Reset (List.replicate 729 0#64) (List.replicate 729 0#64) 5#64 with
        | none => "panic-reset"
        | some (l, h, d) =>
          match Gen.Curl.code.Curl_Absorb trGen l h d src (BitVec.ofInt 64 a) with
          | none => "absorb=panic"
          | some (e, l, h) =>
            match Gen.Curl.code.Curl_Squeeze trGen l h d (List.replicate k [1#8]) (BitVec.ofInt 64 s) with
            | none => s!"absorb={errStr e} squeeze=panic"
            | some (e2, _, _, d2, dst) => s!"absorb={errStr e} squeeze={errStr e2} dir={d2.toNat} out={strOfLanes dst}"
      | _, _, _, _ => badOp
    | _ => badOp)
] ++ opsB

end Iota.Driver.GenCode
