import Iota.Driver.Util
import Iota.Driver.Bech32
import Iota.Model.Address
import Iota.Model.Hash.Blake2b

namespace Iota.Driver.C19
open Iota Iota.Driver

def kindOfVersion (v : Nat) : Option Address.Kind :=
  if v = 0 then some .ed25519 else if v = 8 then some .alias else if v = 16 then some .nft else none

def encStr (r : Except Bech32.Err Bech32.Str) : String :=
  match r with
  | .ok s => hexOfBytes s
  | .error e => Iota.Driver.Bech32.errStr e

def parseStr (r : Except Address.ParseErr (Nat × Address.Addr)) : String :=
  match r with
  | .ok (p, a) => s!"ok {p} {a.kind.version.toNat} {hexOfBytes a.hash} re={encStr (Address.bech32 p a)}"
  | .error (.bech32 _) => "err bech32"
  | .error .invalidPrefix => "err prefix"
  | .error .invalidVersion => "err version"
  | .error .invalidLength => "err length"

def migErr : Migration.Err → String
  | .invalidLength => "length" | .noPrefix => "prefix" | .noSuffix => "suffix"
  | .addrEncoding => "addrenc" | .checksumEncoding => "csenc" | .invalidChecksum => "checksum"

def ops : List (String × Handler) := [
  ("addr.parse", fun
    | [h] => match bytesOfHex h with
      | some s => parseStr (Address.parseBech32 s)
      | none => badOp
    | _ => badOp),
  ("addr.enc", fun
    | [p, v, h] => match p.toNat?, v.toNat? >>= kindOfVersion, bytesOfHex h with
      | some p, some k, some hash =>
        let r := Address.bech32 p ⟨k, hash⟩
        match r with
        | .ok s => s!"{hexOfBytes s} back={parseStr (Address.parseBech32 s)}"
        | .error e => Iota.Driver.Bech32.errStr e
      | _, _, _ => badOp
    | _ => badOp),
  ("addr.frompk", fun
    | [h] => match bytesOfHex h with
      | some pk => hexOfBytes (Address.Addr.bytes ⟨.ed25519, Hash.blake2b256 pk⟩)
      | none => badOp
    | _ => badOp),
  ("addr.fromoutput", fun
    | [h] => match bytesOfHex h with
      | some o => hexOfBytes (Address.Addr.bytes ⟨.alias, Hash.blake2b 20 o⟩) ++ " " ++
                  hexOfBytes (Address.Addr.bytes ⟨.nft, Hash.blake2b 20 o⟩)
      | none => badOp
    | _ => badOp),
  ("mig.enc", fun
    | [h] => match bytesOfHex h with
      | some a => hexOfBytes (Migration.encode Hash.blake2b256 a)
      | none => badOp
    | _ => badOp),
  ("mig.dec", fun
    | [h] => match bytesOfHex h with
      | some t => match Migration.decode Hash.blake2b256 t with
        | .ok a => s!"ok {hexOfBytes a}"
        | .error e => s!"err {migErr e}"
      | none => badOp
    | _ => badOp)
]

end Iota.Driver.C19
