import Iota.Driver.Slip10
import Iota.Gen.EllipticKeyCode
import Iota.Gen.Secp256k1Code

/-!
Translation validation by execution, stage 13: the `slip10.shift` op of the C08 stream answered by the GENERATED
`Curve.NewPrivateKey`, `PrivateKey.Shift`, `PublicKey.Shift` (`Iota/Gen/EllipticKeyCode.lean`, regenerated from
pkg/slip10/elliptic on every run).  The methods of the `elliptic.Curve` field are parameters of the generated code: for
secp256k1 they are the GENERATED curve functions (`Iota/Gen/Secp256k1Code.lean`), for P-256 the Lean Weierstrass oracle.
Mirrored by the harness (`gen.slip10.shift`), same reply format as the model's op.  Core Lean only.
-/
namespace Iota.Driver.GenKey
open Iota Iota.Driver Iota.Driver.Slip10 Iota.Slip10
open Iota.Gen.EllipticKeyCode

def bv (b : List UInt8) : List (BitVec 8) := b.map UInt8.toBitVec
def un (b : List (BitVec 8)) : List UInt8 := b.map UInt8.ofBitVec

structure CurveOps where
  n : Int
  sbm : List (BitVec 8) → Option (Int × Int)
  add : Int → Int → Int → Int → Option (Int × Int)

def secpOps : CurveOps where
  n := Secp256k1.N
  sbm := fun k => Gen.Secp256k1Code.btccurve.koblitzCurve_ScalarBaseMult Secp256k1.modInverse Secp256k1.P Secp256k1.Gx Secp256k1.Gy k
  add := fun a b c d => Gen.Secp256k1Code.btccurve.koblitzCurve_Add Secp256k1.modInverse Secp256k1.P a b c d

def p256Ops : CurveOps where
  n := (WeierOracle.p256.n : Int)
  sbm := fun k => let q := WeierOracle.baseMul WeierOracle.p256 (beNat (un k)); some ((q.1 : Int), (q.2 : Int))
  add := fun a b c d => let q := WeierOracle.add WeierOracle.p256 (a.toNat, b.toNat) (c.toNat, d.toNat); some ((q.1 : Int), (q.2 : Int))

/-- `k.Public().Bytes()` of a returned key: for a private key the public point first (`ScalarBaseMult` of the minimal
big-endian bytes of the scalar, as `PrivateKey.Public` does), then SEC1 compression -/
def pubBytes (c : CurveOps) (r : Option (Nat × List Int)) : String :=
  match r with
  | some (0, [k]) => match c.sbm (bv (natBytes 40 k.toNat)) with
    | some (x, y) => hexOfBytes (compress (x.toNat, y.toNat))
    | none => "panic"
  | some (1, [x, y]) => hexOfBytes (compress (x.toNat, y.toNat))
  | _ => "bad-key"

def outcome (c : CurveOps) (r : Option (Option (Nat × List Int) × Option String)) : String :=
  match r with
  | none => "panic"
  | some (key, none) => pubBytes c key
  | some (_, some "slip10.ErrInvalidKey") => "invalid"
  | some (_, some _) => "error"

def ops : List (String × Handler) := [
  ("gen.slip10.shift", fun
    | [cv, k, s] => match bytesOfHex k, bytesOfHex s with
      | some kb, some sb =>
        let c := if cv == "p256" then p256Ops else secpOps
        match key.Curve_NewPrivateKey c.n (bv kb) with
        | (some (0, [kk]), none) =>
          let priv := key.PrivateKey_Shift c.n kk (bv sb)
          let pub := match c.sbm (bv (natBytes 40 kk.toNat)) with
            | some (x, y) => key.PublicKey_Shift c.add c.n c.sbm x y (bv sb)
            | none => none
          s!"priv={outcome c priv} pub={outcome c pub}"
        | _ => "bad-scalar"
      | _, _ => badOp
    | _ => badOp)
]

end Iota.Driver.GenKey
