import Iota.Driver.Util
import Iota.Model.B1T6

namespace Iota.Driver.C14
open Iota Iota.Driver

def errName6 : Option B1T6.Err → String
  | none => "none" | some .invalidTrits => "trits" | some .invalidLength => "length"
def errName8 : Option B1T8.Err → String
  | none => "none" | some .invalidTrit => "trits" | some .invalidLength => "length"

def ops : List (String × Handler) := [
  ("b1t6.enc", fun
    | [h] => match bytesOfHex h with
      | some bs => s!"T={csvOfInts (B1T6.encode bs)} Y={hexOfBytes (B1T6.encodeToTrytes bs)}"
      | none => badOp
    | _ => badOp),
  ("b1t6.dec", fun
    | [t] => match intsOfCsv t with
      | some ts => let r := B1T6.decode ts; s!"n={r.1.length} bytes={hexOfBytes r.1} err={errName6 r.2}"
      | none => badOp
    | _ => badOp),
  ("b1t6.dectrytes", fun
    | [h] => match bytesOfHex h with
      | some cs => match B1T6.decodeTrytes cs with
        | .ok bs => s!"ok {hexOfBytes bs}"
        | .error e => s!"err {errName6 (some e)}"
      | none => badOp
    | _ => badOp),
  ("b1t8.enc", fun
    | [h] => match bytesOfHex h with
      | some bs => s!"T={csvOfInts (B1T8.encode bs)}"
      | none => badOp
    | _ => badOp),
  ("b1t8.dec", fun
    | [t] => match intsOfCsv t with
      | some ts => let r := B1T8.decode ts; s!"n={r.1.length} bytes={hexOfBytes r.1} err={errName8 r.2}"
      | none => badOp
    | _ => badOp)
]

end Iota.Driver.C14
