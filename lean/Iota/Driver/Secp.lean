import Iota.Driver.Util
import Iota.Model.Secp256k1

namespace Iota.Driver.Secp
open Iota Iota.Driver Iota.Secp256k1

def natOfHex (s : String) : Option Nat :=
  s.toList.foldlM (fun acc c => (hexVal c).map (acc * 16 + ·)) 0

def hexOfNat (n : Nat) : String :=
  if n = 0 then "0" else
  let rec go (fuel n : Nat) (acc : List Char) : List Char :=
    match fuel with
    | 0 => acc
    | fuel + 1 => if n = 0 then acc else go fuel (n / 16) (hexDigit (n % 16) :: acc)
  String.ofList (go 200 n [])

def pt (r : Option (Int × Int)) : String :=
  match r with
  | some (x, y) => s!"{hexOfNat x.toNat} {hexOfNat y.toNat}"
  | none => "panic"

def ops : List (String × Handler) := [
  ("secp.add", fun
    | [a, b, c, d] => match natOfHex a, natOfHex b, natOfHex c, natOfHex d with
      | some a, some b, some c, some d => pt (add a b c d)
      | _, _, _, _ => badOp
    | _ => badOp),
  ("secp.double", fun
    | [a, b] => match natOfHex a, natOfHex b with
      | some a, some b => pt (double a b)
      | _, _ => badOp
    | _ => badOp),
  ("secp.mul", fun
    | [a, b, k] => match natOfHex a, natOfHex b, bytesOfHex k with
      | some a, some b, some k => pt (scalarMult a b k)
      | _, _, _ => badOp
    | _ => badOp),
  ("secp.basemul", fun
    | [k] => match bytesOfHex k with
      | some k => pt (scalarBaseMult k)
      | none => badOp
    | _ => badOp),
  ("secp.oncurve", fun
    | [a, b] => match natOfHex a, natOfHex b with
      | some a, some b => toString (isOnCurve a b)
      | _, _ => badOp
    | _ => badOp)
]

end Iota.Driver.Secp
