import Iota.Driver.GenCode
import Iota.Gen.AddressCode

/-!
Translation validation by execution, stage 11: the network-address ops of the C19 stream answered by the GENERATED
`address.ParseBech32` / `address.Bech32` / `Address.Bytes` / `Address.Version` (`Iota/Gen/AddressCode.lean`, regenerated
from address.go on every run) on top of the generated `bech32.Decode` / `Encode`, with the library parameters of stage 6
(`strings.ToLower`, `ToUpper`, `LastIndex`) that trap on non-ASCII input.  Mirrored by the harness (`gen.addr.*`), same
reply format as the model's `addr.parse` / `addr.enc`.  Core Lean only.
-/
namespace Iota.Driver.GenAddr
open Iota Iota.Driver Iota.Driver.GenCode
open Iota.Gen.AddressCode

/-- the wrapped error of `bech32.Encode` as `address.Bech32` returns it ("bech32.ErrX", "bech32.base32.ErrX") in the
reply format of the model -/
def encErrStr (e : String × Option (BitVec 64)) : String :=
  bechErr ((if e.1.startsWith "bech32." then (e.1.drop 7).toString else e.1), e.2)

def reencode (enc : List (BitVec 8)) (p : BitVec 64) (a : Go.Iface) : String :=
  match address.Bech32 enc toLowerImpl toUpperImpl p a with
  | none => "panic"
  | some (r, none) => hexOfBytes (bytesOfBv r)
  | some (_, some e) => encErrStr e

def parseStr (enc dec : List (BitVec 8)) (s : List (BitVec 8)) : String :=
  match address.ParseBech32 dec lastIndexImpl toLowerImpl toUpperImpl s with
  | none => "panic"
  | some (p, a, none) =>
    match address.Address_Bytes a, address.Address_Version a with
    | some b, some v =>
      if b.head? ≠ some v then "version-mismatch" else
      s!"ok {p.toInt} {v.toNat} {hexOfBytes (bytesOfBv b.tail)} re={reencode enc p a}"
    | _, _ => "panic"
  | some (_, _, some e) =>
    if e.1.startsWith "bech32." then "err bech32"
    else if e.1 == "ErrInvalidPrefix" then "err prefix"
    else if e.1 == "ErrInvalidVersion" then "err version"
    else if e.1 == "ErrInvalidLength" then "err length"
    else "err other"

def kindIndex (v : Nat) : Option Nat :=
  if v = 0 then some 0 else if v = 8 then some 1 else if v = 16 then some 2 else none

def ops : List (String × Handler) := [
  ("gen.addr.parse", fun
    | [h] => match bytesOfHex h, bechTables with
      | some s, some (enc, dec) => parseStr enc dec (bvOfBytes s)
      | none, _ => badOp
      | _, none => "panic-tables"
    | _ => badOp),
  ("gen.addr.enc", fun
    | [p, v, h] => match p.toNat?, v.toNat? >>= kindIndex, bytesOfHex h, bechTables with
      | some p, some k, some hash, some (enc, dec) =>
        match address.Bech32 enc toLowerImpl toUpperImpl (BitVec.ofNat 64 p) (some (k, bvOfBytes hash)) with
        | none => "panic"
        | some (s, none) => s!"{hexOfBytes (bytesOfBv s)} back={parseStr enc dec s}"
        | some (_, some e) => encErrStr e
      | _, _, _, none => "panic-tables"
      | _, _, _, _ => badOp
    | _ => badOp)
]

end Iota.Driver.GenAddr
