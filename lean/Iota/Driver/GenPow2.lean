import Iota.Driver.Pow
import Iota.Gen.Pow

/-!
Translation validation by execution, stage 14: the `pow2.toint`, `pow2.statetoint` and `pow2.suff` ops of the C12 stream
answered by the GENERATED `toInt`, `stateToInt`, `sufficientTrailingZeros` and `targetHash` (`Iota/Gen/Pow.lean`, namespace
`v2code`, regenerated from pkg/pow/v2 on every run).  Mirrored by the harness (`gen.pow2.*`), same reply format as the
model's ops; a Go run-time panic (`none`) is the reply `panic`.  Core Lean only.
-/
namespace Iota.Driver.GenPow2
open Iota Iota.Driver Iota.Driver.Pow

def ops : List (String × Handler) := [
  ("gen.pow2.toint", fun
    | [t] => match intsOfCsv t with
      | some ts => match Gen.Pow.v2code.toInt (ts.map fun x => BitVec.ofInt 8 x) with
        | some z => toString z
        | none => "panic"
      | none => badOp
    | _ => badOp),
  ("gen.pow2.statetoint", fun
    | [l, h, i] => match planesOfHex l, planesOfHex h, i.toNat? with
      | some l, some h, some i => match Gen.Pow.v2code.stateToInt l.toList h.toList (BitVec.ofNat 64 i) with
        | some z => toString z
        | none => "panic"
      | _, _, _ => badOp
    | _ => badOp),
  ("gen.pow2.suff", fun
    | [len, t] => match len.toNat?, t.toNat? with
      | some dl, some t =>
        if dl > 100000 then badOp else
        let data : List (BitVec 8) := List.replicate dl 0#8
        -- Go evaluates sufficientTrailingZeros first (it panics on overflow), then targetHash
        match Gen.Pow.v2code.sufficientTrailingZeros data (BitVec.ofNat 64 t) with
        | none => "panic"
        | some s => match Gen.Pow.v2code.targetHash data (BitVec.ofNat 64 t) with
          | none => "panic"
          | some h => s!"{s.toNat} {h}"
      | _, _ => badOp
    | _ => badOp)
]

end Iota.Driver.GenPow2
