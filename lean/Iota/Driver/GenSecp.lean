import Iota.Driver.Secp
import Iota.Gen.Secp256k1Code

/-!
Translation validation by execution, stage 10: the secp256k1 ops of the C17 / C08 streams answered by the GENERATED
`koblitzCurve.Add / Double / ScalarMult / ScalarBaseMult / IsOnCurve` (`Iota/Gen/Secp256k1Code.lean`, regenerated from
secp256k1.go on every run), with the receiver's fields instantiated by the model's constants and the library parameter
`big_ModInverse` by the model's extended Euclid.  Mirrored by the harness (`gen.secp.*`).  Core Lean only.
-/
namespace Iota.Driver.GenSecp
open Iota Iota.Driver Iota.Driver.Secp Iota.Secp256k1
open Iota.Gen.Secp256k1Code.btccurve

def bv (bs : List UInt8) : List (BitVec 8) := bs.map UInt8.toBitVec

def ops : List (String × Handler) := [
  ("gen.secp.add", fun
    | [a, b, c, d] => match natOfHex a, natOfHex b, natOfHex c, natOfHex d with
      | some a, some b, some c, some d => pt (koblitzCurve_Add modInverse P a b c d)
      | _, _, _, _ => badOp
    | _ => badOp),
  ("gen.secp.double", fun
    | [a, b] => match natOfHex a, natOfHex b with
      | some a, some b => pt (koblitzCurve_Double modInverse P a b)
      | _, _ => badOp
    | _ => badOp),
  ("gen.secp.mul", fun
    | [a, b, k] => match natOfHex a, natOfHex b, bytesOfHex k with
      | some a, some b, some k => pt (koblitzCurve_ScalarMult modInverse P a b (bv k))
      | _, _, _ => badOp
    | _ => badOp),
  ("gen.secp.basemul", fun
    | [k] => match bytesOfHex k with
      | some k => pt (koblitzCurve_ScalarBaseMult modInverse P Gx Gy (bv k))
      | none => badOp
    | _ => badOp),
  ("gen.secp.oncurve", fun
    | [a, b] => match natOfHex a, natOfHex b with
      | some a, some b => match koblitzCurve_IsOnCurve P B a b with
        | some r => toString r
        | none => "panic"
      | _, _ => badOp
    | _ => badOp)
]

end Iota.Driver.GenSecp
