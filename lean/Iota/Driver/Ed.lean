import Iota.Driver.Util
import Iota.Model.Vrf

namespace Iota.Driver.Ed
open Iota Iota.Driver Iota.Ed25519

def b (x : Bool) : String := if x then "true" else "false"

def ops : List (String × Handler) := [
  ("ed.keygen", fun
    | [s] => match bytesOfHex s with
      | some seed => match newKeyFromSeed edLib seed with
        | some k => hexOfBytes k
        | none => "panic"
      | none => badOp
    | _ => badOp),
  ("ed.sign", fun
    | [k, m] => match bytesOfHex k, bytesOfHex m with
      | some k, some m => match sign edLib k m with
        | some s => s!"{hexOfBytes s} std=same"
        | none => "panic"
      | _, _ => badOp
    | _ => badOp),
  ("ed.signer", fun
    | [k, m, hf] => match bytesOfHex k, bytesOfHex m, hf.toNat? with
      -- hf = 1000·kind + hash id: the harness passes the same HashFunc() value behind different SignerOpts types
      | some k, some m, some hf => match signerSign edLib k m (hf % 1000) with
        | some (.ok s) => hexOfBytes s
        | some (.error _) => "err"
        | none => "panic"
      | _, _, _ => badOp
    | _ => badOp),
  ("ed.verify", fun
    | [pk, m, s] => match bytesOfHex pk, bytesOfHex m, bytesOfHex s with
      | some pk, some m, some s => match verify edLib pk m s with
        | some r => s!"v={b r}"
        | none => "panic"
      | _, _, _ => badOp
    | _ => badOp),
  ("vrf.prove", fun
    | [k, a] => match bytesOfHex k, bytesOfHex a with
      | some k, some a => match Vrf.prove edLib k a with
        | some pr =>
          let pi := pr.bytes edLib
          let hash := pr.hash edLib
          let viaBytes := (Vrf.proofToHash edLib pi).map hexOfBytes |>.getD "err"
          let ver := match Vrf.verify edLib (k.drop 32) a pi with
            | some (true, h) => s!"true {hexOfBytes h}"
            | some (false, _) => "false"
            | none => "panic"
          s!"{hexOfBytes pi} hash={hexOfBytes hash} tohash={viaBytes} verify={ver}"
        | none => "panic"
      | _, _ => badOp
    | _ => badOp),
  ("vrf.verify", fun
    | [pk, a, pi] => match bytesOfHex pk, bytesOfHex a, bytesOfHex pi with
      | some pk, some a, some pi => match Vrf.verify edLib pk a pi with
        | some (true, h) => s!"true {hexOfBytes h}"
        | some (false, _) => "false"
        | none => "panic"
      | _, _, _ => badOp
    | _ => badOp),
  ("vrf.setbytes", fun
    | [pi] => match bytesOfHex pi with
      | some pi => match Vrf.Proof.setBytes edLib pi with
        | some pr => s!"ok {hexOfBytes (pr.bytes edLib)} hash={hexOfBytes (pr.hash edLib)}"
        | none => "err"
      | none => badOp
    | _ => badOp)
]

end Iota.Driver.Ed
