import Iota.Driver.Util
import Iota.Model.Mine

/-!
Trace validation for C13: a trace recorded by the hooks of pkg/pow (release-type actions reported before
they happen, acquire-type actions after) must be a run of the transition system of Iota/Model/Mine.lean.
Because a reported release takes effect at some later moment, the validator keeps the SET of model states
compatible with the prefix read so far: before each event it closes the set under the pending release
steps (a worker's store / send / wg.Done, main's two closes, the watcher's store, the environment's
cancel), then applies the event where it is enabled.  The trace is accepted iff the set stays non-empty
and, at the end, a state with `main = returned r` for the reported result `r` exists in which every
worker has exited and the watcher has exited or has an enabled step.
-/
namespace Iota.Driver.Mine
open Iota Iota.Driver Iota.Mine

inductive Ev
  | spawn (k : Nat) | cancel | watcherCtx | watcherClosing
  | batch (i : Nat) | sawDone (i : Nat) | storeDone (i n : Nat) | send (i n : Nat) | wgDone (i : Nat)
  | waitReturned | closeResults | closeClosing | recv (n : Nat) | recvNone
deriving Inhabited

def parseEv (t : String) : Option Ev :=
  match t.splitOn ":" with
  | ["sp", k] => k.toNat?.map .spawn
  | ["ca"] => some .cancel
  | ["wc"] => some .watcherCtx
  | ["wl"] => some .watcherClosing
  | ["b", i] => i.toNat?.map .batch
  | ["sd", i] => i.toNat?.map .sawDone
  | ["st", i, n] => match i.toNat?, n.toNat? with | some i, some n => some (.storeDone i n) | _, _ => none
  | ["se", i, n] => match i.toNat?, n.toNat? with | some i, some n => some (.send i n) | _, _ => none
  | ["wd", i] => i.toNat?.map .wgDone
  | ["wr"] => some .waitReturned
  | ["cr"] => some .closeResults
  | ["cc"] => some .closeClosing
  | ["rv", n] => n.toNat?.map .recv
  | ["rn"] => some .recvNone
  | _ => none

/-- thread of an event: 0 = main, 1 = watcher, 2 = environment, 3 + i = worker i -/
def Ev.thread : Ev → Nat
  | .spawn _ | .waitReturned | .closeResults | .closeClosing | .recv _ | .recvNone => 0
  | .watcherCtx | .watcherClosing => 1
  | .cancel => 2
  | .batch i | .sawDone i | .storeDone i _ | .send i _ | .wgDone i => 3 + i

/-- release-type events are reported BEFORE they take effect -/
def Ev.isRelease : Ev → Bool
  | .spawn _ | .cancel | .storeDone .. | .send .. | .wgDone _ | .closeResults | .closeClosing => true
  | _ => false

def wpcOf (s : State) (i : Nat) : WPc := s.workers.getD i .idle

def stepAll (W : Nat) (s : State) (ls : List Label) : Option State := run W s ls

/-- the model effect of one reported event (a short fixed sequence of model steps). -/
def effect (W : Nat) (s : State) : Ev → Option State
  | .cancel => step W s .cancel
  | .spawn k => do
    let s ← if s.main = .start then step W s .main else some s
    if s.main = .spawn k then step W s .main else none
  | .watcherCtx => do
    let s ← if s.main = .start then step W s .main else some s
    step W s .watcherCtx
  | .watcherClosing => do
    let s ← if s.main = .start then step W s .main else some s
    step W s .watcherClosing
  | .batch i => do
    let s ← if wpcOf s i = .batch then step W s (.worker i none) else some s
    if wpcOf s i = .loop then
      let s' ← step W s (.worker i none)
      if wpcOf s' i = .batch then some s' else none
    else none
  | .sawDone i => do
    let s ← if wpcOf s i = .batch then step W s (.worker i none) else some s
    if wpcOf s i = .loop then
      let s' ← step W s (.worker i none)
      if wpcOf s' i = .exiting false then some s' else none
    else none
  | .storeDone i n =>
    if wpcOf s i = .batch then stepAll W s [.worker i (some n), .worker i none] else none
  | .send i n => if wpcOf s i = .send n then step W s (.worker i none) else none
  | .wgDone i => match wpcOf s i with
    | .exiting _ => step W s (.worker i none)
    | _ => none
  | .waitReturned => do
    let s ← if s.main = .start then step W s .main else some s
    let s ← if s.main = .spawn W then step W s .main else some s
    if s.main = .wait then step W s .main else none
  | .closeResults => if s.main = .closeResults then step W s .main else none
  | .closeClosing => if s.main = .closeClosing then step W s .main else none
  | .recv n => do
    if s.main = .recv then
      let s' ← step W s .main
      if s'.main = .returned (some n) then some s' else none
    else none
  | .recvNone => do
    if s.main = .recv then
      let s' ← step W s .main
      if s'.main = .returned none then some s' else none
    else none

structure Sim where
  s : State
  executed : Array Bool
  announced : Array Bool
  first : Option Nat        -- the nonce `main` receives (from the trace's `rv`), if any
  wsPending : Bool          -- the watcher's (unreported) store, announced by `wc`
  err : Option String

/-- execute event `k` (its thread's earlier events must have been executed already). -/
def Sim.exec1 (W : Nat) (evs : Array Ev) (m : Sim) (k : Nat) : Sim :=
  if m.err.isSome || m.executed.getD k true then m else
  match effect W m.s (evs.getD k default) with
  | some s' => { m with s := s', executed := m.executed.set! k true }
  | none => { m with err := some s!"rejected@{k}" }

/-- execute event `k`. The order of two sends whose windows overlap is not determined by the log; the only
observable is which nonce `main` receives first, so an announced send of that nonce goes first. -/
def Sim.exec (W : Nat) (evs : Array Ev) (m : Sim) (k : Nat) : Sim := Id.run do
  let mut m := m
  match evs.getD k default, m.first with
  | .send _ n, some f =>
    if n != f && m.s.results.isEmpty then
      for j in [0:evs.size] do
        match evs.getD j default with
        | .send w n' =>
          if n' == f && m.announced.getD j false && !m.executed.getD j true then
            -- worker w's announced store and send, in order
            for q in [0:j+1] do
              if (evs.getD q default).thread == 3 + w && m.announced.getD q false then m := m.exec1 W evs q
        | _ => pure ()
  | _, _ => pure ()
  return m.exec1 W evs k

/-- execute, in log order, every announced-but-unexecuted release of the threads selected by `sel`, up to index `upTo`. -/
def Sim.force (W : Nat) (evs : Array Ev) (m : Sim) (sel : Nat → Bool) (upTo : Nat) : Sim := Id.run do
  let mut m := m
  for k in [0:upTo] do
    if !m.executed.getD k true && m.announced.getD k false && sel (evs.getD k default).thread then
      m := m.exec W evs k
  return m

def Sim.forceWatcherStore (W : Nat) (m : Sim) : Sim :=
  if m.wsPending && m.err.isNone then
    match step W m.s .watcherStore with
    | some s' => { m with s := s', wsPending := false }
    | none => { m with err := some "rejected@watcher-store" }
  else m

/-- run ahead through the consecutive `batch` events of worker `i` that follow position `from` while the flag reads 0 -/
def Sim.runAhead (W : Nat) (evs : Array Ev) (m : Sim) (i : Nat) (start : Nat) : Sim := Id.run do
  let mut m := m
  for k in [start:evs.size] do
    let e := evs.getD k default
    if e.thread == 3 + i && !m.executed.getD k true then
      match e with
      | .batch _ =>
        if m.s.done then return m
        m := m.exec W evs k
      | _ => return m
  return m

/-- deterministic replay. Releases are applied as late as their causal consumers allow, `batch` reads
as early as possible; both choices are optimal because every shared condition is monotone. -/
def validate (W : Nat) (toks : List String) (result : String) : String := Id.run do
  let mut evsL : List Ev := []
  for t in toks do
    match parseEv t with
    | some e => evsL := e :: evsL
    | none => return s!"bad-event:{t}"
  let evs := evsL.reverse.toArray
  let n := evs.size
  let first : Option Nat := evs.foldl (fun acc e => match e with | .recv n => some n | _ => acc) none
  let mut m : Sim := { s := init W, executed := Array.replicate n false, announced := Array.replicate n false,
                       first := first, wsPending := false, err := none }
  for k in [0:n] do
    if m.err.isSome then break
    let e := evs.getD k default
    -- program order: earlier events of the same thread come first
    m := m.force W evs (· == e.thread) k
    if e.isRelease then
      m := { m with announced := m.announced.set! k true }
      match e with
      | .spawn i =>
        m := m.exec W evs k
        m := m.runAhead W evs i k
      | .cancel => m := m.exec W evs k
      | _ => pure ()
    else if !m.executed.getD k true then
      match e with
      | .sawDone i =>
        -- somebody's store must have happened: apply every announced one
        if !m.s.done then
          m := m.forceWatcherStore W
          m := m.force W evs (fun t => t ≥ 3) k |> fun m' => m'   -- workers' pending stores/sends/dones
        m := m.exec W evs k
        m := m.runAhead W evs i k
      | .batch i =>
        m := m.exec W evs k
        m := m.runAhead W evs i k
      | .waitReturned =>
        m := m.force W evs (fun t => t ≥ 3) k
        m := m.exec W evs k
      | .watcherClosing =>
        m := m.force W evs (· == 0) k
        m := m.exec W evs k
      | .watcherCtx =>
        m := m.exec W evs k
        m := { m with wsPending := true }
      | _ => m := m.exec W evs k
  -- end of trace: everything announced takes effect
  m := m.force W evs (fun _ => true) n
  m := m.forceWatcherStore W
  match m.err with
  | some e => return s!"{e}:{toks.getD ((e.drop 9).toNat?.getD 0) "?"}"
  | none =>
    let r : Option Nat := if result == "cancelled" then none else result.toNat?
    if result != "cancelled" && r.isNone then return "bad-result"
    let s := m.s
    let workersOut := (List.range W).all fun i => match wpcOf s i with | .exited _ => true | _ => false
    let watcherOk := s.watcher == .exited || (step W s .watcherClosing).isSome || (step W s .watcherCtx).isSome
    if s.main == .returned r && workersOut && watcherOk && (r.isSome || s.ctx) then s!"accepted {result}"
    else "rejected@final"

def ops : List (String × Handler) := [
  -- run-time observations of the harness (goroutines left behind, time from cancel to return): the model
  -- expects "ok"
  ("mine.runtime", fun _ => "ok"),
  ("mine.note", fun _ => "noted"),
  ("mine.trace", fun
    | [w, evs, result] => match w.toNat? with
      | some W => validate W (if evs == "_" then [] else evs.splitOn ",") result
      | none => badOp
    -- a call that stays in the preamble (Iota.Mine.Preamble): no protocol event may occur at all; only the
    -- environment's cancellation (`ca`) may be logged
    | [_, evs, result, pre] =>
      let toks := if evs == "_" then [] else evs.splitOn ","
      let cancelled := toks.contains "ca"
      if toks.any (· != "ca") then "rejected: protocol events in a preamble-only call"
      else
        let p : Option Iota.Mine.Preamble := match pre with
          | "unattainable" => some (Iota.Mine.preambleV1 false)
          | "zero" => some (Iota.Mine.preambleV2 true true)
          | "invalid" => some (Iota.Mine.preambleV2 false false)
          | _ => none
        match p with
        | none => badOp
        | some p =>
          match Iota.Mine.preambleResult cancelled p with
          | some (some (some n)) => if result == toString n then "accepted " ++ result else s!"rejected: expected nonce {n}"
          | some (some none) => if result == "cancelled" then "accepted cancelled" else "rejected: expected the cancellation error"
          | some none => if result == "panic" then "accepted panic" else "rejected: expected the documented panic"
          | none => "rejected: the call must still be blocked (context not cancelled)"
    | _ => badOp)
]

end Iota.Driver.Mine
