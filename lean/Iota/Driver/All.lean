import Iota.Driver.C14

namespace Iota.Driver
def allOps : List (String × Handler) :=
  C14.ops
end Iota.Driver
