import Iota.Driver.C14
import Iota.Driver.C10

namespace Iota.Driver
def allOps : List (String × Handler) :=
  C14.ops ++ C10.ops
end Iota.Driver
