import Iota.Driver.C14
import Iota.Driver.C10
import Iota.Driver.C15
import Iota.Driver.Bech32
import Iota.Driver.C19
import Iota.Driver.Curl
import Iota.Driver.Bip39
import Iota.Driver.Pow
import Iota.Driver.Secp
import Iota.Driver.Ed
import Iota.Driver.Slip10
import Iota.Driver.Mine

namespace Iota.Driver
def modelOps : List (String × Handler) :=
  C14.ops ++ C10.ops ++ C15.ops ++ Bech32.ops ++ C19.ops ++ Curl.ops ++ Bip39.ops ++ Pow.ops ++ Secp.ops ++ Ed.ops ++ Slip10.ops ++ Mine.ops
end Iota.Driver
