import Iota.Driver.Util
import Iota.Model.Slip10
import Iota.Model.WeierOracle
import Iota.Model.Secp256k1
import Iota.Model.Ed25519
import Iota.Model.Hash.Ripemd160

/-!
Driver ops for C02 / C08.  secp256k1 runs on the *model* of the repository's curve code
(Iota/Model/Secp256k1.lean); P-256 (crypto/elliptic, external) and Ed25519 on the from-scratch oracles.
-/
namespace Iota.Driver.Slip10
open Iota Iota.Driver Iota.Slip10

abbrev Pt := Nat × Nat

def compress (P : Pt) : Bytes := UInt8.ofNat (2 + P.2 % 2) :: fill32 P.1

def secpW : WCurve Pt where
  n := Secp256k1.N.toNat
  baseMul := fun k => match Secp256k1.scalarBaseMult k with
    | some (x, y) => (x.toNat, y.toNat)
    | none => (1, 1)   -- would be a Go panic; never valid
  add := fun P Q => match Secp256k1.add P.1 P.2 Q.1 Q.2 with
    | some (x, y) => (x.toNat, y.toNat)
    | none => (1, 1)
  isInfinity := fun P => P.1 == 0 && P.2 == 0
  compress := compress

def p256W : WCurve Pt where
  n := WeierOracle.p256.n
  baseMul := fun k => WeierOracle.baseMul WeierOracle.p256 (beNat k)
  add := WeierOracle.add WeierOracle.p256
  isInfinity := fun P => P.1 == 0 && P.2 == 0
  compress := compress

def hmac512 : Bytes → Bytes → Bytes := Hash.hmacSha512
def hash160 (b : Bytes) : Bytes := Hash.ripemd160 (Hash.sha256 b)

def edPublic (seed : Bytes) : Bytes :=
  match Ed25519.newKeyFromSeed Ed25519.edLib seed with
  | some k => k.drop 32
  | none => []

/-- toy pluggable curve (mirrored in the harness): keys are byte strings; a candidate is valid iff its
first byte is divisible by `m`; `perm` makes NewPrivateKey / Shift fail permanently when byte 1 is 0xFF. -/
def toyCurve (m : Nat) (perm : Bool) : Curve Bytes where
  hmacKey := [116, 111, 121]   -- "toy"
  newPrivateKey := fun buf =>
    if perm && buf.getD 1 0 == 0xFF then .error (.other 7)
    else if (buf.getD 0 0).toNat % m ≠ 0 then .error .invalidKey else .ok buf
  bytes := fun k => k
  isPrivate := fun k => k.length == 32
  pub := fun k => if k.length == 32 then 0x02 :: k else k
  shift := fun k buf =>
    if perm && buf.getD 1 0 == 0xFF then .error (.other 7)
    else if ((buf.getD 0 0) ^^^ (k.getD (k.length - 32) 0)).toNat % m ≠ 0 then .error .invalidKey
    else .ok (if k.length == 32 then List.zipWith (· ^^^ ·) k buf else 0x02 :: List.zipWith (· ^^^ ·) (k.drop 1) buf)
  hardenedOnly := fun _ => false

def errName : Err → String
  | .outOfFuel => "out-of-fuel" | .hardenedChildPublicKey => "hardened-pub" | .notHardened => "not-hardened"
  | .curve c => s!"curve {c}"

def showExt {κ : Type} (c : Curve κ) (r : Except Err (ExtKey κ)) : String :=
  match r with
  | .ok e => s!"key={hexOfBytes (c.bytes e.key)} cc={hexOfBytes e.chainCode} pub={hexOfBytes (c.bytes (c.pub e.key))} fpr={hexOfBytes (fingerprint c hash160 e)}"
  | .error x => s!"err {errName x}"

def withCurve (name : String) (k : {κ : Type} → Curve κ → String) : String :=
  match name with
  | "k1" => k (wCurve secpW [66, 105, 116, 99, 111, 105, 110, 32, 115, 101, 101, 100])                 -- "Bitcoin seed"
  | "p256" => k (wCurve p256W [78, 105, 115, 116, 50, 53, 54, 112, 49, 32, 115, 101, 101, 100])       -- "Nist256p1 seed"
  | "ed" => k (edCurve edPublic)
  | "toy2" => k (toyCurve 2 false)
  | "toy100" => k (toyCurve 100 false)
  | "toyperm" => k (toyCurve 2 true)
  | _ => badOp

def fuel : Nat := 100000

def ops : List (String × Handler) := [
  ("slip10.derive", fun
    | [cv, s, p] => match bytesOfHex s, natsOfCsv p with
      | some seed, some path => withCurve cv fun c => showExt c (deriveKeyFromPath hmac512 c fuel seed path)
      | _, _ => badOp
    | _ => badOp),
  -- derive along the path, then the child `i` on the private side (made public) and on the public side
  ("slip10.pubderive", fun
    | [cv, s, p, i] => match bytesOfHex s, natsOfCsv p, i.toNat? with
      | some seed, some path, some i => withCurve cv fun c =>
        match deriveKeyFromPath hmac512 c fuel seed path with
        | .error x => s!"err {errName x}"
        | .ok e =>
          let a := (deriveChild hmac512 c fuel e i).map (ExtKey.public c)
          let b := deriveChild hmac512 c fuel (ExtKey.public c e) i
          s!"privside[{showExt c a}] pubside[{showExt c b}]"
      | _, _, _ => badOp
    | _ => badOp),
  ("slip10.shift", fun
    | [cv, k, s] => match bytesOfHex k, bytesOfHex s with
      | some kb, some sb =>
        let w := if cv == "p256" then p256W else secpW
        let c := wCurve w []
        match c.newPrivateKey kb with
        | .error _ => "bad-scalar"
        | .ok key =>
          let sh (r : Except KeyErr (WKey Pt)) : String := match r with
            | .ok k' => hexOfBytes (c.bytes (c.pub k'))
            | .error .invalidKey => "invalid"
            | .error (.other _) => "error"
          s!"priv={sh (c.shift key sb)} pub={sh (c.shift (c.pub key) sb)}"
      | _, _ => badOp
    | _ => badOp),
  ("hash.hmac512", fun
    | [k, m] => match bytesOfHex k, bytesOfHex m with
      | some k, some m => hexOfBytes (hmac512 k m)
      | _, _ => badOp
    | _ => badOp),
  ("hash.hash160", fun | [m] => (bytesOfHex m).elim badOp (fun b => hexOfBytes (hash160 b)) | _ => badOp)
]

end Iota.Driver.Slip10
