import Iota.Driver.Util
import Iota.Model.Merkle
import Iota.Model.Hash.Blake2b

namespace Iota.Driver.C15
open Iota Iota.Driver

def hashByName : String → Option (List UInt8 → List UInt8)
  | "sha256" => some Hash.sha256
  | "blake2b256" => some Hash.blake2b256
  | "sha512" => some Hash.sha512
  | _ => none

/-- a leaf token: hex bytes, or `!k` = MarshalBinary fails with error number k -/
def parseLeaf (t : String) : Option (Except Nat (List UInt8)) :=
  if t.startsWith "!" then (t.drop 1).toNat?.map Except.error
  else (bytesOfHex t).map Except.ok

def genLeaf (seed i len : Nat) : List UInt8 :=
  (List.range len).map fun j => UInt8.ofNat ((seed + i * 7 + j * 13 + i * j) % 256)

def render : Except Nat (List UInt8) → String
  | .ok h => s!"ok {hexOfBytes h}"
  | .error k => s!"err {k}"

def ops : List (String × Handler) := [
  ("merkle.hash", fun
    | [hn, ls] => match hashByName hn, (if ls == "-" then some [] else (ls.splitOn ";").mapM parseLeaf) with
      | some H, some leaves => render (Merkle.hash H leaves)
      | _, _ => badOp
    | _ => badOp),
  ("merkle.gen", fun
    | [hn, n, seed, len, errAt] => match hashByName hn, n.toNat?, seed.toNat?, len.toNat?, errAt.toInt? with
      | some H, some n, some seed, some len, some errAt =>
        let leaves : List (Except Nat (List UInt8)) := (List.range n).map fun (i : Nat) =>
          if Int.ofNat i == errAt then .error i else .ok (genLeaf seed i (len + i % 3))
        render (Merkle.hash H leaves)
      | _, _, _, _, _ => badOp
    | _ => badOp),
  ("merkle.generrs", fun
    | [hn, n, seed, len, errs] => match hashByName hn, n.toNat?, seed.toNat?, len.toNat? with
      | some H, some n, some seed, some len =>
        let bad := (errs.splitOn ",").filterMap String.toNat?
        let leaves : List (Except Nat (List UInt8)) := (List.range n).map fun (i : Nat) =>
          if bad.contains i then .error i else .ok (genLeaf seed i (len + i % 3))
        render (Merkle.hash H leaves)
      | _, _, _, _ => badOp
    | _ => badOp),
  ("merkle.empty", fun
    | [hn] => match hashByName hn with
      | some H => hexOfBytes (H [])
      | none => badOp
    | _ => badOp)
]

end Iota.Driver.C15
