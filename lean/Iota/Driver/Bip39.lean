import Iota.Driver.Util
import Iota.Model.Mnemonic
import Iota.Model.Hash.SHA2
import Iota.Spec.Bip39Words

namespace Iota.Driver.Bip39
open Iota Iota.Driver Iota.Bip39

def wordList : String → Option (List Word)
  | "english" => some Spec.Bip39Words.english
  | "japanese" => some Spec.Bip39Words.japanese
  | _ => none

/-- split on single 0x20 bytes (the harness builds the `Mnemonic` slice the same way); "" = no words -/
def splitSpace (s : List UInt8) : List (List UInt8) :=
  if s.isEmpty then [] else
  let r := s.foldr (fun c (acc : List UInt8 × List (List UInt8)) =>
    if c == 0x20 then ([], acc.1 :: acc.2) else (c :: acc.1, acc.2)) ([], [])
  r.1 :: r.2

def errName : Err → String
  | .invalidEntropySize => "size" | .invalidMnemonic => "mnemonic" | .invalidChecksum => "checksum"

def fieldsStr (fs : List (List UInt8)) : String :=
  if fs.isEmpty then "-" else ",".intercalate (fs.map hexOfBytes)

def lexLe : List UInt8 → List UInt8 → Bool
  | [], _ => true
  | _ :: _, [] => false
  | a :: as, b :: bs => a < b || (a == b && lexLe as bs)

/-- `bip39.sweep`: the strings over a…z of length `n` that `mnemonicToEntropy` does not reject as unknown when they stand
in front of eleven list words — by `Props.C03` (acceptance ⇔ count, membership, checksum; the unknown-word error comes
before any checksum work) exactly the list words of that shape, here in lexicographic order as the harness enumerates. -/
def sweep (W : List Word) (n : Nat) : List Word :=
  (W.filter fun w => w.length == n && w.all fun c => 0x61 ≤ c && c ≤ 0x7a).mergeSort lexLe

def ops : List (String × Handler) := [
  ("bip39.sweep", fun
    | [lang, n] => match wordList lang, n.toNat? with
      | some W, some k =>
        if 1 ≤ k ∧ k ≤ 5 then
          let ws := sweep W k
          s!"known={ws.length} {",".intercalate (ws.map hexOfBytes)}"
        else badOp
      | _, _ => badOp
    | _ => badOp),
  ("bip39.enc", fun
    | [lang, h] => match wordList lang, bytesOfHex h with
      | some W, some e => match entropyToMnemonic Hash.sha256 W e with
        | .ok ws => s!"ok {hexOfBytes (Mnemonic.join ws)}"
        | .error er => s!"err {errName er}"
      | _, _ => badOp
    | _ => badOp),
  ("bip39.dec", fun
    | [lang, h] => match wordList lang, bytesOfHex h with
      | some W, some s => match mnemonicToEntropy Hash.sha256 W (splitSpace s) with
        | .ok e => s!"ok {hexOfBytes e}"
        | .error er => s!"err {errName er}"
      | _, _ => badOp
    | _ => badOp),
  ("bip39.seed", fun
    | [lang, h, _raw, nf] => match wordList lang, bytesOfHex h, bytesOfHex nf with
      | some W, some s, some pn =>
        match Mnemonic.mnemonicToSeed Hash.sha256 W (fun _ => pn) Hash.pbkdf2Sha512 (splitSpace s) [] with
        | .ok seed => s!"ok {hexOfBytes seed}"
        | .error er => s!"err {errName er}"
      | _, _, _ => badOp
    | _ => badOp),
  ("bip39.parse", fun
    | [_raw, nf] => match bytesOfHex nf with
      | some n =>
        let fs := Mnemonic.fields n
        let again := Mnemonic.fields (Mnemonic.join fs)
        s!"{fieldsStr fs} idem={again == fs}"
      | none => badOp
    | _ => badOp),
  ("hash.sha256", fun | [h] => (bytesOfHex h).elim badOp (fun b => hexOfBytes (Hash.sha256 b)) | _ => badOp),
  ("hash.sha512", fun | [h] => (bytesOfHex h).elim badOp (fun b => hexOfBytes (Hash.sha512 b)) | _ => badOp)
]

end Iota.Driver.Bip39
