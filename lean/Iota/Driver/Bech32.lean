import Iota.Driver.Util
import Iota.Model.Bech32
import Iota.Model.GoBits

namespace Iota.Driver.Bech32
open Iota Iota.Driver Iota.Bech32

def kindName : ErrKind → String
  | .invalidLength => "length" | .missingSeparator => "missing-sep" | .invalidSeparator => "sep"
  | .invalidCharacter => "char" | .mixedCase => "case" | .invalidChecksum => "checksum"
  | .b32InvalidLength => "b32length" | .b32NonZeroPadding => "padding"

def errStr (e : Err) : String :=
  s!"err {kindName e.1} " ++ (match e.2 with | some o => toString o | none => "-")

def ops : List (String × Handler) := [
  ("bech32.enc", fun
    | [h, d] => match bytesOfHex h, bytesOfHex d with
      | some hrp, some src => match encode hrp src with
        | .ok s => s!"ok {hexOfBytes s}"
        | .error e => errStr e
      | _, _ => badOp
    | _ => badOp),
  ("bech32.dec", fun
    | [h] => match bytesOfHex h with
      | some s => match decode s with
        | .ok (hrp, d) => s!"ok {hexOfBytes hrp} {hexOfBytes d}"
        | .error e => errStr e
      | none => badOp
    | _ => badOp),
  -- the hand-written model of Go's UTF-8 decoding behind `for i := range s` (Iota/Model/GoBits.lean), which the
  -- translated `encoding.decode` uses: the byte offsets of the rune starts
  ("utf8.starts", fun
    | [h] => match bytesOfHex h with
      | some s => "ok " ++ ",".intercalate ((Go.runeStarts (s.map UInt8.toBitVec)).map fun i => toString i.toNat)
      | none => badOp
    | _ => badOp)
]

end Iota.Driver.Bech32
