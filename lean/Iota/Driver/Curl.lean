import Iota.Driver.Util
import Iota.Model.Curl
import Iota.Spec.CurlP
import Iota.Model.AsmSem
import Iota.Gen.CurlAsm

/-!
Driver ops for C06 / C20.
 curl.hist <ops>   — a whole history on one batched instance and, independently, on 64 single-lane
                     spec sponges; reply = per-op outcome, squeezed trits (tryte-packed) and whether
                     model and spec agree.  Ops are ';'-separated:
   A:<tritsCount>:<lane0>,<lane1>,…   absorb; a lane is a string over {-,0,+} (may be shorter/longer)
   S:<lanes>:<tritsCount>              squeeze
   R                                   reset
 curl.transform <l-plane words hex> <h-plane words hex>  — transformGeneric on arbitrary planes
-/
namespace Iota.Driver.Curl
open Iota Iota.Driver Iota.Curl

def tritOfChar (c : Char) : Int := if c == '+' then 1 else if c == '-' then -1 else 0
def charOfTrit (t : Int) : Char := if t > 0 then '+' else if t < 0 then '-' else '0'
def tritStr (ts : List Int) : String := String.ofList (ts.map charOfTrit)

structure Sim where
  c : Curl
  spec : List Spec.CurlP.Sponge   -- 64 lanes
  clone : Option (Curl × List Spec.CurlP.Sponge)

def Sim.init : Sim := { c := Curl.init, spec := List.replicate 64 Spec.CurlP.Sponge.init, clone := none }

def stepOp (s : Sim) (op : String) : Sim × String :=
  match op.splitOn ":" with
  | ["R"] => ({ s with c := Curl.init, spec := List.replicate 64 Spec.CurlP.Sponge.init }, "R")
  | ["C"] => ({ s with clone := some (s.c, s.spec) }, "C")      -- remember a clone
  | ["X"] => match s.clone with                                 -- swap to the clone
    | some (c, sp) => ({ c := c, spec := sp, clone := some (s.c, s.spec) }, "X")
    | none => (s, "X-none")
  | ["A", n, lanes] =>
    match n.toNat? with
    | none => (s, badOp)
    | some n =>
      let src : List (List Int) := if lanes == "_" then [] else (lanes.splitOn ",").map fun l => l.toList.map tritOfChar
      match s.c.absorb src n with
      | .err .invalidBatchSize => (s, "A:err-batch")
      | .err .invalidTritsLength => (s, "A:err-length")
      | .err _ => (s, "A:err-other")
      | .panic => (s, "A:panic")
      | .ok c' _ =>
        let spec' := (List.range 64).map fun j =>
          (s.spec.getD j Spec.CurlP.Sponge.init).absorb (src.getD j []) (n / 243)
        ({ s with c := c', spec := spec' }, "A:ok")
  | ["S", lanes, n] =>
    match lanes.toNat?, n.toNat? with
    | some lanes, some n =>
      match s.c.squeeze lanes n with
      | .err .invalidBatchSize => (s, "S:err-batch")
      | .err .invalidSqueezeLength => (s, "S:err-length")
      | .err _ => (s, "S:err-other")
      | .panic => (s, "S:panic")
      | .ok c' out =>
        let r := (List.range 64).map fun j => (s.spec.getD j Spec.CurlP.Sponge.init).squeeze (n / 243)
        let spec' := if n / 243 = 0 then s.spec else r.map (·.1)
        let specOut := (r.take lanes).map (·.2)
        let agree := if specOut == out then "=" else "MODEL-SPEC-DIFFER"
        ({ s with c := c', spec := spec' }, s!"S:{agree}:" ++ ",".intercalate (out.map tritStr))
    | _, _ => (s, badOp)
  | _ => (s, badOp)

def runHist (ops : String) : String :=
  let (_, outs) := (ops.splitOn ";").foldl (fun (acc : Sim × List String) op =>
    let (s', o) := stepOp acc.1 op; (s', o :: acc.2)) (Sim.init, [])
  ";".intercalate outs.reverse

def hexOfW (w : W) : String :=
  String.ofList ((List.range 16).map fun i => hexDigit ((w.toNat >>> (4 * (15 - i))) % 16))

def planeOfHex (s : String) : Option Plane :=
  let cs := s.toList
  if cs.length ≠ 729 * 16 then none else
  let words := (List.range 729).map fun i =>
    ((cs.drop (16 * i)).take 16).foldl (fun acc c => acc * 16 + (hexVal c).getD 0) 0
  let arr := (words.map fun n => BitVec.ofNat 64 n).toArray
  if h : arr.size = 729 then some ⟨arr, h⟩ else none

def hexOfPlane (p : Plane) : String := String.join (p.toList.map hexOfW)

def ops : List (String × Handler) := [
  ("curl.hist", fun
    | [h] => runHist h
    | _ => badOp),
  ("curl.transform", fun
    | [l, h] => match planeOfHex l, planeOfHex h with
      | some lp, some hp =>
        let z : Plane := Vector.replicate 729 0
        -- the portable model and the assembly interpreter (Iota/Model/AsmSem.lean) on the same planes; the
        -- interpreter runs the instruction list REGENERATED from transform_amd64.s on this run (Gen.CurlAsm), so
        -- an edited .s shows up here as a fault or a different result, not only as a broken tie theorem
        match transformGeneric { lto := z, hto := z, lfrom := lp, hfrom := hp },
              Iota.Asm.run Iota.Gen.CurlAsm.program 700000
                (Iota.Asm.initial { lto := z, hto := z, lfrom := lp, hfrom := hp }) with
        | some b, .done m =>
          if b.lto == m.lto && b.hto == m.hto && b.lfrom == m.lfrom && b.hfrom == m.hfrom then
            hexOfPlane b.lto ++ " " ++ hexOfPlane b.hto
          else "ASM-MODEL-DIFFERS"
        | none, _ => "panic"
        | _, .fault => "asm-fault"
        | _, .outOfFuel => "asm-out-of-fuel"
      | _, _ => badOp
    | _ => badOp)
]

end Iota.Driver.Curl
