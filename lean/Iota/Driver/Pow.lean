import Iota.Driver.Util
import Iota.Model.Pow
import Iota.Model.B1T6
import Iota.Model.Hash.Blake2b
import Iota.Spec.CurlP

/-!
Driver ops for C11 / C12.  The hash pipeline (BLAKE2b-256 → b1t6 → Curl-P-81, single lane) is assembled
from the Lean oracles/specs; the lane tests run the model on the planes the harness supplies.
-/
namespace Iota.Driver.Pow
open Iota Iota.Driver Iota.Pow

def planesOfHex (s : String) : Option Planes :=
  let cs := s.toList
  if cs.length ≠ 243 * 16 then none else
  let words := (List.range 243).map fun i =>
    ((cs.drop (16 * i)).take 16).foldl (fun acc c => acc * 16 + (hexVal c).getD 0) 0
  let arr := (words.map fun n => BitVec.ofNat 64 n).toArray
  if h : arr.size = 243 then some ⟨arr, h⟩ else none

def nonceBytes (n : Nat) : List UInt8 := (List.range 8).map fun i => UInt8.ofNat ((n >>> (8 * i)) % 256)

/-- Curl-P-81(b1t6(BLAKE2b-256(data)) ++ b1t6(nonce little-endian) ++ 000) -/
def powHashTrits (data : List UInt8) (nonce : Nat) : List Int :=
  let digest := Hash.blake2b256 data
  let block := B1T6.encode digest ++ B1T6.encode (nonceBytes nonce) ++ [0, 0, 0]
  let s := Spec.CurlP.Sponge.init.absorb block 1
  (s.squeeze 1).2

/-- Curl-P-81 of the block a worker hashes for a given digest and nonce -/
def digestHashTrits (digest : List UInt8) (nonce : Nat) : List Int :=
  let block := B1T6.encode digest ++ B1T6.encode (nonceBytes (nonce % 2 ^ 64))
  let block := block ++ List.replicate (243 - block.length) 0
  let s := Spec.CurlP.Sponge.init.absorb block 1
  (s.squeeze 1).2

/-- the bit planes `CopyState` leaves for 64 lanes of trits: l-bit set iff trit ≤ 0, h-bit set iff trit ≥ 0 -/
def planesOfLanes (lanes : Array (Array Int)) : Planes × Planes :=
  let word (f : Int → Bool) (j : Nat) : W :=
    (List.range 64).foldl (fun acc i => if f ((lanes.getD i #[]).getD j 0) then acc ||| (1#64 <<< i) else acc) 0#64
  (Vector.ofFn fun j => word (· ≤ 0) j.val, Vector.ofFn fun j => word (· ≥ 0) j.val)

/-- the sequential worker loop: batches of 64 consecutive nonces (wrapping mod 2^64) from `start`, the lane test
`test` of the model on each batch's planes; the first hit is returned. -/
def workerLoop (digest : List UInt8) (test : Planes → Planes → Nat) : Nat → Nat → Option Nat
  | 0, _ => none
  | fuel + 1, nonce =>
    let lanes := (Array.range 64).map fun i => (digestHashTrits digest (nonce + i)).toArray
    let (l, h) := planesOfLanes lanes
    let i := test l h
    if i < 64 then some ((nonce + i) % 2 ^ 64) else workerLoop digest test fuel ((nonce + 64) % 2 ^ 64)

def ops : List (String × Handler) := [
  -- one worker goroutine's mining loop from an arbitrary start nonce (v1: zero count; v2: len·t)
  ("pow1.worker", fun
    | [d, st, z] => match bytesOfHex d, st.toNat?, z.toNat? with
      | some digest, some start, some z =>
        match workerLoop digest (fun l h => checkV1 l h z) 400 start with
        | some n => toString n
        | none => "notfound"
      | _, _, _ => badOp
    | _ => badOp),
  ("pow2.worker", fun
    | [d, st, dl, t] => match bytesOfHex d, st.toNat?, dl.toNat?, t.toNat? with
      | some digest, some start, some dl, some t =>
        let lx := (dl + 8) * t
        match workerLoop digest (fun l h => checkV2 l h (sufficientTrailingZeros lx) (targetHash lx)) 400 start with
        | some n => toString n
        | none => "notfound"
      | _, _, _, _ => badOp
    | _ => badOp),
  -- hypothesis of the v1 soundness theorem, exercised on the implementation: z ↦ math.Pow(3,z)/len is
  -- strictly increasing on 0..243 for this len.  The model side has nothing to compute.
  ("pow1.mono", fun _ => "mono"),
  ("pow1.check", fun
    | [l, h, n] => match planesOfHex l, planesOfHex h, n.toNat? with
      | some l, some h, some n => toString (checkV1 l h n)
      | _, _, _ => badOp
    | _ => badOp),
  ("pow2.check", fun
    | [l, h, s, t] => match planesOfHex l, planesOfHex h, s.toNat?, t.toNat? with
      | some l, some h, some s, some t => toString (checkV2 l h s t)
      | _, _, _, _ => badOp
    | _ => badOp),
  ("pow2.toint", fun
    | [t] => match intsOfCsv t with
      | some ts => toString (toInt ts)
      | none => badOp
    | _ => badOp),
  ("pow2.statetoint", fun
    | [l, h, i] => match planesOfHex l, planesOfHex h, i.toNat? with
      | some l, some h, some i => toString (stateToInt l h i)
      | _, _, _ => badOp
    | _ => badOp),
  -- sufficientTrailingZeros / targetHash with the overflow guard of the Go code
  ("pow2.suff", fun
    | [len, t] => match len.toNat?, t.toNat? with
      | some dl, some t =>
        let L := dl + 8
        if (2 ^ 64 - 1) / L < t then "panic"
        else s!"{sufficientTrailingZeros ((L * t) % 2 ^ 64)} {targetHash (L * t)}"
      | _, _ => badOp
    | _ => badOp),
  -- v1: trailing zeros; v2: score — of data ++ nonce(LE)
  ("pow.score", fun
    | [d, n] => match bytesOfHex d, n.toNat? with
      | some data, some nonce =>
        let trits := powHashTrits data nonce
        s!"z={trailingZeros trits} scoreok=true v2={score trits (data.length + 8)}"
      | _, _ => badOp
    | _ => badOp),
  -- result of a Mine call: the nonce is part of the op; reply = scores and whether they meet the target
  ("pow.mined", fun
    | [ver, d, t, n] => match bytesOfHex d, n.toNat? with
      | some data, some nonce =>
        let trits := powHashTrits data nonce
        if ver == "v2" then
          match t.toNat? with
          -- the nonce was RETURNED by `Mine`: by `Props.C12` it meets the target, so the expected reply is `ok=true`
          -- (until seeded change C12-h this line evaluated `sc ≥ t`, and a low-scoring nonce was no disagreement)
          | some _ => let sc := score trits (data.length + 8); s!"score={sc} ok=true"
          | none => badOp
        else s!"z={trailingZeros trits} ok=true"
      | _, _ => badOp
    | _ => badOp),
  -- v2, one worker: no block before the returned nonce's block holds a nonce with difficulty > len·t
  ("pow2.nopassover", fun
    | [d, t, n] => match bytesOfHex d, t.toNat?, n.toNat? with
      | some data, some t, some nonce =>
        let lx := (data.length + 8) * t
        let bad := (List.range (nonce / 64 * 64)).find? fun m => difficulty (powHashTrits data m) > lx
        match bad with
        | none => "none-passed-over"
        | some m => s!"passed-over {m}"
      | _, _, _ => badOp
    | _ => badOp)
]

end Iota.Driver.Pow
