/-! Line-protocol helpers shared by the driver modules. Core Lean only. -/
namespace Iota.Driver

def hexDigit (n : Nat) : Char :=
  if n < 10 then Char.ofNat (48 + n) else Char.ofNat (87 + n)

def hexOfBytes (bs : List UInt8) : String :=
  if bs.isEmpty then "_" else
  String.mk (bs.flatMap fun b => [hexDigit (b.toNat / 16), hexDigit (b.toNat % 16)])

def hexVal (c : Char) : Option Nat :=
  if '0' ≤ c ∧ c ≤ '9' then some (c.toNat - 48)
  else if 'a' ≤ c ∧ c ≤ 'f' then some (c.toNat - 87)
  else if 'A' ≤ c ∧ c ≤ 'F' then some (c.toNat - 55)
  else none

partial def bytesOfHexAux : List Char → List UInt8 → Option (List UInt8)
  | [], acc => some acc.reverse
  | [_], _ => none
  | a :: b :: rest, acc =>
    match hexVal a, hexVal b with
    | some x, some y => bytesOfHexAux rest (UInt8.ofNat (16 * x + y) :: acc)
    | _, _ => none

/-- "_" is the empty string; otherwise hex. -/
def bytesOfHex (s : String) : Option (List UInt8) :=
  if s == "_" then some [] else bytesOfHexAux s.toList []

def intsOfCsv (s : String) : Option (List Int) :=
  if s == "_" then some [] else
  (s.splitOn ",").mapM String.toInt?

def csvOfInts (xs : List Int) : String :=
  if xs.isEmpty then "_" else ",".intercalate (xs.map toString)

def natsOfCsv (s : String) : Option (List Nat) :=
  if s == "_" then some [] else
  (s.splitOn ",").mapM String.toNat?

def csvOfNats (xs : List Nat) : String :=
  if xs.isEmpty then "_" else ",".intercalate (xs.map toString)

/-- a handler maps the argument tokens of one op line to the reply line. -/
abbrev Handler := List String → String

def badOp : String := "bad-op"

end Iota.Driver
