import Iota.Driver.All
import Iota.Driver.GenCode
import Iota.Driver.GenSecp
import Iota.Driver.GenAddr

namespace Iota.Driver
/-- the model's ops and the ops answered by the generated code -/
def allOps : List (String × Handler) := modelOps ++ GenCode.ops ++ GenSecp.ops ++ GenAddr.ops
end Iota.Driver
