import Iota.Driver.All
import Iota.Driver.GenCode
import Iota.Driver.GenSecp
import Iota.Driver.GenAddr
import Iota.Driver.GenBip39
import Iota.Driver.GenKey
import Iota.Driver.GenPow2

namespace Iota.Driver
/-- the model's ops and the ops answered by the generated code -/
def allOps : List (String × Handler) := modelOps ++ GenCode.ops ++ GenSecp.ops ++ GenAddr.ops ++ GenBip39.ops ++ GenKey.ops ++ GenPow2.ops
end Iota.Driver
