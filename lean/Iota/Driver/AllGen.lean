import Iota.Driver.All
import Iota.Driver.GenCode

namespace Iota.Driver
/-- the model's ops and the ops answered by the generated code -/
def allOps : List (String × Handler) := modelOps ++ GenCode.ops
end Iota.Driver
