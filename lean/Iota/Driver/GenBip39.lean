import Iota.Driver.Bip39
import Iota.Gen.Bip39Code

/-!
Translation validation by execution, stage 12: the `bip39.enc` / `bip39.dec` ops of the C03 stream answered by the GENERATED
`EntropyToMnemonic` / `MnemonicToEntropy` (`Iota/Gen/Bip39Code.lean`, regenerated from bip39.go and utils.go on every run),
with `sha256.Sum256` instantiated by the Lean SHA-256 and the three methods of the word-list interface by the committed
official lists.  Mirrored by the harness (`gen.bip39.*`), same reply format as the model's ops.  Core Lean only.
-/
namespace Iota.Driver.GenBip39
open Iota Iota.Driver Iota.Driver.Bip39
open Iota.Gen.Bip39Code

def bv (b : List UInt8) : List (BitVec 8) := b.map UInt8.toBitVec
def un (b : List (BitVec 8)) : List UInt8 := b.map UInt8.ofBitVec

def enW : List (List (BitVec 8)) := Spec.Bip39Words.english.map bv
def jaW : List (List (BitVec 8)) := Spec.Bip39Words.japanese.map bv

def listOf : String → Option (List (List (BitVec 8)))
  | "english" => some enW
  | "japanese" => some jaW
  | _ => none

def sha (b : List (BitVec 8)) : List (BitVec 8) := bv (Hash.sha256 (un b))

/-- `wordList.Contains`, `Word` (panics outside the array: none), `Index` (panics on an unknown word: none) -/
def containsM (W : List (List (BitVec 8))) (a : List (BitVec 8)) : Bool := W.contains a
def wordM (W : List (List (BitVec 8))) (i : BitVec 64) : Option (List (BitVec 8)) := if i.msb then none else W[i.toNat]?
def indexM (W : List (List (BitVec 8))) (a : List (BitVec 8)) : Option (BitVec 64) :=
  if W.contains a then some (BitVec.ofNat 64 (W.idxOf a)) else none

def errKind : String → String
  | "ErrInvalidEntropySize" => "size" | "ErrInvalidMnemonic" => "mnemonic" | "ErrInvalidChecksum" => "checksum" | other => other

def ops : List (String × Handler) := [
  ("gen.bip39.enc", fun
    | [lang, h] => match listOf lang, bytesOfHex h with
      | some W, some e => match big.EntropyToMnemonic sha (wordM W) (bv e) with
        | none => "panic"
        | some (ws, none) => s!"ok {hexOfBytes (Mnemonic.join (ws.map un))}"
        | some (_, some er) => s!"err {errKind er}"
      | _, _ => badOp
    | _ => badOp),
  ("gen.bip39.dec", fun
    | [lang, h] => match listOf lang, bytesOfHex h with
      | some W, some s => match big.MnemonicToEntropy sha (containsM W) (indexM W) ((splitSpace s).map bv) with
        | none => "panic"
        | some (e, none) => s!"ok {hexOfBytes (un e)}"
        | some (_, some er) => s!"err {errKind er}"
      | _, _ => badOp
    | _ => badOp)
]

end Iota.Driver.GenBip39
