/-
Code tie for pkg/pow/worker.go: v1 `checkStateTrits`, translated AS CODE by cmd/extract into
`Iota/Gen/Pow.lean` (`Gen.Pow.v1.checkStateTrits : List (BitVec 64) → List (BitVec 64) → BitVec 64 →
Option (BitVec 64)`, `none` = run-time panic), against the model `Pow.checkV1` of `Iota/Model/Pow.lean`.

The array parameters `l, h *[243]uint` are lists of length 243 (here: the lists of two `Planes` = `Vector W 243`).
* For every `n ≤ 243` the Go function does not panic and returns `checkV1 l h n`.
* For every `n > 243` (as a `uint`) the subtraction `243 - n` wraps around to a value above 243, the loop
  `for i := 243 - n; i < 243; i++` does not run, and the function returns `TrailingZeros(^0) = 0`, i.e. it
  reports lane 0 whatever the state is (the worker panics before calling it with such an `n`); the model
  `checkV1` is not meant for such `n` (its `Nat` subtraction truncates to 0 instead).
-/
import Iota.Gen.Pow
import Iota.Model.Pow
import Iota.Tie.GoFlow

namespace Iota.Tie.PowCode
open Iota Iota.Go

/-! ### `bits.TrailingZeros(^v)` is `firstZeroBit v` -/

theorem find?_congr_mem {α : Type} (l : List α) (p q : α → Bool) (h : ∀ a ∈ l, p a = q a) :
    l.find? p = l.find? q := by
  induction l with
  | nil => rfl
  | cons a l ih =>
    rw [List.find?_cons, List.find?_cons, h a (List.mem_cons_self ..),
      ih (fun b hb => h b (List.mem_cons_of_mem _ hb))]

theorem trailingZeros_not (v : BitVec 64) :
    trailingZeros64 (~~~v) = BitVec.ofNat 64 (Pow.firstZeroBit v) := by
  unfold trailingZeros64 Pow.firstZeroBit
  rw [find?_congr_mem (List.range 64) (fun i => (~~~v).getLsbD i) (fun i => !v.getLsbD i)]
  intro i hi
  have := List.mem_range.mp hi
  simp [this]

/-! ### the loop -/

/-- the body of the loop, on indices that are in range -/
def step (l h : List (BitVec 64)) (v i : BitVec 64) : BitVec 64 :=
  v ||| (l.getD i.toNat 0#64 ^^^ h.getD i.toNat 0#64)

theorem foldl_guard (F : BitVec 64 → Nat → BitVec 64) (start N : Nat) (hs : start ≤ N) (v0 : BitVec 64) :
    (List.range N).foldl (fun v i => if start ≤ i then F v i else v) v0 =
      ((List.range (N - start)).map (start + ·)).foldl F v0 := by
  have hN : N = start + (N - start) := by omega
  conv => lhs; rw [hN, List.range_add, List.foldl_append]
  have h1 : (List.range start).foldl (fun v i => if start ≤ i then F v i else v) v0 = v0 := by
    have : ∀ (l : List Nat), (∀ i ∈ l, i < start) →
        l.foldl (fun v i => if start ≤ i then F v i else v) v0 = v0 := by
      intro l
      induction l with
      | nil => intro _; rfl
      | cons a l ih =>
        intro h
        have ha : ¬ start ≤ a := by have := h a (List.mem_cons_self ..); omega
        rw [List.foldl_cons, if_neg ha]
        exact ih (fun i hi => h i (List.mem_cons_of_mem _ hi))
    exact this _ (fun i hi => List.mem_range.mp hi)
  rw [h1]
  have : ∀ (l : List Nat) (v : BitVec 64), (∀ i ∈ l, start ≤ i) →
      l.foldl (fun v i => if start ≤ i then F v i else v) v = l.foldl F v := by
    intro l
    induction l with
    | nil => intro _ _; rfl
    | cons a l ih =>
      intro v h
      rw [List.foldl_cons, List.foldl_cons, if_pos (h a (List.mem_cons_self ..))]
      exact ih _ (fun i hi => h i (List.mem_cons_of_mem _ hi))
  apply this
  intro i hi
  obtain ⟨m, _, rfl⟩ := List.mem_map.mp hi
  omega

theorem foldl_congr_mem {α β : Type} (l : List α) (f g : β → α → β) (b : β)
    (h : ∀ b, ∀ a ∈ l, f b a = g b a) : l.foldl f b = l.foldl g b := by
  induction l generalizing b with
  | nil => rfl
  | cons a l ih =>
    rw [List.foldl_cons, List.foldl_cons, h b a (List.mem_cons_self ..)]
    exact ih _ (fun b c hc => h b c (List.mem_cons_of_mem _ hc))

theorem getD_toList (l : Pow.Planes) (i : Nat) : l.toList.getD i 0#64 = l.toArray.getD i 0 := by
  rw [List.getD_eq_getElem?_getD, Array.getD_eq_getD_getElem?]
  simp [Vector.toList]

/-- **v1 `checkStateTrits`, `n ≤ 243`**: no panic, and the result of the model. -/
theorem checkStateTrits_eq (l h : Pow.Planes) (n : Nat) (hn : n ≤ 243) :
    Gen.Pow.v1.checkStateTrits l.toList h.toList (BitVec.ofNat 64 n) =
      some (BitVec.ofNat 64 (Pow.checkV1 l h n)) := by
  unfold Gen.Pow.v1.checkStateTrits Pow.checkV1
  have ha : (243#64 - BitVec.ofNat 64 n).toNat = 243 - n := by
    rw [BitVec.toNat_sub, BitVec.toNat_ofNat, Nat.mod_eq_of_lt (by omega : n < 2 ^ 64)]
    show (2 ^ 64 - n + 243) % 2 ^ 64 = 243 - n
    omega
  have hidx : forUp false false (243#64 - BitVec.ofNat 64 n) 243#64 1 =
      (List.range n).map (fun m => BitVec.ofNat 64 (243 - n + m)) := by
    rw [forUp_uint_lt, ha]
    show List.map _ (List.range (243 - (243 - n))) = _
    rw [show 243 - (243 - n) = n by omega]
  simp only []
  rw [hidx, forIn_eq_foldl _ _ _ (step l.toList h.toList)]
  · simp only [Flow.bind_run, Flow.result_done, trailingZeros_not]
    congr 2
    unfold Pow.orDiff
    rw [foldl_guard (fun v i => v ||| (l.toArray.getD i 0 ^^^ h.toArray.getD i 0)) (243 - n) 243 (by omega),
      show 243 - (243 - n) = n by omega, List.foldl_map, List.foldl_map]
    congr 1
    apply foldl_congr_mem
    intro v m hm
    have := List.mem_range.mp hm
    unfold step
    rw [BitVec.toNat_ofNat, Nat.mod_eq_of_lt (by omega : 243 - n + m < 2 ^ 64), getD_toList, getD_toList]
  · intro v i hi
    obtain ⟨m, hm, rfl⟩ := List.mem_map.mp hi
    have := List.mem_range.mp hm
    have hr : inRangeU (BitVec.ofNat 64 (243 - n + m)) 243 = true := by
      unfold inRangeU
      rw [BitVec.toNat_ofNat, Nat.mod_eq_of_lt (by omega : 243 - n + m < 2 ^ 64)]
      exact decide_eq_true (by omega)
    simp only [hr, Bool.not_true, Bool.false_eq_true, if_false]
    rfl

/-- **v1 `checkStateTrits`, `n > 243`**: `243 - n` wraps around, the loop does not run, the result is 0
(for any two lists, of any length). -/
theorem checkStateTrits_large (l h : List (BitVec 64)) (n : BitVec 64) (hn : 243 < n.toNat) :
    Gen.Pow.v1.checkStateTrits l h n = some 0#64 := by
  unfold Gen.Pow.v1.checkStateTrits
  have ha : 243 ≤ (243#64 - n).toNat := by
    rw [BitVec.toNat_sub]
    show 243 ≤ (2 ^ 64 - n.toNat + 243) % 2 ^ 64
    have := n.isLt
    omega
  have hidx : forUp false false (243#64 - n) 243#64 1 = [] := by
    rw [forUp_uint_lt]
    show List.map _ (List.range (243 - (243#64 - n).toNat)) = []
    rw [show 243 - (243#64 - n).toNat = 0 by omega]
    rfl
  simp only []
  rw [hidx]
  rfl

/-- the loop header `for i := 243 - n; i < 243; i++`, run step by step in 64-bit unsigned arithmetic (`Go.loopIdx`),
visits exactly the list the translation folds over, for EVERY `n` (wrap-around of `243 - n` included) -/
theorem header_sound (n : BitVec 64) (fuel : Nat) (h : (forUp false false (243#64 - n) 243#64 1).length < fuel) :
    loopIdx (cmpUp false false 243#64) (· + 1#64) fuel (243#64 - n) = forUp false false (243#64 - n) 243#64 1 :=
  forUp_sound_one false 243#64 fuel _ h

/-- the same for arbitrary lists of length 243 (the arrays behind `l, h *[243]uint`) -/
theorem checkStateTrits_eq' (l h : List (BitVec 64)) (hl : l.length = 243) (hh : h.length = 243)
    (n : Nat) (hn : n ≤ 243) :
    Gen.Pow.v1.checkStateTrits l h (BitVec.ofNat 64 n) =
      some (BitVec.ofNat 64 (Pow.checkV1 ⟨l.toArray, by simpa using hl⟩ ⟨h.toArray, by simpa using hh⟩ n)) := by
  have := checkStateTrits_eq ⟨l.toArray, by simpa using hl⟩ ⟨h.toArray, by simpa using hh⟩ n hn
  simpa [Vector.toList] using this

/-- as a Go `int` the result is the lane index `0 … 64` of the model -/
theorem checkV1_le (l h : Pow.Planes) (n : Nat) : Pow.checkV1 l h n ≤ 64 := by
  unfold Pow.checkV1 Pow.firstZeroBit
  cases hf : (List.range 64).find? (fun i => !(Pow.orDiff l h (243 - n)).getLsbD i) with
  | none => simp
  | some i =>
    have := List.mem_range.mp (List.mem_of_find?_eq_some hf)
    simp; omega

end Iota.Tie.PowCode
