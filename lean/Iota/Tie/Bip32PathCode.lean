/-
Code tie for pkg/bip32path: `parseUint31`, `ParsePath` and `Path.String`, translated AS CODE by cmd/extract into
`Iota/Gen/Bip32Path.lean` (`Gen.Bip32Path.code.*`; a string is `List (BitVec 8)`, `uint32` is `BitVec 32`, `error` is
`Option String`, `none` as a result = run-time panic), against the model of `Iota/Model/Bip32Path.lean`, for ALL inputs.

Two library functions are PARAMETERS of the generated code; what is ASSUMED about them is the structure `Externs`:
* `find_spec`: `keyReg.FindStringSubmatch` is the leftmost-first submatch function of `(\d+)([H']?)`, written out as the Lean
  function `findModel` (no ASCII digit: no match; otherwise the maximal run of digits that starts at the first digit, and
  the byte behind it when that is `H` or an apostrophe);
* `parseUint_digits`: `strconv.ParseUint(ds, 10, 31)` on a NON-EMPTY string of ASCII digits returns `(value, nil)` when the
  decimal value is below 2^31 and otherwise SOME error (any value, any name).  Nothing is assumed for other arguments:
  the generated code never passes any (`ParsePath_eq` is proved from these two facts alone).
`Externs.model` shows that the assumptions are satisfiable.

* `ParsePath_enc` / `ParsePath_eq`: for every `E : Externs` and EVERY byte string `s` the generated `ParsePath` returns
  what the model's `parsePath` returns: `(path, nil)` with the same indices, or `(nil, err)`; `err` is
  `ErrInvalidPathFormat` when the first bad component fails the shape test `digit+ [H']?` and otherwise whatever error
  `strconv.ParseUint` reported for its digits (`pathErr`).  No bound on the length of `s` is needed: the loop index `i` is
  only used in the message of the error, which is not modelled.
* `ParsePath_never_panics_any`: the generated `ParsePath` does not panic for ANY two functions passed as parameters
  (the three index expressions `matches[0]`, `matches[1]`, `matches[2]` are each guarded by a test of `len(matches)`),
  `ParsePath_never_panics` is the instance for an `E : Externs`.
* `Path_String_eq`: `Path.String` is the model's `printPath`, for every list of 32-bit indices.
-/
import Iota.Gen.Bip32Path
import Iota.Props.C10
import Iota.Tie.BV

namespace Iota.Tie.Bip32PathCode
open Iota Iota.Go
open Iota.Bip32Path (Str chSlash chM chH chApos isDigit split splitAux trimPrefixM decValue parseKey mapKeys parsePath
  decDigits decDigitsAux printKey printPath)
open Iota.Tie.Bech32Code (bv bv_ofBitVec ofBitVec_bv bv_append)
open Iota.Gen.Bip32Path

/-! ### bytes -/

/-- bytes of the translated code as bytes of the model (the inverse of `bv`) -/
def un (l : List (BitVec 8)) : Str := l.map UInt8.ofBitVec

theorem bv_un (l : List (BitVec 8)) : bv (un l) = l := bv_ofBitVec l
theorem un_bv (l : Str) : un (bv l) = l := ofBitVec_bv l

theorem bv_inj {a b : Str} (h : bv a = bv b) : a = b := by
  rw [← un_bv a, ← un_bv b, h]

theorem bv_beq (a b : Str) : (bv a == bv b) = decide (a = b) := by
  by_cases h : a = b
  · subst h; simp
  · rw [decide_eq_false h]
    exact beq_eq_false_iff_ne.mpr (fun e => h (bv_inj e))

theorem bv_bne (a b : Str) : (bv a != bv b) = !decide (a = b) := by
  rw [bne, bv_beq]

theorem byte_beq (a b : UInt8) : (a.toBitVec == b.toBitVec) = decide (a = b) := by
  by_cases h : a = b
  · subst h; simp
  · rw [decide_eq_false h]
    exact beq_eq_false_iff_ne.mpr (fun e => h (UInt8.toBitVec_inj.mp e))

@[simp] theorem bv_nil : bv [] = [] := rfl
@[simp] theorem bv_cons (a : UInt8) (l : Str) : bv (a :: l) = a.toBitVec :: bv l := rfl
@[simp] theorem bv_length (l : Str) : (bv l).length = l.length := List.length_map _

/-! ### `strings.Split(s, "/")` and `strings.TrimPrefix(s, "m/")` -/

/-- **`strings.Split(s, "/")` as translated is the model's `split`.** -/
theorem splitByte_eq (s : Str) : Go.splitByte (bv s) 47#8 = (split s).map bv := by
  induction s with
  | nil => rfl
  | cons c cs ih =>
    rw [bv_cons, Go.splitByte, ih]
    unfold split
    simp only [splitAux]
    rw [show (47#8 : BitVec 8) = chSlash.toBitVec from rfl, byte_beq]
    by_cases hc : c = chSlash
    · simp [hc]
    · simp [hc]

/-- **`strings.TrimPrefix(s, "m/")` as translated is the model's `trimPrefixM`.** -/
theorem trimPrefix_eq (s : Str) : Go.trimPrefix (bv s) [109#8, 47#8] = bv (trimPrefixM s) := by
  unfold Go.trimPrefix trimPrefixM
  match s with
  | [] => rfl
  | [a] => simp [List.isPrefixOf]
  | a :: b :: t =>
    have e1 : (109#8 == a.toBitVec) = decide (a = chM) := by
      rw [show (109#8 : BitVec 8) = chM.toBitVec from rfl, byte_beq]
      by_cases h : a = chM <;> simp [h, eq_comm]
    have e2 : (47#8 == b.toBitVec) = decide (b = chSlash) := by
      rw [show (47#8 : BitVec 8) = chSlash.toBitVec from rfl, byte_beq]
      by_cases h : b = chSlash <;> simp [h, eq_comm]
    simp only [bv_cons, List.isPrefixOf, e1, e2, Bool.and_true, List.length_cons, List.length_nil, List.take_succ_cons,
      List.take_zero, List.drop_succ_cons, List.drop_zero, List.cons.injEq, and_true]
    by_cases ha : a = chM <;> by_cases hb : b = chSlash <;> simp [ha, hb]

/-! ### `%d` -/

theorem decimalFuel_eq (f n : Nat) (acc : List (BitVec 8)) (h : n < 10 ^ f) :
    Go.decimalFuel f n acc = bv (decDigitsAux f n) ++ acc := by
  induction f generalizing n acc with
  | zero => rfl
  | succ f ih =>
    rw [Go.decimalFuel, decDigitsAux]
    by_cases h10 : n < 10
    · have hd : n / 10 = 0 := by omega
      have hm : n % 10 = n := by omega
      simp only [hd, hm, if_true, if_pos h10]
      rfl
    · have hd : ¬ n / 10 = 0 := by omega
      simp only [if_neg hd, if_neg h10]
      rw [ih (n / 10) _ (by rw [Nat.pow_succ] at h; omega), bv_append, List.append_assoc]
      rfl

theorem decDigitsAux_fuel (f g n : Nat) (hf : 0 < f) (hg : 0 < g) (hnf : n < 10 ^ f) (hng : n < 10 ^ g) :
    decDigitsAux f n = decDigitsAux g n := by
  induction f generalizing g n with
  | zero => omega
  | succ f ih =>
    obtain ⟨g, rfl⟩ : ∃ g', g = g' + 1 := ⟨g - 1, by omega⟩
    rw [decDigitsAux, decDigitsAux]
    by_cases h10 : n < 10
    · simp only [if_pos h10]
    · simp only [if_neg h10]
      have hf0 : 0 < f := by
        rcases Nat.eq_zero_or_pos f with h0 | h0
        · subst h0; simp at hnf; omega
        · exact h0
      have hg0 : 0 < g := by
        rcases Nat.eq_zero_or_pos g with h0 | h0
        · subst h0; simp at hng; omega
        · exact h0
      rw [ih g (n / 10) hf0 hg0 (by rw [Nat.pow_succ] at hnf; omega) (by rw [Nat.pow_succ] at hng; omega)]

/-- **`%d` as translated (`Go.decimal`) prints the model's `decDigits`**, for every value below 10^10 (so for every
`uint32`); the model's printer has fuel for 10 digits. -/
theorem decimal_eq (n : Nat) (h : n < 10 ^ 10) : Go.decimal n = bv (decDigits n) := by
  have hn : n < 10 ^ (n + 1) := Nat.lt_trans (Nat.lt_pow_self (by omega : 1 < 10)) (Nat.pow_lt_pow_right (by omega) (by omega))
  unfold Go.decimal decDigits
  rw [decimalFuel_eq (n + 1) n [] hn, List.append_nil, decDigitsAux_fuel (n + 1) 10 n (by omega) (by omega) hn h]

/-- the hypothesis cannot be dropped: the model's printer runs out of fuel at 10^10 -/
example : Go.decimal (10 ^ 10) ≠ bv (decDigits (10 ^ 10)) := by decide +kernel

/-! ### `Path.String` -/

theorem clear_hardened (i : Nat) (h : i < 2 ^ 32) :
    (BitVec.ofNat 32 i &&& ~~~2147483648#32).toNat = i % Bip32Path.hardened := by
  rw [show (~~~2147483648#32 : BitVec 32) = BitVec.ofNat 32 (2 ^ 31 - 1) from by decide, BitVec.toNat_and,
    BitVec.toNat_ofNat, BitVec.toNat_ofNat, Nat.mod_eq_of_lt h,
    Nat.mod_eq_of_lt (by omega : 2 ^ 31 - 1 < 2 ^ 32), Nat.and_two_pow_sub_one_eq_mod]
  rfl

theorem ule_hardened (i : Nat) (h : i < 2 ^ 32) :
    BitVec.ule 2147483648#32 (BitVec.ofNat 32 i) = decide (i ≥ Bip32Path.hardened) := by
  rw [BitVec.ule, BitVec.toNat_ofNat, BitVec.toNat_ofNat, Nat.mod_eq_of_lt h]
  rfl

theorem Path_String_loop (p : List Nat) (hp : ∀ i ∈ p, i < 2 ^ 32) (acc : Str) :
    List.foldl (fun (builder : List (BitVec 8)) (idx : BitVec 32) =>
      let builder : List (BitVec 8) := (builder ++ (([47#8] : List (BitVec 8)) ++ Go.decimal (idx &&& ~~~2147483648#32).toNat))
      (if (BitVec.ule 2147483648#32 idx) then (builder ++ [39#8]) else builder)) (bv acc) (p.map (BitVec.ofNat 32)) =
    bv (acc ++ p.flatMap printKey) := by
  induction p generalizing acc with
  | nil => simp
  | cons i p ih =>
    have hi : i < 2 ^ 32 := hp i (by simp)
    have hm : i % Bip32Path.hardened < 10 ^ 10 := by unfold Bip32Path.hardened; omega
    rw [List.map_cons, List.foldl_cons, List.flatMap_cons]
    simp only [clear_hardened i hi, ule_hardened i hi, decimal_eq _ hm]
    have hstep : (if decide (i ≥ Bip32Path.hardened) = true
        then bv acc ++ ([47#8] ++ bv (decDigits (i % Bip32Path.hardened))) ++ [39#8]
        else bv acc ++ ([47#8] ++ bv (decDigits (i % Bip32Path.hardened)))) = bv (acc ++ printKey i) := by
      unfold printKey
      by_cases hh : i ≥ Bip32Path.hardened
      · simp [hh, bv_append]; exact ⟨rfl, rfl⟩
      · simp [hh, bv_append]; rfl
    rw [hstep, ih (fun j hj => hp j (by simp [hj])), List.append_assoc]

/-- **`Path.String` as translated prints the model's `printPath`**, for every list of 32-bit indices. -/
theorem Path_String_eq (p : List Nat) (hp : ∀ i ∈ p, i < 2 ^ 32) :
    code.Path_String (p.map (BitVec.ofNat 32)) = bv (printPath p) := by
  unfold code.Path_String printPath
  exact Path_String_loop p hp [chM]

/-! ### the two library functions that are parameters of the generated code -/

/-- the group `([H']?)` matched at the start of `r`: the first byte when it is `H` or an apostrophe, otherwise empty -/
def marker : Str → Str
  | [] => []
  | c :: _ => if c = chH ∨ c = chApos then [c] else []

/-- the match of `(\d+)([H']?)` at the start of a string `rest` that begins with a digit: the whole match, the group of
digits (the MAXIMAL run: `+` is greedy), the marker group (`?` is greedy: non-empty when possible) -/
def findAt (rest : Str) : List Str :=
  [rest.takeWhile isDigit ++ marker (rest.dropWhile isDigit), rest.takeWhile isDigit, marker (rest.dropWhile isDigit)]

/-- **what `regexp.MustCompile("(\d+)([H']?)").FindStringSubmatch(key)` returns**: the leftmost match, which starts at the
first ASCII digit of `key` (no digit: no match, the empty list) -/
def findModel : Str → List Str
  | [] => []
  | c :: cs => if isDigit c then findAt (c :: cs) else findModel cs

/-- `findModel` in the words of the regular expression: no digit, no match -/
theorem findModel_no_digit (key : Str) (h : ∀ c ∈ key, isDigit c = false) : findModel key = [] := by
  induction key with
  | nil => rfl
  | cons c cs ih =>
    rw [findModel, if_neg (by simp [h c (by simp)])]
    exact ih (fun d hd => h d (by simp [hd]))

/-- … and otherwise, with `pre` the bytes before the first digit, `ds` the maximal run of digits that starts there and
`rest` what follows: `[ds ++ mk, ds, mk]`, where `mk` is the first byte of `rest` when it is `H` / `'`, else empty -/
theorem findModel_digit (pre ds rest : Str) (hpre : ∀ c ∈ pre, isDigit c = false) (hne : ds ≠ [])
    (hds : ∀ d ∈ ds, isDigit d = true) (hrest : ∀ c, rest.head? = some c → isDigit c = false) :
    findModel (pre ++ (ds ++ rest)) = [ds ++ marker rest, ds, marker rest] := by
  induction pre with
  | nil =>
    obtain ⟨tw, dw⟩ := Proofs.Bip32Path.takeWhile_digits_append ds rest hds hrest
    cases ds with
    | nil => exact absurd rfl hne
    | cons d ds' =>
      rw [List.nil_append, List.cons_append, findModel, if_pos (hds d (by simp)), ← List.cons_append, findAt, tw, dw]
  | cons c cs ih =>
    rw [List.cons_append, findModel, if_neg (by simp [hpre c (by simp)])]
    exact ih (fun d hd => hpre d (by simp [hd]))

/-- **what is assumed about the two library functions** (both are facts about Go's `regexp` and `strconv`) -/
structure Externs where
  /-- `keyReg.FindStringSubmatch` -/
  findStringSubmatch : List (BitVec 8) → List (List (BitVec 8))
  /-- `strconv.ParseUint` (string, base, bitSize) -/
  parseUint : List (BitVec 8) → BitVec 64 → BitVec 64 → BitVec 64 × Option String
  /-- `FindStringSubmatch` is the leftmost-first submatch function of `(\d+)([H']?)` -/
  find_spec : ∀ key : Str, findStringSubmatch (bv key) = (findModel key).map bv
  /-- `ParseUint(ds, 10, 31)` on a non-empty string of ASCII digits: the decimal value and no error when it is below
  2^31, otherwise some value and some error -/
  parseUint_digits : ∀ ds : Str, ds ≠ [] → (∀ d ∈ ds, isDigit d = true) →
    if decValue ds < 2 ^ 31 then parseUint (bv ds) 10#64 31#64 = (BitVec.ofNat 64 (decValue ds), none)
    else ∃ x e, parseUint (bv ds) 10#64 31#64 = (x, some e)

/-- the model's functions satisfy the assumptions (base and bit size are ignored; a string that is empty or contains
a byte that is no digit is a syntax error, a value that does not fit 31 bits a range error with the largest value) -/
def Externs.model : Externs where
  findStringSubmatch l := (findModel (un l)).map bv
  parseUint l _ _ :=
    if (un l).isEmpty || !(un l).all isDigit then (0#64, some "ErrSyntax")
    else if decValue (un l) < 2 ^ 31 then (BitVec.ofNat 64 (decValue (un l)), none)
    else (2147483647#64, some "ErrRange")
  find_spec key := by rw [un_bv]
  parseUint_digits ds hne hd := by
    have h1 : ds.isEmpty = false := by cases ds with
      | nil => exact absurd rfl hne
      | cons _ _ => rfl
    have h2 : ds.all isDigit = true := List.all_eq_true.mpr hd
    simp only [un_bv, h1, h2, Bool.not_true, Bool.or_self, Bool.false_eq_true, if_false]
    split
    · rfl
    · exact ⟨_, _, rfl⟩

theorem externs_satisfiable : Nonempty Externs := ⟨Externs.model⟩

/-! ### `parseUint31` -/

/-- **`parseUint31` on a non-empty string of ASCII digits is the model's `parseUint31`**: the value (as a `uint32`, nothing
lost by the conversion) and no error, or 0 and the error `strconv.ParseUint` reported. -/
theorem parseUint31_eq (E : Externs) (ds : Str) (hne : ds ≠ []) (hd : ∀ d ∈ ds, isDigit d = true) :
    code.parseUint31 E.parseUint (bv ds) =
      match Bip32Path.parseUint31 ds with
      | some v => (BitVec.ofNat 32 v, none)
      | none => (0#32, some ((E.parseUint (bv ds) 10#64 31#64).2.getD "")) := by
  have h := E.parseUint_digits ds hne hd
  unfold code.parseUint31 Bip32Path.parseUint31
  by_cases hv : decValue ds < 2 ^ 31
  · rw [if_pos hv] at h ⊢
    simp only [h, Option.isSome_none, Bool.false_eq_true, if_false]
    rw [BitVec.setWidth_ofNat_of_le (by omega)]
  · rw [if_neg hv] at h ⊢
    obtain ⟨x, e, h⟩ := h
    simp only [h, Option.isSome_some, if_true, Option.getD_some]

/-- in the error case there IS an error -/
theorem parseUint31_err (E : Externs) (ds : Str) (hne : ds ≠ []) (hd : ∀ d ∈ ds, isDigit d = true)
    (h : Bip32Path.parseUint31 ds = none) : (E.parseUint (bv ds) 10#64 31#64).2.isSome = true := by
  have h' := E.parseUint_digits ds hne hd
  unfold Bip32Path.parseUint31 at h
  by_cases hv : decValue ds < 2 ^ 31
  · rw [if_pos hv] at h; cases h
  · rw [if_neg hv] at h'
    obtain ⟨x, e, h'⟩ := h'
    rw [h']; rfl

/-! ### one component: the body of the loop of `ParsePath` -/

/-- the body of the loop of the generated `ParsePath` (its text; `ParsePath_unfold` holds by `rfl`) -/
def body (keyReg_FindStringSubmatch : List (BitVec 8) → List (List (BitVec 8)))
    (strconv_ParseUint : List (BitVec 8) → BitVec 64 → BitVec 64 → (BitVec 64 × Option String))
    (path : List (BitVec 32)) (rk_1 : BitVec 64 × List (BitVec 8)) :
    Flow (List (BitVec 32) × Option String) (List (BitVec 32)) :=
  let key : List (BitVec 8) := rk_1.2
  let matches_2 : List (List (BitVec 8)) := (keyReg_FindStringSubmatch key)
  if !((BitVec.slt (BitVec.ofNat 64 matches_2.length) 2#64) || (decide (0 < matches_2.length))) then Go.Flow.panic else
  if ((BitVec.slt (BitVec.ofNat 64 matches_2.length) 2#64) || ((matches_2.getD 0 ([] : List (BitVec 8))) != key)) then
    Go.Flow.done (([] : List (BitVec 32)), (some "ErrInvalidPathFormat"))
  else
  if !(decide (1 < matches_2.length)) then Go.Flow.panic else
  let st_2 : BitVec 32 × Option String := (code.parseUint31 strconv_ParseUint (matches_2.getD 1 ([] : List (BitVec 8))))
  let v : BitVec 32 := st_2.1
  let err : Option String := st_2.2
  if (err).isSome then
    Go.Flow.done (([] : List (BitVec 32)), (Go.errWrap err))
  else
  if !(!(BitVec.slt 2#64 (BitVec.ofNat 64 matches_2.length)) || (decide (2 < matches_2.length))) then Go.Flow.panic else
  let v : BitVec 32 := (if ((BitVec.slt 2#64 (BitVec.ofNat 64 matches_2.length)) && (BitVec.slt 0#64 (BitVec.ofNat 64 (matches_2.getD 2 ([] : List (BitVec 8))).length))) then (v ||| 2147483648#32) else v)
  let path : List (BitVec 32) := (path ++ [v])
  Go.Flow.run path

theorem ParsePath_unfold (find : List (BitVec 8) → List (List (BitVec 8)))
    (pu : List (BitVec 8) → BitVec 64 → BitVec 64 → (BitVec 64 × Option String)) (s : List (BitVec 8)) :
    code.ParsePath find pu s = Flow.result (
      if ((s == ([] : List (BitVec 8))) || (s == ([109#8] : List (BitVec 8)))) then
        Flow.done (([] : List (BitVec 32)), (none : Option String))
      else
        Flow.bind (Go.forIn (Go.indexed (Go.splitByte (Go.trimPrefix s [109#8, 47#8]) 47#8)) [] (body find pu))
          (fun path => Flow.done (path, (none : Option String)))) := rfl

/-- the shape test of a component: at least one digit, then nothing, `H` or an apostrophe -/
def shapeOK (key : Str) : Bool :=
  !(key.takeWhile isDigit).isEmpty && decide (marker (key.dropWhile isDigit) = key.dropWhile isDigit)

theorem marker_eq_self (r : Str) : marker r = r ↔ (r = [] ∨ r = [chH] ∨ r = [chApos]) := by
  cases r with
  | nil => simp [marker]
  | cons c t =>
    simp only [marker]
    by_cases hc : c = chH ∨ c = chApos
    · rw [if_pos hc]
      rcases hc with hc | hc <;> simp [hc]
    · rw [if_neg hc]
      simp only [not_or] at hc
      simp [hc.1, hc.2]

theorem marker_length_le (r : Str) : (marker r).length ≤ r.length := by
  cases r with
  | nil => simp [marker]
  | cons c t => simp only [marker]; split <;> simp

theorem parseKey_of_not_shape (key : Str) (h : shapeOK key = false) : parseKey key = none := by
  unfold parseKey
  unfold shapeOK at h
  simp only []
  by_cases he : (key.takeWhile isDigit).isEmpty = true
  · rw [if_pos he]
  · rw [if_neg he]
    simp only [he, Bool.not_false, Bool.true_and, decide_eq_false_iff_not, marker_eq_self] at h
    simp only [not_or] at h
    rw [if_neg h.1, if_neg (by simp [h.2.1, h.2.2])]

theorem parseKey_of_shape (key : Str) (h : shapeOK key = true) :
    parseKey key = (Bip32Path.parseUint31 (key.takeWhile isDigit)).map
      (· + if key.dropWhile isDigit = [] then 0 else Bip32Path.hardened) := by
  unfold parseKey
  unfold shapeOK at h
  simp only [Bool.and_eq_true, Bool.not_eq_true', decide_eq_true_eq, marker_eq_self] at h
  obtain ⟨he, hr⟩ := h
  simp only [he, Bool.false_eq_true, if_false]
  by_cases h0 : key.dropWhile isDigit = []
  · simp only [h0, if_true]
    cases Bip32Path.parseUint31 (key.takeWhile isDigit) <;> simp
  · have hr' : key.dropWhile isDigit = [chH] ∨ key.dropWhile isDigit = [chApos] := by
      rcases hr with hr | hr
      · exact absurd hr h0
      · exact hr
    rw [if_neg h0, if_pos hr', if_neg h0]

theorem findModel_len (key : Str) :
    findModel key = [] ∨ ∃ m0 m1 m2, findModel key = [m0, m1, m2] ∧ m0.length ≤ key.length := by
  induction key with
  | nil => exact Or.inl rfl
  | cons c cs ih =>
    rw [findModel]
    split
    · refine Or.inr ⟨_, _, _, rfl, ?_⟩
      have := marker_length_le ((c :: cs).dropWhile isDigit)
      have h2 : ((c :: cs).takeWhile isDigit).length + ((c :: cs).dropWhile isDigit).length = (c :: cs).length := by
        rw [← List.length_append, List.takeWhile_append_dropWhile]
      rw [List.length_append]
      omega
    · rcases ih with h | ⟨m0, m1, m2, h, hl⟩
      · exact Or.inl h
      · exact Or.inr ⟨m0, m1, m2, h, by simp; omega⟩

theorem findModel_of_shape (key : Str) (h : shapeOK key = true) :
    findModel key = [key, key.takeWhile isDigit, key.dropWhile isDigit] := by
  unfold shapeOK at h
  simp only [Bool.and_eq_true, Bool.not_eq_true', decide_eq_true_eq] at h
  obtain ⟨he, hr⟩ := h
  cases key with
  | nil => simp at he
  | cons c cs =>
    by_cases hc : isDigit c = true
    · rw [findModel, if_pos hc, findAt, hr, List.takeWhile_append_dropWhile]
    · simp [hc] at he

theorem findModel_of_not_shape (key : Str) (h : shapeOK key = false) :
    findModel key = [] ∨ ∃ m0 m1 m2, findModel key = [m0, m1, m2] ∧ m0 ≠ key := by
  cases key with
  | nil => exact Or.inl rfl
  | cons c cs =>
    rw [findModel]
    by_cases hc : isDigit c = true
    · rw [if_pos hc]
      refine Or.inr ⟨_, _, _, rfl, ?_⟩
      unfold shapeOK at h
      have he : ((c :: cs).takeWhile isDigit).isEmpty = false := by simp [hc]
      simp only [he, Bool.not_false, Bool.true_and, decide_eq_false_iff_not] at h
      intro heq
      apply h
      have h2 := @List.takeWhile_append_dropWhile _ isDigit (c :: cs)
      exact List.append_cancel_left (heq.trans h2.symm)
    · rw [if_neg hc]
      rcases findModel_len cs with h0 | ⟨m0, m1, m2, h0, hl⟩
      · exact Or.inl h0
      · refine Or.inr ⟨m0, m1, m2, h0, ?_⟩
        intro heq
        rw [heq] at hl
        simp at hl
        omega

theorem takeWhile_digits (key : Str) : ∀ d ∈ key.takeWhile isDigit, isDigit d = true := fun d hd =>
  List.all_eq_true.mp (@List.all_takeWhile _ isDigit key) d hd

theorem or_hardened (v : Nat) (h : v < 2 ^ 31) :
    BitVec.ofNat 32 v ||| 2147483648#32 = BitVec.ofNat 32 (v + Bip32Path.hardened) := by
  apply BitVec.eq_of_toNat_eq
  have := Nat.two_pow_add_eq_or_of_lt h 1
  rw [BitVec.toNat_or, BitVec.toNat_ofNat, BitVec.toNat_ofNat, BitVec.toNat_ofNat, Nat.mod_eq_of_lt (by omega : v < 2 ^ 32),
    Nat.or_comm]
  unfold Bip32Path.hardened
  simp only [Nat.mul_one] at this
  rw [Nat.mod_eq_of_lt (by omega : 2147483648 < 2 ^ 32), show (2147483648 : Nat) = 2 ^ 31 from rfl, ← this,
    Nat.mod_eq_of_lt (by omega), Nat.add_comm]

/-- the name of the error the generated `ParsePath` returns for a component the model rejects: `ErrInvalidPathFormat` when
the shape test fails, otherwise what `strconv.ParseUint` reported for its digits -/
def keyErr (E : Externs) (key : Str) : String :=
  if shapeOK key then (E.parseUint (bv (key.takeWhile isDigit)) 10#64 31#64).2.getD "" else "ErrInvalidPathFormat"

/-- **one iteration of the loop is the model's `parseKey`**: the index of the component is appended, or the function returns
an error; it does not panic. -/
theorem body_eq (E : Externs) (path : List (BitVec 32)) (i : BitVec 64) (key : Str) :
    body E.findStringSubmatch E.parseUint path (i, bv key) =
      match parseKey key with
      | some v => .run (path ++ [BitVec.ofNat 32 v])
      | none => .done ([], some (keyErr E key)) := by
  unfold body
  simp only [E.find_spec key]
  cases hs : shapeOK key with
  | false =>
    rw [parseKey_of_not_shape key hs]
    have hk : keyErr E key = "ErrInvalidPathFormat" := by simp [keyErr, hs]
    rw [hk]
    rcases findModel_of_not_shape key hs with h | ⟨m0, m1, m2, h, hne⟩
    · rw [h]; rfl
    · rw [h]
      simp [bv_bne, hne]
  | true =>
    have hsh := hs
    unfold shapeOK at hsh
    simp only [Bool.and_eq_true, Bool.not_eq_true', decide_eq_true_eq, marker_eq_self] at hsh
    obtain ⟨he, hr⟩ := hsh
    have hne : key.takeWhile isDigit ≠ [] := by
      intro h0; rw [h0] at he; simp at he
    rw [parseKey_of_shape key hs, findModel_of_shape key hs]
    have hpu := parseUint31_eq E _ hne (takeWhile_digits key)
    have hk : keyErr E key = (E.parseUint (bv (key.takeWhile isDigit)) 10#64 31#64).2.getD "" := by simp [keyErr, hs]
    have e3 : BitVec.slt (BitVec.ofNat 64 3) 2#64 = false := by decide
    have e4 : BitVec.slt 2#64 (BitVec.ofNat 64 3) = true := by decide
    have d0 : decide (0 < 3) = true := rfl
    have d1 : decide (1 < 3) = true := rfl
    have d2 : decide (2 < 3) = true := rfl
    simp only [List.map_cons, List.map_nil, List.length_cons, List.length_nil, Nat.zero_add, Nat.reduceAdd, e3, e4,
      Bool.false_or, d0, d1, d2, Bool.not_true, Bool.false_eq_true, if_false, List.getD_cons_zero,
      List.getD_cons_succ, bne_self_eq_false, Bool.true_and, hpu, bv_length]
    cases hv : Bip32Path.parseUint31 (key.takeWhile isDigit) with
    | none =>
      simp only [Option.isSome_some, if_true, Go.errWrap, Option.getD_some, Option.map_none, hk]
    | some v =>
      have hv31 : v < 2 ^ 31 := by
        unfold Bip32Path.parseUint31 at hv
        split at hv
        · cases hv; assumption
        · cases hv
      simp only [Option.isSome_none, Bool.false_eq_true, if_false, Option.map_some]
      rcases hr with hr | hr | hr
      · simp [hr]
      · simp [hr, chH, or_hardened v hv31]
      · simp [hr, chApos, or_hardened v hv31]

/-! ### the loop over the components, and `ParsePath` -/

/-- the name of the error for a list of components the model rejects: that of the first rejected component -/
def pathErr (E : Externs) : List Str → String
  | [] => ""
  | k :: ks =>
    match parseKey k with
    | none => keyErr E k
    | some _ => pathErr E ks

theorem loop_eq (E : Externs) (ks : List Str) (k : Nat) (acc : List (BitVec 32)) :
    Go.forIn (Go.indexedFrom k (ks.map bv)) acc (body E.findStringSubmatch E.parseUint) =
      match mapKeys ks with
      | some vs => .run (acc ++ vs.map (BitVec.ofNat 32))
      | none => .done ([], some (pathErr E ks)) := by
  induction ks generalizing k acc with
  | nil => simp [Go.indexedFrom, mapKeys]
  | cons x xs ih =>
    rw [List.map_cons, Go.indexedFrom, forIn_cons, body_eq]
    simp only [mapKeys, pathErr]
    cases hx : parseKey x with
    | none => simp
    | some v =>
      simp only [Flow.bind_run, ih]
      cases mapKeys xs with
      | none => rfl
      | some vs => simp

theorem guard_eq (s : Str) :
    ((bv s == ([] : List (BitVec 8))) || (bv s == ([109#8] : List (BitVec 8)))) = decide (s = [] ∨ s = [chM]) := by
  have h1 : (bv s == ([] : List (BitVec 8))) = decide (s = []) := bv_beq s []
  have h2 : (bv s == ([109#8] : List (BitVec 8))) = decide (s = [chM]) := bv_beq s [chM]
  rw [h1, h2]
  by_cases a : s = [] <;> by_cases b : s = [chM] <;> simp [a, b]

/-- **MAIN (as one equation): the generated `ParsePath` returns the model's outcome**, for every pair of library functions
with the assumed behaviour and EVERY byte string: it does not panic; where the model accepts it returns the same indices
and no error; where the model rejects it returns no indices and the error `pathErr`. -/
theorem ParsePath_enc (E : Externs) (s : Str) :
    code.ParsePath E.findStringSubmatch E.parseUint (bv s) =
      some (match parsePath s with
        | some p => (p.map (BitVec.ofNat 32), none)
        | none => ([], some (pathErr E (split (trimPrefixM s))))) := by
  rw [ParsePath_unfold, guard_eq]
  unfold parsePath
  by_cases h : s = [] ∨ s = [chM]
  · rw [if_pos h, if_pos (decide_eq_true h)]; rfl
  · rw [if_neg h, if_neg (by simpa using h), trimPrefix_eq, splitByte_eq]
    unfold Go.indexed
    rw [loop_eq]
    cases mapKeys (split (trimPrefixM s)) <;> simp

/-- **MAIN: the generated `ParsePath` equals the model's `parsePath`**: where `parsePath s = some p` it returns
`(p, nil)` (the indices as `uint32`), where `parsePath s = none` it returns `(nil, err)` for some error `err` (the model
does not distinguish the errors; `ParsePath_error` says which one it is). -/
theorem ParsePath_eq (E : Externs) (s : Str) :
    (∀ p, parsePath s = some p →
      code.ParsePath E.findStringSubmatch E.parseUint (bv s) = some (p.map (BitVec.ofNat 32), none)) ∧
    (parsePath s = none →
      ∃ e, code.ParsePath E.findStringSubmatch E.parseUint (bv s) = some ([], some e)) := by
  refine ⟨fun p h => ?_, fun h => ⟨pathErr E (split (trimPrefixM s)), ?_⟩⟩
  · rw [ParsePath_enc, h]
  · rw [ParsePath_enc, h]

/-- the error of a rejected string -/
theorem ParsePath_error (E : Externs) (s : Str) (h : parsePath s = none) :
    code.ParsePath E.findStringSubmatch E.parseUint (bv s) = some ([], some (pathErr E (split (trimPrefixM s)))) := by
  rw [ParsePath_enc, h]

/-- `pathErr` is `keyErr` of the first component the model rejects … -/
theorem pathErr_eq (E : Externs) (ks : List Str) :
    pathErr E ks = match ks.find? (fun k => (parseKey k).isNone) with
      | some k => keyErr E k
      | none => "" := by
  induction ks with
  | nil => rfl
  | cons k ks ih =>
    rw [pathErr, List.find?_cons]
    cases parseKey k with
    | none => rfl
    | some v => simpa using ih

/-- … which is `ErrInvalidPathFormat` exactly when that component fails the shape test `digit+ [H']?` … -/
theorem keyErr_format (E : Externs) (key : Str) (h : shapeOK key = false) : keyErr E key = "ErrInvalidPathFormat" := by
  simp [keyErr, h]

/-- … and otherwise (digits whose value is 2^31 or more) the error `strconv.ParseUint` returned for the digits, which is
not nil. -/
theorem keyErr_range (E : Externs) (key : Str) (h : shapeOK key = true) (hk : parseKey key = none) :
    some (keyErr E key) = (E.parseUint (bv (key.takeWhile isDigit)) 10#64 31#64).2 := by
  have hne : key.takeWhile isDigit ≠ [] := by
    unfold shapeOK at h
    intro h0; rw [h0] at h; simp at h
  rw [parseKey_of_shape key h] at hk
  have hn : Bip32Path.parseUint31 (key.takeWhile isDigit) = none := by
    cases hp : Bip32Path.parseUint31 (key.takeWhile isDigit) with
    | none => rfl
    | some v => rw [hp] at hk; cases hk
  have := parseUint31_err E _ hne (takeWhile_digits key) hn
  simp only [keyErr, h, if_true]
  cases hq : (E.parseUint (bv (key.takeWhile isDigit)) 10#64 31#64).2 with
  | none => rw [hq] at this; cases this
  | some e => rfl

/-! ### `ParsePath` never panics — whatever the two library functions do -/

theorem len_guards (n : Nat) :
    ((BitVec.slt (BitVec.ofNat 64 n) 2#64) || decide (0 < n)) = true ∧
    (BitVec.slt (BitVec.ofNat 64 n) 2#64 = false → decide (1 < n) = true) ∧
    (BitVec.slt 2#64 (BitVec.ofNat 64 n) = true → decide (2 < n) = true) := by
  match n with
  | 0 => decide
  | 1 => decide
  | 2 => decide
  | n + 3 => exact ⟨by simp, fun _ => by simp, fun _ => by simp⟩

/-- the three index expressions `matches[0]`, `matches[1]`, `matches[2]` are guarded by the tests of `len(matches)` that
precede them (short-circuit `||` / `&&`): no list `matches`, of whatever length, makes the body panic -/
theorem body_ne_panic (find : List (BitVec 8) → List (List (BitVec 8)))
    (pu : List (BitVec 8) → BitVec 64 → BitVec 64 → (BitVec 64 × Option String))
    (path : List (BitVec 32)) (rk : BitVec 64 × List (BitVec 8)) : body find pu path rk ≠ .panic := by
  unfold body
  simp only []
  generalize find rk.2 = ms
  obtain ⟨g1, g2, g3⟩ := len_guards ms.length
  rw [g1]
  simp only [Bool.not_true, Bool.false_eq_true, if_false]
  split
  · intro h; cases h
  · rename_i hc
    have h2 : BitVec.slt (BitVec.ofNat 64 ms.length) 2#64 = false := by
      cases hb : BitVec.slt (BitVec.ofNat 64 ms.length) 2#64 with
      | false => rfl
      | true => rw [hb] at hc; simp at hc
    rw [g2 h2]
    simp only [Bool.not_true, Bool.false_eq_true, if_false]
    split
    · intro h; cases h
    · cases h3 : BitVec.slt 2#64 (BitVec.ofNat 64 ms.length) with
      | false => simp
      | true => rw [g3 h3]; simp

theorem forIn_ne_panic {α ρ σ : Type} (l : List α) (s : σ) (f : σ → α → Flow ρ σ) (h : ∀ s a, f s a ≠ .panic) :
    Go.forIn l s f ≠ .panic := by
  induction l generalizing s with
  | nil => intro h'; cases h'
  | cons a l ih =>
    rw [forIn_cons]
    cases hf : f s a with
    | run s' => exact ih s'
    | done r => intro h'; cases h'
    | panic => exact absurd hf (h s a)

/-- **the generated `ParsePath` never panics, for ANY two functions in the place of `keyReg.FindStringSubmatch` and
`strconv.ParseUint` and any string** (nothing is assumed: the Go code tests `len(matches)` before every index expression). -/
theorem ParsePath_never_panics_any (find : List (BitVec 8) → List (List (BitVec 8)))
    (pu : List (BitVec 8) → BitVec 64 → BitVec 64 → (BitVec 64 × Option String)) (s : List (BitVec 8)) :
    code.ParsePath find pu s ≠ none := by
  rw [ParsePath_unfold]
  split
  · simp
  · cases hl : Go.forIn (Go.indexed (Go.splitByte (Go.trimPrefix s [109#8, 47#8]) 47#8)) [] (body find pu) with
    | run p => simp
    | done r => simp
    | panic => exact absurd hl (forIn_ne_panic _ _ _ (body_ne_panic find pu))

/-- **the generated `ParsePath` never panics** (for library functions with the assumed behaviour; an instance of
`ParsePath_never_panics_any`, and also a consequence of `ParsePath_enc`) -/
theorem ParsePath_never_panics (E : Externs) (s : List (BitVec 8)) :
    code.ParsePath E.findStringSubmatch E.parseUint s ≠ none :=
  ParsePath_never_panics_any _ _ s

/-! ### the statements are not vacuous: the generated functions evaluated with `Externs.model` -/

-- "m/44'/0H/010" ↦ [44 + 2^31, 2^31, 10]
example : code.ParsePath Externs.model.findStringSubmatch Externs.model.parseUint
    (bv [109,47,52,52,39,47,48,72,47,48,49,48]) = some ([2147483692#32, 2147483648#32, 10#32], none) := by decide +kernel
-- "m/2147483648" (2^31): the range error of ParseUint; "2147483647" is accepted without the prefix
example : code.ParsePath Externs.model.findStringSubmatch Externs.model.parseUint
    (bv [109,47,50,49,52,55,52,56,51,54,52,56]) = some ([], some "ErrRange") := by decide +kernel
example : code.ParsePath Externs.model.findStringSubmatch Externs.model.parseUint
    (bv [50,49,52,55,52,56,51,54,52,55]) = some ([2147483647#32], none) := by decide +kernel
-- "m/", "m//0", "m/0x1", "m/1HH", "m/a1": ErrInvalidPathFormat
example : code.ParsePath Externs.model.findStringSubmatch Externs.model.parseUint (bv [109,47]) =
    some ([], some "ErrInvalidPathFormat") := by decide +kernel
example : code.ParsePath Externs.model.findStringSubmatch Externs.model.parseUint (bv [109,47,47,48]) =
    some ([], some "ErrInvalidPathFormat") := by decide +kernel
example : code.ParsePath Externs.model.findStringSubmatch Externs.model.parseUint (bv [109,47,48,120,49]) =
    some ([], some "ErrInvalidPathFormat") := by decide +kernel
example : code.ParsePath Externs.model.findStringSubmatch Externs.model.parseUint (bv [109,47,49,72,72]) =
    some ([], some "ErrInvalidPathFormat") := by decide +kernel
example : code.ParsePath Externs.model.findStringSubmatch Externs.model.parseUint (bv [109,47,97,49]) =
    some ([], some "ErrInvalidPathFormat") := by decide +kernel
-- "" and "m": the empty path
example : code.ParsePath Externs.model.findStringSubmatch Externs.model.parseUint (bv []) = some ([], none) := by
  decide +kernel
example : code.ParsePath Externs.model.findStringSubmatch Externs.model.parseUint (bv [109]) = some ([], none) := by
  decide +kernel
-- the submatches of "a12H'" are ["12H", "12", "H"]
example : Externs.model.findStringSubmatch (bv [97,49,50,72,39]) = [bv [49,50,72], bv [49,50], bv [72]] := by
  decide +kernel
-- printing [44 + 2^31, 0, 2^32 - 1] gives "m/44'/0/2147483647'"
example : code.Path_String [2147483692#32, 0#32, 4294967295#32] =
    bv [109,47,52,52,39,47,48,47,50,49,52,55,52,56,51,54,52,55,39] := by decide +kernel

/-! With functions that do NOT behave like the library the generated `ParsePath` still does not panic
(`ParsePath_never_panics_any`), it just returns something else: `find_spec` is needed for the result, not for safety.
"m/7" with a `FindStringSubmatch` that returns one string, two strings, four strings: -/
example : code.ParsePath (fun _ => [[]]) (fun _ _ _ => (7#64, none)) (bv [109,47,55]) =
    some ([], some "ErrInvalidPathFormat") := by decide +kernel
example : code.ParsePath (fun k => [k, k]) (fun _ _ _ => (7#64, none)) (bv [109,47,55]) = some ([7#32], none) := by
  decide +kernel
example : code.ParsePath (fun k => [k, k, k, k]) (fun _ _ _ => (7#64, none)) (bv [109,47,55]) =
    some ([2147483655#32], none) := by decide +kernel
/-- a `ParseUint` that returns a nil error for everything: "m/99999999999" is then accepted, truncated to 32 bits — the
second assumption is needed as well -/
example : code.ParsePath Externs.model.findStringSubmatch (fun _ _ _ => (99999999999#64, none))
    (bv [109,47,57,57,57,57,57,57,57,57,57,57,57]) = some ([1215752191#32], none) := by decide +kernel

end Iota.Tie.Bip32PathCode
