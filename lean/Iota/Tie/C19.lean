/-
Tie for C19: facts regenerated from pkg/bech32/address/address.go, pkg/migration/migration.go,
iota.go consts and guards.  (The Bech32 and b1t6 layers underneath are tied by Tie/Bech32, Tie/C14.)
-/
import Iota.Gen.Address
import Iota.Tie.Expect
import Iota.Tie.Bech32
import Iota.Tie.C14
import Iota.Model.Address
import Iota.Proofs.Vectors.Hash
import Iota.Tie.MigrationCode
import Iota.Tie.AddressCode

namespace Iota.Tie.C19
open Iota

theorem prefixes : Gen.Address.hrpStrings = Address.hrpStrings.map (·.map UInt8.toNat) ∧
    Gen.Address.prefixConsts = [0, 1, 2, 3] := by decide

theorem versions :
    Gen.Address.versionEd25519 = (Address.Kind.ed25519.version.toNat : Int) ∧
    Gen.Address.versionAlias = (Address.Kind.alias.version.toNat : Int) ∧
    Gen.Address.versionNFT = (Address.Kind.nft.version.toNat : Int) ∧
    Gen.Address.blake2b160Length = (Address.Kind.alias.hashLen : Int) ∧
    Gen.Address.blake2b160Length = (Address.Kind.nft.hashLen : Int) ∧
    Address.Kind.ed25519.hashLen = 32 := by decide

theorem migration_constants :
    Gen.Address.migPrefix = Migration.pfx.map UInt8.toNat ∧
    Gen.Address.migSuffix = Migration.sfx.map UInt8.toNat ∧
    Gen.Address.migChecksumSize = (Migration.checksumSize : Int) ∧
    Gen.Address.migAddressSize = (Migration.addressSize : Int) ∧
    Gen.Address.hashTrytesSize = (Migration.hashTrytesSize : Int) ∧
    Gen.Address.tritsPerTryte = 3 := by decide

/-- everything else the package declares (imports, constants, types, variables, build constraints and the functions not
pinned one by one) is unchanged too: no declaration of the modelled packages can change without a tie theorem failing. -/
theorem rest :
    Gen.Address.rest_address = Expect.Address_rest_address ∧
    Gen.Address.rest_migration = Expect.Address_rest_migration :=
  ⟨rfl, rfl⟩

/-! ### migration.go — and the functions of iota.go it calls: `guards.IsTrytesOfExactLength` and iota.go's copy of
`encoding/b1t6` — translated AS CODE = the model (`Gen.Migration.*` in `Iota/Gen/Migration.lean`; `none` = Go run-time
panic, `error` = `Option String`).  `blake2b.Sum256` is a PARAMETER `sum` of the generated `Encode` / `Decode`; the model has
the hash `H` as a parameter too, and `hH` says that `H` is `sum` on model bytes (`bv` converts `UInt8` to `BitVec 8`).
Proofs: `Iota/Tie/MigrationCode.lean`; end-to-end corollaries on the generated functions alone: `Iota/Tie/E2E/Migration.lean`. -/

open Iota.Tie.Bech32Code (bv) in
/-- **the guard `IsTrytesOfExactLength(trytes, n)`, which loops over the RUNES of the string, never panics and is true exactly
when the string has `n` bytes, is not empty and every BYTE is one of `A`…`Z`, `9`** — for every byte string (non-ASCII bytes
included: they start a rune ≥ 128 or yield U+FFFD) of a length a Go string can have -/
theorem code_guard (t : List UInt8) (n : Nat) (ht : t.length < 2 ^ 63) (hn : n < 2 ^ 63) :
    Gen.Migration.guards.IsTrytesOfExactLength (bv t) (BitVec.ofNat 64 n) = some (Migration.isTrytesOfExactLength t n) :=
  MigrationCode.IsTrytesOfExactLength_eq t n ht hn

open Iota.Tie.Bech32Code (bv) in
/-- **`migration.Decode`, for EVERY byte string and whatever function is passed for `blake2b.Sum256`, returns what the model's
`decode` returns: the address and a nil error, or the zero address and the error** (`MigrationCode.errName`: the name of the
error variable it is or wraps; the two `fmt.Errorf("…%w", err)` errors both wrap `b1t6.ErrInvalidTrits` and are not told
apart, message texts are not modelled).  No hypothesis on the length of `sum`'s results is needed: the bounds of
`hash[:len(checksumBytes)]` are checked against the length 32 of the array type. -/
theorem code_migration_decode (sum : List (BitVec 8) → List (BitVec 8)) (H : Migration.Bytes → Migration.Bytes)
    (hH : ∀ x, sum (bv x) = bv (H x)) (t : List UInt8) (ht : t.length < 2 ^ 63) :
    Gen.Migration.migration.Decode sum (bv t) = some (match Migration.decode H t with
      | .ok a => (bv a, none)
      | .error e => (List.replicate 32 0#8, some (MigrationCode.errName e))) :=
  MigrationCode.Decode_eq sum H hH t ht

/-- **`migration.Decode` never panics: not on lower-case or non-ASCII input, not for any length, not for any `sum`** (the
guard admits only 81 characters `A`…`Z`, `9`, so the table lookups of `b1t6.DecodeTrytes` — which alone panics on `"aa"`,
`C14.code_b1t6_decodeTrytes` — are in range and every slice bound is valid) -/
theorem code_migration_decode_never_panics (sum : List (BitVec 8) → List (BitVec 8)) (s : List (BitVec 8))
    (hs : s.length < 2 ^ 63) : Gen.Migration.migration.Decode sum s ≠ none :=
  MigrationCode.Decode_never_panics_any sum s hs

open Iota.Tie.Bech32Code (bv) in
/-- **`migration.Encode` of a 32-byte address never panics and is the model's `encode`**: `TRANSFER`, the b1t6 trytes of the
address followed by the first four bytes of its hash, `9` -/
theorem code_migration_encode (sum : List (BitVec 8) → List (BitVec 8)) (H : Migration.Bytes → Migration.Bytes)
    (hH : ∀ x, sum (bv x) = bv (H x)) (a : List UInt8) (ha : a.length = 32) :
    Gen.Migration.migration.Encode sum (bv a) = some (bv (Migration.encode H a)) :=
  MigrationCode.Encode_eq sum H hH a ha

/-! ### address.go — `ParsePrefix`, `Prefix.String`, `ParseBech32`, `Bech32`, the `Bytes` / `Version` methods of the three
address types — translated AS CODE = the model (`Gen.AddressCode.address.*` in `Iota/Gen/AddressCode.lean`, stage 11 of the
translator: named integer types, the read-only table `hrpStrings`, struct values with one array field, and the interface
`Address` as a CLOSED sum `Go.Iface = Option (Nat × bytes)` over the package's own three implementations; `none` as a
result = Go run-time panic).  `ParseBech32` and `Bech32` call the generated `bech32.Decode` / `Encode` of stage 6, so the
only assumptions are that stage's `Externs` (strings.ToLower / ToUpper on ASCII strings, strings.LastIndex).
Proofs: `Iota/Tie/AddressCode.lean`; end-to-end corollaries on the generated functions alone: `Iota/Tie/E2E/Address.lean`.
These functions are no longer pinned by source text. -/

open Iota.Tie.Bech32Code (bv)
open Iota.Tie.Bech32CharsCode (encTable decTable)
open Iota.Tie.AddressCode (encParse encAddr encEnc)

theorem code_parsePrefix (s : List UInt8) :
    Gen.AddressCode.address.ParsePrefix (bv s) = some (match Address.parsePrefix s with
        | some p => (BitVec.ofNat 64 p, none) | none => (0#64, some "ErrInvalidPrefix")) :=
  AddressCode.code_parsePrefix s

/-- **The Go function `ParseBech32`, translated statement by statement together with the `bech32.Decode` it calls, returns
for EVERY byte string exactly what the model returns: the prefix index and the address (kind and hash bytes), or the error
kind — the wrapped Bech32 error with its offset, `ErrInvalidPrefix`, `ErrInvalidVersion`, `ErrInvalidLength`.** -/
theorem code_parseBech32 (E : Bech32ApiCode.Externs) (s : List UInt8) (hlen : s.length < 2 ^ 63) :
    Gen.AddressCode.address.ParseBech32 decTable E.lastIndex E.toLower E.toUpper (bv s) = some (encParse (Address.parseBech32 s)) :=
  AddressCode.code_parseBech32 E s hlen

/-- **`ParseBech32` never panics, whatever the input** (the property's words; until stage 11 this was an observation of the
correspondence run): every byte list shorter than 2^63. -/
theorem code_parseBech32_never_panics (E : Bech32ApiCode.Externs) (l : List (BitVec 8)) (hlen : l.length < 2 ^ 63) :
    Gen.AddressCode.address.ParseBech32 decTable E.lastIndex E.toLower E.toUpper l ≠ none :=
  AddressCode.code_parseBech32_never_panics_bits E l hlen

/-- the three `Bytes()` methods behind the interface: version byte, then the hash -/
theorem code_bytes (a : Address.Addr) : Gen.AddressCode.address.Address_Bytes (encAddr a) = some (bv a.bytes) :=
  AddressCode.code_bytes a

theorem code_version (a : Address.Addr) :
    Gen.AddressCode.address.Address_Version (encAddr a) = some a.kind.version.toBitVec := AddressCode.code_version a

/-- **`Bech32(hrp, addr)` as code = the model, for the four `Prefix` constants and every address of the three kinds** (any
hash length the encoder admits); it panics for a `Prefix` value outside 0…3 (`hrpStrings[p]`) and for a nil `Address`. -/
theorem code_bech32 (E : Bech32ApiCode.Externs) (p : Nat) (hp : p < 4) (a : Address.Addr) (hl : a.hash.length + 1 < 2 ^ 60) :
    Gen.AddressCode.address.Bech32 encTable E.toLower E.toUpper (BitVec.ofNat 64 p) (encAddr a) =
      some (encEnc (Address.bech32 p a)) :=
  AddressCode.code_bech32_gen E p hp a hl

theorem code_bech32_panics (ce : List (BitVec 8)) (tl tu : List (BitVec 8) → List (BitVec 8)) (hrp : BitVec 64)
    (h : hrp.toInt < 0 ∨ 4 ≤ hrp.toInt) (addr : Go.Iface) :
    Gen.AddressCode.address.Bech32 ce tl tu hrp addr = none := AddressCode.code_bech32_panics ce tl tu hrp h addr

end Iota.Tie.C19
