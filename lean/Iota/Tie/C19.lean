/-
Tie for C19: facts regenerated from pkg/bech32/address/address.go, pkg/migration/migration.go,
iota.go consts and guards.  (The Bech32 and b1t6 layers underneath are tied by Tie/Bech32, Tie/C14.)
-/
import Iota.Gen.Address
import Iota.Tie.Expect
import Iota.Tie.Bech32
import Iota.Tie.C14
import Iota.Model.Address
import Iota.Proofs.Vectors.Hash

namespace Iota.Tie.C19
open Iota

theorem prefixes : Gen.Address.hrpStrings = Address.hrpStrings.map (·.map UInt8.toNat) ∧
    Gen.Address.prefixConsts = [0, 1, 2, 3] := by decide

theorem versions :
    Gen.Address.versionEd25519 = (Address.Kind.ed25519.version.toNat : Int) ∧
    Gen.Address.versionAlias = (Address.Kind.alias.version.toNat : Int) ∧
    Gen.Address.versionNFT = (Address.Kind.nft.version.toNat : Int) ∧
    Gen.Address.blake2b160Length = (Address.Kind.alias.hashLen : Int) ∧
    Gen.Address.blake2b160Length = (Address.Kind.nft.hashLen : Int) ∧
    Address.Kind.ed25519.hashLen = 32 := by decide

theorem migration_constants :
    Gen.Address.migPrefix = Migration.pfx.map UInt8.toNat ∧
    Gen.Address.migSuffix = Migration.sfx.map UInt8.toNat ∧
    Gen.Address.migChecksumSize = (Migration.checksumSize : Int) ∧
    Gen.Address.migAddressSize = (Migration.addressSize : Int) ∧
    Gen.Address.hashTrytesSize = (Migration.hashTrytesSize : Int) ∧
    Gen.Address.tritsPerTryte = 3 := by decide

theorem src :
    Gen.Address.src_address_Bech32 = Expect.Address_src_address_Bech32 ∧
    Gen.Address.src_address_ParseBech32 = Expect.Address_src_address_ParseBech32 ∧
    Gen.Address.src_address_ParsePrefix = Expect.Address_src_address_ParsePrefix ∧
    Gen.Address.src_address_Prefix_String = Expect.Address_src_address_Prefix_String ∧
    Gen.Address.src_address_Ed25519Address_Bytes = Expect.Address_src_address_Ed25519Address_Bytes ∧
    Gen.Address.src_address_AliasAddress_Bytes = Expect.Address_src_address_AliasAddress_Bytes ∧
    Gen.Address.src_address_NFTAddress_Bytes = Expect.Address_src_address_NFTAddress_Bytes ∧
    Gen.Address.src_address_Ed25519Address_Version = Expect.Address_src_address_Ed25519Address_Version ∧
    Gen.Address.src_address_AliasAddress_Version = Expect.Address_src_address_AliasAddress_Version ∧
    Gen.Address.src_address_NFTAddress_Version = Expect.Address_src_address_NFTAddress_Version :=
  ⟨rfl, rfl, rfl, rfl, rfl, rfl, rfl, rfl, rfl, rfl⟩

/-- everything else the package declares (imports, constants, types, variables, build constraints and the functions not
pinned one by one) is unchanged too: no declaration of the modelled packages can change without a tie theorem failing. -/
theorem rest :
    Gen.Address.rest_address = Expect.Address_rest_address ∧
    Gen.Address.rest_migration = Expect.Address_rest_migration :=
  ⟨rfl, rfl⟩

end Iota.Tie.C19
