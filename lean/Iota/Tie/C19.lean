/-
Tie for C19: facts regenerated from pkg/bech32/address/address.go, pkg/migration/migration.go,
iota.go consts and guards.  (The Bech32 and b1t6 layers underneath are tied by Tie/Bech32, Tie/C14.)
-/
import Iota.Gen.Address
import Iota.Tie.Expect
import Iota.Tie.Bech32
import Iota.Tie.C14
import Iota.Model.Address
import Iota.Proofs.Vectors.Hash
import Iota.Tie.MigrationCode

namespace Iota.Tie.C19
open Iota

theorem prefixes : Gen.Address.hrpStrings = Address.hrpStrings.map (·.map UInt8.toNat) ∧
    Gen.Address.prefixConsts = [0, 1, 2, 3] := by decide

theorem versions :
    Gen.Address.versionEd25519 = (Address.Kind.ed25519.version.toNat : Int) ∧
    Gen.Address.versionAlias = (Address.Kind.alias.version.toNat : Int) ∧
    Gen.Address.versionNFT = (Address.Kind.nft.version.toNat : Int) ∧
    Gen.Address.blake2b160Length = (Address.Kind.alias.hashLen : Int) ∧
    Gen.Address.blake2b160Length = (Address.Kind.nft.hashLen : Int) ∧
    Address.Kind.ed25519.hashLen = 32 := by decide

theorem migration_constants :
    Gen.Address.migPrefix = Migration.pfx.map UInt8.toNat ∧
    Gen.Address.migSuffix = Migration.sfx.map UInt8.toNat ∧
    Gen.Address.migChecksumSize = (Migration.checksumSize : Int) ∧
    Gen.Address.migAddressSize = (Migration.addressSize : Int) ∧
    Gen.Address.hashTrytesSize = (Migration.hashTrytesSize : Int) ∧
    Gen.Address.tritsPerTryte = 3 := by decide

theorem src :
    Gen.Address.src_address_Bech32 = Expect.Address_src_address_Bech32 ∧
    Gen.Address.src_address_ParseBech32 = Expect.Address_src_address_ParseBech32 ∧
    Gen.Address.src_address_ParsePrefix = Expect.Address_src_address_ParsePrefix ∧
    Gen.Address.src_address_Prefix_String = Expect.Address_src_address_Prefix_String ∧
    Gen.Address.src_address_Ed25519Address_Bytes = Expect.Address_src_address_Ed25519Address_Bytes ∧
    Gen.Address.src_address_AliasAddress_Bytes = Expect.Address_src_address_AliasAddress_Bytes ∧
    Gen.Address.src_address_NFTAddress_Bytes = Expect.Address_src_address_NFTAddress_Bytes ∧
    Gen.Address.src_address_Ed25519Address_Version = Expect.Address_src_address_Ed25519Address_Version ∧
    Gen.Address.src_address_AliasAddress_Version = Expect.Address_src_address_AliasAddress_Version ∧
    Gen.Address.src_address_NFTAddress_Version = Expect.Address_src_address_NFTAddress_Version :=
  ⟨rfl, rfl, rfl, rfl, rfl, rfl, rfl, rfl, rfl, rfl⟩

/-- everything else the package declares (imports, constants, types, variables, build constraints and the functions not
pinned one by one) is unchanged too: no declaration of the modelled packages can change without a tie theorem failing. -/
theorem rest :
    Gen.Address.rest_address = Expect.Address_rest_address ∧
    Gen.Address.rest_migration = Expect.Address_rest_migration :=
  ⟨rfl, rfl⟩

/-! ### migration.go — and the functions of iota.go it calls: `guards.IsTrytesOfExactLength` and iota.go's copy of
`encoding/b1t6` — translated AS CODE = the model (`Gen.Migration.*` in `Iota/Gen/Migration.lean`; `none` = Go run-time
panic, `error` = `Option String`).  `blake2b.Sum256` is a PARAMETER `sum` of the generated `Encode` / `Decode`; the model has
the hash `H` as a parameter too, and `hH` says that `H` is `sum` on model bytes (`bv` converts `UInt8` to `BitVec 8`).
Proofs: `Iota/Tie/MigrationCode.lean`; end-to-end corollaries on the generated functions alone: `Iota/Tie/E2E/Migration.lean`. -/

open Iota.Tie.Bech32Code (bv) in
/-- **the guard `IsTrytesOfExactLength(trytes, n)`, which loops over the RUNES of the string, never panics and is true exactly
when the string has `n` bytes, is not empty and every BYTE is one of `A`…`Z`, `9`** — for every byte string (non-ASCII bytes
included: they start a rune ≥ 128 or yield U+FFFD) of a length a Go string can have -/
theorem code_guard (t : List UInt8) (n : Nat) (ht : t.length < 2 ^ 63) (hn : n < 2 ^ 63) :
    Gen.Migration.guards.IsTrytesOfExactLength (bv t) (BitVec.ofNat 64 n) = some (Migration.isTrytesOfExactLength t n) :=
  MigrationCode.IsTrytesOfExactLength_eq t n ht hn

open Iota.Tie.Bech32Code (bv) in
/-- **`migration.Decode`, for EVERY byte string and whatever function is passed for `blake2b.Sum256`, returns what the model's
`decode` returns: the address and a nil error, or the zero address and the error** (`MigrationCode.errName`: the name of the
error variable it is or wraps; the two `fmt.Errorf("…%w", err)` errors both wrap `b1t6.ErrInvalidTrits` and are not told
apart, message texts are not modelled).  No hypothesis on the length of `sum`'s results is needed: the bounds of
`hash[:len(checksumBytes)]` are checked against the length 32 of the array type. -/
theorem code_migration_decode (sum : List (BitVec 8) → List (BitVec 8)) (H : Migration.Bytes → Migration.Bytes)
    (hH : ∀ x, sum (bv x) = bv (H x)) (t : List UInt8) (ht : t.length < 2 ^ 63) :
    Gen.Migration.migration.Decode sum (bv t) = some (match Migration.decode H t with
      | .ok a => (bv a, none)
      | .error e => (List.replicate 32 0#8, some (MigrationCode.errName e))) :=
  MigrationCode.Decode_eq sum H hH t ht

/-- **`migration.Decode` never panics: not on lower-case or non-ASCII input, not for any length, not for any `sum`** (the
guard admits only 81 characters `A`…`Z`, `9`, so the table lookups of `b1t6.DecodeTrytes` — which alone panics on `"aa"`,
`C14.code_b1t6_decodeTrytes` — are in range and every slice bound is valid) -/
theorem code_migration_decode_never_panics (sum : List (BitVec 8) → List (BitVec 8)) (s : List (BitVec 8))
    (hs : s.length < 2 ^ 63) : Gen.Migration.migration.Decode sum s ≠ none :=
  MigrationCode.Decode_never_panics_any sum s hs

open Iota.Tie.Bech32Code (bv) in
/-- **`migration.Encode` of a 32-byte address never panics and is the model's `encode`**: `TRANSFER`, the b1t6 trytes of the
address followed by the first four bytes of its hash, `9` -/
theorem code_migration_encode (sum : List (BitVec 8) → List (BitVec 8)) (H : Migration.Bytes → Migration.Bytes)
    (hH : ∀ x, sum (bv x) = bv (H x)) (a : List UInt8) (ha : a.length = 32) :
    Gen.Migration.migration.Encode sum (bv a) = some (bv (Migration.encode H a)) :=
  MigrationCode.Encode_eq sum H hH a ha

end Iota.Tie.C19
