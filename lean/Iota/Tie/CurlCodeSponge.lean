/-
Code tie for the sponge methods of pkg/curl (curl.go): `Curl.Absorb` and `Curl.Squeeze`, translated AS CODE by
cmd/extract into `Iota/Gen/Curl.lean` (`Gen.Curl.code.Curl_Absorb`, `Gen.Curl.code.Curl_Squeeze`; the receiver = its
fields `c_l`, `c_h`, `c_direction`; `none` = run-time panic; `c.transform()` = the PARAMETER `Curl_transform`), against
the model `Curl.absorb` / `Curl.squeeze` of `Iota/Model/Curl.lean`.  Core Lean only.

Instantiation and encodings.
* `trM l h`: the parameter `Curl_transform`, instantiated by the model's `Curl.transform` on the planes `l`, `h` (two
  lists of length 729; the direction is irrelevant: `transform_dir`).  On lists of another length it is `none`; it is
  only ever applied to lists of length 729 (`trM_eq` is all that is used of it).
* `dirBV`: `absorbing ↦ 0`, `squeezing ↦ 1` (the Go constants `SpongeAbsorbing`, `SpongeSqueezing`);
  `tritsI = List.map (·.toInt)`: a Go `trinary.Trits` (`[]int8`) as the model's `List Int`.
* `encA c` / `encS c dst`: the image of a model outcome on state `c`: `.err e ↦ some (some "consts.Err…", state
  unchanged [, dst unchanged])`, `.panic ↦ none`, `.ok c' () ↦ some (none, c'.l, c'.h)`,
  `.ok c' out ↦ some (none, c'.l, c'.h, dirBV c'.direction, out.map (·.map (BitVec.ofInt 8)))`.

Main theorems.
* `absorb_eq`: for every model state `c`, every `src` with fewer than `2^63` lanes and every `tritsCount ≥ 0`:
  `code.Curl_Absorb trM c.l c.h (dirBV c.direction) src tritsCount = encA c (Curl.absorb c (src.map tritsI) tritsCount.toNat)`.
* `squeeze_eq`: likewise `code.Curl_Squeeze trM … dst tritsCount = encS c dst (Curl.squeeze c dst.length tritsCount.toNat)`;
  `squeeze_out_toInt`: reading the returned rows as signed bytes gives back the model's output (nothing is lost in `int8`).
* `absorb_neg`, `squeeze_neg`: `tritsCount < 0` (not described by the model, whose `tritsCount` is a `Nat`).  Go's `%`
  keeps the sign of the dividend (`Int.tmod`; `x.tmod 243 = 0 ↔ 243 ∣ x` is `Int.dvd_iff_tmod_eq_zero`).  Not a multiple
  of 243: `ErrInvalidTritsLength` / `ErrInvalidSqueezeLength`, state unchanged.  A negative multiple of 243: `Absorb`
  PANICS when the sponge is squeezing (the direction check comes before the loop) and otherwise returns `nil` without
  touching the state (the loop is not entered); `Squeeze` panics in the first `make(trinary.Trits, tritsCount)`.
* `header_sound`: the ASSUMPTION under which the two block loops were translated (`i += 243` does not wrap around before
  `i < tritsCount` fails) holds for every `tritsCount ≥ 0` that is a multiple of 243 — for the others both functions
  return before the loop: the header, run step by step in 64-bit arithmetic (`Go.loopIdx`), visits exactly
  `Go.forUp true false 0 tritsCount 243`.  `Go.forUp_sound` cannot be used: its side condition
  `tritsCount + 242 ≤ 2^63 - 1` is FALSE for the multiples of 243 within 242 of `2^63`; the loop is nevertheless safe
  because the last addition yields `tritsCount` itself (`loopIdx_blocks`).

Differences from the statements one would write down first.
* `src.length < 2^63` / `dst.length < 2^63` is needed: the translation renders `len(x)` as `BitVec.ofNat 64 x.length`,
  which is exact for Go slices only.  (A list of `2^64 + 1` lanes passes the translated batch-size guard, the model
  returns `invalidBatchSize`.)
* Short lanes in `Absorb`.  The model panics up front when `tritsCount ≠ 0` and some lane has fewer than `tritsCount`
  trits.  The code panics in the block at offset `i` exactly when some lane has fewer than `i + 243` trits
  (`src[j][i:]` panics for `len < i`, `c.in` for `i ≤ len < i + 243`: `laneStepA_eq`, `blockA_ok`, `blockA_short`) —
  unless `transform` panicked in an earlier block.  The blocks are `i = 0, 243, …, tritsCount - 243`, so "some block
  does not fit" is "some lane is shorter than `tritsCount`": the two conditions describe the same calls, and as both
  outcomes are `none` the order of a lane panic and a `transform` panic cannot be observed (`blocks_ok`,
  `blocks_short`).  The model needs NO change; what it does not say is at which block the code stops, i.e. which
  lanes of the earlier blocks were already absorbed into the (lost) state — `none` carries no state.

Route: the generated definitions are restated once (`Curl_Absorb_unfold`, `Curl_Squeeze_unfold`, by `rfl`) in terms of
the named loop bodies `rateStep`, `laneStepA`, `blockA`, `makeStep`, `laneStepS`, `blockS`; the inner reset loop is the
model's `resetRate` (`rate_loop`), the lane loops go through `CurlCodeLanes.in_eq` / `out_eq`, the block loops are
inductions over the number of blocks along `blockIdx` (`forUp_blocks`).  In `Squeeze` the rows of `dst` while they are
being filled are `pad tc a` = the trits produced so far followed by the zeros of `make`.

NOT covered: what `dst` and the state contain after a panic; everything the translation does not model (header of
`Iota/Gen/Curl.lean`): slice capacity, sharing between the rows of `src` / `dst` (`Squeeze` assigns every row a fresh
`make` first), the `transform` actually linked in (assembly or `transformGeneric`: `Iota/Tie/CurlCodePerm.lean`).
-/
import Iota.Gen.Curl
import Iota.Model.Curl
import Iota.Tie.GoFlow
import Iota.Tie.CurlCodeLanes

namespace Iota.Tie.CurlCodeSponge
open Iota Iota.Go
open Iota.Tie.CurlCodeLanes (P2 upd idx_list toNat_idx inRangeS_idx forIn_map forIn_range foldl_pair foldl_set_getD
  getD_toList in_eq out_eq)

abbrev W := BitVec 64
/-- the type of the parameter `Curl_transform` -/
abbrev TR := List W → List W → Option (List W × List W)

/-! ### 1. the instantiation of the parameter, the encodings -/

/-- a list of length 729 as a plane -/
def planeOf (l : List W) (hl : l.length = 729) : Curl.Plane := ⟨l.toArray, by simpa using hl⟩

theorem planeOf_toList (p : Curl.Plane) (hp : p.toList.length = 729) : planeOf p.toList hp = p := by
  cases p; rfl

def trM : TR := fun l h =>
  if hl : l.length = 729 then
    if hh : h.length = 729 then
      (Curl.Curl.transform { l := planeOf l hl, h := planeOf h hh, direction := .absorbing }).map
        (fun c' => (c'.l.toList, c'.h.toList))
    else none
  else none

def dirBV : Curl.Direction → BitVec 64
  | .absorbing => 0#64
  | .squeezing => 1#64

def tritsI (t : List (BitVec 8)) : List Int := t.map (·.toInt)

/-- `transform` does not look at the direction and keeps it -/
theorem transform_dir (c : Curl.Curl) (d : Curl.Direction) :
    Curl.Curl.transform { c with direction := d } =
      (Curl.Curl.transform c).map (fun c' => { c' with direction := d }) := by
  simp only [Curl.Curl.transform]
  cases Curl.transformGeneric _ <;> rfl

theorem transform_keeps_dir (c c' : Curl.Curl) (h : Curl.Curl.transform c = some c') : c'.direction = c.direction := by
  simp only [Curl.Curl.transform] at h
  cases hg : Curl.transformGeneric _ with
  | none => rw [hg] at h; cases h
  | some b => rw [hg] at h; cases h; rfl

theorem trM_eq (c : Curl.Curl) :
    trM c.l.toList c.h.toList = (Curl.Curl.transform c).map (fun c' => (c'.l.toList, c'.h.toList)) := by
  have hl : c.l.toList.length = 729 := by simp
  have hh : c.h.toList.length = 729 := by simp
  rw [trM, dif_pos hl, dif_pos hh, planeOf_toList, planeOf_toList]
  have := transform_dir c .absorbing
  rw [show ({ c with direction := Curl.Direction.absorbing } : Curl.Curl) =
    { l := c.l, h := c.h, direction := .absorbing } from rfl] at this
  rw [this]
  cases Curl.Curl.transform c <;> rfl

/-! ### the guards, the index list of the block loops -/

/-- the batch-size guard `len(src) < 1 || len(src) > MaxBatchSize`, for the length of a Go slice -/
theorem batch_guard (n : Nat) (hn : n < 2 ^ 63) :
    (BitVec.slt (BitVec.ofNat 64 n) 1#64 || BitVec.slt 64#64 (BitVec.ofNat 64 n)) = decide (n < 1 ∨ n > 64) := by
  have h1 : (1#64).toInt = 1 := by decide
  have h2 : (64#64).toInt = 64 := by decide
  rw [BitVec.slt, BitVec.slt, toInt_ofNat_small n hn, h1, h2, ← Bool.decide_or]
  exact decide_eq_decide.mpr (by omega)

theorem bne_zero (x : BitVec 64) : (x != 0#64) = decide (x.toInt ≠ 0) := by
  by_cases hz : x = 0#64
  · rw [hz]; rfl
  · have : x.toInt ≠ 0 := fun e => hz (BitVec.toInt_inj.mp (by rw [e]; rfl))
    simp [hz, this]

theorem srem_guard (tc : BitVec 64) :
    (BitVec.srem tc 243#64 != 0#64) = decide (tc.toInt.tmod 243 ≠ 0) := by
  have h : (tc.srem 243#64).toInt = tc.toInt.tmod 243 := by rw [BitVec.toInt_srem]; rfl
  rw [bne_zero, h]

theorem toInt_nonneg (tc : BitVec 64) (h0 : 0 ≤ tc.toInt) : tc.toInt = tc.toNat ∧ tc.toNat < 2 ^ 63 := by
  have := tc.isLt
  rw [BitVec.toInt_eq_toNat_cond] at h0 ⊢
  constructor <;> split at h0 <;> omega

theorem tmod_nonneg (tc : BitVec 64) (h0 : 0 ≤ tc.toInt) : tc.toInt.tmod 243 = ((tc.toNat % 243 : Nat) : Int) := by
  rw [(toInt_nonneg tc h0).1]
  exact (Int.ofNat_tmod _ _).symm

theorem srem_guard_nonneg (tc : BitVec 64) (h0 : 0 ≤ tc.toInt) :
    (BitVec.srem tc 243#64 != 0#64) = decide (tc.toNat % 243 ≠ 0) := by
  rw [srem_guard, tmod_nonneg tc h0]
  exact decide_eq_decide.mpr (by omega)

/-- the block offsets `off, off + 243, …` (`n` of them) -/
def blockIdx (n off : Nat) : List W := (List.range n).map (fun m => BitVec.ofNat 64 (off + m * 243))

theorem blockIdx_succ (n off : Nat) : blockIdx (n + 1) off = BitVec.ofNat 64 off :: blockIdx n (off + 243) := by
  rw [blockIdx, List.range_succ_eq_map, List.map_cons, List.map_map, blockIdx]
  congr 1
  apply List.map_congr_left
  intro m _
  simp only [Function.comp, Nat.succ_eq_add_one]
  congr 1; omega

theorem ofNat_toNat64 (tc : BitVec 64) : BitVec.ofNat 64 tc.toNat = tc := by simp

/-- the index list of the block loops -/
theorem forUp_blocks (tc : BitVec 64) (h0 : 0 ≤ tc.toInt) (hm : tc.toNat % 243 = 0) :
    forUp true false 0#64 tc 243 = blockIdx (tc.toNat / 243) 0 := by
  obtain ⟨hi, hlt⟩ := toInt_nonneg tc h0
  by_cases hz : tc.toNat = 0
  · have : tc = 0#64 := BitVec.eq_of_toNat_eq (by simpa using hz)
    subst this
    rfl
  · have h := forUp_int false 0 tc.toNat 243 (by simpa using Nat.pos_of_ne_zero hz) hlt
    rw [ofNat_toNat64] at h
    simp only [Bool.false_eq_true, if_false, Nat.sub_zero] at h
    rw [show BitVec.ofNat 64 0 = 0#64 from rfl] at h
    rw [h, blockIdx]
    congr 2
    omega

theorem loopIdx_blocks (tc : BitVec 64) (h0 : 0 ≤ tc.toInt) :
    ∀ (k fuel off : Nat), off + 243 * k = tc.toNat → k < fuel →
      loopIdx (cmpUp true false tc) (· + 243#64) fuel (BitVec.ofNat 64 off) = blockIdx k off := by
  obtain ⟨hi, hlt⟩ := toInt_nonneg tc h0
  intro k
  induction k with
  | zero =>
    intro fuel off hoff hf
    obtain ⟨f, rfl⟩ : ∃ f, fuel = f + 1 := ⟨fuel - 1, by omega⟩
    have hc : cmpUp true false tc (BitVec.ofNat 64 off) = false := by
      rw [show off = tc.toNat by omega, ofNat_toNat64]
      simp [cmpUp, BitVec.slt]
    rw [loopIdx, hc]
    rfl
  | succ k ih =>
    intro fuel off hoff hf
    obtain ⟨f, rfl⟩ : ∃ f, fuel = f + 1 := ⟨fuel - 1, by omega⟩
    have hc : cmpUp true false tc (BitVec.ofNat 64 off) = true := by
      rw [cmpUp_iff]
      simp only [Bool.false_eq_true, if_false, ord, if_true]
      rw [toInt_ofNat_small off (by omega), hi]
      omega
    rw [loopIdx, if_pos hc, blockIdx_succ]
    congr 1
    have : BitVec.ofNat 64 off + 243#64 = BitVec.ofNat 64 (off + 243) := by
      rw [BitVec.ofNat_add]
    rw [this]
    exact ih f (off + 243) (by omega) (by omega)

/-- **the no-wrap assumption of the translation is discharged**: for a non-negative multiple of 243 the loop header
`for i := 0; i < tritsCount; i += 243`, run step by step in 64-bit arithmetic, visits exactly the indices of `Go.forUp`
and then finds the condition false: the last addition yields `tritsCount` itself, which is below `2^63`.
(`Go.forUp_sound` does not apply: its side condition `tritsCount + 242 ≤ 2^63 - 1` fails for the multiples of 243 within
242 of `2^63`; what saves the loop is that the bound is itself a multiple of the step.) -/
theorem header_sound (tc : BitVec 64) (h0 : 0 ≤ tc.toInt) (hm : tc.toNat % 243 = 0) (fuel : Nat)
    (hf : tc.toNat / 243 < fuel) :
    loopIdx (cmpUp true false tc) (· + 243#64) fuel 0#64 = forUp true false 0#64 tc 243 := by
  rw [forUp_blocks tc h0 hm]
  exact loopIdx_blocks tc h0 (tc.toNat / 243) fuel 0 (by omega) hf

/-! ### generic loop lemmas -/

/-- a loop whose body, on the states that represent a `τ`, never panics or returns and stays among these states -/
theorem forIn_emb {α ρ σ τ : Type} (emb : τ → σ) (l : List α) (f : σ → α → Flow ρ σ) (g : τ → α → τ)
    (h : ∀ t, ∀ a ∈ l, f (emb t) a = .run (emb (g t a))) (t : τ) :
    forIn l (emb t) f = .run (emb (l.foldl g t)) := by
  induction l generalizing t with
  | nil => rfl
  | cons a l ih =>
    rw [forIn_cons, h t a (List.mem_cons_self ..), Flow.bind_run, List.foldl_cons]
    exact ih (fun t b hb => h t b (List.mem_cons_of_mem _ hb)) _

/-- a loop with an invariant under which the body never panics or returns -/
theorem forIn_inv {α ρ σ : Type} (P : σ → Prop) (l : List α) (f : σ → α → Flow ρ σ) (g : σ → α → σ)
    (h : ∀ s, P s → ∀ a ∈ l, f s a = .run (g s a) ∧ P (g s a)) (s : σ) (hs : P s) :
    forIn l s f = .run (l.foldl g s) := by
  induction l generalizing s with
  | nil => rfl
  | cons a l ih =>
    obtain ⟨h1, h2⟩ := h s hs a (List.mem_cons_self ..)
    rw [forIn_cons, h1, Flow.bind_run, List.foldl_cons]
    exact ih (fun s hs b hb => h s hs b (List.mem_cons_of_mem _ hb)) _ h2

/-- a loop whose body never returns and panics on one element of the list, whatever the state, panics -/
theorem forIn_panic {α ρ σ : Type} (l : List α) (f : σ → α → Flow ρ σ) (a : α) (ha : a ∈ l)
    (hnd : ∀ s b r, f s b ≠ .done r) (hp : ∀ s, f s a = .panic) (s : σ) : forIn l s f = .panic := by
  induction l generalizing s with
  | nil => cases ha
  | cons b l ih =>
    rw [forIn_cons]
    cases hb : f s b with
    | panic => rfl
    | done r => exact absurd hb (hnd s b r)
    | run s' =>
      rw [Flow.bind_run]
      rcases List.mem_cons.mp ha with rfl | hmem
      · rw [hp s] at hb; cases hb
      · exact ih hmem s'

/-! ### 2. `Absorb`: the generated definition in terms of named block bodies -/

/-- the result type of the translated `Absorb` -/
abbrev AR := Option String × List W × List W

/-- body of `for j := 0; j < 243; j++ { c.l[j], c.h[j] = ^uint(0), ^uint(0) }`, as generated -/
def rateStep {ρ : Type} (st_2 : P2) (j : W) : Flow ρ P2 :=
          let c_l : List (BitVec 64) := st_2.1
          let c_h : List (BitVec 64) := st_2.2
          let st_3 : BitVec 64 := 18446744073709551615#64
          let st_4 : BitVec 64 := 18446744073709551615#64
          if !(Go.inRangeS j 729) then Go.Flow.panic else
          let c_l : List (BitVec 64) := (c_l.set j.toNat st_3)
          if !(Go.inRangeS j 729) then Go.Flow.panic else
          let c_h : List (BitVec 64) := (c_h.set j.toNat st_4)
          Go.Flow.run (c_l, c_h)

/-- body of `for j := range src { c.in(src[j][i:], uint(j)) }`, as generated -/
def laneStepA {ρ : Type} (src : List (List (BitVec 8))) (i : W) (st_5 : P2) (j : W) : Flow ρ P2 :=
          let c_l : List (BitVec 64) := st_5.1
          let c_h : List (BitVec 64) := st_5.2
          if !(Go.sliceFromS i (src.getD j.toNat []).length) then Go.Flow.panic else
          Go.Flow.bind (Go.call (Gen.Curl.code.Curl_in c_l c_h ((src.getD j.toNat []).drop i.toNat) j)) (fun (st_6 : List (BitVec 64) × List (BitVec 64)) =>
          let c_l : List (BitVec 64) := st_6.1
          let c_h : List (BitVec 64) := st_6.2
          Go.Flow.run (c_l, c_h))

/-- body of the block loop of `Absorb` -/
def blockA {ρ : Type} (tr : TR) (src : List (List (BitVec 8))) (st_1 : P2) (i : W) : Flow ρ P2 :=
  Flow.bind (Go.forIn (Go.forUp true false 0#64 243#64 1) (st_1.1, st_1.2) rateStep) fun st_2 =>
  Flow.bind (Go.forIn ((List.range src.length).map (BitVec.ofNat 64)) (st_2.1, st_2.2) (laneStepA src i)) fun st_5 =>
  Flow.bind (Go.call (tr st_5.1 st_5.2)) fun st_7 => Flow.run (st_7.1, st_7.2)

theorem Curl_Absorb_unfold (tr : TR) (c_l c_h : List W) (d : W) (src : List (List (BitVec 8))) (tc : W) :
    Gen.Curl.code.Curl_Absorb tr c_l c_h d src tc = Flow.result (
      if ((BitVec.slt (BitVec.ofNat 64 src.length) 1#64) || (BitVec.slt 64#64 (BitVec.ofNat 64 src.length))) then
        Flow.done ((some "consts.ErrInvalidBatchSize"), c_l, c_h)
      else if ((BitVec.srem tc 243#64) != 0#64) then
        Flow.done ((some "consts.ErrInvalidTritsLength"), c_l, c_h)
      else if (d != 0#64) then Flow.panic
      else Flow.bind (Go.forIn (Go.forUp true false 0#64 tc 243) (c_l, c_h) (blockA tr src))
        (fun st_1 => Flow.done ((none : Option String), st_1.1, st_1.2))) := rfl

/-! ### the reset of the rate -/

theorem rateStep_run {ρ : Type} (st : P2) (k : Nat) (hk : k < 243) :
    rateStep (ρ := ρ) st (BitVec.ofNat 64 k) =
      .run (upd 0#64 (fun _ _ => Curl.allOnes) st.1 k, upd 0#64 (fun _ _ => Curl.allOnes) st.2 k) := by
  have h2 : inRangeS (BitVec.ofNat 64 k) 729 = true := inRangeS_idx (by omega) (by omega)
  have h3 : (BitVec.ofNat 64 k).toNat = k := toNat_idx (by omega)
  simp only [rateStep, upd, h2, h3, Bool.not_true, Bool.false_eq_true, if_false]
  rfl

theorem rate_plane (p : Curl.Plane) :
    (List.range 243).foldl (upd 0#64 (fun _ _ => Curl.allOnes)) p.toList = (Curl.resetRate p).toList := by
  rw [foldl_set_getD 0#64 (fun _ _ => Curl.allOnes) p.toList 243 (by simp)]
  apply List.ext_getElem
  · simp
  · intro i h1 h2
    have hi : i < 729 := by simpa using h1
    simp only [List.getElem_map, List.getElem_range, Vector.getElem_toList, Curl.resetRate, Vector.getElem_ofFn,
      getD_toList p hi, Fin.getElem_fin]

/-- the inner loop `for j := 0; j < 243; j++ { c.l[j], c.h[j] = ^uint(0), ^uint(0) }` is the model's `resetRate` -/
theorem rate_loop {ρ : Type} (l h : Curl.Plane) :
    forIn (forUp true false 0#64 243#64 1) (l.toList, h.toList) (rateStep (ρ := ρ)) =
      .run ((Curl.resetRate l).toList, (Curl.resetRate h).toList) := by
  rw [idx_list 243 (by decide) (by decide),
    forIn_range 243 _ _ _ (fun st k hk => rateStep_run st k hk), foldl_pair, rate_plane, rate_plane]

/-! ### the lanes of one block -/

/-- a pair of planes as the code's pair of lists -/
def emb2 (p : Curl.Plane × Curl.Plane) : P2 := (p.1.toList, p.2.toList)

theorem getD_tritsI (src : List (List (BitVec 8))) (j off : Nat) :
    ((src.map tritsI).getD j []).drop off = tritsI ((src.getD j []).drop off) := by
  have : (src.map tritsI).getD j [] = tritsI (src.getD j []) := by
    simp only [List.getD_eq_getElem?_getD, List.getElem?_map]
    cases src[j]? <;> rfl
  rw [this, tritsI, tritsI, List.map_drop]

theorem ofNat_off {off : Nat} (hoff : off < 2 ^ 63) :
    (BitVec.ofNat 64 off).toNat = off ∧ (BitVec.ofNat 64 off).msb = false := by
  have h : (BitVec.ofNat 64 off).toNat = off := by rw [BitVec.toNat_ofNat]; omega
  refine ⟨h, ?_⟩
  rw [BitVec.msb_eq_decide, h]
  exact decide_eq_false (by omega)

/-- one lane: `src[j][i:]` panics for a lane shorter than `i`, `c.in` for one shorter than `i + 243` -/
theorem laneStepA_eq {ρ : Type} (src : List (List (BitVec 8))) (off : Nat) (hoff : off < 2 ^ 63)
    (p : Curl.Plane × Curl.Plane) (j : Nat) (hj : j < 64) :
    laneStepA (ρ := ρ) src (BitVec.ofNat 64 off) (emb2 p) (BitVec.ofNat 64 j) =
      if off + 243 ≤ (src.getD j []).length then
        .run (emb2 (Curl.inLane p.1 p.2 (((src.map tritsI).getD j []).drop off) j))
      else .panic := by
  obtain ⟨ht, hm⟩ := ofNat_off hoff
  have hjn : (BitVec.ofNat 64 j).toNat = j := toNat_idx (by omega)
  simp only [laneStepA, emb2, sliceFromS, ht, hm, hjn, in_eq, List.length_drop, getD_tritsI]
  by_cases h1 : off + 243 ≤ (src.getD j []).length
  · have h2 : off ≤ (src.getD j []).length := by omega
    have h3 : 243 ≤ (src.getD j []).length - off := by omega
    have h4 : j % 64 = j := Nat.mod_eq_of_lt hj
    simp only [h1, h2, h3, h4, if_true, decide_true, Bool.not_false, Bool.and_self, Bool.not_true,
      Bool.false_eq_true, if_false, call, Flow.bind_run]
    rfl
  · rw [if_neg h1]
    by_cases h2 : off ≤ (src.getD j []).length
    · have h3 : ¬ 243 ≤ (src.getD j []).length - off := by omega
      simp only [h2, h3, if_false, decide_true, Bool.not_false, Bool.and_self, Bool.not_true,
        Bool.false_eq_true, call, Flow.bind_panic]
    · simp only [h2, decide_false, Bool.and_false, Bool.not_false, if_true]

theorem call_run_ne_done {ρ α β : Type} (o : Option α) (k : α → β) (r : ρ) :
    Flow.bind (call (ρ := ρ) o) (fun st => Flow.run (k st)) ≠ .done r := by
  cases o <;> intro h <;> cases h

theorem laneStepA_ne_done {ρ : Type} (src : List (List (BitVec 8))) (i : W) (s : P2) (j : W) (r : ρ) :
    laneStepA (ρ := ρ) src i s j ≠ .done r := by
  unfold laneStepA
  split
  · intro h; cases h
  · exact call_run_ne_done _ _ r

/-- every lane has at least `m` trits -/
def Long (src : List (List (BitVec 8))) (m : Nat) : Prop := ∀ lane ∈ src, m ≤ lane.length

/-- the model's loop over the lanes of the block at offset `off` -/
def lanesM (src : List (List (BitVec 8))) (off : Nat) (p : Curl.Plane × Curl.Plane) : Curl.Plane × Curl.Plane :=
  (List.range src.length).foldl
    (fun acc j => Curl.inLane acc.1 acc.2 (((src.map tritsI).getD j []).drop off) j) p

theorem getD_mem {α : Type} (l : List α) (j : Nat) (hj : j < l.length) (d : α) : l.getD j d ∈ l := by
  rw [List.getD_eq_getElem?_getD, List.getElem?_eq_getElem hj]
  exact List.getElem_mem hj

theorem lanes_ok {ρ : Type} (src : List (List (BitVec 8))) (hlen : src.length ≤ 64) (off : Nat) (hoff : off < 2 ^ 63)
    (p : Curl.Plane × Curl.Plane) (hl : Long src (off + 243)) :
    forIn ((List.range src.length).map (BitVec.ofNat 64)) (emb2 p) (laneStepA (ρ := ρ) src (BitVec.ofNat 64 off)) =
      .run (emb2 (lanesM src off p)) := by
  rw [forIn_map]
  apply forIn_emb emb2
  intro t j hj
  have hj' : j < src.length := List.mem_range.mp hj
  rw [laneStepA_eq src off hoff t j (by omega), if_pos (hl _ (getD_mem src j hj' []))]

theorem Curl_in_short (c_l c_h : List W) (src : List (BitVec 8)) (idx : W) (h : src.length < 243) :
    Gen.Curl.code.Curl_in c_l c_h src idx = none := by
  rw [CurlCodeLanes.Curl_in_unfold, if_pos (by simpa using h)]
  rfl

theorem laneStepA_short {ρ : Type} (src : List (List (BitVec 8))) (off : Nat) (hoff : off < 2 ^ 63) (j : Nat)
    (hj : j < 64) (hs : (src.getD j []).length < off + 243) (s : P2) :
    laneStepA (ρ := ρ) src (BitVec.ofNat 64 off) s (BitVec.ofNat 64 j) = .panic := by
  obtain ⟨ht, hm⟩ := ofNat_off hoff
  have hjn : (BitVec.ofNat 64 j).toNat = j := toNat_idx (by omega)
  unfold laneStepA
  simp only [hjn, ht]
  split
  · rfl
  · rw [Curl_in_short _ _ _ _ (by rw [List.length_drop]; omega)]
    rfl

theorem lanes_short {ρ : Type} (src : List (List (BitVec 8))) (hlen : src.length ≤ 64) (off : Nat) (hoff : off < 2 ^ 63)
    (hs : ¬ Long src (off + 243)) (s : P2) :
    forIn ((List.range src.length).map (BitVec.ofNat 64)) s (laneStepA (ρ := ρ) src (BitVec.ofNat 64 off)) =
      .panic := by
  have : ∃ j, j < src.length ∧ (src.getD j []).length < off + 243 := by
    apply Classical.byContradiction
    intro hn
    apply hs
    intro lane hmem
    obtain ⟨j, hj, rfl⟩ := List.getElem_of_mem hmem
    apply Classical.byContradiction
    intro hlt
    exact hn ⟨j, hj, by rw [List.getD_eq_getElem?_getD, List.getElem?_eq_getElem hj]; simpa using hlt⟩
  obtain ⟨j, hj, hsj⟩ := this
  exact forIn_panic _ _ (BitVec.ofNat 64 j) (List.mem_map.mpr ⟨j, List.mem_range.mpr hj, rfl⟩)
    (fun s b r => laneStepA_ne_done src _ s b r)
    (fun s => laneStepA_short src off hoff j (by omega) hsj s) s

/-! ### one block of `Absorb`, the block loop -/

/-- the outcome of a step of the model as the outcome of a block of the code -/
def runM {ρ : Type} : Option Curl.Curl → Flow ρ P2
  | some c' => .run (c'.l.toList, c'.h.toList)
  | none => .panic

/-- the state the model passes to `transform` in the block at offset `off` -/
def preM (src : List (List (BitVec 8))) (off : Nat) (c : Curl.Curl) : Curl.Curl :=
  { c with l := (lanesM src off (Curl.resetRate c.l, Curl.resetRate c.h)).1,
           h := (lanesM src off (Curl.resetRate c.l, Curl.resetRate c.h)).2 }

theorem absorbBlocks_succ (src : List (List (BitVec 8))) (n off : Nat) (c : Curl.Curl) :
    Curl.absorbBlocks (src.map tritsI) (n + 1) off c =
      (Curl.Curl.transform (preM src off c)).bind (Curl.absorbBlocks (src.map tritsI) n (off + 243)) := by
  rw [Curl.absorbBlocks]
  simp only [List.length_map]
  rfl

theorem blockA_ok {ρ : Type} (src : List (List (BitVec 8))) (hlen : src.length ≤ 64) (off : Nat) (hoff : off < 2 ^ 63)
    (c : Curl.Curl) (hl : Long src (off + 243)) :
    blockA (ρ := ρ) trM src (c.l.toList, c.h.toList) (BitVec.ofNat 64 off) =
      runM (Curl.Curl.transform (preM src off c)) := by
  unfold blockA
  rw [rate_loop, Flow.bind_run]
  have h := lanes_ok (ρ := ρ) src hlen off hoff (Curl.resetRate c.l, Curl.resetRate c.h) hl
  simp only [emb2] at h
  rw [h, Flow.bind_run]
  have ht := trM_eq (preM src off c)
  simp only [preM] at ht ⊢
  rw [ht]
  cases Curl.Curl.transform _ <;> rfl

theorem blockA_short {ρ : Type} (src : List (List (BitVec 8))) (hlen : src.length ≤ 64) (off : Nat)
    (hoff : off < 2 ^ 63) (c : Curl.Curl) (hs : ¬ Long src (off + 243)) :
    blockA (ρ := ρ) trM src (c.l.toList, c.h.toList) (BitVec.ofNat 64 off) = .panic := by
  unfold blockA
  rw [rate_loop, Flow.bind_run, lanes_short src hlen off hoff hs]
  rfl

theorem Long_mono (src : List (List (BitVec 8))) {a b : Nat} (hab : a ≤ b) (h : Long src b) : Long src a :=
  fun lane hm => Nat.le_trans hab (h lane hm)

/-- all lanes long enough: the block loop is the model's `absorbBlocks` -/
theorem blocks_ok {ρ : Type} (src : List (List (BitVec 8))) (hlen : src.length ≤ 64) :
    ∀ (n off : Nat) (c : Curl.Curl), off + 243 * n < 2 ^ 63 → Long src (off + 243 * n) →
      forIn (blockIdx n off) (c.l.toList, c.h.toList) (blockA (ρ := ρ) trM src) =
        runM (Curl.absorbBlocks (src.map tritsI) n off c) := by
  intro n
  induction n with
  | zero => intro off c _ _; rfl
  | succ n ih =>
    intro off c hb hl
    rw [blockIdx_succ, forIn_cons, blockA_ok src hlen off (by omega) c (Long_mono src (by omega) hl),
      absorbBlocks_succ]
    cases Curl.Curl.transform (preM src off c) with
    | none => rfl
    | some c' => exact ih (off + 243) c' (by omega) (Long_mono src (by omega) hl)

/-- some lane too short for the last block: the loop panics (in the first block that does not fit, or before in
`transform`) -/
theorem blocks_short {ρ : Type} (src : List (List (BitVec 8))) (hlen : src.length ≤ 64) :
    ∀ (n off : Nat) (c : Curl.Curl), n ≠ 0 → off + 243 * n < 2 ^ 63 → ¬ Long src (off + 243 * n) →
      forIn (blockIdx n off) (c.l.toList, c.h.toList) (blockA (ρ := ρ) trM src) = .panic := by
  intro n
  induction n with
  | zero => intro off c h0; exact absurd rfl h0
  | succ n ih =>
    intro off c _ hb hs
    rw [blockIdx_succ, forIn_cons]
    by_cases hL : Long src (off + 243)
    · rw [blockA_ok src hlen off (by omega) c hL]
      cases Curl.Curl.transform (preM src off c) with
      | none => rfl
      | some c' =>
        have hn : n ≠ 0 := by
          rintro rfl
          exact hs hL
        exact ih (off + 243) c' hn (by omega) (by rw [show off + 243 + 243 * n = off + 243 * (n + 1) by omega]; exact hs)
    · rw [blockA_short src hlen off (by omega) c hL]
      rfl

/-! ### `absorb_eq` -/

/-- the image of an outcome of the model's `absorb` on state `c`: what the translated `Absorb` returns -/
def encA (c : Curl.Curl) : Curl.Outcome Unit → Option AR
  | .err .invalidBatchSize => some (some "consts.ErrInvalidBatchSize", c.l.toList, c.h.toList)
  | .err .invalidTritsLength => some (some "consts.ErrInvalidTritsLength", c.l.toList, c.h.toList)
  | .err .invalidSqueezeLength => some (some "consts.ErrInvalidSqueezeLength", c.l.toList, c.h.toList)
  | .panic => none
  | .ok c' _ => some (none, c'.l.toList, c'.h.toList)

theorem any_short_iff (src : List (List (BitVec 8))) (m : Nat) :
    (src.map tritsI).any (fun lane => decide (lane.length < m)) = true ↔ ¬ Long src m := by
  simp only [List.any_eq_true, List.mem_map, decide_eq_true_eq, Long]
  constructor
  · rintro ⟨_, ⟨lane, hm, rfl⟩, hlt⟩ hL
    have := hL lane hm
    simp only [tritsI, List.length_map] at hlt
    omega
  · intro hL
    apply Classical.byContradiction
    intro hn
    apply hL
    intro lane hm
    apply Classical.byContradiction
    intro hlt
    exact hn ⟨tritsI lane, ⟨lane, hm, rfl⟩, by simp only [tritsI, List.length_map]; omega⟩

theorem dirBV_guard (d : Curl.Direction) : (dirBV d != 0#64) = decide (d ≠ .absorbing) := by
  cases d <;> rfl

/-- **`Absorb` as translated is the model's `absorb`** (for a slice `src` — fewer than `2^63` lanes — and
`tritsCount ≥ 0`; for `tritsCount < 0` see `absorb_neg`).  The parameter `Curl_transform` is instantiated by the
model's `transform` (`trM`), which is only applied to planes of length 729. -/
theorem absorb_eq (c : Curl.Curl) (src : List (List (BitVec 8))) (hsrc : src.length < 2 ^ 63) (tc : BitVec 64)
    (h0 : 0 ≤ tc.toInt) :
    Gen.Curl.code.Curl_Absorb trM c.l.toList c.h.toList (dirBV c.direction) src tc =
      encA c (Curl.Curl.absorb c (src.map tritsI) tc.toNat) := by
  rw [Curl_Absorb_unfold, batch_guard _ hsrc, srem_guard_nonneg tc h0, dirBV_guard, Curl.Curl.absorb]
  simp only [List.length_map, decide_eq_true_eq]
  by_cases hb : src.length < 1 ∨ src.length > 64
  · rw [if_pos hb, if_pos hb]; rfl
  rw [if_neg hb, if_neg hb]
  by_cases hm : tc.toNat % 243 ≠ 0
  · rw [if_pos hm, if_pos hm]; rfl
  rw [if_neg hm, if_neg hm]
  by_cases hd : c.direction ≠ .absorbing
  · rw [if_pos hd, if_pos hd]; rfl
  rw [if_neg hd, if_neg hd]
  have hm' : tc.toNat % 243 = 0 := by omega
  obtain ⟨_, hlt⟩ := toInt_nonneg tc h0
  have hn : 0 + 243 * (tc.toNat / 243) = tc.toNat := by omega
  rw [forUp_blocks tc h0 hm']
  by_cases hL : Long src tc.toNat
  · rw [if_neg (fun h => (any_short_iff src _).mp h.2 hL),
      blocks_ok src (by omega) _ 0 c (by omega) (by rw [hn]; exact hL)]
    cases Curl.absorbBlocks (src.map tritsI) (tc.toNat / 243) 0 c <;> rfl
  · have hz : tc.toNat ≠ 0 := by
      intro hz
      apply hL
      rw [hz]
      exact fun _ _ => Nat.zero_le _
    rw [if_pos ⟨hz, (any_short_iff src _).mpr hL⟩,
      blocks_short src (by omega) _ 0 c (by omega) (by omega) (by rw [hn]; exact hL)]
    rfl

/-- **negative `tritsCount`.**  Go's `%` keeps the sign of the dividend (`Int.tmod`).  A negative `tritsCount` that is
not a multiple of 243 yields `ErrInvalidTritsLength`.  For a negative multiple of 243 the direction check comes next
(panic when squeezing); otherwise the loop is not entered (`0 < tritsCount` is false) and `nil` is returned with the
state unchanged.  The model (`tritsCount : Nat`) does not describe these calls. -/
theorem absorb_neg (tr : TR) (c_l c_h : List W) (d : W) (src : List (List (BitVec 8))) (hsrc1 : 1 ≤ src.length)
    (hsrc : src.length ≤ 64) (tc : BitVec 64) (hneg : tc.toInt < 0) :
    Gen.Curl.code.Curl_Absorb tr c_l c_h d src tc =
      if tc.toInt.tmod 243 ≠ 0 then some (some "consts.ErrInvalidTritsLength", c_l, c_h)
      else if d ≠ 0#64 then none
      else some (none, c_l, c_h) := by
  rw [Curl_Absorb_unfold, batch_guard _ (by omega), srem_guard]
  have hb : ¬ (src.length < 1 ∨ src.length > 64) := by omega
  simp only [decide_eq_true_eq]
  rw [if_neg hb]
  by_cases hm : tc.toInt.tmod 243 ≠ 0
  · rw [if_pos hm, if_pos hm]; rfl
  rw [if_neg hm, if_neg hm]
  by_cases hd : d = 0#64
  · have hlt : BitVec.slt 0#64 tc = false := by
      rw [BitVec.slt]
      exact decide_eq_false (by rw [show (0#64).toInt = 0 from rfl]; omega)
    have hup : forUp true false 0#64 tc 243 = [] := by
      simp only [forUp, if_true, Bool.false_eq_true, if_false, hlt]
    subst hd
    rw [hup]
    rfl
  · have : (d != 0#64) = true := by simpa using hd
    rw [if_pos this, if_pos hd]
    rfl

/-! ### 4. `Squeeze`: the generated definition in terms of named block bodies -/

abbrev Rows := List (List (BitVec 8))
/-- the result type of the translated `Squeeze` -/
abbrev SR := Option String × List W × List W × W × Rows
/-- the state of its block loop -/
abbrev SSt := List W × List W × W × Rows

/-- body of `for j := range dst { dst[j] = make(trinary.Trits, tritsCount) }`, as generated -/
def makeStep {ρ : Type} (tritsCount : W) (dst : List (List (BitVec 8))) (j : W) : Flow ρ Rows :=
      if !(Go.nonneg tritsCount) then Go.Flow.panic else
      let dst : List (List (BitVec 8)) := (dst.set j.toNat (List.replicate tritsCount.toNat 0#8))
      Go.Flow.run dst

/-- body of `for j := range dst { c.out(dst[j][i:], uint(j)) }`, as generated -/
def laneStepS {ρ : Type} (c_l c_h : List W) (i : W) (dst : List (List (BitVec 8))) (j : W) : Flow ρ Rows :=
          if !(Go.sliceFromS i (dst.getD j.toNat []).length) then Go.Flow.panic else
          Go.Flow.bind (Go.call (Gen.Curl.code.Curl_out c_l c_h ((dst.getD j.toNat []).drop i.toNat) j)) (fun (st_4 : List (BitVec 8)) =>
          let dst : List (List (BitVec 8)) := (dst.set j.toNat ((dst.getD j.toNat []).take i.toNat ++ st_4))
          Go.Flow.run dst)

/-- body of the block loop of `Squeeze` -/
def blockS {ρ : Type} (tr : TR) (st_1 : SSt) (i : W) : Flow ρ SSt :=
  Flow.bind (if (st_1.2.2.1 == 1#64) then
      Flow.bind (Go.call (tr st_1.1 st_1.2.1)) (fun st_2 => Flow.run (st_2.1, st_2.2))
    else Flow.run (st_1.1, st_1.2.1)) fun st_3 =>
  Flow.bind (Go.forIn ((List.range st_1.2.2.2.length).map (BitVec.ofNat 64)) st_1.2.2.2 (laneStepS st_3.1 st_3.2 i))
    fun dst => Flow.run (st_3.1, st_3.2, 1#64, dst)

theorem Curl_Squeeze_unfold (tr : TR) (c_l c_h : List W) (d : W) (dst : Rows) (tc : W) :
    Gen.Curl.code.Curl_Squeeze tr c_l c_h d dst tc = Flow.result (
      if ((BitVec.slt (BitVec.ofNat 64 dst.length) 1#64) || (BitVec.slt 64#64 (BitVec.ofNat 64 dst.length))) then
        Flow.done ((some "consts.ErrInvalidBatchSize"), c_l, c_h, d, dst)
      else if ((BitVec.srem tc 243#64) != 0#64) then
        Flow.done ((some "consts.ErrInvalidSqueezeLength"), c_l, c_h, d, dst)
      else
      Flow.bind (Go.forIn ((List.range dst.length).map (BitVec.ofNat 64)) dst (makeStep tc)) fun dst =>
      Flow.bind (Go.forIn (Go.forUp true false 0#64 tc 243) (c_l, c_h, d, dst) (blockS tr)) fun st_1 =>
      Flow.done ((none : Option String), st_1.1, st_1.2.1, st_1.2.2.1, st_1.2.2.2)) := rfl

/-! ### the `make` loop -/

theorem makeStep_run {ρ : Type} (tc : W) (hn : tc.msb = false) (dst : Rows) (k : Nat) (hk : k < 64) :
    makeStep (ρ := ρ) tc dst (BitVec.ofNat 64 k) =
      .run (upd [] (fun _ _ => List.replicate tc.toNat 0#8) dst k) := by
  have h3 : (BitVec.ofNat 64 k).toNat = k := toNat_idx (by omega)
  simp only [makeStep, nonneg, hn, h3, upd, Bool.not_false, Bool.not_true, Bool.false_eq_true, if_false]

theorem make_loop {ρ : Type} (tc : W) (hn : tc.msb = false) (dst : Rows) (hlen : dst.length ≤ 64) :
    forIn ((List.range dst.length).map (BitVec.ofNat 64)) dst (makeStep (ρ := ρ) tc) =
      .run (List.replicate dst.length (List.replicate tc.toNat 0#8)) := by
  rw [forIn_range dst.length _ _ _ (fun s k hk => makeStep_run tc hn s k (by omega)),
    foldl_set_getD [] (fun _ _ => List.replicate tc.toNat 0#8) dst dst.length (Nat.le_refl _)]
  congr 1
  apply List.ext_getElem
  · simp
  · intro i h1 h2
    have hi : i < dst.length := by simpa using h1
    simp only [List.getElem_map, List.getElem_range, if_pos hi, List.getElem_replicate]

theorem make_panic {ρ : Type} (tc : W) (hn : tc.msb = true) (dst : Rows) (hlen : 1 ≤ dst.length) :
    forIn ((List.range dst.length).map (BitVec.ofNat 64)) dst (makeStep (ρ := ρ) tc) = .panic := by
  obtain ⟨n, hn'⟩ : ∃ n, dst.length = n + 1 := ⟨dst.length - 1, by omega⟩
  rw [hn', List.range_succ_eq_map, List.map_cons, forIn_cons]
  simp only [makeStep, nonneg, hn, Bool.not_true, Bool.not_false, if_true, Flow.bind_panic]

/-! ### the lanes of one block of `Squeeze` -/

/-- a row of `dst` while it is being filled: the trits produced so far, then the zeros of `make` up to length `tc` -/
def pad (tc : Nat) (a : List Int) : List (BitVec 8) := a.map (BitVec.ofInt 8) ++ List.replicate (tc - a.length) 0#8

theorem pad_length (tc : Nat) (a : List Int) (h : a.length ≤ tc) : (pad tc a).length = tc := by
  simp only [pad, List.length_append, List.length_map, List.length_replicate]; omega

theorem pad_full (tc : Nat) (a : List Int) (h : a.length = tc) : pad tc a = a.map (BitVec.ofInt 8) := by
  simp [pad, h]

theorem outLane_length (c : Curl.Curl) (j : Nat) : (Curl.outLane c j).length = 243 := by
  simp [Curl.outLane]

/-- what `c.out(dst[j][i:], j)` makes of row `j` -/
def rowS (c : Curl.Curl) (off : Nat) (k : Nat) (row : List (BitVec 8)) : List (BitVec 8) :=
  row.take off ++ ((Curl.outLane c k).map (BitVec.ofInt 8) ++ (row.drop off).drop 243)

theorem rowS_length (c : Curl.Curl) (off k : Nat) (row : List (BitVec 8)) (h : off + 243 ≤ row.length) :
    (rowS c off k row).length = row.length := by
  simp only [rowS, List.length_append, List.length_take, List.length_map, outLane_length, List.length_drop]
  omega

theorem rowS_pad (c : Curl.Curl) (tc off k : Nat) (a : List Int) (ha : a.length = off) :
    rowS c off k (pad tc a) = pad tc (a ++ Curl.outLane c k) := by
  have h1 : (pad tc a).take off = a.map (BitVec.ofInt 8) := by
    rw [pad, List.take_append_of_le_length (by simp [ha])]
    exact List.take_of_length_le (by simp [ha])
  have h2 : (pad tc a).drop off = List.replicate (tc - off) 0#8 := by
    rw [pad, List.drop_append_of_le_length (by simp [ha]), List.drop_of_length_le (by simp [ha]), ha]
    rfl
  rw [rowS, h1, h2, pad, List.map_append, List.append_assoc, List.drop_replicate, List.length_append, ha,
    outLane_length, Nat.sub_sub]

theorem laneStepS_run {ρ : Type} (c : Curl.Curl) (off : Nat) (hoff : off < 2 ^ 63) (dst : Rows) (k : Nat)
    (hk : k < 64) (hrow : off + 243 ≤ (dst.getD k []).length) :
    laneStepS (ρ := ρ) c.l.toList c.h.toList (BitVec.ofNat 64 off) dst (BitVec.ofNat 64 k) =
      .run (upd [] (rowS c off) dst k) := by
  obtain ⟨ht, hm⟩ := ofNat_off hoff
  have hkn : (BitVec.ofNat 64 k).toNat = k := toNat_idx (by omega)
  have h1 : off ≤ (dst.getD k []).length := by omega
  have h2 : 243 ≤ ((dst.getD k []).drop off).length := by rw [List.length_drop]; omega
  have h3 : k % 64 = k := Nat.mod_eq_of_lt hk
  simp only [laneStepS, sliceFromS, ht, hm, hkn, out_eq, h1, h2, h3, if_true, decide_true, Bool.not_false,
    Bool.and_self, Bool.not_true, Bool.false_eq_true, if_false, call, Flow.bind_run, upd, rowS]

/-- all rows have length `tc` -/
def RowsOK (lanes tc : Nat) (dst : Rows) : Prop := dst.length = lanes ∧ ∀ row ∈ dst, row.length = tc

theorem RowsOK_upd (lanes tc : Nat) (dst : Rows) (h : RowsOK lanes tc dst) (c : Curl.Curl) (off k : Nat)
    (hoff : off + 243 ≤ tc) (hk : k < lanes) : RowsOK lanes tc (upd [] (rowS c off) dst k) := by
  obtain ⟨h1, h2⟩ := h
  refine ⟨by simp [upd, h1], ?_⟩
  intro row hrow
  rcases List.mem_or_eq_of_mem_set hrow with hm | rfl
  · exact h2 row hm
  · have := h2 _ (getD_mem dst k (by omega) [])
    rw [rowS_length c off k _ (by omega), this]

theorem lanesS_loop {ρ : Type} (c : Curl.Curl) (lanes : Nat) (hlanes : lanes ≤ 64) (tc off : Nat) (hoff : off + 243 ≤ tc)
    (htc : tc < 2 ^ 63) (dst : Rows) (hd : RowsOK lanes tc dst) :
    forIn ((List.range lanes).map (BitVec.ofNat 64)) dst
        (laneStepS (ρ := ρ) c.l.toList c.h.toList (BitVec.ofNat 64 off)) =
      .run ((List.range lanes).foldl (upd [] (rowS c off)) dst) := by
  rw [forIn_map]
  apply forIn_inv (RowsOK lanes tc) _ _ _ _ dst hd
  intro s hs k hk
  have hk' : k < lanes := List.mem_range.mp hk
  have hrow : (s.getD k []).length = tc := hs.2 _ (getD_mem s k (by rw [hs.1]; exact hk') [])
  exact ⟨laneStepS_run c off (by omega) s k (by omega) (by omega), RowsOK_upd lanes tc s hs c off k hoff hk'⟩

/-- the model's new accumulator -/
def accM (c : Curl.Curl) (lanes : Nat) (acc : List (List Int)) : List (List Int) :=
  (List.range lanes).map fun j => acc.getD j [] ++ Curl.outLane c j

theorem lanesS_pad (c : Curl.Curl) (lanes tc off : Nat) (acc : List (List Int))
    (hlen : acc.length = lanes) (hacc : ∀ a ∈ acc, a.length = off) :
    (List.range lanes).foldl (upd [] (rowS c off)) (acc.map (pad tc)) = (accM c lanes acc).map (pad tc) := by
  rw [foldl_set_getD [] (rowS c off) (acc.map (pad tc)) lanes (by simp [hlen]), List.length_map, hlen, accM,
    List.map_map]
  apply List.map_congr_left
  intro j hj
  have hj' : j < lanes := List.mem_range.mp hj
  have hg : (acc.map (pad tc)).getD j [] = pad tc (acc.getD j []) := by
    simp only [List.getD_eq_getElem?_getD, List.getElem?_map, List.getElem?_eq_getElem (hlen ▸ hj'),
      Option.map_some, Option.getD_some]
  simp only [if_pos hj', hg, Function.comp]
  exact rowS_pad c tc off j _ (hacc _ (getD_mem acc j (hlen ▸ hj') []))

/-! ### one block of `Squeeze`, the block loop -/

/-- a state of the model's `squeezeBlocks` as the state of the code's block loop (`tc` = the row length) -/
def embS (tc : Nat) (t : Curl.Curl × List (List Int)) : SSt :=
  (t.1.l.toList, t.1.h.toList, dirBV t.1.direction, t.2.map (pad tc))

def runS {ρ : Type} (tc : Nat) : Option (Curl.Curl × List (List Int)) → Flow ρ SSt
  | some t => .run (embS tc t)
  | none => .panic

/-- the `transform` at the start of a block: only when already squeezing -/
def preS (c : Curl.Curl) : Option Curl.Curl := if c.direction = .squeezing then Curl.Curl.transform c else some c

/-- one step of the model's `squeezeBlocks` -/
def stepS (lanes : Nat) (c1 : Curl.Curl) (acc : List (List Int)) : Curl.Curl × List (List Int) :=
  ({ c1 with direction := .squeezing }, accM { c1 with direction := .squeezing } lanes acc)

theorem squeezeBlocks_succ (lanes n : Nat) (c : Curl.Curl) (acc : List (List Int)) :
    Curl.squeezeBlocks lanes (n + 1) c acc =
      (preS c).bind fun c1 => Curl.squeezeBlocks lanes n (stepS lanes c1 acc).1 (stepS lanes c1 acc).2 := by
  rw [Curl.squeezeBlocks, preS]
  split <;> rfl

theorem pre_code {ρ : Type} (c : Curl.Curl) :
    (if (dirBV c.direction == 1#64) then
      Flow.bind (Go.call (trM c.l.toList c.h.toList)) (fun st_2 => Flow.run (st_2.1, st_2.2))
    else Flow.run (c.l.toList, c.h.toList) : Flow ρ P2) = runM (preS c) := by
  rw [trM_eq, preS]
  cases hd : c.direction
  · rfl
  · simp only [dirBV, BEq.rfl, if_true]
    cases Curl.Curl.transform c <;> rfl

theorem blockS_unfold {ρ : Type} (tr : TR) (l h : List W) (d : W) (dst : Rows) (i : W) :
    blockS (ρ := ρ) tr (l, h, d, dst) i =
      Flow.bind (if (d == 1#64) then Flow.bind (Go.call (tr l h)) (fun st_2 => Flow.run (st_2.1, st_2.2))
        else Flow.run (l, h)) fun st_3 =>
      Flow.bind (Go.forIn ((List.range dst.length).map (BitVec.ofNat 64)) dst (laneStepS st_3.1 st_3.2 i))
        fun dst => Flow.run (st_3.1, st_3.2, 1#64, dst) := rfl

theorem blockS_eq {ρ : Type} (lanes : Nat) (hlanes : lanes ≤ 64) (tc off : Nat) (hoff : off + 243 ≤ tc)
    (htc : tc < 2 ^ 63) (c : Curl.Curl) (acc : List (List Int)) (hlen : acc.length = lanes)
    (hacc : ∀ a ∈ acc, a.length = off) :
    blockS (ρ := ρ) trM (embS tc (c, acc)) (BitVec.ofNat 64 off) =
      runS tc ((preS c).map fun c1 => stepS lanes c1 acc) := by
  rw [embS, blockS_unfold, pre_code]
  cases preS c with
  | none => rfl
  | some c1 =>
    have hd : RowsOK lanes tc (acc.map (pad tc)) := by
      refine ⟨by simp [hlen], ?_⟩
      intro row hrow
      obtain ⟨a, ha, rfl⟩ := List.mem_map.mp hrow
      exact pad_length tc a (by rw [hacc a ha]; omega)
    have hl := lanesS_loop (ρ := ρ) { c1 with direction := .squeezing } lanes hlanes tc off hoff htc _ hd
    rw [lanesS_pad _ lanes tc off acc hlen hacc] at hl
    simp only [runM, Flow.bind_run, List.length_map, hlen]
    rw [hl]
    rfl

theorem accM_ok (c : Curl.Curl) (lanes off : Nat) (acc : List (List Int)) (hlen : acc.length = lanes)
    (hacc : ∀ a ∈ acc, a.length = off) :
    (accM c lanes acc).length = lanes ∧ ∀ a ∈ accM c lanes acc, a.length = off + 243 := by
  refine ⟨by simp [accM], ?_⟩
  intro a ha
  obtain ⟨j, hj, rfl⟩ := List.mem_map.mp ha
  have hj' : j < acc.length := hlen ▸ List.mem_range.mp hj
  rw [List.length_append, outLane_length, hacc _ (getD_mem acc j hj' [])]

/-- the block loop is the model's `squeezeBlocks` -/
theorem blocksS_ok {ρ : Type} (lanes : Nat) (hlanes : lanes ≤ 64) (tc : Nat) (htc : tc < 2 ^ 63) :
    ∀ (n off : Nat) (c : Curl.Curl) (acc : List (List Int)), acc.length = lanes → (∀ a ∈ acc, a.length = off) →
      off + n * 243 ≤ tc →
      forIn (blockIdx n off) (embS tc (c, acc)) (blockS (ρ := ρ) trM) =
        runS tc (Curl.squeezeBlocks lanes n c acc) := by
  intro n
  induction n with
  | zero => intro off c acc _ _ _; rfl
  | succ n ih =>
    intro off c acc hlen hacc hb
    have hb1 : off + 243 ≤ tc := by omega
    have hb2 : off + 243 + n * 243 ≤ tc := by omega
    rw [blockIdx_succ, forIn_cons, blockS_eq lanes hlanes tc off hb1 htc c acc hlen hacc, squeezeBlocks_succ]
    cases preS c with
    | none => rfl
    | some c1 =>
      obtain ⟨h1, h2⟩ := accM_ok { c1 with direction := .squeezing } lanes off acc hlen hacc
      exact ih (off + 243) _ _ h1 h2 hb2

/-- the rows the model returns have `off + 243 * n` trits -/
theorem squeezeBlocks_len (lanes : Nat) :
    ∀ (n off : Nat) (c : Curl.Curl) (acc : List (List Int)) (t : Curl.Curl × List (List Int)),
      acc.length = lanes → (∀ a ∈ acc, a.length = off) → Curl.squeezeBlocks lanes n c acc = some t →
      ∀ a ∈ t.2, a.length = off + 243 * n := by
  intro n
  induction n with
  | zero =>
    intro off c acc t _ hacc h
    cases h
    exact hacc
  | succ n ih =>
    intro off c acc t hlen hacc h
    rw [squeezeBlocks_succ] at h
    cases hp : preS c with
    | none => rw [hp] at h; cases h
    | some c1 =>
      rw [hp] at h
      obtain ⟨h1, h2⟩ := accM_ok { c1 with direction := .squeezing } lanes off acc hlen hacc
      have := ih (off + 243) _ _ t h1 h2 h
      intro a ha
      rw [this a ha]
      omega

/-! ### `squeeze_eq` -/

/-- the image of an outcome of the model's `squeeze` on state `c`: what the translated `Squeeze` returns when it is
given the rows `dst` -/
def encS (c : Curl.Curl) (dst : Rows) : Curl.Outcome (List (List Int)) → Option SR
  | .err .invalidBatchSize =>
    some (some "consts.ErrInvalidBatchSize", c.l.toList, c.h.toList, dirBV c.direction, dst)
  | .err .invalidTritsLength =>
    some (some "consts.ErrInvalidTritsLength", c.l.toList, c.h.toList, dirBV c.direction, dst)
  | .err .invalidSqueezeLength =>
    some (some "consts.ErrInvalidSqueezeLength", c.l.toList, c.h.toList, dirBV c.direction, dst)
  | .panic => none
  | .ok c' out => some (none, c'.l.toList, c'.h.toList, dirBV c'.direction, out.map (·.map (BitVec.ofInt 8)))

theorem embS_init (tc lanes : Nat) (c : Curl.Curl) :
    (c.l.toList, c.h.toList, dirBV c.direction, List.replicate lanes (List.replicate tc 0#8)) =
      embS tc (c, List.replicate lanes []) := by
  simp [embS, pad]

/-- **`Squeeze` as translated is the model's `squeeze`** (for a slice `dst` — fewer than `2^63` rows, whose contents
do not matter — and `tritsCount ≥ 0`; for `tritsCount < 0` see `squeeze_neg`). -/
theorem squeeze_eq (c : Curl.Curl) (dst : Rows) (hdst : dst.length < 2 ^ 63) (tc : BitVec 64) (h0 : 0 ≤ tc.toInt) :
    Gen.Curl.code.Curl_Squeeze trM c.l.toList c.h.toList (dirBV c.direction) dst tc =
      encS c dst (Curl.Curl.squeeze c dst.length tc.toNat) := by
  rw [Curl_Squeeze_unfold, batch_guard _ hdst, srem_guard_nonneg tc h0, Curl.Curl.squeeze]
  simp only [decide_eq_true_eq]
  by_cases hb : dst.length < 1 ∨ dst.length > 64
  · rw [if_pos hb, if_pos hb]; rfl
  rw [if_neg hb, if_neg hb]
  by_cases hm : tc.toNat % 243 ≠ 0
  · rw [if_pos hm, if_pos hm]; rfl
  rw [if_neg hm, if_neg hm]
  have hm' : tc.toNat % 243 = 0 := by omega
  obtain ⟨_, hlt⟩ := toInt_nonneg tc h0
  have hmsb : tc.msb = false := by
    rw [BitVec.msb_eq_decide]
    exact decide_eq_false (by omega)
  have hn : 0 + tc.toNat / 243 * 243 ≤ tc.toNat := by omega
  rw [make_loop tc hmsb dst (by omega), Flow.bind_run, forUp_blocks tc h0 hm', embS_init,
    blocksS_ok dst.length (by omega) tc.toNat hlt _ 0 c _ (List.length_replicate ..)
      (fun a ha => by rw [List.eq_of_mem_replicate ha]; rfl) hn]
  cases hs : Curl.squeezeBlocks dst.length (tc.toNat / 243) c (List.replicate dst.length []) with
  | none => rfl
  | some t =>
    have hlen := squeezeBlocks_len dst.length _ 0 c _ t (List.length_replicate ..)
      (fun a ha => by rw [List.eq_of_mem_replicate ha]; rfl) hs
    have hpad : t.2.map (pad tc.toNat) = t.2.map (·.map (BitVec.ofInt 8)) :=
      List.map_congr_left (fun a ha => pad_full _ a (by rw [hlen a ha]; omega))
    simp only [runS, embS, Flow.bind_run, Flow.result_done, encS, hpad]

/-- **negative `tritsCount`**: one that is not a multiple of 243 (`%` keeps the sign: `Int.tmod`) yields
`ErrInvalidSqueezeLength`; a negative multiple of 243 makes the first `make(trinary.Trits, tritsCount)` panic. -/
theorem squeeze_neg (tr : TR) (c_l c_h : List W) (d : W) (dst : Rows) (hdst1 : 1 ≤ dst.length)
    (hdst : dst.length ≤ 64) (tc : BitVec 64) (hneg : tc.toInt < 0) :
    Gen.Curl.code.Curl_Squeeze tr c_l c_h d dst tc =
      if tc.toInt.tmod 243 ≠ 0 then some (some "consts.ErrInvalidSqueezeLength", c_l, c_h, d, dst)
      else none := by
  rw [Curl_Squeeze_unfold, batch_guard _ (by omega), srem_guard]
  have hb : ¬ (dst.length < 1 ∨ dst.length > 64) := by omega
  simp only [decide_eq_true_eq]
  rw [if_neg hb]
  by_cases hm : tc.toInt.tmod 243 ≠ 0
  · rw [if_pos hm, if_pos hm]; rfl
  rw [if_neg hm, if_neg hm]
  have hmsb : tc.msb = true := by
    rw [BitVec.msb_eq_toInt]
    exact decide_eq_true hneg
  rw [make_panic tc hmsb dst hdst1]
  rfl

/-! ### the 8-bit representation of the output loses nothing -/

/-- a value that survives the round trip through `int8` -/
def Fits (x : Int) : Prop := (BitVec.ofInt 8 x).toInt = x

theorem squeezeBlocks_fits (lanes : Nat) :
    ∀ (n : Nat) (c : Curl.Curl) (acc : List (List Int)) (t : Curl.Curl × List (List Int)),
      (∀ a ∈ acc, ∀ x ∈ a, Fits x) → Curl.squeezeBlocks lanes n c acc = some t → ∀ a ∈ t.2, ∀ x ∈ a, Fits x := by
  intro n
  induction n with
  | zero =>
    intro c acc t hacc h
    cases h
    exact hacc
  | succ n ih =>
    intro c acc t hacc h
    rw [squeezeBlocks_succ] at h
    cases hp : preS c with
    | none => rw [hp] at h; cases h
    | some c1 =>
      rw [hp] at h
      refine ih _ _ t ?_ h
      intro a ha x hx
      obtain ⟨j, _, rfl⟩ := List.mem_map.mp ha
      rcases List.mem_append.mp hx with hx | hx
      · by_cases hj : j < acc.length
        · exact hacc _ (getD_mem acc j hj []) x hx
        · rw [List.getD_eq_getElem?_getD, List.getElem?_eq_none (by omega)] at hx
          cases hx
      · exact (CurlCodeLanes.outLane_trits _ j x hx).2

/-- reading the rows `Squeeze` returns as signed bytes gives back the model's output -/
theorem squeeze_out_toInt (c c' : Curl.Curl) (lanes tritsCount : Nat) (out : List (List Int))
    (h : Curl.Curl.squeeze c lanes tritsCount = .ok c' out) :
    (out.map (·.map (BitVec.ofInt 8))).map tritsI = out := by
  rw [Curl.Curl.squeeze] at h
  split at h
  · cases h
  split at h
  · cases h
  split at h
  · rename_i c'' out' hs
    cases h
    have hf := squeezeBlocks_fits lanes _ c _ (c', out)
      (fun a ha x hx => by rw [List.eq_of_mem_replicate ha] at hx; cases hx) hs
    rw [List.map_map]
    conv => rhs; rw [← List.map_id out]
    apply List.map_congr_left
    intro a ha
    simp only [Function.comp, tritsI, List.map_map, id]
    conv => rhs; rw [← List.map_id a]
    apply List.map_congr_left
    intro x hx
    exact hf a ha x hx
  · cases h

end Iota.Tie.CurlCodeSponge
