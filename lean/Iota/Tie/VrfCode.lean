/-
Code tie for pkg/vrf/canonical.go: `isCanonicalY`, translated AS CODE by cmd/extract into
`Iota/Gen/Ed.lean` (`Gen.Ed.vrf.isCanonicalY : List (BitVec 8) → Option Bool`, `none` = run-time panic),
against the hand-written model `Vrf.isCanonicalY` of `Iota/Model/Vrf.lean`.

* For every input of length ≥ 32 the Go function does not panic and returns what the model returns
  (the model is only ever applied to 32-byte strings; it is total through `getD`).
* For every shorter input the Go function panics (the `_ = x[31]` bounds-check hint).

Coercion: as in `Bech32Code`, `bv : List UInt8 → List (BitVec 8)` (bijection, inverse `List.map UInt8.ofBitVec`).
-/
import Iota.Gen.Ed
import Iota.Model.Vrf
import Iota.Tie.GoFlow
import Iota.Tie.BV

namespace Iota.Tie.VrfCode
open Iota Iota.Go
open Iota.Tie.Bech32Code (bv bv_ofBitVec)

theorem length_bv (x : List UInt8) : (bv x).length = x.length := by simp [bv]

theorem getD_bv (x : List UInt8) (n : Nat) : (bv x).getD n 0#8 = (x.getD n 0).toBitVec := by
  unfold bv
  rw [List.getD_eq_getElem?_getD, List.getD_eq_getElem?_getD, List.getElem?_map]
  cases x[n]? <;> rfl

theorem toBitVec_bne (a b : UInt8) : (a.toBitVec != b.toBitVec) = (a != b) := by
  by_cases h : a = b
  · subst h; rw [bne_self_eq_false, bne_self_eq_false]
  · have : a.toBitVec ≠ b.toBitVec := fun e => h (UInt8.eq_of_toBitVec_eq e)
    rw [bne_iff_ne.mpr h, bne_iff_ne.mpr this]

/-- the indices of `for i := 1; i <= 30; i++`, computed in 64-bit signed arithmetic -/
theorem indices_eq : forUp true true 1#64 30#64 1 = (List.range 30).map (fun m => BitVec.ofNat 64 (1 + m * 1)) :=
  forUp_int true 1 30 1 (by decide) (by decide)

theorem indices : (forUp true true 1#64 30#64 1).map BitVec.toNat = (List.range 30).map (· + 1) := by
  rw [indices_eq, List.map_map]
  apply List.map_congr_left
  intro m hm
  have := List.mem_range.mp hm
  simp only [Function.comp, BitVec.toNat_ofNat]
  omega

theorem indices_nonneg : ∀ i ∈ forUp true true 1#64 30#64 1, i.msb = false ∧ i.toNat < 32 := by
  intro i hi
  rw [indices_eq] at hi
  obtain ⟨m, hm, rfl⟩ := List.mem_map.mp hi
  have := List.mem_range.mp hm
  have hn : (BitVec.ofNat 64 (1 + m * 1)).toNat = 1 + m := by rw [BitVec.toNat_ofNat]; omega
  refine ⟨?_, by omega⟩
  rw [BitVec.msb_eq_false_iff_two_mul_lt, hn]; omega

/-- the loop header `for i := 1; i <= 30; i++`, run step by step in 64-bit signed arithmetic (`Go.loopIdx`, any bound
above 30 on the number of steps), visits exactly the list the translation folds over, then finds `i <= 30` false -/
theorem header_sound (fuel : Nat) (h : 30 < fuel) :
    loopIdx (cmpUp true true 30#64) (· + BitVec.ofNat 64 1) fuel 1#64 = forUp true true 1#64 30#64 1 :=
  forUp_sound true true 30#64 1 (by decide) (by decide) fuel 1#64 (by rw [indices_eq]; simpa using h)

/-- **`isCanonicalY`, inputs of at least 32 bytes**: no panic, and the result of the model. -/
theorem isCanonicalY_eq (x : List UInt8) (hx : 32 ≤ x.length) :
    Gen.Ed.vrf.isCanonicalY (bv x) = some (Vrf.isCanonicalY x) := by
  unfold Gen.Ed.vrf.isCanonicalY Vrf.isCanonicalY
  have h31 : decide (31 < (bv x).length) = true := by rw [length_bv]; exact decide_eq_true (by omega)
  have h0 : decide (0 < (bv x).length) = true := by rw [length_bv]; exact decide_eq_true (by omega)
  simp only [h31, h0, Bool.not_true, Bool.false_eq_true, if_false]
  have hult : BitVec.ult ((bv x).getD 0 0#8) 237#8 = decide ((x.getD 0 0).toNat < 237) := by
    rw [getD_bv]; rfl
  rw [hult]
  by_cases h1 : (x.getD 0 0).toNat < 237
  · rw [decide_eq_true h1, if_pos rfl, if_pos h1]; rfl
  · rw [decide_eq_false h1, if_neg (by decide), if_neg h1]
    rw [forIn_any (forUp true true 1#64 30#64 1) (fun i => (bv x).getD i.toNat 0#8 != 255#8) true]
    · have hany : (forUp true true 1#64 30#64 1).any (fun i => (bv x).getD i.toNat 0#8 != 255#8) =
          ((List.range 30).map (· + 1)).any (fun i => x.getD i 0 != 255) := by
        rw [← indices, List.any_map]
        congr 1
        funext i
        show ((bv x).getD i.toNat 0#8 != 255#8) = (x.getD i.toNat 0 != 255)
        rw [getD_bv]
        exact toBitVec_bne _ 255
      rw [hany]
      cases ((List.range 30).map (· + 1)).any (fun i => x.getD i 0 != 255)
      · simp only [Bool.false_eq_true, if_false, Flow.bind_run, Flow.result_done]
        rw [getD_bv]
        congr 1
        have : (x.getD 31 0).toBitVec ||| 128#8 = (x.getD 31 0 ||| 128).toBitVec := by
          rw [UInt8.toBitVec_or]; rfl
        rw [this]
        exact toBitVec_bne _ 255
      · simp
    · intro i hi
      have := indices_nonneg i hi
      have hr : inRangeS i (bv x).length = true := by
        unfold inRangeS
        rw [length_bv, this.1]
        simp only [Bool.not_false, Bool.true_and, decide_eq_true_eq]
        omega
      simp only [hr, Bool.not_true, Bool.false_eq_true, if_false]

/-- **`isCanonicalY`, shorter inputs**: the Go function panics (index out of range at `_ = x[31]`). -/
theorem isCanonicalY_panics (x : List UInt8) (hx : x.length < 32) :
    Gen.Ed.vrf.isCanonicalY (bv x) = none := by
  unfold Gen.Ed.vrf.isCanonicalY
  have h31 : decide (31 < (bv x).length) = false := by rw [length_bv]; exact decide_eq_false (by omega)
  simp [h31]

/-! the same statements for arbitrary inputs of the translated code -/

theorem isCanonicalY_eq' (x : List (BitVec 8)) (hx : 32 ≤ x.length) :
    Gen.Ed.vrf.isCanonicalY x = some (Vrf.isCanonicalY (x.map UInt8.ofBitVec)) := by
  have := isCanonicalY_eq (x.map UInt8.ofBitVec) (by simpa using hx)
  rwa [bv_ofBitVec] at this

theorem isCanonicalY_panics' (x : List (BitVec 8)) (hx : x.length < 32) :
    Gen.Ed.vrf.isCanonicalY x = none := by
  have := isCanonicalY_panics (x.map UInt8.ofBitVec) (by simpa using hx)
  rwa [bv_ofBitVec] at this

/-- on the 32-byte strings the model is used on, the translated code is the model -/
theorem isCanonicalY_32 (x : List UInt8) (hx : x.length = 32) :
    Gen.Ed.vrf.isCanonicalY (bv x) = some (Vrf.isCanonicalY x) := isCanonicalY_eq x (by omega)

end Iota.Tie.VrfCode
