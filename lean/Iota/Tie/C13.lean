/-
Tie for C13: the synchronisation skeleton of `Mine` and `worker`, regenerated from pkg/pow/worker.go
and pkg/pow/v2/worker.go by go/cmd/extract (every go statement, select, channel operation, close,
WaitGroup call, atomic call, defer and return, in source order), equals the skeleton the transition
system `Iota.Mine.step` was written from.  Each line is annotated with the model step it became.
The full normalized text of both functions is also pinned (`Iota.Tie.Pow.src`).
-/
import Iota.Gen.Pow
import Iota.Tie.Pow
import Iota.Model.Mine

namespace Iota.Tie.C13
open Iota

/-- `Mine`, as modelled -/
def mineSkeleton : List String :=
  [ "make make(chan uint64, w.numWorkers)",      -- `results`: capacity `W` (`.send` enabled iff length < W)
    "make make(chan struct{})",                  -- `closing`
    "go{",                                       -- MPc.start: watcher becomes `.select`
    "select{",
    "case <-ctx.Done():",                        -- Label.watcherCtx
    "call atomic.StoreUint32(&done, 1)",         -- Label.watcherStore
    "case <-closing:",                           -- Label.watcherClosing
    "}",
    "}",
    "call wg.Add(1)",                            -- MPc.spawn k: wg + 1 before the goroutine starts
    "go{",                                       --   worker k becomes `.loop`
    "defer wg.Done()",                           -- WPc.exiting: wg - 1 on every exit path
    "call atomic.StoreUint32(&done, 1)",         -- WPc.found n
    "send results <- nonce",                     -- WPc.send n
    "}",
    "call wg.Wait()",                            -- MPc.wait: enabled iff wg = 0
    "call close(results)",                       -- MPc.closeResults
    "call close(closing)",                       -- MPc.closeClosing
    "recv <-results",                            -- MPc.recv
    "return 0, ErrCancelled",                    -- MPc.returned none
    "return nonce, nil" ]                        -- MPc.returned (some n)

/-- `worker`, as modelled -/
def workerSkeleton : List String :=
  [ "call atomic.LoadUint32(done)",                       -- WPc.loop
    "return 0, err",                                      -- Absorb error: impossible for 243-trit input (C06); exits without a result like `ErrDone`
    "call atomic.AddUint64(counter, bct.MaxBatchSize)",   -- statistics only, not modelled
    "return nonce + uint64(i), nil",                      -- WPc.batch with outcome `some n`
    "return 0, ErrDone" ]                                 -- WPc.loop with done set

/-- every use of the `done` flag: declared in `Mine`, stored by the watcher and by a finding worker,
passed by address to `worker`, loaded there; all accesses are atomic. -/
def doneAccesses (call : String) : List String :=
  [ "var done uint32", "atomic.StoreUint32(&done, 1)", call, "atomic.StoreUint32(&done, 1)", "param *uint32",
    "atomic.LoadUint32(done)" ]

/-- v1 first waits for cancellation and returns the cancellation error when the target is unattainable
(`Iota.Mine.preambleV1`), before anything is created -/
theorem skeleton_v1 : Gen.Pow.mineSkeletonV1 = "recv <-ctx.Done()" :: "return 0, ErrCancelled" :: mineSkeleton := by decide
/-- v2 differs only by the early `targetScore == 0` return before anything is created (its target validation has no
synchronisation operation; its position before the first `go` is pinned by the source text) -/
theorem skeleton_v2 : Gen.Pow.mineSkeletonV2 = "return 0, nil" :: mineSkeleton := by decide
theorem worker_v1 : Gen.Pow.workerSkeletonV1 = workerSkeleton := by decide
theorem worker_v2 : Gen.Pow.workerSkeletonV2 = workerSkeleton := by decide
theorem done_v1 : Gen.Pow.doneAccessesV1 =
    doneAccesses "w.worker(powDigest, startNonce, targetZeros, &done, &counter)" := by decide
theorem done_v2 : Gen.Pow.doneAccessesV2 =
    doneAccesses "w.worker(powDigest[:], startNonce, sufficientTrailing, target, &done, &counter)" := by decide

/-- every use of the statistics counter: passed by address, only ever `atomic.AddUint64` -/
def counterAccesses (call : String) : List String :=
  [ "var counter uint64", call, "param *uint64", "atomic.AddUint64(counter, bct.MaxBatchSize)" ]

theorem counter_v1 : Gen.Pow.counterAccessesV1 =
    counterAccesses "w.worker(powDigest, startNonce, targetZeros, &done, &counter)" := by decide
theorem counter_v2 : Gen.Pow.counterAccessesV2 =
    counterAccesses "w.worker(powDigest[:], startNonce, sufficientTrailing, target, &done, &counter)" := by decide

/-- what the goroutines share with `Mine` and with each other.  Watcher (go1): reads `ctx`, `closing`; takes
`&done`.  Worker (go2): takes `&done`, `&counter` (atomics, lists above); reads the channel `results`, the
WaitGroup `wg`, the receiver `w`, and `powDigest` / the target values, none of which is written by anyone from the
worker's spawn on; `startNonce` is a fresh variable per loop iteration.  No goroutine writes a captured variable. -/
def captures (targets : List String) : List String :=
  [ "go1 addr done", "go1 read closing", "go1 read ctx", "go2 addr counter", "go2 addr done", "go2 read powDigest",
    "go2 read results", "go2 read startNonce" ] ++ targets ++
  [ "go2 read w", "go2 read wg", "main-after-go define startNonce" ]

theorem captures_v1 : Gen.Pow.capturesV1 = captures ["go2 read targetZeros"] := by decide
theorem captures_v2 : Gen.Pow.capturesV2 = captures ["go2 read sufficientTrailing", "go2 read target"] := by decide

/-- the pinned text of the four functions -/
theorem src :
    Gen.Pow.src_pow_Worker_Mine = Expect.Pow_src_pow_Worker_Mine ∧
    Gen.Pow.src_pow_Worker_worker = Expect.Pow_src_pow_Worker_worker ∧
    Gen.Pow.src_v2_Worker_Mine = Expect.Pow_src_v2_Worker_Mine ∧
    Gen.Pow.src_v2_Worker_worker = Expect.Pow_src_v2_Worker_worker ∧
    Gen.Pow.src_pow_New = Expect.Pow_src_pow_New ∧
    Gen.Pow.src_v2_New = Expect.Pow_src_v2_New :=
  ⟨rfl, rfl, rfl, rfl, rfl, rfl⟩

end Iota.Tie.C13
