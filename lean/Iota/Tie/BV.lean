/-
Helpers shared by the code ties of several packages, kept free of any `Iota.Gen.*` import so that a tie of one package does
not depend on the regenerated file of another: the byte coercion `bv` (namespace `Iota.Tie.Bech32Code`, where it was first
defined) and two facts of 64-bit arithmetic (namespace `Iota.Tie.Base32Code`).
-/
import Iota.Tie.GoFlow

namespace Iota.Tie.Bech32Code

/-! ### the coercion -/

/-- bytes of the model as bytes of the translated code -/
def bv (l : List UInt8) : List (BitVec 8) := l.map UInt8.toBitVec

theorem ofBitVec_bv (l : List UInt8) : (bv l).map UInt8.ofBitVec = l := by
  induction l with
  | nil => rfl
  | cons a l ih => simpa [bv] using ih
theorem bv_ofBitVec (l : List (BitVec 8)) : bv (l.map UInt8.ofBitVec) = l := by
  induction l with
  | nil => rfl
  | cons a l ih => simpa [bv] using ih
theorem bv_append (a b : List UInt8) : bv (a ++ b) = bv a ++ bv b := by simp [bv]

end Iota.Tie.Bech32Code

namespace Iota.Tie.Base32Code
open Iota Iota.Go

theorem toNat_ofNat_lt (a : Nat) (ha : a < 2 ^ 64) : (BitVec.ofNat 64 a).toNat = a := by
  rw [BitVec.toNat_ofNat]; exact Nat.mod_eq_of_lt ha

theorem beq_ofNat (a b : Nat) (ha : a < 2 ^ 64) (hb : b < 2 ^ 64) :
    (BitVec.ofNat 64 a == BitVec.ofNat 64 b) = decide (a = b) := by
  by_cases h : a = b
  · subst h; simp
  · rw [decide_eq_false h]
    apply beq_eq_false_iff_ne.mpr
    intro he
    have := congrArg BitVec.toNat he
    rw [toNat_ofNat_lt a ha, toNat_ofNat_lt b hb] at this
    exact h this

theorem slt_ofNat (a b : Nat) (ha : a < 2 ^ 63) (hb : b < 2 ^ 63) :
    BitVec.slt (BitVec.ofNat 64 a) (BitVec.ofNat 64 b) = decide (a < b) := by
  rw [BitVec.slt, toInt_ofNat_small a ha, toInt_ofNat_small b hb]
  congr 1
  exact propext ⟨fun h => by omega, fun h => by omega⟩

theorem msb_ofNat_small (a : Nat) (ha : a < 2 ^ 63) : (BitVec.ofNat 64 a).msb = false := by
  rw [BitVec.msb_eq_false_iff_two_mul_lt, BitVec.toNat_ofNat]; omega

theorem sdiv_ofNat (a b : Nat) (ha : a < 2 ^ 63) (hb : b < 2 ^ 63) :
    BitVec.sdiv (BitVec.ofNat 64 a) (BitVec.ofNat 64 b) = BitVec.ofNat 64 (a / b) := by
  rw [BitVec.sdiv_eq, msb_ofNat_small a ha, msb_ofNat_small b hb]
  apply BitVec.eq_of_toNat_eq
  simp only [BitVec.udiv_eq, BitVec.toNat_udiv]
  rw [toNat_ofNat_lt a (by omega), toNat_ofNat_lt b (by omega), toNat_ofNat_lt]
  exact Nat.lt_of_le_of_lt (Nat.div_le_self a b) (by omega)

end Iota.Tie.Base32Code
