/-
Tie for C10: facts regenerated from pkg/bip32path/path.go.
`parseBase = 10` is what makes "the digits are read as decimal" true of the source: with
`strconv.ParseUint(s, 0, 31)` (base-sensing: "010" is octal 8, "08" a syntax error) the model
`decValue` is NOT what the code computes — finding F3, repaired by a `fix:` commit.
-/
import Iota.Gen.Bip32Path
import Iota.Tie.Expect
import Iota.Model.Bip32Path

namespace Iota.Tie.C10
open Iota

theorem parse_base_is_decimal : Gen.Bip32Path.parseBase = 10 := by decide
theorem parse_bit_size : Gen.Bip32Path.parseBitSize = 31 := by decide
theorem hardened_eq : Gen.Bip32Path.hardened = (Bip32Path.hardened : Int) := by decide
/-- the component regexp is `(\d+)([H']?)` -/
theorem key_regexp : Gen.Bip32Path.keyRegexp = [40,92,100,43,41,40,91,72,39,93,63,41] := by decide
theorem separators : Gen.Bip32Path.trimPrefix = [109, 47] ∧ Gen.Bip32Path.splitSep = [47] := by decide
/-- String prints "/%d" of `idx&^hardened` -/
theorem print_format : Gen.Bip32Path.printFormat = [47, 37, 100] ∧
    Gen.Bip32Path.printArg = [105, 100, 120, 32, 38, 94, 32, 104, 97, 114, 100, 101, 110, 101, 100] := by decide

theorem src :
    Gen.Bip32Path.src_bip32path_ParsePath = Expect.Bip32Path_src_bip32path_ParsePath ∧
    Gen.Bip32Path.src_bip32path_Path_String = Expect.Bip32Path_src_bip32path_Path_String ∧
    Gen.Bip32Path.src_bip32path_Path_MarshalText = Expect.Bip32Path_src_bip32path_Path_MarshalText ∧
    Gen.Bip32Path.src_bip32path_Path_UnmarshalText = Expect.Bip32Path_src_bip32path_Path_UnmarshalText ∧
    Gen.Bip32Path.src_bip32path_parseUint31 = Expect.Bip32Path_src_bip32path_parseUint31 :=
  ⟨rfl, rfl, rfl, rfl, rfl⟩

/-- everything else the package declares (imports, constants, types, variables, build constraints and the functions not
pinned one by one) is unchanged too: no declaration of the modelled packages can change without a tie theorem failing. -/
theorem rest :
    Gen.Bip32Path.rest_bip32path = Expect.Bip32Path_rest_bip32path :=
  rfl

end Iota.Tie.C10
