/-
Tie for C10: facts regenerated from pkg/bip32path/path.go.
`parseBase = 10` is what makes "the digits are read as decimal" true of the source: with
`strconv.ParseUint(s, 0, 31)` (base-sensing: "010" is octal 8, "08" a syntax error) the model
`decValue` is NOT what the code computes — finding F3, repaired by a `fix:` commit.

The functions `parseUint31`, `ParsePath` and `Path.String` are translated AS CODE (`Gen.Bip32Path.code.*`) and proved equal
to the model for all inputs in `Iota/Tie/Bip32PathCode.lean`; the theorems `code_*` below re-export the results.  What is
assumed about the two library functions the code calls (`keyReg.FindStringSubmatch`, `strconv.ParseUint`) is the
structure `Bip32PathCode.Externs`.
-/
import Iota.Gen.Bip32Path
import Iota.Tie.Expect
import Iota.Model.Bip32Path
import Iota.Tie.Bip32PathCode

namespace Iota.Tie.C10
open Iota
open Iota.Tie.Bech32Code (bv)

theorem parse_base_is_decimal : Gen.Bip32Path.parseBase = 10 := by decide
theorem parse_bit_size : Gen.Bip32Path.parseBitSize = 31 := by decide
theorem hardened_eq : Gen.Bip32Path.hardened = (Bip32Path.hardened : Int) := by decide
/-- the component regexp is `(\d+)([H']?)` -/
theorem key_regexp : Gen.Bip32Path.keyRegexp = [40,92,100,43,41,40,91,72,39,93,63,41] := by decide
theorem separators : Gen.Bip32Path.trimPrefix = [109, 47] ∧ Gen.Bip32Path.splitSep = [47] := by decide
/-- String prints with the format "/%d" (what is printed — `idx &^ hardened` — is part of the translated code: `code_path_string`;
the source text of that argument is no longer pinned, so that renaming the loop variable raises no alarm: control C10-h8) -/
theorem print_format : Gen.Bip32Path.printFormat = [47, 37, 100] := by decide

theorem src :
    Gen.Bip32Path.src_bip32path_Path_MarshalText = Expect.Bip32Path_src_bip32path_Path_MarshalText ∧
    Gen.Bip32Path.src_bip32path_Path_UnmarshalText = Expect.Bip32Path_src_bip32path_Path_UnmarshalText :=
  ⟨rfl, rfl⟩

/-- everything else the package declares (imports, constants, types, variables, build constraints and the functions not
pinned one by one) is unchanged too: no declaration of the modelled packages can change without a tie theorem failing. -/
theorem rest :
    Gen.Bip32Path.rest_bip32path = Expect.Bip32Path_rest_bip32path :=
  rfl

/-! ### the code tie (proofs in `Iota/Tie/Bip32PathCode.lean`) -/

/-- **The Go function `ParsePath`, translated statement by statement, returns what the model's `parsePath` returns — the
function C10 is proved about — for EVERY byte string `s` (no bound on its length) and every pair of library functions
that behave as `Bip32PathCode.Externs` says (`FindStringSubmatch` = leftmost-first match of `(\d+)([H']?)`;
`ParseUint(digits, 10, 31)` = the decimal value if it is below 2^31, else an error): where the model accepts with
indices `p` the code returns `(p, nil)`, each index as a `uint32`; where the model rejects, the code returns `(nil, err)`
with a non-nil error.** -/
theorem code_parsePath (E : Bip32PathCode.Externs) (s : Bip32Path.Str) :
    (∀ p, Bip32Path.parsePath s = some p →
      Gen.Bip32Path.code.ParsePath E.findStringSubmatch E.parseUint (bv s) = some (p.map (BitVec.ofNat 32), none)) ∧
    (Bip32Path.parsePath s = none →
      ∃ e, Gen.Bip32Path.code.ParsePath E.findStringSubmatch E.parseUint (bv s) = some ([], some e)) :=
  Bip32PathCode.ParsePath_eq E s

/-- **Which error: `ErrInvalidPathFormat` when the first component the model rejects fails the shape test
`digit+ [H']?`, otherwise (its digits are worth 2^31 or more) the error `strconv.ParseUint` returned** — this is
`Bip32PathCode.pathErr` (`pathErr_eq`, `keyErr_format`, `keyErr_range`). -/
theorem code_parsePath_error (E : Bip32PathCode.Externs) (s : Bip32Path.Str) (h : Bip32Path.parsePath s = none) :
    Gen.Bip32Path.code.ParsePath E.findStringSubmatch E.parseUint (bv s) =
      some ([], some (Bip32PathCode.pathErr E (Bip32Path.split (Bip32Path.trimPrefixM s)))) :=
  Bip32PathCode.ParsePath_error E s h

/-- **The Go function `ParsePath` never panics: not for any string, and not even for library functions that misbehave**
(any two functions in the place of `FindStringSubmatch` and `ParseUint`): each of `matches[0]`, `matches[1]`,
`matches[2]` is evaluated only after a test of `len(matches)` that makes it in range. -/
theorem code_parsePath_never_panics (find : List (BitVec 8) → List (List (BitVec 8)))
    (pu : List (BitVec 8) → BitVec 64 → BitVec 64 → (BitVec 64 × Option String)) (s : List (BitVec 8)) :
    Gen.Bip32Path.code.ParsePath find pu s ≠ none :=
  Bip32PathCode.ParsePath_never_panics_any find pu s

/-- **The Go method `Path.String`, translated statement by statement, prints the model's `printPath`, for every list of
32-bit indices** (`%d` of `idx &^ hardened`, an apostrophe when `idx >= hardened`). -/
theorem code_path_string (p : List Nat) (hp : ∀ i ∈ p, i < 2 ^ 32) :
    Gen.Bip32Path.code.Path_String (p.map (BitVec.ofNat 32)) = bv (Bip32Path.printPath p) :=
  Bip32PathCode.Path_String_eq p hp

/-- **The assumptions about the two library functions are satisfiable** (the model's own functions satisfy them), so the
theorems above are not vacuous. -/
theorem code_externs_satisfiable : Nonempty Bip32PathCode.Externs := Bip32PathCode.externs_satisfiable

end Iota.Tie.C10
