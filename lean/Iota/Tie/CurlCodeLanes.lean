/-
Code tie for the lane functions of pkg/curl (curl.go): `bool2int`, `sBox`, `Curl.in`, `Curl.out`, `Curl.Reset`,
`Curl.CopyState`, translated AS CODE by cmd/extract into `Iota/Gen/Curl.lean` (namespace `Gen.Curl.code`;
`none` = run-time panic), against the model of `Iota/Model/Curl.lean`.
-/
import Iota.Gen.Curl
import Iota.Model.Curl
import Iota.Tie.GoFlow

namespace Iota.Tie.CurlCodeLanes
open Iota Iota.Go

/-! ### generic lemmas: index lists, loops that write `a[i]` for `i = 0 … n-1` -/

theorem idx_list (n : Nat) (hn0 : 0 < n) (hn : n < 2 ^ 63) :
    forUp true false 0#64 (BitVec.ofNat 64 n) 1 = (List.range n).map (BitVec.ofNat 64) := by
  have h := forUp_int false 0 n 1 (by simpa using hn0) hn
  simp only [Bool.false_eq_true, if_false, Nat.sub_zero, Nat.add_sub_cancel, Nat.div_one, Nat.mul_one,
    Nat.zero_add] at h
  exact h

theorem toNat_idx {k : Nat} (hk : k < 729) : (BitVec.ofNat 64 k).toNat = k := by
  rw [BitVec.toNat_ofNat]; omega

theorem inRangeS_idx {k n : Nat} (hk : k < 729) (hn : k < n) : inRangeS (BitVec.ofNat 64 k) n = true := by
  have h := toNat_idx hk
  simp only [inRangeS, BitVec.msb_eq_decide, h, Bool.and_eq_true, Bool.not_eq_true', decide_eq_false_iff_not,
    decide_eq_true_eq]
  omega

theorem forIn_map {α β ρ σ : Type} (φ : α → β) (l : List α) (s : σ) (f : σ → β → Flow ρ σ) :
    forIn (l.map φ) s f = forIn l s (fun s a => f s (φ a)) := by
  induction l generalizing s with
  | nil => rfl
  | cons a l ih =>
    simp only [List.map_cons, forIn_cons]
    cases f s (φ a) <;> simp [ih]

/-- a loop over the indices `0 … n-1` whose body never panics or returns is a fold over `List.range n` -/
theorem forIn_range {ρ σ : Type} (n : Nat) (s : σ) (f : σ → BitVec 64 → Flow ρ σ) (g : σ → Nat → σ)
    (h : ∀ s, ∀ k < n, f s (BitVec.ofNat 64 k) = .run (g s k)) :
    forIn ((List.range n).map (BitVec.ofNat 64)) s f = .run ((List.range n).foldl g s) := by
  rw [forIn_map]
  exact forIn_eq_foldl _ s _ g (fun s k hk => h s k (List.mem_range.mp hk))

theorem foldl_pair {α β γ : Type} (f : α → γ → α) (g : β → γ → β) (l : List γ) (a : α) (b : β) :
    l.foldl (fun (st : α × β) i => (f st.1 i, g st.2 i)) (a, b) = (l.foldl f a, l.foldl g b) := by
  induction l generalizing a b with
  | nil => rfl
  | cons x l ih => simp only [List.foldl_cons, ih]

/-- the assignment `a[k] = g(k, a[k])` -/
def upd {α : Type} (d : α) (g : Nat → α → α) (acc : List α) (k : Nat) : List α := acc.set k (g k (acc.getD k d))

/-- `for i := 0; i < n; i++ { a[i] = g(i, a[i]) }` (n ≤ len a): the entries below `n` are updated, the others unchanged -/
theorem foldl_set_getD {α : Type} (d : α) (g : Nat → α → α) (xs : List α) :
    ∀ n, n ≤ xs.length →
      (List.range n).foldl (upd d g) xs =
        (List.range xs.length).map (fun i => if i < n then g i (xs.getD i d) else xs.getD i d) := by
  intro n
  induction n with
  | zero =>
    intro _
    apply List.ext_getElem
    · simp
    · intro i h1 h2
      have hi : i < xs.length := by simpa using h2
      simp [List.getD_eq_getElem?_getD, hi]
  | succ n ih =>
    intro hn
    rw [List.range_succ, List.foldl_append, ih (by omega)]
    simp only [List.foldl_cons, List.foldl_nil, upd]
    apply List.ext_getElem
    · simp
    · intro i h1 h2
      have hi : i < xs.length := by simpa using h2
      simp only [List.getElem_set, List.getElem_map, List.getElem_range]
      by_cases hin : n = i
      · subst hin
        simp [List.getD_eq_getElem?_getD, hi]
      · rw [if_neg hin]
        have : (i < n + 1) = (i < n) := by
          apply propext; omega
        simp only [this]

theorem getD_toList (v : Curl.Plane) {i : Nat} (hi : i < 729) : v.toList.getD i 0#64 = v[i] := by
  simp [List.getD_eq_getElem?_getD, hi]

/-! ### `bool2int`, `sBox` -/

theorem bool2int_eq (b : Bool) : Gen.Curl.code.bool2int b = Curl.bool2int b := by
  cases b <;> rfl

theorem sBox_eq (aL aH bL bH : BitVec 64) : Gen.Curl.code.sBox aL aH bL bH = Curl.sBox aL aH bL bH := rfl

theorem lane_toNat (idx : BitVec 64) : (idx &&& 63#64).toNat = idx.toNat % 64 := by
  rw [BitVec.toNat_and]
  exact Nat.and_two_pow_sub_one_eq_mod idx.toNat 6

/-! ### `Curl.in` -/

abbrev P2 := List (BitVec 64) × List (BitVec 64)

/-- the loop body, as generated -/
def inStep (src : List (BitVec 8)) (m : BitVec 64) (st_1 : P2) (i : BitVec 64) : Flow P2 P2 :=
      let c_l : List (BitVec 64) := st_1.1
      let c_h : List (BitVec 64) := st_1.2
      if !(Go.inRangeS i src.length) then Go.Flow.panic else
      let s : BitVec 8 := (src.getD i.toNat 0#8)
      if !(Go.inRangeS i 729) then Go.Flow.panic else
      let c_l : List (BitVec 64) := (c_l.set i.toNat ((c_l.getD i.toNat 0#64) &&& ((Gen.Curl.code.bool2int (BitVec.sle s 0#8)) ||| m)))
      if !(Go.inRangeS i 729) then Go.Flow.panic else
      let c_h : List (BitVec 64) := (c_h.set i.toNat ((c_h.getD i.toNat 0#64) &&& ((Gen.Curl.code.bool2int (BitVec.sle 0#8 s)) ||| m)))
      Go.Flow.run (c_l, c_h)

theorem Curl_in_unfold (c_l c_h : List (BitVec 64)) (src : List (BitVec 8)) (idx : BitVec 64) :
    Gen.Curl.code.Curl_in c_l c_h src idx =
      Flow.result (if !(decide (243 ≤ src.length)) then Flow.panic else
        Flow.bind (Go.forIn (Go.forUp true false 0#64 243#64 1) (c_l, c_h)
            (inStep (src.take 243) (~~~(1#64 <<< (idx &&& 63#64).toNat))))
          (fun st_1 => Flow.done (st_1.1, st_1.2))) := rfl

theorem inStep_run (src : List (BitVec 8)) (m : BitVec 64) (hs : src.length = 243) (st : P2) (k : Nat) (hk : k < 243) :
    inStep src m st (BitVec.ofNat 64 k) = .run
      (upd 0#64 (fun k x => x &&& (Curl.bool2int (BitVec.sle (src.getD k 0#8) 0#8) ||| m)) st.1 k,
       upd 0#64 (fun k x => x &&& (Curl.bool2int (BitVec.sle 0#8 (src.getD k 0#8)) ||| m)) st.2 k) := by
  have h1 : inRangeS (BitVec.ofNat 64 k) src.length = true := inRangeS_idx (by omega) (by omega)
  have h2 : inRangeS (BitVec.ofNat 64 k) 729 = true := inRangeS_idx (by omega) (by omega)
  have h3 : (BitVec.ofNat 64 k).toNat = k := toNat_idx (by omega)
  simp only [inStep, upd, h1, h2, h3, Bool.not_true, Bool.false_eq_true, if_false, bool2int_eq]

/-- one plane after the loop of `in` -/
theorem in_plane (p : Curl.Plane) (src : List (BitVec 8)) (hs : 243 ≤ src.length) (m : BitVec 64)
    (cmp : BitVec 8 → Bool) (cmpI : Int → Bool) (hc : ∀ s, cmp s = cmpI s.toInt) :
    (List.range 243).foldl (upd 0#64 (fun k x => x &&&
        (Curl.bool2int (cmp ((src.take 243).getD k 0#8)) ||| m))) p.toList =
      (Vector.ofFn fun (i : Fin 729) =>
        if i.val < 243 then p[i] &&& (Curl.bool2int (cmpI ((src.map (·.toInt)).getD i.val 0)) ||| m) else p[i]).toList := by
  rw [foldl_set_getD 0#64 (fun k x => x &&& (Curl.bool2int (cmp ((src.take 243).getD k 0#8)) ||| m)) p.toList 243
    (by simp)]
  apply List.ext_getElem
  · simp
  · intro i h1 h2
    have hi : i < 729 := by simpa using h1
    simp only [List.getElem_map, List.getElem_range, Vector.getElem_toList, Vector.getElem_ofFn,
      getD_toList p hi, Fin.getElem_fin]
    by_cases h : i < 243
    · rw [if_pos h, if_pos h]
      have hsrc : i < src.length := by omega
      have e1 : (src.take 243).getD i 0#8 = src[i] := by
        simp [List.getD_eq_getElem?_getD, h, hsrc]
      have e2 : (src.map (·.toInt)).getD i 0 = src[i].toInt := by
        simp [List.getD_eq_getElem?_getD, hsrc]
      rw [e1, e2, hc]
    · rw [if_neg h, if_neg h]

/-- `c.in(src, idx)`: panics exactly when src has fewer than 243 trits; otherwise the two planes are the model's `inLane`
(lane number idx mod 64; trits read as signed bytes) -/
theorem in_eq (l h : Curl.Plane) (src : List (BitVec 8)) (idx : BitVec 64) :
    Gen.Curl.code.Curl_in l.toList h.toList src idx =
      if 243 ≤ src.length then
        some ((Curl.inLane l h (src.map (·.toInt)) (idx.toNat % 64)).1.toList,
              (Curl.inLane l h (src.map (·.toInt)) (idx.toNat % 64)).2.toList)
      else none := by
  rw [Curl_in_unfold]
  by_cases hs : 243 ≤ src.length
  · rw [if_pos hs]
    simp only [hs, decide_true, Bool.not_true, Bool.false_eq_true, if_false]
    rw [idx_list 243 (by decide) (by decide),
      forIn_range 243 _ _ _ (fun st k hk => inStep_run (src.take 243) _ (by simp; omega) st k hk),
      Flow.bind_run, Flow.result_done, foldl_pair,
      in_plane l src hs _ (fun s => BitVec.sle s 0#8) (fun x => decide (x ≤ 0)) (fun s => by simp [BitVec.sle]),
      in_plane h src hs _ (fun s => BitVec.sle 0#8 s) (fun x => decide (x ≥ 0)) (fun s => by simp [BitVec.sle]),
      lane_toNat]
    simp only [Curl.inLane]
    rfl
  · rw [if_neg hs]
    simp [hs]

/-! ### `Curl.out` -/

/-- the loop body, as generated -/
def outStep (c_l c_h : List (BitVec 64)) (idx : BitVec 64) (dst : List (BitVec 8)) (i : BitVec 64) :
    Flow (List (BitVec 8)) (List (BitVec 8)) :=
      if !(Go.inRangeS i dst.length) then Go.Flow.panic else
      if !(Go.inRangeS i 729) then Go.Flow.panic else
      let dst : List (BitVec 8) := (dst.set i.toNat ((BitVec.setWidth 8 (((c_h.getD i.toNat 0#64) >>> idx.toNat) &&& 1#64)) - (BitVec.setWidth 8 (((c_l.getD i.toNat 0#64) >>> idx.toNat) &&& 1#64))))
      Go.Flow.run dst

theorem Curl_out_unfold (c_l c_h : List (BitVec 64)) (dst : List (BitVec 8)) (idx : BitVec 64) :
    Gen.Curl.code.Curl_out c_l c_h dst idx =
      Flow.result (if !(decide (243 ≤ dst.length)) then Flow.panic else
        Flow.bind (Go.forIn (Go.forUp true false 0#64 243#64 1) (dst.take 243) (outStep c_l c_h (idx &&& 63#64)))
          (fun d => Flow.done (d ++ dst.drop 243))) := rfl

/-- the trit the loop of `out` writes at position `k` -/
def outVal (c_l c_h : List (BitVec 64)) (n : Nat) (k : Nat) : BitVec 8 :=
  BitVec.setWidth 8 (((c_h.getD k 0#64) >>> n) &&& 1#64) - BitVec.setWidth 8 (((c_l.getD k 0#64) >>> n) &&& 1#64)

theorem outStep_run (c_l c_h : List (BitVec 64)) (idx : BitVec 64) (dst : List (BitVec 8)) (k : Nat) (hk : k < 243)
    (hd : 243 ≤ dst.length) :
    outStep c_l c_h idx dst (BitVec.ofNat 64 k) = .run (upd 0#8 (fun k _ => outVal c_l c_h idx.toNat k) dst k) := by
  have h1 : inRangeS (BitVec.ofNat 64 k) dst.length = true := inRangeS_idx (by omega) (by omega)
  have h2 : inRangeS (BitVec.ofNat 64 k) 729 = true := inRangeS_idx (by omega) (by omega)
  have h3 : (BitVec.ofNat 64 k).toNat = k := toNat_idx (by omega)
  simp only [outStep, outVal, upd, h1, h2, h3, Bool.not_true, Bool.false_eq_true, if_false]

/-- a loop that keeps the length: the length hypothesis of the body may be the one of the initial state -/
theorem forIn_range_len {ρ α : Type} (n : Nat) (s : List α) (f : List α → BitVec 64 → Flow ρ (List α))
    (d : α) (v : Nat → α → α)
    (h : ∀ s' : List α, s'.length = s.length → ∀ k < n, f s' (BitVec.ofNat 64 k) = .run (upd d v s' k)) :
    forIn ((List.range n).map (BitVec.ofNat 64)) s f = .run ((List.range n).foldl (upd d v) s) := by
  rw [forIn_map]
  suffices H : ∀ (l : List Nat), (∀ k ∈ l, k < n) → ∀ s' : List α, s'.length = s.length →
      forIn l s' (fun s a => f s (BitVec.ofNat 64 a)) = .run (l.foldl (upd d v) s') from
    H _ (fun k hk => List.mem_range.mp hk) s rfl
  intro l
  induction l with
  | nil => intro _ s' _; rfl
  | cons a l ih =>
    intro hl s' hs'
    rw [forIn_cons, h s' hs' a (hl a (List.mem_cons_self ..)), Flow.bind_run, List.foldl_cons]
    exact ih (fun k hk => hl k (List.mem_cons_of_mem _ hk)) _ (by simpa [upd] using hs')

theorem bit_byte (w : BitVec 64) (n : Nat) :
    BitVec.setWidth 8 ((w >>> n) &&& 1#64) = if w.getLsbD n then 1#8 else 0#8 := by
  apply BitVec.eq_of_getLsbD_eq
  intro i hi
  rw [BitVec.getLsbD_setWidth, BitVec.getLsbD_and, BitVec.getLsbD_ushiftRight, BitVec.getLsbD_one]
  by_cases h0 : i = 0
  · subst h0
    cases hw : w.getLsbD n <;> simp
  · cases hw : w.getLsbD n <;> simp [h0, BitVec.getLsbD_one]

theorem outVal_eq (c : Curl.Curl) (n k : Nat) (hk : k < 243) :
    outVal c.l.toList c.h.toList n k =
      BitVec.ofInt 8 ((if (c.h.toArray.getD k 0).getLsbD n then (1 : Int) else 0) -
        (if (c.l.toArray.getD k 0).getLsbD n then (1 : Int) else 0)) := by
  have hk' : k < 729 := by omega
  have eh : c.h.toArray.getD k 0 = c.h[k] := by simp [Array.getD, hk']
  have el : c.l.toArray.getD k 0 = c.l[k] := by simp [Array.getD, hk']
  rw [outVal, bit_byte, bit_byte, getD_toList c.h hk', getD_toList c.l hk', eh, el]
  cases c.h[k].getLsbD n <;> cases c.l[k].getLsbD n <;> decide

/-- `c.out(dst, idx)`: panics exactly when dst has fewer than 243 entries; otherwise the first 243 entries become the
model's `outLane` of lane idx mod 64 and the rest of dst is untouched -/
theorem out_eq (c : Curl.Curl) (dst : List (BitVec 8)) (idx : BitVec 64) :
    Gen.Curl.code.Curl_out c.l.toList c.h.toList dst idx =
      if 243 ≤ dst.length then some ((Curl.outLane c (idx.toNat % 64)).map (BitVec.ofInt 8) ++ dst.drop 243) else none := by
  rw [Curl_out_unfold]
  by_cases hs : 243 ≤ dst.length
  · rw [if_pos hs]
    simp only [hs, decide_true, Bool.not_true, Bool.false_eq_true, if_false]
    have hlen : (dst.take 243).length = 243 := by simp; omega
    rw [idx_list 243 (by decide) (by decide),
      forIn_range_len 243 _ _ 0#8 (fun k _ => outVal c.l.toList c.h.toList (idx &&& 63#64).toNat k)
        (fun s' hs' k hk => outStep_run _ _ _ s' k hk (by omega)),
      Flow.bind_run, Flow.result_done,
      foldl_set_getD 0#8 (fun k _ => outVal c.l.toList c.h.toList (idx &&& 63#64).toNat k) _ 243 (by omega),
      hlen, lane_toNat]
    congr 2
    rw [Curl.outLane, List.map_map]
    apply List.map_congr_left
    intro k hk
    have hk' : k < 243 := List.mem_range.mp hk
    simp only [if_pos hk', Function.comp]
    exact outVal_eq c _ k hk'
  · rw [if_neg hs]
    simp [hs]

/-- the values are trits, so nothing is lost in the 8-bit representation -/
theorem outLane_trits (c : Curl.Curl) (k : Nat) :
    ∀ x ∈ Curl.outLane c k, (x = -1 ∨ x = 0 ∨ x = 1) ∧ (BitVec.ofInt 8 x).toInt = x := by
  intro x hx
  rw [Curl.outLane, List.mem_map] at hx
  obtain ⟨i, _, rfl⟩ := hx
  cases (c.h.toArray.getD i 0).getLsbD k <;> cases (c.l.toArray.getD i 0).getLsbD k <;> decide

/-! ### `Reset` -/

/-- the loop body, as generated -/
def resetStep (st_1 : P2) (i : BitVec 64) : Flow (List (BitVec 64) × List (BitVec 64) × BitVec 64) P2 :=
      let c_l : List (BitVec 64) := st_1.1
      let c_h : List (BitVec 64) := st_1.2
      let st_2 : BitVec 64 := 18446744073709551615#64
      let st_3 : BitVec 64 := 18446744073709551615#64
      if !(Go.inRangeS i 729) then Go.Flow.panic else
      let c_l : List (BitVec 64) := (c_l.set i.toNat st_2)
      if !(Go.inRangeS i 729) then Go.Flow.panic else
      let c_h : List (BitVec 64) := (c_h.set i.toNat st_3)
      Go.Flow.run (c_l, c_h)

theorem Curl_Reset_unfold (c_l c_h : List (BitVec 64)) (d : BitVec 64) :
    Gen.Curl.code.Curl_Reset c_l c_h d =
      Flow.result (Flow.bind (Go.forIn (Go.forUp true false 0#64 729#64 1) (c_l, c_h) resetStep)
        (fun st_1 => Flow.done (st_1.1, st_1.2, 0#64))) := rfl

theorem resetStep_run (st : P2) (k : Nat) (hk : k < 729) :
    resetStep st (BitVec.ofNat 64 k) =
      .run (upd 0#64 (fun _ _ => Curl.allOnes) st.1 k, upd 0#64 (fun _ _ => Curl.allOnes) st.2 k) := by
  have h2 : inRangeS (BitVec.ofNat 64 k) 729 = true := inRangeS_idx hk hk
  have h3 : (BitVec.ofNat 64 k).toNat = k := toNat_idx hk
  simp only [resetStep, upd, h2, h3, Bool.not_true, Bool.false_eq_true, if_false]
  rfl

theorem reset_plane (l : List (BitVec 64)) (hl : l.length = 729) :
    (List.range 729).foldl (upd 0#64 (fun _ _ => Curl.allOnes)) l = Curl.onesPlane.toList := by
  rw [foldl_set_getD 0#64 (fun _ _ => Curl.allOnes) l 729 (by omega), hl]
  apply List.ext_getElem
  · simp only [List.length_map, List.length_range, Vector.length_toList]
  · intro i h1 h2
    have hi : i < 729 := by simpa only [List.length_map, List.length_range] using h1
    simp only [List.getElem_map, List.getElem_range, if_pos hi, Curl.onesPlane, Vector.getElem_toList,
      Vector.getElem_replicate]

/-- `Reset`: never panics (on planes of the right length), both planes all ones, direction = 0 = SpongeAbsorbing -/
theorem reset_eq (l h : List (BitVec 64)) (hl : l.length = 729) (hh : h.length = 729) (d : BitVec 64) :
    Gen.Curl.code.Curl_Reset l h d = some (Curl.init.l.toList, Curl.init.h.toList, 0#64) := by
  rw [Curl_Reset_unfold, idx_list 729 (by decide) (by decide),
    forIn_range 729 _ _ _ (fun st k hk => resetStep_run st k hk),
    Flow.bind_run, Flow.result_done, foldl_pair, reset_plane l hl, reset_plane h hh]
  rfl

/-! ### `CopyState` -/

/-- `CopyState(l, h)`: Go's copy semantics; with 729-word destinations exactly the two planes -/
theorem copyState_eq (c : Curl.Curl) (l h : List (BitVec 64)) :
    Gen.Curl.code.Curl_CopyState c.l.toList c.h.toList l h =
      (c.l.toList.take l.length ++ l.drop 729, c.h.toList.take h.length ++ h.drop 729) := by
  simp only [Gen.Curl.code.Curl_CopyState, Go.copy, Vector.length_toList]

theorem copyState_full (c : Curl.Curl) (l h : List (BitVec 64)) (hl : l.length = 729) (hh : h.length = 729) :
    Gen.Curl.code.Curl_CopyState c.l.toList c.h.toList l h = (c.copyState.1.toList, c.copyState.2.toList) := by
  rw [copyState_eq, hl, hh, List.drop_of_length_le (by omega), List.drop_of_length_le (by omega),
    List.take_of_length_le (by simp), List.take_of_length_le (by simp)]
  simp [Curl.Curl.copyState]

end Iota.Tie.CurlCodeLanes
