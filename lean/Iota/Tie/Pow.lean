/-
Tie shared by C11, C12 (and C13): facts regenerated from pkg/pow and pkg/pow/v2 — constants, the
translated `tritToUint`, and the source snapshots of Score / Mine / worker / the lane tests.
The batched sponge the workers use is iota.go's curl/bct, an external dependency (not pkg/curl).
-/
import Iota.Gen.Pow
import Iota.Tie.Expect
import Iota.Model.Pow
import Iota.Tie.PowCode
import Iota.Proofs.Vectors.Curl
import Iota.Proofs.Vectors.Hash

namespace Iota.Tie.Pow
open Iota

def hexNat (s : String) : Nat :=
  s.toList.foldl (fun acc c =>
    acc * 16 + (if '0' ≤ c ∧ c ≤ '9' then c.toNat - 48 else if 'a' ≤ c ∧ c ≤ 'f' then c.toNat - 87 else 0)) 0

theorem constants :
    Gen.Pow.nonceBytesV1 = 8 ∧ Gen.Pow.nonceBytesV2 = 8 ∧ Gen.Pow.tritsPerUint64 = 40 := by decide

theorem maxHash_eq : hexNat Gen.Pow.maxHashHex = Pow.maxHash := by decide +kernel

theorem uint64Radix_eq : Gen.Pow.uint64RadixSrc = "new(big.Int).SetUint64(12157665459056928801)" ∧
    Pow.uint64Radix = 12157665459056928801 := ⟨rfl, rfl⟩

/-- the translated `tritToUint` on the three trit values -/
theorem tritToUint_eq :
    (Gen.Pow.tritToUint (BitVec.ofInt 8 (-1))).toNat = Pow.tritToUint (-1) ∧
    (Gen.Pow.tritToUint (BitVec.ofInt 8 0)).toNat = Pow.tritToUint 0 ∧
    (Gen.Pow.tritToUint (BitVec.ofInt 8 1)).toNat = Pow.tritToUint 1 := by decide

/-- v1 `checkStateTrits` is not pinned by text any more: it is translated as code and tied to the model for all
inputs in `Iota/Tie/PowCode.lean`. -/
theorem src :
    Gen.Pow.src_pow_Score = Expect.Pow_src_pow_Score ∧
    Gen.Pow.src_pow_trailingZeros = Expect.Pow_src_pow_trailingZeros ∧
    Gen.Pow.src_pow_encodeNonce = Expect.Pow_src_pow_encodeNonce ∧
    Gen.Pow.src_pow_New = Expect.Pow_src_pow_New ∧
    Gen.Pow.src_pow_Worker_Mine = Expect.Pow_src_pow_Worker_Mine ∧
    Gen.Pow.src_pow_Worker_worker = Expect.Pow_src_pow_Worker_worker ∧
    Gen.Pow.src_v2_Score = Expect.Pow_src_v2_Score ∧
    Gen.Pow.src_v2_difficulty = Expect.Pow_src_v2_difficulty ∧
    Gen.Pow.src_v2_encodeNonce = Expect.Pow_src_v2_encodeNonce ∧
    Gen.Pow.src_v2_toInt = Expect.Pow_src_v2_toInt ∧
    Gen.Pow.src_v2_tritToUint = Expect.Pow_src_v2_tritToUint ∧
    Gen.Pow.src_v2_hexToInt = Expect.Pow_src_v2_hexToInt ∧
    Gen.Pow.src_v2_New = Expect.Pow_src_v2_New ∧
    Gen.Pow.src_v2_Worker_Mine = Expect.Pow_src_v2_Worker_Mine ∧
    Gen.Pow.src_v2_sufficientTrailingZeros = Expect.Pow_src_v2_sufficientTrailingZeros ∧
    Gen.Pow.src_v2_targetHash = Expect.Pow_src_v2_targetHash ∧
    Gen.Pow.src_v2_Worker_worker = Expect.Pow_src_v2_Worker_worker ∧
    Gen.Pow.src_v2_checkStateTrits = Expect.Pow_src_v2_checkStateTrits ∧
    Gen.Pow.src_v2_stateToInt = Expect.Pow_src_v2_stateToInt :=
  ⟨rfl, rfl, rfl, rfl, rfl, rfl, rfl, rfl, rfl, rfl, rfl, rfl, rfl, rfl, rfl, rfl, rfl, rfl, rfl⟩

/-- everything else the package declares (imports, constants, types, variables, build constraints and the functions not
pinned one by one) is unchanged too: no declaration of the modelled packages can change without a tie theorem failing. -/
theorem rest :
    Gen.Pow.rest_pow = Expect.Pow_rest_pow ∧
    Gen.Pow.rest_powv2 = Expect.Pow_rest_powv2 :=
  ⟨rfl, rfl⟩

/-! ### v1 `checkStateTrits` translated AS CODE (three-clause loop, checked array indexing, `bits.TrailingZeros`)
= the model's lane test, for all planes; `none` would be a Go run-time panic (proofs: `Iota/Tie/PowCode.lean`). -/
theorem code_checkStateTrits_v1 (l h : Pow.Planes) (n : Nat) (hn : n ≤ 243) :
    Gen.Pow.v1.checkStateTrits l.toList h.toList (BitVec.ofNat 64 n) = some (BitVec.ofNat 64 (Pow.checkV1 l h n)) :=
  Iota.Tie.PowCode.checkStateTrits_eq l h n hn
/-- for n > 243 the subtraction wraps, the loop does not run and lane 0 is reported whatever the state (the caller
`worker` panics on such an n before getting here, and `Mine` no longer produces one: fix F9) -/
theorem code_checkStateTrits_v1_large (l h : List (BitVec 64)) (n : BitVec 64) (hn : 243 < n.toNat) :
    Gen.Pow.v1.checkStateTrits l h n = some 0#64 := Iota.Tie.PowCode.checkStateTrits_large l h n hn

end Iota.Tie.Pow
