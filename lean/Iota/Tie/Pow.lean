/-
Tie shared by C11, C12 (and C13): facts regenerated from pkg/pow and pkg/pow/v2 — constants, the
translated `tritToUint`, and the source snapshots of Score / Mine / worker / the lane tests.
The batched sponge the workers use is iota.go's curl/bct, an external dependency (not pkg/curl).
-/
import Iota.Gen.Pow
import Iota.Tie.Expect
import Iota.Model.Pow
import Iota.Tie.PowCode
import Iota.Tie.PowV2Code
import Iota.Proofs.Vectors.Curl
import Iota.Proofs.Vectors.Hash

namespace Iota.Tie.Pow
open Iota

def hexNat (s : String) : Nat :=
  s.toList.foldl (fun acc c =>
    acc * 16 + (if '0' ≤ c ∧ c ≤ '9' then c.toNat - 48 else if 'a' ≤ c ∧ c ≤ 'f' then c.toNat - 87 else 0)) 0

theorem constants :
    Gen.Pow.nonceBytesV1 = 8 ∧ Gen.Pow.nonceBytesV2 = 8 ∧ Gen.Pow.tritsPerUint64 = 40 := by decide

theorem maxHash_eq : hexNat Gen.Pow.maxHashHex = Pow.maxHash := by decide +kernel

theorem uint64Radix_eq : Gen.Pow.uint64RadixSrc = "new(big.Int).SetUint64(12157665459056928801)" ∧
    Pow.uint64Radix = 12157665459056928801 := ⟨rfl, rfl⟩

/-- the translated `tritToUint` on the three trit values -/
theorem tritToUint_eq :
    (Gen.Pow.tritToUint (BitVec.ofInt 8 (-1))).toNat = Pow.tritToUint (-1) ∧
    (Gen.Pow.tritToUint (BitVec.ofInt 8 0)).toNat = Pow.tritToUint 0 ∧
    (Gen.Pow.tritToUint (BitVec.ofInt 8 1)).toNat = Pow.tritToUint 1 := by decide

/-- v1 `checkStateTrits` is not pinned by text any more: it is translated as code and tied to the model for all
inputs in `Iota/Tie/PowCode.lean`; neither are v2 `sufficientTrailingZeros`, `targetHash`, `tritToUint`, `toInt` and
`stateToInt` (stage 14, `Iota/Tie/PowV2Code.lean`). -/
theorem src :
    Gen.Pow.src_pow_Score = Expect.Pow_src_pow_Score ∧
    Gen.Pow.src_pow_trailingZeros = Expect.Pow_src_pow_trailingZeros ∧
    Gen.Pow.src_pow_encodeNonce = Expect.Pow_src_pow_encodeNonce ∧
    Gen.Pow.src_pow_New = Expect.Pow_src_pow_New ∧
    Gen.Pow.src_pow_Worker_Mine = Expect.Pow_src_pow_Worker_Mine ∧
    Gen.Pow.src_pow_Worker_worker = Expect.Pow_src_pow_Worker_worker ∧
    Gen.Pow.src_v2_Score = Expect.Pow_src_v2_Score ∧
    Gen.Pow.src_v2_difficulty = Expect.Pow_src_v2_difficulty ∧
    Gen.Pow.src_v2_encodeNonce = Expect.Pow_src_v2_encodeNonce ∧
    Gen.Pow.src_v2_hexToInt = Expect.Pow_src_v2_hexToInt ∧
    Gen.Pow.src_v2_New = Expect.Pow_src_v2_New ∧
    Gen.Pow.src_v2_Worker_Mine = Expect.Pow_src_v2_Worker_Mine ∧
    Gen.Pow.src_v2_Worker_worker = Expect.Pow_src_v2_Worker_worker ∧
    Gen.Pow.src_v2_checkStateTrits = Expect.Pow_src_v2_checkStateTrits :=
  ⟨rfl, rfl, rfl, rfl, rfl, rfl, rfl, rfl, rfl, rfl, rfl, rfl, rfl, rfl⟩

/-- everything else the package declares (imports, constants, types, variables, build constraints and the functions not
pinned one by one) is unchanged too: no declaration of the modelled packages can change without a tie theorem failing. -/
theorem rest :
    Gen.Pow.rest_pow = Expect.Pow_rest_pow ∧
    Gen.Pow.rest_powv2 = Expect.Pow_rest_powv2 :=
  ⟨rfl, rfl⟩

/-! ### v1 `checkStateTrits` translated AS CODE (three-clause loop, checked array indexing, `bits.TrailingZeros`)
= the model's lane test, for all planes; `none` would be a Go run-time panic (proofs: `Iota/Tie/PowCode.lean`). -/
theorem code_checkStateTrits_v1 (l h : Pow.Planes) (n : Nat) (hn : n ≤ 243) :
    Gen.Pow.v1.checkStateTrits l.toList h.toList (BitVec.ofNat 64 n) = some (BitVec.ofNat 64 (Pow.checkV1 l h n)) :=
  Iota.Tie.PowCode.checkStateTrits_eq l h n hn
/-- for n > 243 the subtraction wraps, the loop does not run and lane 0 is reported whatever the state (the caller
`worker` panics on such an n before getting here, and `Mine` no longer produces one: fix F9) -/
theorem code_checkStateTrits_v1_large (l h : List (BitVec 64)) (n : BitVec 64) (hn : 243 < n.toNat) :
    Gen.Pow.v1.checkStateTrits l h n = some 0#64 := Iota.Tie.PowCode.checkStateTrits_large l h n hn

/-! ### v2 `sufficientTrailingZeros` and `targetHash` translated AS CODE (stage 14: division by a non-constant, `panic`,
a three-clause loop with two init variables and an early return, `big.Int` SetUint64 / Mul / Add / Quo, the package-level
constants `one` and `maxHash = hexToInt("…")`) = the model, for all inputs, the panic included (proofs: `Iota/Tie/PowV2Code.lean`). -/
theorem code_sufficientTrailingZeros_v2_panic (data : List (BitVec 8)) (t : BitVec 64) (hlen : data.length < 2 ^ 62)
    (hov : 2 ^ 64 ≤ (data.length + 8) * t.toNat) :
    Gen.Pow.v2code.sufficientTrailingZeros data t = none :=
  Iota.Tie.PowV2Code.sufficientTrailingZeros_panic data t hlen hov
theorem code_sufficientTrailingZeros_v2 (data : List (BitVec 8)) (t : BitVec 64) (hlen : data.length < 2 ^ 62)
    (hov : (data.length + 8) * t.toNat < 2 ^ 64) :
    Gen.Pow.v2code.sufficientTrailingZeros data t =
      some (BitVec.ofNat 64 (Pow.sufficientTrailingZeros ((data.length + 8) * t.toNat))) :=
  Iota.Tie.PowV2Code.sufficientTrailingZeros_eq data t hlen hov
theorem code_targetHash_v2 (data : List (BitVec 8)) (t : BitVec 64) (hlen : data.length < 2 ^ 62) :
    Gen.Pow.v2code.targetHash data t = some ((Pow.targetHash ((data.length + 8) * t.toNat) : Nat) : Int) :=
  Iota.Tie.PowV2Code.targetHash_eq data t hlen

/-- v2 `toInt` (and its callee `tritToUint`) AS CODE: a `[]int8` of 243 balanced trits ↦ the model's value, no panic, no
wrap-around of the uint64 chunk values (`PowV2Code.chunk_loop`: each stays below 3^40); any other length panics -/
theorem code_toInt_v2 (trits : List (BitVec 8)) (hlen : trits.length = 243)
    (htr : ∀ t ∈ trits, t = BitVec.ofInt 8 (-1) ∨ t = 0#8 ∨ t = 1#8) :
    Gen.Pow.v2code.toInt trits = some ((Pow.toInt (trits.map BitVec.toInt) : Nat) : Int) :=
  Iota.Tie.PowV2Code.toInt_eq trits hlen htr
theorem code_toInt_v2_panic (trits : List (BitVec 8)) (hlen : trits.length ≠ 243) (hlt : trits.length < 2 ^ 64) :
    Gen.Pow.v2code.toInt trits = none := Iota.Tie.PowV2Code.toInt_panic trits hlen hlt
/-- v2 `stateToInt` AS CODE = the model's `stateToInt`, for all planes and every lane index below 64 -/
theorem code_stateToInt_v2 (l h : Pow.Planes) (idx : Nat) (hidx : idx < 64) :
    Gen.Pow.v2code.stateToInt l.toList h.toList (BitVec.ofNat 64 idx) = some ((Pow.stateToInt l h idx : Nat) : Int) :=
  Iota.Tie.PowV2Code.stateToInt_eq l h idx hidx

end Iota.Tie.Pow
