/-
Code tie for pkg/pow/v2/worker.go (stage 14): the integer core of PoW v2, translated AS CODE by cmd/extract into
`Iota/Gen/Pow.lean` (namespace `Gen.Pow.v2code`; `none` = run-time panic), against the model of `Iota/Model/Pow.lean`.

* `sufficientTrailingZeros(data []byte, targetScore uint64) int`: for every `data` (shorter than 2^62 bytes; a Go slice
  of bytes is shorter than 2^63) and every `targetScore`, with `lx = (len(data)+8)·targetScore` computed in ℕ:
  the function panics exactly when `lx ≥ 2^64` (`math.MaxUint64/uint64(len(data)+nonceBytes) < targetScore`), and
  otherwise returns `Pow.sufficientTrailingZeros lx`.  The division is by a non-constant: the translation checks the
  divisor against 0 first (never 0 here: `len(data)+8 ≥ 8`).  In the last iteration (`s = 40`) `v *= 3` wraps around in
  uint64 (3^41 > 2^64); the wrapped value is never read, and the model computes the same result in ℕ.
* `targetHash(data []byte, targetScore uint64) *big.Int` (`*big.Int` ↦ `Int`): for every `data` (shorter than 2^62 bytes)
  and EVERY `targetScore` the function does not panic (the divisor of `Quo` is `lx + 1 ≥ 1`) and returns
  `Pow.targetHash lx = ⌊maxHash / (lx + 1)⌋`; the product `lx` is formed in `big.Int`, so there is no overflow case.
  The value of the package-level `maxHash = hexToInt("2367b8…385b")` is a literal the translator computed with math/big;
  `maxHash_lit` checks it against the model's constant (`Tie.Pow.maxHash_eq` checks the hex string separately).
* `toInt(trits trinary.Trits) *big.Int` (pow.go; `[]int8` ↦ `List (BitVec 8)`, two's complement) with its callee
  `tritToUint`: for every list of 243 balanced trits (-1, 0, 1) the function does not panic and returns
  `Pow.toInt` of the trits read as integers; every uint64 chunk value stays below 3^40 < 2^64 (`chunk_loop`), so nothing
  wraps around; for every other length (below 2^64) it panics (`toInt_panic`).  The statement
  `b.Add(b.Mul(b, uint64Radix), tmp.SetUint64(v))` is translated as `b := b·R; tmp := v; b := b + tmp` (Go evaluates the
  operand calls left to right, each returns its receiver); `chunk := trits[i*40 : i*40+40]` is a read-only window.
* `stateToInt(l, h *[243]uint, idx uint) *big.Int` (worker.go): for all planes and every lane index `idx < 64` no panic and
  `Pow.stateToInt l h idx` (the loop fills a local `[243]int8` with the lane's trits, then calls `toInt`).
-/
import Iota.Gen.Pow
import Iota.Model.Pow
import Iota.Tie.GoFlow
import Iota.Tie.PowCode

namespace Iota.Tie.PowV2Code
open Iota Iota.Go

/-! ### `sufficientTrailingZeros` -/

/-- the body of the loop `for s, v := 0, uint64(1); s <= 40; s++ { if v >= lx { return s }; v *= 3 }` -/
def stzBody (lx : BitVec 64) (v s : BitVec 64) : Flow (BitVec 64) (BitVec 64) :=
  if (BitVec.ule lx v) then Flow.done s else
  let v : BitVec 64 := (v * 3#64)
  Flow.run v

theorem pow3_lt (s : Nat) (hs : s ≤ 40) : 3 ^ s < 2 ^ 64 :=
  Nat.lt_of_le_of_lt (Nat.pow_le_pow_right (by decide) hs) (by decide)

/-- the loop from iteration `s` on (`fuel` iterations left, `v = 3^s`) is the model's loop -/
theorem stz_loop (lx : BitVec 64) : ∀ (fuel s : Nat) (v : BitVec 64), s + fuel = 41 → (0 < fuel → v.toNat = 3 ^ s) →
    (forIn ((List.range' s fuel).map (BitVec.ofNat 64)) v (stzBody lx)).bind (fun _ => Flow.done 41#64) =
      (Flow.done (BitVec.ofNat 64 (Pow.sufficientLoop lx.toNat fuel s v.toNat)) : Flow (BitVec 64) (BitVec 64)) := by
  intro fuel
  induction fuel with
  | zero =>
    intro s v hs _
    simp [Pow.sufficientLoop]
  | succ fuel ih =>
    intro s v hs hv
    have hv' := hv (Nat.succ_pos _)
    rw [List.range'_succ, List.map_cons, forIn_cons]
    unfold Pow.sufficientLoop stzBody
    by_cases hc : lx.toNat ≤ v.toNat
    · have : BitVec.ule lx v = true := by simp [BitVec.ule, hc]
      simp [this, hc]
    · have : BitVec.ule lx v = false := by simp [BitVec.ule, hc]
      simp only [this, Bool.false_eq_true, if_false, Flow.bind_run, ge_iff_le, hc]
      have hmul : 0 < fuel → (v * 3#64).toNat = 3 ^ (s + 1) := by
        intro hf
        have h3 : 3 ^ (s + 1) < 2 ^ 64 := pow3_lt (s + 1) (by omega)
        rw [BitVec.toNat_mul, hv']
        show 3 ^ s * 3 % 2 ^ 64 = 3 ^ (s + 1)
        rw [← Nat.pow_succ]
        exact Nat.mod_eq_of_lt h3
      have ih' := ih (s + 1) (v * 3#64) (by omega) hmul
      unfold stzBody at ih'
      rw [ih']
      cases fuel with
      | zero => rfl
      | succ fuel => rw [hmul (Nat.succ_pos _), hv', Nat.pow_succ]

theorem forUp_0_40 : forUp true true 0#64 40#64 1 = (List.range' 0 41).map (BitVec.ofNat 64) := by decide

/-- `uint64(len(data)+nonceBytes)` -/
theorem len8 (n : Nat) (hn : n < 2 ^ 62) : (BitVec.ofNat 64 n + 8#64).toNat = n + 8 := by
  rw [BitVec.toNat_add, BitVec.toNat_ofNat]
  show (n % 2 ^ 64 + 8) % 2 ^ 64 = n + 8
  omega

/-- the overflow test `math.MaxUint64/uint64(len(data)+nonceBytes) < targetScore` is exact -/
theorem overflow_test (n : Nat) (hn : n < 2 ^ 62) (t : BitVec 64) :
    BitVec.ult (18446744073709551615#64 / (BitVec.ofNat 64 n + 8#64)) t = decide (2 ^ 64 ≤ (n + 8) * t.toNat) := by
  have h : (18446744073709551615#64 / (BitVec.ofNat 64 n + 8#64)).toNat = (2 ^ 64 - 1) / (n + 8) := by
    rw [BitVec.toNat_udiv, len8 n hn]; rfl
  unfold BitVec.ult
  rw [h]
  congr 1
  rw [Nat.div_lt_iff_lt_mul (by omega : 0 < n + 8), Nat.mul_comm]
  exact propext (by omega)

/-- **`sufficientTrailingZeros` panics** exactly when `(len(data)+8)·targetScore` does not fit a uint64 … -/
theorem sufficientTrailingZeros_panic (data : List (BitVec 8)) (t : BitVec 64) (hlen : data.length < 2 ^ 62)
    (hov : 2 ^ 64 ≤ (data.length + 8) * t.toNat) :
    Gen.Pow.v2code.sufficientTrailingZeros data t = none := by
  unfold Gen.Pow.v2code.sufficientTrailingZeros
  have h0 : (BitVec.ofNat 64 data.length + 8#64 != 0#64) = true := by
    have := len8 data.length hlen
    simp only [bne_iff_ne, ne_eq]
    intro h
    rw [h] at this
    simp at this
  rw [overflow_test data.length hlen t]
  simp [h0, hov]

/-- … and otherwise **returns the model's value** for `lx = (len(data)+8)·targetScore`. -/
theorem sufficientTrailingZeros_eq (data : List (BitVec 8)) (t : BitVec 64) (hlen : data.length < 2 ^ 62)
    (hov : (data.length + 8) * t.toNat < 2 ^ 64) :
    Gen.Pow.v2code.sufficientTrailingZeros data t =
      some (BitVec.ofNat 64 (Pow.sufficientTrailingZeros ((data.length + 8) * t.toNat))) := by
  unfold Gen.Pow.v2code.sufficientTrailingZeros
  have h0 : (BitVec.ofNat 64 data.length + 8#64 != 0#64) = true := by
    have := len8 data.length hlen
    simp only [bne_iff_ne, ne_eq]
    intro h
    rw [h] at this
    simp at this
  have hlx : ((BitVec.ofNat 64 data.length + 8#64) * t).toNat = (data.length + 8) * t.toNat := by
    rw [BitVec.toNat_mul, len8 _ hlen]
    exact Nat.mod_eq_of_lt hov
  rw [overflow_test data.length hlen t]
  have hno : ¬ 2 ^ 64 ≤ (data.length + 8) * t.toNat := by omega
  simp only [h0, Bool.not_true, Bool.false_eq_true, if_false, hno, decide_false]
  rw [forUp_0_40]
  have := stz_loop ((BitVec.ofNat 64 data.length + 8#64) * t) 41 0 1#64 rfl (fun _ => rfl)
  unfold stzBody at this
  rw [this, hlx]
  rfl

/-- the result as a Go `int` is one of `0 … 41` -/
theorem sufficientLoop_le (lx : Nat) : ∀ fuel s v, s + fuel = 41 → Pow.sufficientLoop lx fuel s v ≤ 41 := by
  intro fuel
  induction fuel with
  | zero => intro s v _; simp [Pow.sufficientLoop]
  | succ fuel ih =>
    intro s v h
    unfold Pow.sufficientLoop
    split
    · omega
    · exact ih _ _ (by omega)

theorem sufficientTrailingZeros_le (lx : Nat) : Pow.sufficientTrailingZeros lx ≤ 41 :=
  sufficientLoop_le lx 41 0 1 rfl

/-! ### `targetHash` -/

/-- the constant the translator computed from `maxHash = hexToInt("2367b8…385b")` (math/big, base 16) is the model's -/
theorem maxHash_lit :
    (87189642485960958202911070585860771696964072404731750085525219437990967093723439943475549906831683116791055225665627 : Int)
      = ((Pow.maxHash : Nat) : Int) := by decide +kernel

/-- `int64(len(data)+nonceBytes)` -/
theorem len8_toInt (n : Nat) (hn : n < 2 ^ 62) : BitVec.toInt (BitVec.ofNat 64 n + 8#64) = ((n + 8 : Nat) : Int) := by
  rw [BitVec.toInt_eq_toNat_cond, len8 n hn]
  have : 2 * (n + 8) < 2 ^ 64 := by omega
  simp [this]

/-- **`targetHash` never panics and returns the model's value** `⌊maxHash / (lx + 1)⌋` for
`lx = (len(data)+8)·targetScore`, for EVERY target score: the product is formed in `big.Int`, without overflow. -/
theorem targetHash_eq (data : List (BitVec 8)) (t : BitVec 64) (hlen : data.length < 2 ^ 62) :
    Gen.Pow.v2code.targetHash data t =
      some ((Pow.targetHash ((data.length + 8) * t.toNat) : Nat) : Int) := by
  unfold Gen.Pow.v2code.targetHash Pow.targetHash
  have hz : ((t.toNat : Nat) : Int) * BitVec.toInt (BitVec.ofNat 64 data.length + 8#64) + (1 : Int) =
      (((data.length + 8) * t.toNat + 1 : Nat) : Int) := by
    rw [len8_toInt _ hlen, Nat.mul_comm]
    simp only [Int.natCast_add, Int.natCast_mul]
    rfl
  simp only [hz, maxHash_lit]
  have hne : (((data.length + 8) * t.toNat + 1 : Nat) : Int) ≠ 0 := by omega
  simp only [ne_eq, hne, not_false_eq_true, decide_true, Bool.not_true, Bool.false_eq_true, if_false]
  rw [← Int.ofNat_tdiv]
  rfl

/-! ### `toInt` -/

theorem getD_eq_get {α : Type} (l : List α) (d : α) (i : Nat) (h : i < l.length) : l.getD i d = l[i] := by
  rw [List.getD_eq_getElem?_getD, List.getElem?_eq_getElem h]; rfl

/-- a balanced trit as an `int8` -/
def isTrit (t : BitVec 8) : Prop := t = BitVec.ofInt 8 (-1) ∨ t = 0#8 ∨ t = 1#8

theorem tritToUint_toNat (t : BitVec 8) (h : isTrit t) :
    (Gen.Pow.v2code.tritToUint t).toNat = Pow.tritToUint t.toInt := by
  rcases h with rfl | rfl | rfl <;> decide

theorem tritToUint_le (t : BitVec 8) (h : isTrit t) : (Gen.Pow.v2code.tritToUint t).toNat ≤ 2 := by
  rcases h with rfl | rfl | rfl <;> decide

/-- the body of the inner loop `for j := len(chunk) - 1; j >= 0; j-- { v = v*3 + tritToUint(chunk[j]) }` -/
def innerBody (chunk : List (BitVec 8)) (v j : BitVec 64) : Flow Int (BitVec 64) :=
  if !(Go.inRangeS j chunk.length) then Go.Flow.panic else
  let v : BitVec 64 := ((v * 3#64) + (Gen.Pow.v2code.tritToUint (chunk.getD j.toNat 0#8)))
  Go.Flow.run v

theorem inner_loop (chunk : List (BitVec 8)) (hc : chunk.length ≤ 40) (htr : ∀ t ∈ chunk, isTrit t) :
    ∀ (idx : List Nat) (v : BitVec 64) (k : Nat), (∀ i ∈ idx, i < chunk.length) → v.toNat < 3 ^ k →
      k + idx.length ≤ 40 →
      ∃ w : BitVec 64, forIn (idx.map (BitVec.ofNat 64)) v (innerBody chunk) = (Flow.run w : Flow Int (BitVec 64)) ∧
        w.toNat = idx.foldl (fun a i => a * 3 + Pow.tritToUint (chunk.getD i 0#8).toInt) v.toNat ∧
        w.toNat < 3 ^ (k + idx.length) := by
  intro idx
  induction idx with
  | nil => intro v k _ hv _; exact ⟨v, rfl, rfl, by simpa using hv⟩
  | cons i idx ih =>
    intro v k hi hv hk
    have hil : i < chunk.length := hi i (List.mem_cons_self ..)
    have hmem : chunk.getD i 0#8 ∈ chunk := by
      rw [getD_eq_get _ _ _ hil]; exact List.getElem_mem hil
    have ht := htr _ hmem
    have hu := tritToUint_toNat _ ht
    have hle := tritToUint_le _ ht
    have hk' : k + 1 + idx.length ≤ 40 := by simp only [List.length_cons] at hk; omega
    have h340 : 3 ^ (k + 1) ≤ 3 ^ 40 := Nat.pow_le_pow_right (by decide) (by omega)
    have h40 : (3 : Nat) ^ 40 < 2 ^ 64 := by decide
    have hpow : 3 ^ (k + 1) = 3 ^ k * 3 := by rw [Nat.pow_succ]
    have hj : (BitVec.ofNat 64 i).toNat = i := by
      rw [BitVec.toNat_ofNat]; exact Nat.mod_eq_of_lt (by omega)
    have hr : inRangeS (BitVec.ofNat 64 i) chunk.length = true := by
      unfold inRangeS
      rw [BitVec.msb_eq_decide, hj]
      simp only [Bool.and_eq_true, Bool.not_eq_true', decide_eq_false_iff_not, decide_eq_true_eq]
      exact ⟨by omega, hil⟩
    have hstep : (v * 3#64 + Gen.Pow.v2code.tritToUint (chunk.getD i 0#8)).toNat =
        v.toNat * 3 + Pow.tritToUint (chunk.getD i 0#8).toInt := by
      rw [← hu, BitVec.toNat_add, BitVec.toNat_mul]
      show (v.toNat * 3 % 2 ^ 64 + _) % 2 ^ 64 = _
      omega
    have hb : innerBody chunk v (BitVec.ofNat 64 i) =
        Flow.run (v * 3#64 + Gen.Pow.v2code.tritToUint (chunk.getD i 0#8)) := by
      unfold innerBody; rw [hr, hj]; rfl
    rw [List.map_cons, forIn_cons, hb, Flow.bind_run]
    obtain ⟨w, hw1, hw2, hw3⟩ := ih (v * 3#64 + Gen.Pow.v2code.tritToUint (chunk.getD i 0#8)) (k + 1)
      (fun j hj => hi j (List.mem_cons_of_mem _ hj)) (by rw [hstep, ← hu]; omega) hk'
    refine ⟨w, hw1, ?_, ?_⟩
    · rw [hw2, hstep]; rfl
    · have : k + 1 + idx.length = k + (i :: idx).length := by simp only [List.length_cons]; omega
      rw [← this]; exact hw3

theorem foldl_range_reverse {α β : Type} (l : List α) (d : α) (g : β → α → β) (a : β) :
    (List.range l.length).reverse.foldl (fun a i => g a (l.getD i d)) a = l.reverse.foldl g a := by
  have hl : (List.range l.length).map (fun i => l.getD i d) = l := by
    apply List.ext_getElem (by simp)
    intro i h1 h2
    simp [List.getD_eq_getElem?_getD, h2]
  conv => rhs; rw [← hl]
  rw [← List.map_reverse, List.foldl_map]

theorem forDown_39 : forDown true true (BitVec.ofNat 64 40 - 1#64) 0#64 1 = (List.range 40).reverse.map (BitVec.ofNat 64) := by
  decide

/-- the inner loop on a chunk of 40 trits: no panic, the model's `chunkValue`, and no wrap-around (`v < 3^40 < 2^64`) -/
theorem chunk_loop (chunk : List (BitVec 8)) (hl : chunk.length = 40) (htr : ∀ t ∈ chunk, isTrit t) :
    ∃ w : BitVec 64,
      forIn (forDown true true ((BitVec.ofNat 64 chunk.length) - 1#64) 0#64 1) 0#64 (innerBody chunk) =
        (Flow.run w : Flow Int (BitVec 64)) ∧
      w.toNat = Pow.chunkValue (chunk.map BitVec.toInt) ∧ w.toNat < 3 ^ 40 := by
  rw [hl, forDown_39]
  obtain ⟨w, h1, h2, h3⟩ := inner_loop chunk (by omega) htr (List.range 40).reverse 0#64 0
    (by intro i hi; have := List.mem_range.mp (List.mem_reverse.mp hi); omega) (by decide) (by simp)
  refine ⟨w, h1, ?_, by simpa using h3⟩
  rw [h2]
  unfold Pow.chunkValue
  rw [← List.map_reverse, List.foldl_map]
  have := foldl_range_reverse chunk 0#8 (fun (a : Nat) (t : BitVec 8) => a * 3 + Pow.tritToUint t.toInt) 0
  rw [hl] at this
  exact this

/-- the body of the outer loop `for i := 5; i >= 0; i-- { chunk := trits[i*40 : i*40+40]; …; b.Add(b.Mul(b, uint64Radix), tmp.SetUint64(v)) }`
(the generated text, with 243 for `len(trits)`) -/
def outerBody (trits : List (BitVec 8)) (st_1 : Int × Int) (i : BitVec 64) : Flow Int (Int × Int) :=
  let b : Int := st_1.1
  if !(Go.sliceOK (i * 40#64) ((i * 40#64) + 40#64) 243) then Go.Flow.panic else
  let chunk : List (BitVec 8) := ((trits.drop (i * 40#64).toNat).take (((i * 40#64) + 40#64).toNat - (i * 40#64).toNat))
  let v : BitVec 64 := 0#64
  Go.Flow.bind (Go.forIn (Go.forDown true true ((BitVec.ofNat 64 chunk.length) - 1#64) 0#64 1) v (innerBody chunk)) (fun (v : BitVec 64) =>
  let v : BitVec 64 := (if (i == 0#64) then (v + 1#64) else v)
  let b : Int := (b * (12157665459056928801 : Int))
  let tmp : Int := ((BitVec.toNat v : Nat) : Int)
  let b : Int := (b + tmp)
  Go.Flow.run (b, tmp))

/-- the value the model adds for chunk `i` -/
def chunkTerm (trits : List (BitVec 8)) (i : Nat) : Nat :=
  let v := Pow.chunkValue (((trits.map BitVec.toInt).drop (i * 40)).take 40)
  if i = 0 then v + 1 else v

theorem outer_key : ∀ i, i < 6 → ((BitVec.ofNat 64 i * 40#64).toNat = i * 40 ∧
    (BitVec.ofNat 64 i * 40#64 + 40#64).toNat = i * 40 + 40 ∧
    sliceOK (BitVec.ofNat 64 i * 40#64) (BitVec.ofNat 64 i * 40#64 + 40#64) 243 = true ∧
    ((BitVec.ofNat 64 i == 0#64) = decide (i = 0))) := by decide

theorem outer_step (trits : List (BitVec 8)) (hlen : trits.length = 243) (htr : ∀ t ∈ trits, isTrit t)
    (i : Nat) (hi : i < 6) (b tmp : Int) :
    outerBody trits (b, tmp) (BitVec.ofNat 64 i) =
      Flow.run (b * (12157665459056928801 : Int) + ((chunkTerm trits i : Nat) : Int), ((chunkTerm trits i : Nat) : Int)) := by
  obtain ⟨h1, h2, hs, h0⟩ := outer_key i hi
  have hcl : ((trits.drop (i * 40)).take 40).length = 40 := by
    rw [List.length_take, List.length_drop, hlen]; omega
  have hct : ∀ t ∈ (trits.drop (i * 40)).take 40, isTrit t :=
    fun t ht => htr t (List.mem_of_mem_drop (List.mem_of_mem_take ht))
  obtain ⟨w, hw, hwv, hwlt⟩ := chunk_loop _ hcl hct
  unfold outerBody
  simp only [hs, h1, h2, Bool.not_true, Bool.false_eq_true, if_false, Nat.add_sub_cancel_left, h0]
  rw [hw, Flow.bind_run]
  have h40 : (3 : Nat) ^ 40 < 2 ^ 64 - 1 := by decide
  have hterm : (if decide (i = 0) = true then w + 1#64 else w).toNat = chunkTerm trits i := by
    unfold chunkTerm
    rw [← List.map_drop, ← List.map_take, ← hwv]
    by_cases hi0 : i = 0
    · simp only [hi0, decide_true, if_true]
      rw [BitVec.toNat_add]
      show (w.toNat + 1) % 2 ^ 64 = _
      omega
    · simp only [hi0, decide_false, Bool.false_eq_true, if_false]
  rw [hterm]

theorem forDown_5 : forDown true true 5#64 0#64 1 =
    [BitVec.ofNat 64 5, BitVec.ofNat 64 4, BitVec.ofNat 64 3, BitVec.ofNat 64 2, BitVec.ofNat 64 1, BitVec.ofNat 64 0] := by decide

/-- the three top trits -/
def topTerm (trits : List (BitVec 8)) : BitVec 64 :=
  ((((Gen.Pow.v2code.tritToUint (trits.getD 242 0#8)) * 9#64) + ((Gen.Pow.v2code.tritToUint (trits.getD 241 0#8)) * 3#64)) +
    (Gen.Pow.v2code.tritToUint (trits.getD 240 0#8)))

theorem toInt_unfold (trits : List (BitVec 8)) (hlen : trits.length = 243) :
    Gen.Pow.v2code.toInt trits =
      Flow.result (Flow.bind (forIn (forDown true true 5#64 0#64 1) (((topTerm trits).toNat : Int), (0 : Int)) (outerBody trits))
        (fun st => Flow.done st.1)) := by
  unfold Gen.Pow.v2code.toInt
  rw [hlen]
  rfl

theorem getD_map_toInt (trits : List (BitVec 8)) (i : Nat) (h : i < trits.length) :
    (trits.map BitVec.toInt).getD i 0 = (trits.getD i 0#8).toInt := by
  rw [getD_eq_get _ _ _ (by simpa using h), getD_eq_get _ _ _ h, List.getElem_map]

/-- **`toInt` on 243 balanced trits**: no panic, the model's value (and no uint64 wrap-around on the way: `chunk_loop`). -/
theorem toInt_eq (trits : List (BitVec 8)) (hlen : trits.length = 243) (htr : ∀ t ∈ trits, isTrit t) :
    Gen.Pow.v2code.toInt trits = some ((Pow.toInt (trits.map BitVec.toInt) : Nat) : Int) := by
  rw [toInt_unfold trits hlen, forDown_5]
  simp only [forIn_cons, forIn_nil, outer_step trits hlen htr _ (by decide : 5 < 6), outer_step trits hlen htr _ (by decide : 4 < 6),
    outer_step trits hlen htr _ (by decide : 3 < 6), outer_step trits hlen htr _ (by decide : 2 < 6),
    outer_step trits hlen htr _ (by decide : 1 < 6), outer_step trits hlen htr _ (by decide : 0 < 6), Flow.bind_run, Flow.result_done]
  have hget : ∀ i, i < 243 → trits.getD i 0#8 ∈ trits := by
    intro i hi
    rw [getD_eq_get _ _ _ (by omega)]; exact List.getElem_mem _
  have htop : (topTerm trits).toNat = Pow.tritToUint ((trits.map BitVec.toInt).getD 242 0) * 9 +
      Pow.tritToUint ((trits.map BitVec.toInt).getD 241 0) * 3 + Pow.tritToUint ((trits.map BitVec.toInt).getD 240 0) := by
    rw [getD_map_toInt _ _ (by omega), getD_map_toInt _ _ (by omega), getD_map_toInt _ _ (by omega)]
    rw [← tritToUint_toNat _ (htr _ (hget 242 (by omega))), ← tritToUint_toNat _ (htr _ (hget 241 (by omega))),
      ← tritToUint_toNat _ (htr _ (hget 240 (by omega)))]
    have a := tritToUint_le _ (htr _ (hget 242 (by omega)))
    have b := tritToUint_le _ (htr _ (hget 241 (by omega)))
    have c := tritToUint_le _ (htr _ (hget 240 (by omega)))
    unfold topTerm
    rw [BitVec.toNat_add, BitVec.toNat_add, BitVec.toNat_mul, BitVec.toNat_mul]
    show ((_ * 9 % 2 ^ 64 + _ * 3 % 2 ^ 64) % 2 ^ 64 + _) % 2 ^ 64 = _
    omega
  unfold Pow.toInt
  rw [← htop]
  have hr : (List.range 6).reverse = [5, 4, 3, 2, 1, 0] := by decide
  simp only [hr, List.foldl_cons, List.foldl_nil]
  unfold chunkTerm Pow.uint64Radix
  simp only [Int.natCast_add, Int.natCast_mul]
  rfl

/-- **`toInt` panics on every other length** (`len(trits) != consts.HashTrinarySize`) -/
theorem toInt_panic (trits : List (BitVec 8)) (hlen : trits.length ≠ 243) (hlt : trits.length < 2 ^ 64) :
    Gen.Pow.v2code.toInt trits = none := by
  unfold Gen.Pow.v2code.toInt
  have : (BitVec.ofNat 64 trits.length != 243#64) = true := by
    simp only [bne_iff_ne, ne_eq]
    intro h
    have := congrArg BitVec.toNat h
    rw [BitVec.toNat_ofNat, Nat.mod_eq_of_lt hlt] at this
    exact hlen this
  rw [this]
  rfl

/-! ### `stateToInt` -/

theorem bit_eq (w : BitVec 64) (n : Nat) :
    BitVec.setWidth 8 ((w >>> n) &&& 1#64) = if w.getLsbD n then 1#8 else 0#8 := by
  apply BitVec.eq_of_getLsbD_eq
  intro i hi
  by_cases hw : w.getLsbD n <;> simp [hw, BitVec.getLsbD_one]
  · intro h0; subst h0; exact ⟨by omega, hw⟩
  · intro _ h h0; subst h0; exact hw h

/-- the trit the loop of `stateToInt` stores at index `j` -/
def laneVal (l h : List (BitVec 64)) (idx : BitVec 64) (j : Nat) : BitVec 8 :=
  ((BitVec.setWidth 8 (((h.getD j 0#64) >>> idx.toNat) &&& 1#64)) - (BitVec.setWidth 8 (((l.getD j 0#64) >>> idx.toNat) &&& 1#64)))

theorem laneVal_trit (l h : List (BitVec 64)) (idx : BitVec 64) (j : Nat) : isTrit (laneVal l h idx j) := by
  unfold laneVal isTrit
  rw [bit_eq, bit_eq]
  cases (h.getD j 0#64).getLsbD idx.toNat <;> cases (l.getD j 0#64).getLsbD idx.toNat <;> decide

theorem laneVal_toInt (l h : Pow.Planes) (idx : BitVec 64) (j : Nat) :
    (laneVal l.toList h.toList idx j).toInt = Pow.laneTrit l h idx.toNat j := by
  unfold laneVal Pow.laneTrit
  rw [bit_eq, bit_eq, PowCode.getD_toList, PowCode.getD_toList]
  cases (h.toArray.getD j 0).getLsbD idx.toNat <;> cases (l.toArray.getD j 0).getLsbD idx.toNat <;> decide

theorem foldl_set_get {α : Type} (f : Nat → α) : ∀ (idx : List Nat) (t0 : List α) (i : Nat),
    (idx.foldl (fun t j => t.set j (f j)) t0)[i]? = if i ∈ idx ∧ i < t0.length then some (f i) else t0[i]? := by
  intro idx
  induction idx with
  | nil => intro t0 i; simp
  | cons j idx ih =>
    intro t0 i
    rw [List.foldl_cons, ih, List.length_set, List.getElem?_set]
    by_cases h1 : i ∈ idx <;> by_cases h2 : i < t0.length <;> by_cases h3 : j = i <;>
      simp [h1, h2, h3, Ne.symm] <;> (try subst h3) <;> simp_all

theorem forDown_242 : forDown true true 242#64 0#64 1 = (List.range 243).reverse.map (BitVec.ofNat 64) := by
  decide +kernel

theorem idx_mask : ∀ idx, idx < 64 → (BitVec.ofNat 64 idx &&& 63#64) = BitVec.ofNat 64 idx := by decide

/-- **`stateToInt`** on planes of 243 words and a lane index below 64 (`idx &= 63` is then the identity): no panic, and the
model's value: the trits of the lane, then `toInt`. -/
theorem stateToInt_eq (l h : Pow.Planes) (idx : Nat) (hidx : idx < 64) :
    Gen.Pow.v2code.stateToInt l.toList h.toList (BitVec.ofNat 64 idx) = some ((Pow.stateToInt l h idx : Nat) : Int) := by
  unfold Gen.Pow.v2code.stateToInt
  simp only [idx_mask idx hidx]
  have hi : (BitVec.ofNat 64 idx).toNat = idx := by
    rw [BitVec.toNat_ofNat]; exact Nat.mod_eq_of_lt (by omega)
  rw [forDown_242, forIn_eq_foldl _ _ _
    (fun (t : List (BitVec 8)) (j : BitVec 64) => t.set j.toNat (laneVal l.toList h.toList (BitVec.ofNat 64 idx) j.toNat))]
  · rw [List.foldl_map]
    have hfin : (List.range 243).reverse.foldl (fun (t : List (BitVec 8)) (j : Nat) =>
          t.set (BitVec.ofNat 64 j).toNat (laneVal l.toList h.toList (BitVec.ofNat 64 idx) (BitVec.ofNat 64 j).toNat))
          (List.replicate 243 0#8) =
        (List.range 243).map (laneVal l.toList h.toList (BitVec.ofNat 64 idx)) := by
      have hcongr : ∀ (L : List Nat) (t0 : List (BitVec 8)), (∀ j ∈ L, j < 243) →
          L.foldl (fun (t : List (BitVec 8)) (j : Nat) =>
            t.set (BitVec.ofNat 64 j).toNat (laneVal l.toList h.toList (BitVec.ofNat 64 idx) (BitVec.ofNat 64 j).toNat)) t0 =
          L.foldl (fun t j => t.set j (laneVal l.toList h.toList (BitVec.ofNat 64 idx) j)) t0 := by
        intro L
        induction L with
        | nil => intro _ _; rfl
        | cons a L ih =>
          intro t0 hL
          have ha : (BitVec.ofNat 64 a).toNat = a := by
            rw [BitVec.toNat_ofNat]; exact Nat.mod_eq_of_lt (by have := hL a (List.mem_cons_self ..); omega)
          rw [List.foldl_cons, List.foldl_cons, ha]
          exact ih _ (fun j hj => hL j (List.mem_cons_of_mem _ hj))
      rw [hcongr _ _ (fun j hj => List.mem_range.mp (List.mem_reverse.mp hj))]
      apply List.ext_getElem?
      intro i
      rw [foldl_set_get]
      have hlenr : (List.replicate 243 (0#8 : BitVec 8)).length = 243 := List.length_replicate
      by_cases hi243 : i < 243
      · have hmem : i ∈ (List.range 243).reverse := List.mem_reverse.mpr (List.mem_range.mpr hi243)
        rw [if_pos ⟨hmem, by rw [hlenr]; exact hi243⟩, List.getElem?_map, List.getElem?_range hi243]
        rfl
      · rw [if_neg (fun hh => hi243 (List.mem_range.mp (List.mem_reverse.mp hh.1))),
          List.getElem?_eq_none (by rw [hlenr]; omega),
          List.getElem?_eq_none (by rw [List.length_map, List.length_range]; omega)]
    rw [hfin]
    simp only [Flow.bind_run]
    have htoInt := toInt_eq ((List.range 243).map (laneVal l.toList h.toList (BitVec.ofNat 64 idx))) (by rw [List.length_map, List.length_range])
      (by intro t ht; obtain ⟨j, _, rfl⟩ := List.mem_map.mp ht; exact laneVal_trit ..)
    rw [htoInt]
    simp only [call, Flow.bind_run, Flow.result_done]
    unfold Pow.stateToInt Pow.laneTrits
    have hmap : (List.range 243).map (BitVec.toInt ∘ laneVal l.toList h.toList (BitVec.ofNat 64 idx)) =
        (List.range 243).map (Pow.laneTrit l h idx) := by
      apply List.map_congr_left
      intro j _
      show (laneVal l.toList h.toList (BitVec.ofNat 64 idx) j).toInt = _
      rw [laneVal_toInt, hi]
    rw [List.map_map, hmap]
  · intro t j hj
    obtain ⟨m, hm, rfl⟩ := List.mem_map.mp hj
    have hm' := List.mem_range.mp (List.mem_reverse.mp hm)
    have hr : inRangeS (BitVec.ofNat 64 m) 243 = true := by
      have hmn : (BitVec.ofNat 64 m).toNat = m := by
        rw [BitVec.toNat_ofNat]; exact Nat.mod_eq_of_lt (by omega)
      unfold inRangeS
      rw [BitVec.msb_eq_decide, hmn]
      simp only [Bool.and_eq_true, Bool.not_eq_true', decide_eq_false_iff_not, decide_eq_true_eq]
      exact ⟨by omega, hm'⟩
    simp only [hr, Bool.not_true, Bool.false_eq_true, if_false]
    rfl

/-! concrete runs of the generated code -/
example : Gen.Pow.v2code.sufficientTrailingZeros [] 1#64 = some 2#64 := by decide
example : Gen.Pow.v2code.sufficientTrailingZeros [0#8, 1#8] 100#64 = some 7#64 := by decide
/-- `8 · 2^61 = 2^64` overflows: panic -/
example : Gen.Pow.v2code.sufficientTrailingZeros [] (BitVec.ofNat 64 (2 ^ 61)) = none := by decide
/-- the largest product that fits: 41 trailing zeros (3^40 < 2^64 - 8) -/
example : Gen.Pow.v2code.sufficientTrailingZeros [] (BitVec.ofNat 64 (2 ^ 61 - 1)) = some 41#64 := by decide

example : Gen.Pow.v2code.targetHash [] 0#64 = some ((Pow.maxHash : Nat) : Int) := by decide +kernel
example : Gen.Pow.v2code.targetHash [0#8] 1#64 = some ((Pow.maxHash / 10 : Nat) : Int) := by decide +kernel

/-- 243 zero trits: only the `v++` of chunk 0 contributes -/
example : Gen.Pow.v2code.toInt (List.replicate 243 0#8) = some 1 := by decide +kernel
example : Gen.Pow.v2code.toInt [] = none := by decide
example : Gen.Pow.v2code.toInt (List.replicate 244 0#8) = none := by decide +kernel
/-- all-zero planes: every lane holds 243 zero trits -/
example : Gen.Pow.v2code.stateToInt (List.replicate 243 0#64) (List.replicate 243 0#64) 5#64 = some 1 := by decide +kernel

end Iota.Tie.PowV2Code
