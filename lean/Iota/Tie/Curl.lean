/-
Tie shared by C06 and C20: facts regenerated from pkg/curl (constants, the translated `sBox` and
`bool2int`, source snapshots of curl.go/transform.go, the build-tag selection of the permutation,
and the assembly file parsed into instructions).
-/
import Iota.Gen.Curl
import Iota.Gen.CurlAsm
import Iota.Tie.Expect
import Iota.Model.Curl
import Iota.Model.AsmProgram
import Iota.Proofs.Vectors.Curl
import Iota.Tie.CurlCodeLanes
import Iota.Tie.CurlCodePerm
import Iota.Tie.CurlCodeSponge

namespace Iota.Tie.Curl
open Iota

theorem constants :
    Gen.Curl.stateSize = (Curl.stateSize : Int) ∧ Gen.Curl.numRounds = (Curl.numRounds : Int) ∧
    Gen.Curl.hashTrinarySize = (Curl.hashSize : Int) ∧ Gen.Curl.maxBatchSize = 64 := by decide

/-- the translated s-box is the model's s-box -/
theorem sBox_eq (aL aH bL bH : BitVec 64) : Gen.Curl.sBox aL aH bL bH = Curl.sBox aL aH bL bH := rfl

/-- (the functions `bool2int`, `sBox`, `Curl.in`, `Curl.out`, `Curl.Reset`, `Curl.CopyState`, `transformGeneric`, `Curl.Absorb` and
`Curl.Squeeze` are
translated as code, `Gen.Curl.code.*`, and tied to the model for all inputs in `Iota/Tie/CurlCodeLanes.lean`, `CurlCodePerm.lean`, `CurlCodeSponge.lean`; their text is
not pinned) -/

theorem bool2int_eq (b : Bool) : Gen.Curl.bool2int b = Curl.bool2int b := by
  cases b <;> decide

/-- which permutation a build uses: the assembly exactly for amd64 && gc && !purego, the portable one otherwise,
and the portable `transform` is a plain call of `transformGeneric` -/
theorem build_selection :
    Gen.Curl.buildTagAsm = "//go:build amd64 && gc && !purego" ∧
    Gen.Curl.buildTagAsmS = "//go:build amd64 && gc && !purego" ∧
    Gen.Curl.buildTagNoasm = "// +build !amd64 !gc purego" ∧
    Gen.Curl.noasmBody = "func transform(lto, hto, lfrom, hfrom *[StateSize]uint) { transformGeneric(lto, hto, lfrom, hfrom) }" :=
  ⟨rfl, rfl, rfl, rfl⟩

/-- the instruction list parsed from transform_amd64.s is the one the C20 proofs are about -/
theorem asm_program : Gen.CurlAsm.program = Asm.program := by decide +kernel

theorem src :
    Gen.Curl.src_curl_NewCurlP81 = Expect.Curl_src_curl_NewCurlP81 ∧
    Gen.Curl.src_curl_Curl_Clone = Expect.Curl_src_curl_Curl_Clone ∧
    Gen.Curl.src_curl_Curl_transform = Expect.Curl_src_curl_Curl_transform :=
  ⟨rfl, rfl, rfl⟩

/-- everything else the package declares (imports, constants, types, variables, build constraints and the functions not
pinned one by one) is unchanged too: no declaration of the modelled packages can change without a tie theorem failing. -/
theorem rest :
    Gen.Curl.rest_curl = Expect.Curl_rest_curl :=
  rfl

/-! ### curl.go / transform.go translated AS CODE = the model, for all inputs
`Gen.Curl.code.*` are regenerated from the Go source on every run by the loop translator (methods: the receiver is
represented by the fields it uses, `c_l`, `c_h`, `c_direction`; `none` = run-time panic).  Proofs:
`Iota/Tie/CurlCodeLanes.lean`, `Iota/Tie/CurlCodePerm.lean`.  A `Plane` is a `Vector (BitVec 64) 729`; `toList` is the
content of the Go array. -/
theorem code_bool2int (b : Bool) : Gen.Curl.code.bool2int b = Curl.bool2int b := CurlCodeLanes.bool2int_eq b
theorem code_sBox (aL aH bL bH : BitVec 64) : Gen.Curl.code.sBox aL aH bL bH = Curl.sBox aL aH bL bH :=
  CurlCodeLanes.sBox_eq aL aH bL bH

/-- `c.in(src, idx)`: panics exactly when `src` has fewer than 243 trits (capacity is not modelled: cap = len; Go would
extend `src[:243]` into spare capacity); otherwise the two planes are the model's `inLane` for lane `idx mod 64` -/
theorem code_in (l h : Curl.Plane) (src : List (BitVec 8)) (idx : BitVec 64) :
    Gen.Curl.code.Curl_in l.toList h.toList src idx =
      if 243 ≤ src.length then
        some ((Curl.inLane l h (src.map (·.toInt)) (idx.toNat % 64)).1.toList,
              (Curl.inLane l h (src.map (·.toInt)) (idx.toNat % 64)).2.toList)
      else none := CurlCodeLanes.in_eq l h src idx

/-- `c.out(dst, idx)`: panics exactly when `dst` has fewer than 243 entries (cap = len, as above); otherwise its first 243 entries become the
model's `outLane` of lane `idx mod 64` (values in {-1,0,1}) and the rest of `dst` is untouched -/
theorem code_out (c : Curl.Curl) (dst : List (BitVec 8)) (idx : BitVec 64) :
    (Gen.Curl.code.Curl_out c.l.toList c.h.toList dst idx =
      if 243 ≤ dst.length then some ((Curl.outLane c (idx.toNat % 64)).map (BitVec.ofInt 8) ++ dst.drop 243) else none) ∧
    (∀ x ∈ Curl.outLane c (idx.toNat % 64), (x = -1 ∨ x = 0 ∨ x = 1) ∧ (BitVec.ofInt 8 x).toInt = x) :=
  ⟨CurlCodeLanes.out_eq c dst idx, CurlCodeLanes.outLane_trits c _⟩

/-- `Reset` never panics and yields the model's initial state (direction 0 = `SpongeAbsorbing`) -/
theorem code_reset (l h : List (BitVec 64)) (hl : l.length = 729) (hh : h.length = 729) (d : BitVec 64) :
    Gen.Curl.code.Curl_Reset l h d = some (Curl.init.l.toList, Curl.init.h.toList, 0#64) :=
  CurlCodeLanes.reset_eq l h hl hh d

/-- `CopyState(l, h)` (assumption of the translation: `l` and `h` do not overlap): Go's `copy`; with 729-word
destinations exactly the two planes -/
theorem code_copyState (c : Curl.Curl) (l h : List (BitVec 64)) :
    (Gen.Curl.code.Curl_CopyState c.l.toList c.h.toList l h =
      (c.l.toList.take l.length ++ l.drop 729, c.h.toList.take h.length ++ h.drop 729)) ∧
    (l.length = 729 → h.length = 729 →
      Gen.Curl.code.Curl_CopyState c.l.toList c.h.toList l h = (c.copyState.1.toList, c.copyState.2.toList)) :=
  ⟨CurlCodeLanes.copyState_eq c l h, CurlCodeLanes.copyState_full c l h⟩

/-- `transformGeneric` (assumption of the translation, established by the extractor at its call chain: four pairwise
distinct arrays): same panic behaviour and same final contents of all four arrays as the model, for ALL planes -/
theorem code_transformGeneric (b : Curl.Bufs) :
    Gen.Curl.code.transformGeneric b.lto.toList b.hto.toList b.lfrom.toList b.hfrom.toList =
      (Curl.transformGeneric b).map (fun r => (r.lto.toList, r.hto.toList, r.lfrom.toList, r.hfrom.toList)) :=
  CurlCodePerm.transformGeneric_eq b

/-- … hence the regenerated code never panics and computes 81 rounds of the word-level specification `roundsW` into the
`to` arrays (and 80 rounds into the `from` arrays, which serve as scratch space) -/
theorem code_transformGeneric_spec (b : Curl.Bufs) :
    Gen.Curl.code.transformGeneric b.lto.toList b.hto.toList b.lfrom.toList b.hfrom.toList =
      some ((Spec.CurlW.roundsW 81 (b.lfrom, b.hfrom)).1.toList, (Spec.CurlW.roundsW 81 (b.lfrom, b.hfrom)).2.toList,
            (Spec.CurlW.roundsW 80 (b.lfrom, b.hfrom)).1.toList, (Spec.CurlW.roundsW 80 (b.lfrom, b.hfrom)).2.toList) :=
  CurlCodePerm.transformGeneric_some b

/-! ### `Absorb` and `Squeeze` translated AS CODE = the model (proofs: `Iota/Tie/CurlCodeSponge.lean`)
`c.transform()` is not translated (its body calls the build-dependent `transform`: the assembly on amd64, C20): it is the
first parameter of the translated methods, instantiated here by `trM` = the model's `Curl.transform` on planes given as
lists.  `dirBV` encodes the direction (absorbing ↦ 0, squeezing ↦ 1), `tritsI` reads int8 trits as integers, `encA` /
`encS` encode the model's outcome (error ↦ the error name with the state — and `dst` — unchanged, panic ↦ `none`). -/
open Iota.Tie.CurlCodeSponge in
/-- `Absorb`, every state, every batch of fewer than 2^63 lanes (also of wrong size, with short lanes, in the wrong
direction), every `tritsCount ≥ 0`: same error, same panic condition (with cap = len for the lanes), same resulting planes
as the model -/
theorem code_absorb (c : Curl.Curl) (src : List (List (BitVec 8))) (hsrc : src.length < 2 ^ 63) (tc : BitVec 64)
    (h0 : 0 ≤ tc.toInt) :
    Gen.Curl.code.Curl_Absorb trM c.l.toList c.h.toList (dirBV c.direction) src tc =
      encA c (Curl.Curl.absorb c (src.map tritsI) tc.toNat) := absorb_eq c src hsrc tc h0
open Iota.Tie.CurlCodeSponge in
/-- `Squeeze` likewise (`tritsCount ≥ 0`, fewer than 2^63 rows): planes, direction and the rows written (the trits of
`outLane`, as int8).  Not modelled: Go's allocation limit — for an enormous `tritsCount` Go's `make` panics with "len out
of range" where the translation builds the rows. -/
theorem code_squeeze (c : Curl.Curl) (dst : List (List (BitVec 8))) (hdst : dst.length < 2 ^ 63) (tc : BitVec 64)
    (h0 : 0 ≤ tc.toInt) :
    (Gen.Curl.code.Curl_Squeeze trM c.l.toList c.h.toList (dirBV c.direction) dst tc =
      encS c dst (Curl.Curl.squeeze c dst.length tc.toNat)) ∧
    (∀ c' out, Curl.Curl.squeeze c dst.length tc.toNat = .ok c' out →
      (out.map (·.map (BitVec.ofInt 8))).map tritsI = out) :=
  ⟨squeeze_eq c dst hdst tc h0, fun c' out h => squeeze_out_toInt c c' _ _ out h⟩
open Iota.Tie.CurlCodeSponge in
/-- the assumption under which the two block loops `for i := 0; i < tritsCount; i += 243` were translated — `i += 243`
does not wrap around — holds behind the guard `tritsCount % 243 == 0` that precedes them: the index list of the
translation is what the loop header computes step by step in 64-bit arithmetic -/
theorem code_sponge_header (tc : BitVec 64) (h0 : 0 ≤ tc.toInt) (hm : tc.toNat % 243 = 0) (fuel : Nat)
    (hf : tc.toNat / 243 < fuel) :
    Go.loopIdx (Go.cmpUp true false tc) (· + 243#64) fuel 0#64 = Go.forUp true false 0#64 tc 243 :=
  header_sound tc h0 hm fuel hf
open Iota.Tie.CurlCodeSponge in
/-- outside the property's domain, recorded for completeness: a NEGATIVE `tritsCount`.  `Absorb` returns
`ErrInvalidTritsLength` unless it is a multiple of 243, in which case it does nothing (or panics when squeezing);
`Squeeze` returns `ErrInvalidSqueezeLength` unless it is a multiple of 243, in which case `make` panics. -/
theorem code_sponge_negative (tr : TR) (c_l c_h : List (BitVec 64)) (d : BitVec 64) (rows : List (List (BitVec 8)))
    (h1 : 1 ≤ rows.length) (h64 : rows.length ≤ 64) (tc : BitVec 64) (hneg : tc.toInt < 0) :
    (Gen.Curl.code.Curl_Absorb tr c_l c_h d rows tc =
      if tc.toInt.tmod 243 ≠ 0 then some (some "consts.ErrInvalidTritsLength", c_l, c_h)
      else if d ≠ 0#64 then none else some (none, c_l, c_h)) ∧
    (Gen.Curl.code.Curl_Squeeze tr c_l c_h d rows tc =
      if tc.toInt.tmod 243 ≠ 0 then some (some "consts.ErrInvalidSqueezeLength", c_l, c_h, d, rows) else none) :=
  ⟨absorb_neg tr c_l c_h d rows h1 h64 tc hneg, squeeze_neg tr c_l c_h d rows h1 h64 tc hneg⟩

open Iota.Tie.CurlCodeSponge in
/-- the parameter `trM` by which `Absorb` / `Squeeze` are instantiated is what the portable build's `c.transform()` computes
with the GENERATED permutation (two zeroed scratch planes as `to`, the state as `from`, the state becomes the scratch
planes — the text of that five-line wrapper is pinned, `src`): so for the portable build the whole sponge is generated
code; for the amd64 build C20 replaces `transformGeneric` by the assembly. -/
theorem code_transform_wrapper (c : Curl.Curl) :
    trM c.l.toList c.h.toList =
      (Gen.Curl.code.transformGeneric (List.replicate 729 0#64) (List.replicate 729 0#64) c.l.toList c.h.toList).map
        (fun r => (r.1, r.2.1)) := by
  rw [trM_eq]
  have h := CurlCodePerm.transformGeneric_eq
    { lto := Vector.replicate 729 0, hto := Vector.replicate 729 0, lfrom := c.l, hfrom := c.h }
  simp only [Vector.toList_replicate] at h
  rw [show (List.replicate 729 (0#64 : BitVec 64)) = List.replicate 729 (0 : BitVec 64) from rfl, h]
  unfold Curl.Curl.transform
  dsimp only
  generalize Curl.transformGeneric _ = x
  cases x <;> rfl

end Iota.Tie.Curl
