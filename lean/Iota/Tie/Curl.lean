/-
Tie shared by C06 and C20: facts regenerated from pkg/curl (constants, the translated `sBox` and
`bool2int`, source snapshots of curl.go/transform.go, the build-tag selection of the permutation,
and the assembly file parsed into instructions).
-/
import Iota.Gen.Curl
import Iota.Gen.CurlAsm
import Iota.Tie.Expect
import Iota.Model.Curl
import Iota.Model.AsmProgram
import Iota.Proofs.Vectors.Curl
import Iota.Tie.CurlCodeLanes
import Iota.Tie.CurlCodePerm

namespace Iota.Tie.Curl
open Iota

theorem constants :
    Gen.Curl.stateSize = (Curl.stateSize : Int) ∧ Gen.Curl.numRounds = (Curl.numRounds : Int) ∧
    Gen.Curl.hashTrinarySize = (Curl.hashSize : Int) ∧ Gen.Curl.maxBatchSize = 64 := by decide

/-- the translated s-box is the model's s-box -/
theorem sBox_eq (aL aH bL bH : BitVec 64) : Gen.Curl.sBox aL aH bL bH = Curl.sBox aL aH bL bH := rfl

/-- (the functions `bool2int`, `sBox`, `Curl.in`, `Curl.out`, `Curl.Reset`, `Curl.CopyState` and `transformGeneric` are
translated as code, `Gen.Curl.code.*`, and tied to the model for all inputs in `Iota/Tie/CurlCode.lean`; their text is
not pinned) -/

theorem bool2int_eq (b : Bool) : Gen.Curl.bool2int b = Curl.bool2int b := by
  cases b <;> decide

/-- which permutation a build uses: the assembly exactly for amd64 && gc && !purego, the portable one otherwise,
and the portable `transform` is a plain call of `transformGeneric` -/
theorem build_selection :
    Gen.Curl.buildTagAsm = "//go:build amd64 && gc && !purego" ∧
    Gen.Curl.buildTagAsmS = "//go:build amd64 && gc && !purego" ∧
    Gen.Curl.buildTagNoasm = "// +build !amd64 !gc purego" ∧
    Gen.Curl.noasmBody = "func transform(lto, hto, lfrom, hfrom *[StateSize]uint) { transformGeneric(lto, hto, lfrom, hfrom) }" :=
  ⟨rfl, rfl, rfl, rfl⟩

/-- the instruction list parsed from transform_amd64.s is the one the C20 proofs are about -/
theorem asm_program : Gen.CurlAsm.program = Asm.program := by decide +kernel

theorem src :
    Gen.Curl.src_curl_NewCurlP81 = Expect.Curl_src_curl_NewCurlP81 ∧
    Gen.Curl.src_curl_Curl_Clone = Expect.Curl_src_curl_Curl_Clone ∧
    Gen.Curl.src_curl_Curl_Absorb = Expect.Curl_src_curl_Curl_Absorb ∧
    Gen.Curl.src_curl_Curl_Squeeze = Expect.Curl_src_curl_Curl_Squeeze ∧
    Gen.Curl.src_curl_Curl_transform = Expect.Curl_src_curl_Curl_transform :=
  ⟨rfl, rfl, rfl, rfl, rfl⟩

/-- everything else the package declares (imports, constants, types, variables, build constraints and the functions not
pinned one by one) is unchanged too: no declaration of the modelled packages can change without a tie theorem failing. -/
theorem rest :
    Gen.Curl.rest_curl = Expect.Curl_rest_curl :=
  rfl

/-! ### curl.go / transform.go translated AS CODE = the model, for all inputs
`Gen.Curl.code.*` are regenerated from the Go source on every run by the loop translator (methods: the receiver is
represented by the fields it uses, `c_l`, `c_h`, `c_direction`; `none` = run-time panic).  Proofs:
`Iota/Tie/CurlCodeLanes.lean`, `Iota/Tie/CurlCodePerm.lean`.  A `Plane` is a `Vector (BitVec 64) 729`; `toList` is the
content of the Go array. -/
theorem code_bool2int (b : Bool) : Gen.Curl.code.bool2int b = Curl.bool2int b := CurlCodeLanes.bool2int_eq b
theorem code_sBox (aL aH bL bH : BitVec 64) : Gen.Curl.code.sBox aL aH bL bH = Curl.sBox aL aH bL bH :=
  CurlCodeLanes.sBox_eq aL aH bL bH

/-- `c.in(src, idx)`: panics exactly when `src` has fewer than 243 trits; otherwise the two planes are the model's
`inLane` for lane `idx mod 64` -/
theorem code_in (l h : Curl.Plane) (src : List (BitVec 8)) (idx : BitVec 64) :
    Gen.Curl.code.Curl_in l.toList h.toList src idx =
      if 243 ≤ src.length then
        some ((Curl.inLane l h (src.map (·.toInt)) (idx.toNat % 64)).1.toList,
              (Curl.inLane l h (src.map (·.toInt)) (idx.toNat % 64)).2.toList)
      else none := CurlCodeLanes.in_eq l h src idx

/-- `c.out(dst, idx)`: panics exactly when `dst` has fewer than 243 entries; otherwise its first 243 entries become the
model's `outLane` of lane `idx mod 64` (values in {-1,0,1}) and the rest of `dst` is untouched -/
theorem code_out (c : Curl.Curl) (dst : List (BitVec 8)) (idx : BitVec 64) :
    (Gen.Curl.code.Curl_out c.l.toList c.h.toList dst idx =
      if 243 ≤ dst.length then some ((Curl.outLane c (idx.toNat % 64)).map (BitVec.ofInt 8) ++ dst.drop 243) else none) ∧
    (∀ x ∈ Curl.outLane c (idx.toNat % 64), (x = -1 ∨ x = 0 ∨ x = 1) ∧ (BitVec.ofInt 8 x).toInt = x) :=
  ⟨CurlCodeLanes.out_eq c dst idx, CurlCodeLanes.outLane_trits c _⟩

/-- `Reset` never panics and yields the model's initial state (direction 0 = `SpongeAbsorbing`) -/
theorem code_reset (l h : List (BitVec 64)) (hl : l.length = 729) (hh : h.length = 729) (d : BitVec 64) :
    Gen.Curl.code.Curl_Reset l h d = some (Curl.init.l.toList, Curl.init.h.toList, 0#64) :=
  CurlCodeLanes.reset_eq l h hl hh d

/-- `CopyState(l, h)` (assumption of the translation: `l` and `h` do not overlap): Go's `copy`; with 729-word
destinations exactly the two planes -/
theorem code_copyState (c : Curl.Curl) (l h : List (BitVec 64)) :
    (Gen.Curl.code.Curl_CopyState c.l.toList c.h.toList l h =
      (c.l.toList.take l.length ++ l.drop 729, c.h.toList.take h.length ++ h.drop 729)) ∧
    (l.length = 729 → h.length = 729 →
      Gen.Curl.code.Curl_CopyState c.l.toList c.h.toList l h = (c.copyState.1.toList, c.copyState.2.toList)) :=
  ⟨CurlCodeLanes.copyState_eq c l h, CurlCodeLanes.copyState_full c l h⟩

/-- `transformGeneric` (assumption of the translation, established by the extractor at its call chain: four pairwise
distinct arrays): same panic behaviour and same final contents of all four arrays as the model, for ALL planes -/
theorem code_transformGeneric (b : Curl.Bufs) :
    Gen.Curl.code.transformGeneric b.lto.toList b.hto.toList b.lfrom.toList b.hfrom.toList =
      (Curl.transformGeneric b).map (fun r => (r.lto.toList, r.hto.toList, r.lfrom.toList, r.hfrom.toList)) :=
  CurlCodePerm.transformGeneric_eq b

/-- … hence the regenerated code never panics and computes 81 rounds of the word-level specification `roundsW` into the
`to` arrays (and 80 rounds into the `from` arrays, which serve as scratch space) -/
theorem code_transformGeneric_spec (b : Curl.Bufs) :
    Gen.Curl.code.transformGeneric b.lto.toList b.hto.toList b.lfrom.toList b.hfrom.toList =
      some ((Spec.CurlW.roundsW 81 (b.lfrom, b.hfrom)).1.toList, (Spec.CurlW.roundsW 81 (b.lfrom, b.hfrom)).2.toList,
            (Spec.CurlW.roundsW 80 (b.lfrom, b.hfrom)).1.toList, (Spec.CurlW.roundsW 80 (b.lfrom, b.hfrom)).2.toList) :=
  CurlCodePerm.transformGeneric_some b

end Iota.Tie.Curl
