/-
Tie shared by C06 and C20: facts regenerated from pkg/curl (constants, the translated `sBox` and
`bool2int`, source snapshots of curl.go/transform.go, the build-tag selection of the permutation,
and the assembly file parsed into instructions).
-/
import Iota.Gen.Curl
import Iota.Gen.CurlAsm
import Iota.Tie.Expect
import Iota.Model.Curl
import Iota.Model.AsmProgram
import Iota.Proofs.Vectors.Curl

namespace Iota.Tie.Curl
open Iota

theorem constants :
    Gen.Curl.stateSize = (Curl.stateSize : Int) ∧ Gen.Curl.numRounds = (Curl.numRounds : Int) ∧
    Gen.Curl.hashTrinarySize = (Curl.hashSize : Int) ∧ Gen.Curl.maxBatchSize = 64 := by decide

/-- the translated s-box is the model's s-box -/
theorem sBox_eq (aL aH bL bH : BitVec 64) : Gen.Curl.sBox aL aH bL bH = Curl.sBox aL aH bL bH := rfl

theorem bool2int_eq (b : Bool) : Gen.Curl.bool2int b = Curl.bool2int b := by
  cases b <;> decide

/-- which permutation a build uses: the assembly exactly for amd64 && gc && !purego, the portable one otherwise,
and the portable `transform` is a plain call of `transformGeneric` -/
theorem build_selection :
    Gen.Curl.buildTagAsm = "//go:build amd64 && gc && !purego" ∧
    Gen.Curl.buildTagAsmS = "//go:build amd64 && gc && !purego" ∧
    Gen.Curl.buildTagNoasm = "// +build !amd64 !gc purego" ∧
    Gen.Curl.noasmBody = "func transform(lto, hto, lfrom, hfrom *[StateSize]uint) { transformGeneric(lto, hto, lfrom, hfrom) }" :=
  ⟨rfl, rfl, rfl, rfl⟩

/-- the instruction list parsed from transform_amd64.s is the one the C20 proofs are about -/
theorem asm_program : Gen.CurlAsm.program = Asm.program := by decide +kernel

theorem src :
    Gen.Curl.src_curl_transformGeneric = Expect.Curl_src_curl_transformGeneric ∧
    Gen.Curl.src_curl_sBox = Expect.Curl_src_curl_sBox ∧
    Gen.Curl.src_curl_NewCurlP81 = Expect.Curl_src_curl_NewCurlP81 ∧
    Gen.Curl.src_curl_Curl_Reset = Expect.Curl_src_curl_Curl_Reset ∧
    Gen.Curl.src_curl_Curl_Clone = Expect.Curl_src_curl_Curl_Clone ∧
    Gen.Curl.src_curl_Curl_CopyState = Expect.Curl_src_curl_Curl_CopyState ∧
    Gen.Curl.src_curl_Curl_Absorb = Expect.Curl_src_curl_Curl_Absorb ∧
    Gen.Curl.src_curl_Curl_Squeeze = Expect.Curl_src_curl_Curl_Squeeze ∧
    Gen.Curl.src_curl_Curl_in = Expect.Curl_src_curl_Curl_in ∧
    Gen.Curl.src_curl_Curl_out = Expect.Curl_src_curl_Curl_out ∧
    Gen.Curl.src_curl_Curl_transform = Expect.Curl_src_curl_Curl_transform ∧
    Gen.Curl.src_curl_bool2int = Expect.Curl_src_curl_bool2int :=
  ⟨rfl, rfl, rfl, rfl, rfl, rfl, rfl, rfl, rfl, rfl, rfl, rfl⟩

/-- everything else the package declares (imports, constants, types, variables, build constraints and the functions not
pinned one by one) is unchanged too: no declaration of the modelled packages can change without a tie theorem failing. -/
theorem rest :
    Gen.Curl.rest_curl = Expect.Curl_rest_curl :=
  rfl

end Iota.Tie.Curl
