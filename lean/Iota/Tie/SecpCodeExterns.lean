/-
The assumption `Iota.Tie.SecpCode.Externs` about the parameter `big_ModInverse` of the code translated from
btccurve/secp256k1.go, derived from the behaviour of `(*big.Int).ModInverse` as implemented (`ExternsSpec`; the Go documentation promises the inverse, the range `[0, n)` is what the implementation returns): for a modulus
`n > 0` a non-nil result is the inverse of `g` in `[0, n)`, and the result is nil only when `g` and `n` are not coprime.
Every function with that behaviour agrees with the model's `modInverse` on the modulus `P` (`ExternsSpec.toExterns`), and
`modInverse` has it for every modulus below 2^511 (`Proofs/Secp/ModInv.lean`), so the specification is satisfiable too.
Imports Mathlib (through `Proofs/Secp/ModInv.lean`), which is why it is not part of `Tie/SecpCode.lean`.
-/
import Iota.Tie.SecpCode
import Iota.Proofs.Secp.ModInv

namespace Iota.Tie.SecpCode
open Iota Iota.Secp256k1

/-- the behaviour of `new(big.Int).ModInverse(g, n)` for `0 < n < 2^511` (inverse: documented; its range `[0, n)`: as implemented); `none` = a nil result -/
structure ExternsSpec (inv : Int → Int → Option Int) : Prop where
  sound : ∀ g n zi : Int, 0 < n → n < 2 ^ 511 → inv g n = some zi → 0 ≤ zi ∧ zi < n ∧ (zi * g) % n = 1 % n
  nil_only : ∀ g n : Int, 0 < n → n < 2 ^ 511 → inv g n = none → Int.gcd g n ≠ 1

theorem P_pos' : (0 : Int) < P := by decide
theorem P_lt' : P < 2 ^ 511 := by decide +kernel

/-- two inverses of `g` in `[0, n)` are equal -/
theorem inverse_unique {g n a b : Int} (ha0 : 0 ≤ a) (han : a < n) (hb0 : 0 ≤ b) (hbn : b < n)
    (ha : (a * g) % n = 1 % n) (hb : (b * g) % n = 1 % n) : a = b := by
  have h1 : a % n = (a * (b * g)) % n := by
    rw [Int.mul_emod a (b * g), hb, ← Int.mul_emod, Int.mul_one]
  have h2 : b % n = (b * (a * g)) % n := by
    rw [Int.mul_emod b (a * g), ha, ← Int.mul_emod, Int.mul_one]
  have h3 : a * (b * g) = b * (a * g) := by ring
  rw [h3, ← h2, Int.emod_eq_of_lt ha0 han, Int.emod_eq_of_lt hb0 hbn] at h1
  exact h1

theorem ExternsSpec.toExterns {inv : Int → Int → Option Int} (S : ExternsSpec inv) : Externs inv := by
  refine ⟨fun g => ?_⟩
  cases h : inv g P with
  | none =>
    exact ((Proofs.Secp.modInverse_eq_none_iff P_pos' P_lt').2 (S.nil_only g P P_pos' P_lt' h)).symm
  | some zi =>
    obtain ⟨h0, h1, h2⟩ := S.sound g P zi P_pos' P_lt' h
    cases h' : modInverse g P with
    | none =>
      exfalso
      have hg := (Proofs.Secp.modInverse_eq_none_iff P_pos' P_lt').1 h'
      apply hg
      have hP1 : (1 : Int) % P = 1 := Int.emod_eq_of_lt (by decide) (by decide)
      rw [hP1] at h2
      have d1 : (Int.gcd g P : Int) ∣ g := Int.gcd_dvd_left ..
      have d2 : (Int.gcd g P : Int) ∣ P := Int.gcd_dvd_right ..
      have e : zi * g - P * (zi * g / P) = 1 := by
        have := Int.emod_add_mul_ediv (zi * g) P
        rw [h2] at this
        linarith [this]
      have d : (Int.gcd g P : Int) ∣ 1 := by
        rw [← e]; exact Int.dvd_sub (Dvd.dvd.mul_left d1 zi) (Dvd.dvd.mul_right d2 _)
      have := Int.eq_one_of_dvd_one (Int.natCast_nonneg _) d
      exact_mod_cast this
    | some zi' =>
      obtain ⟨_, k0, k1, k2⟩ := Proofs.Secp.modInverse_sound P_pos' P_lt' h'
      rw [inverse_unique h0 h1 k0 k1 h2 k2]

/-- the specification is satisfiable: the model's `modInverse` -/
theorem externsSpec_inhabited : ExternsSpec modInverse :=
  ⟨fun _ _ _ hn hb h => (Proofs.Secp.modInverse_sound hn hb h).2,
   fun _ _ hn hb h => (Proofs.Secp.modInverse_eq_none_iff hn hb).1 h⟩

end Iota.Tie.SecpCode
