/-
Code tie for pkg/encoding/b1t6/b1t6.go and the four functions of iota.go `trinary` it calls, translated AS CODE by
cmd/extract into `Iota/Gen/B1T6.lean` (namespaces `Gen.B1T6.trinary`, `Gen.B1T6.b1t6`; `none` = run-time panic),
against the model `Iota/Model/B1T6.lean` (namespace `B1T6`).  All 12 generated functions are characterised.

Coercions (from `B1T8Code` / `Bech32Code`).  Bytes: `bv : List UInt8 → List (BitVec 8)`.  Trits and tryte values: Go
`int8` is `BitVec 8` read as two's complement (`BitVec.toInt`), the model uses `Int`; `trits := List.map BitVec.toInt`,
`ofTrits := List.map (BitVec.ofInt 8)`.  Errors: `errOf : Option B1T6.Err → Option String` (nil ↦ none,
ErrInvalidTrits / ErrInvalidLength ↦ the names of the package variables).  `dst` is an OUTPUT BUFFER: the translated
functions take the content of the slice passed as `dst` and return, as last component, its content on return.

Main statements.
1. `mustPutTryteTrits_eq`, `mustTritsToTryteValue_eq` (+ `tv_eq_ofInt`, `tv_toInt`, `mustTritsToTryteValue_valid`),
   `mustTryteValueToTryte_eq`, `mustTryteToTryteValue_eq`: the `trinary` helpers on ALL inputs, including exactly when
   they panic.
2. `encodeGroup_eq` (all 256 bytes), `decodeGroup_eq` (ALL pairs of int8 values), `encodedLen_eq` / `encodedLen_toNat`,
   `decodedLen_toInt` (every int) / `decodedLen_eq`.
3. `encode_eq` / `encode_panics` (bundled: `encode_spec`), `len(src) < 2^60`.
4. `encodeToTrytes_eq`, `len(src) < 2^60`: never panics.
5. `decode_gen`: `Decode` on ARBITRARY int8 entries (`len(src) < 2^62`) is the recursive function `decodeBV` defined
   below (tryte values computed with int8 wrap-around), with a panic exactly when the decoded bytes do not fit into
   `dst`; `decode_of_room` / `decode_no_panic`: no panic when `len(src) / 6 ≤ len(dst)`; `decode_eq` / `decode_panics`
   (bundled: `decode_spec`): on valid trits `decodeBV` is the model's `decode`.  `decode_wraps`: without `ValidTrits`
   the Go code and the model really differ (the model does not wrap around), so that hypothesis cannot be dropped.
6. `decodeTrytes_gen`: `DecodeTrytes` on ARBITRARY bytes is the recursive function `decodeTrytesBV` (panic = a byte
   outside `'9'` … `'Z'` in a pair that is reached); `decodeTrytes_eq`: on bytes within `'9'` … `'Z'` it is the model's
   `decodeTrytes` and never panics; `decodeTrytes_lowercase_panics`: it does panic on `"aa"`.
   The hypothesis of these equalities is `3 * len(src) < 2^63` (implied by `len(src) < 2^61`), not `len(src) < 2^62`,
   because the function allocates `make([]byte, DecodedLen(len(src) * 3))` and the product wraps around beyond that.
   `decodeTrytes_neg_panics`: for `2^63 ≤ 3 * len(src) ≤ 2^64 - 6` the product is an int ≤ −6, `DecodedLen` of it is
   negative and `make` panics (the translation checks `Go.nonneg` of the length), whatever the bytes are.  The upper
   end is `2^64 - 6`, not `2^64 - 1`, because `DecodedLen` divides (truncating towards zero) before the sign matters:
   for the two lengths with `3 * len(src) = 2^64 - 4` or `2^64 - 1` the product is −4 resp. −1 and the buffer length is
   0 (`buf_edge`).  No Go slice is that long.
Also: `forUp_groups` (the index lists of the two three-clause loops; for `len(src) < g` the bound is negative and the
loop is not entered) and `header_sound` (these lists are what the loop headers compute step by step).

NOT covered.
* Lengths beyond the stated bounds (`2^60` for the encoders, `2^62` for `Decode`; for `DecodeTrytes` the result for
  `3 * len ≥ 2^64 - 5`: the buffer is then shorter than `len / 2`, so the function panics or returns an error early).
* What a panicking call leaves in `dst` (`Encode` has written the groups that fitted, `Decode` the bytes that fitted):
  `none` carries no state.
* Everything the translation does not model (see the header of `Iota/Gen/B1T6.lean`): slice capacity, aliasing of
  `dst` and `src` (their element types differ in `Encode` / `Decode`, so they cannot overlap), the text of the
  `fmt.Errorf` messages (only which package error is wrapped), `strings.Builder` internals.
* `Decode` on invalid trits is NOT compared with the model `B1T6.decode` (which is only meant for valid trits) but
  with `decodeBV`; likewise `DecodeTrytes` outside `'9'` … `'Z'` with `decodeTrytesBV`.  Note that the bytes `':'` … `'@'`
  (58 … 64) are accepted by the Go table (value 0) and by the model alike, although they are not tryte characters.
-/
import Iota.Gen.B1T6
import Iota.Model.B1T6
import Iota.Tie.GoFlow
import Iota.Tie.B1T8Code

namespace Iota.Tie.B1T6Code
open Iota Iota.Go
open Iota.Tie.Bech32Code (bv)
open Iota.Tie.B1T8Code (trits ofTrits ofNat_toNat8 writeAt writeAt_nil writeAt_set inRangeS_ofNat)

/-! ### 1. the four `trinary` helpers -/

/-- the three table entries `MustPutTryteTrits` writes (`none`: the index `v - MinTryteValue` is out of range) -/
def putVal (v : BitVec 8) : Option (List (BitVec 8)) :=
  let idx : BitVec 8 := v - BitVec.ofInt 8 (-13)
  if Go.inRangeS8 idx 27 then
    some [(Gen.B1T6.trinary.var_TryteValueToTritsLUT.getD idx.toNat []).getD 0 0#8,
      (Gen.B1T6.trinary.var_TryteValueToTritsLUT.getD idx.toNat []).getD 1 0#8,
      (Gen.B1T6.trinary.var_TryteValueToTritsLUT.getD idx.toNat []).getD 2 0#8]
  else none

theorem put_cons (a b c : BitVec 8) (rest : List (BitVec 8)) (v : BitVec 8) :
    Gen.B1T6.trinary.MustPutTryteTrits (a :: b :: c :: rest) v = (putVal v).map (· ++ rest) := by
  unfold Gen.B1T6.trinary.MustPutTryteTrits putVal
  simp only []
  generalize v - BitVec.ofInt 8 (-13) = idx
  cases h : Go.inRangeS8 idx 27 <;> simp

theorem put_short (ts : List (BitVec 8)) (v : BitVec 8) (h : ts.length < 3) :
    Gen.B1T6.trinary.MustPutTryteTrits ts v = none := by
  unfold Gen.B1T6.trinary.MustPutTryteTrits
  have : decide (2 < ts.length) = false := decide_eq_false (by omega)
  simp [this]

theorem putVal_nat : ∀ n : Nat, n < 256 →
    putVal (BitVec.ofNat 8 n) =
      if -13 ≤ (BitVec.ofNat 8 n).toInt ∧ (BitVec.ofNat 8 n).toInt ≤ 13 then
        some (ofTrits (B1T6.tryteTrits (BitVec.ofNat 8 n).toInt)) else none := by decide +kernel

theorem putVal_eq (v : BitVec 8) :
    putVal v = if -13 ≤ v.toInt ∧ v.toInt ≤ 13 then some (ofTrits (B1T6.tryteTrits v.toInt)) else none := by
  have := putVal_nat v.toNat v.isLt; rwa [ofNat_toNat8] at this


/-- **`trinary.MustPutTryteTrits`, all inputs**: it panics iff `trits` has fewer than 3 entries or the tryte value
`v` is outside −13 … 13; otherwise the first three entries are overwritten with the model's `tryteTrits v`. -/
theorem mustPutTryteTrits_eq (ts : List (BitVec 8)) (v : BitVec 8) :
    Gen.B1T6.trinary.MustPutTryteTrits ts v =
      if 3 ≤ ts.length ∧ -13 ≤ v.toInt ∧ v.toInt ≤ 13 then
        some (ofTrits (B1T6.tryteTrits v.toInt) ++ ts.drop 3) else none := by
  by_cases h : 3 ≤ ts.length
  · match ts, h with
    | a :: b :: c :: rest, h =>
      rw [put_cons, putVal_eq]
      by_cases hv : -13 ≤ v.toInt ∧ v.toInt ≤ 13
      · rw [if_pos hv, if_pos ⟨h, hv⟩]; rfl
      · rw [if_neg hv, if_neg (fun h' => hv h'.2)]; rfl
  · rw [put_short ts v (by omega), if_neg (fun h' => h h'.1)]

/-- the `int8` (wrap-around) value `t0 + 3·t1 + 9·t2` -/
def tv (a b c : BitVec 8) : BitVec 8 := a + b * 3#8 + c * 9#8

/-- **`trinary.MustTritsToTryteValue`, all inputs**: it panics iff there are fewer than 3 trits; otherwise the
result is `t0 + 3·t1 + 9·t2` in `int8` arithmetic (the rest of the slice is ignored). -/
theorem mustTritsToTryteValue_eq (ts : List (BitVec 8)) :
    Gen.B1T6.trinary.MustTritsToTryteValue ts =
      if 3 ≤ ts.length then some (tv (ts.getD 0 0#8) (ts.getD 1 0#8) (ts.getD 2 0#8)) else none := by
  unfold Gen.B1T6.trinary.MustTritsToTryteValue
  by_cases h : 3 ≤ ts.length
  · have h2 : decide (2 < ts.length) = true := decide_eq_true (by omega)
    have h1 : decide (1 < ts.length) = true := decide_eq_true (by omega)
    have h0 : decide (0 < ts.length) = true := decide_eq_true (by omega)
    simp only [h2, h1, h0, Bool.not_true, Bool.false_eq_true, if_false, if_pos h, Flow.result_done, tv]
  · have h2 : decide (2 < ts.length) = false := decide_eq_false (by omega)
    simp only [h2, Bool.not_false, if_true, if_neg h, Flow.result_panic]

/-- `tv` is the model's `tritsToTryteValue` reduced to `int8` (for all `int8` arguments) -/
theorem tv_eq_ofInt (a b c : BitVec 8) :
    tv a b c = BitVec.ofInt 8 (B1T6.tritsToTryteValue a.toInt b.toInt c.toInt) := by
  unfold tv B1T6.tritsToTryteValue
  rw [BitVec.ofInt_add, BitVec.ofInt_add, BitVec.ofInt_mul, BitVec.ofInt_mul, BitVec.ofInt_toInt, BitVec.ofInt_toInt,
    BitVec.ofInt_toInt]
  rfl

theorem validTrit_cases (a : BitVec 8) (h : B1T6.ValidTrit a.toInt) :
    a = BitVec.ofInt 8 (-1) ∨ a = 0#8 ∨ a = 1#8 := by
  rcases h with h | h | h
  · left; rw [← BitVec.ofInt_toInt (x := a), h]
  · right; left; rw [← BitVec.ofInt_toInt (x := a), h]; rfl
  · right; right; rw [← BitVec.ofInt_toInt (x := a), h]; rfl

/-- on trits in {−1, 0, 1} there is no wrap-around: the value is the model's -/
theorem tv_toInt (a b c : BitVec 8) (ha : B1T6.ValidTrit a.toInt) (hb : B1T6.ValidTrit b.toInt)
    (hc : B1T6.ValidTrit c.toInt) :
    (tv a b c).toInt = B1T6.tritsToTryteValue a.toInt b.toInt c.toInt := by
  rcases validTrit_cases a ha with rfl | rfl | rfl <;> rcases validTrit_cases b hb with rfl | rfl | rfl <;>
    rcases validTrit_cases c hc with rfl | rfl | rfl <;> decide

theorem valueToTryte_nat : ∀ n : Nat, n < 256 →
    Gen.B1T6.trinary.MustTryteValueToTryte (BitVec.ofNat 8 n) =
      if -13 ≤ (BitVec.ofNat 8 n).toInt ∧ (BitVec.ofNat 8 n).toInt ≤ 13 then
        some (B1T6.tryteChar (BitVec.ofNat 8 n).toInt).toBitVec else none := by decide +kernel

/-- **`trinary.MustTryteValueToTryte`, all inputs**: it panics iff `v` is outside −13 … 13; otherwise the result is
the model's `tryteChar v`. -/
theorem mustTryteValueToTryte_eq (v : BitVec 8) :
    Gen.B1T6.trinary.MustTryteValueToTryte v =
      if -13 ≤ v.toInt ∧ v.toInt ≤ 13 then some (B1T6.tryteChar v.toInt).toBitVec else none := by
  have := valueToTryte_nat v.toNat v.isLt; rwa [ofNat_toNat8] at this

theorem tryteToValue_nat : ∀ n : Nat, n < 256 →
    Gen.B1T6.trinary.MustTryteToTryteValue (BitVec.ofNat 8 n) =
      if 57 ≤ (BitVec.ofNat 8 n).toNat ∧ (BitVec.ofNat 8 n).toNat ≤ 90 then
        some (BitVec.ofInt 8 (B1T6.tryteValue (UInt8.ofBitVec (BitVec.ofNat 8 n)))) else none := by decide +kernel

/-- **`trinary.MustTryteToTryteValue`, all inputs**: it panics iff the byte is outside `'9'` (57) … `'Z'` (90) — in
particular on every lower-case letter; otherwise the result is the model's `tryteValue` (0 for `':'` … `'@'`). -/
theorem mustTryteToTryteValue_eq (t : BitVec 8) :
    Gen.B1T6.trinary.MustTryteToTryteValue t =
      if 57 ≤ t.toNat ∧ t.toNat ≤ 90 then some (BitVec.ofInt 8 (B1T6.tryteValue (UInt8.ofBitVec t))) else none := by
  have := tryteToValue_nat t.toNat t.isLt; rwa [ofNat_toNat8] at this

/-! ### 2. `EncodedLen`, `DecodedLen`, `encodeGroup`, `decodeGroup` -/

theorem encodeGroup_nat : ∀ n : Nat, n < 256 →
    Gen.B1T6.b1t6.encodeGroup (BitVec.ofNat 8 n) =
      (BitVec.ofInt 8 (B1T6.encodeGroup (UInt8.ofNat n)).1, BitVec.ofInt 8 (B1T6.encodeGroup (UInt8.ofNat n)).2) ∧
    -13 ≤ (B1T6.encodeGroup (UInt8.ofNat n)).1 ∧ (B1T6.encodeGroup (UInt8.ofNat n)).1 ≤ 13 ∧
    -13 ≤ (B1T6.encodeGroup (UInt8.ofNat n)).2 ∧ (B1T6.encodeGroup (UInt8.ofNat n)).2 ≤ 13 := by decide +kernel

theorem toInt8_bounds (t : BitVec 8) : -128 ≤ t.toInt ∧ t.toInt ≤ 127 := by
  have h1 := BitVec.le_toInt t
  have h2 := BitVec.toInt_lt (x := t)
  simp only [show (8 : Nat) - 1 = 7 from rfl] at h1 h2
  omega

/-- the 64-bit sum `int(t1) + int(t2)*27` computed by `decodeGroup` does not wrap around -/
theorem decodeGroup_v (t1 t2 : BitVec 8) :
    (BitVec.signExtend 64 t1 + BitVec.signExtend 64 t2 * 27#64).toInt = t1.toInt + t2.toInt * 27 := by
  have b1 := toInt8_bounds t1
  have b2 := toInt8_bounds t2
  have hm : (BitVec.signExtend 64 t2 * 27#64).toInt = t2.toInt * 27 := by
    rw [BitVec.toInt_mul, BitVec.toInt_signExtend_of_le (by decide), show (27#64 : BitVec 64).toInt = 27 from rfl]
    apply Int.bmod_eq_of_le <;> simp <;> omega
  rw [BitVec.toInt_add, hm, BitVec.toInt_signExtend_of_le (by decide)]
  apply Int.bmod_eq_of_le <;> simp <;> omega

/-- **`decodeGroup`, all pairs of `int8` values** (not only tryte values): the model's `decodeGroup` on the integer
values; `ok = false` comes with the byte 0. -/
theorem decodeGroup_eq (t1 t2 : BitVec 8) :
    Gen.B1T6.b1t6.decodeGroup t1 t2 =
      (match B1T6.decodeGroup t1.toInt t2.toInt with
       | some x => (x.toBitVec, true)
       | none => (0#8, false)) := by
  have b1 := toInt8_bounds t1
  have b2 := toInt8_bounds t2
  have hv := decodeGroup_v t1 t2
  unfold Gen.B1T6.b1t6.decodeGroup B1T6.decodeGroup
  simp only [BitVec.slt, hv, show (BitVec.ofInt 64 (-128)).toInt = -128 from by decide,
    show (127#64 : BitVec 64).toInt = 127 from rfl]
  by_cases h : t1.toInt + t2.toInt * 27 < -128 ∨ t1.toInt + t2.toInt * 27 > 127
  · rw [if_pos h]
    have : (decide (t1.toInt + t2.toInt * 27 < -128) || decide (127 < t1.toInt + t2.toInt * 27)) = true := by
      rcases h with h | h
      · simp [h]
      · have : 127 < t1.toInt + t2.toInt * 27 := h
        simp [this]
    rw [if_pos this]
  · rw [if_neg h]
    have : (decide (t1.toInt + t2.toInt * 27 < -128) || decide (127 < t1.toInt + t2.toInt * 27)) = false := by
      have h1 : ¬ t1.toInt + t2.toInt * 27 < -128 := fun h' => h (Or.inl h')
      have h2 : ¬ 127 < t1.toInt + t2.toInt * 27 := fun h' => h (Or.inr h')
      simp [h1, h2]
    rw [this]
    simp only [Bool.false_eq_true, if_false]
    congr 1
    apply BitVec.eq_of_toNat_eq
    have hx : (BitVec.signExtend 64 t1 + BitVec.signExtend 64 t2 * 27#64) =
        BitVec.ofInt 64 (t1.toInt + t2.toInt * 27) := by rw [← hv, BitVec.ofInt_toInt]
    rw [hx, BitVec.toNat_setWidth, BitVec.toNat_ofInt]
    show _ = (UInt8.ofNat ((t1.toInt + t2.toInt * 27) % 256).toNat).toNat
    rw [UInt8.toNat_ofNat']
    generalize t1.toInt + t2.toInt * 27 = V at h
    simp only [show ((2 ^ 64 : Nat) : Int) = 18446744073709551616 from rfl, show (2 : Nat) ^ 8 = 256 from rfl]
    omega


theorem toBitVec_eq_ofNat (b : UInt8) : BitVec.ofNat 8 b.toNat = b.toBitVec := by
  apply BitVec.eq_of_toNat_eq
  rw [BitVec.toNat_ofNat, UInt8.toNat_toBitVec]
  exact Nat.mod_eq_of_lt b.toNat_lt

/-- **`encodeGroup`, all 256 bytes**: the two tryte values of the model (as `int8`), both within −13 … 13. -/
theorem encodeGroup_eq (b : UInt8) :
    Gen.B1T6.b1t6.encodeGroup b.toBitVec =
      (BitVec.ofInt 8 (B1T6.encodeGroup b).1, BitVec.ofInt 8 (B1T6.encodeGroup b).2) ∧
    -13 ≤ (B1T6.encodeGroup b).1 ∧ (B1T6.encodeGroup b).1 ≤ 13 ∧
    -13 ≤ (B1T6.encodeGroup b).2 ∧ (B1T6.encodeGroup b).2 ≤ 13 := by
  have := encodeGroup_nat b.toNat b.toNat_lt
  rwa [UInt8.ofNat_toNat, toBitVec_eq_ofNat] at this

/-- **`EncodedLen`** (every `int`; for `n < 2^60` the product `6 * n` does not wrap around) -/
theorem encodedLen_eq (n : Nat) : Gen.B1T6.b1t6.EncodedLen (BitVec.ofNat 64 n) = BitVec.ofNat 64 (6 * n) := by
  unfold Gen.B1T6.b1t6.EncodedLen
  apply BitVec.eq_of_toNat_eq
  simp [BitVec.toNat_mul, Nat.mul_comm]

theorem encodedLen_toNat (n : Nat) (h : n < 2 ^ 60) :
    (Gen.B1T6.b1t6.EncodedLen (BitVec.ofNat 64 n)).toNat = 6 * n := by
  rw [encodedLen_eq, BitVec.toNat_ofNat]; exact Nat.mod_eq_of_lt (by omega)

/-- **`DecodedLen`, every `int`**: Go's truncated division by 6 -/
theorem decodedLen_toInt (n : BitVec 64) : (Gen.B1T6.b1t6.DecodedLen n).toInt = n.toInt.tdiv 6 := by
  unfold Gen.B1T6.b1t6.DecodedLen
  rw [BitVec.toInt_sdiv_of_ne_or_ne _ _ (Or.inr (by decide))]
  rfl

theorem sdiv_ofNat (n k : Nat) (hn : n < 2 ^ 63) (hk : k < 2 ^ 63) :
    BitVec.sdiv (BitVec.ofNat 64 n) (BitVec.ofNat 64 k) = BitVec.ofNat 64 (n / k) := by
  apply BitVec.eq_of_toInt_eq
  have hq : n / k < 2 ^ 63 := Nat.lt_of_le_of_lt (Nat.div_le_self n k) hn
  rw [BitVec.toInt_sdiv_of_ne_or_ne _ _ (Or.inl ?_), Go.toInt_ofNat_small n hn, Go.toInt_ofNat_small k hk,
    Go.toInt_ofNat_small _ hq, Int.tdiv_eq_ediv_of_nonneg (by omega)]
  · rfl
  · intro h
    have := congrArg BitVec.toNat h
    rw [BitVec.toNat_ofNat, Nat.mod_eq_of_lt (by omega)] at this
    simp [BitVec.intMin] at this
    omega

theorem srem_ofNat (n k : Nat) (hn : n < 2 ^ 63) (hk : k < 2 ^ 63) (hk0 : 0 < k) :
    BitVec.srem (BitVec.ofNat 64 n) (BitVec.ofNat 64 k) = BitVec.ofNat 64 (n % k) := by
  apply BitVec.eq_of_toInt_eq
  have hq : n % k < 2 ^ 63 := Nat.lt_of_lt_of_le (Nat.mod_lt n hk0) (by omega)
  rw [BitVec.toInt_srem, Go.toInt_ofNat_small n hn, Go.toInt_ofNat_small k hk,
    Go.toInt_ofNat_small _ hq, Int.tmod_eq_emod_of_nonneg (by omega)]
  rfl

/-- **`DecodedLen`** on a length -/
theorem decodedLen_eq (n : Nat) (h : n < 2 ^ 63) :
    Gen.B1T6.b1t6.DecodedLen (BitVec.ofNat 64 n) = BitVec.ofNat 64 (n / 6) :=
  sdiv_ofNat n 6 h (by decide)

/-! ### small facts about 64-bit indices and `Go.call` -/

theorem toNat_ofNat64 (k : Nat) (h : k < 2 ^ 64) : (BitVec.ofNat 64 k).toNat = k := by
  rw [BitVec.toNat_ofNat]; exact Nat.mod_eq_of_lt h

theorem sliceFromS_ofNat (k n : Nat) (hk : k < 2 ^ 63) : sliceFromS (BitVec.ofNat 64 k) n = decide (k ≤ n) := by
  unfold sliceFromS
  have hm : (BitVec.ofNat 64 k).msb = false := by
    rw [BitVec.msb_eq_false_iff_two_mul_lt, BitVec.toNat_ofNat]; omega
  rw [hm, BitVec.toNat_ofNat, Nat.mod_eq_of_lt (by omega : k < 2 ^ 64)]
  rfl

theorem sliceOK_ofNat (a b n : Nat) (ha : a < 2 ^ 63) (hb : b < 2 ^ 63) :
    sliceOK (BitVec.ofNat 64 a) (BitVec.ofNat 64 b) n = (decide (a ≤ b) && decide (b ≤ n)) := by
  unfold sliceOK
  have hma : (BitVec.ofNat 64 a).msb = false := by
    rw [BitVec.msb_eq_false_iff_two_mul_lt, BitVec.toNat_ofNat]; omega
  have hmb : (BitVec.ofNat 64 b).msb = false := by
    rw [BitVec.msb_eq_false_iff_two_mul_lt, BitVec.toNat_ofNat]; omega
  rw [hma, hmb, toNat_ofNat64 a (by omega), toNat_ofNat64 b (by omega)]
  rfl

@[simp] theorem call_some {ρ α : Type} (a : α) : (Go.call (some a) : Flow ρ α) = .run a := rfl
@[simp] theorem call_none {ρ α : Type} : (Go.call (none : Option α) : Flow ρ α) = .panic := rfl

/-- reading a slice through `for i := range src { … src[i] … }` -/
theorem idx_map (s : List (BitVec 8)) (h : s.length < 2 ^ 64) :
    ((List.range s.length).map (BitVec.ofNat 64)).map (fun i => s.getD i.toNat 0#8) = s := by
  rw [List.map_map]
  apply List.ext_getElem
  · simp
  · intro i h1 h2
    have hi : i < s.length := h2
    simp only [List.getElem_map, List.getElem_range, Function.comp, toNat_ofNat64 i (by omega),
      List.getD_eq_getElem?_getD, List.getElem?_eq_getElem hi, Option.getD_some]

/-! ### 3. `Encode` -/

theorem put_eq (ts : List (BitVec 8)) (v : BitVec 8) :
    Gen.B1T6.trinary.MustPutTryteTrits ts v =
      if 3 ≤ ts.length then (putVal v).map (· ++ ts.drop 3) else none := by
  by_cases h : 3 ≤ ts.length
  · match ts, h with
    | a :: b :: c :: rest, h => rw [put_cons, if_pos h]; rfl
  · rw [put_short ts v (by omega), if_neg h]

abbrev ESt := List (BitVec 8) × BitVec 64
abbrev ER := BitVec 64 × List (BitVec 8)

/-- the loop body of `Encode`, as generated -/
def encStep (src : List (BitVec 8)) (st_1 : ESt) (i : BitVec 64) : Flow ER ESt :=
      let dst : List (BitVec 8) := st_1.1
      let j : BitVec 64 := st_1.2
      let st_2 : BitVec 8 × BitVec 8 := (Gen.B1T6.b1t6.encodeGroup (src.getD i.toNat 0#8))
      let t1 : BitVec 8 := st_2.1
      let t2 : BitVec 8 := st_2.2
      if !(Go.sliceFromS j dst.length) then Go.Flow.panic else
      Go.Flow.bind (Go.call (Gen.B1T6.trinary.MustPutTryteTrits (dst.drop j.toNat) t1)) (fun (st_3 : List (BitVec 8)) =>
      let dst : List (BitVec 8) := (dst.take j.toNat ++ st_3)
      if !(Go.sliceFromS (j + 3#64) dst.length) then Go.Flow.panic else
      Go.Flow.bind (Go.call (Gen.B1T6.trinary.MustPutTryteTrits (dst.drop (j + 3#64).toNat) t2)) (fun (st_4 : List (BitVec 8)) =>
      let dst : List (BitVec 8) := (dst.take (j + 3#64).toNat ++ st_4)
      let j : BitVec 64 := (j + 6#64)
      Go.Flow.run (dst, j)))

theorem Encode_unfold (dst src : List (BitVec 8)) :
    Gen.B1T6.b1t6.Encode dst src =
      Flow.result (Flow.bind (Go.forIn ((List.range src.length).map (BitVec.ofNat 64)) (dst, 0#64) (encStep src))
        (fun st => Flow.done (st.2, st.1))) := rfl

/-- the six `int8` values `Encode` writes for the byte `b` -/
def encBV (b : BitVec 8) : List (BitVec 8) := ofTrits (B1T6.encodeByte (UInt8.ofBitVec b))

theorem enc_nat : ∀ n : Nat, n < 256 →
    putVal (Gen.B1T6.b1t6.encodeGroup (BitVec.ofNat 8 n)).1 =
      some (ofTrits (B1T6.tryteTrits (B1T6.encodeGroup (UInt8.ofBitVec (BitVec.ofNat 8 n))).1)) ∧
    putVal (Gen.B1T6.b1t6.encodeGroup (BitVec.ofNat 8 n)).2 =
      some (ofTrits (B1T6.tryteTrits (B1T6.encodeGroup (UInt8.ofBitVec (BitVec.ofNat 8 n))).2)) ∧
    (B1T6.tryteTrits (B1T6.encodeGroup (UInt8.ofBitVec (BitVec.ofNat 8 n))).1).length = 3 ∧
    (B1T6.tryteTrits (B1T6.encodeGroup (UInt8.ofBitVec (BitVec.ofNat 8 n))).2).length = 3 := by decide +kernel

theorem enc_bv (b : BitVec 8) :
    putVal (Gen.B1T6.b1t6.encodeGroup b).1 = some (ofTrits (B1T6.tryteTrits (B1T6.encodeGroup (UInt8.ofBitVec b)).1)) ∧
    putVal (Gen.B1T6.b1t6.encodeGroup b).2 = some (ofTrits (B1T6.tryteTrits (B1T6.encodeGroup (UInt8.ofBitVec b)).2)) ∧
    (B1T6.tryteTrits (B1T6.encodeGroup (UInt8.ofBitVec b)).1).length = 3 ∧
    (B1T6.tryteTrits (B1T6.encodeGroup (UInt8.ofBitVec b)).2).length = 3 := by
  have := enc_nat b.toNat b.isLt; rwa [ofNat_toNat8] at this

/-- one iteration with room for six trits: `A` is the part of `dst` before `j`, `B`, `C` the two windows written -/
theorem encStep_ok (src A B C D : List (BitVec 8)) (i : BitVec 64) (j : Nat) (hj : j + 6 < 2 ^ 63)
    (hA : A.length = j) (hB : B.length = 3) (hC : C.length = 3) :
    encStep src (A ++ (B ++ (C ++ D)), BitVec.ofNat 64 j) i =
      .run ((A ++ encBV (src.getD i.toNat 0#8)) ++ D, BitVec.ofNat 64 (j + 6)) := by
  obtain ⟨h1, h2, l1, l2⟩ := enc_bv (src.getD i.toNat 0#8)
  have e3 : BitVec.ofNat 64 j + 3#64 = BitVec.ofNat 64 (j + 3) := (BitVec.ofNat_add j 3).symm
  have e6 : BitVec.ofNat 64 j + 6#64 = BitVec.ofNat 64 (j + 6) := (BitVec.ofNat_add j 6).symm
  have lp1 : (ofTrits (B1T6.tryteTrits (B1T6.encodeGroup (UInt8.ofBitVec (src.getD i.toNat 0#8))).1)).length = 3 := by
    rw [ofTrits, List.length_map, l1]
  have hAp : (A ++ ofTrits (B1T6.tryteTrits (B1T6.encodeGroup (UInt8.ofBitVec (src.getD i.toNat 0#8))).1)).length = j + 3 := by
    rw [List.length_append, hA, lp1]
  unfold encStep
  simp only [e3, e6, toNat_ofNat64 j (by omega), toNat_ofNat64 (j + 3) (by omega),
    sliceFromS_ofNat j _ (by omega), sliceFromS_ofNat (j + 3) _ (by omega)]
  rw [List.drop_left' hA, List.take_left' hA, put_eq, h1]
  have d1 : decide (j ≤ (A ++ (B ++ (C ++ D))).length) = true := decide_eq_true (by simp; omega)
  have c1 : 3 ≤ (B ++ (C ++ D)).length := by simp; omega
  simp only [d1, if_pos c1, Bool.not_true, Bool.false_eq_true, if_false, Option.map_some, call_some, Flow.bind_run,
    List.drop_left' hB]
  rw [← List.append_assoc A, List.drop_left' hAp, List.take_left' hAp, put_eq, h2]
  have d2 : decide (j + 3 ≤ ((A ++ ofTrits (B1T6.tryteTrits (B1T6.encodeGroup (UInt8.ofBitVec (src.getD i.toNat 0#8))).1)) ++ (C ++ D)).length) = true :=
    decide_eq_true (by rw [List.length_append, hAp]; omega)
  have c2 : 3 ≤ (C ++ D).length := by simp; omega
  simp only [d2, if_pos c2, Bool.not_true, Bool.false_eq_true, if_false, Option.map_some, call_some, Flow.bind_run,
    List.drop_left' hC]
  simp only [encBV, B1T6.encodeByte, ofTrits, List.map_append, List.append_assoc]


/-- one iteration without room for six trits panics (in the first or in the second `MustPutTryteTrits`) -/
theorem encStep_panic (src A W : List (BitVec 8)) (i : BitVec 64) (j : Nat) (hj : j + 6 < 2 ^ 63)
    (hA : A.length = j) (hW : W.length < 6) :
    encStep src (A ++ W, BitVec.ofNat 64 j) i = .panic := by
  obtain ⟨h1, h2, l1, l2⟩ := enc_bv (src.getD i.toNat 0#8)
  have e3 : BitVec.ofNat 64 j + 3#64 = BitVec.ofNat 64 (j + 3) := (BitVec.ofNat_add j 3).symm
  have lp1 : (ofTrits (B1T6.tryteTrits (B1T6.encodeGroup (UInt8.ofBitVec (src.getD i.toNat 0#8))).1)).length = 3 := by
    rw [ofTrits, List.length_map, l1]
  have hAp : (A ++ ofTrits (B1T6.tryteTrits (B1T6.encodeGroup (UInt8.ofBitVec (src.getD i.toNat 0#8))).1)).length = j + 3 := by
    rw [List.length_append, hA, lp1]
  unfold encStep
  simp only [e3, toNat_ofNat64 j (by omega), toNat_ofNat64 (j + 3) (by omega),
    sliceFromS_ofNat j _ (by omega), sliceFromS_ofNat (j + 3) _ (by omega)]
  rw [List.drop_left' hA, List.take_left' hA, put_eq, h1]
  have d1 : decide (j ≤ (A ++ W).length) = true := decide_eq_true (by simp; omega)
  by_cases c1 : 3 ≤ W.length
  · simp only [d1, if_pos c1, Bool.not_true, Bool.false_eq_true, if_false, Option.map_some, call_some, Flow.bind_run]
    rw [← List.append_assoc A, List.drop_left' hAp, put_eq]
    have c2 : ¬ 3 ≤ (W.drop 3).length := by rw [List.length_drop]; omega
    simp only [if_neg c2, call_none, Flow.bind_panic]
    split <;> rfl
  · simp only [d1, if_neg c1, Bool.not_true, Bool.false_eq_true, if_false, call_none, Flow.bind_panic]

theorem split33 (W : List (BitVec 8)) (h : 6 ≤ W.length) :
    ∃ B C D, W = B ++ (C ++ D) ∧ B.length = 3 ∧ C.length = 3 ∧ D = W.drop 6 := by
  match W, h with
  | a :: b :: c :: d :: e :: f :: D, _ => exact ⟨[a, b, c], [d, e, f], D, rfl, rfl, rfl, rfl⟩

theorem encBV_length (b : BitVec 8) : (encBV b).length = 6 := by
  obtain ⟨_, _, l1, l2⟩ := enc_bv b
  simp only [encBV, B1T6.encodeByte, ofTrits, List.length_map, List.length_append, l1, l2]

/-- the loop of `Encode` from the state "`A` written, window `W` left, `j = len(A)`" over any list of indices -/
theorem forIn_encStep (src : List (BitVec 8)) (is : List (BitVec 64)) : ∀ (A W : List (BitVec 8)),
    A.length + 6 * is.length < 2 ^ 63 →
    Go.forIn is (A ++ W, BitVec.ofNat 64 A.length) (encStep src) =
      if 6 * is.length ≤ W.length then
        .run ((A ++ is.flatMap (fun i => encBV (src.getD i.toNat 0#8))) ++ W.drop (6 * is.length),
          BitVec.ofNat 64 (A.length + 6 * is.length))
      else .panic := by
  induction is with
  | nil => intro A W _; simp
  | cons i is ih =>
    intro A W hlen
    simp only [List.length_cons] at hlen
    rw [forIn_cons]
    by_cases h : 6 ≤ W.length
    · obtain ⟨B, C, D, hW, hB, hC, hD⟩ := split33 W h
      have hWl : W.length = D.length + 6 := by rw [hD, List.length_drop]; omega
      have hdd : W.drop (6 * (is.length + 1)) = D.drop (6 * is.length) := by
        rw [hD, List.drop_drop]; congr 1; omega
      rw [List.length_cons, hdd, hWl]
      conv => lhs; rw [hW]
      rw [encStep_ok src A B C D i A.length (by omega) rfl hB hC, Flow.bind_run]
      have hl : (A ++ encBV (src.getD i.toNat 0#8)).length = A.length + 6 := by
        rw [List.length_append, encBV_length]
      have := ih (A ++ encBV (src.getD i.toNat 0#8)) D (by rw [hl]; omega)
      rw [hl] at this
      rw [this]
      simp only [List.flatMap_cons, List.append_assoc]
      by_cases h2 : 6 * is.length ≤ D.length
      · rw [if_pos h2, if_pos (by omega)]
        congr 3
        omega
      · rw [if_neg h2, if_neg (by omega)]
    · rw [encStep_panic src A W i A.length (by omega) rfl (by omega), Flow.bind_panic, if_neg]
      simp only [List.length_cons]; omega

theorem flatMap_encBV (src : List UInt8) : (bv src).flatMap encBV = ofTrits (B1T6.encode src) := by
  induction src with
  | nil => rfl
  | cons b src ih =>
    simp only [bv, List.map_cons, List.flatMap_cons, B1T6.encode, ofTrits, List.map_append] at ih ⊢
    rw [ih]
    rfl

theorem bv_length (src : List UInt8) : (bv src).length = src.length := by simp [bv]

theorem Encode_loop (dst : List (BitVec 8)) (src : List UInt8) (hlen : src.length < 2 ^ 60) :
    Go.forIn ((List.range (bv src).length).map (BitVec.ofNat 64)) (dst, 0#64) (encStep (bv src)) =
      if 6 * src.length ≤ dst.length then
        .run (ofTrits (B1T6.encode src) ++ dst.drop (6 * src.length), BitVec.ofNat 64 (6 * src.length))
      else .panic := by
  have := forIn_encStep (bv src) ((List.range (bv src).length).map (BitVec.ofNat 64)) [] dst
    (by simp [bv_length]; omega)
  simp only [List.nil_append, List.length_nil, Nat.zero_add] at this
  rw [show (0#64 : BitVec 64) = BitVec.ofNat 64 0 from rfl, this, ← List.flatMap_map,
    idx_map (bv src) (by rw [bv_length]; omega), flatMap_encBV]
  simp only [List.length_map, List.length_range, bv_length]

/-- **`Encode`, enough room** (`len(src) < 2^60`): no panic; returns `6 * len(src)`; the first `6 * len(src)` entries
of `dst` are overwritten with the model's `encode src`, the others are untouched. -/
theorem encode_eq (dst : List (BitVec 8)) (src : List UInt8) (hlen : src.length < 2 ^ 60)
    (h : 6 * src.length ≤ dst.length) :
    Gen.B1T6.b1t6.Encode dst (bv src) =
      some (BitVec.ofNat 64 (6 * src.length), ofTrits (B1T6.encode src) ++ dst.drop (6 * src.length)) := by
  rw [Encode_unfold, Encode_loop dst src hlen, if_pos h]
  rfl

/-- **`Encode`, `dst` too short**: the Go function panics (in `MustPutTryteTrits`, or at the slice expression
`dst[j:]`, in the iteration that does not fit; the earlier groups have been written by then). -/
theorem encode_panics (dst : List (BitVec 8)) (src : List UInt8) (hlen : src.length < 2 ^ 60)
    (h : dst.length < 6 * src.length) :
    Gen.B1T6.b1t6.Encode dst (bv src) = none := by
  rw [Encode_unfold, Encode_loop dst src hlen, if_neg (by omega)]
  rfl


/-! ### 4. `EncodeToTrytes` -/

/-- the loop body of `EncodeToTrytes`, as generated -/
def e2tStep (src : List (BitVec 8)) (dst : List (BitVec 8)) (i : BitVec 64) :
    Flow (List (BitVec 8)) (List (BitVec 8)) :=
      let st_1 : BitVec 8 × BitVec 8 := (Gen.B1T6.b1t6.encodeGroup (src.getD i.toNat 0#8))
      let t1 : BitVec 8 := st_1.1
      let t2 : BitVec 8 := st_1.2
      Go.Flow.bind (Go.call (Gen.B1T6.trinary.MustTryteValueToTryte t1)) (fun (st_2 : BitVec 8) =>
      let dst : List (BitVec 8) := (dst ++ [st_2])
      Go.Flow.bind (Go.call (Gen.B1T6.trinary.MustTryteValueToTryte t2)) (fun (st_3 : BitVec 8) =>
      let dst : List (BitVec 8) := (dst ++ [st_3])
      Go.Flow.run dst))

theorem EncodeToTrytes_unfold (src : List (BitVec 8)) :
    Gen.B1T6.b1t6.EncodeToTrytes src =
      Flow.result (
        if !(Go.nonneg (BitVec.sdiv (Gen.B1T6.b1t6.EncodedLen (BitVec.ofNat 64 src.length)) 3#64)) then Go.Flow.panic else
        Flow.bind (Go.forIn ((List.range src.length).map (BitVec.ofNat 64)) ([] : List (BitVec 8)) (e2tStep src))
          (fun dst => Flow.done dst)) := rfl

/-- the two characters `EncodeToTrytes` appends for the byte `b` -/
def e2tBV (b : BitVec 8) : List (BitVec 8) := bv (B1T6.encodeByteTrytes (UInt8.ofBitVec b))

theorem e2t_nat : ∀ n : Nat, n < 256 →
    Gen.B1T6.trinary.MustTryteValueToTryte (Gen.B1T6.b1t6.encodeGroup (BitVec.ofNat 8 n)).1 =
      some (B1T6.tryteChar (B1T6.encodeGroup (UInt8.ofBitVec (BitVec.ofNat 8 n))).1).toBitVec ∧
    Gen.B1T6.trinary.MustTryteValueToTryte (Gen.B1T6.b1t6.encodeGroup (BitVec.ofNat 8 n)).2 =
      some (B1T6.tryteChar (B1T6.encodeGroup (UInt8.ofBitVec (BitVec.ofNat 8 n))).2).toBitVec := by decide +kernel

theorem e2tStep_eq (src dst : List (BitVec 8)) (i : BitVec 64) :
    e2tStep src dst i = .run (dst ++ e2tBV (src.getD i.toNat 0#8)) := by
  have := e2t_nat (src.getD i.toNat 0#8).toNat (BitVec.isLt _)
  rw [ofNat_toNat8] at this
  unfold e2tStep
  simp only [this.1, this.2, call_some, Flow.bind_run, e2tBV, B1T6.encodeByteTrytes, bv, List.map_cons, List.map_nil,
    List.append_assoc, List.cons_append, List.nil_append]

theorem forIn_e2tStep (src : List (BitVec 8)) (is : List (BitVec 64)) (dst : List (BitVec 8)) :
    Go.forIn is dst (e2tStep src) = .run (dst ++ is.flatMap (fun i => e2tBV (src.getD i.toNat 0#8))) := by
  induction is generalizing dst with
  | nil => simp
  | cons i is ih => rw [forIn_cons, e2tStep_eq, Flow.bind_run, ih, List.flatMap_cons, List.append_assoc]

theorem flatMap_e2tBV (src : List UInt8) : (bv src).flatMap e2tBV = bv (B1T6.encodeToTrytes src) := by
  induction src with
  | nil => rfl
  | cons b src ih =>
    simp only [bv, List.map_cons, List.flatMap_cons, B1T6.encodeToTrytes, List.map_append] at ih ⊢
    rw [ih]
    rfl

/-- the capacity `EncodedLen(len(src)) / 3` passed to `Grow` is not negative -/
theorem grow_nonneg (n : Nat) (h : n < 2 ^ 60) :
    Go.nonneg (BitVec.sdiv (Gen.B1T6.b1t6.EncodedLen (BitVec.ofNat 64 n)) 3#64) = true := by
  rw [encodedLen_eq, show (3#64 : BitVec 64) = BitVec.ofNat 64 3 from rfl, sdiv_ofNat (6 * n) 3 (by omega) (by decide)]
  unfold Go.nonneg
  have : (BitVec.ofNat 64 (6 * n / 3)).msb = false := by
    rw [BitVec.msb_eq_false_iff_two_mul_lt, BitVec.toNat_ofNat]; omega
  rw [this]; rfl

/-- **`EncodeToTrytes`** (`len(src) < 2^60`): never panics; the result is the model's `encodeToTrytes src`. -/
theorem encodeToTrytes_eq (src : List UInt8) (hlen : src.length < 2 ^ 60) :
    Gen.B1T6.b1t6.EncodeToTrytes (bv src) = some (bv (B1T6.encodeToTrytes src)) := by
  rw [EncodeToTrytes_unfold, bv_length, grow_nonneg src.length hlen, forIn_e2tStep, ← List.flatMap_map,
    ← bv_length src, idx_map (bv src) (by rw [bv_length]; omega), flatMap_e2tBV]
  rfl


/-! ### the index list of `for j := 0; j <= len(src)-g; j += g` -/

/-- for `len(src) < g` the bound `len(src) - g` is negative and the loop is not entered; otherwise `j` takes the
values `0, g, 2g, …, g * (len(src)/g - 1)` -/
theorem forUp_groups (n g : Nat) (hn : n < 2 ^ 62) (hg0 : 0 < g) (hg : g < 2 ^ 62) :
    forUp true true 0#64 (BitVec.ofNat 64 n - BitVec.ofNat 64 g) g =
      (List.range (n / g)).map (fun k => BitVec.ofNat 64 (g * k)) := by
  by_cases h : g ≤ n
  · have hsub : BitVec.ofNat 64 n - BitVec.ofNat 64 g = BitVec.ofNat 64 (n - g) := by
      apply BitVec.eq_of_toNat_eq
      rw [BitVec.toNat_sub, toNat_ofNat64 n (by omega), toNat_ofNat64 g (by omega), toNat_ofNat64 (n - g) (by omega)]
      omega
    rw [hsub, show (0#64 : BitVec 64) = BitVec.ofNat 64 0 from rfl,
      forUp_int true 0 (n - g) g (by simp) (by omega)]
    simp only [if_true, Nat.sub_zero, Nat.zero_add]
    rw [← Nat.div_eq_sub_div hg0 h]
    apply List.map_congr_left
    intro m _
    rw [Nat.mul_comm]
  · have hlt : n / g = 0 := Nat.div_eq_of_lt (by omega)
    rw [hlt, forUp_eq]
    have : cmpUp true true (BitVec.ofNat 64 n - BitVec.ofNat 64 g) 0#64 = false := by
      unfold cmpUp
      simp only [if_true]
      rw [BitVec.sle, BitVec.toInt_sub, Go.toInt_ofNat_small n (by omega), Go.toInt_ofNat_small g (by omega)]
      have : ((n : Int) - (g : Int)).bmod (2 ^ 64) = (n : Int) - g := by
        apply Int.bmod_eq_of_le <;> simp <;> omega
      rw [this]
      exact decide_eq_false (by simp; omega)
    rw [this]
    rfl

theorem range_map_range' (n : Nat) (f : Nat → BitVec 64) : (List.range n).map f = (List.range' 0 n).map f := by
  rw [List.range_eq_range']

theorem bne_ofNat_zero (r : Nat) (h : r < 2 ^ 64) : (BitVec.ofNat 64 r != 0#64) = decide (r ≠ 0) := by
  by_cases hr : r = 0
  · subst hr; rfl
  · rw [decide_eq_true hr, bne_iff_ne]
    intro h'
    have := congrArg BitVec.toNat h'
    rw [toNat_ofNat64 r h] at this
    exact hr this

/-! ### 5. `Decode` -/

abbrev DSt := List (BitVec 8) × BitVec 64
abbrev DR := BitVec 64 × Option String × List (BitVec 8)

/-- the loop body of `Decode`, as generated -/
def decStep (src : List (BitVec 8)) (st_1 : DSt) (j : BitVec 64) : Flow DR DSt :=
      let dst : List (BitVec 8) := st_1.1
      let i : BitVec 64 := st_1.2
      if !(Go.sliceFromS j src.length) then Go.Flow.panic else
      Go.Flow.bind (Go.call (Gen.B1T6.trinary.MustTritsToTryteValue (src.drop j.toNat))) (fun (st_2 : BitVec 8) =>
      let t1 : BitVec 8 := st_2
      if !(Go.sliceFromS (j + 3#64) src.length) then Go.Flow.panic else
      Go.Flow.bind (Go.call (Gen.B1T6.trinary.MustTritsToTryteValue (src.drop (j + 3#64).toNat))) (fun (st_3 : BitVec 8) =>
      let t2 : BitVec 8 := st_3
      let st_4 : BitVec 8 × Bool := (Gen.B1T6.b1t6.decodeGroup t1 t2)
      let b : BitVec 8 := st_4.1
      let ok : Bool := st_4.2
      if (!ok) then
        if !(Go.sliceOK j (j + 6#64) src.length) then Go.Flow.panic else
        Go.Flow.done (i, (some "ErrInvalidTrits"), dst)
      else
      if !(Go.inRangeS i dst.length) then Go.Flow.panic else
      let dst : List (BitVec 8) := (dst.set i.toNat b)
      let i : BitVec 64 := (i + 1#64)
      Go.Flow.run (dst, i)))

/-- the statements of `Decode` after the loop, as generated -/
def decTail (src : List (BitVec 8)) (st_1 : DSt) : Flow DR DR :=
  let dst : List (BitVec 8) := st_1.1
  let i : BitVec 64 := st_1.2
  if ((BitVec.srem (BitVec.ofNat 64 src.length) 6#64) != 0#64) then
    Go.Flow.done (i, (some "ErrInvalidLength"), dst)
  else
  Go.Flow.done (i, (none : Option String), dst)

theorem Decode_unfold (dst src : List (BitVec 8)) :
    Gen.B1T6.b1t6.Decode dst src =
      Flow.result (Flow.bind (Go.forIn (Go.forUp true true 0#64 ((BitVec.ofNat 64 src.length) - 6#64) 6) (dst, 0#64)
        (decStep src)) (decTail src)) := rfl

/-- `Decode` on ARBITRARY `int8` entries, as a recursive function on the source: the tryte values are computed with
`int8` wrap-around (`tv`); bytes decoded before stopping, and the error -/
def decodeBV : List (BitVec 8) → List (BitVec 8) × Option B1T6.Err
  | t0 :: t1 :: t2 :: t3 :: t4 :: t5 :: rest =>
    if (Gen.B1T6.b1t6.decodeGroup (tv t0 t1 t2) (tv t3 t4 t5)).2 then
      ((Gen.B1T6.b1t6.decodeGroup (tv t0 t1 t2) (tv t3 t4 t5)).1 :: (decodeBV rest).1, (decodeBV rest).2)
    else ([], some .invalidTrits)
  | [] => ([], none)
  | _ => ([], some .invalidLength)

theorem decodeBV_cons6 (t0 t1 t2 t3 t4 t5 : BitVec 8) (rest : List (BitVec 8)) :
    decodeBV (t0 :: t1 :: t2 :: t3 :: t4 :: t5 :: rest) =
      if (Gen.B1T6.b1t6.decodeGroup (tv t0 t1 t2) (tv t3 t4 t5)).2 then
        ((Gen.B1T6.b1t6.decodeGroup (tv t0 t1 t2) (tv t3 t4 t5)).1 :: (decodeBV rest).1, (decodeBV rest).2)
      else ([], some .invalidTrits) := by
  rw [decodeBV]

theorem decodeBV_short (s : List (BitVec 8)) (h : s.length < 6) :
    decodeBV s = ([], if s.length = 0 then none else some .invalidLength) := by
  match s, h with
  | [], _ => rfl
  | [a], _ => rfl
  | [a, b], _ => rfl
  | [a, b, c], _ => rfl
  | [a, b, c, d], _ => rfl
  | [a, b, c, d, e], _ => rfl
  | _ :: _ :: _ :: _ :: _ :: _ :: _, h => simp at h; omega

/-- the names of the package's error variables (`errors.Is`) -/
def errOf : Option B1T6.Err → Option String
  | none => none
  | some .invalidTrits => some "ErrInvalidTrits"
  | some .invalidLength => some "ErrInvalidLength"

theorem cons6 (s : List (BitVec 8)) (h : 6 ≤ s.length) :
    ∃ t0 t1 t2 t3 t4 t5 rest, s = t0 :: t1 :: t2 :: t3 :: t4 :: t5 :: rest := by
  match s, h with
  | t0 :: t1 :: t2 :: t3 :: t4 :: t5 :: rest, _ => exact ⟨t0, t1, t2, t3, t4, t5, rest, rfl⟩

/-- one iteration on the group starting at `j` -/
theorem decStep_eq (src dst : List (BitVec 8)) (i j : Nat) (hn : src.length < 2 ^ 62) (hi : i < 2 ^ 63)
    (t0 t1 t2 t3 t4 t5 : BitVec 8) (rest : List (BitVec 8))
    (hs : src.drop j = t0 :: t1 :: t2 :: t3 :: t4 :: t5 :: rest) :
    decStep src (dst, BitVec.ofNat 64 i) (BitVec.ofNat 64 j) =
      if (Gen.B1T6.b1t6.decodeGroup (tv t0 t1 t2) (tv t3 t4 t5)).2 then
        if i < dst.length then
          .run (dst.set i (Gen.B1T6.b1t6.decodeGroup (tv t0 t1 t2) (tv t3 t4 t5)).1, BitVec.ofNat 64 (i + 1))
        else .panic
      else .done (BitVec.ofNat 64 i, some "ErrInvalidTrits", dst) := by
  have hj : j + 6 ≤ src.length := by
    have := congrArg List.length hs
    rw [List.length_drop] at this
    simp only [List.length_cons] at this
    omega
  have e3 : BitVec.ofNat 64 j + 3#64 = BitVec.ofNat 64 (j + 3) := (BitVec.ofNat_add j 3).symm
  have e6 : BitVec.ofNat 64 j + 6#64 = BitVec.ofNat 64 (j + 6) := (BitVec.ofNat_add j 6).symm
  have e1 : BitVec.ofNat 64 i + 1#64 = BitVec.ofNat 64 (i + 1) := (BitVec.ofNat_add i 1).symm
  have hs3 : src.drop (j + 3) = t3 :: t4 :: t5 :: rest := by rw [← List.drop_drop, hs]; rfl
  unfold decStep
  simp only [e3, e6, e1, toNat_ofNat64 j (by omega), toNat_ofNat64 (j + 3) (by omega), toNat_ofNat64 i (by omega),
    sliceFromS_ofNat j _ (by omega), sliceFromS_ofNat (j + 3) _ (by omega),
    sliceOK_ofNat j (j + 6) _ (by omega) (by omega), inRangeS_ofNat i _ hi, hs, hs3, mustTritsToTryteValue_eq]
  have d1 : decide (j ≤ src.length) = true := decide_eq_true (by omega)
  have d2 : decide (j + 3 ≤ src.length) = true := decide_eq_true (by omega)
  have d3 : decide (j + 6 ≤ src.length) = true := decide_eq_true hj
  have d4 : decide (j ≤ j + 6) = true := decide_eq_true (by omega)
  have c1 : 3 ≤ (t0 :: t1 :: t2 :: t3 :: t4 :: t5 :: rest).length := by simp
  have c2 : 3 ≤ (t3 :: t4 :: t5 :: rest).length := by simp
  simp only [d1, d2, d3, d4, if_pos c1, if_pos c2, Bool.not_true, Bool.false_eq_true, if_false, call_some,
    Flow.bind_run, List.getD_cons_zero, List.getD_cons_succ, Bool.and_self]
  cases hg : (Gen.B1T6.b1t6.decodeGroup (tv t0 t1 t2) (tv t3 t4 t5)).2
  · simp only [Bool.not_false, if_true, Bool.false_eq_true, if_false]
  · simp only [Bool.not_true, Bool.false_eq_true, if_false, if_true]
    by_cases hd : i < dst.length
    · simp only [decide_eq_true hd, if_pos hd, Bool.not_true, Bool.false_eq_true, if_false]
    · simp only [decide_eq_false hd, if_neg hd, Bool.not_false, if_true]

/-- what `Decode` returns from the state "`i` bytes written, `s` = the part of `src` not yet read" -/
def specD (dst s : List (BitVec 8)) (i : Nat) : Option DR :=
  if i + (decodeBV s).1.length ≤ dst.length then
    some (BitVec.ofNat 64 (i + (decodeBV s).1.length), errOf (decodeBV s).2, writeAt dst i (decodeBV s).1)
  else none

theorem decTail_eq (src dst : List (BitVec 8)) (i : Nat) (hn : src.length < 2 ^ 62) :
    decTail src (dst, BitVec.ofNat 64 i) =
      .done (BitVec.ofNat 64 i, (if src.length % 6 = 0 then none else some "ErrInvalidLength"), dst) := by
  unfold decTail
  simp only []
  rw [show (6#64 : BitVec 64) = BitVec.ofNat 64 6 from rfl, srem_ofNat _ 6 (by omega) (by decide) (by decide),
    bne_ofNat_zero _ (by omega)]
  by_cases h : src.length % 6 = 0
  · rw [if_pos h, decide_eq_false (by omega)]; rfl
  · rw [if_neg h, decide_eq_true h]; rfl

theorem dec_loop (src : List (BitVec 8)) (hn : src.length < 2 ^ 62) : ∀ (m k i : Nat) (dst : List (BitVec 8)),
    k + m = src.length / 6 → i + m < 2 ^ 63 → i ≤ dst.length →
    Flow.result ((Go.forIn ((List.range' k m).map (fun k => BitVec.ofNat 64 (6 * k))) (dst, BitVec.ofNat 64 i)
      (decStep src)).bind (decTail src)) = specD dst (src.drop (6 * k)) i := by
  intro m
  induction m with
  | zero =>
    intro k i dst hk hi hd
    have hl : (src.drop (6 * k)).length = src.length % 6 := by rw [List.length_drop]; omega
    have hm := Nat.mod_lt src.length (show 0 < 6 by decide)
    rw [List.range'_zero, List.map_nil, forIn_nil, Flow.bind_run, decTail_eq src dst i hn, specD,
      decodeBV_short _ (by omega), hl]
    simp only [List.length_nil, Nat.add_zero, if_pos hd, writeAt_nil, Flow.result_done]
    by_cases h : src.length % 6 = 0
    · rw [if_pos h, if_pos h]; rfl
    · rw [if_neg h, if_neg h]; rfl
  | succ m ih =>
    intro k i dst hk hi hd
    have hl : 6 ≤ (src.drop (6 * k)).length := by rw [List.length_drop]; omega
    obtain ⟨t0, t1, t2, t3, t4, t5, rest, hs⟩ := cons6 _ hl
    have hrest : src.drop (6 * (k + 1)) = rest := by
      rw [show 6 * (k + 1) = 6 * k + 6 by omega, ← List.drop_drop, hs]; rfl
    rw [List.range'_succ, List.map_cons, forIn_cons, decStep_eq src dst i (6 * k) hn (by omega) t0 t1 t2 t3 t4 t5 rest hs,
      specD, hs, decodeBV_cons6]
    cases hg : (Gen.B1T6.b1t6.decodeGroup (tv t0 t1 t2) (tv t3 t4 t5)).2
    · simp only [Bool.false_eq_true, if_false, Flow.bind_done, Flow.result_done, List.length_nil, Nat.add_zero,
        if_pos hd, writeAt_nil]
      rfl
    · simp only [if_true, List.length_cons]
      by_cases hid : i < dst.length
      · rw [if_pos hid, Flow.bind_run, ih (k + 1) (i + 1) _ (by omega) (by omega) (by rw [List.length_set]; omega),
          specD, hrest, List.length_set]
        by_cases hfit : i + 1 + (decodeBV rest).1.length ≤ dst.length
        · rw [if_pos hfit, if_pos (by omega), writeAt_set dst i _ _ hid]
          congr 3
          omega
        · rw [if_neg hfit, if_neg (by omega)]
      · rw [if_neg hid, Flow.bind_panic, Flow.bind_panic, Flow.result_panic, if_neg (by omega)]

/-- **`Decode`, ARBITRARY `int8` entries** (`len(src) < 2^62`): with `(bytes, err) = decodeBV src`, if the bytes fit into
`dst` the Go function does not panic, returns `(len(bytes), err)` and has overwritten exactly the first `len(bytes)`
entries of `dst`; if they do not fit it panics (`dst[i] = b` out of range). -/
theorem decode_gen (dst src : List (BitVec 8)) (hn : src.length < 2 ^ 62) :
    Gen.B1T6.b1t6.Decode dst src =
      if (decodeBV src).1.length ≤ dst.length then
        some (BitVec.ofNat 64 (decodeBV src).1.length, errOf (decodeBV src).2,
          (decodeBV src).1 ++ dst.drop (decodeBV src).1.length)
      else none := by
  rw [Decode_unfold, show (6#64 : BitVec 64) = BitVec.ofNat 64 6 from rfl,
    forUp_groups src.length 6 hn (by decide) (by decide), range_map_range',
    show (0#64 : BitVec 64) = BitVec.ofNat 64 0 from rfl,
    dec_loop src hn (src.length / 6) 0 0 dst (by omega) (by omega) (Nat.zero_le _), specD]
  simp only [Nat.mul_zero, List.drop_zero, Nat.zero_add, writeAt, List.take_zero, List.nil_append]


/-- `decodeBV` decodes at most `len / 6` bytes -/
theorem decodeBV_length_le : ∀ (n : Nat) (s : List (BitVec 8)), s.length ≤ n → (decodeBV s).1.length * 6 ≤ s.length := by
  intro n
  induction n with
  | zero =>
    intro s h
    rw [decodeBV_short s (by omega)]; simp
  | succ n ih =>
    intro s h
    by_cases h6 : 6 ≤ s.length
    · obtain ⟨t0, t1, t2, t3, t4, t5, rest, rfl⟩ := cons6 s h6
      rw [decodeBV_cons6]
      simp only [List.length_cons] at h ⊢
      have := ih rest (by omega)
      split
      · simp only [List.length_cons]; omega
      · simp
    · rw [decodeBV_short s (by omega)]; simp

/-- **`Decode` with a destination of at least `DecodedLen(len(src))` bytes never panics**, whatever the `int8`
entries of `src` are. -/
theorem decode_of_room (dst src : List (BitVec 8)) (hn : src.length < 2 ^ 62) (hroom : src.length / 6 ≤ dst.length) :
    Gen.B1T6.b1t6.Decode dst src =
      some (BitVec.ofNat 64 (decodeBV src).1.length, errOf (decodeBV src).2,
        (decodeBV src).1 ++ dst.drop (decodeBV src).1.length) := by
  have := decodeBV_length_le src.length src (Nat.le_refl _)
  rw [decode_gen dst src hn, if_pos (by omega)]

theorem decode_no_panic (dst src : List (BitVec 8)) (hn : src.length < 2 ^ 62) (hroom : src.length / 6 ≤ dst.length) :
    Gen.B1T6.b1t6.Decode dst src ≠ none := by
  rw [decode_of_room dst src hn hroom]; exact Option.some_ne_none _

/-! #### on valid trits `decodeBV` is the model's `decode` -/

theorem model_decode_short (ts : List Int) (h : ts.length < 6) :
    B1T6.decode ts = ([], if ts.length = 0 then none else some .invalidLength) := by
  match ts, h with
  | [], _ => rfl
  | [a], _ => rfl
  | [a, b], _ => rfl
  | [a, b, c], _ => rfl
  | [a, b, c, d], _ => rfl
  | [a, b, c, d, e], _ => rfl
  | _ :: _ :: _ :: _ :: _ :: _ :: _, h => simp at h; omega

theorem model_decode_cons6 (t0 t1 t2 t3 t4 t5 : Int) (rest : List Int) :
    B1T6.decode (t0 :: t1 :: t2 :: t3 :: t4 :: t5 :: rest) =
      match B1T6.decodeGroup (B1T6.tritsToTryteValue t0 t1 t2) (B1T6.tritsToTryteValue t3 t4 t5) with
      | none => ([], some .invalidTrits)
      | some b => (b :: (B1T6.decode rest).1, (B1T6.decode rest).2) := by
  simp only [B1T6.decode]
  generalize B1T6.decodeGroup _ _ = p
  cases p <;> rfl

theorem trits_length (s : List (BitVec 8)) : (trits s).length = s.length := by simp [trits]

theorem decodeBV_valid : ∀ (n : Nat) (s : List (BitVec 8)), s.length ≤ n → B1T6.ValidTrits (trits s) →
    decodeBV s = (bv (B1T6.decode (trits s)).1, (B1T6.decode (trits s)).2) := by
  intro n
  induction n with
  | zero =>
    intro s h _
    rw [decodeBV_short s (by omega), model_decode_short _ (by rw [trits_length]; omega), trits_length]; rfl
  | succ n ih =>
    intro s h hv
    by_cases h6 : 6 ≤ s.length
    · obtain ⟨t0, t1, t2, t3, t4, t5, rest, rfl⟩ := cons6 s h6
      have hv' : ∀ t ∈ (t0 :: t1 :: t2 :: t3 :: t4 :: t5 :: rest), B1T6.ValidTrit t.toInt := by
        intro t ht
        exact hv t.toInt (List.mem_map.mpr ⟨t, ht, rfl⟩)
      have v0 := hv' t0 (by simp)
      have v1 := hv' t1 (by simp)
      have v2 := hv' t2 (by simp)
      have v3 := hv' t3 (by simp)
      have v4 := hv' t4 (by simp)
      have v5 := hv' t5 (by simp)
      have hvr : B1T6.ValidTrits (trits rest) := by
        intro t ht
        obtain ⟨x, hx, rfl⟩ := List.mem_map.mp ht
        exact hv' x (by simp [hx])
      simp only [List.length_cons] at h
      have hr := ih rest (by omega) hvr
      rw [decodeBV_cons6, decodeGroup_eq, tv_toInt t0 t1 t2 v0 v1 v2, tv_toInt t3 t4 t5 v3 v4 v5, hr]
      simp only [trits, List.map_cons]
      rw [model_decode_cons6]
      cases B1T6.decodeGroup (B1T6.tritsToTryteValue t0.toInt t1.toInt t2.toInt)
        (B1T6.tritsToTryteValue t3.toInt t4.toInt t5.toInt) <;> rfl
    · rw [decodeBV_short s (by omega), model_decode_short _ (by rw [trits_length]; omega), trits_length]; rfl

/-- **`Decode`, valid trits, enough room** (`len(src) < 2^62`): with `(bytes, err) = decode (trits src)` of the model,
the Go function does not panic, returns `(len(bytes), err)` and has overwritten exactly the first `len(bytes)`
entries of `dst` with `bytes`. -/
theorem decode_eq (dst src : List (BitVec 8)) (hn : src.length < 2 ^ 62) (hv : B1T6.ValidTrits (trits src))
    (hfit : (B1T6.decode (trits src)).1.length ≤ dst.length) :
    Gen.B1T6.b1t6.Decode dst src =
      some (BitVec.ofNat 64 (B1T6.decode (trits src)).1.length, errOf (B1T6.decode (trits src)).2,
        bv (B1T6.decode (trits src)).1 ++ dst.drop (B1T6.decode (trits src)).1.length) := by
  rw [decode_gen dst src hn, decodeBV_valid src.length src (Nat.le_refl _) hv]
  simp only [bv_length]
  rw [if_pos hfit]

/-- **`Decode`, valid trits, `dst` too short** for the bytes the model decodes: the Go function panics. -/
theorem decode_panics (dst src : List (BitVec 8)) (hn : src.length < 2 ^ 62) (hv : B1T6.ValidTrits (trits src))
    (h : dst.length < (B1T6.decode (trits src)).1.length) :
    Gen.B1T6.b1t6.Decode dst src = none := by
  rw [decode_gen dst src hn, decodeBV_valid src.length src (Nat.le_refl _) hv]
  simp only [bv_length]
  rw [if_neg (by omega)]


/-! ### 6. `DecodeTrytes` -/

abbrev TR := List (BitVec 8) × Option String

/-- the loop body of `DecodeTrytes`, as generated -/
def dtStep (src : List (BitVec 8)) (st_1 : DSt) (j : BitVec 64) : Flow TR DSt :=
      let dst : List (BitVec 8) := st_1.1
      let i : BitVec 64 := st_1.2
      if !(Go.inRangeS j src.length) then Go.Flow.panic else
      Go.Flow.bind (Go.call (Gen.B1T6.trinary.MustTryteToTryteValue (src.getD j.toNat 0#8))) (fun (st_2 : BitVec 8) =>
      let t1 : BitVec 8 := st_2
      if !(Go.inRangeS (j + 1#64) src.length) then Go.Flow.panic else
      Go.Flow.bind (Go.call (Gen.B1T6.trinary.MustTryteToTryteValue (src.getD (j + 1#64).toNat 0#8))) (fun (st_3 : BitVec 8) =>
      let t2 : BitVec 8 := st_3
      let st_4 : BitVec 8 × Bool := (Gen.B1T6.b1t6.decodeGroup t1 t2)
      let b : BitVec 8 := st_4.1
      let ok : Bool := st_4.2
      if (!ok) then
        if !(Go.sliceOK j (j + 2#64) src.length) then Go.Flow.panic else
        Go.Flow.done (([] : List (BitVec 8)), (some "ErrInvalidTrits"))
      else
      if !(Go.inRangeS i dst.length) then Go.Flow.panic else
      let dst : List (BitVec 8) := (dst.set i.toNat b)
      let i : BitVec 64 := (i + 1#64)
      Go.Flow.run (dst, i)))

/-- the statements of `DecodeTrytes` after the loop, as generated -/
def dtTail (src : List (BitVec 8)) (st_1 : DSt) : Flow TR TR :=
  let dst : List (BitVec 8) := st_1.1
  if ((BitVec.srem (BitVec.ofNat 64 src.length) 2#64) != 0#64) then
    Go.Flow.done (([] : List (BitVec 8)), (some "ErrInvalidLength"))
  else
  Go.Flow.done (dst, (none : Option String))

theorem DecodeTrytes_unfold (src : List (BitVec 8)) :
    Gen.B1T6.b1t6.DecodeTrytes src =
      Flow.result (
        if !(Go.nonneg (Gen.B1T6.b1t6.DecodedLen ((BitVec.ofNat 64 src.length) * 3#64))) then Go.Flow.panic else
        Flow.bind (Go.forIn (Go.forUp true true 0#64 ((BitVec.ofNat 64 src.length) - 2#64) 2)
          (List.replicate (Gen.B1T6.b1t6.DecodedLen ((BitVec.ofNat 64 src.length) * 3#64)).toNat 0#8, 0#64)
          (dtStep src)) (dtTail src)) := rfl

/-- the byte is one of `'9'` (57) … `'Z'` (90), the index range of `trinary.TryteToTryteValueLUT` -/
def okCh (c : BitVec 8) : Bool := decide (57 ≤ c.toNat) && decide (c.toNat ≤ 90)

/-- the tryte value of a character, as `int8` -/
def chVal (c : BitVec 8) : BitVec 8 := BitVec.ofInt 8 (B1T6.tryteValue (UInt8.ofBitVec c))

/-- `DecodeTrytes` on ARBITRARY bytes, as a recursive function on the source: `none` = panic (a byte outside
`'9'` … `'Z'` in a pair that is reached); otherwise the bytes decoded before stopping, and the error -/
def decodeTrytesBV : List (BitVec 8) → Option (List (BitVec 8) × Option B1T6.Err)
  | c1 :: c2 :: rest =>
    if okCh c1 && okCh c2 then
      if (Gen.B1T6.b1t6.decodeGroup (chVal c1) (chVal c2)).2 then
        (decodeTrytesBV rest).map (fun r => ((Gen.B1T6.b1t6.decodeGroup (chVal c1) (chVal c2)).1 :: r.1, r.2))
      else some ([], some .invalidTrits)
    else none
  | [] => some ([], none)
  | [_] => some ([], some .invalidLength)

theorem decodeTrytesBV_cons2 (c1 c2 : BitVec 8) (rest : List (BitVec 8)) :
    decodeTrytesBV (c1 :: c2 :: rest) =
      if okCh c1 && okCh c2 then
        if (Gen.B1T6.b1t6.decodeGroup (chVal c1) (chVal c2)).2 then
          (decodeTrytesBV rest).map (fun r => ((Gen.B1T6.b1t6.decodeGroup (chVal c1) (chVal c2)).1 :: r.1, r.2))
        else some ([], some .invalidTrits)
      else none := by
  rw [decodeTrytesBV]

theorem mustTryteToTryteValue_ok (c : BitVec 8) :
    Gen.B1T6.trinary.MustTryteToTryteValue c = if okCh c then some (chVal c) else none := by
  rw [mustTryteToTryteValue_eq, okCh, chVal]
  by_cases h : 57 ≤ c.toNat ∧ c.toNat ≤ 90
  · rw [if_pos h, decide_eq_true h.1, decide_eq_true h.2]; rfl
  · rw [if_neg h]
    by_cases h1 : 57 ≤ c.toNat
    · have h2 : ¬ c.toNat ≤ 90 := fun h2 => h ⟨h1, h2⟩
      rw [decide_eq_true h1, decide_eq_false h2]; rfl
    · rw [decide_eq_false h1]; rfl

theorem getD_of_drop (l : List (BitVec 8)) (j k : Nat) : l.getD (j + k) 0#8 = (l.drop j).getD k 0#8 := by
  rw [List.getD_eq_getElem?_getD, List.getD_eq_getElem?_getD, List.getElem?_drop]

/-- one iteration on the pair of characters starting at `j` -/
theorem dtStep_eq (src dst : List (BitVec 8)) (i j : Nat) (hn : src.length < 2 ^ 62) (hi : i < 2 ^ 63)
    (c1 c2 : BitVec 8) (rest : List (BitVec 8)) (hs : src.drop j = c1 :: c2 :: rest) :
    dtStep src (dst, BitVec.ofNat 64 i) (BitVec.ofNat 64 j) =
      if okCh c1 && okCh c2 then
        if (Gen.B1T6.b1t6.decodeGroup (chVal c1) (chVal c2)).2 then
          if i < dst.length then
            .run (dst.set i (Gen.B1T6.b1t6.decodeGroup (chVal c1) (chVal c2)).1, BitVec.ofNat 64 (i + 1))
          else .panic
        else .done ([], some "ErrInvalidTrits")
      else .panic := by
  have hj : j + 2 ≤ src.length := by
    have := congrArg List.length hs
    rw [List.length_drop] at this
    simp only [List.length_cons] at this
    omega
  have e1j : BitVec.ofNat 64 j + 1#64 = BitVec.ofNat 64 (j + 1) := (BitVec.ofNat_add j 1).symm
  have e2 : BitVec.ofNat 64 j + 2#64 = BitVec.ofNat 64 (j + 2) := (BitVec.ofNat_add j 2).symm
  have e1 : BitVec.ofNat 64 i + 1#64 = BitVec.ofNat 64 (i + 1) := (BitVec.ofNat_add i 1).symm
  have g0 : src.getD j 0#8 = c1 := by
    have := getD_of_drop src j 0
    rw [hs] at this; exact this
  have g1 : src.getD (j + 1) 0#8 = c2 := by
    have := getD_of_drop src j 1
    rw [hs] at this; exact this
  unfold dtStep
  simp only [e1j, e2, e1, toNat_ofNat64 j (by omega), toNat_ofNat64 (j + 1) (by omega), toNat_ofNat64 i (by omega),
    inRangeS_ofNat j _ (by omega), inRangeS_ofNat (j + 1) _ (by omega),
    sliceOK_ofNat j (j + 2) _ (by omega) (by omega), inRangeS_ofNat i _ hi, g0, g1, mustTryteToTryteValue_ok]
  have d1 : decide (j < src.length) = true := decide_eq_true (by omega)
  have d2 : decide (j + 1 < src.length) = true := decide_eq_true (by omega)
  have d3 : decide (j + 2 ≤ src.length) = true := decide_eq_true hj
  have d4 : decide (j ≤ j + 2) = true := decide_eq_true (by omega)
  simp only [d1, d2, d3, d4, Bool.not_true, Bool.false_eq_true, if_false, Bool.and_self]
  cases okCh c1
  · simp only [Bool.false_eq_true, if_false, call_none, Flow.bind_panic, Bool.false_and]
  · cases okCh c2
    · simp only [if_true, call_some, Flow.bind_run, Bool.false_eq_true, if_false, call_none, Flow.bind_panic,
        Bool.and_false]
    · simp only [if_true, call_some, Flow.bind_run, Bool.and_self]
      cases hg : (Gen.B1T6.b1t6.decodeGroup (chVal c1) (chVal c2)).2
      · simp only [Bool.not_false, if_true, Bool.false_eq_true, if_false]
      · simp only [Bool.not_true, Bool.false_eq_true, if_false, if_true]
        by_cases hd : i < dst.length
        · simp only [decide_eq_true hd, if_pos hd, Bool.not_true, Bool.false_eq_true, if_false]
        · simp only [decide_eq_false hd, if_neg hd, Bool.not_false, if_true]

/-- what `DecodeTrytes` returns from the state "`i` bytes written into the buffer `dst`, `s` = the part of `src` not
yet read" (Go returns `nil` together with an error) -/
def specT (dst s : List (BitVec 8)) (i : Nat) : Option TR :=
  match decodeTrytesBV s with
  | none => none
  | some (bs, none) => some (writeAt dst i bs, none)
  | some (_, some e) => some ([], errOf (some e))

theorem dtTail_eq (src dst : List (BitVec 8)) (i : BitVec 64) (hn : src.length < 2 ^ 62) :
    dtTail src (dst, i) = if src.length % 2 = 0 then .done (dst, none) else .done ([], some "ErrInvalidLength") := by
  unfold dtTail
  simp only []
  rw [show (2#64 : BitVec 64) = BitVec.ofNat 64 2 from rfl, srem_ofNat _ 2 (by omega) (by decide) (by decide),
    bne_ofNat_zero _ (by omega)]
  by_cases h : src.length % 2 = 0
  · rw [if_pos h, decide_eq_false (by omega)]; rfl
  · rw [if_neg h, decide_eq_true h]; rfl

theorem cons2 (s : List (BitVec 8)) (h : 2 ≤ s.length) : ∃ c1 c2 rest, s = c1 :: c2 :: rest := by
  match s, h with
  | c1 :: c2 :: rest, _ => exact ⟨c1, c2, rest, rfl⟩

theorem dt_loop (src : List (BitVec 8)) (hn : src.length < 2 ^ 62) : ∀ (m k i : Nat) (dst : List (BitVec 8)),
    k + m = src.length / 2 → i + m < 2 ^ 63 → i + m ≤ dst.length →
    Flow.result ((Go.forIn ((List.range' k m).map (fun k => BitVec.ofNat 64 (2 * k))) (dst, BitVec.ofNat 64 i)
      (dtStep src)).bind (dtTail src)) = specT dst (src.drop (2 * k)) i := by
  intro m
  induction m with
  | zero =>
    intro k i dst hk hi hd
    have hl : (src.drop (2 * k)).length = src.length % 2 := by rw [List.length_drop]; omega
    rw [List.range'_zero, List.map_nil, forIn_nil, Flow.bind_run, dtTail_eq src dst _ hn, specT]
    by_cases h : src.length % 2 = 0
    · rw [if_pos h]
      have : src.drop (2 * k) = [] := List.eq_nil_of_length_eq_zero (by omega)
      rw [this]
      simp only [decodeTrytesBV, writeAt_nil]; rfl
    · rw [if_neg h]
      match hs : src.drop (2 * k), hl with
      | [], hl => simp at hl; omega
      | [c], _ => simp only [decodeTrytesBV]; rfl
      | _ :: _ :: _, hl => simp at hl; omega
  | succ m ih =>
    intro k i dst hk hi hd
    have hl : 2 ≤ (src.drop (2 * k)).length := by rw [List.length_drop]; omega
    obtain ⟨c1, c2, rest, hs⟩ := cons2 _ hl
    have hrest : src.drop (2 * (k + 1)) = rest := by
      rw [show 2 * (k + 1) = 2 * k + 2 by omega, ← List.drop_drop, hs]; rfl
    have hid : i < dst.length := by omega
    rw [List.range'_succ, List.map_cons, forIn_cons, dtStep_eq src dst i (2 * k) hn (by omega) c1 c2 rest hs,
      specT, hs, decodeTrytesBV_cons2]
    cases hok : (okCh c1 && okCh c2)
    · simp only [Bool.false_eq_true, if_false, Flow.bind_panic, Flow.result_panic]
    · simp only [if_true]
      cases hg : (Gen.B1T6.b1t6.decodeGroup (chVal c1) (chVal c2)).2
      · simp only [Bool.false_eq_true, if_false, Flow.bind_done, Flow.result_done]
        rfl
      · simp only [if_true]
        rw [if_pos hid, Flow.bind_run, ih (k + 1) (i + 1) _ (by omega) (by omega) (by rw [List.length_set]; omega),
          specT, hrest]
        match decodeTrytesBV rest with
        | none => rfl
        | some (bs, none) =>
          simp only [Option.map_some]
          rw [writeAt_set dst i _ _ hid]
        | some (_, some e) => rfl

/-- on success `decodeTrytesBV` yields `len / 2` bytes -/
theorem decodeTrytesBV_length : ∀ (n : Nat) (s bs : List (BitVec 8)), s.length ≤ n →
    decodeTrytesBV s = some (bs, none) → bs.length * 2 = s.length := by
  intro n
  induction n with
  | zero =>
    intro s bs h hs
    have : s = [] := List.eq_nil_of_length_eq_zero (by omega)
    subst this
    simp only [decodeTrytesBV, Option.some.injEq, Prod.mk.injEq] at hs
    rw [← hs.1]; rfl
  | succ n ih =>
    intro s bs h hs
    match s, h, hs with
    | [], _, hs =>
      simp only [decodeTrytesBV, Option.some.injEq, Prod.mk.injEq] at hs
      rw [← hs.1]; rfl
    | [c], _, hs => simp [decodeTrytesBV] at hs
    | c1 :: c2 :: rest, h, hs =>
      rw [decodeTrytesBV_cons2] at hs
      simp only [List.length_cons] at h ⊢
      split at hs
      · split at hs
        · match hr : decodeTrytesBV rest, hs with
          | some (bs', e'), hs =>
            simp only [Option.map_some, Option.some.injEq, Prod.mk.injEq] at hs
            obtain ⟨h1, h2⟩ := hs
            subst h2
            have := ih rest bs' (by omega) hr
            rw [← h1, List.length_cons]
            omega
        · simp at hs
      · simp at hs

theorem mul3_ofNat (n : Nat) : BitVec.ofNat 64 n * 3#64 = BitVec.ofNat 64 (n * 3) := by
  apply BitVec.eq_of_toNat_eq; simp [BitVec.toNat_mul]

/-- the buffer `make([]byte, DecodedLen(len(src) * 3))` has `len(src) / 2` entries -/
theorem buf_length (n : Nat) (hn : 3 * n < 2 ^ 63) :
    (Gen.B1T6.b1t6.DecodedLen ((BitVec.ofNat 64 n) * 3#64)).toNat = n / 2 := by
  rw [mul3_ofNat, decodedLen_eq _ (by omega), toNat_ofNat64 _ (by omega)]
  omega

/-- … and its length is not negative: `make` does not panic -/
theorem buf_nonneg (n : Nat) (hn : 3 * n < 2 ^ 63) :
    Go.nonneg (Gen.B1T6.b1t6.DecodedLen ((BitVec.ofNat 64 n) * 3#64)) = true := by
  rw [mul3_ofNat, decodedLen_eq _ (by omega)]
  unfold Go.nonneg
  have : (BitVec.ofNat 64 (n * 3 / 6)).msb = false := by
    rw [BitVec.msb_eq_false_iff_two_mul_lt, BitVec.toNat_ofNat]; omega
  rw [this]; rfl

/-- for `2^63 ≤ 3 * len(src) ≤ 2^64 - 6` the product `len(src) * 3` is an `int` ≤ −6, so `DecodedLen` of it (the
division truncates towards zero) is negative -/
theorem buf_neg (n : Nat) (h1 : 2 ^ 63 ≤ 3 * n) (h2 : 3 * n + 6 ≤ 2 ^ 64) :
    Go.nonneg (Gen.B1T6.b1t6.DecodedLen ((BitVec.ofNat 64 n) * 3#64)) = false := by
  unfold Go.nonneg
  rw [BitVec.msb_eq_toInt, decodedLen_toInt, mul3_ofNat, BitVec.toInt_eq_toNat_cond, toNat_ofNat64 _ (by omega),
    if_neg (by omega)]
  have hm : ((n * 3 : Nat) : Int) - ((2 ^ 64 : Nat) : Int) = -(((2 ^ 64 - n * 3 : Nat) : Nat) : Int) := by omega
  rw [hm, Int.neg_tdiv, Int.tdiv_eq_ediv_of_nonneg (by omega)]
  have : decide (-(((2 ^ 64 - n * 3 : Nat) : Int) / 6) < 0) = true := decide_eq_true (by omega)
  rw [this]; rfl

/-- **`DecodeTrytes`, ARBITRARY bytes** (`3 * len(src) < 2^63`, so that `len(src) * 3` does not wrap around): it panics iff `decodeTrytesBV src = none`, i.e. iff a byte
outside `'9'` … `'Z'` occurs in a pair of characters that is reached (no earlier pair has made it return
`ErrInvalidTrits`; an unpaired last character is never looked at); otherwise it returns the decoded bytes, or `nil` and
the error. -/
theorem decodeTrytes_gen (src : List (BitVec 8)) (hn : 3 * src.length < 2 ^ 63) :
    Gen.B1T6.b1t6.DecodeTrytes src =
      match decodeTrytesBV src with
      | none => none
      | some (bs, none) => some (bs, none)
      | some (_, some e) => some ([], errOf (some e)) := by
  rw [DecodeTrytes_unfold, buf_nonneg _ hn, buf_length _ hn]
  simp only [Bool.not_true, Bool.false_eq_true, if_false]
  rw [show (2#64 : BitVec 64) = BitVec.ofNat 64 2 from rfl,
    forUp_groups src.length 2 (by omega) (by decide) (by decide), range_map_range',
    show (0#64 : BitVec 64) = BitVec.ofNat 64 0 from rfl,
    dt_loop src (by omega) (src.length / 2) 0 0 _ (by omega) (by omega) (by rw [List.length_replicate]; omega), specT]
  simp only [Nat.mul_zero, List.drop_zero]
  match hr : decodeTrytesBV src with
  | none => rfl
  | some (bs, none) =>
    have hl := decodeTrytesBV_length src.length src bs (Nat.le_refl _) hr
    simp only [writeAt, List.take_zero, List.nil_append, Nat.zero_add]
    rw [List.drop_eq_nil_of_le (by rw [List.length_replicate]; omega), List.append_nil]
  | some (_, some e) => rfl


/-- **`DecodeTrytes`, `2^63 ≤ 3 * len(src) ≤ 2^64 - 6`**: `len(src) * 3` wraps around to an `int` ≤ −6, `DecodedLen` of
it is negative, and `make` panics — whatever the bytes are.  (Precisely this range: lengths below 2^63 only.  For the
two lengths with `3 * len(src) = 2^64 - 4` or `2^64 - 1` the product is −4 resp. −1, which `DecodedLen` rounds to 0:
see `buf_edge`.) -/
theorem decodeTrytes_neg_panics (src : List (BitVec 8)) (h1 : 2 ^ 63 ≤ 3 * src.length)
    (h2 : 3 * src.length + 6 ≤ 2 ^ 64) : Gen.B1T6.b1t6.DecodeTrytes src = none := by
  rw [DecodeTrytes_unfold, buf_neg _ h1 h2]
  rfl

/-- the two lengths below 2^63 whose triple is negative as an `int` without `make` panicking: the buffer is empty
(so the function then panics at the first `dst[i] = b` or in `MustTryteToTryteValue`, or returns `ErrInvalidTrits`
for the first pair; not proved here) -/
theorem buf_edge :
    3 * 6148914691236517204 = 2 ^ 64 - 4 ∧ 3 * 6148914691236517205 = 2 ^ 64 - 1 ∧
    Gen.B1T6.b1t6.DecodedLen (BitVec.ofNat 64 6148914691236517204 * 3#64) = 0#64 ∧
    Gen.B1T6.b1t6.DecodedLen (BitVec.ofNat 64 6148914691236517205 * 3#64) = 0#64 := by decide

/-! #### on characters `'9'` … `'Z'` `decodeTrytesBV` is the model's `decodeTrytesAux` -/

theorem chVal_nat : ∀ n : Nat, n < 256 →
    (BitVec.ofInt 8 (B1T6.tryteValue (UInt8.ofNat n))).toInt = B1T6.tryteValue (UInt8.ofNat n) := by decide +kernel

theorem chVal_toInt (c : UInt8) : (chVal c.toBitVec).toInt = B1T6.tryteValue c := by
  have := chVal_nat c.toNat c.toNat_lt
  rwa [UInt8.ofNat_toNat] at this

theorem model_aux_cons2 (c1 c2 : UInt8) (rest : List UInt8) :
    B1T6.decodeTrytesAux (c1 :: c2 :: rest) =
      match B1T6.decodeGroup (B1T6.tryteValue c1) (B1T6.tryteValue c2) with
      | none => ([], some .invalidTrits)
      | some b => (b :: (B1T6.decodeTrytesAux rest).1, (B1T6.decodeTrytesAux rest).2) := by
  simp only [B1T6.decodeTrytesAux, List.map_cons, B1T6.decodeValues]
  generalize B1T6.decodeGroup _ _ = p
  cases p <;> rfl

theorem okCh_of (c : UInt8) (h : 57 ≤ c.toNat ∧ c.toNat ≤ 90) : okCh c.toBitVec = true := by
  unfold okCh
  rw [UInt8.toNat_toBitVec, decide_eq_true h.1, decide_eq_true h.2]; rfl

theorem decodeTrytesBV_valid : ∀ (n : Nat) (src : List UInt8), src.length ≤ n →
    (∀ c ∈ src, 57 ≤ c.toNat ∧ c.toNat ≤ 90) →
    decodeTrytesBV (bv src) = some (bv (B1T6.decodeTrytesAux src).1, (B1T6.decodeTrytesAux src).2) := by
  intro n
  induction n with
  | zero =>
    intro src h _
    have : src = [] := List.eq_nil_of_length_eq_zero (by omega)
    subst this; rfl
  | succ n ih =>
    intro src h hc
    match src, h, hc with
    | [], _, _ => rfl
    | [c], _, _ => rfl
    | c1 :: c2 :: rest, h, hc =>
      simp only [List.length_cons] at h
      have hr := ih rest (by omega) (fun c hcm => hc c (by simp [hcm]))
      have o1 := okCh_of c1 (hc c1 (by simp))
      have o2 := okCh_of c2 (hc c2 (by simp))
      simp only [bv, List.map_cons] at hr ⊢
      rw [decodeTrytesBV_cons2, o1, o2, decodeGroup_eq, chVal_toInt, chVal_toInt, hr, model_aux_cons2]
      cases B1T6.decodeGroup (B1T6.tryteValue c1) (B1T6.tryteValue c2) <;> rfl

/-- **`DecodeTrytes`, all characters within `'9'` … `'Z'`** (`3 * len(src) < 2^63`; `len(src) < 2^61` suffices): it never panics and is the model's
`decodeTrytes`: the decoded bytes, or `nil` and the error. -/
theorem decodeTrytes_eq (src : List UInt8) (hn : 3 * src.length < 2 ^ 63)
    (hc : ∀ c ∈ src, 57 ≤ c.toNat ∧ c.toNat ≤ 90) :
    Gen.B1T6.b1t6.DecodeTrytes (bv src) =
      match B1T6.decodeTrytes src with
      | .ok bs => some (bv bs, none)
      | .error e => some ([], errOf (some e)) := by
  rw [decodeTrytes_gen (bv src) (by rw [bv_length]; exact hn), decodeTrytesBV_valid src.length src (Nat.le_refl _) hc,
    B1T6.decodeTrytes]
  match B1T6.decodeTrytesAux src with
  | (bs, none) => rfl
  | (_, some e) => rfl

/-- **`DecodeTrytes` panics on lower-case input**, e.g. on `"aa"` (index out of range in
`trinary.MustTryteToTryteValue`) -/
theorem decodeTrytes_lowercase_panics : Gen.B1T6.b1t6.DecodeTrytes [97#8, 97#8] = none := by decide


/-! ### bundled statements -/

/-- **`MustTritsToTryteValue` on three valid trits** is the model's `tritsToTryteValue` -/
theorem mustTritsToTryteValue_valid (a b c : BitVec 8) (rest : List (BitVec 8)) (ha : B1T6.ValidTrit a.toInt)
    (hb : B1T6.ValidTrit b.toInt) (hc : B1T6.ValidTrit c.toInt) :
    ∃ x, Gen.B1T6.trinary.MustTritsToTryteValue (a :: b :: c :: rest) = some x ∧
      x.toInt = B1T6.tritsToTryteValue a.toInt b.toInt c.toInt := by
  refine ⟨tv a b c, ?_, tv_toInt a b c ha hb hc⟩
  rw [mustTritsToTryteValue_eq, if_pos (by simp)]
  rfl

theorem encode_spec (dst : List (BitVec 8)) (src : List UInt8) (hlen : src.length < 2 ^ 60) :
    (6 * src.length ≤ dst.length → Gen.B1T6.b1t6.Encode dst (bv src) =
      some (BitVec.ofNat 64 (6 * src.length), ofTrits (B1T6.encode src) ++ dst.drop (6 * src.length))) ∧
    (dst.length < 6 * src.length → Gen.B1T6.b1t6.Encode dst (bv src) = none) :=
  ⟨encode_eq dst src hlen, encode_panics dst src hlen⟩

theorem decode_spec (dst src : List (BitVec 8)) (hn : src.length < 2 ^ 62) (hv : B1T6.ValidTrits (trits src)) :
    ((B1T6.decode (trits src)).1.length ≤ dst.length → Gen.B1T6.b1t6.Decode dst src =
      some (BitVec.ofNat 64 (B1T6.decode (trits src)).1.length, errOf (B1T6.decode (trits src)).2,
        bv (B1T6.decode (trits src)).1 ++ dst.drop (B1T6.decode (trits src)).1.length)) ∧
    (dst.length < (B1T6.decode (trits src)).1.length → Gen.B1T6.b1t6.Decode dst src = none) :=
  ⟨decode_eq dst src hn hv, decode_panics dst src hn hv⟩

/-! ### additional facts -/

/-- what `Encode` writes are the trits of the model, read back as `Int` (all in {−1, 0, 1}: no truncation to `int8`) -/
theorem trits_ofTrits_encode (src : List UInt8) : trits (ofTrits (B1T6.encode src)) = B1T6.encode src := by
  have hb : ∀ n : Nat, n < 256 →
      trits (ofTrits (B1T6.encodeByte (UInt8.ofNat n))) = B1T6.encodeByte (UInt8.ofNat n) := by decide +kernel
  induction src with
  | nil => rfl
  | cons b src ih =>
    simp only [B1T6.encode, List.flatMap_cons, trits, ofTrits, List.map_append] at ih ⊢
    rw [ih]
    congr 1
    have := hb b.toNat b.toNat_lt
    rwa [UInt8.ofNat_toNat] at this

/-- without `ValidTrits` the Go code and the model (which computes tryte values in ℤ) differ: `127 + 3·1` wraps
around to −126 in `int8`, so Go decodes the byte 0x82 where the model reports invalid trits -/
theorem decode_wraps :
    Gen.B1T6.b1t6.Decode [0#8] [127#8, 1#8, 0#8, 0#8, 0#8, 0#8] = some (1#64, none, [130#8]) ∧
    B1T6.decode (trits [127#8, 1#8, 0#8, 0#8, 0#8, 0#8]) = ([], some .invalidTrits) := by decide

/-- the loop headers `for j := 0; j <= len(src)-g; j += g` (g = 6 in `Decode`, g = 2 in `DecodeTrytes`), run step by
step in 64-bit arithmetic (`Go.loopIdx`), visit exactly the indices of `Go.forUp` (`forUp_groups`) -/
theorem header_sound (n g fuel : Nat) (hn : n < 2 ^ 62) (hg0 : 0 < g) (hg : g < 2 ^ 62) (hf : n / g < fuel) :
    loopIdx (cmpUp true true (BitVec.ofNat 64 n - BitVec.ofNat 64 g)) (· + BitVec.ofNat 64 g) fuel 0#64 =
      forUp true true 0#64 (BitVec.ofNat 64 n - BitVec.ofNat 64 g) g := by
  apply forUp_sound true true _ g hg0
  · simp only [ord, maxOrd, if_true]
    rw [BitVec.toInt_sub, Go.toInt_ofNat_small n (by omega), Go.toInt_ofNat_small g (by omega)]
    have : ((n : Int) - (g : Int)).bmod (2 ^ 64) = (n : Int) - g := by
      apply Int.bmod_eq_of_le <;> simp <;> omega
    rw [this]
    omega
  · rw [forUp_groups n g hn hg0 hg]
    simpa using hf

end Iota.Tie.B1T6Code
