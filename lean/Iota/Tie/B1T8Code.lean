/-
Code tie for pkg/encoding/b1t8/b1t8.go: `Encode` and `Decode`, translated AS CODE by cmd/extract into
`Iota/Gen/B1T6.lean` (namespace `Gen.B1T6.b1t8`; `none` = run-time panic), against the models
`B1T8.encode` / `B1T8.decode` of `Iota/Model/B1T6.lean`.

Coercions.  Bytes: `bv : List UInt8 → List (BitVec 8)` as in `Bech32Code`.  Trits: Go `int8` is `BitVec 8`
read as two's complement, the model uses `Int`; `trits : List (BitVec 8) → List Int := List.map BitVec.toInt`
(injective; `ofTrits := List.map (BitVec.ofInt 8)` is its inverse on values in −128 … 127).
Errors: `errOf : Option Err → Option String` (nil ↦ none, ErrInvalidTrit / ErrInvalidLength ↦ the names).

`dst` is an OUTPUT BUFFER: the translated functions take the content of the slice passed as `dst` and return, as
last component, its content on return.  Formulation chosen:
* `Encode dst src`: if `8 * len(src) ≤ len(dst)` the result is `(8 * len(src), w ++ dst.drop (8 * len(src)))`
  where `w` is the model's `encode src` (as int8 values): exactly the first `8 * len(src)` entries are
  overwritten.  If `dst` is shorter the Go function panics (`_ = dst[7]` in the iteration that does not fit).
* `Decode dst src` (for `len(src) < 2^63`, true of every Go slice): with `(bytes, err) = decode src` of the model,
  if `len(bytes) ≤ len(dst)` the result is `(len(bytes), err, bytes ++ dst.drop (len(bytes)))`; otherwise the Go
  function panics (`dst[i] = b` out of range).  In particular `len(dst) ≥ len(src) / 8` always suffices.
-/
import Iota.Proofs.B1T8
import Iota.Gen.B1T6
import Iota.Model.B1T6
import Iota.Tie.GoFlow
import Iota.Tie.BV

namespace Iota.Tie.B1T8Code
open Iota Iota.Go
open Iota.Tie.Bech32Code (bv bv_ofBitVec)

/-! ### coercions -/

/-- Go `int8` trits as the `Int` trits of the model -/
def trits (l : List (BitVec 8)) : List Int := l.map BitVec.toInt
/-- `Int` trits as `int8` values -/
def ofTrits (l : List Int) : List (BitVec 8) := l.map (BitVec.ofInt 8)

theorem ofTrits_trits (l : List (BitVec 8)) : ofTrits (trits l) = l := by
  induction l with
  | nil => rfl
  | cons a l ih =>
    simp only [trits, ofTrits, List.map_cons, List.map_map] at ih ⊢
    rw [ih, BitVec.ofInt_toInt]

/-! ### `Encode` -/

abbrev Buf := List (BitVec 8) × List (BitVec 8)
abbrev R := BitVec 64 × List (BitVec 8)

def encByte (b : BitVec 8) : List (BitVec 8) :=
  [(b &&& 1#8) >>> 0, (b &&& 2#8) >>> 1, (b &&& 4#8) >>> 2, (b &&& 8#8) >>> 3,
   (b &&& 16#8) >>> 4, (b &&& 32#8) >>> 5, (b &&& 64#8) >>> 6, (b &&& 128#8) >>> 7]

/-- the loop body, as generated -/
def encStep (dst : Buf) (b : BitVec 8) : Flow R Buf :=
      if !(decide (7 < dst.2.length)) then Go.Flow.panic else
      if !(decide (0 < dst.2.length)) then Go.Flow.panic else
      let dst : (List (BitVec 8) × List (BitVec 8)) := (dst.1, dst.2.set 0 ((b &&& 1#8) >>> 0))
      if !(decide (1 < dst.2.length)) then Go.Flow.panic else
      let dst : (List (BitVec 8) × List (BitVec 8)) := (dst.1, dst.2.set 1 ((b &&& 2#8) >>> 1))
      if !(decide (2 < dst.2.length)) then Go.Flow.panic else
      let dst : (List (BitVec 8) × List (BitVec 8)) := (dst.1, dst.2.set 2 ((b &&& 4#8) >>> 2))
      if !(decide (3 < dst.2.length)) then Go.Flow.panic else
      let dst : (List (BitVec 8) × List (BitVec 8)) := (dst.1, dst.2.set 3 ((b &&& 8#8) >>> 3))
      if !(decide (4 < dst.2.length)) then Go.Flow.panic else
      let dst : (List (BitVec 8) × List (BitVec 8)) := (dst.1, dst.2.set 4 ((b &&& 16#8) >>> 4))
      if !(decide (5 < dst.2.length)) then Go.Flow.panic else
      let dst : (List (BitVec 8) × List (BitVec 8)) := (dst.1, dst.2.set 5 ((b &&& 32#8) >>> 5))
      if !(decide (6 < dst.2.length)) then Go.Flow.panic else
      let dst : (List (BitVec 8) × List (BitVec 8)) := (dst.1, dst.2.set 6 ((b &&& 64#8) >>> 6))
      if !(decide (7 < dst.2.length)) then Go.Flow.panic else
      let dst : (List (BitVec 8) × List (BitVec 8)) := (dst.1, dst.2.set 7 ((b &&& 128#8) >>> 7))
      if !(decide (8 ≤ dst.2.length)) then Go.Flow.panic else
      let dst : (List (BitVec 8) × List (BitVec 8)) := (dst.1 ++ dst.2.take 8, dst.2.drop 8)
      Go.Flow.run dst

theorem Encode_unfold (dst src : List (BitVec 8)) :
    Gen.B1T6.b1t8.Encode dst src =
      Flow.result (Flow.bind (Go.forIn src (([] : List (BitVec 8)), dst) encStep)
        (fun dst => Flow.done (Gen.B1T6.b1t8.EncodedLen (BitVec.ofNat 64 src.length), dst.1 ++ dst.2))) := rfl

theorem encStep_ok (d w : List (BitVec 8)) (b : BitVec 8) (h : 8 ≤ w.length) :
    encStep (d, w) b = .run (d ++ encByte b, w.drop 8) := by
  match w, h with
  | w0 :: w1 :: w2 :: w3 :: w4 :: w5 :: w6 :: w7 :: rest, _ =>
    simp [encStep, encByte]

theorem encStep_panic (d w : List (BitVec 8)) (b : BitVec 8) (h : w.length < 8) :
    encStep (d, w) b = .panic := by
  have : decide (7 < w.length) = false := decide_eq_false (by omega)
  simp [encStep, this]

theorem forIn_encStep (src : List (BitVec 8)) (d w : List (BitVec 8)) :
    Go.forIn src (d, w) encStep =
      if 8 * src.length ≤ w.length then .run (d ++ src.flatMap encByte, w.drop (8 * src.length)) else .panic := by
  induction src generalizing d w with
  | nil => simp
  | cons b src ih =>
    rw [forIn_cons]
    by_cases h : 8 ≤ w.length
    · rw [encStep_ok d w b h, Flow.bind_run, ih]
      simp only [List.length_cons, List.length_drop, List.flatMap_cons, List.append_assoc, List.drop_drop]
      by_cases h2 : 8 * src.length ≤ w.length - 8
      · rw [if_pos h2, if_pos (by omega)]
        congr 3; omega
      · rw [if_neg h2, if_neg (by omega)]
    · rw [encStep_panic d w b (by omega), Flow.bind_panic, if_neg]
      simp only [List.length_cons]; omega

/-- the eight `int8` values written for one byte are the model's trits -/
theorem encByte_nat : ∀ n : Nat, n < 256 →
    encByte (BitVec.ofNat 8 n) = ofTrits (B1T8.encodeByte (UInt8.ofNat n)) := by decide +kernel

theorem encByte_eq (b : UInt8) : encByte b.toBitVec = ofTrits (B1T8.encodeByte b) := by
  have h := encByte_nat b.toNat b.toNat_lt
  have hb : BitVec.ofNat 8 b.toNat = b.toBitVec := by
    apply BitVec.eq_of_toNat_eq
    rw [BitVec.toNat_ofNat, UInt8.toNat_toBitVec]
    exact Nat.mod_eq_of_lt b.toNat_lt
  rwa [UInt8.ofNat_toNat, hb] at h

theorem flatMap_encByte (src : List UInt8) : (bv src).flatMap encByte = ofTrits (B1T8.encode src) := by
  induction src with
  | nil => rfl
  | cons b src ih =>
    simp only [bv, List.map_cons, List.flatMap_cons, B1T8.encode, ofTrits, List.map_append] at ih ⊢
    rw [ih]
    congr 1
    exact encByte_eq b

theorem encodedLen (n : Nat) : Gen.B1T6.b1t8.EncodedLen (BitVec.ofNat 64 n) = BitVec.ofNat 64 (8 * n) := by
  unfold Gen.B1T6.b1t8.EncodedLen
  apply BitVec.eq_of_toNat_eq
  simp [BitVec.toNat_mul, Nat.mul_comm]

/-- **`Encode`, enough room**: no panic; returns `8 * len(src)`; the first `8 * len(src)` entries of `dst` are
overwritten with the model's `encode src`, the others are untouched. -/
theorem encode_eq (dst : List (BitVec 8)) (src : List UInt8) (h : 8 * src.length ≤ dst.length) :
    Gen.B1T6.b1t8.Encode dst (bv src) =
      some (BitVec.ofNat 64 (8 * src.length), ofTrits (B1T8.encode src) ++ dst.drop (8 * src.length)) := by
  have hl : (bv src).length = src.length := by simp [bv]
  rw [Encode_unfold, forIn_encStep, hl, if_pos h]
  simp only [Flow.bind_run, Flow.result_done, List.nil_append, encodedLen, flatMap_encByte]

/-- **`Encode`, `dst` too short**: the Go function panics. -/
theorem encode_panics (dst : List (BitVec 8)) (src : List UInt8) (h : dst.length < 8 * src.length) :
    Gen.B1T6.b1t8.Encode dst (bv src) = none := by
  have hl : (bv src).length = src.length := by simp [bv]
  rw [Encode_unfold, forIn_encStep, hl, if_neg (by omega)]
  rfl

/-- what is written are trits of the model, read back as `Int` -/
theorem trits_ofTrits_encode (src : List UInt8) : trits (ofTrits (B1T8.encode src)) = B1T8.encode src := by
  have hb : ∀ n : Nat, n < 256 → trits (ofTrits (B1T8.encodeByte (UInt8.ofNat n))) = B1T8.encodeByte (UInt8.ofNat n) := by
    decide +kernel
  induction src with
  | nil => rfl
  | cons b src ih =>
    simp only [B1T8.encode, List.flatMap_cons, trits, ofTrits, List.map_append] at ih ⊢
    rw [ih]
    congr 1
    have := hb b.toNat b.toNat_lt
    rwa [UInt8.ofNat_toNat] at this

/-! ### `Decode` -/

/-- Go `uint(t) > 1` on an `int8` -/
def badT (t : BitVec 8) : Bool := BitVec.ult 1#64 (BitVec.signExtend 64 t)

theorem badT_nat : ∀ n : Nat, n < 256 →
    badT (BitVec.ofNat 8 n) = B1T8.badTrit (BitVec.ofNat 8 n).toInt ∧
    BitVec.ult 1#8 (BitVec.ofNat 8 n) = B1T8.badTrit (BitVec.ofNat 8 n).toInt ∧
    (badT (BitVec.ofNat 8 n) = false → BitVec.ofNat 8 n = 0#8 ∨ BitVec.ofNat 8 n = 1#8) := by decide +kernel

theorem ofNat_toNat8 (t : BitVec 8) : BitVec.ofNat 8 t.toNat = t := by
  apply BitVec.eq_of_toNat_eq; rw [BitVec.toNat_ofNat]; exact Nat.mod_eq_of_lt t.isLt

theorem badT_eq (t : BitVec 8) : badT t = B1T8.badTrit t.toInt := by
  have := (badT_nat t.toNat t.isLt).1; rwa [ofNat_toNat8] at this
theorem ult_eq (t : BitVec 8) : BitVec.ult 1#8 t = B1T8.badTrit t.toInt := by
  have := (badT_nat t.toNat t.isLt).2.1; rwa [ofNat_toNat8] at this
theorem good_cases (t : BitVec 8) (h : badT t = false) : t = 0#8 ∨ t = 1#8 := by
  have := (badT_nat t.toNat t.isLt).2.2; rw [ofNat_toNat8] at this; exact this h

theorem term_eq (t : BitVec 8) (h : badT t = false) (j : Nat) (hj : j < 8) :
    BitVec.setWidth 8 (BitVec.signExtend 64 t <<< j) = BitVec.ofNat 8 (t.toInt.toNat <<< j) := by
  have h0 : ∀ j : Nat, j < 8 → BitVec.setWidth 8 (BitVec.signExtend 64 0#8 <<< j) = BitVec.ofNat 8 ((0#8 : BitVec 8).toInt.toNat <<< j) := by
    decide +kernel
  have h1 : ∀ j : Nat, j < 8 → BitVec.setWidth 8 (BitVec.signExtend 64 1#8 <<< j) = BitVec.ofNat 8 ((1#8 : BitVec 8).toInt.toNat <<< j) := by
    decide +kernel
  rcases good_cases t h with rfl | rfl
  · exact h0 j hj
  · exact h1 j hj

theorem ofNat_or (a b : Nat) : BitVec.ofNat 8 (a ||| b) = BitVec.ofNat 8 a ||| BitVec.ofNat 8 b := by
  apply BitVec.eq_of_toNat_eq
  simp [BitVec.toNat_or]

abbrev DSt := List (BitVec 8) × List (BitVec 8) × BitVec 64
abbrev DR := BitVec 64 × Option String × List (BitVec 8)

def decCond (st : DSt) : Bool :=
      let src : List (BitVec 8) := st.2.1
      (BitVec.sle 8#64 (BitVec.ofNat 64 src.length))

def decInner (dst src : List (BitVec 8)) (i : BitVec 64) (b : BitVec 8) (j : BitVec 64) : Flow DR (BitVec 8) :=
          if !(Go.inRangeS j src.length) then Go.Flow.panic else
          let trit : BitVec 64 := (BitVec.signExtend 64 (src.getD j.toNat 0#8))
          if (BitVec.ult 1#64 trit) then
            if !(Go.inRangeS j src.length) then Go.Flow.panic else
            Go.Flow.done (i, (some "ErrInvalidTrit"), dst)
          else
          if !(Go.nonneg j) then Go.Flow.panic else
          let b : BitVec 8 := (b ||| (BitVec.setWidth 8 (trit <<< j.toNat)))
          Go.Flow.run b

def decBody (st_1 : DSt) : Flow DR DSt :=
      let dst : List (BitVec 8) := st_1.1
      let src : List (BitVec 8) := st_1.2.1
      let i : BitVec 64 := st_1.2.2
      let b : BitVec 8 := 0#8
      Go.Flow.bind (Go.forIn (Go.forUp true false 0#64 8#64 1) b (decInner dst src i)) (fun (b : BitVec 8) =>
      if !(Go.inRangeS i dst.length) then Go.Flow.panic else
      let dst : List (BitVec 8) := (dst.set i.toNat b)
      if !(decide (8 ≤ src.length)) then Go.Flow.panic else
      let src : List (BitVec 8) := (src.drop 8)
      let i : BitVec 64 := (i + 1#64)
      Go.Flow.run (dst, src, i))

def decTail (st_1 : DSt) : Flow DR DR :=
  let dst : List (BitVec 8) := st_1.1
  let src : List (BitVec 8) := st_1.2.1
  let i : BitVec 64 := st_1.2.2
  if (BitVec.slt 0#64 (BitVec.ofNat 64 src.length)) then
    Go.Flow.bind (Go.forIn src () (fun (_ : Unit) (t : BitVec 8) =>
        if (BitVec.ult 1#8 t) then
          Go.Flow.done (i, (some "ErrInvalidTrit"), dst)
        else
        Go.Flow.run ())) (fun (_ : Unit) =>
    Go.Flow.done (i, (some "ErrInvalidLength"), dst))
  else
  Go.Flow.done (i, (none : Option String), dst)

theorem Decode_unfold (dst src : List (BitVec 8)) :
    Gen.B1T6.b1t8.Decode dst src =
      Flow.result (Flow.bind (whileFuel decCond decBody src.length (dst, src, 0#64)) decTail) := rfl

theorem idx8 : forUp true false 0#64 8#64 1 = [0#64, 1#64, 2#64, 3#64, 4#64, 5#64, 6#64, 7#64] := by
  rw [show (0#64 : BitVec 64) = BitVec.ofNat 64 0 from rfl, show (8#64 : BitVec 64) = BitVec.ofNat 64 8 from rfl,
    forUp_int false 0 8 1 (by decide) (by decide)]
  decide

/-- the loop header `for j := 0; j < 8; j++`, run step by step (`Go.loopIdx`), visits exactly these indices -/
theorem header_sound (fuel : Nat) (h : 8 < fuel) :
    loopIdx (cmpUp true false 8#64) (· + 1#64) fuel 0#64 = forUp true false 0#64 8#64 1 :=
  forUp_sound_one true 8#64 fuel 0#64 (by rw [idx8]; simpa using h)

/-- the byte packed from eight good trits by the generated inner loop -/
def packBV (t0 t1 t2 t3 t4 t5 t6 t7 : BitVec 8) : BitVec 8 :=
  [0#64, 1#64, 2#64, 3#64, 4#64, 5#64, 6#64, 7#64].foldl
    (fun b j => b ||| BitVec.setWidth 8 (BitVec.signExtend 64 ((t0 :: t1 :: t2 :: t3 :: t4 :: t5 :: t6 :: [t7]).getD j.toNat 0#8) <<< j.toNat)) 0#8

set_option linter.unusedSimpArgs false in
theorem inner_eq (dst : List (BitVec 8)) (i : BitVec 64) (t0 t1 t2 t3 t4 t5 t6 t7 : BitVec 8) (rest : List (BitVec 8)) :
    Go.forIn (Go.forUp true false 0#64 8#64 1) 0#8 (decInner dst (t0 :: t1 :: t2 :: t3 :: t4 :: t5 :: t6 :: t7 :: rest) i) =
      if (badT t0 || badT t1 || badT t2 || badT t3 || badT t4 || badT t5 || badT t6 || badT t7) then
        .done (i, some "ErrInvalidTrit", dst)
      else .run (packBV t0 t1 t2 t3 t4 t5 t6 t7) := by
  rw [idx8]
  have dlt : ∀ k : Nat, k < 8 → decide (k < rest.length + 1 + 1 + 1 + 1 + 1 + 1 + 1 + 1) = true :=
    fun k hk => decide_eq_true (by omega)
  simp only [forIn_cons, forIn_nil, decInner, inRangeS, nonneg, packBV, List.foldl_cons, List.foldl_nil]
  simp only [show (0#64 : BitVec 64).toNat = 0 from rfl, show (1#64 : BitVec 64).toNat = 1 from rfl,
    show (2#64 : BitVec 64).toNat = 2 from rfl, show (3#64 : BitVec 64).toNat = 3 from rfl,
    show (4#64 : BitVec 64).toNat = 4 from rfl, show (5#64 : BitVec 64).toNat = 5 from rfl,
    show (6#64 : BitVec 64).toNat = 6 from rfl, show (7#64 : BitVec 64).toNat = 7 from rfl,
    show (0#64 : BitVec 64).msb = false from rfl, show (1#64 : BitVec 64).msb = false from rfl,
    show (2#64 : BitVec 64).msb = false from rfl, show (3#64 : BitVec 64).msb = false from rfl,
    show (4#64 : BitVec 64).msb = false from rfl, show (5#64 : BitVec 64).msb = false from rfl,
    show (6#64 : BitVec 64).msb = false from rfl, show (7#64 : BitVec 64).msb = false from rfl,
    List.length_cons, List.getD_cons_zero, List.getD_cons_succ,
    dlt 0 (by decide), dlt 1 (by decide), dlt 2 (by decide), dlt 3 (by decide), dlt 4 (by decide),
    dlt 5 (by decide), dlt 6 (by decide), dlt 7 (by decide), Bool.not_false, Bool.not_true, Bool.true_and,
    Bool.false_eq_true, if_false, badT]
  cases h0 : (1#64).ult (BitVec.signExtend 64 t0) <;> simp only [Bool.true_or, Bool.false_or, Bool.false_eq_true, if_true, if_false, Flow.bind_done, Flow.bind_run]
  cases h1 : (1#64).ult (BitVec.signExtend 64 t1) <;> simp only [Bool.true_or, Bool.false_or, Bool.false_eq_true, if_true, if_false, Flow.bind_done, Flow.bind_run]
  cases h2 : (1#64).ult (BitVec.signExtend 64 t2) <;> simp only [Bool.true_or, Bool.false_or, Bool.false_eq_true, if_true, if_false, Flow.bind_done, Flow.bind_run]
  cases h3 : (1#64).ult (BitVec.signExtend 64 t3) <;> simp only [Bool.true_or, Bool.false_or, Bool.false_eq_true, if_true, if_false, Flow.bind_done, Flow.bind_run]
  cases h4 : (1#64).ult (BitVec.signExtend 64 t4) <;> simp only [Bool.true_or, Bool.false_or, Bool.false_eq_true, if_true, if_false, Flow.bind_done, Flow.bind_run]
  cases h5 : (1#64).ult (BitVec.signExtend 64 t5) <;> simp only [Bool.true_or, Bool.false_or, Bool.false_eq_true, if_true, if_false, Flow.bind_done, Flow.bind_run]
  cases h6 : (1#64).ult (BitVec.signExtend 64 t6) <;> simp only [Bool.true_or, Bool.false_or, Bool.false_eq_true, if_true, if_false, Flow.bind_done, Flow.bind_run]
  cases h7 : (1#64).ult (BitVec.signExtend 64 t7) <;> simp only [Bool.true_or, Bool.false_or, Bool.false_eq_true, if_true, if_false, Flow.bind_done, Flow.bind_run]

set_option linter.unusedSimpArgs false in
theorem packByte_eq (t0 t1 t2 t3 t4 t5 t6 t7 : BitVec 8) :
    B1T8.packByte [t0.toInt, t1.toInt, t2.toInt, t3.toInt, t4.toInt, t5.toInt, t6.toInt, t7.toInt] =
      if (badT t0 || badT t1 || badT t2 || badT t3 || badT t4 || badT t5 || badT t6 || badT t7) then none
      else some (UInt8.ofBitVec (packBV t0 t1 t2 t3 t4 t5 t6 t7)) := by
  unfold B1T8.packByte
  simp only [List.any_cons, List.any_nil, Bool.or_false, ← badT_eq]
  cases h0 : badT t0 <;> simp only [Bool.true_or, Bool.false_or, if_true]
  cases h1 : badT t1 <;> simp only [Bool.true_or, Bool.false_or, if_true]
  cases h2 : badT t2 <;> simp only [Bool.true_or, Bool.false_or, if_true]
  cases h3 : badT t3 <;> simp only [Bool.true_or, Bool.false_or, if_true]
  cases h4 : badT t4 <;> simp only [Bool.true_or, Bool.false_or, if_true]
  cases h5 : badT t5 <;> simp only [Bool.true_or, Bool.false_or, if_true]
  cases h6 : badT t6 <;> simp only [Bool.true_or, Bool.false_or, if_true]
  cases h7 : badT t7 <;> simp only [Bool.true_or, Bool.false_or, if_true, Bool.false_eq_true, if_false]
  congr 1
  show UInt8.ofBitVec (BitVec.ofNat 8 _) = _
  congr 1
  simp only [packBV, List.foldl_cons, List.foldl_nil,
    show (0#64 : BitVec 64).toNat = 0 from rfl, show (1#64 : BitVec 64).toNat = 1 from rfl,
    show (2#64 : BitVec 64).toNat = 2 from rfl, show (3#64 : BitVec 64).toNat = 3 from rfl,
    show (4#64 : BitVec 64).toNat = 4 from rfl, show (5#64 : BitVec 64).toNat = 5 from rfl,
    show (6#64 : BitVec 64).toNat = 6 from rfl, show (7#64 : BitVec 64).toNat = 7 from rfl,
    List.getD_cons_zero, List.getD_cons_succ,
    term_eq t0 h0 0 (by decide), term_eq t1 h1 1 (by decide), term_eq t2 h2 2 (by decide), term_eq t3 h3 3 (by decide),
    term_eq t4 h4 4 (by decide), term_eq t5 h5 5 (by decide), term_eq t6 h6 6 (by decide), term_eq t7 h7 7 (by decide)]
  simp only [show List.range 8 = [0, 1, 2, 3, 4, 5, 6, 7] from rfl, List.foldl_cons, List.foldl_nil,
    List.getD_cons_zero, List.getD_cons_succ, ofNat_or]

def errOf : Option B1T8.Err → Option String
  | none => none
  | some .invalidTrit => some "ErrInvalidTrit"
  | some .invalidLength => some "ErrInvalidLength"

/-- `dst` with `bytes` written from position `k` on -/
def writeAt (dst : List (BitVec 8)) (k : Nat) (bytes : List (BitVec 8)) : List (BitVec 8) :=
  dst.take k ++ bytes ++ dst.drop (k + bytes.length)

theorem writeAt_nil (dst : List (BitVec 8)) (k : Nat) : writeAt dst k [] = dst := by
  simp [writeAt]

theorem writeAt_set (dst : List (BitVec 8)) (k : Nat) (b : BitVec 8) (bytes : List (BitVec 8)) (hk : k < dst.length) :
    writeAt (dst.set k b) (k + 1) bytes = writeAt dst k (b :: bytes) := by
  unfold writeAt
  induction dst generalizing k with
  | nil => simp at hk
  | cons x xs ih =>
    cases k with
    | zero =>
      simp only [List.set_cons_zero, List.take_succ_cons, List.take_zero, List.nil_append, List.cons_append, Nat.zero_add, List.length_cons]
      rw [show 1 + bytes.length = bytes.length + 1 by omega, List.drop_succ_cons, List.drop_succ_cons]
    | succ k =>
      have := ih k (by simpa using hk)
      simp only [List.set_cons_succ, List.take_succ_cons, List.cons_append, List.length_cons] at this ⊢
      rw [show k + 1 + 1 + bytes.length = (k + 1 + bytes.length) + 1 by omega,
        show k + 1 + (bytes.length + 1) = (k + (bytes.length + 1)) + 1 by omega, List.drop_succ_cons, List.drop_succ_cons, this]

theorem decode_cons8 (t0 t1 t2 t3 t4 t5 t6 t7 : BitVec 8) (rest : List (BitVec 8)) :
    B1T8.decode (trits (t0 :: t1 :: t2 :: t3 :: t4 :: t5 :: t6 :: t7 :: rest)) =
      match B1T8.packByte [t0.toInt, t1.toInt, t2.toInt, t3.toInt, t4.toInt, t5.toInt, t6.toInt, t7.toInt] with
      | none => ([], some .invalidTrit)
      | some b => (b :: (B1T8.decode (trits rest)).1, (B1T8.decode (trits rest)).2) := by
  simp only [trits, List.map_cons, B1T8.decode]
  generalize B1T8.packByte _ = p
  cases p <;> rfl

/-- fewer than 8 trits left: the model reports the first bad trit, else the bad length (none for no trits) -/
theorem decode_short (src : List (BitVec 8)) (h : src.length < 8) :
    B1T8.decode (trits src) =
      ([], if src = [] then none else if (trits src).any B1T8.badTrit then some .invalidTrit else some .invalidLength) := by
  match src, h with
  | [], _ => rfl
  | [a], _ => simp only [trits, List.map_cons, List.map_nil, B1T8.decode]; split <;> simp
  | [a, b], _ => simp only [trits, List.map_cons, List.map_nil, B1T8.decode]; split <;> simp
  | [a, b, c], _ => simp only [trits, List.map_cons, List.map_nil, B1T8.decode]; split <;> simp
  | [a, b, c, d], _ => simp only [trits, List.map_cons, List.map_nil, B1T8.decode]; split <;> simp
  | [a, b, c, d, e], _ => simp only [trits, List.map_cons, List.map_nil, B1T8.decode]; split <;> simp
  | [a, b, c, d, e, f], _ => simp only [trits, List.map_cons, List.map_nil, B1T8.decode]; split <;> simp
  | [a, b, c, d, e, f, g], _ => simp only [trits, List.map_cons, List.map_nil, B1T8.decode]; split <;> simp
  | _ :: _ :: _ :: _ :: _ :: _ :: _ :: _ :: _, h => simp at h; omega

theorem slt_zero_ofNat (n : Nat) (h : n < 2 ^ 63) : BitVec.slt 0#64 (BitVec.ofNat 64 n) = decide (0 < n) := by
  rw [BitVec.slt, toInt_ofNat_small n h]
  show decide ((0 : Int) < (n : Int)) = _
  congr 1
  exact propext ⟨fun h => by omega, fun h => by omega⟩

theorem sle_eight_ofNat (n : Nat) (h : n < 2 ^ 63) : BitVec.sle 8#64 (BitVec.ofNat 64 n) = decide (8 ≤ n) := by
  rw [BitVec.sle, toInt_ofNat_small n h]
  show decide ((8 : Int) ≤ (n : Int)) = _
  congr 1
  exact propext ⟨fun h => by omega, fun h => by omega⟩

theorem any_trits (src : List (BitVec 8)) :
    (trits src).any B1T8.badTrit = src.any (fun t => BitVec.ult 1#8 t) := by
  unfold trits
  rw [List.any_map]
  congr 1
  funext t
  exact (ult_eq t).symm

theorem tail_eq (dst src : List (BitVec 8)) (i : BitVec 64) (h : src.length < 8) :
    decTail (dst, src, i) = .done (i, errOf (B1T8.decode (trits src)).2, dst) := by
  rw [decode_short src h]
  unfold decTail
  simp only []
  rw [slt_zero_ofNat _ (by omega)]
  by_cases he : src = []
  · subst he; rfl
  · have hpos : 0 < src.length := List.length_pos_iff.mpr he
    rw [if_neg he, decide_eq_true hpos, if_pos rfl,
      forIn_any src (fun t => BitVec.ult 1#8 t) (i, some "ErrInvalidTrit", dst) _ (fun a _ => rfl), any_trits]
    cases src.any (fun t => BitVec.ult 1#8 t) <;> rfl

theorem cons8 (src : List (BitVec 8)) (h : 8 ≤ src.length) :
    ∃ t0 t1 t2 t3 t4 t5 t6 t7 rest, src = t0 :: t1 :: t2 :: t3 :: t4 :: t5 :: t6 :: t7 :: rest := by
  match src, h with
  | t0 :: t1 :: t2 :: t3 :: t4 :: t5 :: t6 :: t7 :: rest, _ => exact ⟨t0, t1, t2, t3, t4, t5, t6, t7, rest, rfl⟩

theorem inRangeS_ofNat (k n : Nat) (hk : k < 2 ^ 63) : inRangeS (BitVec.ofNat 64 k) n = decide (k < n) := by
  unfold inRangeS
  have hm : (BitVec.ofNat 64 k).msb = false := by
    rw [BitVec.msb_eq_false_iff_two_mul_lt, BitVec.toNat_ofNat]; omega
  rw [hm, BitVec.toNat_ofNat, Nat.mod_eq_of_lt (by omega : k < 2 ^ 64)]
  rfl

/-- one iteration of the outer loop on a source with at least 8 trits -/
theorem body_cons8 (dst : List (BitVec 8)) (k : Nat) (hk : k < 2 ^ 63) (t0 t1 t2 t3 t4 t5 t6 t7 : BitVec 8)
    (rest : List (BitVec 8)) :
    decBody (dst, t0 :: t1 :: t2 :: t3 :: t4 :: t5 :: t6 :: t7 :: rest, BitVec.ofNat 64 k) =
      if (badT t0 || badT t1 || badT t2 || badT t3 || badT t4 || badT t5 || badT t6 || badT t7) then
        .done (BitVec.ofNat 64 k, some "ErrInvalidTrit", dst)
      else if k < dst.length then .run (dst.set k (packBV t0 t1 t2 t3 t4 t5 t6 t7), rest, BitVec.ofNat 64 (k + 1))
      else .panic := by
  unfold decBody
  simp only []
  rw [inner_eq]
  cases (badT t0 || badT t1 || badT t2 || badT t3 || badT t4 || badT t5 || badT t6 || badT t7)
  · simp only [Bool.false_eq_true, if_false, Flow.bind_run]
    rw [inRangeS_ofNat k dst.length hk]
    by_cases hkd : k < dst.length
    · have h8' : decide (8 ≤ rest.length + 1 + 1 + 1 + 1 + 1 + 1 + 1 + 1) = true := decide_eq_true (by omega)
      have hi : BitVec.ofNat 64 k + 1#64 = BitVec.ofNat 64 (k + 1) := by
        apply BitVec.eq_of_toNat_eq; simp [BitVec.toNat_add]
      have hn : (BitVec.ofNat 64 k).toNat = k := by
        rw [BitVec.toNat_ofNat]; exact Nat.mod_eq_of_lt (by omega)
      simp only [decide_eq_true hkd, Bool.not_true, Bool.false_eq_true, if_false, List.length_cons, h8',
        List.drop_succ_cons, List.drop_zero, hi, hn, if_pos hkd]
    · simp only [decide_eq_false hkd, Bool.not_false, if_true, if_neg hkd]
  · simp only [if_true, Flow.bind_done]

/-- what `Decode` returns from the state "k bytes written, `src` left", according to the model -/
def spec (dst src : List (BitVec 8)) (k : Nat) : Option DR :=
  if k + (B1T8.decode (trits src)).1.length ≤ dst.length then
    some (BitVec.ofNat 64 (k + (B1T8.decode (trits src)).1.length), errOf (B1T8.decode (trits src)).2,
      writeAt dst k (bv (B1T8.decode (trits src)).1))
  else none

theorem loop_eq (fuel : Nat) : ∀ (dst src : List (BitVec 8)) (k : Nat),
    src.length ≤ fuel → k + src.length < 2 ^ 63 → k ≤ dst.length →
    Flow.result ((whileFuel decCond decBody fuel (dst, src, BitVec.ofNat 64 k)).bind decTail) = spec dst src k := by
  have short : ∀ (dst src : List (BitVec 8)) (k : Nat), src.length < 8 → k ≤ dst.length →
      Flow.result (decTail (dst, src, BitVec.ofNat 64 k)) = spec dst src k := by
    intro dst src k hs hk
    have h1 : (B1T8.decode (trits src)).1 = [] := by rw [decode_short src hs]
    rw [tail_eq dst src _ hs, spec, h1]
    simp only [List.length_nil, Nat.add_zero, if_pos hk, bv, List.map_nil, writeAt_nil]
    rfl
  induction fuel with
  | zero =>
    intro dst src k hf _ hk
    rw [whileFuel_zero, Flow.bind_run]
    exact short dst src k (by omega) hk
  | succ fuel ih =>
    intro dst src k hf hlen hk
    rw [whileFuel_succ]
    have hc : decCond (dst, src, BitVec.ofNat 64 k) = decide (8 ≤ src.length) :=
      sle_eight_ofNat src.length (by omega)
    rw [hc]
    by_cases h8 : 8 ≤ src.length
    · obtain ⟨t0, t1, t2, t3, t4, t5, t6, t7, rest, rfl⟩ := cons8 src h8
      rw [decide_eq_true h8, if_pos rfl, body_cons8 dst k (by omega), spec, decode_cons8, packByte_eq]
      simp only [List.length_cons] at hf hlen
      cases hb : (badT t0 || badT t1 || badT t2 || badT t3 || badT t4 || badT t5 || badT t6 || badT t7)
      · simp only [Bool.false_eq_true, if_false]
        by_cases hkd : k < dst.length
        · rw [if_pos hkd, Flow.bind_run,
            ih _ rest (k + 1) (by omega) (by omega) (by rw [List.length_set]; omega), spec]
          simp only [List.length_set, List.length_cons]
          by_cases hfit : k + 1 + (B1T8.decode (trits rest)).1.length ≤ dst.length
          · rw [if_pos hfit, if_pos (by omega)]
            simp only [bv, List.map_cons]
            rw [← writeAt_set dst k _ _ hkd]
            congr 3
            omega
          · rw [if_neg hfit, if_neg (by omega)]
        · simp only [if_neg hkd, Flow.bind_panic, Flow.result_panic, List.length_cons]
          rw [if_neg (by omega)]
      · simp only [if_true, Flow.bind_done, Flow.result_done, List.length_nil, Nat.add_zero, if_pos hk, bv,
          List.map_nil, writeAt_nil]
        rfl
    · rw [decide_eq_false h8, if_neg (by decide), Flow.bind_run]
      exact short dst src k (by omega) hk

/-- **`Decode`** (`len(src) < 2^63` holds for every Go slice): with `(bytes, err)` the result of the model, if the
bytes fit into `dst` the Go function does not panic, returns `(len(bytes), err)`, and has overwritten exactly the
first `len(bytes)` entries of `dst` with `bytes`. -/
theorem decode_eq (dst src : List (BitVec 8)) (hlen : src.length < 2 ^ 63)
    (hfit : (B1T8.decode (trits src)).1.length ≤ dst.length) :
    Gen.B1T6.b1t8.Decode dst src =
      some (BitVec.ofNat 64 (B1T8.decode (trits src)).1.length, errOf (B1T8.decode (trits src)).2,
        bv (B1T8.decode (trits src)).1 ++ dst.drop (B1T8.decode (trits src)).1.length) := by
  rw [Decode_unfold]
  have := loop_eq src.length dst src 0 (Nat.le_refl _) (by omega) (Nat.zero_le _)
  rw [show (0#64 : BitVec 64) = BitVec.ofNat 64 0 from rfl, this, spec, if_pos (by omega)]
  simp [writeAt, bv]

/-- **`Decode`, `dst` too short** for the bytes the model decodes: the Go function panics. -/
theorem decode_panics (dst src : List (BitVec 8)) (hlen : src.length < 2 ^ 63)
    (h : dst.length < (B1T8.decode (trits src)).1.length) :
    Gen.B1T6.b1t8.Decode dst src = none := by
  rw [Decode_unfold]
  have := loop_eq src.length dst src 0 (Nat.le_refl _) (by omega) (Nat.zero_le _)
  rw [show (0#64 : BitVec 64) = BitVec.ofNat 64 0 from rfl, this, spec, if_neg (by omega)]

/-- the model decodes at most `len / 8` bytes, so `len(dst) ≥ len(src) / 8` (= `DecodedLen(len(src))`) always suffices -/
theorem decode_length_le (ts : List Int) : (B1T8.decode ts).1.length * 8 ≤ ts.length := by
  fun_induction B1T8.decode ts
  case case2 =>
    rename_i rest b hp r ih
    have hr : r = B1T8.decode rest := rfl
    rw [hr]
    simp only [List.length_cons]
    omega
  all_goals simp

/-- **`Decode` with a destination of at least `DecodedLen(len(src))` bytes never panics.** -/
theorem decode_eq_of_room (dst src : List (BitVec 8)) (hlen : src.length < 2 ^ 63) (hroom : src.length / 8 ≤ dst.length) :
    Gen.B1T6.b1t8.Decode dst src =
      some (BitVec.ofNat 64 (B1T8.decode (trits src)).1.length, errOf (B1T8.decode (trits src)).2,
        bv (B1T8.decode (trits src)).1 ++ dst.drop (B1T8.decode (trits src)).1.length) := by
  apply decode_eq dst src hlen
  have := decode_length_le (trits src)
  have hl : (trits src).length = src.length := by simp [trits]
  omega


end Iota.Tie.B1T8Code
