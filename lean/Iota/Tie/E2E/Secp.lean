/-
END-TO-END theorems for secp256k1.go (stage 10): the C17 properties (`Iota/Props/C17.lean`: Add, Double, ScalarMult,
ScalarBaseMult compute the group law of the curve y² = x³ + 7 over ZMod P — Mathlib's `WeierstrassCurve.Affine.Point` —
for ALL representable points and EVERY scalar byte string, without panicking; IsOnCurve is the curve equation) stated about
the GENERATED functions `Gen.Secp256k1Code.btccurve.*` (`Iota/Gen/Secp256k1Code.lean`, regenerated from the Go source on
every run), obtained by combining the code tie `Tie.SecpCode` (generated code = model, all inputs) with the property
theorems about the model.  No model function occurs in the statements: only the generated functions, `toPoint` (which
reads a pair of integers as a point of Mathlib's group: `(0,0)` is the identity, otherwise coordinates in `[0, P)` on the
curve), `beNat` (big-endian value of a byte string) and the group operations.

`inv` is the library method `(*big.Int).ModInverse`, a parameter of the generated code; `ExternsSpec inv` is its documented
behaviour (inverse in `[0, n)` when it exists, nil only when `g` and `n` are not coprime), met by `Secp256k1.modInverse`.
The receiver's fields are instantiated with the constants `init()` sets (`Tie.C17.constants`).
-/
import Iota.Props.C17
import Iota.Tie.SecpCode
import Iota.Tie.SecpCodeExterns

namespace Iota.Tie.E2E.Secp
open Iota Iota.Secp256k1 Iota.Proofs.Secp WeierstrassCurve.Affine
open Iota.Gen.Secp256k1Code.btccurve
open Iota.Tie.SecpCode (ExternsSpec)

/-- the scalar as the generated code receives it -/
def bv (k : List UInt8) : List (BitVec 8) := k.map UInt8.toBitVec

/-- **The generated `Add` returns the group sum for ALL representable points — P = Q, P = −Q and the identity on either
side included — and does not panic.** -/
theorem add_is_group_add_code {inv : Int → Int → Option Int} (S : ExternsSpec inv) {x1 y1 x2 y2 : Int} {Q1 Q2 : Curve.Point}
    (h1 : toPoint (x1, y1) = some Q1) (h2 : toPoint (x2, y2) = some Q2) :
    ∃ x3 y3, koblitzCurve_Add inv P x1 y1 x2 y2 = some (x3, y3) ∧ toPoint (x3, y3) = some (Q1 + Q2) := by
  rw [SecpCode.code_add S.toExterns]
  exact Props.C17.add_is_group_add h1 h2

/-- **The generated `Double` returns the double.** -/
theorem double_is_group_double_code {inv : Int → Int → Option Int} (S : ExternsSpec inv) {x y : Int} {Q : Curve.Point}
    (h : toPoint (x, y) = some Q) :
    ∃ x3 y3, koblitzCurve_Double inv P x y = some (x3, y3) ∧ toPoint (x3, y3) = some (Q + Q) := by
  rw [SecpCode.code_double S.toExterns]
  exact Props.C17.double_is_group_double h

/-- **The generated `ScalarMult` returns `[k]Q` for EVERY scalar byte string — zero, values at or above the group order, any
length, leading zeros — and every representable base point including the identity, and does not panic.** -/
theorem scalarMult_is_nsmul_code {inv : Int → Int → Option Int} (S : ExternsSpec inv) {x y : Int} {Q : Curve.Point}
    (h : toPoint (x, y) = some Q) (k : List UInt8) :
    ∃ x' y', koblitzCurve_ScalarMult inv P x y (bv k) = some (x', y') ∧ toPoint (x', y') = some (beNat k • Q) := by
  unfold bv
  rw [SecpCode.code_scalarMult S.toExterns]
  exact Props.C17.scalarMult_is_nsmul h k

/-- **The generated `ScalarBaseMult` returns `[k]G`.** -/
theorem scalarBaseMult_is_nsmul_code {inv : Int → Int → Option Int} (S : ExternsSpec inv) (k : List UInt8) :
    ∃ x' y', koblitzCurve_ScalarBaseMult inv P Gx Gy (bv k) = some (x', y') ∧ toPoint (x', y') = some (beNat k • G Fp) := by
  unfold bv
  rw [SecpCode.code_scalarBaseMult S.toExterns]
  exact Props.C17.scalarBaseMult_is_nsmul k

/-- **The generated `IsOnCurve` holds exactly for the affine solutions of y² = x³ + 7 over ZMod P, for all integers, and
never panics.** -/
theorem isOnCurve_iff_code (x y : Int) :
    koblitzCurve_IsOnCurve P B x y = some (decide ((y : Fp) ^ 2 = (x : Fp) ^ 3 + 7)) := by
  rw [SecpCode.code_isOnCurve]
  congr 1
  have := Props.C17.isOnCurve_iff x y
  by_cases h : (y : Fp) ^ 2 = (x : Fp) ^ 3 + 7
  · rw [decide_eq_true h]; exact this.mpr h
  · rw [decide_eq_false h]
    cases hb : isOnCurve x y with
    | false => rfl
    | true => exact absurd (this.mp hb) h

/-- the identity is returned as `(0,0)` by the generated `Add` exactly when the sum is the identity -/
theorem add_identity_code {inv : Int → Int → Option Int} (S : ExternsSpec inv) {x1 y1 x2 y2 : Int} {Q1 Q2 : Curve.Point}
    (h1 : toPoint (x1, y1) = some Q1) (h2 : toPoint (x2, y2) = some Q2) :
    koblitzCurve_Add inv P x1 y1 x2 y2 = some (0, 0) ↔ Q1 + Q2 = 0 := by
  obtain ⟨x3, y3, he, hp⟩ := add_is_group_add_code S h1 h2
  rw [he]
  constructor
  · intro h
    have hxy : (x3, y3) = ((0 : Int), (0 : Int)) := Option.some.inj h
    have h0 : toPoint ((0 : Int), (0 : Int)) = some (0 : Curve.Point) := (Props.C17.identity_is_zero_zero 0 0).mpr ⟨rfl, rfl⟩
    rw [hxy, h0] at hp
    exact (Option.some.inj hp).symm
  · intro h
    rw [h] at hp
    obtain ⟨hx, hy⟩ := (Props.C17.identity_is_zero_zero x3 y3).mp hp
    rw [hx, hy]

/-! ### non-vacuity: the hypotheses are met, and the generated code runs in the kernel -/
example : ExternsSpec Secp256k1.modInverse := SecpCode.externsSpec_inhabited
example : koblitzCurve_IsOnCurve P B Gx Gy = some true ∧ koblitzCurve_IsOnCurve P B 0 0 = some false := by decide +kernel
example : koblitzCurve_Add modInverse P 0 0 Gx Gy = some (Gx, Gy) := by decide +kernel
example : koblitzCurve_ScalarBaseMult modInverse P Gx Gy [1#8] = some (Gx, Gy) := by decide +kernel
example : koblitzCurve_Double modInverse P Gx Gy = koblitzCurve_ScalarBaseMult modInverse P Gx Gy [2#8] := by decide +kernel

end Iota.Tie.E2E.Secp
