/-
END-TO-END theorems for pkg/merkle: the C15 properties (`Iota/Props/C15.lean`: the tree hash is RFC 6962's MTH, equals the
level-by-level construction, every audit path verifies, the first marshaling error is returned) stated about the GENERATED
`Gen.Merkle.code.Hasher_Hash` / `Hasher_EmptyRoot` (`Iota/Gen/Merkle.lean`, regenerated from merkle.go on every run),
obtained by combining the code tie `Tie.MerkleCode.Hash_eq` (generated code = hand-written model, for all inputs) with the
property theorems about the model.

The main theorems (the ones with a bold doc comment) mention the generated functions, the hash function `hash_sum` of the
`Hasher` as the translation sees it (bytes written ↦ digest `Sum(nil)` returns), `bv` (the bijection `List UInt8 ≃
List (BitVec 8)` between the byte type of the specifications and the one of the translated code) and the notions of the
specifications — `IsMTH`, `bottomUp`, `auditPath`, `verifyPath`, `firstError` — taken at the hash function
`HOf hash_sum`, which is `hash_sum` on the byte type of the specifications.  None mentions the model's `Merkle.hash`.  (Each is
first proved, with the suffix `_H`, for an arbitrary `H` with `hH : ∀ x, hash_sum (bv x) = bv (H x)`; `H_unique`: there is
exactly one such `H`, namely `HOf hash_sum`.)

A leaf is the pair `(bytes, error)` its `MarshalBinary` returns; successfully marshaled leaves `D : List Bytes` are
`okLeaves D = D.map fun b => (bv b, none)`.  The result `none` is a Go run-time panic or exhausted fuel, `some (root, none)` a
root hash, `some ([], some e)` the error `e`.  `fuel` bounds the depth of the recursion of the translated function; any
`fuel > len(data)` is enough (`Tie.MerkleCode.Hash_fuel_irrelevant`: the result does not depend on it).  `len < 2^63` is the
range of Go's `int`.
-/
import Iota.Props.C15
import Iota.Tie.MerkleCode

namespace Iota.Tie.E2E.Merkle
open Iota
open Iota.Merkle (Bytes)
open Iota.Spec.Merkle (IsMTH firstError)
open Iota.Spec.MerkleTree (bottomUp auditPath verifyPath)
open Iota.Tie.Bech32Code (bv)
open Iota.Tie.MerkleCode (un bv_un un_bv decLeaf enc decLeaf_enc Hash_eq Hash_enc exists_H)
open Iota.Gen.Merkle

/-! ### vocabulary -/

/-- `hash_sum` on the byte type of the specifications -/
def HOf (hash_sum : List (BitVec 8) → List (BitVec 8)) : Bytes → Bytes := fun x => un (hash_sum (bv x))

theorem hH_HOf (hash_sum : List (BitVec 8) → List (BitVec 8)) (x : Bytes) : hash_sum (bv x) = bv (HOf hash_sum x) :=
  (bv_un _).symm

theorem bv_inj {a b : Bytes} (h : bv a = bv b) : a = b := by
  rw [← un_bv a, ← un_bv b, h]

/-- there is exactly one `H` that is `hash_sum` seen through `bv` -/
theorem H_unique (hash_sum : List (BitVec 8) → List (BitVec 8)) (H : Bytes → Bytes)
    (hH : ∀ x, hash_sum (bv x) = bv (H x)) : H = HOf hash_sum :=
  funext fun x => bv_inj (by rw [← hH, ← hH_HOf])

/-- successfully marshaled leaves as the translated code sees them: `(bytes, nil)` -/
def okLeaves (D : List Bytes) : List (List (BitVec 8) × Option String) := D.map fun b => (bv b, none)

theorem okLeaves_eq (D : List Bytes) : okLeaves D = (D.map (Except.ok (ε := String))).map enc := by
  rw [List.map_map]; rfl

theorem length_okLeaves (D : List Bytes) : (okLeaves D).length = D.length := List.length_map _

theorem enc_eq_ok (x : Except String Bytes) (h : Bytes) : enc x = (bv h, none) ↔ x = .ok h := by
  cases x with
  | ok r =>
    constructor
    · intro e; rw [bv_inj (congrArg Prod.fst e : bv r = bv h)]
    · intro e; cases e; rfl
  | error e =>
    constructor
    · intro e'; cases (congrArg Prod.snd e' : some e = none)
    · intro e'; cases e'

/-- the first non-nil error of a list of leaves `(bytes, error)` in index order, in terms of the pairs alone -/
theorem firstError_decLeaf (data : List (List (BitVec 8) × Option String)) :
    firstError (data.map decLeaf) = data.findSome? (·.2) := by
  induction data with
  | nil => rfl
  | cons x xs ih =>
    obtain ⟨b, err⟩ := x
    cases err with
    | none => simpa [decLeaf, firstError] using ih
    | some e => simp [decLeaf, firstError]

/-! ### the theorems for an arbitrary `H` with `hH` -/

section
variable (hash_sum : List (BitVec 8) → List (BitVec 8)) (H : Bytes → Bytes) (hH : ∀ x, hash_sum (bv x) = bv (H x))
include hH

theorem hash_okLeaves (D : List Bytes) (h63 : D.length < 2 ^ 63) (fuel : Nat) (hf : D.length < fuel) :
    code.Hasher_Hash hash_sum fuel (okLeaves D) = some (enc (Merkle.hash H (D.map .ok))) := by
  rw [okLeaves_eq]
  exact Hash_enc hash_sum H hH fuel _ (by rwa [List.length_map]) (by rw [List.length_map]; omega) (by omega)

theorem hash_is_bottomUp_code_H (D : List Bytes) (h63 : D.length < 2 ^ 63) (fuel : Nat) (hf : D.length < fuel) :
    code.Hasher_Hash hash_sum fuel (okLeaves D) = some (bv (bottomUp H D), none) := by
  rw [hash_okLeaves hash_sum H hH D h63 fuel hf, Props.C15.hash_eq_bottomUp H D (by omega)]
  rfl

theorem hash_is_MTH_code_H (D : List Bytes) (h63 : D.length < 2 ^ 63) (fuel : Nat) (hf : D.length < fuel) (h : Bytes) :
    code.Hasher_Hash hash_sum fuel (okLeaves D) = some (bv h, none) ↔ IsMTH H D h := by
  rw [hash_okLeaves hash_sum H hH D h63 fuel hf, ← Props.C15.hash_eq_MTH (ε := String) H D (by omega) h, ← enc_eq_ok]
  exact ⟨fun e => Option.some.inj e, fun e => congrArg some e⟩

theorem hash_returns_MTH_code_H (D : List Bytes) (h63 : D.length < 2 ^ 63) (fuel : Nat) (hf : D.length < fuel) :
    ∃ h, code.Hasher_Hash hash_sum fuel (okLeaves D) = some (bv h, none) ∧ IsMTH H D h :=
  ⟨bottomUp H D, hash_is_bottomUp_code_H hash_sum H hH D h63 fuel hf, Props.C15.bottomUp_isMTH H D⟩

theorem audit_path_verifies_code_H (D : List Bytes) (h63 : D.length < 2 ^ 63) (fuel : Nat) (hf : D.length < fuel)
    (root : Bytes) (hroot : code.Hasher_Hash hash_sum fuel (okLeaves D) = some (bv root, none))
    (m : Nat) (leaf : Bytes) (hm : D[m]? = some leaf) :
    verifyPath H m D.length leaf (auditPath H D m) = some root := by
  rw [hash_okLeaves hash_sum H hH D h63 fuel hf] at hroot
  exact Props.C15.audit_path_verifies (ε := String) H D (by omega) root
    ((enc_eq_ok _ _).mp (Option.some.inj hroot)) m leaf hm
end

/-! ### 1. the result is RFC 6962's Merkle Tree Hash -/

section
variable (hash_sum : List (BitVec 8) → List (BitVec 8))

/-- **For leaves that marshal successfully to the byte strings `D`, the generated `Hasher.Hash` returns `(h, nil)` exactly
for the `h` that RFC 6962 §2.1 defines as the Merkle Tree Hash of `D` (for the hash function of the `Hasher`): for every
hash function and every number of leaves.** -/
theorem hash_is_MTH_code (D : List Bytes) (h63 : D.length < 2 ^ 63) (fuel : Nat) (hf : D.length < fuel) (h : Bytes) :
    code.Hasher_Hash hash_sum fuel (okLeaves D) = some (bv h, none) ↔ IsMTH (HOf hash_sum) D h :=
  hash_is_MTH_code_H hash_sum _ (hH_HOf hash_sum) D h63 fuel hf h

/-- **… and it always does return such an `h`: no panic, no error, the fuel suffices.** -/
theorem hash_returns_MTH_code (D : List Bytes) (h63 : D.length < 2 ^ 63) (fuel : Nat) (hf : D.length < fuel) :
    ∃ h, code.Hasher_Hash hash_sum fuel (okLeaves D) = some (bv h, none) ∧ IsMTH (HOf hash_sum) D h :=
  hash_returns_MTH_code_H hash_sum _ (hH_HOf hash_sum) D h63 fuel hf

/-! ### 2. … which is what the level-by-level construction yields -/

/-- **The generated `Hasher.Hash` returns the root that the independent bottom-up construction computes (pair consecutive
nodes level by level, promote an unpaired last node; no split point anywhere).** -/
theorem hash_is_bottomUp_code (D : List Bytes) (h63 : D.length < 2 ^ 63) (fuel : Nat) (hf : D.length < fuel) :
    code.Hasher_Hash hash_sum fuel (okLeaves D) = some (bv (bottomUp (HOf hash_sum) D), none) :=
  hash_is_bottomUp_code_H hash_sum _ (hH_HOf hash_sum) D h63 fuel hf

/-! ### 3. … and what RFC 6962 audit paths verify against -/

/-- **The RFC 6962 §2.1.1 audit path of every leaf verifies, with the iterative verifier of RFC 9162 §2.1.3.2, against the
root the generated `Hasher.Hash` returns.** -/
theorem audit_path_verifies_code (D : List Bytes) (h63 : D.length < 2 ^ 63) (fuel : Nat) (hf : D.length < fuel)
    (root : Bytes) (hroot : code.Hasher_Hash hash_sum fuel (okLeaves D) = some (bv root, none))
    (m : Nat) (leaf : Bytes) (hm : D[m]? = some leaf) :
    verifyPath (HOf hash_sum) m D.length leaf (auditPath (HOf hash_sum) D m) = some root :=
  audit_path_verifies_code_H hash_sum _ (hH_HOf hash_sum) D h63 fuel hf root hroot m leaf hm

/-- the same in one statement: there is a root, `Hash` returns it, every audit path verifies against it -/
theorem audit_paths_verify_code (D : List Bytes) (h63 : D.length < 2 ^ 63) (fuel : Nat) (hf : D.length < fuel) :
    ∃ root, code.Hasher_Hash hash_sum fuel (okLeaves D) = some (bv root, none) ∧
      ∀ m leaf, D[m]? = some leaf →
        verifyPath (HOf hash_sum) m D.length leaf (auditPath (HOf hash_sum) D m) = some root :=
  ⟨_, hash_is_bottomUp_code hash_sum D h63 fuel hf, fun m leaf hm =>
    audit_path_verifies_code hash_sum D h63 fuel hf _ (hash_is_bottomUp_code hash_sum D h63 fuel hf) m leaf hm⟩

/-! ### 4. errors (arbitrary leaves `(bytes, error)`) -/

/-- **If some leaf fails to marshal, the generated `Hasher.Hash` returns `(nil, e)` for the error `e` of the first such leaf
in index order** (`firstError_decLeaf`: that is `data.findSome? (·.2)`), **whatever bytes come with the errors.** -/
theorem first_error_returned_code (fuel : Nat) (data : List (List (BitVec 8) × Option String))
    (h63 : data.length < 2 ^ 63) (hf : data.length < fuel) (e : String)
    (he : firstError (data.map decLeaf) = some e) :
    code.Hasher_Hash hash_sum fuel data = some ([], some e) := by
  rw [Hash_eq hash_sum _ (hH_HOf hash_sum) fuel data h63 (by omega) (by omega),
    Props.C15.first_error_returned _ _ e he]
  rfl

/-- **… and if none fails, it returns a hash and no error.** -/
theorem no_error_ok_code (fuel : Nat) (data : List (List (BitVec 8) × Option String))
    (h63 : data.length < 2 ^ 63) (hf : data.length < fuel)
    (he : firstError (data.map decLeaf) = none) :
    ∃ r : Bytes, code.Hasher_Hash hash_sum fuel data = some (bv r, none) := by
  obtain ⟨r, hr⟩ := Props.C15.no_error_ok (HOf hash_sum) _ he
  exact ⟨r, by rw [Hash_eq hash_sum _ (hH_HOf hash_sum) fuel data h63 (by omega) (by omega), hr]; rfl⟩

/-! ### 5. the empty tree -/

/-- **`Hash` of no leaves is `(EmptyRoot(), nil)`, and `EmptyRoot()` is the hash of the empty string.** -/
theorem empty_root_code (fuel : Nat) (hf : 0 < fuel) :
    code.Hasher_Hash hash_sum fuel [] = some (code.Hasher_EmptyRoot hash_sum, none) ∧
    code.Hasher_EmptyRoot hash_sum = hash_sum [] := by
  obtain ⟨fuel, rfl⟩ : ∃ f, fuel = f + 1 := ⟨fuel - 1, by omega⟩
  exact ⟨rfl, rfl⟩

/-! ### 6. the result is a function of what the leaves marshal to -/

/-- **Two lists of leaves that marshal to the same bytes, resp. fail with the same errors, give the same result: the bytes
returned next to an error are irrelevant** (and so is the fuel). -/
theorem result_depends_only_on_leaves_code (fuel fuel' : Nat) (data data' : List (List (BitVec 8) × Option String))
    (h63 : data.length < 2 ^ 63) (hf : data.length < fuel) (hf' : data.length < fuel')
    (hd : data.map decLeaf = data'.map decLeaf) :
    code.Hasher_Hash hash_sum fuel data = code.Hasher_Hash hash_sum fuel' data' := by
  have hl : data'.length = data.length := by
    have := congrArg List.length hd
    rw [List.length_map, List.length_map] at this
    exact this.symm
  rw [Hash_eq hash_sum _ (hH_HOf hash_sum) fuel data h63 (by omega) (by omega),
    Hash_eq hash_sum _ (hH_HOf hash_sum) fuel' data' (by omega) (by omega) (by omega), hd]
end

/-! ### non-vacuity: the theorems instantiated at the toy hash function of `Tie.MerkleCode` (a string behind its length) -/

open Iota.Tie.MerkleCode (toy)

/-- what the generated code computes on three leaves is the bottom-up root, which is this string -/
example : code.Hasher_Hash toy 4 (okLeaves [[0xaa], [0xbb], [0xcc]]) = some (bv (bottomUp (HOf toy) [[0xaa], [0xbb], [0xcc]]), none) ∧
    bv (bottomUp (HOf toy) [[0xaa], [0xbb], [0xcc]]) =
      [0x0c#8, 0x01#8, 0x07#8, 0x01#8, 0x02#8, 0x00#8, 0xaa#8, 0x02#8, 0x00#8, 0xbb#8, 0x02#8, 0x00#8, 0xcc#8] :=
  ⟨hash_is_bottomUp_code toy _ (by decide) 4 (by decide), by decide +kernel⟩

/-- the audit path of leaf 2 of 3 verifies against the root the generated code returns -/
example : ∃ root, code.Hasher_Hash toy 4 (okLeaves [[0xaa], [0xbb], [0xcc]]) = some (bv root, none) ∧
    verifyPath (HOf toy) 2 3 [0xcc] (auditPath (HOf toy) [[0xaa], [0xbb], [0xcc]] 2) = some root := by
  obtain ⟨root, h, hv⟩ := audit_paths_verify_code toy [[0xaa], [0xbb], [0xcc]] (by decide) 4 (by decide)
  exact ⟨root, h, hv 2 [0xcc] rfl⟩

/-- the first error wins, the bytes next to it do not matter -/
example : code.Hasher_Hash toy 4 [([0xaa#8], none), ([0x01#8], some "E"), ([], some "F")] = some ([], some "E") :=
  first_error_returned_code toy 4 _ (by decide) (by decide) "E" rfl

example : code.Hasher_Hash toy 1 [] = some ([0x00#8], none) := (empty_root_code toy 1 (by decide)).1

end Iota.Tie.E2E.Merkle
