/-
END-TO-END theorems for pkg/bech32: properties of the GENERATED code (`Iota/Gen/Bech32.lean`, regenerated from the Go
source: checksum.go, internal/base32, chars.go), obtained by combining the code ties of `Iota/Tie/Bech32.lean`
(generated code = hand-written model, for all inputs) with the property theorems about the model (C04, C05, C16).

No main theorem below (the ones with a bold doc comment) mentions a model function; only the transport lemmas do.  The
byte strings are `List (BitVec 8)` (what the translated code works on), a 5-bit symbol is a byte `x` with
`x.toNat < 32`, `none` is a Go panic.  The only definitions of this file that occur in the main statements are `hamming`
and `DiffWithinLast` on `List (BitVec 8)` (the ones of `Iota.Proofs.BCH`, on the other byte type).  Every
`List (BitVec 8)` is `bv l` for exactly one `l : List UInt8` (`bv_un`, `un_bv`), so the forms "through `bv`" are
instances; they are written out for sections 1 and 2 (`…_bv`).
-/
import Iota.Tie.Bech32
import Iota.Props.C04
import Iota.Props.C05
import Iota.Props.C16

namespace Iota.Tie.E2E.Bech32
open Iota
open Iota.Tie.Bech32Code (bv bv_ofBitVec ofBitVec_bv bv_append)

/-! ### transport between the two byte types -/

/-- bytes of the translated code as bytes of the model (inverse of `bv`) -/
def un (l : List (BitVec 8)) : List UInt8 := l.map UInt8.ofBitVec

theorem bv_un (l : List (BitVec 8)) : bv (un l) = l := bv_ofBitVec l
theorem un_bv (l : List UInt8) : un (bv l) = l := ofBitVec_bv l
theorem un_append (a b : List (BitVec 8)) : un (a ++ b) = un a ++ un b := by simp [un]
theorem un_length (l : List (BitVec 8)) : (un l).length = l.length := by simp [un]
theorem bv_length (l : List UInt8) : (bv l).length = l.length := by simp [bv]
theorem un_inj {a b : List (BitVec 8)} (h : un a = un b) : a = b := by rw [← bv_un a, ← bv_un b, h]

theorem un_lt {l : List (BitVec 8)} (h : ∀ x ∈ l, x.toNat < 32) : ∀ x ∈ un l, x.toNat < 32 := by
  intro x hx
  obtain ⟨b, hb, rfl⟩ := List.mem_map.mp hx
  exact h b hb
theorem bv_lt {l : List UInt8} (h : ∀ x ∈ l, x.toNat < 32) : ∀ x ∈ bv l, x.toNat < 32 := by
  intro x hx
  obtain ⟨a, ha, rfl⟩ := List.mem_map.mp hx
  exact h a ha
theorem lt_of_un {l : List (BitVec 8)} (h : ∀ x ∈ un l, x.toNat < 32) : ∀ x ∈ l, x.toNat < 32 := by
  have := bv_lt h
  rwa [bv_un] at this

/-- the code ties, for arbitrary inputs of the translated code -/
theorem tie_hrpExpand (s : List (BitVec 8)) : un (Gen.Bech32.bech32HrpExpand s) = Bech32.hrpExpand (un s) := by
  have := Tie.Bech32.code_hrpExpand (un s)
  rw [bv_un] at this
  rw [this, un_bv]
theorem tie_createChecksum (hrp data : List (BitVec 8)) :
    Gen.Bech32.bech32CreateChecksum hrp data = bv (Bech32.createChecksum (un hrp) (un data)) := by
  have := Tie.Bech32.code_createChecksum (un hrp) (un data)
  rwa [bv_un, bv_un] at this
theorem tie_verifyChecksum (hrp data : List (BitVec 8)) :
    Gen.Bech32.bech32VerifyChecksum hrp data = Bech32.verifyChecksum (un hrp) (un data) := by
  have := Tie.Bech32.code_verifyChecksum (un hrp) (un data)
  rwa [bv_un, bv_un] at this

theorem verify_iff_polymod (hrp data : List UInt8) :
    Bech32.verifyChecksum hrp data = true ↔ Bech32.polymod (Bech32.hrpExpand hrp ++ data) = 1 := by
  unfold Bech32.verifyChecksum
  exact beq_iff_eq

/-! ### 1. the checksum the code creates is accepted by the code (C05) -/

/-- **`bech32VerifyChecksum(hrp, append(data, bech32CreateChecksum(hrp, data)...))` is `true`**, for ALL byte strings
`hrp`, `data` (not only 5-bit symbols, not only printable prefixes, any length). -/
theorem created_checksum_verifies (hrp data : List (BitVec 8)) :
    Gen.Bech32.bech32VerifyChecksum hrp (data ++ Gen.Bech32.bech32CreateChecksum hrp data) = true := by
  rw [tie_verifyChecksum, un_append, tie_createChecksum, un_bv, verify_iff_polymod]
  exact Props.C05.checksum_verifies (un hrp) (un data)

/-- the created checksum consists of exactly six 5-bit symbols — for all byte strings `hrp`, `data` (no hypothesis on
the data symbols is needed: the symbols are six 5-bit fields of a value below 2^30). -/
theorem created_checksum_shape (hrp data : List (BitVec 8)) :
    (Gen.Bech32.bech32CreateChecksum hrp data).length = 6 ∧
    ∀ c ∈ Gen.Bech32.bech32CreateChecksum hrp data, c.toNat < 32 := by
  obtain ⟨h1, h2⟩ := Proofs.Bech32.createChecksum_spec (un hrp) (un data)
  rw [tie_createChecksum]
  exact ⟨by rw [bv_length, h1], bv_lt h2⟩

/-- data symbols below 32 give a word of symbols below 32 -/
theorem created_word_lt (hrp data : List (BitVec 8)) (hd : ∀ x ∈ data, x.toNat < 32) :
    ∀ x ∈ data ++ Gen.Bech32.bech32CreateChecksum hrp data, x.toNat < 32 := by
  intro x hx
  rcases List.mem_append.mp hx with h | h
  · exact hd x h
  · exact (created_checksum_shape hrp data).2 x h

/-- **uniqueness**: the only six 5-bit symbols that make the code's verification succeed are the ones the code
creates. -/
theorem verifying_checksum_unique (hrp data cs : List (BitVec 8)) (hlen : cs.length = 6)
    (hlt : ∀ c ∈ cs, c.toNat < 32)
    (hv : Gen.Bech32.bech32VerifyChecksum hrp (data ++ cs) = true) :
    cs = Gen.Bech32.bech32CreateChecksum hrp data := by
  rw [tie_verifyChecksum, un_append, verify_iff_polymod] at hv
  have := Props.C05.checksum_is_unique (un hrp) (un data) (un cs) (by rw [un_length, hlen]) (un_lt hlt) hv
  rw [tie_createChecksum, ← this, bv_un]

/-- the same through `bv`, for byte strings of the model's type -/
theorem created_checksum_verifies_bv (hrp data : List UInt8) :
    Gen.Bech32.bech32VerifyChecksum (bv hrp) (bv data ++ Gen.Bech32.bech32CreateChecksum (bv hrp) (bv data)) = true ∧
    (Gen.Bech32.bech32CreateChecksum (bv hrp) (bv data)).length = 6 ∧
    ∀ c ∈ Gen.Bech32.bech32CreateChecksum (bv hrp) (bv data), c.toNat < 32 :=
  ⟨created_checksum_verifies _ _, created_checksum_shape _ _⟩

/-! ### 2. error detection by the code (C16) -/

/-- number of positions in which two words differ (`Iota.Proofs.BCH.hamming` on the code's byte type) -/
def hamming : List (BitVec 8) → List (BitVec 8) → Nat
  | a :: as, b :: bs => (if a = b then 0 else 1) + hamming as bs
  | _, _ => 0

/-- every position where the words differ is among the last `n` positions of `v` -/
def DiffWithinLast (n : Nat) (v v' : List (BitVec 8)) : Prop :=
  ∀ i, i < v.length → v[i]? ≠ v'[i]? → v.length ≤ i + n

theorem hamming_un (a b : List (BitVec 8)) : Proofs.BCH.hamming (un a) (un b) = hamming a b := by
  induction a generalizing b with
  | nil => cases b <;> rfl
  | cons x xs ih =>
    cases b with
    | nil => rfl
    | cons y ys =>
      show (if UInt8.ofBitVec x = UInt8.ofBitVec y then 0 else 1) + Proofs.BCH.hamming (un xs) (un ys) = _
      rw [ih ys, hamming]
      by_cases h : x = y
      · simp [h]
      · have : UInt8.ofBitVec x ≠ UInt8.ofBitVec y := fun e => h (congrArg UInt8.toBitVec e)
        simp [h, this]

theorem diffWithinLast_un {n : Nat} {v v' : List (BitVec 8)} (h : DiffWithinLast n v v') :
    Proofs.BCH.DiffWithinLast n (un v) (un v') := by
  intro i hi hne
  rw [un_length] at hi ⊢
  apply h i hi
  intro e
  apply hne
  simp only [un, List.getElem?_map, e]

theorem hamming_common_prefix (p a b : List (BitVec 8)) : hamming (p ++ a) (p ++ b) = hamming a b := by
  induction p with
  | nil => rfl
  | cons x xs ih => simp [hamming, ih]

theorem diffWithinLast_common_prefix {n : Nat} (p : List (BitVec 8)) {a b : List (BitVec 8)}
    (h : DiffWithinLast n a b) : DiffWithinLast n (p ++ a) (p ++ b) := by
  intro i hi hne
  by_cases hip : i < p.length
  · rw [List.getElem?_append_left hip, List.getElem?_append_left hip] at hne
    exact absurd rfl hne
  · have hle : p.length ≤ i := by omega
    rw [List.getElem?_append_right hle, List.getElem?_append_right hle] at hne
    rw [List.length_append] at hi ⊢
    have := h (i - p.length) (by omega) hne
    omega

theorem diffWithinLast_of_length {n : Nat} {a b : List (BitVec 8)} (h : a.length ≤ n) : DiffWithinLast n a b := by
  intro i _ _; omega

theorem hrpExpand_lt (hrp : List UInt8) : ∀ x ∈ Bech32.hrpExpand hrp, x.toNat < 32 := by
  intro x hx
  simp only [Bech32.hrpExpand, List.mem_append, List.mem_map, List.mem_cons, List.not_mem_nil, or_false] at hx
  rcases hx with (⟨c, _, rfl⟩ | rfl) | ⟨c, _, rfl⟩
  · rw [Proofs.Base32.p_shr5]; have := c.toNat_lt; omega
  · decide
  · rw [Proofs.Base32.p_m31]; omega

/-- **BCH distance, on the code, in full generality** (transport of `Props.C16.checksum_distance`): `v` and `v'` are
the words the code's verification runs `bech32Polymod` on — the expanded prefix followed by the data-and-checksum
symbols.  If `v` verifies, `v'` has the same length and differs from it in 1…4 positions, all among the last 89, then
`v'` does not verify.  The prefixes may differ too (a changed prefix character changes up to two positions of `v`). -/
theorem verify_distance (hrp hrp' w w' : List (BitVec 8))
    (hw : ∀ x ∈ w, x.toNat < 32) (hw' : ∀ x ∈ w', x.toNat < 32)
    (hlen : (Gen.Bech32.bech32HrpExpand hrp ++ w).length = (Gen.Bech32.bech32HrpExpand hrp' ++ w').length)
    (h1 : 1 ≤ hamming (Gen.Bech32.bech32HrpExpand hrp ++ w) (Gen.Bech32.bech32HrpExpand hrp' ++ w'))
    (h4 : hamming (Gen.Bech32.bech32HrpExpand hrp ++ w) (Gen.Bech32.bech32HrpExpand hrp' ++ w') ≤ 4)
    (hwin : DiffWithinLast 89 (Gen.Bech32.bech32HrpExpand hrp ++ w) (Gen.Bech32.bech32HrpExpand hrp' ++ w'))
    (hv : Gen.Bech32.bech32VerifyChecksum hrp w = true) :
    Gen.Bech32.bech32VerifyChecksum hrp' w' = false := by
  rw [tie_verifyChecksum, verify_iff_polymod] at hv
  rw [tie_verifyChecksum, ← Bool.not_eq_true, verify_iff_polymod]
  have e : ∀ h x : List (BitVec 8), un (Gen.Bech32.bech32HrpExpand h ++ x) = Bech32.hrpExpand (un h) ++ un x :=
    fun h x => by rw [un_append, tie_hrpExpand]
  have lt : ∀ (h : List UInt8) (x : List (BitVec 8)), (∀ y ∈ x, y.toNat < 32) →
      ∀ y ∈ Bech32.hrpExpand h ++ un x, y.toNat < 32 := by
    intro h x hx y hy
    rcases List.mem_append.mp hy with hy | hy
    · exact hrpExpand_lt h y hy
    · exact un_lt hx y hy
  have hh := hamming_un (Gen.Bech32.bech32HrpExpand hrp ++ w) (Gen.Bech32.bech32HrpExpand hrp' ++ w')
  have hd := diffWithinLast_un hwin
  have hl := congrArg List.length (e hrp w)
  have hl' := congrArg List.length (e hrp' w')
  rw [un_length] at hl hl'
  rw [e, e] at hh hd
  exact Props.C16.checksum_distance _ _ (by rw [← hl, ← hl', hlen]) (lt _ w hw) (lt _ w' hw')
    (by rw [hh]; exact h1) (by rw [hh]; exact h4) hd hv

/-- the same prefix: only the symbols after it count; the differing positions lie within the last 89 of `w` (`w` itself
may be longer than that). -/
theorem verify_detects_errors (hrp w w' : List (BitVec 8))
    (hw : ∀ x ∈ w, x.toNat < 32) (hw' : ∀ x ∈ w', x.toNat < 32) (hlen : w.length = w'.length)
    (h1 : 1 ≤ hamming w w') (h4 : hamming w w' ≤ 4) (hwin : DiffWithinLast 89 w w')
    (hv : Gen.Bech32.bech32VerifyChecksum hrp w = true) :
    Gen.Bech32.bech32VerifyChecksum hrp w' = false :=
  verify_distance hrp hrp w w' hw hw' (by rw [List.length_append, List.length_append, hlen])
    (by rw [hamming_common_prefix]; exact h1) (by rw [hamming_common_prefix]; exact h4)
    (diffWithinLast_common_prefix _ hwin) hv

/-- **C16 on the code**: the word `data ++ bech32CreateChecksum(hrp, data)` built by the code from 5-bit symbols, at
most 89 symbols long (checksum included: 83 data symbols; any prefix — it is common to both words), with one to four
symbols replaced by other 5-bit symbols, is rejected by the code's `bech32VerifyChecksum`. -/
theorem created_word_errors_detected (hrp data w' : List (BitVec 8))
    (hd : ∀ x ∈ data, x.toNat < 32) (hw' : ∀ x ∈ w', x.toNat < 32)
    (hlen : w'.length = data.length + 6) (h89 : data.length + 6 ≤ 89)
    (h1 : 1 ≤ hamming (data ++ Gen.Bech32.bech32CreateChecksum hrp data) w')
    (h4 : hamming (data ++ Gen.Bech32.bech32CreateChecksum hrp data) w' ≤ 4) :
    Gen.Bech32.bech32VerifyChecksum hrp w' = false := by
  have hl : (data ++ Gen.Bech32.bech32CreateChecksum hrp data).length = data.length + 6 := by
    rw [List.length_append, (created_checksum_shape hrp data).1]
  exact verify_detects_errors hrp _ w' (created_word_lt hrp data hd) hw' (by rw [hl, hlen]) h1 h4
    (diffWithinLast_of_length (by rw [hl]; exact h89)) (created_checksum_verifies hrp data)

/-- longer words: the same as long as the replaced symbols lie within the last 89 positions -/
theorem created_word_errors_detected_window (hrp data w' : List (BitVec 8))
    (hd : ∀ x ∈ data, x.toNat < 32) (hw' : ∀ x ∈ w', x.toNat < 32) (hlen : w'.length = data.length + 6)
    (hwin : DiffWithinLast 89 (data ++ Gen.Bech32.bech32CreateChecksum hrp data) w')
    (h1 : 1 ≤ hamming (data ++ Gen.Bech32.bech32CreateChecksum hrp data) w')
    (h4 : hamming (data ++ Gen.Bech32.bech32CreateChecksum hrp data) w' ≤ 4) :
    Gen.Bech32.bech32VerifyChecksum hrp w' = false := by
  have hl : (data ++ Gen.Bech32.bech32CreateChecksum hrp data).length = data.length + 6 := by
    rw [List.length_append, (created_checksum_shape hrp data).1]
  exact verify_detects_errors hrp _ w' (created_word_lt hrp data hd) hw' (by rw [hl, hlen]) h1 h4 hwin
    (created_checksum_verifies hrp data)

/-- through `bv` -/
theorem created_word_errors_detected_bv (hrp data w' : List UInt8)
    (hd : ∀ x ∈ data, x.toNat < 32) (hw' : ∀ x ∈ w', x.toNat < 32)
    (hlen : w'.length = data.length + 6) (h89 : data.length + 6 ≤ 89)
    (h1 : 1 ≤ hamming (bv data ++ Gen.Bech32.bech32CreateChecksum (bv hrp) (bv data)) (bv w'))
    (h4 : hamming (bv data ++ Gen.Bech32.bech32CreateChecksum (bv hrp) (bv data)) (bv w') ≤ 4) :
    Gen.Bech32.bech32VerifyChecksum (bv hrp) (bv w') = false :=
  created_word_errors_detected (bv hrp) (bv data) (bv w') (bv_lt hd) (bv_lt hw')
    (by rw [bv_length, bv_length, hlen]) (by rw [bv_length]; exact h89) h1 h4

/-! ### 3. base32: the code's `Decode` inverts the code's `Encode` (C04 / C05) -/

open Iota.Bech32 (encodedLen decodedLen b32Encode b32Decode) in
theorem decodedLen_encodedLen (n : Nat) : decodedLen (encodedLen n) = n := by
  unfold decodedLen encodedLen; omega

open Iota.Bech32 (encodedLen decodedLen b32Encode b32Decode) in
/-- `EncodedLen` / `DecodedLen (EncodedLen …)` of the code on a length below 2^60 (beyond, `n*8 + 4` overflows) -/
theorem lens (n : Nat) (h : n < 2 ^ 60) :
    (Gen.Bech32.base32.EncodedLen (BitVec.ofNat 64 n)).toNat = encodedLen n ∧
    (Gen.Bech32.base32.DecodedLen (Gen.Bech32.base32.EncodedLen (BitVec.ofNat 64 n))).toNat = n := by
  have he : encodedLen n * 5 < 2 ^ 63 := by unfold encodedLen; omega
  rw [Tie.Base32Code.EncodedLen_eq n h, Tie.Base32Code.DecodedLen_eq _ he, decodedLen_encodedLen,
    Tie.Base32Code.toNat_ofNat_lt _ (by omega), Tie.Base32Code.toNat_ofNat_lt _ (by omega)]
  exact ⟨rfl, rfl⟩

/-- the code's length functions are inverse where it matters: a buffer of `DecodedLen(EncodedLen(n))` bytes is a
buffer of `n` bytes -/
theorem DecodedLen_EncodedLen (n : Nat) (h : n < 2 ^ 60) :
    Gen.Bech32.base32.DecodedLen (Gen.Bech32.base32.EncodedLen (BitVec.ofNat 64 n)) = BitVec.ofNat 64 n := by
  apply BitVec.eq_of_toNat_eq
  rw [(lens n h).2, Tie.Base32Code.toNat_ofNat_lt _ (by omega)]

open Iota.Bech32 (encodedLen decodedLen b32Encode b32Decode) in
/-- **round trip of the code**: for every byte string `src` (`len(src) < 2^60`), `Encode` into a destination of exactly
`EncodedLen(len(src))` entries (whatever it holds) does not panic, returns `EncodedLen(len(src))`, and fills the
destination with 5-bit symbols `syms`; `Decode` of these into a destination of exactly `DecodedLen(EncodedLen(len(src)))`
entries — that is `DecodedLen(len(syms))`, and `len(src)` by `lens` — does not panic and returns `(len(src), nil)` with
the destination equal to `src`. -/
theorem base32_round_trip (src dst : List (BitVec 8)) (hlen : src.length < 2 ^ 60)
    (hdst : dst.length = (Gen.Bech32.base32.EncodedLen (BitVec.ofNat 64 src.length)).toNat) :
    ∃ syms : List (BitVec 8),
      Gen.Bech32.base32.Encode dst src = some (Gen.Bech32.base32.EncodedLen (BitVec.ofNat 64 src.length), syms) ∧
      syms.length = dst.length ∧ (∀ s ∈ syms, s.toNat < 32) ∧
      BitVec.ofNat 64 syms.length = Gen.Bech32.base32.EncodedLen (BitVec.ofNat 64 src.length) ∧
      ∀ dst' : List (BitVec 8),
        dst'.length = (Gen.Bech32.base32.DecodedLen
          (Gen.Bech32.base32.EncodedLen (BitVec.ofNat 64 src.length))).toNat →
        Gen.Bech32.base32.Decode dst' syms = some (BitVec.ofNat 64 src.length, none, src) := by
  obtain ⟨hE, hD⟩ := lens src.length hlen
  have hsl : (un src).length = src.length := un_length src
  rw [hE] at hdst
  have henc := Tie.Base32Code.encode_exact dst (un src) (by rw [hsl]; exact hlen) (by rw [hsl]; exact hdst)
  rw [bv_un, hsl, ← Tie.Base32Code.EncodedLen_eq _ hlen] at henc
  have hsyms : (bv (b32Encode (un src))).length = encodedLen src.length := by
    rw [bv_length, Proofs.Base32.b32Encode_length, hsl]
  refine ⟨bv (b32Encode (un src)), henc, by rw [hsyms, hdst], bv_lt (Proofs.Base32.b32Encode_lt _),
    by rw [hsyms, Tie.Base32Code.EncodedLen_eq _ hlen], ?_⟩
  intro dst' hdst'
  rw [hD] at hdst'
  have hl2 : (b32Encode (un src)).length = encodedLen src.length := by
    rw [Proofs.Base32.b32Encode_length, hsl]
  have hdec := Tie.Base32Code.decode_exact dst' (b32Encode (un src)) (un src)
    (by rw [hl2]; unfold encodedLen; omega) (by rw [hl2, decodedLen_encodedLen]; exact hdst')
    ((Props.C04.base32_decode_ok_iff _ _ (Proofs.Base32.b32Encode_lt _)).mpr rfl)
  rwa [bv_un, hsl] at hdec

open Iota.Bech32 (encodedLen decodedLen b32Encode b32Decode) in
/-- **`Decode` accepts exactly the outputs of `Encode`** (code level): if the code's `Decode` of 5-bit symbols `syms`
into a destination of `DecodedLen(len(syms))` entries returns the error `nil`, then the destination holds bytes that the
code's `Encode` maps back to exactly `syms`. -/
theorem base32_accepted_is_encoding (syms dst buf : List (BitVec 8)) (w : BitVec 64)
    (hlt : ∀ s ∈ syms, s.toNat < 32) (hlen : syms.length < 2 ^ 60)
    (hdst : dst.length = (Gen.Bech32.base32.DecodedLen (BitVec.ofNat 64 syms.length)).toNat)
    (h : Gen.Bech32.base32.Decode dst syms = some (w, none, buf)) :
    w = BitVec.ofNat 64 buf.length ∧ buf.length = dst.length ∧
    ∀ dst' : List (BitVec 8), dst'.length = syms.length →
      Gen.Bech32.base32.Encode dst' buf = some (BitVec.ofNat 64 syms.length, syms) := by
  have hsl : (un syms).length = syms.length := un_length syms
  rw [Tie.Base32Code.DecodedLen_eq _ (by omega), Tie.Base32Code.toNat_ofNat_lt _
    (by rw [Tie.Base32Code.decodedLen_def]; omega)] at hdst
  rw [← bv_un syms] at h
  obtain ⟨bytes, hm, hw, hbuf⟩ := Tie.Base32Code.ok_of_decode dst (un syms) (by rw [hsl]; omega) w buf h
  have hbl : bytes.length = dst.length := by
    rw [Tie.Base32Code.length_ok _ _ hm, hsl, hdst]
  rw [hbl, List.drop_length, List.append_nil] at hbuf
  have hsy : un syms = b32Encode bytes := (Props.C04.base32_decode_ok_iff _ _ (un_lt hlt)).mp hm
  have hel : encodedLen bytes.length = syms.length := by
    rw [← Proofs.Base32.b32Encode_length, ← hsy, hsl]
  have hbb : bytes.length < 2 ^ 60 := by
    rw [hbl, hdst, Tie.Base32Code.decodedLen_def]; omega
  refine ⟨by rw [hw, hbuf, bv_length], by rw [hbuf, bv_length, hbl], ?_⟩
  intro dst' hdst'
  have := Tie.Base32Code.encode_exact dst' bytes hbb (by rw [hel, hdst'])
  rw [hel, ← hsy, bv_un, ← hbuf] at this
  exact this

/-! ### 4. charset: the code's `decode` inverts the code's `encode` on 5-bit symbols -/

/-- **round trip of the code**: with the two tables `enc`, `decMap` that the code's `newEncoding` builds from the
alphabet in the source (`var charset = newEncoding("qpzry9x8gf2tvdw0s3jn54khce6mua7l")`, the literal being
`Gen.Bech32.charset`), `encode` of 5-bit symbols does not panic and `decode` of the result returns the symbols and the
error `nil`. -/
theorem charset_round_trip (enc dec : List (BitVec 8))
    (hnew : Gen.Bech32.chars.newEncoding (Gen.Bech32.charset.map (BitVec.ofNat 8)) = some (enc, dec))
    (syms : List (BitVec 8)) (hlen : syms.length < 2 ^ 63) (hlt : ∀ s ∈ syms, s.toNat < 32) :
    ∃ chars : List (BitVec 8),
      Gen.Bech32.chars.encoding_encode enc syms = some chars ∧ chars.length = syms.length ∧
      Gen.Bech32.chars.encoding_decode dec chars = some (syms, none) := by
  have hn := Tie.Bech32.code_newEncoding.1
  rw [show Tie.Bech32CharsCode.srcCharset = Gen.Bech32.charset.map (BitVec.ofNat 8) from rfl, hnew] at hn
  obtain ⟨rfl, rfl⟩ := Prod.mk.inj (Option.some.inj hn)
  have hsl : (un syms).length = syms.length := un_length syms
  have hall : (un syms).all (fun s => decide (s.toNat < 32)) = true := by
    rw [List.all_eq_true]; intro s hs; exact decide_eq_true (un_lt hlt s hs)
  have henc := Tie.Bech32.code_charsetEncode (un syms) (by rw [hsl]; exact hlen)
  rw [bv_un, if_pos hall] at henc
  have hcl : (Bech32.charsetEncode (un syms)).length = syms.length := by
    rw [Bech32.charsetEncode, List.length_map, hsl]
  have hdec := Tie.Bech32.code_charsetDecode (Bech32.charsetEncode (un syms)) (by rw [hcl]; exact hlen)
  rw [Proofs.Bech32.charsetDecode_encode _ (un_lt hlt)] at hdec
  refine ⟨_, henc, by rw [bv_length, hcl], ?_⟩
  rw [hdec]
  show some (bv (un syms), none) = _
  rw [bv_un]

/-- the generated `newEncoding` does return tables for that alphabet (the hypothesis above is not vacuous) -/
theorem charset_tables_exist :
    ∃ enc dec, Gen.Bech32.chars.newEncoding (Gen.Bech32.charset.map (BitVec.ofNat 8)) = some (enc, dec) :=
  ⟨_, _, Tie.Bech32.code_newEncoding.1⟩

/-- **conversely**: whatever the code's `decode` accepts (error `nil`) consists of 5-bit symbols that the code's
`encode` maps back to the input — the two maps are inverse bijections between charset strings and symbol strings. -/
theorem charset_accepted_is_encoding (enc dec : List (BitVec 8))
    (hnew : Gen.Bech32.chars.newEncoding (Gen.Bech32.charset.map (BitVec.ofNat 8)) = some (enc, dec))
    (chars syms : List (BitVec 8)) (hlen : chars.length < 2 ^ 63)
    (h : Gen.Bech32.chars.encoding_decode dec chars = some (syms, none)) :
    (∀ s ∈ syms, s.toNat < 32) ∧ syms.length = chars.length ∧
    Gen.Bech32.chars.encoding_encode enc syms = some chars := by
  have hn := Tie.Bech32.code_newEncoding.1
  rw [show Tie.Bech32CharsCode.srcCharset = Gen.Bech32.charset.map (BitVec.ofNat 8) from rfl, hnew] at hn
  obtain ⟨rfl, rfl⟩ := Prod.mk.inj (Option.some.inj hn)
  have hcl : (un chars).length = chars.length := un_length chars
  have hdec := Tie.Bech32.code_charsetDecode (un chars) (by rw [hcl]; exact hlen)
  rw [bv_un, h] at hdec
  cases hm : Bech32.charsetDecode (un chars) with
  | error n => rw [hm] at hdec; simp at hdec
  | ok ds =>
    rw [hm] at hdec
    have hs : syms = bv ds := (Prod.mk.inj (Option.some.inj hdec)).1
    obtain ⟨hce, hdl⟩ := Proofs.Bech32.charsetDecode_ok _ _ hm
    have hlen' : ds.length = chars.length := by
      rw [← hcl, hce, Bech32.charsetEncode, List.length_map]
    have hall : ds.all (fun s => decide (s.toNat < 32)) = true := by
      rw [List.all_eq_true]; intro s hs; exact decide_eq_true (hdl s hs)
    have henc := Tie.Bech32.code_charsetEncode ds (by rw [hlen']; exact hlen)
    rw [if_pos hall, ← hce, bv_un] at henc
    subst hs
    exact ⟨bv_lt hdl, by rw [bv_length, hlen'], henc⟩

/-! ### 5. non-vacuity: the generated functions evaluated on concrete inputs -/

-- 1. hrp "a", data [1, 2, 3]: the six symbols the code creates, and the code accepts them
example : Gen.Bech32.bech32CreateChecksum [97#8] [1#8, 2#8, 3#8] = [31#8, 5#8, 28#8, 4#8, 0#8, 10#8] := by decide +kernel
example : Gen.Bech32.bech32VerifyChecksum [97#8]
    ([1#8, 2#8, 3#8] ++ Gen.Bech32.bech32CreateChecksum [97#8] [1#8, 2#8, 3#8]) = true := by decide +kernel
-- 2. one symbol of that word changed (3 → 4): the hypotheses of `created_word_errors_detected` hold, the code rejects
example : hamming ([1#8, 2#8, 3#8] ++ Gen.Bech32.bech32CreateChecksum [97#8] [1#8, 2#8, 3#8])
    [1#8, 2#8, 4#8, 31#8, 5#8, 28#8, 4#8, 0#8, 10#8] = 1 := by decide +kernel
example : Gen.Bech32.bech32VerifyChecksum [97#8] [1#8, 2#8, 4#8, 31#8, 5#8, 28#8, 4#8, 0#8, 10#8] = false := by decide +kernel
-- 3. base32: 0xFF → [31, 28] → 0xFF; "ab" (2 bytes → 4 symbols → 2 bytes)
example : Gen.Bech32.base32.EncodedLen 1#64 = 2#64 ∧ Gen.Bech32.base32.DecodedLen 2#64 = 1#64 := by decide
example : Gen.Bech32.base32.Encode [0#8, 0#8] [255#8] = some (2#64, [31#8, 28#8]) := by decide
example : Gen.Bech32.base32.Decode [0#8] [31#8, 28#8] = some (1#64, none, [255#8]) := by decide
example : Gen.Bech32.base32.Encode [9#8, 9#8, 9#8, 9#8] [97#8, 98#8] = some (4#64, [12#8, 5#8, 17#8, 0#8]) := by decide
example : Gen.Bech32.base32.Decode [7#8, 7#8] [12#8, 5#8, 17#8, 0#8] = some (2#64, none, [97#8, 98#8]) := by decide
-- non-zero padding is refused by the code: [31, 29] is not an output of `Encode`
example : Gen.Bech32.base32.Decode [0#8] [31#8, 29#8] = some (1#64, some ("ErrNonZeroPadding", 1#64), [255#8]) := by
  decide
-- 4. charset: symbols [0, 1, 31] ↦ "qpl" ↦ [0, 1, 31], with the tables of the generated `newEncoding`
example : (Gen.Bech32.chars.newEncoding (Gen.Bech32.charset.map (BitVec.ofNat 8))).isSome = true := by decide +kernel
example : (Gen.Bech32.chars.newEncoding (Gen.Bech32.charset.map (BitVec.ofNat 8))).bind
    (fun t => Gen.Bech32.chars.encoding_encode t.1 [0#8, 1#8, 31#8]) = some [113#8, 112#8, 108#8] := by decide +kernel
example : (Gen.Bech32.chars.newEncoding (Gen.Bech32.charset.map (BitVec.ofNat 8))).bind
    (fun t => Gen.Bech32.chars.encoding_decode t.2 [113#8, 112#8, 108#8]) = some ([0#8, 1#8, 31#8], none) := by decide +kernel

-- the theorems instantiated: their hypotheses are satisfiable
example : Gen.Bech32.bech32VerifyChecksum [97#8] [1#8, 2#8, 4#8, 31#8, 5#8, 28#8, 4#8, 0#8, 10#8] = false :=
  created_word_errors_detected [97#8] [1#8, 2#8, 3#8] _ (by decide) (by decide) (by decide) (by decide)
    (by decide +kernel) (by decide +kernel)
example : ∃ syms, Gen.Bech32.base32.Encode [9#8, 9#8, 9#8, 9#8] [97#8, 98#8] = some (4#64, syms) ∧
    Gen.Bech32.base32.Decode [7#8, 7#8] syms = some (2#64, none, [97#8, 98#8]) := by
  obtain ⟨syms, h1, _, _, _, h2⟩ := base32_round_trip [97#8, 98#8] [9#8, 9#8, 9#8, 9#8] (by decide) (by decide)
  exact ⟨syms, h1, h2 [7#8, 7#8] (by decide)⟩
example : ∃ enc dec chars, Gen.Bech32.chars.newEncoding (Gen.Bech32.charset.map (BitVec.ofNat 8)) = some (enc, dec) ∧
    Gen.Bech32.chars.encoding_encode enc [0#8, 1#8, 31#8] = some chars ∧
    Gen.Bech32.chars.encoding_decode dec chars = some ([0#8, 1#8, 31#8], none) := by
  obtain ⟨enc, dec, h⟩ := charset_tables_exist
  obtain ⟨chars, h1, _, h2⟩ := charset_round_trip enc dec h [0#8, 1#8, 31#8] (by decide) (by decide)
  exact ⟨enc, dec, chars, h, h1, h2⟩


end Iota.Tie.E2E.Bech32
