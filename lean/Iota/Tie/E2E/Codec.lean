/-
End-to-end theorems for the b1t6 / b1t8 codecs, stated about the GENERATED code only
(`Iota.Gen.B1T6.b1t6.*`, `Iota.Gen.B1T6.b1t8.*`: the Lean definitions translated from the Go source; `none` = Go run-time
panic; an output buffer is an extra list argument and the last component of the result is its content on return).

They are obtained by composing the code ties (`Iota/Tie/C14.lean`: generated code = model) with the property theorems
about the model (`Iota/Props/C14.lean`); the one exception is the b1t6 round trip, which needs `Decode` on up to `6·2^60`
trits, beyond the `2^62` of the tie, and uses the tie re-proved for `len < 2^63` in section `Decode63` below.  No model function occurs in a statement below; the only conversion that does is
`bv : List UInt8 → List (BitVec 8)` (`List.map UInt8.toBitVec`), used to quantify over byte strings.
-/
import Iota.Tie.C14
import Iota.Props.C14

namespace Iota.Tie.E2E.Codec
open Iota
open Iota.Tie.Bech32Code (bv)
open Iota.Tie.B1T8Code (trits ofTrits)

/-- an `int8` buffer holding balanced trits only: every entry is −1, 0 or 1 -/
def Trits (t : List (BitVec 8)) : Prop := ∀ x ∈ t, x = BitVec.ofInt 8 (-1) ∨ x = 0#8 ∨ x = 1#8

/-- an `int8` buffer holding binary trits only: every entry is 0 or 1 -/
def Bits (t : List (BitVec 8)) : Prop := ∀ x ∈ t, x = 0#8 ∨ x = 1#8

/-! ### conversions between the code's `int8` buffers and the model's `Int` trits -/

theorem validTrits_of_Trits (t : List (BitVec 8)) (h : Trits t) : B1T6.ValidTrits (trits t) := by
  intro v hv
  simp only [trits, List.mem_map] at hv
  obtain ⟨x, hx, rfl⟩ := hv
  rcases h x hx with rfl | rfl | rfl
  · exact Or.inl (by decide)
  · exact Or.inr (Or.inl (by decide))
  · exact Or.inr (Or.inr (by decide))

theorem Trits_ofTrits (l : List Int) (h : B1T6.ValidTrits l) : Trits (ofTrits l) := by
  intro x hx
  simp only [ofTrits, List.mem_map] at hx
  obtain ⟨v, hv, rfl⟩ := hx
  rcases h v hv with rfl | rfl | rfl
  · exact Or.inl rfl
  · exact Or.inr (Or.inl (by decide))
  · exact Or.inr (Or.inr (by decide))

theorem ofTrits_length (l : List Int) : (ofTrits l).length = l.length := by simp [ofTrits]
theorem trits_length (l : List (BitVec 8)) : (trits l).length = l.length := by simp [trits]
theorem bv_length (l : List UInt8) : (bv l).length = l.length := by simp [bv]

theorem b1t6_errOf_none (e : Option B1T6.Err) (h : B1T6Code.errOf e = none) : e = none := by
  cases e with
  | none => rfl
  | some e => cases e <;> simp [B1T6Code.errOf] at h

theorem b1t8_errOf_none (e : Option B1T8.Err) (h : B1T8Code.errOf e = none) : e = none := by
  cases e with
  | none => rfl
  | some e => cases e <;> simp [B1T8Code.errOf] at h

theorem toNat_ofNat64 (k : Nat) (h : k < 2 ^ 64) : (BitVec.ofNat 64 k).toNat = k := by
  simp only [BitVec.toNat_ofNat]; omega

theorem take_bv_append (bs : List UInt8) (r : List (BitVec 8)) : (bv bs ++ r).take bs.length = bv bs := by
  rw [← bv_length bs, List.take_left]

theorem append_drop_all (a b : List (BitVec 8)) (k : Nat) (h : b.length ≤ k) : a ++ b.drop k = a := by
  rw [List.drop_of_length_le h, List.append_nil]

/-! ### the `Decode` tie of b1t6 for `len(src) < 2^63`

`C14.code_b1t6_decode` is stated for `len(src) < 2^62`, but `Encode` of `len < 2^60` bytes writes up to `6·2^60 > 2^62`
trits, so the round trip below needs the decoder a little further.  Nothing in `Decode` overflows before `2^63`: the five
loop lemmas of `Iota/Tie/B1T6Code.lean` (`forUp_groups`, `decStep_eq`, `decTail_eq`, `dec_loop`, `decode_gen`) are repeated
here verbatim with the weaker hypothesis (the proofs go through unchanged), about the same generated `decStep` / `decTail`
and the same recursive description `decodeBV`. -/
namespace Decode63
open Iota.Go
open Iota.Tie.B1T8Code (writeAt writeAt_nil writeAt_set inRangeS_ofNat)
open Iota.Tie.B1T6Code

theorem forUp_groups6 (n : Nat) (hn : n < 2 ^ 63) :
    forUp true true 0#64 (BitVec.ofNat 64 n - BitVec.ofNat 64 6) 6 =
      (List.range (n / 6)).map (fun k => BitVec.ofNat 64 (6 * k)) := by
  by_cases h : 6 ≤ n
  · have hsub : BitVec.ofNat 64 n - BitVec.ofNat 64 6 = BitVec.ofNat 64 (n - 6) := by
      apply BitVec.eq_of_toNat_eq
      rw [BitVec.toNat_sub, toNat_ofNat64 n (by omega), toNat_ofNat64 6 (by omega), toNat_ofNat64 (n - 6) (by omega)]
      omega
    rw [hsub, show (0#64 : BitVec 64) = BitVec.ofNat 64 0 from rfl,
      forUp_int true 0 (n - 6) 6 (by simp) (by omega)]
    simp only [if_true, Nat.sub_zero, Nat.zero_add]
    rw [← Nat.div_eq_sub_div (by decide) h]
    apply List.map_congr_left
    intro m _
    rw [Nat.mul_comm]
  · have hlt : n / 6 = 0 := Nat.div_eq_of_lt (by omega)
    rw [hlt, forUp_eq]
    have : cmpUp true true (BitVec.ofNat 64 n - BitVec.ofNat 64 6) 0#64 = false := by
      unfold cmpUp
      simp only [if_true]
      rw [BitVec.sle, BitVec.toInt_sub, Go.toInt_ofNat_small n (by omega), Go.toInt_ofNat_small 6 (by omega)]
      have : ((n : Int) - ((6 : Nat) : Int)).bmod (2 ^ 64) = (n : Int) - (6 : Nat) := by
        apply Int.bmod_eq_of_le <;> simp <;> omega
      rw [this]
      exact decide_eq_false (by simp; omega)
    rw [this]
    rfl

theorem decStep_eq63 (src dst : List (BitVec 8)) (i j : Nat) (hn : src.length < 2 ^ 63) (hi : i < 2 ^ 63)
    (t0 t1 t2 t3 t4 t5 : BitVec 8) (rest : List (BitVec 8))
    (hs : src.drop j = t0 :: t1 :: t2 :: t3 :: t4 :: t5 :: rest) :
    decStep src (dst, BitVec.ofNat 64 i) (BitVec.ofNat 64 j) =
      if (Gen.B1T6.b1t6.decodeGroup (tv t0 t1 t2) (tv t3 t4 t5)).2 then
        if i < dst.length then
          .run (dst.set i (Gen.B1T6.b1t6.decodeGroup (tv t0 t1 t2) (tv t3 t4 t5)).1, BitVec.ofNat 64 (i + 1))
        else .panic
      else .done (BitVec.ofNat 64 i, some "ErrInvalidTrits", dst) := by
  have hj : j + 6 ≤ src.length := by
    have := congrArg List.length hs
    rw [List.length_drop] at this
    simp only [List.length_cons] at this
    omega
  have e3 : BitVec.ofNat 64 j + 3#64 = BitVec.ofNat 64 (j + 3) := (BitVec.ofNat_add j 3).symm
  have e6 : BitVec.ofNat 64 j + 6#64 = BitVec.ofNat 64 (j + 6) := (BitVec.ofNat_add j 6).symm
  have e1 : BitVec.ofNat 64 i + 1#64 = BitVec.ofNat 64 (i + 1) := (BitVec.ofNat_add i 1).symm
  have hs3 : src.drop (j + 3) = t3 :: t4 :: t5 :: rest := by rw [← List.drop_drop, hs]; rfl
  unfold decStep
  simp only [e3, e6, e1, toNat_ofNat64 j (by omega), toNat_ofNat64 (j + 3) (by omega), toNat_ofNat64 i (by omega),
    sliceFromS_ofNat j _ (by omega), sliceFromS_ofNat (j + 3) _ (by omega),
    sliceOK_ofNat j (j + 6) _ (by omega) (by omega), inRangeS_ofNat i _ hi, hs, hs3, mustTritsToTryteValue_eq]
  have d1 : decide (j ≤ src.length) = true := decide_eq_true (by omega)
  have d2 : decide (j + 3 ≤ src.length) = true := decide_eq_true (by omega)
  have d3 : decide (j + 6 ≤ src.length) = true := decide_eq_true hj
  have d4 : decide (j ≤ j + 6) = true := decide_eq_true (by omega)
  have c1 : 3 ≤ (t0 :: t1 :: t2 :: t3 :: t4 :: t5 :: rest).length := by simp
  have c2 : 3 ≤ (t3 :: t4 :: t5 :: rest).length := by simp
  simp only [d1, d2, d3, d4, if_pos c1, if_pos c2, Bool.not_true, Bool.false_eq_true, if_false, call_some,
    Flow.bind_run, List.getD_cons_zero, List.getD_cons_succ, Bool.and_self]
  cases hg : (Gen.B1T6.b1t6.decodeGroup (tv t0 t1 t2) (tv t3 t4 t5)).2
  · simp only [Bool.not_false, if_true, Bool.false_eq_true, if_false]
  · simp only [Bool.not_true, Bool.false_eq_true, if_false, if_true]
    by_cases hd : i < dst.length
    · simp only [decide_eq_true hd, if_pos hd, Bool.not_true, Bool.false_eq_true, if_false]
    · simp only [decide_eq_false hd, if_neg hd, Bool.not_false, if_true]

theorem decTail_eq63 (src dst : List (BitVec 8)) (i : Nat) (hn : src.length < 2 ^ 63) :
    decTail src (dst, BitVec.ofNat 64 i) =
      .done (BitVec.ofNat 64 i, (if src.length % 6 = 0 then none else some "ErrInvalidLength"), dst) := by
  unfold decTail
  simp only []
  rw [show (6#64 : BitVec 64) = BitVec.ofNat 64 6 from rfl, srem_ofNat _ 6 (by omega) (by decide) (by decide),
    bne_ofNat_zero _ (by omega)]
  by_cases h : src.length % 6 = 0
  · rw [if_pos h, decide_eq_false (by omega)]; rfl
  · rw [if_neg h, decide_eq_true h]; rfl

theorem dec_loop63 (src : List (BitVec 8)) (hn : src.length < 2 ^ 63) : ∀ (m k i : Nat) (dst : List (BitVec 8)),
    k + m = src.length / 6 → i + m < 2 ^ 63 → i ≤ dst.length →
    Flow.result ((Go.forIn ((List.range' k m).map (fun k => BitVec.ofNat 64 (6 * k))) (dst, BitVec.ofNat 64 i)
      (decStep src)).bind (decTail src)) = specD dst (src.drop (6 * k)) i := by
  intro m
  induction m with
  | zero =>
    intro k i dst hk hi hd
    have hl : (src.drop (6 * k)).length = src.length % 6 := by rw [List.length_drop]; omega
    have hm := Nat.mod_lt src.length (show 0 < 6 by decide)
    rw [List.range'_zero, List.map_nil, forIn_nil, Flow.bind_run, decTail_eq63 src dst i hn, specD,
      decodeBV_short _ (by omega), hl]
    simp only [List.length_nil, Nat.add_zero, if_pos hd, writeAt_nil, Flow.result_done]
    by_cases h : src.length % 6 = 0
    · rw [if_pos h, if_pos h]; rfl
    · rw [if_neg h, if_neg h]; rfl
  | succ m ih =>
    intro k i dst hk hi hd
    have hl : 6 ≤ (src.drop (6 * k)).length := by rw [List.length_drop]; omega
    obtain ⟨t0, t1, t2, t3, t4, t5, rest, hs⟩ := cons6 _ hl
    have hrest : src.drop (6 * (k + 1)) = rest := by
      rw [show 6 * (k + 1) = 6 * k + 6 by omega, ← List.drop_drop, hs]; rfl
    rw [List.range'_succ, List.map_cons, forIn_cons, decStep_eq63 src dst i (6 * k) hn (by omega) t0 t1 t2 t3 t4 t5 rest hs,
      specD, hs, decodeBV_cons6]
    cases hg : (Gen.B1T6.b1t6.decodeGroup (tv t0 t1 t2) (tv t3 t4 t5)).2
    · simp only [Bool.false_eq_true, if_false, Flow.bind_done, Flow.result_done, List.length_nil, Nat.add_zero,
        if_pos hd, writeAt_nil]
      rfl
    · simp only [if_true, List.length_cons]
      by_cases hid : i < dst.length
      · rw [if_pos hid, Flow.bind_run, ih (k + 1) (i + 1) _ (by omega) (by omega) (by rw [List.length_set]; omega),
          specD, hrest, List.length_set]
        by_cases hfit : i + 1 + (decodeBV rest).1.length ≤ dst.length
        · rw [if_pos hfit, if_pos (by omega), writeAt_set dst i _ _ hid]
          congr 3
          omega
        · rw [if_neg hfit, if_neg (by omega)]
      · rw [if_neg hid, Flow.bind_panic, Flow.bind_panic, Flow.result_panic, if_neg (by omega)]

theorem decode_gen63 (dst src : List (BitVec 8)) (hn : src.length < 2 ^ 63) :
    Gen.B1T6.b1t6.Decode dst src =
      if (decodeBV src).1.length ≤ dst.length then
        some (BitVec.ofNat 64 (decodeBV src).1.length, errOf (decodeBV src).2,
          (decodeBV src).1 ++ dst.drop (decodeBV src).1.length)
      else none := by
  rw [Decode_unfold, show (6#64 : BitVec 64) = BitVec.ofNat 64 6 from rfl,
    forUp_groups6 src.length hn, range_map_range',
    show (0#64 : BitVec 64) = BitVec.ofNat 64 0 from rfl,
    dec_loop63 src hn (src.length / 6) 0 0 dst (by omega) (by omega) (Nat.zero_le _), specD]
  simp only [Nat.mul_zero, List.drop_zero, Nat.zero_add, writeAt, List.take_zero, List.nil_append]


/-- `Decode` on valid trits with enough room is the model, `len(src) < 2^63` (cf. `B1T6Code.decode_eq`) -/
theorem decode_eq63 (dst src : List (BitVec 8)) (hn : src.length < 2 ^ 63) (hv : B1T6.ValidTrits (trits src))
    (hfit : (B1T6.decode (trits src)).1.length ≤ dst.length) :
    Gen.B1T6.b1t6.Decode dst src =
      some (BitVec.ofNat 64 (B1T6.decode (trits src)).1.length, errOf (B1T6.decode (trits src)).2,
        bv (B1T6.decode (trits src)).1 ++ dst.drop (B1T6.decode (trits src)).1.length) := by
  rw [decode_gen63 dst src hn, decodeBV_valid src.length src (Nat.le_refl _) hv]
  simp only [B1T6Code.bv_length]
  rw [if_pos hfit]

end Decode63

/-! ### b1t6 -/

/-- 1. ROUND TRIP OF THE CODE.  `Encode` into a buffer of exactly `EncodedLen` entries does not panic, reports `6·len(src)`
trits written, fills the buffer with balanced trits, and `Decode` of that buffer into any buffer of `len(src)` bytes does
not panic, reports `len(src)` bytes, no error, and returns the original bytes. -/
theorem b1t6_roundtrip (src : List UInt8) (hlen : src.length < 2 ^ 60) (dst : List (BitVec 8))
    (hdst : dst.length = 6 * src.length) :
    ∃ t, Gen.B1T6.b1t6.Encode dst (bv src) = some (BitVec.ofNat 64 (6 * src.length), t) ∧
      (∀ x ∈ t, x = BitVec.ofInt 8 (-1) ∨ x = 0#8 ∨ x = 1#8) ∧
      ∀ out : List (BitVec 8), out.length = src.length →
        Gen.B1T6.b1t6.Decode out t = some (BitVec.ofNat 64 src.length, none, bv src) := by
  refine ⟨ofTrits (B1T6.encode src), ?_, Trits_ofTrits _ (Props.C14.b1t6_encode_valid src), ?_⟩
  · rw [(C14.code_b1t6_encode dst src hlen).1 (by omega), append_drop_all _ _ _ (by omega)]
  · intro out hout
    have htl : (ofTrits (B1T6.encode src)).length < 2 ^ 63 := by
      rw [ofTrits_length, Props.C14.b1t6_encode_length]; omega
    have hv : B1T6.ValidTrits (trits (ofTrits (B1T6.encode src))) := by
      rw [B1T6Code.trits_ofTrits_encode]; exact Props.C14.b1t6_encode_valid src
    have h := Decode63.decode_eq63 out (ofTrits (B1T6.encode src)) htl hv
    rw [B1T6Code.trits_ofTrits_encode, Props.C14.b1t6_decode_encode] at h
    have h' := h (by simp only; omega)
    simp only [B1T6Code.errOf] at h'
    rw [h', append_drop_all _ _ _ (by omega)]

theorem isTryteChar_bv (c : UInt8) (h : B1T6.isTryteChar c = true) :
    c.toBitVec = 57#8 ∨ (65 ≤ c.toBitVec.toNat ∧ c.toBitVec.toNat ≤ 90) := by
  simp only [B1T6.isTryteChar, Bool.or_eq_true, beq_iff_eq, Bool.and_eq_true, decide_eq_true_eq] at h
  rcases h with h | h
  · left; rw [h]; rfl
  · right; exact h

theorem encodeToTrytes_chars (src : List UInt8) : ∀ c ∈ B1T6.encodeToTrytes src, B1T6.isTryteChar c = true := by
  intro c hc
  simp only [B1T6.encodeToTrytes, List.mem_flatMap] at hc
  obtain ⟨b, _, hcb⟩ := hc
  obtain ⟨c1, c2, he, h1, h2, _⟩ := Proofs.B1T6.encodeByteTrytes_shape b
  rw [he] at hcb
  simp only [List.mem_cons, List.not_mem_nil, or_false] at hcb
  rcases hcb with rfl | rfl <;> assumption

theorem encodeToTrytes_length (src : List UInt8) : (B1T6.encodeToTrytes src).length = 2 * src.length := by
  induction src with
  | nil => rfl
  | cons b src ih =>
    rw [Proofs.B1T6.encodeToTrytes_cons, List.length_append, ih]
    obtain ⟨c1, c2, he, _⟩ := Proofs.B1T6.encodeByteTrytes_shape b
    rw [he]; simp only [List.length_cons, List.length_nil]; omega

/-- 2. TRYTE ROUND TRIP OF THE CODE.  `EncodeToTrytes` does not panic and returns `2·len(src)` characters of the tryte
alphabet, which `DecodeTrytes` (without panicking) decodes to the original bytes with no error. -/
theorem b1t6_trytes_roundtrip (src : List UInt8) (hlen : src.length < 2 ^ 60) :
    ∃ y, Gen.B1T6.b1t6.EncodeToTrytes (bv src) = some y ∧
      y.length = 2 * src.length ∧
      (∀ c ∈ y, c = 57#8 ∨ (65 ≤ c.toNat ∧ c.toNat ≤ 90)) ∧
      Gen.B1T6.b1t6.DecodeTrytes y = some (bv src, none) := by
  refine ⟨bv (B1T6.encodeToTrytes src), C14.code_b1t6_encodeToTrytes src hlen, ?_, ?_, ?_⟩
  · rw [bv_length, encodeToTrytes_length]
  · intro c hc
    simp only [bv, List.mem_map] at hc
    obtain ⟨u, hu, rfl⟩ := hc
    exact isTryteChar_bv u (encodeToTrytes_chars src u hu)
  · have hc : ∀ c ∈ B1T6.encodeToTrytes src, 57 ≤ c.toNat ∧ c.toNat ≤ 90 := by
      intro c hc
      have h := isTryteChar_bv c (encodeToTrytes_chars src c hc)
      rcases h with h | h
      · have : c.toNat = 57 := by
          have := congrArg BitVec.toNat h
          simpa using this
        omega
      · have h1 : c.toBitVec.toNat = c.toNat := rfl
        omega
    have h := (C14.code_b1t6_decodeTrytes (B1T6.encodeToTrytes src)
      (by rw [encodeToTrytes_length]; omega) hc).1
    rw [Props.C14.b1t6_decodeTrytes_encode] at h
    exact h

/-- 3. THE DECODER ACCEPTS ONLY CODE WORDS, at code level.  On balanced trits `t`, whatever the output buffer `out`:
if `Decode` returns (no panic) with no error, count `n` and buffer `res`, then `n = len(t) / 6` exactly
(`6·n = len(t)`), and re-encoding the `n` decoded bytes `res[:n]` with the generated `Encode` into any buffer of `len(t)`
entries writes `len(t)` trits and reproduces `t` exactly.  (No hypothesis that `out` is long enough is needed: when it is too
short `Decode` panics, so the premise fails.) -/
theorem b1t6_decode_accepts_only_codewords (t : List (BitVec 8))
    (hv : ∀ x ∈ t, x = BitVec.ofInt 8 (-1) ∨ x = 0#8 ∨ x = 1#8) (hlen : t.length < 2 ^ 62)
    (out : List (BitVec 8)) (n : BitVec 64) (res : List (BitVec 8))
    (h : Gen.B1T6.b1t6.Decode out t = some (n, none, res)) :
    6 * n.toNat = t.length ∧ n.toNat ≤ out.length ∧ res.length = out.length ∧
    ∀ buf : List (BitVec 8), buf.length = t.length →
      Gen.B1T6.b1t6.Encode buf (res.take n.toNat) = some (BitVec.ofNat 64 t.length, t) := by
  obtain ⟨h1, h2⟩ := (C14.code_b1t6_decode out t hlen).1 (validTrits_of_Trits t hv)
  generalize hM : B1T6.decode (trits t) = M at h1 h2
  obtain ⟨bs, e⟩ := M
  simp only at h1 h2
  by_cases hl : bs.length ≤ out.length
  · rw [h1 hl] at h
    simp only [Option.some.injEq, Prod.mk.injEq] at h
    obtain ⟨hn, he, hres⟩ := h
    have he' := b1t6_errOf_none e he
    subst he'
    have henc : trits t = B1T6.encode bs :=
      (Props.C14.b1t6_decode_ok_iff (trits t) (validTrits_of_Trits t hv) bs).1 hM
    have ht : t = ofTrits (B1T6.encode bs) := by rw [← henc, B1T8Code.ofTrits_trits]
    have htl : t.length = 6 * bs.length := by
      rw [← trits_length t, henc, Props.C14.b1t6_encode_length]
    have hnn : n.toNat = bs.length := by rw [← hn]; exact toNat_ofNat64 _ (by omega)
    refine ⟨by omega, by omega, ?_, ?_⟩
    · rw [← hres, List.length_append, List.length_drop, bv_length]; omega
    · intro buf hbuf
      rw [hnn, ← hres, take_bv_append,
        (C14.code_b1t6_encode buf bs (by omega)).1 (by omega), append_drop_all _ _ _ (by omega), ← ht, htl]
  · rw [h2 (by omega)] at h
    exact absurd h (by simp)

/-! ### b1t8 -/

theorem b1t8_encode_length (bs : List UInt8) : (B1T8.encode bs).length = 8 * bs.length := by
  induction bs with
  | nil => rfl
  | cons b bs ih =>
    rw [Proofs.B1T8.encode_cons, List.length_append, ih]
    simp only [B1T8.encodeByte, List.length_cons, List.length_nil]; omega

theorem b1t8_encodeByte_bits : ∀ n : Nat, n < 256 → ∀ x ∈ B1T8.encodeByte (UInt8.ofNat n), x = 0 ∨ x = 1 := by
  decide +kernel

theorem b1t8_encode_bits (bs : List UInt8) : Bits (ofTrits (B1T8.encode bs)) := by
  intro x hx
  simp only [ofTrits, B1T8.encode, List.mem_map, List.mem_flatMap] at hx
  obtain ⟨v, ⟨b, _, hvb⟩, rfl⟩ := hx
  have h := b1t8_encodeByte_bits b.toNat b.toNat_lt
  rw [UInt8.ofNat_toNat] at h
  rcases h v hvb with rfl | rfl
  · exact Or.inl (by decide)
  · exact Or.inr (by decide)

/-- 4a. b1t8 ROUND TRIP OF THE CODE.  `Encode` into a buffer of exactly `EncodedLen` entries does not panic, reports
`8·len(src)` trits, fills the buffer with 0/1 trits, and `Decode` of that buffer into any buffer of `len(src)` bytes does not
panic, reports `len(src)` bytes, no error, and returns the original bytes. -/
theorem b1t8_roundtrip (src : List UInt8) (hlen : src.length < 2 ^ 60) (dst : List (BitVec 8))
    (hdst : dst.length = 8 * src.length) :
    ∃ t, Gen.B1T6.b1t8.Encode dst (bv src) = some (BitVec.ofNat 64 (8 * src.length), t) ∧
      (∀ x ∈ t, x = 0#8 ∨ x = 1#8) ∧
      ∀ out : List (BitVec 8), out.length = src.length →
        Gen.B1T6.b1t8.Decode out t = some (BitVec.ofNat 64 src.length, none, bv src) := by
  refine ⟨ofTrits (B1T8.encode src), ?_, b1t8_encode_bits src, ?_⟩
  · rw [(C14.code_b1t8_encode dst src).1 (by omega), append_drop_all _ _ _ (by omega)]
  · intro out hout
    have htl : (ofTrits (B1T8.encode src)).length < 2 ^ 63 := by
      rw [ofTrits_length, b1t8_encode_length]; omega
    have h := (C14.code_b1t8_decode out (ofTrits (B1T8.encode src)) htl).1
    rw [B1T8Code.trits_ofTrits_encode, Props.C14.b1t8_decode_encode] at h
    have h' := h (by simp only; omega)
    simp only [B1T8Code.errOf] at h'
    rw [h', append_drop_all _ _ _ (by omega)]

/-- 4b. b1t8 ACCEPTANCE = CODE WORDS, at code level, for ALL `int8` input (no validity hypothesis) and whatever the
output buffer: if `Decode` returns with no error, count `n` and buffer `res`, then `8·n = len(t)` and re-encoding `res[:n]`
with the generated `Encode` into any buffer of `len(t)` entries reproduces `t` exactly (in particular `t` holds only 0/1). -/
theorem b1t8_decode_accepts_only_codewords (t : List (BitVec 8)) (hlen : t.length < 2 ^ 63)
    (out : List (BitVec 8)) (n : BitVec 64) (res : List (BitVec 8))
    (h : Gen.B1T6.b1t8.Decode out t = some (n, none, res)) :
    8 * n.toNat = t.length ∧ n.toNat ≤ out.length ∧ res.length = out.length ∧
    (∀ x ∈ t, x = 0#8 ∨ x = 1#8) ∧
    ∀ buf : List (BitVec 8), buf.length = t.length →
      Gen.B1T6.b1t8.Encode buf (res.take n.toNat) = some (BitVec.ofNat 64 t.length, t) := by
  obtain ⟨h1, h2⟩ := C14.code_b1t8_decode out t hlen
  generalize hM : B1T8.decode (trits t) = M at h1 h2
  obtain ⟨bs, e⟩ := M
  simp only at h1 h2
  by_cases hl : bs.length ≤ out.length
  · rw [h1 hl] at h
    simp only [Option.some.injEq, Prod.mk.injEq] at h
    obtain ⟨hn, he, hres⟩ := h
    have he' := b1t8_errOf_none e he
    subst he'
    have henc : trits t = B1T8.encode bs := (Props.C14.b1t8_decode_ok_iff (trits t) bs).1 hM
    have ht : t = ofTrits (B1T8.encode bs) := by rw [← henc, B1T8Code.ofTrits_trits]
    have htl : t.length = 8 * bs.length := by rw [← trits_length t, henc, b1t8_encode_length]
    have hnn : n.toNat = bs.length := by rw [← hn]; exact toNat_ofNat64 _ (by omega)
    refine ⟨by omega, by omega, ?_, ?_, ?_⟩
    · rw [← hres, List.length_append, List.length_drop, bv_length]; omega
    · rw [ht]; exact b1t8_encode_bits bs
    · intro buf hbuf
      rw [hnn, ← hres, take_bv_append,
        (C14.code_b1t8_encode buf bs).1 (by omega), append_drop_all _ _ _ (by omega), ← ht, htl]
  · rw [h2 (by omega)] at h
    exact absurd h (by simp)

/-! ### non-vacuity: the generated code evaluated on concrete input -/

/-- 1 on `src = [0, 255, 128]` (`dst` = 18 entries of garbage) -/
example :
    Gen.B1T6.b1t6.Encode (List.replicate 18 7#8) (bv [0, 255, 128]) =
      some (18#64, [0, 0, 0, 0, 0, 0, -1, 0, 0, 0, 0, 0, 1, -1, 1, 1, 1, -1].map (BitVec.ofInt 8)) ∧
    Gen.B1T6.b1t6.Decode (List.replicate 3 7#8)
        ([0, 0, 0, 0, 0, 0, -1, 0, 0, 0, 0, 0, 1, -1, 1, 1, 1, -1].map (BitVec.ofInt 8)) =
      some (3#64, none, bv [0, 255, 128]) := by decide

/-- 2 on `src = [0, 255, 128]`: the trytes are `"99Z9GV"` -/
example :
    Gen.B1T6.b1t6.EncodeToTrytes (bv [0, 255, 128]) = some [57#8, 57#8, 90#8, 57#8, 71#8, 86#8] ∧
    Gen.B1T6.b1t6.DecodeTrytes [57#8, 57#8, 90#8, 57#8, 71#8, 86#8] = some (bv [0, 255, 128], none) := by decide

/-- 3: a non-code word is rejected (premise of 3 fails with an error), a code word is accepted and re-encodes to itself -/
example :
    Gen.B1T6.b1t6.Decode [7#8] [1#8, 1#8, 1#8, 1#8, 1#8, 1#8] = some (0#64, some "ErrInvalidTrits", [7#8]) ∧
    Gen.B1T6.b1t6.Decode [7#8, 7#8] ([1, -1, 1, 1, 1, -1].map (BitVec.ofInt 8)) = some (1#64, none, [128#8, 7#8]) ∧
    Gen.B1T6.b1t6.Encode (List.replicate 6 7#8) ([128#8, 7#8].take 1) =
      some (6#64, [1, -1, 1, 1, 1, -1].map (BitVec.ofInt 8)) := by decide

/-- 4a on `src = [0, 255, 128]` -/
example :
    Gen.B1T6.b1t8.Encode (List.replicate 24 7#8) (bv [0, 255, 128]) =
      some (24#64, [0,0,0,0,0,0,0,0, 1,1,1,1,1,1,1,1, 0,0,0,0,0,0,0,1]) ∧
    Gen.B1T6.b1t8.Decode (List.replicate 3 7#8) [0,0,0,0,0,0,0,0, 1,1,1,1,1,1,1,1, 0,0,0,0,0,0,0,1] =
      some (3#64, none, bv [0, 255, 128]) := by decide

/-- 4b: an `int8` outside {0, 1} is rejected; a code word is accepted and re-encodes to itself -/
example :
    Gen.B1T6.b1t8.Decode [7#8] [0,0,0,0,0,0,0,255#8] = some (0#64, some "ErrInvalidTrit", [7#8]) ∧
    Gen.B1T6.b1t8.Decode [7#8, 7#8] [0,0,0,0,0,0,0,1] = some (1#64, none, [128#8, 7#8]) ∧
    Gen.B1T6.b1t8.Encode (List.replicate 8 7#8) ([128#8, 7#8].take 1) = some (8#64, [0,0,0,0,0,0,0,1]) := by decide

/-- the hypotheses of the theorems are satisfiable: the theorems applied to these instances -/
example := b1t6_roundtrip [0, 255, 128] (by decide) (List.replicate 18 7#8) rfl
example := b1t6_trytes_roundtrip [0, 255, 128] (by decide)
example := b1t6_decode_accepts_only_codewords ([1, -1, 1, 1, 1, -1].map (BitVec.ofInt 8)) (by decide) (by decide)
  [7#8, 7#8] 1#64 [128#8, 7#8] (by decide)
example := b1t8_roundtrip [0, 255, 128] (by decide) (List.replicate 24 7#8) rfl
example := b1t8_decode_accepts_only_codewords [0,0,0,0,0,0,0,1] (by decide) [7#8, 7#8] 1#64 [128#8, 7#8] (by decide)

end Iota.Tie.E2E.Codec
