/-
END-TO-END theorems for the public functions of pkg/bech32: properties of the GENERATED `api.Encode` / `api.Decode`
(`Iota/Gen/Bech32.lean`, regenerated from bech32.go on every run), obtained by combining the code ties
`Tie.Bech32.code_encode` / `code_decode` (generated code = hand-written model, for all byte strings below the length
bounds) with the property theorems about the model (C04, C05, C16).

The main theorems (the ones with a bold doc comment) are statements about `Enc` and `Dec` only — two abbreviations of
the generated functions applied to the tables the generated `newEncoding` builds and to library functions `E : Externs`
— plus `bv` (the bijection `List UInt8 ≃ List (BitVec 8)` between the byte type of the statements and the one of the
translated code), the list function `Bech32.lower` (ASCII lower-casing), the precondition `EncPre` and, for C16, the
substitution relations of `Props.C16`.  None mentions the model's `Bech32.encode` / `Bech32.decode`; only the
inversion lemmas of the first section do.  `none` is a Go run-time panic; an error is
`some (name of the error variable, offset of a *SyntaxError)`.

The length bounds (`< 2^63`, `< 2^62`, `< 2^60`) are the ones of the ties (Go `int` is 64 bits; at 2^60 payload bytes
`EncodedLen` wraps around and `make` panics — `Tie.Bech32ApiCode.encode_panics_at_2_60`).
-/
import Iota.Tie.E2E.Bech32

namespace Iota.Tie.E2E.Bech32Api
open Iota
open Iota.Tie.Bech32Code (bv)
open Iota.Tie.Bech32CharsCode (encTable decTable)
open Iota.Tie.Bech32ApiCode (Externs encErr kindName bv_inj)
open Iota.Tie.E2E.Bech32 (un bv_un un_bv bv_length)
open Iota.Proofs.Bech32 (EncPre)
open Iota.Proofs.Bech32Errors (Forall2 HrpSub DataSub forall2_length)
open Iota.Proofs.BCH (hamming)

/-! ### the two functions the statements are about -/

/-- the generated `bech32.Encode(hrp, src)`: `Gen.Bech32.api.Encode` applied to the encoding table of the package
variable `charset` (`encTable`, what the generated `newEncoding` returns), to `strings.ToLower` / `strings.ToUpper` as
assumed in `E`, and to the two byte strings coerced to the code's byte type.  Result: `none` = panic, otherwise
`some (string, error)`. -/
abbrev Enc (E : Externs) (hrp src : List UInt8) :
    Option (List (BitVec 8) × Option (String × Option (BitVec 64))) :=
  Gen.Bech32.api.Encode encTable E.toLower E.toUpper (bv hrp) (bv src)

/-- the generated `bech32.Decode(s)`: `Gen.Bech32.api.Decode` applied to the decoding table of the package variable
`charset` (`decTable`), to `strings.LastIndex` / `ToLower` / `ToUpper` as assumed in `E`, and to the byte string
coerced to the code's byte type.  Result: `none` = panic, otherwise `some (hrp, data, error)`. -/
abbrev Dec (E : Externs) (s : List UInt8) :
    Option (List (BitVec 8) × List (BitVec 8) × Option (String × Option (BitVec 64))) :=
  Gen.Bech32.api.Decode decTable E.lastIndex E.toLower E.toUpper (bv s)

/-! ### inversion of the ties (the only place where the model functions occur) -/

theorem Enc_eq (E : Externs) (hrp src : List UInt8) (hh : hrp.length < 2 ^ 62) (hs : src.length < 2 ^ 60) :
    Enc E hrp src = some (match Bech32.encode hrp src with
      | .ok r => (bv r, none)
      | .error e => ([], encErr e)) := (Tie.Bech32.code_encode E hrp src hh hs).1

theorem Dec_eq (E : Externs) (s : List UInt8) (hlen : s.length < 2 ^ 63) :
    Dec E s = some (match Bech32.decode s with
      | .ok (hrp, d) => (bv hrp, bv d, none)
      | .error e => ([], [], encErr e)) := (Tie.Bech32.code_decode E s hlen).1

theorem Enc_of_ok (E : Externs) {hrp src r : List UInt8} (hh : hrp.length < 2 ^ 62) (hs : src.length < 2 ^ 60)
    (h : Bech32.encode hrp src = .ok r) : Enc E hrp src = some (bv r, none) := by
  rw [Enc_eq E hrp src hh hs, h]

theorem Enc_of_error (E : Externs) {hrp src : List UInt8} {e : Bech32.Err} (hh : hrp.length < 2 ^ 62)
    (hs : src.length < 2 ^ 60) (h : Bech32.encode hrp src = .error e) :
    Enc E hrp src = some ([], some (kindName e.1, e.2.map (BitVec.ofNat 64))) := by
  rw [Enc_eq E hrp src hh hs, h]; rfl

theorem Dec_of_ok (E : Externs) {s hrp d : List UInt8} (hlen : s.length < 2 ^ 63)
    (h : Bech32.decode s = .ok (hrp, d)) : Dec E s = some (bv hrp, bv d, none) := by
  rw [Dec_eq E s hlen, h]

theorem Dec_of_error (E : Externs) {s : List UInt8} {e : Bech32.Err} (hlen : s.length < 2 ^ 63)
    (h : Bech32.decode s = .error e) :
    Dec E s = some ([], [], some (kindName e.1, e.2.map (BitVec.ofNat 64))) := by
  rw [Dec_eq E s hlen, h]; rfl

/-- a successful run of the generated `Encode` is a successful run of the model -/
theorem Enc_ok_inv (E : Externs) {hrp src : List UInt8} {r' : List (BitVec 8)} (hh : hrp.length < 2 ^ 62)
    (hs : src.length < 2 ^ 60) (h : Enc E hrp src = some (r', none)) :
    ∃ r, r' = bv r ∧ Bech32.encode hrp src = .ok r := by
  rw [Enc_eq E hrp src hh hs] at h
  cases hm : Bech32.encode hrp src with
  | ok r =>
    rw [hm] at h
    exact ⟨r, (congrArg Prod.fst (Option.some.inj h)).symm, rfl⟩
  | error e =>
    rw [hm] at h
    exact nomatch congrArg Prod.snd (Option.some.inj h)

/-- a successful run of the generated `Decode` is a successful run of the model -/
theorem Dec_ok_inv (E : Externs) {s : List UInt8} {hrp' data' : List (BitVec 8)} (hlen : s.length < 2 ^ 63)
    (h : Dec E s = some (hrp', data', none)) :
    ∃ hrp data, hrp' = bv hrp ∧ data' = bv data ∧ Bech32.decode s = .ok (hrp, data) := by
  rw [Dec_eq E s hlen] at h
  cases hm : Bech32.decode s with
  | ok r =>
    obtain ⟨hrp, d⟩ := r
    rw [hm] at h
    have h := Option.some.inj h
    exact ⟨hrp, d, (congrArg Prod.fst h).symm, (congrArg (fun x => x.2.1) h).symm, rfl⟩
  | error e =>
    rw [hm] at h
    exact nomatch congrArg (fun x => x.2.2) (Option.some.inj h)

/-- an error with an offset returned by the generated `Decode` is that error of the model -/
theorem Dec_off_inv (E : Externs) {s : List UInt8} {a b : List (BitVec 8)} {kind : String} {off : BitVec 64}
    (hlen : s.length < 2 ^ 63) (h : Dec E s = some (a, b, some (kind, some off))) :
    ∃ k o, Bech32.decode s = .error (k, some o) ∧ off = BitVec.ofNat 64 o := by
  rw [Dec_eq E s hlen] at h
  cases hm : Bech32.decode s with
  | ok r =>
    obtain ⟨hrp, d⟩ := r
    rw [hm] at h
    exact nomatch congrArg (fun x => x.2.2) (Option.some.inj h)
  | error e =>
    obtain ⟨k, o⟩ := e
    rw [hm] at h
    have h3 : encErr (k, o) = some (kind, some off) := congrArg (fun x => x.2.2) (Option.some.inj h)
    cases o with
    | none => exact nomatch congrArg Prod.snd (Option.some.inj h3)
    | some o =>
      exact ⟨k, o, rfl, (Option.some.inj (congrArg Prod.snd (Option.some.inj h3))).symm⟩

/-- an accepted string has at most 90 bytes -/
theorem ok_length {s hrp data : List UInt8} (h : Bech32.decode s = .ok (hrp, data)) : s.length ≤ 90 :=
  ((Props.C04.decode_ok_iff_valid s hrp data).mp h).len

/-! ### 4. no panic -/

/-- **the generated `Decode` never panics**: on every byte string (ASCII or not, valid UTF-8 or not) shorter than 2^63
it returns a result or an error. -/
theorem decode_never_panics_code (E : Externs) (s : List UInt8) (hlen : s.length < 2 ^ 63) : Dec E s ≠ none :=
  (Tie.Bech32.code_decode E s hlen).2

/-- **the generated `Encode` never panics**: for every prefix shorter than 2^62 and every payload shorter than 2^60 it
returns a string or an error. -/
theorem encode_never_panics_code (E : Externs) (hrp src : List UInt8) (hh : hrp.length < 2 ^ 62)
    (hs : src.length < 2 ^ 60) : Enc E hrp src ≠ none :=
  (Tie.Bech32.code_encode E hrp src hh hs).2

/-! ### 1. `Decode` inverts `Encode` (C05) -/

/-- **decoding what the code encoded returns the lower-cased prefix and the same bytes** (transport of
`Props.C05.decode_encode`): if the generated `Encode(hrp, src)` succeeded with the string `r'` (error `nil`), then
`r'` is (the coercion of) a byte string `r` of at most 90 bytes and the generated `Decode(r)` returns
`(ToLower(hrp), src, nil)`. -/
theorem decode_encode_code (E : Externs) (hrp src : List UInt8) (hh : hrp.length < 2 ^ 62) (hs : src.length < 2 ^ 60)
    (r' : List (BitVec 8)) (h : Enc E hrp src = some (r', none)) :
    ∃ r : List UInt8, r' = bv r ∧ r.length ≤ 90 ∧ Dec E r = some (bv (Bech32.lower hrp), bv src, none) := by
  obtain ⟨r, rfl, hm⟩ := Enc_ok_inv E hh hs h
  have hd := Props.C05.decode_encode hrp src r hm
  have hl := ok_length hd
  exact ⟨r, rfl, hl, Dec_of_ok E (by omega) hd⟩

/-- the same without the intermediate byte string: the generated `Decode` applied to the very list the generated
`Encode` returned. -/
theorem decode_encode_code' (E : Externs) (hrp src : List UInt8) (hh : hrp.length < 2 ^ 62) (hs : src.length < 2 ^ 60)
    (r' : List (BitVec 8)) (h : Enc E hrp src = some (r', none)) :
    Gen.Bech32.api.Decode decTable E.lastIndex E.toLower E.toUpper r' =
      some (bv (Bech32.lower hrp), bv src, none) := by
  obtain ⟨r, rfl, _, hd⟩ := decode_encode_code E hrp src hh hs r' h
  exact hd

/-! ### 2. when `Encode` succeeds (C05) -/

/-- the precondition `EncPre`, written out: prefix, data symbols (⌈8·len(src)/5⌉), separator and six checksum symbols
fit in 90 characters; the prefix is not empty, consists of bytes 33…126 and does not contain both an upper-case and a
lower-case ASCII letter. -/
theorem encPre_iff (hrp src : List UInt8) :
    EncPre hrp src ↔
      hrp.length + (8 * src.length + 4) / 5 + 7 ≤ 90 ∧ hrp ≠ [] ∧ (∀ c ∈ hrp, 33 ≤ c.toNat ∧ c.toNat ≤ 126) ∧
      ¬ ((∃ c ∈ hrp, Bech32.isUpperAscii c = true) ∧ (∃ c ∈ hrp, Bech32.isLowerAscii c = true)) := Iff.rfl

/-- **the generated `Encode` succeeds exactly under the precondition, and otherwise returns an error — never a panic**
(transport of `Props.C05.encode_ok_iff` / `encode_error_otherwise`): it returns a string with error `nil` iff
`EncPre hrp src` (non-empty single-case prefix of bytes 33…126, total length ≤ 90, see `encPre_iff`); if the
precondition fails it returns the empty string and a non-`nil` error. -/
theorem encode_total_code (E : Externs) (hrp src : List UInt8) (hh : hrp.length < 2 ^ 62) (hs : src.length < 2 ^ 60) :
    ((∃ r : List UInt8, Enc E hrp src = some (bv r, none)) ↔ EncPre hrp src) ∧
    (¬ EncPre hrp src → ∃ err, Enc E hrp src = some ([], some err)) ∧
    Enc E hrp src ≠ none := by
  refine ⟨⟨?_, ?_⟩, ?_, encode_never_panics_code E hrp src hh hs⟩
  · rintro ⟨r, h⟩
    obtain ⟨r₀, _, hm⟩ := Enc_ok_inv E hh hs h
    exact ((Props.C05.encode_ok_iff hrp src r₀).mp hm).1
  · intro hp
    exact ⟨_, Enc_of_ok E hh hs ((Props.C05.encode_ok_iff hrp src _).mpr ⟨hp, rfl⟩)⟩
  · intro hp
    obtain ⟨e, he⟩ := Props.C05.encode_error_otherwise hrp src hp
    exact ⟨_, Enc_of_error E hh hs he⟩

/-- every result of the generated `Encode` is of one of the two forms: `(string, nil)` or `("", error)` -/
theorem encode_result_shape (E : Externs) (hrp src : List UInt8) (hh : hrp.length < 2 ^ 62) (hs : src.length < 2 ^ 60) :
    (∃ r : List UInt8, Enc E hrp src = some (bv r, none)) ∨ (∃ err, Enc E hrp src = some ([], some err)) := by
  by_cases hp : EncPre hrp src
  · exact Or.inl ((encode_total_code E hrp src hh hs).1.mpr hp)
  · exact Or.inr ((encode_total_code E hrp src hh hs).2.1 hp)

/-! ### 3. accepted strings are the code's own encodings (C04) -/

/-- **every accepted string is, up to ASCII case, the code's own encoding of what was decoded** (transport of
`Props.C04.accepted_reencodes`): if the generated `Decode(s)` returns `(hrp', data', nil)`, then `hrp'`, `data'` are
(the coercions of) byte strings `hrp`, `data` and the generated `Encode(hrp, data)` returns the lower-case form of
`s` with error `nil`. -/
theorem accepted_reencodes_code (E : Externs) (s : List UInt8) (hlen : s.length < 2 ^ 63)
    (hrp' data' : List (BitVec 8)) (h : Dec E s = some (hrp', data', none)) :
    ∃ hrp data : List UInt8, hrp' = bv hrp ∧ data' = bv data ∧
      Enc E hrp data = some (bv (Bech32.lower s), none) := by
  obtain ⟨hrp, data, rfl, rfl, hm⟩ := Dec_ok_inv E hlen h
  have he := Props.C04.accepted_reencodes s hrp data hm
  have hl := ok_length hm
  -- the lengths of the decoded parts are bounded by the successful re-encoding
  have hp := ((Props.C05.encode_ok_iff hrp data _).mp he).1.1
  have hd : data.length < 2 ^ 60 := by unfold Spec.Bip173.symCount at hp; omega
  exact ⟨hrp, data, rfl, rfl, Enc_of_ok E (by omega) hd he⟩

/-- **one accepted spelling up to ASCII case** (transport of `Props.C04.unique_spelling`): two strings for which the
generated `Decode` returns the same prefix and the same data (error `nil`) have the same lower-case form. -/
theorem unique_spelling_code (E : Externs) (s s' : List UInt8) (hlen : s.length < 2 ^ 63) (hlen' : s'.length < 2 ^ 63)
    (hrp' data' : List (BitVec 8))
    (h : Dec E s = some (hrp', data', none)) (h' : Dec E s' = some (hrp', data', none)) :
    Bech32.lower s = Bech32.lower s' := by
  obtain ⟨hrp, data, rfl, rfl, hm⟩ := Dec_ok_inv E hlen h
  obtain ⟨hrp₂, data₂, e1, e2, hm'⟩ := Dec_ok_inv E hlen' h'
  rw [← bv_inj e1, ← bv_inj e2] at hm'
  exact Props.C04.unique_spelling s s' hrp data hm hm'

/-! ### 5. error offsets (C04) -/

/-- **an error position reported by the generated `Decode` lies inside the input** (transport of
`Props.C04.error_offset_in_input`): if the result is an error carrying an offset (a `*SyntaxError`), the offset, read
as an unsigned 64-bit number, is smaller than `len(s)` (in particular it is not negative as a Go `int`). -/
theorem error_offset_in_input_code (E : Externs) (s : List UInt8) (hlen : s.length < 2 ^ 63)
    (kind : String) (off : BitVec 64) (h : Dec E s = some ([], [], some (kind, some off))) :
    off.toNat < s.length := by
  obtain ⟨k, o, hm, rfl⟩ := Dec_off_inv E hlen h
  have := Props.C04.error_offset_in_input s k o hm
  rw [BitVec.toNat_ofNat, Nat.mod_eq_of_lt (by omega)]
  exact this

/-- the same for any returned strings (the generated `Decode` returns empty ones with an error, but the statement does
not depend on it), with the signed reading of the offset -/
theorem error_offset_in_input_code' (E : Externs) (s : List UInt8) (hlen : s.length < 2 ^ 63)
    (a b : List (BitVec 8)) (kind : String) (off : BitVec 64) (h : Dec E s = some (a, b, some (kind, some off))) :
    0 ≤ off.toInt ∧ off.toInt < s.length := by
  obtain ⟨k, o, hm, rfl⟩ := Dec_off_inv E hlen h
  have := Props.C04.error_offset_in_input s k o hm
  rw [Go.toInt_ofNat_small o (by omega)]
  omega

/-! ### 6. substitution errors are rejected (C16) -/

/-- **up to four substituted characters are rejected by the generated `Decode`, with an error and not a panic**
(transport of `Props.C16.substitutions_rejected`, same hypotheses with the model's `decode … = .ok` replaced by the
generated `Decode` returning error `nil`; the only addition is the length bound of the tie on the original string —
the modified string has the same length).  If the generated `Decode` accepts `h ++ "1" ++ d` (no '1' in `d`) and
`h' ++ "1" ++ d'` is obtained by replacing data characters by charset characters of a different value and/or
letters/digits of the prefix by characters of the same kind, one to four characters in total, then the generated
`Decode` of the modified string returns empty strings and an error. -/
theorem substitutions_rejected_code (E : Externs) (h d h' d' : List UInt8)
    (hlen : (h ++ [Bech32.separator] ++ d).length < 2 ^ 63)
    (hrp' data' : List (BitVec 8))
    (hsep : Bech32.separator ∉ d)
    (hok : Dec E (h ++ [Bech32.separator] ++ d) = some (hrp', data', none))
    (hh : Forall2 HrpSub h h') (hd : Forall2 DataSub d d')
    (h1 : 1 ≤ hamming h h' + hamming d d') (h4 : hamming h h' + hamming d d' ≤ 4) :
    ∃ e, Dec E (h' ++ [Bech32.separator] ++ d') = some ([], [], some e) := by
  obtain ⟨hrp, data, _, _, hm⟩ := Dec_ok_inv E hlen hok
  obtain ⟨e, he⟩ := Props.C16.substitutions_rejected h d h' d' hrp data hsep hm hh hd h1 h4
  have hl : (h' ++ [Bech32.separator] ++ d').length < 2 ^ 63 := by
    have := forall2_length hh
    have := forall2_length hd
    simp only [List.length_append, List.length_cons, List.length_nil] at hlen ⊢
    omega
  exact ⟨_, Dec_of_error E hl he⟩

/-- the shape hypothesis of `substitutions_rejected_code` is no restriction (transport of `Props.C16.accepted_shape`):
every string the generated `Decode` accepts is `h ++ "1" ++ d` with no '1' in `d`. -/
theorem accepted_shape_code (E : Externs) (s : List UInt8) (hlen : s.length < 2 ^ 63)
    (hrp' data' : List (BitVec 8)) (hok : Dec E s = some (hrp', data', none)) :
    ∃ h d, s = h ++ [Bech32.separator] ++ d ∧ Bech32.separator ∉ d := by
  obtain ⟨hrp, data, _, _, hm⟩ := Dec_ok_inv E hlen hok
  exact Props.C16.accepted_shape s hrp data hm

/-! ### non-vacuity: the hypotheses are satisfiable — the generated functions evaluated by the kernel with the concrete
library functions `Externs.model` on BIP-173 test vectors -/

-- Encode("a", []) = "a12uel5l", Encode("A", []) = "A12UEL5L": the hypothesis of `decode_encode_code`
example : Enc Externs.model [97] [] = some (bv [97, 49, 50, 117, 101, 108, 53, 108], none) := by decide +kernel
example : Enc Externs.model [65] [] = some (bv [65, 49, 50, 85, 69, 76, 53, 76], none) := by decide +kernel
-- Decode("a12uel5l") = Decode("A12UEL5L") = ("a", [], nil): the hypotheses of `accepted_reencodes_code`,
-- `unique_spelling_code` and (as `[97] ++ "1" ++ …`) of `substitutions_rejected_code`
example : Dec Externs.model [97, 49, 50, 117, 101, 108, 53, 108] = some (bv [97], bv [], none) := by decide +kernel
example : Dec Externs.model [65, 49, 50, 85, 69, 76, 53, 76] = some (bv [97], bv [], none) := by decide +kernel
example : Dec Externs.model ([97] ++ [Bech32.separator] ++ [50, 117, 101, 108, 53, 108]) = some (bv [97], [], none) := by
  decide +kernel
-- "A12uEL5L" (mixed case): an error with an offset, the hypothesis of `error_offset_in_input_code` (3 < 8)
example : Dec Externs.model [65, 49, 50, 117, 69, 76, 53, 76] = some ([], [], some ("ErrMixedCase", some 3#64)) := by
  decide +kernel
-- a mixed-case prefix violates `EncPre`: the empty string and an error
example : Enc Externs.model [97, 66] [] = some ([], some ("ErrMixedCase", some 1#64)) := by decide +kernel
-- "a12uel5m": one substituted data character ('l' → 'm'); `substitutions_rejected_code` applies and the evaluation agrees
example : ∃ e, Dec Externs.model ([97] ++ [Bech32.separator] ++ [50, 117, 101, 108, 53, 109]) = some ([], [], some e) :=
  substitutions_rejected_code Externs.model [97] [50, 117, 101, 108, 53, 108] [97] [50, 117, 101, 108, 53, 109]
    (by decide) (bv [97]) [] (by decide) (by decide +kernel)
    (.cons (Or.inl rfl) .nil)
    (.cons (Or.inl rfl) (.cons (Or.inl rfl) (.cons (Or.inl rfl) (.cons (Or.inl rfl) (.cons (Or.inl rfl)
      (.cons (Or.inr (by decide)) .nil))))))
    (by decide) (by decide)
example : Dec Externs.model [97, 49, 50, 117, 101, 108, 53, 109] = some ([], [], some ("ErrInvalidChecksum", some 2#64)) := by
  decide +kernel
-- the round trip, as an instance of the theorem
example : Dec Externs.model [97, 49, 50, 117, 101, 108, 53, 108] = some (bv (Bech32.lower [97]), bv [], none) := by
  obtain ⟨r, hr, _, h⟩ := decode_encode_code Externs.model [97] [] (by decide) (by decide) _
    (show Enc Externs.model [97] [] = some (bv [97, 49, 50, 117, 101, 108, 53, 108], none) by decide +kernel)
  rw [← bv_inj hr] at h
  exact h

end Iota.Tie.E2E.Bech32Api
