/-
END-TO-END theorems for C12 about the GENERATED integer core of pkg/pow/v2 (`Iota/Gen/Pow.lean`, namespace `v2code`,
regenerated from worker.go / pow.go on every run, stage 14) with NO model function in the statements:

* `sufficient_is_least_code` — for every data and every target t ≥ 1 whose product with the message length fits 64 bits the
  generated `sufficientTrailingZeros` returns (and does not panic) the LEAST s with 3^s ≥ (len+8)·t, and s ≤ 41;
* `overflow_panics_code` — when the product does not fit it panics (the documented `panic("pow: invalid target score")`);
* `targetHash_threshold_code` — the generated `targetHash` never panics and returns the exact threshold: a hash value h ≥ 1 is
  at most the target iff its difficulty ⌊3^243 / h⌋ strictly exceeds (len+8)·t — for EVERY 64-bit t, the product is formed in
  `big.Int`;
* `toInt_code` — on 243 balanced trits the generated `toInt` returns the little-endian base-3 value (digit 2 for trit −1)
  plus one, a number in [1, 3^243]; on any other length it panics.

Obtained from the code ties (`Tie/PowV2Code`) and the property theorems (`Props/C12`).  `digitsVal` is the positional-numeral
specification of `Proofs/Pow/ToInt`.
-/
import Iota.Tie.PowV2Code
import Iota.Props.C12

namespace Iota.Tie.E2E.PowV2
open Iota

theorem sufficient_is_least_code (data : List (BitVec 8)) (t : BitVec 64) (hlen : data.length < 2 ^ 62)
    (ht : 1 ≤ t.toNat) (hlx : (data.length + 8) * t.toNat < 2 ^ 64) :
    ∃ s : Nat, Gen.Pow.v2code.sufficientTrailingZeros data t = some (BitVec.ofNat 64 s) ∧ s ≤ 41 ∧
      3 ^ s ≥ (data.length + 8) * t.toNat ∧ ∀ s', s' < s → 3 ^ s' < (data.length + 8) * t.toNat := by
  have h1 : 1 ≤ (data.length + 8) * t.toNat := Nat.mul_pos (by omega) ht
  have hp := Props.C12.sufficient_is_least ((data.length + 8) * t.toNat) h1 hlx
  exact ⟨_, Iota.Tie.PowV2Code.sufficientTrailingZeros_eq data t hlen hlx, hp.2.2.1, hp.1, hp.2.1⟩

theorem overflow_panics_code (data : List (BitVec 8)) (t : BitVec 64) (hlen : data.length < 2 ^ 62)
    (hov : 2 ^ 64 ≤ (data.length + 8) * t.toNat) :
    Gen.Pow.v2code.sufficientTrailingZeros data t = none :=
  Iota.Tie.PowV2Code.sufficientTrailingZeros_panic data t hlen hov

theorem targetHash_threshold_code (data : List (BitVec 8)) (t : BitVec 64) (hlen : data.length < 2 ^ 62) :
    ∃ T : Nat, Gen.Pow.v2code.targetHash data t = some (T : Int) ∧
      ∀ h : Nat, 1 ≤ h → (h ≤ T ↔ (data.length + 8) * t.toNat < 3 ^ 243 / h) := by
  refine ⟨Pow.targetHash ((data.length + 8) * t.toNat), Iota.Tie.PowV2Code.targetHash_eq data t hlen, ?_⟩
  intro h hh
  have hM : Pow.maxHash = 3 ^ 243 := Props.C12.constants.1
  unfold Pow.targetHash
  rw [hM]
  generalize (data.length + 8) * t.toNat = lx
  rw [Nat.le_div_iff_mul_le (by omega : 0 < lx + 1), Nat.lt_iff_add_one_le, Nat.le_div_iff_mul_le (by omega : 0 < h),
    Nat.mul_comm]

theorem toInt_code (trits : List (BitVec 8)) (hlen : trits.length = 243)
    (htr : ∀ t ∈ trits, t = BitVec.ofInt 8 (-1) ∨ t = 0#8 ∨ t = 1#8) :
    ∃ v : Nat, Gen.Pow.v2code.toInt trits = some (v : Int) ∧
      v = Proofs.Pow.digitsVal (trits.map BitVec.toInt) + 1 ∧ 1 ≤ v ∧ v ≤ 3 ^ 243 := by
  have hl : (trits.map BitVec.toInt).length = 243 := by simpa using hlen
  have hv : ∀ x ∈ trits.map BitVec.toInt, x = -1 ∨ x = 0 ∨ x = 1 := by
    intro x hx
    obtain ⟨b, hb, rfl⟩ := List.mem_map.mp hx
    rcases htr b hb with h | h | h <;> subst h <;> decide
  have hp := Props.C12.toInt_is_base3_plus_one (trits.map BitVec.toInt) hl hv
  exact ⟨_, Iota.Tie.PowV2Code.toInt_eq trits hlen htr, hp.1, hp.2.1, hp.2.2.1⟩

theorem toInt_wrong_length_panics_code (trits : List (BitVec 8)) (hlen : trits.length ≠ 243) (hlt : trits.length < 2 ^ 64) :
    Gen.Pow.v2code.toInt trits = none := Iota.Tie.PowV2Code.toInt_panic trits hlen hlt

/-! ### non-vacuity: the generated code evaluated on concrete inputs -/
example : Gen.Pow.v2code.sufficientTrailingZeros [] 1#64 = some 2#64 := by decide +kernel
example : Gen.Pow.v2code.sufficientTrailingZeros [0#8, 0#8] 4000#64 = some 10#64 := by decide +kernel
example : Gen.Pow.v2code.sufficientTrailingZeros [] (BitVec.ofNat 64 (2 ^ 61)) = none := by decide +kernel
example : Gen.Pow.v2code.toInt (List.replicate 243 0#8) = some 1 := by decide +kernel

end Iota.Tie.E2E.PowV2
