/-
END-TO-END theorems for pkg/bech32/address: the C19 properties of the network address format (`Iota/Props/C19.lean`:
`ParseBech32` of `Bech32` of an address returns it; what `ParseBech32` accepts has a known prefix, a known version, the
payload length of that version, and re-encodes to the lower-cased input) stated about the GENERATED
`Gen.AddressCode.address.Bech32` / `address.ParseBech32` (`Iota/Gen/AddressCode.lean`, regenerated from address.go on every
run, calling the generated `bech32.Encode` / `Decode` of `Iota/Gen/Bech32.lean`), obtained by combining the code tie
`Tie.AddressCode.code_bech32` / `code_parseBech32` (generated code = hand-written model, for all inputs) with the property
theorems about the model.

The theorems mention only the two generated functions, the values passed for their PARAMETERS — the two tables of the package
variable `charset` (`encTable`, `decTable`: what the generated `newEncoding` returns, `Tie/Bech32CharsCode`) and the library
functions `strings.ToLower` / `ToUpper` / `LastIndex` as any `E : Externs` (the three assumptions of stage 6) — and
`asciiLower`, the ASCII lower-casing of a byte string, defined here.  None mentions the model; only the proofs do.
An address is the pair (constructor index of its struct type in the closed interface `Address`: 0 = Ed25519Address,
1 = AliasAddress, 2 = NFTAddress; bytes of its hash array); a result `none` would be a Go run-time panic;
`some (p, some a, none)` is the prefix `p`, the address `a` and a nil error.  A string is the list of its bytes; the bound
`< 2^63` on its length is the one every Go string satisfies.
-/
import Iota.Props.C19
import Iota.Tie.AddressCode

namespace Iota.Tie.E2E.Address
open Iota Iota.Address
open Iota.Tie.Bech32Code (bv bv_ofBitVec ofBitVec_bv)
open Iota.Tie.Bech32CharsCode (encTable decTable bv_length)
open Iota.Tie.Bech32ApiCode (Externs bv_inj)
open Iota.Tie.AddressCode (code_bech32 code_parseBech32 code_parseBech32_never_panics_bits kindTag encAddr encEnc encParse)
open Iota.Gen.AddressCode

/-- the length of the hash array of the `k`-th address type: `Ed25519Address{hash [32]byte}`, `AliasAddress{hash [20]byte}`,
`NFTAddress{hash [20]byte}` -/
def hashLen (k : Nat) : Nat := if k = 0 then 32 else 20

/-- ASCII lower-casing of a byte string (`A`–`Z` ↦ `a`–`z`, every other byte unchanged) -/
def asciiLower (s : List (BitVec 8)) : List (BitVec 8) :=
  s.map fun c => if 65 ≤ c.toNat ∧ c.toNat ≤ 90 then c + 32#8 else c

theorem asciiLower_byte (c : UInt8) :
    (Bech32.toLowerAscii c).toBitVec = (if 65 ≤ c.toBitVec.toNat ∧ c.toBitVec.toNat ≤ 90 then c.toBitVec + 32#8 else c.toBitVec) := by
  unfold Bech32.toLowerAscii Bech32.isUpperAscii
  by_cases h : 65 ≤ c.toBitVec.toNat ∧ c.toBitVec.toNat ≤ 90
  · have h' : 65 ≤ c.toNat ∧ c.toNat ≤ 90 := h
    rw [if_pos h, if_pos (by simp [h'.1, h'.2])]
    rfl
  · have h' : ¬ (65 ≤ c.toNat ∧ c.toNat ≤ 90) := h
    rw [if_neg h, if_neg (by simpa using h')]

theorem asciiLower_bv (s : List UInt8) : asciiLower (bv s) = bv (Bech32.lower s) := by
  simp only [asciiLower, bv, Bech32.lower, List.map_map]
  apply List.map_congr_left
  intro c _
  exact (asciiLower_byte c).symm

/-- every list of code bytes is `bv` of a list of model bytes -/
theorem exists_bv (l : List (BitVec 8)) : ∃ t : List UInt8, bv t = l ∧ t.length = l.length :=
  ⟨l.map UInt8.ofBitVec, bv_ofBitVec l, by simp⟩

theorem kind_of_tag (k : Nat) (hk : k < 3) : ∃ kind : Kind, kindTag kind = k ∧ kind.hashLen = hashLen k := by
  have : k = 0 ∨ k = 1 ∨ k = 2 := by omega
  rcases this with rfl | rfl | rfl
  · exact ⟨.ed25519, rfl, rfl⟩
  · exact ⟨.alias, rfl, rfl⟩
  · exact ⟨.nft, rfl, rfl⟩

theorem tag_lt (kind : Kind) : kindTag kind < 3 ∧ kind.hashLen = hashLen (kindTag kind) := by
  cases kind <;> exact ⟨by decide, rfl⟩

/-- **round trip**: for each of the four network prefixes, each of the three address types and every hash of the length of
that type's array, the generated `Bech32` does not panic and returns a string and a nil error, and the generated
`ParseBech32` of that string returns the same prefix, the same address and a nil error -/
theorem parse_of_bech32_code (E : Externs) (p : Nat) (hp : p < 4) (k : Nat) (hk : k < 3) (h : List (BitVec 8))
    (hl : h.length = hashLen k) :
    ∃ s, address.Bech32 encTable E.toLower E.toUpper (BitVec.ofNat 64 p) (some (k, h)) = some (s, none) ∧
      address.ParseBech32 decTable E.lastIndex E.toLower E.toUpper s = some (BitVec.ofNat 64 p, some (k, h), none) := by
  obtain ⟨h', rfl, hl'⟩ := exists_bv h
  obtain ⟨kind, rfl, hkl⟩ := kind_of_tag k hk
  have hlen : (⟨kind, h'⟩ : Addr).hash.length = kind.hashLen := by rw [hkl, ← hl]; exact hl'
  obtain ⟨s, hs, hparse⟩ := Props.C19.parse_of_bech32 p hp ⟨kind, h'⟩ hlen
  have hvalid := (Props.C19.parse_strict s p ⟨kind, h'⟩ hparse).2.1
  refine ⟨bv s, ?_, ?_⟩
  · have := code_bech32 E p hp ⟨kind, h'⟩ hlen
    rw [hs] at this
    exact this
  · rw [code_parseBech32 E s (by have := hvalid.len; omega), hparse]
    rfl

/-- **strict**: whatever string the generated `ParseBech32` accepts (nil error) has one of the four prefixes and an address
of one of the three types whose hash has the length of that type's array, and the generated `Bech32` of that prefix and
address returns the lower-cased input -/
theorem parse_strict_code (E : Externs) (s : List (BitVec 8)) (hs : s.length < 2 ^ 63) (p : BitVec 64) (a : Go.Iface)
    (hparse : address.ParseBech32 decTable E.lastIndex E.toLower E.toUpper s = some (p, a, none)) :
    ∃ k h, a = some (k, h) ∧ p.toNat < 4 ∧ k < 3 ∧ h.length = hashLen k ∧
      address.Bech32 encTable E.toLower E.toUpper p (some (k, h)) = some (asciiLower s, none) := by
  obtain ⟨t, rfl, hl⟩ := exists_bv s
  rw [code_parseBech32 E t (by rw [hl]; exact hs)] at hparse
  cases hm : parseBech32 t with
  | error e =>
    rw [hm] at hparse
    cases e <;> simp [encParse, Iota.Tie.AddressCode.encParseErr, Go.errQualOpt, Iota.Tie.Bech32ApiCode.encErr] at hparse
  | ok r =>
    obtain ⟨q, addr⟩ := r
    rw [hm] at hparse
    simp only [encParse, Option.some.injEq, Prod.mk.injEq] at hparse
    obtain ⟨hp, ha, _⟩ := hparse
    obtain ⟨hq, _, hlen, hre⟩ := Props.C19.parse_strict t q addr hm
    obtain ⟨hk3, hkl⟩ := tag_lt addr.kind
    refine ⟨kindTag addr.kind, bv addr.hash, ha.symm, ?_, hk3, ?_, ?_⟩
    · rw [← hp, BitVec.toNat_ofNat, Nat.mod_eq_of_lt (by omega)]; exact hq
    · rw [bv_length, hlen, hkl]
    · have := code_bech32 E q hq addr hlen
      rw [hre] at this
      rw [← hp, asciiLower_bv]
      exact this

/-- **no panic**: the generated `ParseBech32` returns (a prefix and an address, or an error) for every string -/
theorem parse_never_panics_code (E : Externs) (s : List (BitVec 8)) (hs : s.length < 2 ^ 63) :
    address.ParseBech32 decTable E.lastIndex E.toLower E.toUpper s ≠ none :=
  code_parseBech32_never_panics_bits E s hs

end Iota.Tie.E2E.Address
