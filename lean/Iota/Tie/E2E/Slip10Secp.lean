/-
END-TO-END theorem for C08 on secp256k1, with NO model function and NO curve assumption in the statement: the GENERATED
`PrivateKey.Shift` / `PublicKey.Shift` of pkg/slip10/elliptic/key.go (`Iota/Gen/EllipticKeyCode.lean`, stage 13), with the
curve methods `ScalarBaseMult` and `Add` instantiated by the GENERATED secp256k1 code (`Iota/Gen/Secp256k1Code.lean`,
stage 10), commute: for every private scalar 0 < k < N and every shift byte string, either both report ErrInvalidKey —
exactly when the shift is ≥ N or k + shift ≡ 0 (mod N) — or both succeed, and then the public key of the shifted private
key ([k']G computed by the generated `ScalarBaseMult`) is the shifted public key.

Obtained from: the code ties (`Tie/EllipticKeyCode`, `Tie/SecpCode`), the C17 theorems (the generated curve code computes
Mathlib's group law), `Proofs/Secp/Slip10Instance` (`secpW`, `shift_commutes_secp256k1`: N prime, ord(G) = N).  The only
library assumption left is the documented behaviour of `(*big.Int).ModInverse` (`ExternsSpec inv`).
-/
import Iota.Proofs.Secp.Slip10Instance
import Iota.Tie.EllipticKeyCode
import Iota.Tie.SecpCode
import Iota.Tie.SecpCodeExterns

namespace Iota.Tie.E2E.Slip10Secp
open Iota Iota.Secp256k1 Iota.Proofs.Secp WeierstrassCurve.Affine
open Iota.Gen.Secp256k1Code.btccurve
open Iota.Gen.EllipticKeyCode
open Iota.Tie.Bech32Code (bv)
open Iota.Tie.SecpCode (ExternsSpec)
open Iota.Slip10 (Bytes WKey wCurve)

/-- the curve methods as the generated key code receives them: the generated secp256k1 functions -/
def sbmGen (inv : Int → Int → Option Int) : List (BitVec 8) → Option (Int × Int) :=
  fun k => koblitzCurve_ScalarBaseMult inv P Gx Gy k
def addGen (inv : Int → Int → Option Int) : Int → Int → Int → Int → Option (Int × Int) :=
  fun x1 y1 x2 y2 => koblitzCurve_Add inv P x1 y1 x2 y2

theorem ofPoint_of_toPoint {x y : Int} {Q : Curve.Point} (h : toPoint (x, y) = some Q) : ofPoint Q = (x, y) := by
  have h2 := toPoint_ofPoint Q
  have := toPoint_inj (x := (ofPoint Q).1) (y := (ofPoint Q).2) (x' := x) (y' := y) (by simpa using h2) h
  exact Prod.ext this.1 this.2

/-- **the assumption of the key-code tie is a THEOREM for secp256k1**: the generated `ScalarBaseMult` and `Add` compute, in
canonical affine coordinates, the operations of the curve the C08 statement is about -/
theorem externs_secp {inv : Int → Int → Option Int} (S : ExternsSpec inv) :
    EllipticKeyCode.Externs secpW ofPoint (sbmGen inv) (addGen inv) where
  sbm_eq := by
    intro b
    unfold sbmGen
    rw [show bv b = b.map UInt8.toBitVec from rfl, SecpCode.code_scalarBaseMult S.toExterns]
    obtain ⟨x', y', h1, h2⟩ := scalarBaseMult_spec b
    have hb : secpW.baseMul b = beNat b • G Fp := by rw [secpW_baseMul, beNat_eq]
    rw [h1, hb, ofPoint_of_toPoint h2]
  add_eq := by
    intro p q
    unfold addGen
    rw [SecpCode.code_add S.toExterns]
    obtain ⟨x3, y3, h1, h2⟩ := add_spec (x1 := (ofPoint p).1) (y1 := (ofPoint p).2)
      (x2 := (ofPoint q).1) (y2 := (ofPoint q).2) (toPoint_ofPoint p) (toPoint_ofPoint q)
    rw [h1, secpW_add, ofPoint_of_toPoint h2]
  inf_eq := by
    intro p
    show decide (ofPoint p = (0, 0)) = _
    congr 1
    exact propext Prod.ext_iff

theorem N_pos : 0 < secpW.n := by rw [secpW_n]; decide

/-- **C08 for secp256k1 on generated code only.**  `priv` / `pub` are the results of the generated `PrivateKey.Shift` (key
scalar k) and `PublicKey.Shift` (key point [k]G as the generated `ScalarBaseMult` returns it, scalar given as the 32-byte or
minimal big-endian string `kb` with value k).  Neither panics; both report `slip10.ErrInvalidKey` exactly when
`shift ≥ N ∨ (shift + k) % N = 0`; otherwise the private result is the scalar `k' = (shift + k) % N` and the public result is
the point the generated `ScalarBaseMult` returns for any byte string of value `k'`. -/
theorem shift_commutes_code {inv : Int → Int → Option Int} (S : ExternsSpec inv) (hk : Bytes)
    (k : Nat) (hk0 : 0 < k) (hkn : k < N.toNat) (buf : Bytes) :
    ∃ (r : Except Slip10.KeyErr (WKey Curve.Point)) (r' : Except Slip10.KeyErr (WKey Curve.Point)),
      key.PrivateKey_Shift (N.toNat : Int) (k : Int) (bv buf) = some (EllipticKeyCode.encKey ofPoint r) ∧
      key.PublicKey_Shift (addGen inv) (N.toNat : Int) (sbmGen inv) (ofPoint (k • G Fp)).1 (ofPoint (k • G Fp)).2 (bv buf) =
        some (EllipticKeyCode.encKey ofPoint r') ∧
      ((Slip10.beNat buf ≥ N.toNat ∨ (Slip10.beNat buf + k) % N.toNat = 0) →
        r = .error .invalidKey ∧ r' = .error .invalidKey) ∧
      (¬ (Slip10.beNat buf ≥ N.toNat ∨ (Slip10.beNat buf + k) % N.toNat = 0) →
        ∃ k', r = .ok (.priv k') ∧ r' = .ok (.pub (k' • G Fp)) ∧ 0 < k' ∧ k' < N.toNat ∧
          k' = (Slip10.beNat buf + k) % N.toNat) := by
  have hpub : (wCurve secpW hk).pub (.priv k) = .pub (k • G Fp) := by
    show WKey.pub (secpW.baseMul (Slip10.natBytes 40 k)) = _
    rw [secpW_baseMul]
    congr 2
    exact Iota.Proofs.Slip10Shift.beNat_natBytes 40 k (by
      have : N.toNat < 256 ^ 40 := by rw [← secpW_n]; exact secpW_n_lt
      omega)
  refine ⟨(wCurve secpW hk).shift (.priv k) buf, (wCurve secpW hk).shift (.pub (k • G Fp)) buf, ?_, ?_, ?_, ?_⟩
  · have := EllipticKeyCode.code_privateShift secpW hk ofPoint N_pos k buf
    rwa [secpW_n] at this
  · have := EllipticKeyCode.code_publicShift secpW hk ofPoint (externs_secp S) (k • G Fp) buf
    rwa [secpW_n] at this
  · intro h
    have := (shift_commutes_secp256k1 hk k hk0 hkn buf).1 (by rwa [secpW_n])
    rw [hpub] at this
    exact this
  · intro h
    obtain ⟨k', q, h1, h2, h3, h4, h5⟩ := (shift_commutes_secp256k1 hk k hk0 hkn buf).2 (by rwa [secpW_n])
    rw [hpub] at h2
    have hq : (wCurve secpW hk).pub (.priv k') = .pub (k' • G Fp) := by
      show WKey.pub (secpW.baseMul (Slip10.natBytes 40 k')) = _
      rw [secpW_baseMul]
      congr 2
      exact Iota.Proofs.Slip10Shift.beNat_natBytes 40 k' (by
        have : secpW.n < 256 ^ 40 := secpW_n_lt
        omega)
    rw [hq] at h5
    have hqe : q = k' • G Fp := by injection h5 with h5; exact h5.symm
    refine ⟨k', h1, by rw [h2, hqe], h3, by rwa [secpW_n] at h4, ?_⟩
    -- the value of k' from the private shift itself
    have hs : (wCurve secpW hk).shift (.priv k) buf =
        (if Slip10.beNat buf ≥ secpW.n then .error .invalidKey
         else if (Slip10.beNat buf + k) % secpW.n = 0 then .error .invalidKey
         else .ok (.priv ((Slip10.beNat buf + k) % secpW.n))) := rfl
    rw [hs, secpW_n] at h1
    have h' := h
    rw [not_or] at h'
    rw [if_neg h'.1, if_neg h'.2] at h1
    injection h1 with h1
    injection h1 with h1
    exact h1.symm

end Iota.Tie.E2E.Slip10Secp
