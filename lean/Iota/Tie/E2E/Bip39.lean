/-
END-TO-END theorems for pkg/bip39 (stage 12): the C03 properties (`Iota/Props/C03.lean`: `MnemonicToEntropy` inverts
`EntropyToMnemonic` for every valid entropy; every accepted sentence re-encodes to itself; wrong sizes are rejected with the
documented error) stated about the GENERATED `Gen.Bip39Code.big.EntropyToMnemonic` / `MnemonicToEntropy`
(`Iota/Gen/Bip39Code.lean`, regenerated from bip39.go and utils.go on every run), obtained by combining the code tie
`Tie.Bip39BigCode` (generated code = model, for all inputs, panic and error outcomes included) with the property theorems
about the model.  No model function occurs in the statements.

Parameters of the generated code: `sum` = `sha256.Sum256` (any function with 32-byte output: `hsum`), and the methods
`contains`, `word`, `index` of the current word list; `Externs W contains word index` says they are the methods of a list
`W` of 2048 words, which for the round trips must be distinct (`W.Nodup`) — true of both official lists
(`Props.C03.builtin_lists_ok`).  `bv` / `bvs` are the bijections between the byte / word types of the specification and of
the translated code; `none` as a result would be a Go panic.
-/
import Iota.Props.C03
import Iota.Tie.Bip39BigCode

namespace Iota.Tie.E2E.Bip39
open Iota Iota.Bip39
open Iota.Tie.Bech32Code (bv)
open Iota.Tie.Bip39BigCode (Externs bvs encWords encBytes)
open Iota.Gen.Bip39Code

/-- `sum` on the byte type of the specifications -/
def HOf (sum : List (BitVec 8) → List (BitVec 8)) : Bytes → Bytes := fun x => (sum (bv x)).map UInt8.ofBitVec

theorem hH_HOf (sum : List (BitVec 8) → List (BitVec 8)) (x : Bytes) : sum (bv x) = bv (HOf sum x) := by
  unfold HOf
  rw [Tie.Bech32Code.bv_ofBitVec]

theorem HOf_length (sum : List (BitVec 8) → List (BitVec 8)) (hsum : ∀ x, (sum x).length = 32) (x : Bytes) :
    (HOf sum x).length = 32 := by
  unfold HOf; rw [List.length_map]; exact hsum _

theorem bv_inj {a b : Bytes} (h : bv a = bv b) : a = b := by
  have h2 := congrArg (List.map UInt8.ofBitVec) h
  have e : ∀ x : Bytes, (bv x).map UInt8.ofBitVec = x := by
    intro x
    unfold Tie.Bech32Code.bv
    rw [List.map_map]
    have : (UInt8.ofBitVec ∘ fun b : UInt8 => b.toBitVec) = id := by funext b; rfl
    rw [this, List.map_id]
  rwa [e, e] at h2

/-- **Round trip on the generated code: for every entropy of 16, 20, …, 64 bytes the generated `EntropyToMnemonic` returns a
sentence and no error, and the generated `MnemonicToEntropy` of that sentence returns the entropy and no error; neither
panics.** -/
theorem decode_encode_code {W : List Word} {contains : List (BitVec 8) → Bool} {word : BitVec 64 → Option (List (BitVec 8))}
    {index : List (BitVec 8) → Option (BitVec 64)} (E : Externs W contains word index) (hN : W.Nodup)
    (sum : List (BitVec 8) → List (BitVec 8)) (hsum : ∀ x, (sum x).length = 32)
    (e : Bytes) (hv : Proofs.Bip39.ValidLen e.length) :
    ∃ ws : List Word, big.EntropyToMnemonic sum word (bv e) = some (bvs ws, none) ∧
      big.MnemonicToEntropy sum contains index (bvs ws) = some (bv e, none) := by
  have hH := hH_HOf sum
  have hlen : e.length < 2 ^ 59 := by
    have := hv; unfold Proofs.Bip39.ValidLen at this; omega
  obtain ⟨ws, henc⟩ : ∃ ws, entropyToMnemonic (HOf sum) W e = .ok ws := ⟨_, Props.C03.encode_is_bip39 (HOf sum) W (HOf_length sum hsum) e hv⟩
  have hdec := Props.C03.decode_encode (HOf sum) W (HOf_length sum hsum) E.length hN e hv ws henc
  have hcount : ws.length < 2 ^ 58 := by
    have := ((Props.C03.decode_ok_iff (HOf sum) W (HOf_length sum hsum) E.length hN ws e).mp hdec).1
    unfold Proofs.Bip39.ValidCount at this; omega
  refine ⟨ws, ?_, ?_⟩
  · rw [Tie.Bip39BigCode.code_entropyToMnemonic E sum (HOf sum) hH e hlen, henc]; rfl
  · rw [Tie.Bip39BigCode.code_mnemonicToEntropy E sum (HOf sum) hH ws hcount, hdec]; rfl

/-- **Canonicity on the generated code: whatever word sequence the generated `MnemonicToEntropy` accepts, the generated
`EntropyToMnemonic` of the returned entropy gives back exactly that sequence.** -/
theorem encode_decode_code {W : List Word} {contains : List (BitVec 8) → Bool} {word : BitVec 64 → Option (List (BitVec 8))}
    {index : List (BitVec 8) → Option (BitVec 64)} (E : Externs W contains word index) (hN : W.Nodup)
    (sum : List (BitVec 8) → List (BitVec 8)) (hsum : ∀ x, (sum x).length = 32)
    (ws : List Word) (hws : ws.length < 2 ^ 58) (e : Bytes)
    (hacc : big.MnemonicToEntropy sum contains index (bvs ws) = some (bv e, none)) :
    big.EntropyToMnemonic sum word (bv e) = some (bvs ws, none) := by
  have hH := hH_HOf sum
  rw [Tie.Bip39BigCode.code_mnemonicToEntropy E sum (HOf sum) hH ws hws] at hacc
  have hdec : mnemonicToEntropy (HOf sum) W ws = .ok e := by
    cases hm : mnemonicToEntropy (HOf sum) W ws with
    | error err => rw [hm] at hacc; cases err <;> simp [encBytes, Tie.Bip39BigCode.errName] at hacc
    | ok b =>
      rw [hm] at hacc
      have : bv b = bv e := by simpa [encBytes] using hacc
      rw [bv_inj this]
  have henc := Props.C03.encode_decode (HOf sum) W (HOf_length sum hsum) E.length hN ws e hdec
  have hv := ((Props.C03.decode_ok_iff (HOf sum) W (HOf_length sum hsum) E.length hN ws e).mp hdec).2.2.1
  have hlen : e.length < 2 ^ 59 := by unfold Proofs.Bip39.ValidLen at hv; omega
  rw [Tie.Bip39BigCode.code_entropyToMnemonic E sum (HOf sum) hH e hlen, henc]; rfl

/-- **Neither generated function panics, whatever the input** (entropy shorter than 2^59 bytes, fewer than 2^58 words). -/
theorem never_panics_code {W : List Word} {contains : List (BitVec 8) → Bool} {word : BitVec 64 → Option (List (BitVec 8))}
    {index : List (BitVec 8) → Option (BitVec 64)} (E : Externs W contains word index)
    (sum : List (BitVec 8) → List (BitVec 8)) (e : Bytes) (he : e.length < 2 ^ 59) (ws : List Word) (hws : ws.length < 2 ^ 58) :
    big.EntropyToMnemonic sum word (bv e) ≠ none ∧ big.MnemonicToEntropy sum contains index (bvs ws) ≠ none :=
  ⟨Tie.Bip39BigCode.code_entropyToMnemonic_never_panics E sum (HOf sum) (hH_HOf sum) e he,
   Tie.Bip39BigCode.code_mnemonicToEntropy_never_panics E sum (HOf sum) (hH_HOf sum) ws hws⟩

/-- **Other entropy sizes are rejected by the generated `EntropyToMnemonic` with `ErrInvalidEntropySize`.** -/
theorem encode_bad_size_code {W : List Word} {contains : List (BitVec 8) → Bool} {word : BitVec 64 → Option (List (BitVec 8))}
    {index : List (BitVec 8) → Option (BitVec 64)} (E : Externs W contains word index)
    (sum : List (BitVec 8) → List (BitVec 8)) (e : Bytes) (he : e.length < 2 ^ 59) (hv : ¬ Proofs.Bip39.ValidLen e.length) :
    big.EntropyToMnemonic sum word (bv e) = some ([], some "ErrInvalidEntropySize") := by
  rw [Tie.Bip39BigCode.code_entropyToMnemonic E sum (HOf sum) (hH_HOf sum) e he, Props.C03.encode_bad_size (HOf sum) W e hv]; rfl

end Iota.Tie.E2E.Bip39
