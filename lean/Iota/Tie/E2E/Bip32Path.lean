/-
END-TO-END theorems for pkg/bip32path: the C10 properties (`Iota/Props/C10.lean`: the printed form of a path parses back
to it, `ParsePath` succeeds exactly on the grammar of `Iota/Spec/Bip32Path.lean`, the indices are the decimal values of the
components plus 2^31 when marked) stated about the GENERATED `Gen.Bip32Path.code.ParsePath` / `code.Path_String`
(`Iota/Gen/Bip32Path.lean`, regenerated from path.go on every run), obtained by combining the code tie
`Tie.Bip32PathCode.ParsePath_enc` / `Path_String_eq` (generated code = hand-written model, for all inputs) with the property
theorems about the model.

The main theorems (the ones with a bold doc comment) mention the two generated functions — abbreviated `Parse E` and
`Print` —, the library functions `E : Externs` (`keyReg.FindStringSubmatch` and `strconv.ParseUint` as ASSUMED in
`Tie.Bip32PathCode.Externs`), `bv` (the bijection `List UInt8 ≃ List (BitVec 8)` between the byte type of the
specification and the one of the translated code) and the notions of the specification: `Grammar`, `Comp`, `joinSlash`.
None mentions the model's `parsePath` / `printPath`; only the inversion lemmas of the first section do.  A result `none`
would be a Go run-time panic (there is none: `parse_never_panics_code`), `some (q, none)` is the path `q` and a nil error,
`some ([], some e)` is a nil path and the error `e`.  No theorem needs a bound on the length of the string.
-/
import Iota.Props.C10
import Iota.Tie.Bip32PathCode

namespace Iota.Tie.E2E.Bip32Path
open Iota
open Iota.Bip32Path (Str chM chSlash)
open Iota.Spec.Bip32Path (Grammar Comp joinSlash)
open Iota.Tie.Bech32Code (bv)
open Iota.Tie.Bip32PathCode (Externs ParsePath_enc Path_String_eq)

/-! ### the two functions the statements are about -/

/-- the generated `bip32path.ParsePath(s)` with the library functions as assumed in `E`; `none` = panic, otherwise
`some (path, error)` -/
abbrev Parse (E : Externs) (s : List (BitVec 8)) : Option (List (BitVec 32) × Option String) :=
  Gen.Bip32Path.code.ParsePath E.findStringSubmatch E.parseUint s

/-- the generated `Path.String()` -/
abbrev Print (q : List (BitVec 32)) : List (BitVec 8) := Gen.Bip32Path.code.Path_String q

/-! ### inversion of the tie (the only place where the model functions occur) -/

theorem map_toNat_ofNat (p : List Nat) (hp : ∀ i ∈ p, i < 2 ^ 32) : (p.map (BitVec.ofNat 32)).map BitVec.toNat = p := by
  induction p with
  | nil => rfl
  | cons i p ih =>
    have hi : i < 2 ^ 32 := hp i (by simp)
    simp only [List.map_cons, BitVec.toNat_ofNat, Nat.mod_eq_of_lt hi]
    rw [ih (fun j hj => hp j (by simp [hj]))]

theorem map_ofNat_toNat (q : List (BitVec 32)) : (q.map BitVec.toNat).map (BitVec.ofNat 32) = q := by
  induction q with
  | nil => rfl
  | cons x q ih => simp only [List.map_cons, BitVec.ofNat_toNat, BitVec.setWidth_eq, ih]

theorem toNat_lt (q : List (BitVec 32)) : ∀ i ∈ q.map BitVec.toNat, i < 2 ^ 32 := by
  intro i hi
  obtain ⟨x, _, rfl⟩ := List.mem_map.mp hi
  exact x.isLt

theorem Parse_of_some (E : Externs) {s : Str} {p : List Nat} (h : Bip32Path.parsePath s = some p) :
    Parse E (bv s) = some (p.map (BitVec.ofNat 32), none) := by
  show Gen.Bip32Path.code.ParsePath _ _ _ = _
  rw [ParsePath_enc, h]

theorem Parse_of_none (E : Externs) {s : Str} (h : Bip32Path.parsePath s = none) :
    ∃ e, Parse E (bv s) = some ([], some e) :=
  (Bip32PathCode.ParsePath_eq E s).2 h

theorem Parse_ok_inv (E : Externs) {s : Str} {q : List (BitVec 32)} (h : Parse E (bv s) = some (q, none)) :
    Bip32Path.parsePath s = some (q.map BitVec.toNat) := by
  cases hp : Bip32Path.parsePath s with
  | none =>
    obtain ⟨e, he⟩ := Parse_of_none E hp
    rw [he] at h
    cases h
  | some p =>
    rw [Parse_of_some E hp] at h
    have hq : p.map (BitVec.ofNat 32) = q := by
      have := Option.some.inj h
      exact congrArg Prod.fst this
    rw [← hq, map_toNat_ofNat p (Props.C10.parsed_indices_32bit s p hp)]

theorem Print_eq (q : List (BitVec 32)) : Print q = bv (Bip32Path.printPath (q.map BitVec.toNat)) := by
  have := Path_String_eq (q.map BitVec.toNat) (toNat_lt q)
  rw [map_ofNat_toNat] at this
  exact this

/-! ### the end-to-end theorems -/

/-- **Round trip: for every list of 32-bit indices, the generated `ParsePath` applied to the string the generated
`Path.String` prints returns exactly that list, and no error.** -/
theorem parse_print_code (E : Externs) (q : List (BitVec 32)) : Parse E (Print q) = some (q, none) := by
  rw [Print_eq, Parse_of_some E (Props.C10.parse_print _ (toNat_lt q)), map_ofNat_toNat]

/-- **`Path.String` is injective**: two paths that print the same string are equal. -/
theorem print_injective_code (q q' : List (BitVec 32)) (h : Print q = Print q') : q = q' := by
  have E := Bip32PathCode.Externs.model
  have h1 := parse_print_code E q
  rw [h, parse_print_code E q'] at h1
  exact (congrArg Prod.fst (Option.some.inj h1)).symm

/-- **The generated `ParsePath` returns the path `q` and no error exactly for the strings of the grammar** — `""`, `"m"`,
or an optional `"m/"` followed by '/'-separated components `digit+ [H']?` whose digits are worth less than 2^31 — **and
then `q` is the list of the values of the components, 2^31 added for a marked one.** -/
theorem parse_iff_grammar_code (E : Externs) (s : Str) (q : List (BitVec 32)) :
    Parse E (bv s) = some (q, none) ↔ Grammar s (q.map BitVec.toNat) := by
  constructor
  · intro h
    exact (Props.C10.parse_iff_grammar s _).mp (Parse_ok_inv E h)
  · intro h
    have := Parse_of_some E ((Props.C10.parse_iff_grammar s _).mpr h)
    rw [map_ofNat_toNat] at this
    exact this

/-- **Every string is either accepted — with a path the grammar assigns to it — or rejected with an error and a nil path;
it is rejected exactly when the grammar assigns no path to it.**  (Never a panic, never a path together with an error.) -/
theorem parse_outcome_code (E : Externs) (s : Str) :
    (∃ q, Parse E (bv s) = some (q, none) ∧ Grammar s (q.map BitVec.toNat)) ∨
    ((∃ e, Parse E (bv s) = some ([], some e)) ∧ ∀ p, ¬ Grammar s p) := by
  cases hp : Bip32Path.parsePath s with
  | some p =>
    have h := Parse_of_some E hp
    exact Or.inl ⟨_, h, (parse_iff_grammar_code E s _).mp h⟩
  | none =>
    refine Or.inr ⟨Parse_of_none E hp, fun p hg => ?_⟩
    rw [(Props.C10.parse_iff_grammar s p).mpr hg] at hp
    cases hp

/-- success ⇔ the string is in the grammar -/
theorem parse_succeeds_iff_code (E : Externs) (s : Str) :
    (∃ q, Parse E (bv s) = some (q, none)) ↔ ∃ p, Grammar s p := by
  constructor
  · rintro ⟨q, h⟩
    exact ⟨_, (parse_iff_grammar_code E s q).mp h⟩
  · rintro ⟨p, hg⟩
    rcases parse_outcome_code E s with ⟨q, h, _⟩ | ⟨_, hn⟩
    · exact ⟨q, h⟩
    · exact absurd hg (hn p)

/-- the components behind a path of the grammar -/
theorem grammar_comps {s : Str} {p : List Nat} (h : Grammar s p) :
    ∃ cs : List Comp, (∀ c ∈ cs, c.WF) ∧ p = cs.map Comp.index ∧
      (s = [] ∨ s = [chM] ∨ s = joinSlash (cs.map Comp.text) ∨ s = chM :: chSlash :: joinSlash (cs.map Comp.text)) := by
  cases h with
  | empty => exact ⟨[], by simp, rfl, Or.inl rfl⟩
  | m => exact ⟨[], by simp, rfl, Or.inr (Or.inl rfl)⟩
  | bare cs _ hwf => exact ⟨cs, hwf, rfl, Or.inr (Or.inr (Or.inl rfl))⟩
  | rooted cs _ hwf => exact ⟨cs, hwf, rfl, Or.inr (Or.inr (Or.inr rfl))⟩

theorem comp_index_lt (c : Comp) (h : c.WF) : c.index < 2 ^ 32 := by
  have := h.2.2.1
  unfold Comp.index
  split <;> omega

/-- **The indices the generated `ParsePath` returns are, AS NUMBERS, the decimal values of the digits of the components,
plus 2^31 for a component marked `H` or `'`** — nothing is lost in `uint32(n)` or changed by `v |= hardened` —, **and
the top bit of an index is set exactly for a marked component.** -/
theorem parsed_indices_code (E : Externs) (s : Str) (q : List (BitVec 32)) (h : Parse E (bv s) = some (q, none)) :
    ∃ cs : List Comp, (∀ c ∈ cs, c.WF) ∧
      (s = [] ∨ s = [chM] ∨ s = joinSlash (cs.map Comp.text) ∨ s = chM :: chSlash :: joinSlash (cs.map Comp.text)) ∧
      q.map BitVec.toNat = cs.map Comp.index ∧
      q.map BitVec.msb = cs.map (fun c => c.marker.isSome) := by
  obtain ⟨cs, hwf, hp, hs⟩ := grammar_comps ((parse_iff_grammar_code E s q).mp h)
  refine ⟨cs, hwf, hs, hp, ?_⟩
  have hq : q = cs.map (fun c => BitVec.ofNat 32 c.index) := by
    rw [← map_ofNat_toNat q, hp, List.map_map]; rfl
  rw [hq, List.map_map]
  apply List.map_congr_left
  intro c hc
  have hd := (hwf c hc).2.2.1
  simp only [Function.comp, BitVec.msb_eq_decide, BitVec.toNat_ofNat, Nat.mod_eq_of_lt (comp_index_lt c (hwf c hc))]
  unfold Comp.index
  cases c.marker with
  | none => simp; omega
  | some m => simp

/-- **The generated `ParsePath` never panics** (for any string; `Tie.C10.code_parsePath_never_panics`: not even for
library functions that misbehave). -/
theorem parse_never_panics_code (E : Externs) (s : List (BitVec 8)) : Parse E s ≠ none :=
  Bip32PathCode.ParsePath_never_panics E s

/-! ### the statements are not vacuous -/

-- "m/44'/0H/010" is accepted with [44 + 2^31, 2^31, 10]: the string is in the grammar
example : Grammar [109,47,52,52,39,47,48,72,47,48,49,48] ([2147483692#32, 2147483648#32, 10#32].map BitVec.toNat) :=
  (parse_iff_grammar_code Bip32PathCode.Externs.model _ _).mp (by decide +kernel)
-- "m/2147483648" is in no way in the grammar
example : ∀ p, ¬ Grammar [109,47,50,49,52,55,52,56,51,54,52,56] p := by
  rcases parse_outcome_code Bip32PathCode.Externs.model [109,47,50,49,52,55,52,56,51,54,52,56] with ⟨q, h, _⟩ | ⟨_, hn⟩
  · have h2 : Parse Bip32PathCode.Externs.model (bv [109,47,50,49,52,55,52,56,51,54,52,56]) = some ([], some "ErrRange") := by
      decide +kernel
    rw [h2] at h
    cases h
  · exact hn

end Iota.Tie.E2E.Bip32Path
