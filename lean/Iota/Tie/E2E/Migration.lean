/-
END-TO-END theorems for pkg/migration: the C19 properties of the migration address format (`Iota/Props/C19.lean`:
`Decode` of `Encode` of an address returns it, `Decode` accepts only what `Encode` produces, 81 trytes) stated about the
GENERATED `Gen.Migration.migration.Encode` / `migration.Decode` (`Iota/Gen/Migration.lean`, regenerated from migration.go and
from iota.go's `guards` and `encoding/b1t6` on every run), obtained by combining the code tie `Tie.MigrationCode.Decode_eq` /
`Encode_eq` (generated code = hand-written model, for all inputs) with the property theorems about the model.

The theorems mention only the two generated functions and the function `sum` passed for `golang.org/x/crypto/blake2b.Sum256`
(a PARAMETER of the generated code: any function with 32-byte results, as a `[32]byte` has; in fact results of at least 4
bytes suffice, `decode_encode_code_of_four`).  None mentions the model; only the proofs do (through `Hof sum`, the model hash
that describes `sum`).  A result `none` would be a Go run-time panic; `some (a, none)` is the address `a` and a nil error,
`some (zero, some e)` the zero address and the error `e`.  A string is the list of its bytes; the bound `< 2^63` on its length
is the one every Go string satisfies (`len` is an `int`).
-/
import Iota.Props.C19
import Iota.Tie.MigrationCode

namespace Iota.Tie.E2E.Migration
open Iota
open Iota.Tie.Bech32Code (bv bv_ofBitVec)
open Iota.Tie.MigrationCode (Hof Hof_spec Hof_length Decode_eq Encode_eq Decode_never_panics_any)
open Iota.Gen.Migration

/-- every list of code bytes is `bv` of a list of model bytes -/
theorem exists_bv (l : List (BitVec 8)) : ∃ t : List UInt8, bv t = l ∧ t.length = l.length :=
  ⟨l.map UInt8.ofBitVec, bv_ofBitVec l, by simp⟩

/-- the generated `Decode` of the generated `Encode` of a 32-byte address returns that address, for every `sum` whose
results have at least the 4 bytes the checksum takes -/
theorem decode_encode_code_of_four (sum : List (BitVec 8) → List (BitVec 8)) (h4 : ∀ x, 4 ≤ (sum x).length)
    (a : List (BitVec 8)) (ha : a.length = 32) :
    ∃ s, migration.Encode sum a = some s ∧ s.length = 81 ∧ migration.Decode sum s = some (a, none) := by
  obtain ⟨a', rfl, hl⟩ := exists_bv a
  have ha' : a'.length = 32 := hl.trans ha
  have hH : ∀ x, 4 ≤ (Hof sum x).length := fun x => by rw [Hof_length]; exact h4 _
  have hs : (Migration.encode (Hof sum) a').length = 81 := Props.C19.migration_shape (Hof sum) hH a' ha'
  refine ⟨bv (Migration.encode (Hof sum) a'), Encode_eq sum (Hof sum) (Hof_spec sum) a' ha', by simpa [bv] using hs, ?_⟩
  rw [Decode_eq sum (Hof sum) (Hof_spec sum) _ (by rw [hs]; decide),
    Props.C19.migration_decode_encode (Hof sum) hH a' ha']

/-- **round trip**: for every function `sum` with 32-byte results passed for `blake2b.Sum256` and every 32-byte address `a`,
the generated `Encode` does not panic, its result has 81 bytes, and the generated `Decode` of it returns `a` and a nil
error -/
theorem decode_encode_code (sum : List (BitVec 8) → List (BitVec 8)) (hlen : ∀ x, (sum x).length = 32)
    (a : List (BitVec 8)) (ha : a.length = 32) :
    ∃ s, migration.Encode sum a = some s ∧ s.length = 81 ∧ migration.Decode sum s = some (a, none) :=
  decode_encode_code_of_four sum (fun x => by rw [hlen x]; decide) a ha

/-- **canonical**: whatever string the generated `Decode` accepts (nil error) is the generated `Encode` of the address it
returns, which has 32 bytes; the string has 81 bytes.  For every `sum`. -/
theorem decode_canonical_code (sum : List (BitVec 8) → List (BitVec 8)) (s a : List (BitVec 8)) (hs : s.length < 2 ^ 63)
    (h : migration.Decode sum s = some (a, none)) :
    migration.Encode sum a = some s ∧ a.length = 32 ∧ s.length = 81 := by
  obtain ⟨t, rfl, hl⟩ := exists_bv s
  rw [Decode_eq sum (Hof sum) (Hof_spec sum) t (by rw [hl]; exact hs)] at h
  cases hd : Migration.decode (Hof sum) t with
  | error e => rw [hd] at h; simp at h
  | ok a' =>
    rw [hd] at h
    have ha : bv a' = a := congrArg Prod.fst (Option.some.inj h)
    obtain ⟨ht, hl32⟩ := Props.C19.migration_canonical (Hof sum) t a' hd
    subst ha
    refine ⟨?_, by simpa [bv] using hl32, ?_⟩
    · rw [Encode_eq sum (Hof sum) (Hof_spec sum) a' hl32, ← ht]
    · have hg : Migration.isTrytesOfExactLength t 81 = true := by
        cases hg : Migration.isTrytesOfExactLength t 81 with
        | true => rfl
        | false =>
          have : Migration.decode (Hof sum) t = .error .invalidLength := by
            unfold Migration.decode
            rw [show Migration.hashTrytesSize = 81 from rfl, hg]; rfl
          rw [this] at hd; cases hd
      unfold Migration.isTrytesOfExactLength at hg
      simp only [Bool.and_eq_true, beq_iff_eq] at hg
      rw [← hl]; exact hg.1.1

/-- **no panic**: the generated `Decode` returns (an address or an error) for every string and every `sum` -/
theorem decode_never_panics_code (sum : List (BitVec 8) → List (BitVec 8)) (s : List (BitVec 8)) (hs : s.length < 2 ^ 63) :
    migration.Decode sum s ≠ none :=
  Decode_never_panics_any sum s hs

end Iota.Tie.E2E.Migration
