/-
End-to-end statements for pkg/curl: the GENERATED code (`Iota.Gen.Curl.code.*`, regenerated from the Go source) on one
side, the single-lane SPECIFICATION sponge (`Iota.Spec.CurlP.Sponge`) on the other.  The model (`Iota/Model/Curl.lean`)
appears in the proofs only: code = model is `Iota/Tie/Curl.lean` (`code_reset`, `code_absorb`, `code_squeeze`,
`code_transform_wrapper`), model = specification is C06 (`Iota/Props/C06.lean`; here through the simulation steps
`sim_init`, `absorb_sim`, `squeeze_sim` behind `history_simulation`).

* `hash_oneshot`: `Reset`, `Absorb(src, n)`, `Squeeze(dst, m)` through the generated code, with the model's `transform`
  as the permutation parameter (`trM`): no panic, no error, and row `j` of the output is what the specification sponge
  produces from lane `j`'s input alone.
* `hash_oneshot_generated`: the same with the parameter instantiated by the GENERATED `transformGeneric` (two zeroed
  scratch planes) — the whole portable sponge is generated code.  Route: `Absorb` / `Squeeze` apply their parameter only to
  the two state lists, which stay of length 729 (`absorb_param`, `squeeze_param`: any two parameters that agree on planes
  give the same result, for ALL arguments), and on planes the generated permutation is `trM` (`code_transform_wrapper`).
* `absorb_rejects_*`, `squeeze_rejects_*`: returned errors leave the state (and `dst`) untouched, for ANY lists, any
  direction word and any parameter — no model involved.
* non-vacuity: the hypotheses of the two main theorems hold for one lane of 243 zero trits (nothing is evaluated).

Hypotheses that are weaker than one would write first (so the theorems are stronger): lanes need at least `n` trits
(not exactly `n`); the trits may be any `int8` — the specification sponge sign-normalises its input (`normTrit`), which is
the identity on {-1, 0, 1} (`normTrit_trit`); `n`, `m` only need to be non-negative as `int` (`toNat < 2^63`); `s = 0`
is allowed (empty rows, the direction word stays 0).
-/
import Iota.Tie.Curl
import Iota.Props.C06

namespace Iota.Tie.E2E.Curl
open Iota Iota.Go
open Iota.Tie.CurlCodeSponge
open Iota.Tie.CurlCodeLanes (P2)
open Iota.Spec.CurlP (Sponge)
open Iota.Proofs.Curl (Sim sim_init absorb_sim squeeze_sim)

/-! ### 0. small generic facts -/

theorem bind_run_inv {ρ σ τ : Type} (x : Flow ρ σ) (f : σ → Flow ρ τ) (t : τ) (h : x.bind f = .run t) :
    ∃ s, x = .run s ∧ f s = .run t := by
  cases x with
  | run s => exact ⟨s, rfl, h⟩
  | done r => cases h
  | panic => cases h

/-- two loop bodies that agree on the states of an invariant which the second one preserves run the same loop -/
theorem forIn_congr_inv {α ρ σ : Type} (P : σ → Prop) (l : List α) (f g : σ → α → Flow ρ σ)
    (h : ∀ s, P s → ∀ a ∈ l, f s a = g s a ∧ ∀ s', g s a = .run s' → P s') (s : σ) (hs : P s) :
    forIn l s f = forIn l s g := by
  induction l generalizing s with
  | nil => rfl
  | cons a l ih =>
    obtain ⟨h1, h2⟩ := h s hs a (List.mem_cons_self ..)
    rw [forIn_cons, forIn_cons, h1]
    cases hg : g s a with
    | run s' =>
      rw [Flow.bind_run, Flow.bind_run]
      exact ih (fun s hs b hb => h s hs b (List.mem_cons_of_mem _ hb)) s' (h2 s' hg)
    | done r => rfl
    | panic => rfl

/-- an invariant of the body is an invariant of the loop -/
theorem forIn_pres {α ρ σ : Type} (P : σ → Prop) (l : List α) (f : σ → α → Flow ρ σ)
    (h : ∀ s, P s → ∀ a ∈ l, ∀ s', f s a = .run s' → P s') (s : σ) (hs : P s) (s' : σ)
    (hr : forIn l s f = .run s') : P s' := by
  induction l generalizing s with
  | nil => cases hr; exact hs
  | cons a l ih =>
    rw [forIn_cons] at hr
    obtain ⟨s1, h1, h2⟩ := bind_run_inv _ _ _ hr
    exact ih (fun s hs b hb => h s hs b (List.mem_cons_of_mem _ hb)) s1
      (h s hs a (List.mem_cons_self ..) s1 h1) h2

theorem range_map_getD {α β : Type} (l : List α) (d : α) (F : α → β) :
    (List.range l.length).map (fun j => F (l.getD j d)) = l.map F := by
  apply List.ext_getElem
  · simp
  · intro i h1 h2
    have hi : i < l.length := by simpa using h2
    simp [List.getD_eq_getElem?_getD, List.getElem?_eq_getElem hi]

theorem toInt_nonneg_of (x : BitVec 64) (h : x.toNat < 2 ^ 63) : 0 ≤ x.toInt := by
  rw [BitVec.toInt_eq_toNat_cond]
  split <;> omega

/-- the specification's sign-normalisation of absorbed trits is the identity on trits -/
theorem normTrit_trit (t : Int) (h : t = -1 ∨ t = 0 ∨ t = 1) : Spec.CurlP.normTrit t = t := by
  rcases h with rfl | rfl | rfl <;> rfl

/-! ### 1. the permutation parameter is only ever applied to planes -/

/-- the parameter `c.transform()` instantiated by the GENERATED permutation: `transformGeneric` on two zeroed scratch
planes as `to` and the state as `from`; the state becomes the scratch planes (the pinned text of `Curl.transform`) -/
def trGen : TR := fun l h =>
  (Gen.Curl.code.transformGeneric (List.replicate 729 0#64) (List.replicate 729 0#64) l h).map (fun r => (r.1, r.2.1))

/-- a permutation parameter that agrees with `trM` on planes (lists that are the content of a 729-word array) -/
def OnPlanes (tr : TR) : Prop := ∀ l h : Curl.Plane, tr l.toList h.toList = trM l.toList h.toList

theorem trM_onPlanes : OnPlanes trM := fun _ _ => rfl

/-- `code_transform_wrapper`: on planes the generated permutation is `trM` -/
theorem trGen_onPlanes : OnPlanes trGen := fun l h =>
  (Tie.Curl.code_transform_wrapper { l := l, h := h, direction := .absorbing }).symm

/-- `trM` maps planes to planes (or panics) -/
theorem trM_planes (l h : Curl.Plane) :
    ∃ r : Option (Curl.Plane × Curl.Plane), trM l.toList h.toList = r.map emb2 := by
  refine ⟨(Curl.Curl.transform { l := l, h := h, direction := .absorbing }).map (fun c' => (c'.l, c'.h)), ?_⟩
  rw [trM_eq { l := l, h := h, direction := .absorbing }, Option.map_map]
  rfl

/-- the states of the block loops that are planes -/
def IsPlanes (s : P2) : Prop := ∃ p : Curl.Plane × Curl.Plane, s = emb2 p

theorem laneStepA_planes {ρ : Type} (src : List (List (BitVec 8))) (i j : W) (s s' : P2) (hs : IsPlanes s)
    (h : laneStepA (ρ := ρ) src i s j = .run s') : IsPlanes s' := by
  obtain ⟨p, rfl⟩ := hs
  simp only [laneStepA, emb2, CurlCodeLanes.in_eq] at h
  split at h
  · cases h
  · split at h
    · simp only [call, Flow.bind_run] at h
      injection h with h
      exact ⟨Curl.inLane p.1 p.2 _ _, h.symm⟩
    · cases h

/-- the tail of a block of `Absorb`: the call of the parameter on the planes the lane loop produced -/
theorem tailA_param {ρ : Type} (tr : TR) (htr : OnPlanes tr) (x : Flow ρ P2) (hx : ∀ s, x = .run s → IsPlanes s) :
    (Flow.bind x fun st_5 => Flow.bind (Go.call (tr st_5.1 st_5.2)) fun st_7 => Flow.run (st_7.1, st_7.2)) =
      (Flow.bind x fun st_5 => Flow.bind (Go.call (trM st_5.1 st_5.2)) fun st_7 => Flow.run (st_7.1, st_7.2)) ∧
    ∀ s' : P2, (Flow.bind x fun st_5 => Flow.bind (Go.call (ρ := ρ) (trM st_5.1 st_5.2)) fun st_7 =>
      Flow.run (st_7.1, st_7.2)) = .run s' → IsPlanes s' := by
  cases x with
  | done r => exact ⟨rfl, fun s' h => by cases h⟩
  | panic => exact ⟨rfl, fun s' h => by cases h⟩
  | run s =>
    obtain ⟨p, rfl⟩ := hx s rfl
    simp only [Flow.bind_run, emb2]
    rw [htr]
    refine ⟨rfl, ?_⟩
    obtain ⟨r, hr⟩ := trM_planes p.1 p.2
    rw [hr]
    intro s' h
    cases r with
    | none => cases h
    | some q => cases h; exact ⟨q, rfl⟩

theorem blockA_param {ρ : Type} (tr : TR) (htr : OnPlanes tr) (src : List (List (BitVec 8)))
    (p : Curl.Plane × Curl.Plane) (i : W) :
    blockA (ρ := ρ) tr src (emb2 p) i = blockA trM src (emb2 p) i ∧
    ∀ s', blockA (ρ := ρ) trM src (emb2 p) i = .run s' → IsPlanes s' := by
  unfold blockA
  simp only [emb2]
  rw [rate_loop]
  simp only [Flow.bind_run]
  exact tailA_param tr htr _ (fun s hs =>
    forIn_pres IsPlanes _ _ (fun s hs a _ s' h => laneStepA_planes src i a s s' hs h) _ ⟨(_, _), rfl⟩ s hs)

/-- **`Absorb` depends on its permutation parameter only through the parameter's values on planes**: all arguments, also
those that are rejected or panic -/
theorem absorb_param (tr : TR) (htr : OnPlanes tr) (l h : Curl.Plane) (d : W) (src : List (List (BitVec 8))) (tc : W) :
    Gen.Curl.code.Curl_Absorb tr l.toList h.toList d src tc =
      Gen.Curl.code.Curl_Absorb trM l.toList h.toList d src tc := by
  rw [Curl_Absorb_unfold, Curl_Absorb_unfold]
  have hloop := forIn_congr_inv (ρ := AR) IsPlanes (forUp true false 0#64 tc 243) (blockA tr src) (blockA trM src)
    (fun s hs a _ => by obtain ⟨p, rfl⟩ := hs; exact blockA_param tr htr src p a) (l.toList, h.toList) ⟨(l, h), rfl⟩
  rw [hloop]

/-- the states of the block loop of `Squeeze` whose first two components are planes -/
def IsPlanesS (s : SSt) : Prop := ∃ p : Curl.Plane × Curl.Plane, s.1 = p.1.toList ∧ s.2.1 = p.2.toList

theorem blockS_param {ρ : Type} (tr : TR) (htr : OnPlanes tr) (s : SSt) (hs : IsPlanesS s) (i : W) :
    blockS (ρ := ρ) tr s i = blockS trM s i ∧ ∀ s', blockS (ρ := ρ) trM s i = .run s' → IsPlanesS s' := by
  obtain ⟨l, h, d, dst⟩ := s
  obtain ⟨p, hl, hh⟩ := hs
  simp only at hl hh
  subst hl hh
  rw [blockS_unfold, blockS_unfold, htr]
  refine ⟨rfl, ?_⟩
  intro s' hrun
  obtain ⟨st3, h3, hrest⟩ := bind_run_inv _ _ _ hrun
  obtain ⟨dst', _, hfin⟩ := bind_run_inv _ _ _ hrest
  cases hfin
  by_cases hd : (d == 1#64) = true
  · rw [if_pos hd] at h3
    obtain ⟨r, hr⟩ := trM_planes p.1 p.2
    rw [hr] at h3
    cases r with
    | none => cases h3
    | some q => cases h3; exact ⟨q, rfl, rfl⟩
  · rw [if_neg hd] at h3
    cases h3
    exact ⟨p, rfl, rfl⟩

/-- **`Squeeze` depends on its permutation parameter only through the parameter's values on planes** -/
theorem squeeze_param (tr : TR) (htr : OnPlanes tr) (l h : Curl.Plane) (d : W) (dst : Rows) (tc : W) :
    Gen.Curl.code.Curl_Squeeze tr l.toList h.toList d dst tc =
      Gen.Curl.code.Curl_Squeeze trM l.toList h.toList d dst tc := by
  rw [Curl_Squeeze_unfold, Curl_Squeeze_unfold]
  have hloop : ∀ dst' : Rows,
      forIn (ρ := SR) (forUp true false 0#64 tc 243) (l.toList, h.toList, d, dst') (blockS tr) =
        forIn (forUp true false 0#64 tc 243) (l.toList, h.toList, d, dst') (blockS trM) := fun dst' =>
    forIn_congr_inv IsPlanesS _ (blockS tr) (blockS trM) (fun s hs a _ => blockS_param tr htr s hs a) _
      ⟨(l, h), rfl, rfl⟩
  simp only [hloop]

/-! ### 2. the one-shot hash -/

/-- the one-shot hash for any permutation parameter that agrees with `trM` on planes (the two instances below do not
mention the model) -/
theorem hash_oneshot_of (tr : TR) (htr : OnPlanes tr)
    (l0 h0 : List (BitVec 64)) (hl0 : l0.length = 729) (hh0 : h0.length = 729) (d0 : BitVec 64)
    (src dst : List (List (BitVec 8))) (n m : BitVec 64) (b s : Nat)
    (hk1 : 1 ≤ src.length) (hk64 : src.length ≤ 64) (hdst : dst.length = src.length)
    (hn : n.toNat = 243 * b) (hn63 : n.toNat < 2 ^ 63) (hm : m.toNat = 243 * s) (hm63 : m.toNat < 2 ^ 63)
    (hlen : ∀ lane ∈ src, n.toNat ≤ lane.length) :
    ∃ l1 h1 l2 h2 l3 h3 out,
      Gen.Curl.code.Curl_Reset l0 h0 d0 = some (l1, h1, 0#64) ∧
      Gen.Curl.code.Curl_Absorb tr l1 h1 0#64 src n = some (none, l2, h2) ∧
      Gen.Curl.code.Curl_Squeeze tr l2 h2 0#64 dst m =
        some (none, l3, h3, (if s = 0 then 0#64 else 1#64), out) ∧
      out.map tritsI = src.map (fun lane => ((Sponge.init.absorb (tritsI lane) b).squeeze s).2) := by
  -- Reset
  have hr := Tie.Curl.code_reset l0 h0 hl0 hh0 d0
  -- Absorb: code = model (tie), model simulates the 64 specification sponges (C06)
  obtain ⟨c1, hc1, hd1, hs1⟩ := absorb_sim Curl.init _ sim_init (src.map tritsI) n.toNat rfl
    (by simpa using hk1) (by simpa using hk64) (by omega)
    (by
      intro lane hl
      obtain ⟨x, hx, rfl⟩ := List.mem_map.mp hl
      simpa [tritsI] using hlen x hx)
  have ha : Gen.Curl.code.Curl_Absorb tr Curl.init.l.toList Curl.init.h.toList 0#64 src n =
      some (none, c1.l.toList, c1.h.toList) := by
    have := Tie.Curl.code_absorb Curl.init src (by omega) n (toInt_nonneg_of n hn63)
    rw [hc1] at this
    rw [absorb_param tr htr]
    exact this
  -- Squeeze
  obtain ⟨c2, out, hc2, hout, hd2, _⟩ := squeeze_sim c1 _ hs1 dst.length m.toNat (by omega) (by omega) (by omega)
  have hq := Tie.Curl.code_squeeze c1 dst (by omega) m (toInt_nonneg_of m hm63)
  have hsq : Gen.Curl.code.Curl_Squeeze tr c1.l.toList c1.h.toList 0#64 dst m =
      some (none, c2.l.toList, c2.h.toList, dirBV c2.direction, out.map (·.map (BitVec.ofInt 8))) := by
    have := hq.1
    rw [hc2, hd1] at this
    rw [squeeze_param tr htr]
    exact this
  have hdir : dirBV c2.direction = if s = 0 then 0#64 else 1#64 := by
    have e : m.toNat / 243 = s := by omega
    rw [hd2, e, hd1]
    split <;> rfl
  rw [hdir] at hsq
  refine ⟨_, _, _, _, _, _, _, hr, ha, hsq, ?_⟩
  rw [hq.2 c2 out hc2, hout, hdst]
  have eb : n.toNat / 243 = b := by omega
  have es : m.toNat / 243 = s := by omega
  rw [eb, es, ← List.length_map (as := src) tritsI,
    range_map_getD (src.map tritsI) [] (fun lane => ((Sponge.init.absorb lane b).squeeze s).2), List.map_map]
  rfl

/-- **one-shot hash through the generated code** (`Reset`, `Absorb(src, n)`, `Squeeze(dst, m)`), the permutation parameter
being the model's `transform` on lists (`trM`).  For every instance — any two 729-word arrays, any direction word —,
every batch `src` of 1 … 64 lanes with at least `n = 243·b` trits each (any `int8` values; the specification sign-normalises,
`normTrit_trit`), every `dst` with as many rows (their contents do not matter) and every `m = 243·s`: none of the three
calls panics, both errors are `nil`, the direction word ends as `SpongeSqueezing` (when `s ≠ 0`), and the rows returned,
read as integers, are — lane by lane — what the single-lane specification sponge squeezes after absorbing that lane's
`b` blocks alone. -/
theorem hash_oneshot
    (l0 h0 : List (BitVec 64)) (hl0 : l0.length = 729) (hh0 : h0.length = 729) (d0 : BitVec 64)
    (src dst : List (List (BitVec 8))) (n m : BitVec 64) (b s : Nat)
    (hk1 : 1 ≤ src.length) (hk64 : src.length ≤ 64) (hdst : dst.length = src.length)
    (hn : n.toNat = 243 * b) (hn63 : n.toNat < 2 ^ 63) (hm : m.toNat = 243 * s) (hm63 : m.toNat < 2 ^ 63)
    (hlen : ∀ lane ∈ src, n.toNat ≤ lane.length) :
    ∃ l1 h1 l2 h2 l3 h3 out,
      Gen.Curl.code.Curl_Reset l0 h0 d0 = some (l1, h1, 0#64) ∧
      Gen.Curl.code.Curl_Absorb trM l1 h1 0#64 src n = some (none, l2, h2) ∧
      Gen.Curl.code.Curl_Squeeze trM l2 h2 0#64 dst m =
        some (none, l3, h3, (if s = 0 then 0#64 else 1#64), out) ∧
      out.map tritsI = src.map (fun lane => ((Sponge.init.absorb (tritsI lane) b).squeeze s).2) :=
  hash_oneshot_of trM trM_onPlanes l0 h0 hl0 hh0 d0 src dst n m b s hk1 hk64 hdst hn hn63 hm hm63 hlen

/-- **the same with the GENERATED permutation as the parameter**: every function involved is regenerated from the Go source
(portable build; for amd64 C20 replaces `transformGeneric` by the assembly). -/
theorem hash_oneshot_generated
    (l0 h0 : List (BitVec 64)) (hl0 : l0.length = 729) (hh0 : h0.length = 729) (d0 : BitVec 64)
    (src dst : List (List (BitVec 8))) (n m : BitVec 64) (b s : Nat)
    (hk1 : 1 ≤ src.length) (hk64 : src.length ≤ 64) (hdst : dst.length = src.length)
    (hn : n.toNat = 243 * b) (hn63 : n.toNat < 2 ^ 63) (hm : m.toNat = 243 * s) (hm63 : m.toNat < 2 ^ 63)
    (hlen : ∀ lane ∈ src, n.toNat ≤ lane.length) :
    let tr : List (BitVec 64) → List (BitVec 64) → Option (List (BitVec 64) × List (BitVec 64)) := fun l h =>
      (Gen.Curl.code.transformGeneric (List.replicate 729 0#64) (List.replicate 729 0#64) l h).map
        (fun r => (r.1, r.2.1))
    ∃ l1 h1 l2 h2 l3 h3 out,
      Gen.Curl.code.Curl_Reset l0 h0 d0 = some (l1, h1, 0#64) ∧
      Gen.Curl.code.Curl_Absorb tr l1 h1 0#64 src n = some (none, l2, h2) ∧
      Gen.Curl.code.Curl_Squeeze tr l2 h2 0#64 dst m =
        some (none, l3, h3, (if s = 0 then 0#64 else 1#64), out) ∧
      out.map tritsI = src.map (fun lane => ((Sponge.init.absorb (tritsI lane) b).squeeze s).2) :=
  hash_oneshot_of trGen trGen_onPlanes l0 h0 hl0 hh0 d0 src dst n m b s hk1 hk64 hdst hn hn63 hm hm63 hlen

/-! ### 3. returned errors leave the state untouched — code level, any lists, any parameter -/

/-- `Absorb` with 0 or more than 64 lanes (`src` a Go slice: fewer than `2^63` elements): `ErrInvalidBatchSize`, whatever
`tritsCount` is; the two arrays are returned unchanged -/
theorem absorb_rejects_batch (tr : TR) (c_l c_h : List (BitVec 64)) (d : BitVec 64) (src : List (List (BitVec 8)))
    (tc : BitVec 64) (hsrc : src.length < 2 ^ 63) (h : src.length = 0 ∨ 64 < src.length) :
    Gen.Curl.code.Curl_Absorb tr c_l c_h d src tc = some (some "consts.ErrInvalidBatchSize", c_l, c_h) := by
  rw [Curl_Absorb_unfold, batch_guard _ hsrc, if_pos (decide_eq_true (by omega))]
  rfl

/-- `Absorb` with a `tritsCount` (any 64-bit `int`, Go's `%` = `Int.tmod`) that is not a multiple of 243:
`ErrInvalidTritsLength`, the two arrays unchanged -/
theorem absorb_rejects_length (tr : TR) (c_l c_h : List (BitVec 64)) (d : BitVec 64) (src : List (List (BitVec 8)))
    (tc : BitVec 64) (h1 : 1 ≤ src.length) (h64 : src.length ≤ 64) (hm : tc.toInt.tmod 243 ≠ 0) :
    Gen.Curl.code.Curl_Absorb tr c_l c_h d src tc = some (some "consts.ErrInvalidTritsLength", c_l, c_h) := by
  have hb : ¬ (src.length < 1 ∨ src.length > 64) := by omega
  rw [Curl_Absorb_unfold, batch_guard _ (by omega), srem_guard]
  simp only [decide_eq_true_eq]
  rw [if_neg hb, if_pos hm]
  rfl

/-- `Squeeze` with 0 or more than 64 rows: `ErrInvalidBatchSize`; arrays, direction and `dst` unchanged -/
theorem squeeze_rejects_batch (tr : TR) (c_l c_h : List (BitVec 64)) (d : BitVec 64) (dst : List (List (BitVec 8)))
    (tc : BitVec 64) (hdst : dst.length < 2 ^ 63) (h : dst.length = 0 ∨ 64 < dst.length) :
    Gen.Curl.code.Curl_Squeeze tr c_l c_h d dst tc = some (some "consts.ErrInvalidBatchSize", c_l, c_h, d, dst) := by
  rw [Curl_Squeeze_unfold, batch_guard _ hdst, if_pos (decide_eq_true (by omega))]
  rfl

/-- `Squeeze` with a `tritsCount` that is not a multiple of 243: `ErrInvalidSqueezeLength`; arrays, direction and `dst`
unchanged -/
theorem squeeze_rejects_length (tr : TR) (c_l c_h : List (BitVec 64)) (d : BitVec 64) (dst : List (List (BitVec 8)))
    (tc : BitVec 64) (h1 : 1 ≤ dst.length) (h64 : dst.length ≤ 64) (hm : tc.toInt.tmod 243 ≠ 0) :
    Gen.Curl.code.Curl_Squeeze tr c_l c_h d dst tc =
      some (some "consts.ErrInvalidSqueezeLength", c_l, c_h, d, dst) := by
  have hb : ¬ (dst.length < 1 ∨ dst.length > 64) := by omega
  rw [Curl_Squeeze_unfold, batch_guard _ (by omega), srem_guard]
  simp only [decide_eq_true_eq]
  rw [if_neg hb, if_pos hm]
  rfl

/-- for a non-negative `tritsCount` "not a multiple of 243" is the condition on the natural number -/
theorem not_multiple_nonneg (tc : BitVec 64) (h0 : tc.toNat < 2 ^ 63) (hm : tc.toNat % 243 ≠ 0) :
    tc.toInt.tmod 243 ≠ 0 := by
  rw [tmod_nonneg tc (toInt_nonneg_of tc h0)]
  omega

/-! ### 4. non-vacuity: one lane of 243 zero trits, one block squeezed (the sponge is not evaluated) -/

example :
    let tr : List (BitVec 64) → List (BitVec 64) → Option (List (BitVec 64) × List (BitVec 64)) := fun l h =>
      (Gen.Curl.code.transformGeneric (List.replicate 729 0#64) (List.replicate 729 0#64) l h).map
        (fun r => (r.1, r.2.1))
    ∃ l1 h1 l2 h2 l3 h3 out,
      Gen.Curl.code.Curl_Reset (List.replicate 729 0#64) (List.replicate 729 5#64) 7#64 = some (l1, h1, 0#64) ∧
      Gen.Curl.code.Curl_Absorb tr l1 h1 0#64 [List.replicate 243 0#8] 243#64 = some (none, l2, h2) ∧
      Gen.Curl.code.Curl_Squeeze tr l2 h2 0#64 [[]] 243#64 = some (none, l3, h3, 1#64, out) ∧
      out.map tritsI = [((Sponge.init.absorb (tritsI (List.replicate 243 0#8)) 1).squeeze 1).2] :=
  hash_oneshot_generated (List.replicate 729 0#64) (List.replicate 729 5#64) List.length_replicate
    List.length_replicate 7#64 [List.replicate 243 0#8] [[]] 243#64 243#64 1 1 (Nat.le_refl 1) (by decide) rfl
    rfl (by decide) rfl (by decide)
    (by
      intro lane hl
      rw [List.mem_singleton.mp hl, List.length_replicate]
      exact Nat.le_refl 243)

end Iota.Tie.E2E.Curl
