/-
Tie shared by C04, C05, C16, C19: facts regenerated from pkg/bech32 and its internal base32
package agree with the model (Iota/Model/Bech32.lean) the theorems are about.
-/
import Iota.Tie.Bech32ApiCode
import Iota.Tie.Bech32CharsCode
import Iota.Gen.Bech32
import Iota.Tie.Expect
import Iota.Model.Bech32
import Iota.Tie.Bech32Code
import Iota.Tie.Base32Code

namespace Iota.Tie.Bech32
open Iota

theorem constants :
    Gen.Bech32.maxStringLength = (Bech32.maxStringLength : Int) ∧
    Gen.Bech32.checksumLength = (Bech32.checksumLength : Int) ∧
    Gen.Bech32.separator = (Bech32.separator.toNat : Int) := by decide

theorem charset_eq : Gen.Bech32.charset = Bech32.charset.map UInt8.toNat := by decide

/-- the BIP-173 generator constants -/
theorem gen_eq : Gen.Bech32.gen = Bech32.gen.map Int.ofNat := by decide

/-- `isValidHRPChar` (translated code) on every byte value, and on rune values beyond a byte:
nothing above 126 is accepted -/
theorem isValidHRPChar_eq : ∀ n : Nat, n < 256 →
    Gen.Bech32.isValidHRPChar (n : Int) = Bech32.isValidHRPChar (UInt8.ofNat n) := by decide +kernel
theorem isValidHRPChar_large (r : Int) (h : 126 < r) : Gen.Bech32.isValidHRPChar r = false := by
  unfold Gen.Bech32.isValidHRPChar
  have : ¬ (r ≤ 126) := by omega
  simp [this]

theorem encodedLen_eq (n : Nat) : Gen.Bech32.EncodedLen n = (Bech32.encodedLen n : Int) := by
  unfold Gen.Bech32.EncodedLen Bech32.encodedLen
  have : ((n : Int) * 8 + 4) = ((n * 8 + 4 : Nat) : Int) := by omega
  rw [this, Int.tdiv_eq_ediv_of_nonneg (by omega)]
  omega
theorem decodedLen_eq (n : Nat) : Gen.Bech32.DecodedLen n = (Bech32.decodedLen n : Int) := by
  unfold Gen.Bech32.DecodedLen Bech32.decodedLen
  have : ((n : Int) * 5) = ((n * 5 : Nat) : Int) := by omega
  rw [this, Int.tdiv_eq_ediv_of_nonneg (by omega)]
  omega

/-! No function of pkg/bech32 or pkg/bech32/internal/base32 is pinned by text any more: checksum.go, chars.go, base32.go
and bech32.go itself (`Encode`, `Decode`, `validateCase`, `firstUpper`, `firstLower`, `isValidHRPChar`) are translated as
code and tied to the model in `Iota/Tie/Bech32Code.lean`, `Base32Code.lean`, `Bech32CharsCode.lean` and
`Bech32ApiCode.lean` (re-exported below as `code_*`). -/

/-- everything else the package declares (imports, constants, types, variables, build constraints and the functions not
pinned one by one) is unchanged too: no declaration of the modelled packages can change without a tie theorem failing. -/
theorem rest :
    Gen.Bech32.rest_base32 = Expect.Bech32_rest_base32 ∧
    Gen.Bech32.rest_bech32 = Expect.Bech32_rest_bech32 :=
  ⟨rfl, rfl⟩

/-! ### checksum.go translated AS CODE (loops included) = the model, for all inputs
`Gen.Bech32.bech32Polymod` etc. are regenerated from the Go source on every run by the loop translator
(go/cmd/extract/loops*.go: Go `int` as 64-bit two's complement `BitVec 64`, slices as lists); the proofs are in
`Iota/Tie/Bech32Code.lean`.  `bv` is the bijection `List UInt8 ≃ List (BitVec 8)`. -/
open Iota.Tie.Bech32Code in
theorem code_hrpExpand (s : List UInt8) : Gen.Bech32.bech32HrpExpand (bv s) = bv (Bech32.hrpExpand s) := hrpExpand_eq s
open Iota.Tie.Bech32Code in
theorem code_polymod (values : List UInt8) :
    (Gen.Bech32.bech32Polymod (bv values)).toNat = Bech32.polymod values ∧
    (Gen.Bech32.bech32Polymod (bv values)).toNat < 2 ^ 30 := ⟨polymod_toNat values, polymod_lt values⟩
open Iota.Tie.Bech32Code in
theorem code_createChecksum (hrp blocks : List UInt8) :
    Gen.Bech32.bech32CreateChecksum (bv hrp) (bv blocks) = bv (Bech32.createChecksum hrp blocks) := createChecksum_eq hrp blocks
open Iota.Tie.Bech32Code in
theorem code_verifyChecksum (hrp data : List UInt8) :
    Gen.Bech32.bech32VerifyChecksum (bv hrp) (bv data) = Bech32.verifyChecksum hrp data := verifyChecksum_eq hrp data

/-! ### internal/base32 translated AS CODE (switch / fallthrough / break, output buffer, `&CorruptInputError{…}`)
= the model's `b32Encode` / `b32Decode`, for all inputs; `none` is a Go run-time panic. The destination and the source
have the same element type: the translation assumes they do not overlap, which the extractor checks at both call sites
(`dst := make(…)` in pkg/bech32/bech32.go). Proofs: `Iota/Tie/Base32Code.lean`. -/
open Iota.Tie.Bech32Code (bv) in
open Iota.Tie.Base32Code in
open Iota.Bech32 in
theorem code_base32_encode (dst : List (BitVec 8)) (src : List UInt8) (hlen : src.length < 2 ^ 63) :
    Gen.Bech32.base32.Encode dst (bv src) =
      if encodedLen src.length ≤ dst.length then
        some (Gen.Bech32.base32.EncodedLen (BitVec.ofNat 64 src.length),
          bv (b32Encode src) ++ dst.drop (encodedLen src.length))
      else none := encode_spec dst src hlen
open Iota.Tie.Bech32Code (bv) in
open Iota.Tie.Base32Code in
open Iota.Bech32 in
theorem code_base32_decode (dst : List (BitVec 8)) (src : List UInt8) (hlen : src.length < 2 ^ 63) :
    Gen.Bech32.base32.Decode dst (bv src) =
      if (decBytes src).length ≤ dst.length then
        some (BitVec.ofNat 64 (decBytes src).length, errOf (b32Decode src),
          bv (decBytes src) ++ dst.drop (decBytes src).length)
      else none := decode_spec dst src hlen
open Iota.Tie.Bech32Code (bv) in
open Iota.Tie.Base32Code in
open Iota.Bech32 in
/-- **no panic with the buffers `bech32.Encode` / `bech32.Decode` allocate** (EncodedLen + 6 resp. DecodedLen bytes) -/
theorem code_base32_no_panic_at_call_sites (dst : List (BitVec 8)) (src : List UInt8) :
    (src.length < 2 ^ 60 →
      dst.length = (Gen.Bech32.base32.EncodedLen (BitVec.ofNat 64 src.length) + 6#64).toNat →
      Gen.Bech32.base32.Encode dst (bv src) ≠ none) ∧
    (src.length * 5 < 2 ^ 63 →
      dst.length = (Gen.Bech32.base32.DecodedLen (BitVec.ofNat 64 src.length)).toNat →
      Gen.Bech32.base32.Decode dst (bv src) ≠ none) :=
  ⟨fun h1 h2 => (by rw [(encode_caller dst src h1 h2).1]; exact fun h => nomatch h),
   fun h1 h2 => decode_caller dst src h1 h2⟩

/-! ### chars.go translated AS CODE = the model (proofs: `Iota/Tie/Bech32CharsCode.lean`)
`newEncoding` is a constructor: its translation returns the two fields (`enc`, `decMap`) of the struct it builds. -/
open Iota.Tie.Bech32Code (bv) in
open Iota.Tie.Bech32CharsCode in
/-- the package variable `charset = newEncoding("qpzry9x8gf2tvdw0s3jn54khce6mua7l")` holds the model's tables; `newEncoding`
panics exactly for alphabets that are not 32 bytes long -/
theorem code_newEncoding :
    Gen.Bech32.chars.newEncoding srcCharset = some (encTable, decTable) ∧
    (∀ cs : List (BitVec 8), cs.length < 2 ^ 63 → (Gen.Bech32.chars.newEncoding cs = none ↔ cs.length ≠ 32)) :=
  ⟨newEncoding_charset, newEncoding_none_iff⟩
open Iota.Tie.Bech32Code (bv) in
open Iota.Tie.Bech32CharsCode in
/-- `charset.encode`: the model's `charsetEncode` on 5-bit symbols; an index-out-of-range panic for a symbol ≥ 32 -/
theorem code_charsetEncode (src : List UInt8) (hlen : src.length < 2 ^ 63) :
    Gen.Bech32.chars.encoding_encode encTable (bv src) =
      if src.all (fun s => decide (s.toNat < 32)) then some (bv (Bech32.charsetEncode src)) else none :=
  encode_eq src hlen
open Iota.Tie.Bech32Code (bv) in
open Iota.Tie.Bech32CharsCode in
/-- `charset.decode` on ALL byte strings (non-ASCII and invalid UTF-8 included; Go ranges over the rune starts): never
panics; the model's `charsetDecode`, the error case returning the symbols decoded before the bad character -/
theorem code_charsetDecode (s : List UInt8) (hlen : s.length < 2 ^ 63) :
    Gen.Bech32.chars.encoding_decode decTable (bv s) =
      match Bech32.charsetDecode s with
      | .ok ds => some (bv ds, none)
      | .error n => some (bv ((s.take n).map Bech32.decMap), some "ErrInvalidCharacter") :=
  decode_eq s hlen

/-! ### bech32.go itself translated AS CODE = the model, for all byte strings (proofs: `Iota/Tie/Bech32ApiCode.lean`)
`Gen.Bech32.api.Encode` / `Decode` take as PARAMETERS what the translation does not define: `strings.ToLower`, `ToUpper`,
`LastIndex` and the two tables of the package variable `charset`.  `Externs` states exactly what is assumed about the
library functions (ASCII case mapping on ASCII strings; last occurrence of a byte); the tables are instantiated by what
the generated `newEncoding` returns (`code_newEncoding`). -/
open Iota.Tie.Bech32Code (bv) in
open Iota.Tie.Bech32CharsCode (encTable decTable) in
open Iota.Tie.Bech32ApiCode in
/-- the assumptions about the Go library are satisfiable -/
theorem code_externs_satisfiable : Nonempty Externs := externs_satisfiable
open Iota.Tie.Bech32Code (bv) in
open Iota.Tie.Bech32CharsCode (encTable decTable) in
open Iota.Tie.Bech32ApiCode in
/-- **`Decode`, every byte string** (ASCII or not, valid UTF-8 or not): the regenerated code returns what the model returns
— human-readable part, data, or the error kind with its offset — and in particular NEVER PANICS -/
theorem code_decode (E : Externs) (s : List UInt8) (hlen : s.length < 2 ^ 63) :
    (Gen.Bech32.api.Decode decTable E.lastIndex E.toLower E.toUpper (bv s) =
      some (match Bech32.decode s with
        | .ok (hrp, d) => (bv hrp, bv d, none)
        | .error e => ([], [], encErr e))) ∧
    Gen.Bech32.api.Decode decTable E.lastIndex E.toLower E.toUpper (bv s) ≠ none :=
  ⟨Decode_eq E s hlen, decode_never_panics E s hlen⟩
open Iota.Tie.Bech32Code (bv) in
open Iota.Tie.Bech32CharsCode (encTable decTable) in
open Iota.Tie.Bech32ApiCode in
/-- **`Encode`**, every prefix shorter than 2^62 and every payload shorter than 2^60 bytes (at exactly 2^60 `EncodedLen` wraps
around and `make` panics — `encode_panics_at_2_60`): the model's result, and no panic -/
theorem code_encode (E : Externs) (hrp src : List UInt8) (hh : hrp.length < 2 ^ 62) (hs : src.length < 2 ^ 60) :
    (Gen.Bech32.api.Encode encTable E.toLower E.toUpper (bv hrp) (bv src) =
      some (match Bech32.encode hrp src with
        | .ok r => (bv r, none)
        | .error e => ([], encErr e))) ∧
    Gen.Bech32.api.Encode encTable E.toLower E.toUpper (bv hrp) (bv src) ≠ none :=
  ⟨Encode_eq' E hrp src hh hs, by rw [Encode_eq' E hrp src hh hs]; exact Option.some_ne_none _⟩

end Iota.Tie.Bech32
