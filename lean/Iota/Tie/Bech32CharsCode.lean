/-
Code tie for pkg/bech32/chars.go: the constructor `newEncoding` and the methods `encoding.encode`,
`encoding.decode`, translated AS CODE (loops, run-time panics, `for i := range string` over the rune starts of Go's
UTF-8 decoder) by cmd/extract into `Iota/Gen/Bech32.lean` (`namespace chars`), against the hand-written model
`Iota/Model/Bech32.lean` (`charset`, `decMap`, `charsetEncode`, `charsetDecode`).

* `newEncoding_charset`: on the charset literal of the source, `newEncoding` returns the tables of the model
  (`encTable`, `decTable`); `newEncoding_length32` gives its result for EVERY alphabet of 32 bytes and
  `newEncoding_none_iff` says that it panics exactly on the other lengths.
* `encode_eq`: `encode` is `charsetEncode` when all symbols are `< 32` and panics (index out of range) otherwise.
* `decode_eq`: for ALL byte strings (ASCII or not, valid UTF-8 or not) `decode` never panics and is `charsetDecode`;
  on error the returned slice holds the decoded symbols of the characters before the bad one.  Although Go ranges
  over the rune starts of the string and not over its bytes, this makes no difference here: every byte `≥ 0x80` has
  `decMap = 0xFF` (`decMap_high`), ASCII bytes are runes of width 1 (`runeWidth_ascii`), and the offset following a
  run of ASCII bytes is a rune start whatever byte is there; so the loop visits the offsets `0, 1, 2, …` one by one
  up to and including the first byte that is not in the charset, where it returns.

Coercion: `bv : List UInt8 → List (BitVec 8)` of `Iota.Tie.Bech32Code` (a bijection).  Core Lean only.
-/
import Iota.Gen.Bech32
import Iota.Model.Bech32
import Iota.Tie.GoFlow
import Iota.Tie.Bech32Code

namespace Iota.Tie.Bech32CharsCode
open Iota Iota.Go Iota.Tie.Bech32Code
open Iota.Gen.Bech32 (chars.newEncoding chars.encoding_encode chars.encoding_decode)

/-! ### the tables of the model, as the fields of the Go `encoding` struct -/

/-- the field `enc [32]byte` -/
def encTable : List (BitVec 8) := bv Bech32.charset
/-- the field `decMap [256]uint8` -/
def decTable : List (BitVec 8) := (List.range 256).map (fun c => (Bech32.decMap (UInt8.ofNat c)).toBitVec)
/-- the bytes of the string literal in `var charset = newEncoding("qpzry9x8gf2tvdw0s3jn54khce6mua7l")` -/
def srcCharset : List (BitVec 8) := Gen.Bech32.charset.map (BitVec.ofNat 8)

/-! ### small facts: 64-bit lengths, lists, loops -/

theorem toNat_ofNat_lt (a : Nat) (ha : a < 2 ^ 64) : (BitVec.ofNat 64 a).toNat = a := by
  rw [BitVec.toNat_ofNat]; exact Nat.mod_eq_of_lt ha

theorem msb_ofNat_small (a : Nat) (ha : a < 2 ^ 63) : (BitVec.ofNat 64 a).msb = false := by
  rw [BitVec.msb_eq_false_iff_two_mul_lt, BitVec.toNat_ofNat]; omega

theorem inRangeS_ofNat (m n : Nat) (hm : m < n) (hn : n ≤ 2 ^ 63) : inRangeS (BitVec.ofNat 64 m) n = true := by
  simp [inRangeS, msb_ofNat_small m (by omega), toNat_ofNat_lt m (by omega), hm]

theorem inRangeU8_256 (x : BitVec 8) : inRangeU8 x 256 = true := by
  simpa [inRangeU8] using x.isLt

theorem bv_cons (a : UInt8) (l : List UInt8) : bv (a :: l) = a.toBitVec :: bv l := rfl
theorem bv_nil : bv [] = [] := rfl
theorem bv_length (l : List UInt8) : (bv l).length = l.length := by simp [bv]

theorem getD_map {α β : Type} (f : α → β) (l : List α) (i : Nat) (d : α) :
    (l.map f).getD i (f d) = f (l.getD i d) := by
  simp only [List.getD_eq_getElem?_getD, List.getElem?_map]
  cases l[i]? <;> rfl

theorem getD_append_length {α : Type} (pre l : List α) (a d : α) : (pre ++ a :: l).getD pre.length d = a := by
  simp [List.getD_eq_getElem?_getD]

theorem foldl_congr {α β : Type} (l : List α) (f g : β → α → β) (b : β) (h : ∀ b, ∀ a ∈ l, f b a = g b a) :
    l.foldl f b = l.foldl g b := by
  induction l generalizing b with
  | nil => rfl
  | cons a l ih =>
    rw [List.foldl_cons, List.foldl_cons, h b a (List.mem_cons_self ..)]
    exact ih _ (fun b c hc => h b c (List.mem_cons_of_mem _ hc))

/-- a loop over the indices `0 … len(l)-1` whose body uses the index only to read `l[i]` is the loop over the elements -/
theorem forIn_range'_getD {α ρ σ : Type} (d : α) (f : σ → α → Flow ρ σ) (l : List α) :
    ∀ (pre : List α) (s : σ), (pre ++ l).length < 2 ^ 64 →
      forIn ((List.range' pre.length l.length).map (BitVec.ofNat 64)) s
        (fun s i => f s ((pre ++ l).getD i.toNat d)) = forIn l s f := by
  induction l with
  | nil => intro pre s _; rfl
  | cons a l ih =>
    intro pre s hlen
    have hpre : pre.length < 2 ^ 64 := by simp at hlen; omega
    rw [List.length_cons, List.range'_succ, List.map_cons, forIn_cons, forIn_cons]
    simp only [toNat_ofNat_lt pre.length hpre, getD_append_length]
    congr 1
    funext s'
    have := ih (pre ++ [a]) s' (by simpa using hlen)
    rw [← List.append_cons, List.length_append, List.length_singleton] at this
    exact this

theorem forIn_range_getD {α ρ σ : Type} (d : α) (f : σ → α → Flow ρ σ) (l : List α) (s : σ) (hl : l.length < 2 ^ 64) :
    forIn ((List.range l.length).map (BitVec.ofNat 64)) s (fun s i => f s (l.getD i.toNat d)) = forIn l s f := by
  have := forIn_range'_getD d f l [] s (by simpa using hl)
  rw [List.range_eq_range']
  simpa using this

/-! ### `newEncoding` -/

/-- on the alphabet of the source `newEncoding` builds the tables of the model (evaluated by the kernel) -/
theorem newEncoding_charset : chars.newEncoding srcCharset = some (encTable, decTable) := by
  decide +kernel

abbrev NR := List (BitVec 8) × List (BitVec 8)

/-- the body of `for i := 0; i < len(e.decMap); i++ { e.decMap[i] = 0xFF }`, as generated -/
def fillBody (e_decMap : List (BitVec 8)) (i : BitVec 64) : Flow NR (List (BitVec 8)) :=
  if !(Go.inRangeS i 256) then Go.Flow.panic else
  let e_decMap : List (BitVec 8) := (e_decMap.set i.toNat 255#8)
  Go.Flow.run e_decMap

/-- the body of `for i := 0; i < len(charset); i++ { e.decMap[charset[i]] = uint8(i) }`, as generated -/
def mapBody (charset : List (BitVec 8)) (e_decMap : List (BitVec 8)) (i : BitVec 64) : Flow NR (List (BitVec 8)) :=
  if !(Go.inRangeS i charset.length) then Go.Flow.panic else
  if !(Go.inRangeU8 (charset.getD i.toNat 0#8) 256) then Go.Flow.panic else
  let e_decMap : List (BitVec 8) := (e_decMap.set (charset.getD i.toNat 0#8).toNat (BitVec.setWidth 8 i))
  Go.Flow.run e_decMap

theorem newEncoding_unfold (charset : List (BitVec 8)) :
    chars.newEncoding charset = Flow.result (
      if ((BitVec.ofNat 64 charset.length) != 32#64) then Flow.panic else
      Flow.bind (forIn (forUp true false 0#64 256#64 1) (List.replicate 256 0#8) fillBody) (fun e_decMap =>
      Flow.bind (forIn (forUp true false 0#64 (BitVec.ofNat 64 charset.length) 1) e_decMap (mapBody charset))
        (fun e_decMap => Flow.done (Go.copy (List.replicate 32 0#8) charset, e_decMap)))) := rfl

theorem forUp_256 : forUp true false 0#64 256#64 1 = (List.range 256).map (BitVec.ofNat 64) := by decide +kernel
theorem forUp_32 : forUp true false 0#64 32#64 1 = (List.range 32).map (BitVec.ofNat 64) := by decide +kernel

theorem fillBody_eq (m : List (BitVec 8)) (i : BitVec 64) (hi : i ∈ (List.range 256).map (BitVec.ofNat 64)) :
    fillBody m i = .run (m.set i.toNat 255#8) := by
  obtain ⟨k, hk, rfl⟩ := List.mem_map.mp hi
  have hk : k < 256 := List.mem_range.mp hk
  simp [fillBody, inRangeS_ofNat k 256 hk (by omega)]

theorem fill_fold :
    List.foldl (fun (m : List (BitVec 8)) (i : BitVec 64) => m.set i.toNat 255#8) (List.replicate 256 0#8)
      ((List.range 256).map (BitVec.ofNat 64)) = List.replicate 256 255#8 := by decide +kernel

/-- the first loop sets all 256 entries to 0xFF -/
theorem fill_loop :
    forIn (forUp true false 0#64 256#64 1) (List.replicate 256 0#8) fillBody
      = (.run (List.replicate 256 255#8) : Flow NR _) := by
  rw [forUp_256, forIn_eq_foldl _ _ _ (fun m i => m.set i.toNat 255#8) (fun m i hi => fillBody_eq m i hi),
    fill_fold]

theorem mapBody_eq (cs : List (BitVec 8)) (hcs : cs.length = 32) (m : List (BitVec 8)) (i : BitVec 64)
    (hi : i ∈ (List.range 32).map (BitVec.ofNat 64)) :
    mapBody cs m i = .run (m.set (cs.getD i.toNat 0#8).toNat (BitVec.setWidth 8 i)) := by
  obtain ⟨k, hk, rfl⟩ := List.mem_map.mp hi
  have hk : k < 32 := List.mem_range.mp hk
  simp [mapBody, hcs, inRangeS_ofNat k 32 hk (by omega), inRangeU8_256]

theorem setWidth_ofNat (k : Nat) : BitVec.setWidth 8 (BitVec.ofNat 64 k) = BitVec.ofNat 8 k := by
  apply BitVec.eq_of_toNat_eq
  simp only [BitVec.toNat_setWidth, BitVec.toNat_ofNat]
  omega

/-- `decMap` as built by `newEncoding` from an alphabet `cs`: 0xFF everywhere, then `decMap[cs[i]] = i` for
`i = 0 … 31` in this order (a later occurrence of a repeated character wins) -/
def decMapOf (cs : List (BitVec 8)) : List (BitVec 8) :=
  (List.range 32).foldl (fun m i => m.set (cs.getD i 0#8).toNat (BitVec.ofNat 8 i)) (List.replicate 256 255#8)

/-- **`newEncoding` on any alphabet of 32 bytes**: no panic; `enc` is the alphabet, `decMap` is `decMapOf` -/
theorem newEncoding_length32 (cs : List (BitVec 8)) (hcs : cs.length = 32) :
    chars.newEncoding cs = some (cs, decMapOf cs) := by
  have hcopy : Go.copy (List.replicate 32 0#8) cs = cs := by
    simp [Go.copy, ← hcs]
  rw [newEncoding_unfold, hcopy, fill_loop, hcs]
  rw [show (BitVec.ofNat 64 32 != 32#64) = false from rfl]
  simp only [Bool.false_eq_true, if_false, Flow.bind_run]
  rw [show BitVec.ofNat 64 32 = 32#64 from rfl, forUp_32,
    forIn_eq_foldl _ _ _ (fun m i => m.set (cs.getD i.toNat 0#8).toNat (BitVec.setWidth 8 i))
      (fun m i hi => mapBody_eq cs hcs m i hi)]
  simp only [Flow.bind_run, Flow.result_done, List.foldl_map]
  refine congrArg (fun t => some (cs, t)) (foldl_congr _ _ _ _ ?_)
  intro m k hk
  have hk : k < 32 := List.mem_range.mp hk
  rw [toNat_ofNat_lt k (by omega), setWidth_ofNat]

/-- **`newEncoding` panics exactly when the alphabet is not 32 bytes long** -/
theorem newEncoding_none_iff (cs : List (BitVec 8)) (hlen : cs.length < 2 ^ 63) :
    chars.newEncoding cs = none ↔ cs.length ≠ 32 := by
  constructor
  · intro h h32
    rw [newEncoding_length32 cs h32] at h
    exact Option.some_ne_none _ h
  · intro h
    have hne : (BitVec.ofNat 64 cs.length != 32#64) = true := by
      rw [bne_iff_ne]
      intro he
      have := congrArg BitVec.toNat he
      rw [toNat_ofNat_lt _ (by omega)] at this
      exact h this
    rw [newEncoding_unfold, if_pos hne]
    rfl

/-- the tables of the model are what `newEncoding` builds, also in the form of `newEncoding_length32` -/
theorem decMapOf_charset : decMapOf srcCharset = decTable := by decide +kernel
theorem srcCharset_eq : srcCharset = encTable := by decide +kernel

/-! ### `encoding.encode` -/

/-- the loop body `dst.WriteByte(e.enc[src[i]])`, as generated -/
def encBody (e_enc src dst : List (BitVec 8)) (i : BitVec 64) : Flow (List (BitVec 8)) (List (BitVec 8)) :=
  if !(Go.inRangeU8 (src.getD i.toNat 0#8) 32) then Go.Flow.panic else
  let dst : List (BitVec 8) := (dst ++ [(e_enc.getD (src.getD i.toNat 0#8).toNat 0#8)])
  Go.Flow.run dst

/-- the same on the element `x = src[i]` -/
def encStep (e_enc dst : List (BitVec 8)) (x : BitVec 8) : Flow (List (BitVec 8)) (List (BitVec 8)) :=
  if !(Go.inRangeU8 x 32) then Go.Flow.panic else Go.Flow.run (dst ++ [e_enc.getD x.toNat 0#8])

theorem encode_unfold (e_enc src : List (BitVec 8)) :
    chars.encoding_encode e_enc src = Flow.result (
      if !(Go.nonneg (BitVec.ofNat 64 src.length)) then Flow.panic else
      Flow.bind (forIn ((List.range src.length).map (BitVec.ofNat 64)) [] (encBody e_enc src))
        (fun dst => Flow.done dst)) := rfl

theorem enc_loop (e_enc : List (BitVec 8)) (src : List (BitVec 8)) : ∀ dst : List (BitVec 8),
    forIn src dst (encStep e_enc) =
      if src.all (fun x => decide (x.toNat < 32)) then .run (dst ++ src.map (fun x => e_enc.getD x.toNat 0#8))
      else .panic := by
  induction src with
  | nil => intro dst; simp
  | cons a l ih =>
    intro dst
    rw [forIn_cons]
    by_cases h : a.toNat < 32
    · simp [encStep, inRangeU8, h, ih]
    · simp [encStep, inRangeU8, h]

/-- `encode` for an arbitrary table `e_enc` and arbitrary bytes -/
theorem encode_gen (e_enc src : List (BitVec 8)) (hlen : src.length < 2 ^ 63) :
    chars.encoding_encode e_enc src =
      if src.all (fun x => decide (x.toNat < 32)) then some (src.map (fun x => e_enc.getD x.toNat 0#8)) else none := by
  rw [encode_unfold]
  have hnn : Go.nonneg (BitVec.ofNat 64 src.length) = true := by
    simp [Go.nonneg, msb_ofNat_small _ hlen]
  rw [hnn]
  simp only [Bool.not_true, Bool.false_eq_true, if_false]
  rw [show encBody e_enc src = (fun s i => encStep e_enc s (src.getD i.toNat 0#8)) from rfl,
    forIn_range_getD 0#8 (encStep e_enc) src [] (by omega), enc_loop]
  split <;> simp

theorem encTable_getD (s : UInt8) : encTable.getD s.toBitVec.toNat 0#8 = (Bech32.charset.getD s.toNat 0).toBitVec := by
  rw [UInt8.toNat_toBitVec]
  exact getD_map UInt8.toBitVec Bech32.charset s.toNat 0

/-- **`encode` is `charsetEncode` on symbols `< 32` and panics (index out of range) on any symbol `≥ 32`** -/
theorem encode_eq (src : List UInt8) (hlen : src.length < 2 ^ 63) :
    chars.encoding_encode encTable (bv src) =
      if src.all (fun s => decide (s.toNat < 32)) then some (bv (Bech32.charsetEncode src)) else none := by
  rw [encode_gen _ _ (by rw [bv_length]; exact hlen)]
  have hall : (bv src).all (fun x => decide (x.toNat < 32)) = src.all (fun s => decide (s.toNat < 32)) := by
    simp only [bv, List.all_map]; rfl
  rw [hall]
  congr 2
  simp only [bv, Bech32.charsetEncode, List.map_map]
  apply List.map_congr_left
  intro s _
  exact encTable_getD s

theorem encode_ok (src : List UInt8) (hlen : src.length < 2 ^ 63) (h : ∀ s ∈ src, s.toNat < 32) :
    chars.encoding_encode encTable (bv src) = some (bv (Bech32.charsetEncode src)) := by
  rw [encode_eq src hlen, if_pos]
  simpa using h

theorem encode_panic (src : List UInt8) (hlen : src.length < 2 ^ 63) (h : ∃ s ∈ src, 32 ≤ s.toNat) :
    chars.encoding_encode encTable (bv src) = none := by
  rw [encode_eq src hlen, if_neg]
  obtain ⟨s, hs, h32⟩ := h
  intro hall
  have := List.all_eq_true.mp hall s hs
  simp at this
  omega

/-! ### `for i := range src`: the rune starts of a string that begins with ASCII bytes -/

/-- an ASCII byte is a rune of width 1 -/
theorem runeWidth_ascii (c : BitVec 8) (rest : List (BitVec 8)) (hc : c.toNat < 0x80) : runeWidth (c :: rest) = 1 := by
  have : c.toNat < 0xC2 := by omega
  simp [runeWidth, this]

/-- the loop variable takes the current offset (whatever byte is there) and, if that byte is ASCII, goes on one
byte further -/
theorem runeStartsFrom_cons (fuel off : Nat) (c : BitVec 8) (rest : List (BitVec 8)) :
    runeStartsFrom (fuel + 1) off (c :: rest) =
      BitVec.ofNat 64 off :: runeStartsFrom fuel (off + runeWidth (c :: rest)) ((c :: rest).drop (runeWidth (c :: rest))) :=
  rfl

theorem runeStartsFrom_ascii (fuel off : Nat) (c : BitVec 8) (rest : List (BitVec 8)) (hc : c.toNat < 0x80) :
    runeStartsFrom (fuel + 1) off (c :: rest) = BitVec.ofNat 64 off :: runeStartsFrom fuel (off + 1) rest := by
  rw [runeStartsFrom_cons, runeWidth_ascii c rest hc]; rfl

theorem runeStartsFrom_nil (fuel off : Nat) : runeStartsFrom fuel off [] = [] := by
  cases fuel <;> rfl

/-- if the first `k` bytes are ASCII and there is a further byte, `for i := range s` starts with `i = 0, 1, …, k` -/
theorem runeStartsFrom_ascii_prefix (pre : List (BitVec 8)) (hpre : ∀ b ∈ pre, b.toNat < 0x80) :
    ∀ (fuel off : Nat) (c : BitVec 8) (rest : List (BitVec 8)), pre.length < fuel →
      ∃ tail, runeStartsFrom fuel off (pre ++ c :: rest) =
        (List.range' off (pre.length + 1)).map (BitVec.ofNat 64) ++ tail := by
  induction pre with
  | nil =>
    intro fuel off c rest hf
    obtain ⟨fuel, rfl⟩ : ∃ f, fuel = f + 1 := ⟨fuel - 1, by simp at hf; omega⟩
    exact ⟨_, by rw [List.nil_append, runeStartsFrom_cons]; rfl⟩
  | cons a pre ih =>
    intro fuel off c rest hf
    obtain ⟨fuel, rfl⟩ : ∃ f, fuel = f + 1 := ⟨fuel - 1, by simp at hf; omega⟩
    obtain ⟨tail, ht⟩ := ih (fun b hb => hpre b (List.mem_cons_of_mem _ hb)) fuel (off + 1) c rest
      (by simp at hf; omega)
    refine ⟨tail, ?_⟩
    rw [List.cons_append, runeStartsFrom_ascii _ _ _ _ (hpre a (List.mem_cons_self ..)), ht,
      List.length_cons, List.range'_succ (n := pre.length + 1)]
    rfl

theorem runeStarts_ascii_prefix (pre : List (BitVec 8)) (c : BitVec 8) (rest : List (BitVec 8))
    (hpre : ∀ b ∈ pre, b.toNat < 0x80) :
    ∃ tail, runeStarts (pre ++ c :: rest) = (List.range (pre.length + 1)).map (BitVec.ofNat 64) ++ tail := by
  rw [List.range_eq_range']
  exact runeStartsFrom_ascii_prefix pre hpre _ 0 c rest (by simp)

/-- on an ASCII string `for i := range s` is `for i := 0; i < len(s); i++` -/
theorem runeStartsFrom_all_ascii (s : List (BitVec 8)) (hs : ∀ b ∈ s, b.toNat < 0x80) :
    ∀ (fuel off : Nat), s.length ≤ fuel →
      runeStartsFrom fuel off s = (List.range' off s.length).map (BitVec.ofNat 64) := by
  induction s with
  | nil => intro fuel off _; rw [runeStartsFrom_nil]; rfl
  | cons a s ih =>
    intro fuel off hf
    obtain ⟨fuel, rfl⟩ : ∃ f, fuel = f + 1 := ⟨fuel - 1, by simp at hf; omega⟩
    rw [runeStartsFrom_ascii _ _ _ _ (hs a (List.mem_cons_self ..)),
      ih (fun b hb => hs b (List.mem_cons_of_mem _ hb)) fuel (off + 1) (by simpa using hf),
      List.length_cons, List.range'_succ]
    rfl

theorem runeStarts_all_ascii (s : List (BitVec 8)) (hs : ∀ b ∈ s, b.toNat < 0x80) :
    runeStarts s = (List.range s.length).map (BitVec.ofNat 64) := by
  rw [List.range_eq_range']
  exact runeStartsFrom_all_ascii s hs _ 0 (Nat.le_refl _)

/-! ### `encoding.decode` -/

abbrev DR := List (BitVec 8) × Option String

/-- the loop body of `decode`, as generated -/
def decBody (e_decMap src dst : List (BitVec 8)) (i : BitVec 64) : Flow DR (List (BitVec 8)) :=
  if !(Go.inRangeU8 (src.getD i.toNat 0#8) 256) then Go.Flow.panic else
  let d : BitVec 8 := (e_decMap.getD (src.getD i.toNat 0#8).toNat 0#8)
  if (d == 255#8) then
    if !(Go.sliceOK 0#64 i dst.length) then Go.Flow.panic else
    Go.Flow.done ((dst.take i.toNat), (some "ErrInvalidCharacter"))
  else
  if !(Go.inRangeS i dst.length) then Go.Flow.panic else
  if !(Go.inRangeU8 (src.getD i.toNat 0#8) 256) then Go.Flow.panic else
  let dst : List (BitVec 8) := (dst.set i.toNat (e_decMap.getD (src.getD i.toNat 0#8).toNat 0#8))
  Go.Flow.run dst

theorem decode_unfold (e_decMap src : List (BitVec 8)) :
    chars.encoding_decode e_decMap src = Flow.result (
      if !(Go.nonneg (BitVec.ofNat 64 src.length)) then Flow.panic else
      Flow.bind (forIn (runeStarts src) (List.replicate (BitVec.ofNat 64 src.length).toNat 0#8) (decBody e_decMap src))
        (fun dst => Flow.done (dst, (none : Option String)))) := rfl

/-- the table lookup `e.decMap[c]` is the `decMap` of the model -/
theorem decTable_getD (c : UInt8) : decTable.getD c.toBitVec.toNat 0#8 = (Bech32.decMap c).toBitVec := by
  have hc : c.toNat < 256 := c.toBitVec.isLt
  rw [UInt8.toNat_toBitVec, decTable, List.getD_eq_getElem?_getD, List.getElem?_map,
    List.getElem?_range hc, Option.map_some, Option.getD_some, UInt8.ofNat_toNat]

/-- every byte that is not ASCII is rejected by `decMap` -/
theorem decMap_high_nat : ∀ n : Nat, n < 256 → 128 ≤ n → Bech32.decMap (UInt8.ofNat n) = 0xFF := by decide +kernel

theorem decMap_high (c : UInt8) (hc : 128 ≤ c.toNat) : Bech32.decMap c = 0xFF := by
  have := decMap_high_nat c.toNat c.toBitVec.isLt hc
  rwa [UInt8.ofNat_toNat] at this

theorem ascii_of_decMap {c : UInt8} (h : Bech32.decMap c ≠ 0xFF) : c.toBitVec.toNat < 0x80 := by
  rw [UInt8.toNat_toBitVec]
  exact Nat.lt_of_not_le (fun hc => h (decMap_high c hc))

theorem toBitVec_beq_255 (x : UInt8) : (x.toBitVec == 255#8) = decide (x = 0xFF) := by
  by_cases h : x = 0xFF
  · subst h; rfl
  · rw [decide_eq_false h]
    exact beq_eq_false_iff_ne.mpr (fun he => h (UInt8.toBitVec_inj.mp he))

/-- one iteration at offset `len(pre)`, where the byte `c` is: with the symbols decoded so far in `done`, it returns
them if `c` is not in the charset and stores `decMap[c]` otherwise.  No panic. -/
theorem decBody_at (pre : List UInt8) (c : UInt8) (cs : List UInt8) (done : List (BitVec 8)) (z : BitVec 8)
    (zs : List (BitVec 8)) (hd : done.length = pre.length) (hlen : pre.length < 2 ^ 63) :
    decBody decTable (bv (pre ++ c :: cs)) (done ++ z :: zs) (BitVec.ofNat 64 pre.length) =
      if Bech32.decMap c = 0xFF then .done (done, some "ErrInvalidCharacter")
      else .run (done ++ (Bech32.decMap c).toBitVec :: zs) := by
  have hget : (bv (pre ++ c :: cs)).getD pre.length 0#8 = c.toBitVec := by
    have := getD_append_length (bv pre) (bv cs) c.toBitVec 0#8
    rwa [bv_length, ← bv_cons, ← bv_append] at this
  have hslice : sliceOK 0#64 (BitVec.ofNat 64 pre.length) (done ++ z :: zs).length = true := by
    simp [sliceOK, msb_ofNat_small _ hlen, toNat_ofNat_lt _ (show pre.length < 2 ^ 64 by omega), hd]
  have hin : inRangeS (BitVec.ofNat 64 pre.length) (done ++ z :: zs).length = true := by
    simp [inRangeS, msb_ofNat_small _ hlen, toNat_ofNat_lt _ (show pre.length < 2 ^ 64 by omega), hd]
  have htake : (done ++ z :: zs).take pre.length = done := List.take_left' hd
  have hset : ∀ v, (done ++ z :: zs).set pre.length v = done ++ v :: zs := by
    intro v
    rw [List.set_append_right _ _ (by omega), hd, Nat.sub_self]; rfl
  unfold decBody
  simp only [toNat_ofNat_lt _ (show pre.length < 2 ^ 64 by omega), hget, inRangeU8_256, decTable_getD,
    toBitVec_beq_255, hslice, hin, htake, hset, Bool.not_true, Bool.false_eq_true, if_false, decide_eq_true_eq]

/-- the loop of `decode` from offset `len(pre)` on: `src = pre ++ p`, `done` holds the symbols of `pre`, `zs` is the
rest of `dst` -/
theorem dec_loop (src : List UInt8) (hs : src.length < 2 ^ 63) : ∀ (p pre : List UInt8) (done zs : List (BitVec 8))
    (fuel : Nat), src = pre ++ p → done.length = pre.length → zs.length = p.length → p.length ≤ fuel →
    forIn (runeStartsFrom fuel pre.length (bv p)) (done ++ zs) (decBody decTable (bv src)) =
      match Bech32.charsetDecode p with
      | .ok ds => .run (done ++ bv ds)
      | .error n => .done (done ++ bv ((p.take n).map Bech32.decMap), some "ErrInvalidCharacter") := by
  intro p
  induction p with
  | nil =>
    intro pre done zs fuel _ _ hz _
    have : zs = [] := List.eq_nil_of_length_eq_zero hz
    subst this
    rw [bv_nil, runeStartsFrom_nil]
    rfl
  | cons c cs ih =>
    intro pre done zs fuel hsrc hd hz hf
    obtain ⟨fuel, rfl⟩ : ∃ f, fuel = f + 1 := ⟨fuel - 1, by simp at hf; omega⟩
    obtain ⟨z, zs, rfl⟩ : ∃ z zs', zs = z :: zs' := by
      cases zs with
      | nil => simp at hz
      | cons z zs => exact ⟨z, zs, rfl⟩
    have hpl : pre.length < 2 ^ 63 := by rw [hsrc] at hs; simp at hs; omega
    rw [bv_cons, runeStartsFrom_cons, forIn_cons, hsrc, decBody_at pre c cs done z zs hd hpl]
    by_cases hc : Bech32.decMap c = 0xFF
    · simp [Bech32.charsetDecode, hc, bv_nil]
    · have hw := runeWidth_ascii c.toBitVec (bv cs) (ascii_of_decMap hc)
      rw [if_neg hc, Flow.bind_run, hw]
      have := ih (pre ++ [c]) (done ++ [(Bech32.decMap c).toBitVec]) zs fuel (by simp [hsrc])
        (by simp [hd]) (by simpa using hz) (by simpa using hf)
      simp only [List.length_append, List.length_singleton, List.append_assoc, List.singleton_append] at this
      rw [← hsrc, List.drop_one, List.tail_cons, this]
      simp only [Bech32.charsetDecode, if_neg hc]
      cases Bech32.charsetDecode cs with
      | ok ds => simp [bv_cons]
      | error n => simp [bv_cons]

/-- **`decode` is `charsetDecode` for all byte strings, and never panics**; on error the returned slice `dst[:i]`
holds the decoded symbols of the characters before the bad one -/
theorem decode_eq (s : List UInt8) (hlen : s.length < 2 ^ 63) :
    chars.encoding_decode decTable (bv s) =
      match Bech32.charsetDecode s with
      | .ok ds => some (bv ds, none)
      | .error n => some (bv ((s.take n).map Bech32.decMap), some "ErrInvalidCharacter") := by
  have hnn : Go.nonneg (BitVec.ofNat 64 s.length) = true := by
    simp [Go.nonneg, msb_ofNat_small _ hlen]
  rw [decode_unfold, bv_length, hnn]
  simp only [Bool.not_true, Bool.false_eq_true, if_false]
  rw [toNat_ofNat_lt _ (show s.length < 2 ^ 64 by omega), runeStarts, bv_length]
  have := dec_loop s hlen s [] [] (List.replicate s.length 0#8) s.length rfl rfl (by simp) (Nat.le_refl _)
  rw [List.length_nil, List.nil_append] at this
  rw [this]
  cases Bech32.charsetDecode s <;> simp

theorem decode_no_panic (s : List UInt8) (hlen : s.length < 2 ^ 63) :
    chars.encoding_decode decTable (bv s) ≠ none := by
  rw [decode_eq s hlen]
  cases Bech32.charsetDecode s <;> simp

/-! ### what the model's `charsetDecode` returns -/

theorem charsetDecode_ok (s : List UInt8) : ∀ ds, Bech32.charsetDecode s = .ok ds →
    ds = s.map Bech32.decMap ∧ ∀ c ∈ s, Bech32.decMap c ≠ 0xFF := by
  induction s with
  | nil => intro ds h; simp [Bech32.charsetDecode] at h; simp [h]
  | cons c cs ih =>
    intro ds h
    by_cases hc : Bech32.decMap c = 0xFF
    · simp [Bech32.charsetDecode, hc] at h
    · simp only [Bech32.charsetDecode, if_neg hc] at h
      cases hr : Bech32.charsetDecode cs with
      | error n => simp [hr] at h
      | ok ds' =>
        simp only [hr, Except.ok.injEq] at h
        obtain ⟨h1, h2⟩ := ih ds' hr
        subst h
        exact ⟨by simp [h1], by simpa [hc] using h2⟩

/-- `.error n`: `n` is the offset of the first byte that is not in the charset -/
theorem charsetDecode_error (s : List UInt8) : ∀ n, Bech32.charsetDecode s = .error n →
    n < s.length ∧ Bech32.decMap (s.getD n 0) = 0xFF ∧ ∀ c ∈ s.take n, Bech32.decMap c ≠ 0xFF := by
  induction s with
  | nil => intro n h; simp [Bech32.charsetDecode] at h
  | cons c cs ih =>
    intro n h
    by_cases hc : Bech32.decMap c = 0xFF
    · simp only [Bech32.charsetDecode, if_pos hc, Except.error.injEq] at h
      subst h
      simp [hc]
    · simp only [Bech32.charsetDecode, if_neg hc] at h
      cases hr : Bech32.charsetDecode cs with
      | ok ds => simp [hr] at h
      | error m =>
        simp only [hr, Except.error.injEq] at h
        obtain ⟨h1, h2, h3⟩ := ih m hr
        subst h
        refine ⟨by simpa using h1, by simpa using h2, ?_⟩
        simpa [hc] using h3

/-- the slice returned with `ErrInvalidCharacter` has length `n`, which is what `bech32.Decode` uses (`len(data)`)
for the offset of its `SyntaxError` -/
theorem decode_error_length (s : List UInt8) (hlen : s.length < 2 ^ 63) (n : Nat)
    (h : Bech32.charsetDecode s = .error n) :
    ∃ dst, chars.encoding_decode decTable (bv s) = some (dst, some "ErrInvalidCharacter") ∧ dst.length = n := by
  refine ⟨bv ((s.take n).map Bech32.decMap), ?_, ?_⟩
  · rw [decode_eq s hlen, h]
  · have := (charsetDecode_error s n h).1
    simp [bv_length]; omega

end Iota.Tie.Bech32CharsCode
