/-
Tie of pkg/bech32/address/address.go AS CODE (translator stage 11): the definitions that cmd/extract regenerates from
address.go on every run (`Iota/Gen/AddressCode.lean`, namespace `address`: `ParsePrefix`, `Prefix_String`, `ParseBech32`,
`Bech32`, the three `…_Bytes` and `…_Version` methods and the dispatch functions `Address_Bytes` / `Address_Version` of the
closed interface `Address`) are proved equal to the hand-written model `Iota/Model/Address.lean` (`parsePrefix`,
`parseBech32`, `bech32`, `Addr.bytes`, `Kind.version`) on which the C19 property theorems are stated.

What the statements say, in Go's words (a string / byte slice is the list of its bytes, `bv` maps the model's `UInt8` lists
onto the code's `BitVec 8` lists and is a bijection; `none` = the Go function panics):
* `code_parsePrefix`: for EVERY byte string `s`, `ParsePrefix(s)` returns `(Prefix(i), nil)` when `s` is the `i`-th network
  prefix and `(0, ErrInvalidPrefix)` otherwise — exactly the model's `parsePrefix`.
* `code_parseBech32`: for EVERY byte string `s` shorter than 2^63, `ParseBech32(s)` does not panic and returns exactly what
  the model's `parseBech32 s` returns: `(prefix index, address, nil)` with the address as (constructor index of its struct
  type, bytes of its hash array), or `(0, nil, err)` where `err` wraps — with the identity `errors.Is` / `errors.As` see —
  the error `bech32.Decode` returned (its variable qualified `bech32.…`, its `SyntaxError` offset kept), `ErrInvalidPrefix`,
  `ErrInvalidVersion` or `ErrInvalidLength`.  `code_parseBech32_never_panics(_bits)` is the corollary "ParseBech32 never
  panics", for every argument of the generated function.
* `code_bech32`: for the four `Prefix` constants and every address of the three kinds (`code_bech32_gen`: with a hash of any
  length below 2^60 - 1; `code_bech32`: of the right length), `Bech32(hrp, addr)` returns what the model's `bech32` returns.
  `code_bech32_panics`: for EVERY other `Prefix` value (negative ones included) it panics — `hrpStrings[p]`, index out of
  range — whatever the address; `code_bech32_nil`: it panics for a nil `Address` (with a valid prefix).
* `code_bytes` / `code_version`: `addr.Bytes()` is the version byte followed by the hash, `addr.Version()` the version byte,
  for each of the three struct types and through the interface.

ASSUMPTIONS: those of the translation (header of `Iota/Gen/AddressCode.lean`: 64-bit platform; the CLOSED-WORLD reading of
the interface `Address` — nil or a value of one of the package's three struct types, nothing is claimed for a foreign
implementation; message texts are not modelled) and, for `ParseBech32` / `Bech32`, the three assumptions about
`strings.ToLower` / `ToUpper` / `LastIndex` that `Iota.Tie.Bech32ApiCode.Externs` states (stage 6): the generated
`bech32.Decode` / `Encode` they call are tied there (`Decode_eq`, `Encode_eq'`), with `charset` = the tables `decTable` /
`encTable` the generated `newEncoding` returns (`Tie/Bech32CharsCode`).
-/
import Iota.Gen.AddressCode
import Iota.Model.Address
import Iota.Tie.Bech32ApiCode
import Iota.Proofs.Address

namespace Iota.Tie.AddressCode
open Iota Iota.Go Iota.Address
open Iota.Tie.Bech32Code (bv bv_ofBitVec)
open Iota.Tie.Bech32CharsCode (encTable decTable bv_cons bv_length)
open Iota.Tie.Bech32ApiCode (Externs encErr Decode_eq Encode_eq' bv_inj)
open Iota.Gen.AddressCode

/-! ### `ParsePrefix` -/

/-- `bv` is injective: comparing code strings is comparing model strings -/
theorem bv_beq (a b : List UInt8) : (bv a == bv b) = (a == b) := by
  by_cases h : a = b
  · subst h; simp
  · have : bv a ≠ bv b := fun e => h (bv_inj e)
    rw [beq_eq_false_iff_ne.mpr h, beq_eq_false_iff_ne.mpr this]

theorem var_hrpStrings_eq : address.var_hrpStrings = hrpStrings.map bv := by decide

/-- **`ParsePrefix`, all byte strings** -/
theorem code_parsePrefix (s : List UInt8) :
    address.ParsePrefix (bv s) =
      some (match parsePrefix s with
        | some p => (BitVec.ofNat 64 p, none)
        | none => (0#64, some "ErrInvalidPrefix")) := by
  unfold address.ParsePrefix
  rw [var_hrpStrings_eq]
  simp only [hrpStrings, List.map_cons, List.map_nil, List.length_cons, List.length_nil]
  simp only [List.range, List.range.loop, List.map_cons, List.map_nil, Go.forIn, Flow.bind, Flow.result]
  simp only [parsePrefix, hrpStrings]
  simp only [show (0#64).toNat = 0 from rfl, show (1#64).toNat = 1 from rfl, show (2#64).toNat = 2 from rfl,
    show (3#64).toNat = 3 from rfl, List.getD_cons_zero, List.getD_cons_succ, bv_beq]
  by_cases h0 : s = [105, 111, 116, 97]
  · subst h0; decide
  by_cases h1 : s = [97, 116, 111, 105]
  · subst h1; decide
  by_cases h2 : s = [115, 109, 114]
  · subst h2; decide
  by_cases h3 : s = [114, 109, 115]
  · subst h3; decide
  simp [h0, h1, h2, h3, List.idxOf?_cons, Ne.symm h0, Ne.symm h1, Ne.symm h2, Ne.symm h3]

/-! ### `ParseBech32` -/

/-- the constructor index of the struct type of an address kind in the closed interface `Address` (order of declaration in
address.go: Ed25519Address, AliasAddress, NFTAddress) -/
def kindTag : Kind → Nat
  | .ed25519 => 0 | .alias => 1 | .nft => 2

/-- a model error as the generated `ParseBech32` represents it: the name of the wrapped error variable (those of pkg/bech32
qualified by the package) and the offset of a `*bech32.SyntaxError` -/
def encParseErr : ParseErr → Option (String × Option (BitVec 64))
  | .bech32 e => Go.errQualOpt "bech32" (encErr e)
  | .invalidPrefix => some ("ErrInvalidPrefix", none)
  | .invalidVersion => some ("ErrInvalidVersion", none)
  | .invalidLength => some ("ErrInvalidLength", none)

/-- the outcome of the model's `parseBech32` as the generated `ParseBech32` represents it: the interface component is `none`
(nil) in the error case, the prefix 0 -/
def encParse : Except ParseErr (Nat × Addr) → BitVec 64 × Go.Iface × Option (String × Option (BitVec 64))
  | .ok (p, a) => (BitVec.ofNat 64 p, some (kindTag a.kind, bv a.hash), none)
  | .error e => (0#64, none, encParseErr e)

open Iota.Spec.Bip173 in
/-- what `bech32.Decode` accepts carries at most 90 bytes (so `len(addrData)` is far from wrapping around) -/
theorem decode_data_length (s hrp : Bech32.Str) (data : List UInt8) (h : Bech32.decode s = .ok (hrp, data)) :
    data.length ≤ 90 := by
  obtain ⟨hlen, _, hh, d, syms, hs, _, _, _, _, hd, h6, _, hto5, _⟩ := (Proofs.Bech32.decode_ok_iff_valid s hrp data).mp h
  have hdlen : d.length = syms.length := by
    rw [← Proofs.Bech32.lower_length d, hd, Proofs.Bech32.charsetEncode_length]
  have hslen : s.length = hh.length + 1 + d.length := by rw [hs]; simp; omega
  have hpaylen : symCount data.length = syms.length - 6 := by
    rw [← Proofs.Bech32.to5_length, ← hto5, List.length_take]; omega
  unfold symCount at hpaylen
  omega

theorem copy_full (n : Nat) (l : List (BitVec 8)) (h : l.length = n) : Go.copy (List.replicate n 0#8) l = l := by
  subst h; simp [Go.copy]

theorem beq_lit (v : UInt8) (c : UInt8) : (v.toBitVec == c.toBitVec) = decide (v = c) := by
  by_cases h : v = c
  · subst h; simp
  · have : v.toBitVec ≠ c.toBitVec := fun e => h (UInt8.toBitVec_inj.mp e)
    simp [h, this]

theorem len_bne (l : List (BitVec 8)) (n : Nat) (hl : l.length < 2 ^ 64) (hn : n < 2 ^ 64) :
    (BitVec.ofNat 64 l.length != BitVec.ofNat 64 n) = decide (l.length ≠ n) := by
  by_cases h : l.length = n
  · simp [h]
  · have : BitVec.ofNat 64 l.length ≠ BitVec.ofNat 64 n := by
      intro e
      have := congrArg BitVec.toNat e
      simp [BitVec.toNat_ofNat, Nat.mod_eq_of_lt hl, Nat.mod_eq_of_lt hn] at this
      exact h this
    simp [h, this]

/-- **`ParseBech32`, all byte strings**: result, address kind and hash, error identity -/
theorem code_parseBech32 (E : Externs) (s : List UInt8) (hlen : s.length < 2 ^ 63) :
    address.ParseBech32 decTable E.lastIndex E.toLower E.toUpper (bv s) = some (encParse (parseBech32 s)) := by
  unfold address.ParseBech32 parseBech32
  rw [Decode_eq E s hlen]
  cases hd : Bech32.decode s with
  | error e =>
    simp [Go.call, Flow.bind, Flow.result, encParse, encParseErr, Go.errQualOpt, encErr, Go.errWrapOpt]
  | ok r =>
    obtain ⟨hrp, d⟩ := r
    have hdl := decode_data_length s hrp d hd
    simp only [Go.call, Flow.bind, Go.errQualOpt, Option.map_none, Option.isSome_none, Bool.false_eq_true, if_false]
    rw [code_parsePrefix hrp]
    cases hp : parsePrefix hrp with
    | none => simp [Flow.result, encParse, encParseErr, Go.errOfPlain, Go.errWrapOpt]
    | some p =>
      simp only [Go.errOfPlain, Option.map_none, Option.isSome_none, Bool.false_eq_true, if_false]
      cases d with
      | nil => simp [bv, Flow.result, encParse, encParseErr]
      | cons v rest =>
        have hrl' : (bv rest).length ≤ 89 := by
          rw [bv_length]; have : rest.length + 1 ≤ 90 := by simpa using hdl
          omega
        have hrl : (bv rest).length < 2 ^ 64 := by omega
        simp only [bv_cons, List.length_cons, List.getD_cons_zero, List.drop_succ_cons, List.drop_zero]
        have h0 : (BitVec.ofNat 64 ((bv rest).length + 1) == 0#64) = false := by
          rw [beq_eq_false_iff_ne]
          intro e
          have h1 := congrArg BitVec.toNat e
          rw [BitVec.toNat_ofNat, Nat.mod_eq_of_lt (by omega)] at h1
          simp at h1
        have e0 : (v.toBitVec == 0#8) = decide (v = 0) := beq_lit v 0
        have e8 : (v.toBitVec == 8#8) = decide (v = 8) := beq_lit v 8
        have e16 : (v.toBitVec == 16#8) = decide (v = 16) := beq_lit v 16
        have l32 := len_bne (bv rest) 32 hrl (by decide)
        have l20 := len_bne (bv rest) 20 hrl (by decide)
        rw [h0, e0, e8, e16, show (32#64) = BitVec.ofNat 64 32 from rfl, show (20#64) = BitVec.ofNat 64 20 from rfl, l32, l20]
        simp only [bv_length]
        by_cases hv0 : v = 0
        · by_cases hl : rest.length = 32
          · rw [copy_full 32 (bv rest) (by rw [bv_length]; exact hl)]
            simp [hv0, hl, Flow.result, encParse, kindTag]
          · simp [hv0, hl, Flow.result, encParse, encParseErr]
        by_cases hv8 : v = 8
        · by_cases hl : rest.length = 20
          · rw [copy_full 20 (bv rest) (by rw [bv_length]; exact hl)]
            simp [hv8, hl, Flow.result, encParse, kindTag]
          · simp [hv8, hl, Flow.result, encParse, encParseErr]
        by_cases hv16 : v = 16
        · by_cases hl : rest.length = 20
          · rw [copy_full 20 (bv rest) (by rw [bv_length]; exact hl)]
            simp [hv16, hl, Flow.result, encParse, kindTag]
          · simp [hv16, hl, Flow.result, encParse, encParseErr]
        simp [hv0, hv8, hv16, Flow.result, encParse, encParseErr]

/-- **the generated `ParseBech32` never panics** -/
theorem code_parseBech32_never_panics (E : Externs) (s : List UInt8) (hlen : s.length < 2 ^ 63) :
    address.ParseBech32 decTable E.lastIndex E.toLower E.toUpper (bv s) ≠ none := by
  rw [code_parseBech32 E s hlen]; exact fun h => nomatch h

/-- … for every argument of the generated function (`bv` is onto) -/
theorem code_parseBech32_never_panics_bits (E : Externs) (l : List (BitVec 8)) (hlen : l.length < 2 ^ 63) :
    address.ParseBech32 decTable E.lastIndex E.toLower E.toUpper l ≠ none := by
  have := code_parseBech32_never_panics E (l.map UInt8.ofBitVec) (by simpa using hlen)
  rwa [bv_ofBitVec] at this

/-! ### Bytes / Version -/

/-- a model address as a value of the closed interface `Address` -/
def encAddr (a : Addr) : Go.Iface := some (kindTag a.kind, bv a.hash)

theorem code_bytes_ed25519 (h : List UInt8) : address.Ed25519Address_Bytes (bv h) = bv (Addr.bytes ⟨.ed25519, h⟩) := rfl
theorem code_bytes_alias (h : List UInt8) : address.AliasAddress_Bytes (bv h) = bv (Addr.bytes ⟨.alias, h⟩) := rfl
theorem code_bytes_nft (h : List UInt8) : address.NFTAddress_Bytes (bv h) = bv (Addr.bytes ⟨.nft, h⟩) := rfl

/-- **`addr.Bytes()`** through the interface: version byte :: hash -/
theorem code_bytes (a : Addr) : address.Address_Bytes (encAddr a) = some (bv a.bytes) := by
  obtain ⟨k, h⟩ := a
  cases k <;> rfl

theorem code_bytes_nil : address.Address_Bytes none = none := rfl

theorem code_version (a : Addr) : address.Address_Version (encAddr a) = some a.kind.version.toBitVec := by
  obtain ⟨k, h⟩ := a
  cases k <;> rfl

/-! ### Prefix.String, Bech32 -/

theorem code_prefixString (p : Nat) (hp : p < 4) :
    address.Prefix_String (BitVec.ofNat 64 p) = some (bv (hrpStrings.getD p [])) := by
  have : p = 0 ∨ p = 1 ∨ p = 2 ∨ p = 3 := by omega
  rcases this with rfl | rfl | rfl | rfl <;> decide

/-- `Prefix.String` panics outside 0 … 3 (unsigned reading: the negative values are the ones from 2^63) -/
theorem code_prefixString_panics (hrp : BitVec 64) (h : 4 ≤ hrp.toNat) : address.Prefix_String hrp = none := by
  unfold address.Prefix_String
  have : Go.inRangeS hrp 4 = false := by
    unfold Go.inRangeS
    have : decide (hrp.toNat < 4) = false := by simp; omega
    rw [this, Bool.and_false]
  simp [this, Flow.result]

/-- the outcome of the model's `bech32` as the generated `Bech32` represents it -/
def encEnc : Except Bech32.Err Bech32.Str → List (BitVec 8) × Option (String × Option (BitVec 64))
  | .ok r => (bv r, none)
  | .error e => ([], Go.errQualOpt "bech32" (encErr e))

/-- **`Bech32`** for the four prefixes and every address of the three kinds -/
theorem code_bech32_gen (E : Externs) (p : Nat) (hp : p < 4) (a : Addr) (hl : a.hash.length + 1 < 2 ^ 60) :
    address.Bech32 encTable E.toLower E.toUpper (BitVec.ofNat 64 p) (encAddr a) = some (encEnc (bech32 p a)) := by
  unfold address.Bech32 bech32
  rw [code_prefixString p hp, code_bytes a]
  have hh : (hrpStrings.getD p []).length < 2 ^ 62 := by
    have := (Proofs.Address.hrp_facts p hp).1
    omega
  simp only [Go.call, Flow.bind]
  rw [Encode_eq' E _ _ hh (by simpa [Addr.bytes] using hl)]
  cases Bech32.encode (hrpStrings.getD p []) a.bytes <;> simp [Flow.result, encEnc, Go.errQualOpt]

/-- the same for addresses whose hash has the length of its kind (32 / 20 / 20 bytes: the only ones Go can build) -/
theorem code_bech32 (E : Externs) (p : Nat) (hp : p < 4) (a : Addr) (hl : a.hash.length = a.kind.hashLen) :
    address.Bech32 encTable E.toLower E.toUpper (BitVec.ofNat 64 p) (encAddr a) = some (encEnc (bech32 p a)) :=
  code_bech32_gen E p hp a (by
    rw [hl]
    cases a.kind <;> simp [Kind.hashLen])

/-- a `Prefix` value outside 0 … 3, read as an `int`: negative or at least 4 -/
theorem out_of_range_toNat (hrp : BitVec 64) (h : hrp.toInt < 0 ∨ 4 ≤ hrp.toInt) : 4 ≤ hrp.toNat := by
  rw [BitVec.toInt_eq_toNat_cond] at h
  have := hrp.isLt
  split at h <;> omega

/-- **`Bech32` panics for every `Prefix` value outside 0 … 3** (`hrpStrings[p]`: index out of range), for every `addr` and
whatever is passed for the library functions -/
theorem code_bech32_panics (ce : List (BitVec 8)) (tl tu : List (BitVec 8) → List (BitVec 8)) (hrp : BitVec 64)
    (h : hrp.toInt < 0 ∨ 4 ≤ hrp.toInt) (addr : Go.Iface) : address.Bech32 ce tl tu hrp addr = none := by
  unfold address.Bech32
  rw [code_prefixString_panics hrp (out_of_range_toNat hrp h)]
  rfl

/-- `Bech32` panics for a nil `Address` (`addr.Bytes()` on a nil interface) -/
theorem code_bech32_nil (ce : List (BitVec 8)) (tl tu : List (BitVec 8) → List (BitVec 8)) (p : Nat) (hp : p < 4) :
    address.Bech32 ce tl tu (BitVec.ofNat 64 p) none = none := by
  unfold address.Bech32
  rw [code_prefixString p hp, code_bytes_nil]
  rfl

/-- **`Bech32` does not panic** for the four prefixes and the addresses of the three kinds -/
theorem code_bech32_never_panics (E : Externs) (p : Nat) (hp : p < 4) (a : Addr) (hl : a.hash.length = a.kind.hashLen) :
    address.Bech32 encTable E.toLower E.toUpper (BitVec.ofNat 64 p) (encAddr a) ≠ none := by
  rw [code_bech32 E p hp a hl]; exact fun h => nomatch h

/-! ### non-vacuity: the generated functions evaluated with the concrete library functions `Externs.model` -/

-- (the instance search for equality on the result type of `ParseBech32` needs more than the default size)
set_option synthInstance.maxSize 512

abbrev ParseM (s : List (BitVec 8)) :=
  address.ParseBech32 decTable Externs.model.lastIndex Externs.model.toLower Externs.model.toUpper s
abbrev Bech32M (p : BitVec 64) (a : Go.Iface) := address.Bech32 encTable Externs.model.toLower Externs.model.toUpper p a

/-- "atoi1prnz77xppffeeefwwlqqj55muskhd0cg2y52gdvm": devnet prefix, an Alias address (audit/stage11-validation, line 26/27) -/
example : ParseM (bv [97, 116, 111, 105, 49, 112, 114, 110, 122, 55, 55, 120, 112, 112, 102, 102, 101, 101, 101, 102, 119, 119, 108, 113, 113, 106, 53, 53, 109, 117, 115, 107, 104, 100, 48, 99, 103, 50, 121, 53, 50, 103, 100, 118, 109]) =
    some (1#64, some (1, bv [230, 47, 120, 193, 10, 83, 156, 229, 46, 119, 192, 9, 82, 155, 228, 45, 118, 191, 8, 81]), none) := by
  decide +kernel

example : Bech32M 1#64 (some (1, bv [230, 47, 120, 193, 10, 83, 156, 229, 46, 119, 192, 9, 82, 155, 228, 45, 118, 191, 8, 81])) =
    some (bv [97, 116, 111, 105, 49, 112, 114, 110, 122, 55, 55, 120, 112, 112, 102, 102, 101, 101, 101, 102, 119, 119, 108, 113, 113, 106, 53, 53, 109, 117, 115, 107, 104, 100, 48, 99, 103, 50, 121, 53, 50, 103, 100, 118, 109], none) := by
  decide +kernel

/-- "atoi19mqk07" = bech32.Encode("atoi", nil): no version byte -/
example : ParseM (bv [97, 116, 111, 105, 49, 57, 109, 113, 107, 48, 55]) = some (0#64, none, some ("ErrInvalidVersion", none)) := by
  decide +kernel

/-- the same with the last character changed: the error of `bech32.Decode`, qualified, with its offset -/
example : ParseM (bv [97, 116, 111, 105, 49, 57, 109, 113, 107, 48, 113]) =
    some (0#64, none, some ("bech32.ErrInvalidChecksum", some 5#64)) := by
  decide +kernel

/-- "a12uel5l": valid Bech32 with an unknown prefix -/
example : ParseM (bv [97, 49, 50, 117, 101, 108, 53, 108]) = some (0#64, none, some ("ErrInvalidPrefix", none)) := by
  decide +kernel

/-- `Prefix(4)` and `Prefix(-1)` panic; a nil `Address` panics -/
example : Bech32M 4#64 (some (0, List.replicate 32 0#8)) = none := by decide +kernel
example : Bech32M (BitVec.ofInt 64 (-1)) (some (0, List.replicate 32 0#8)) = none := by decide +kernel
example : Bech32M 0#64 none = none := by decide +kernel

end Iota.Tie.AddressCode
