/-
Code tie for pkg/slip10/elliptic/internal/btccurve/secp256k1.go (byte-identical to pkg/slip10/btccurve/secp256k1.go:
`Tie/C17.copies_identical`), translated AS CODE by cmd/extract (stage 10, loops_big.go) into
`Iota/Gen/Secp256k1Code.lean` (`Gen.Secp256k1Code.btccurve.*`; a `*big.Int` is an `Int`, `[]byte` is `List (BitVec 8)`,
`none` as a result = run-time panic), against the model `Iota/Model/Secp256k1.lean`.

The fields of the receiver are parameters of the generated functions; they are instantiated with the model's constants
`P`, `B`, `Gx`, `Gy` (`Tie/C17.constants` proves the hex literals of `init()` equal to these).  `ModInverse` is a
parameter too; `Externs` states what is assumed of it, `externs_inhabited` that the assumption can be met.

* `code_isOnCurve`, `code_zForAffine`, `code_doubleJacobian`, `code_addJacobian`: equal to the model for ALL integers
  (negative and unreduced ones included); the three Option-valued ones never panic (`*_never_panics`): the only panic
  they contain is `Mod` by a zero modulus, and `P ≠ 0`.
* `code_affineFromJacobian`, `code_add`, `code_double`, `code_scalarMult` (every byte list as the scalar),
  `code_scalarBaseMult`: equal to the model INCLUDING the panic outcome: `none` exactly when the model has `none`, which
  is when `ModInverse` returns nil for a `z ≠ 0` (`code_affineFromJacobian_panics_iff`) and the nil is dereferenced.
-/
import Iota.Gen.Secp256k1Code
import Iota.Model.Secp256k1
import Iota.Tie.GoFlow

namespace Iota.Tie.SecpCode
open Iota Iota.Go
open Iota.Gen.Secp256k1Code.btccurve
open Iota.Secp256k1 (P B Gx Gy)

theorem P_ne : Secp256k1.P ≠ 0 := by decide

theorem bigSign_eq_zero (x : Int) : (Go.bigSign x == 0#64) = decide (x = 0) := by
  unfold Go.bigSign
  rcases Int.lt_trichotomy x 0 with h | h | h
  · rw [Int.sign_eq_neg_one_of_neg h]; have : x ≠ 0 := by omega
    simp [this]
  · subst h; simp
  · rw [Int.sign_eq_one_of_pos h]; have : x ≠ 0 := by omega
    simp [this]

theorem bigSign_ne_zero (x : Int) : (Go.bigSign x != 0#64) = decide (x ≠ 0) := by
  rw [bne, bigSign_eq_zero]; simp

theorem bigSign_eq_neg (x : Int) : (Go.bigSign x == BitVec.ofInt 64 (-1)) = decide (x < 0) := by
  unfold Go.bigSign
  rcases Int.lt_trichotomy x 0 with h | h | h
  · rw [Int.sign_eq_neg_one_of_neg h]; simp [h]
  · subst h; simp
  · rw [Int.sign_eq_one_of_pos h]; have : ¬ x < 0 := by omega
    simp [this]

theorem bigCmp_eq_zero (x y : Int) : (Go.bigCmp x y == 0#64) = (x == y) := by
  unfold Go.bigCmp
  have := bigSign_eq_zero (x - y)
  unfold Go.bigSign at this
  rw [this]
  by_cases h : x = y
  · subst h; simp
  · have : x - y ≠ 0 := by omega
    simp [h, this]

theorem bigLsh_one (x : Int) : Go.bigLsh x 1 = x * 2 := by simp [Go.bigLsh]

theorem code_isOnCurve (x y : Int) :
    koblitzCurve_IsOnCurve P B x y = some (Secp256k1.isOnCurve x y) := by
  unfold koblitzCurve_IsOnCurve Secp256k1.isOnCurve
  simp [P_ne, bigCmp_eq_zero]


theorem code_isOnCurve_never_panics (x y : Int) : koblitzCurve_IsOnCurve P B x y ≠ none := by
  rw [code_isOnCurve]; simp

theorem code_zForAffine (x y : Int) : zForAffine x y = Secp256k1.zForAffine x y := by
  unfold zForAffine Secp256k1.zForAffine
  simp [bigSign_ne_zero]

theorem code_doubleJacobian (x y z : Int) :
    koblitzCurve_doubleJacobian P x y z = some (Secp256k1.doubleJacobian x y z) := by
  unfold koblitzCurve_doubleJacobian Secp256k1.doubleJacobian
  simp [P_ne]

theorem code_doubleJacobian_never_panics (x y z : Int) : koblitzCurve_doubleJacobian P x y z ≠ none := by
  rw [code_doubleJacobian]; simp

theorem code_addJacobian (x1 y1 z1 x2 y2 z2 : Int) :
    koblitzCurve_addJacobian P x1 y1 z1 x2 y2 z2 = some (Secp256k1.addJacobian x1 y1 z1 x2 y2 z2) := by
  unfold koblitzCurve_addJacobian Secp256k1.addJacobian
  simp only [code_doubleJacobian, bigSign_eq_zero, bigSign_eq_neg, bigLsh_one]
  simp [P_ne, apply_ite Flow.result, apply_ite (@some (Int × Int × Int)), Go.call]

theorem code_addJacobian_never_panics (x1 y1 z1 x2 y2 z2 : Int) :
    koblitzCurve_addJacobian P x1 y1 z1 x2 y2 z2 ≠ none := by
  rw [code_addJacobian]; simp

/-- What the tie assumes of the parameter `big_ModInverse`, which stands for `new(big.Int).ModInverse(g, n)`: on the
modulus `P` (the only one the code passes) it is the model's `modInverse` — `some` of the inverse in `[0, P)` when `g` and
`P` are coprime, `none` (Go: a nil result) otherwise (`Proofs/Secp/ModInv.lean` proves that of `modInverse`). -/
structure Externs (inv : Int → Int → Option Int) : Prop where
  modInverse_P : ∀ g : Int, inv g Secp256k1.P = Secp256k1.modInverse g Secp256k1.P

/-- the assumptions are satisfiable: the model's `modInverse` itself -/
theorem externs_inhabited : Externs Secp256k1.modInverse := ⟨fun _ => rfl⟩

theorem code_affineFromJacobian {inv : Int → Int → Option Int} (E : Externs inv) (x y z : Int) :
    koblitzCurve_affineFromJacobian inv P x y z = Secp256k1.affineFromJacobian x y z := by
  unfold koblitzCurve_affineFromJacobian Secp256k1.affineFromJacobian
  simp only [bigSign_eq_zero, E.modInverse_P]
  by_cases hz : z = 0
  · simp [hz]
  · cases h : Secp256k1.modInverse z P <;> simp [hz, P_ne, Go.call, Int.mul_assoc]

theorem code_add {inv : Int → Int → Option Int} (E : Externs inv) (x1 y1 x2 y2 : Int) :
    koblitzCurve_Add inv P x1 y1 x2 y2 = Secp256k1.add x1 y1 x2 y2 := by
  unfold koblitzCurve_Add Secp256k1.add
  simp only [code_zForAffine, code_addJacobian, code_affineFromJacobian E]
  cases h : Secp256k1.affineFromJacobian _ _ _ <;> simp [Go.call, h]

theorem code_double {inv : Int → Int → Option Int} (E : Externs inv) (x1 y1 : Int) :
    koblitzCurve_Double inv P x1 y1 = Secp256k1.double x1 y1 := by
  unfold koblitzCurve_Double Secp256k1.double
  simp only [code_zForAffine, code_doubleJacobian, code_affineFromJacobian E]
  cases h : Secp256k1.affineFromJacobian _ _ _ <;> simp [Go.call, h]

/-! ### ScalarMult: the nested loop -/

theorem scalarLoop_append (bx by_ bz : Int) (l₁ l₂ : List Bool) (acc : Int × Int × Int) :
    Secp256k1.scalarLoop bx by_ bz (l₁ ++ l₂) acc = Secp256k1.scalarLoop bx by_ bz l₂ (Secp256k1.scalarLoop bx by_ bz l₁ acc) := by
  induction l₁ generalizing acc with
  | nil => rfl
  | cons b l ih => obtain ⟨x, y, z⟩ := acc; simp only [List.cons_append, Secp256k1.scalarLoop, ih]

/-- the bits the inner loop of `ScalarMult` reads from `byte`: it tests the top bit and shifts left, `n` times -/
def bitsOf : BitVec 8 → Nat → List Bool
  | _, 0 => []
  | b, n + 1 => ((b &&& 128#8) == 128#8) :: bitsOf (b <<< 1) n

/-- they are the bits of the byte, most significant first, as the model lists them -/
theorem bitsOf_eq (b : UInt8) :
    bitsOf b.toBitVec 8 = (List.range 8).map fun i => decide ((b.toNat >>> (7 - i)) % 2 = 1) := by
  have h : ∀ n : Fin 256, bitsOf (BitVec.ofFin n) 8 = (List.range 8).map fun i => decide ((n.val >>> (7 - i)) % 2 = 1) := by
    decide +kernel
  have := h b.toBitVec.toFin
  simpa using this

/-- one step of the model's double-and-add loop -/
def stepAcc (bx by_ bz : Int) (bit : Bool) (acc : Int × Int × Int) : Int × Int × Int :=
  let d := Secp256k1.doubleJacobian acc.1 acc.2.1 acc.2.2
  if bit then Secp256k1.addJacobian bx by_ bz d.1 d.2.1 d.2.2 else d

theorem scalarLoop_cons (bx by_ bz : Int) (bit : Bool) (bits : List Bool) (acc : Int × Int × Int) :
    Secp256k1.scalarLoop bx by_ bz (bit :: bits) acc = Secp256k1.scalarLoop bx by_ bz bits (stepAcc bx by_ bz bit acc) := by
  obtain ⟨x, y, z⟩ := acc; rfl

/-- one iteration of the inner loop on the state `(x, y, z, byte)` -/
def stepBit (bx by_ bz : Int) (s : Int × Int × Int × BitVec 8) : Int × Int × Int × BitVec 8 :=
  let a := stepAcc bx by_ bz ((s.2.2.2 &&& 128#8) == 128#8) (s.1, s.2.1, s.2.2.1)
  (a.1, a.2.1, a.2.2, s.2.2.2 <<< 1)

theorem foldl_stepBit {α : Type} (bx by_ bz : Int) (l : List α) (x y z : Int) (b : BitVec 8) :
    l.foldl (fun s _ => stepBit bx by_ bz s) (x, y, z, b) =
      ((Secp256k1.scalarLoop bx by_ bz (bitsOf b l.length) (x, y, z)).1,
       (Secp256k1.scalarLoop bx by_ bz (bitsOf b l.length) (x, y, z)).2.1,
       (Secp256k1.scalarLoop bx by_ bz (bitsOf b l.length) (x, y, z)).2.2, b <<< l.length) := by
  induction l generalizing x y z b with
  | nil => simp [bitsOf, Secp256k1.scalarLoop]
  | cons a l ih =>
    rw [List.foldl_cons]
    rw [show stepBit bx by_ bz (x, y, z, b) =
      ((stepAcc bx by_ bz ((b &&& 128#8) == 128#8) (x, y, z)).1, (stepAcc bx by_ bz ((b &&& 128#8) == 128#8) (x, y, z)).2.1,
       (stepAcc bx by_ bz ((b &&& 128#8) == 128#8) (x, y, z)).2.2, b <<< 1) from rfl]
    rw [ih, List.length_cons, bitsOf, scalarLoop_cons]
    simp only [← BitVec.shiftLeft_add, Nat.add_comm]

/-- the inner loop: eight iterations consume the eight bits of the byte, most significant first -/
theorem inner_loop (bx by_ bz : Int) (x y z : Int) (b : UInt8) :
    Go.forIn (Go.forUp true false 0#64 8#64 1) (x, y, z, b.toBitVec)
      (fun (st_5 : Int × Int × Int × BitVec 8) (_ : BitVec 64) =>
        (Flow.run (stepBit bx by_ bz st_5) : Flow (Int × Int) (Int × Int × Int × BitVec 8))) =
    Flow.run ((Secp256k1.scalarLoop bx by_ bz (Secp256k1.bitsOfBytes [b]) (x, y, z)).1,
       (Secp256k1.scalarLoop bx by_ bz (Secp256k1.bitsOfBytes [b]) (x, y, z)).2.1,
       (Secp256k1.scalarLoop bx by_ bz (Secp256k1.bitsOfBytes [b]) (x, y, z)).2.2, b.toBitVec <<< 8) := by
  rw [forIn_eq_foldl _ _ _ (fun s _ => stepBit bx by_ bz s) (fun _ _ _ => rfl), foldl_stepBit]
  have hl : (Go.forUp true false 0#64 8#64 1).length = 8 := by decide
  rw [hl, bitsOf_eq]
  simp [Secp256k1.bitsOfBytes]

theorem bitsOfBytes_cons (b : UInt8) (k : List UInt8) :
    Secp256k1.bitsOfBytes (b :: k) = Secp256k1.bitsOfBytes [b] ++ Secp256k1.bitsOfBytes k := by
  simp [Secp256k1.bitsOfBytes]

/-- the outer loop: a body that consumes the bits of one byte, iterated over the bytes -/
theorem outer_loop {ρ : Type} (bx by_ bz : Int) (F : Int × Int × Int → BitVec 8 → Flow ρ (Int × Int × Int))
    (hF : ∀ (x y z : Int) (b : UInt8), F (x, y, z) b.toBitVec =
      Flow.run (Secp256k1.scalarLoop bx by_ bz (Secp256k1.bitsOfBytes [b]) (x, y, z)))
    (k : List UInt8) (acc : Int × Int × Int) :
    Go.forIn (k.map UInt8.toBitVec) acc F = Flow.run (Secp256k1.scalarLoop bx by_ bz (Secp256k1.bitsOfBytes k) acc) := by
  induction k generalizing acc with
  | nil => simp [Secp256k1.bitsOfBytes, Secp256k1.scalarLoop]
  | cons b k ih =>
    obtain ⟨x, y, z⟩ := acc
    rw [List.map_cons, forIn_cons, hF, Flow.bind_run, ih, bitsOfBytes_cons b k, scalarLoop_append]

theorem bind_ite_run {ρ σ τ : Type} (c : Prop) [Decidable c] (a b : σ) (f : σ → Flow ρ τ) :
    (if c then (Flow.run a : Flow ρ σ) else Flow.run b).bind f = f (if c then a else b) := by
  split <;> rfl

theorem code_scalarMult {inv : Int → Int → Option Int} (E : Externs inv) (bx by_ : Int) (k : List UInt8) :
    koblitzCurve_ScalarMult inv P bx by_ (k.map UInt8.toBitVec) = Secp256k1.scalarMult bx by_ k := by
  unfold koblitzCurve_ScalarMult Secp256k1.scalarMult
  simp only [code_zForAffine]
  rw [outer_loop bx by_ (Secp256k1.zForAffine bx by_) _ ?hF]
  case hF =>
    intro x y z b
    dsimp only
    rw [forIn_eq_foldl _ _ _ (fun s _ => stepBit bx by_ (Secp256k1.zForAffine bx by_) s) ?h]
    case h =>
      intro s a _
      simp only [code_doubleJacobian, code_addJacobian, Go.call, Flow.bind_run, bind_ite_run]
      unfold stepBit stepAcc
      split <;> rfl
    rw [foldl_stepBit]
    have hl : (Go.forUp true false 0#64 8#64 1).length = 8 := by decide
    rw [hl, bitsOf_eq]
    simp [Secp256k1.bitsOfBytes]
  simp only [Flow.bind_run, code_affineFromJacobian E]
  cases h : Secp256k1.affineFromJacobian _ _ _ <;> simp [Go.call]

theorem code_scalarBaseMult {inv : Int → Int → Option Int} (E : Externs inv) (k : List UInt8) :
    koblitzCurve_ScalarBaseMult inv P Gx Gy (k.map UInt8.toBitVec) = Secp256k1.scalarBaseMult k := by
  unfold koblitzCurve_ScalarBaseMult Secp256k1.scalarBaseMult
  rw [code_scalarMult E]
  cases h : Secp256k1.scalarMult Gx Gy k <;> simp [Go.call]

/-! ### panics: exactly where the model has `none` (a nil `ModInverse` result that is dereferenced) -/

theorem code_add_panics_iff {inv : Int → Int → Option Int} (E : Externs inv) (x1 y1 x2 y2 : Int) :
    koblitzCurve_Add inv P x1 y1 x2 y2 = none ↔ Secp256k1.add x1 y1 x2 y2 = none := by rw [code_add E]

theorem code_double_panics_iff {inv : Int → Int → Option Int} (E : Externs inv) (x1 y1 : Int) :
    koblitzCurve_Double inv P x1 y1 = none ↔ Secp256k1.double x1 y1 = none := by rw [code_double E]

theorem code_scalarMult_panics_iff {inv : Int → Int → Option Int} (E : Externs inv) (bx by_ : Int) (k : List UInt8) :
    koblitzCurve_ScalarMult inv P bx by_ (k.map UInt8.toBitVec) = none ↔ Secp256k1.scalarMult bx by_ k = none := by
  rw [code_scalarMult E]

/-- `affineFromJacobian` panics exactly when `z ≠ 0` has no inverse modulo `P` -/
theorem code_affineFromJacobian_panics_iff {inv : Int → Int → Option Int} (E : Externs inv) (x y z : Int) :
    koblitzCurve_affineFromJacobian inv P x y z = none ↔ z ≠ 0 ∧ Secp256k1.modInverse z P = none := by
  rw [code_affineFromJacobian E]
  unfold Secp256k1.affineFromJacobian
  by_cases hz : z = 0
  · simp [hz]
  · cases h : Secp256k1.modInverse z P <;> simp [hz]

/-- every byte list is the image of a `List UInt8`: the statements above cover all `List (BitVec 8)` arguments -/
theorem bytes_surj (k : List (BitVec 8)) : ∃ k' : List UInt8, k'.map UInt8.toBitVec = k :=
  ⟨k.map UInt8.ofBitVec, by simp [List.map_map, Function.comp_def]⟩

end Iota.Tie.SecpCode
