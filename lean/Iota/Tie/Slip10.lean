/-
Tie shared by C02 and C08: facts regenerated from pkg/slip10, pkg/slip10/elliptic, pkg/slip10/eddsa.
-/
import Iota.Gen.Slip10
import Iota.Tie.Expect
import Iota.Model.Slip10
import Iota.Proofs.Vectors.Slip10

namespace Iota.Tie.Slip10
open Iota

theorem constants :
    Gen.Slip10.hardened = (Slip10.hardened : Int) ∧ Gen.Slip10.fingerprintSize = 4 ∧
    Gen.Slip10.chainCodeSize = 32 ∧ Gen.Slip10.privateKeySize = 32 ∧ Gen.Slip10.publicKeySize = 33 := by decide

/-- the models were written from exactly this code (incl. the HMAC keys "Bitcoin seed", "Nist256p1 seed",
"ed25519 seed", the retry predicates `errors.Is(err, ErrInvalidKey)` of both loops and the HardenedOnly check) -/
theorem src :
    Gen.Slip10.src_slip10_NewMasterKey = Expect.Slip10_src_slip10_NewMasterKey ∧
    Gen.Slip10.src_slip10_DeriveKeyFromPath = Expect.Slip10_src_slip10_DeriveKeyFromPath ∧
    Gen.Slip10.src_slip10_ExtendedKey_DeriveChild = Expect.Slip10_src_slip10_ExtendedKey_DeriveChild ∧
    Gen.Slip10.src_slip10_ExtendedKey_IsPrivate = Expect.Slip10_src_slip10_ExtendedKey_IsPrivate ∧
    Gen.Slip10.src_slip10_ExtendedKey_Public = Expect.Slip10_src_slip10_ExtendedKey_Public ∧
    Gen.Slip10.src_slip10_ExtendedKey_Fingerprint = Expect.Slip10_src_slip10_ExtendedKey_Fingerprint ∧
    Gen.Slip10.src_slip10_uint32Bytes = Expect.Slip10_src_slip10_uint32Bytes ∧
    Gen.Slip10.src_slip10_hmacSHA512 = Expect.Slip10_src_slip10_hmacSHA512 ∧
    Gen.Slip10.src_slip10_hash160 = Expect.Slip10_src_slip10_hash160 ∧
    Gen.Slip10.src_elliptic_Curve_NewPrivateKey = Expect.Slip10_src_elliptic_Curve_NewPrivateKey ∧
    Gen.Slip10.src_elliptic_secp256k1Curve_HmacKey = Expect.Slip10_src_elliptic_secp256k1Curve_HmacKey ∧
    Gen.Slip10.src_elliptic_nist256p1Curve_HmacKey = Expect.Slip10_src_elliptic_nist256p1Curve_HmacKey ∧
    Gen.Slip10.src_elliptic_PrivateKey_Bytes = Expect.Slip10_src_elliptic_PrivateKey_Bytes ∧
    Gen.Slip10.src_elliptic_PrivateKey_IsPrivate = Expect.Slip10_src_elliptic_PrivateKey_IsPrivate ∧
    Gen.Slip10.src_elliptic_PrivateKey_Public = Expect.Slip10_src_elliptic_PrivateKey_Public ∧
    Gen.Slip10.src_elliptic_PrivateKey_Shift = Expect.Slip10_src_elliptic_PrivateKey_Shift ∧
    Gen.Slip10.src_elliptic_PublicKey_Bytes = Expect.Slip10_src_elliptic_PublicKey_Bytes ∧
    Gen.Slip10.src_elliptic_PublicKey_IsPrivate = Expect.Slip10_src_elliptic_PublicKey_IsPrivate ∧
    Gen.Slip10.src_elliptic_PublicKey_Public = Expect.Slip10_src_elliptic_PublicKey_Public ∧
    Gen.Slip10.src_elliptic_PublicKey_Shift = Expect.Slip10_src_elliptic_PublicKey_Shift ∧
    Gen.Slip10.src_eddsa_ed25519Curve_NewPrivateKey = Expect.Slip10_src_eddsa_ed25519Curve_NewPrivateKey ∧
    Gen.Slip10.src_eddsa_ed25519Curve_HmacKey = Expect.Slip10_src_eddsa_ed25519Curve_HmacKey ∧
    Gen.Slip10.src_eddsa_Seed_Bytes = Expect.Slip10_src_eddsa_Seed_Bytes ∧
    Gen.Slip10.src_eddsa_Seed_IsPrivate = Expect.Slip10_src_eddsa_Seed_IsPrivate ∧
    Gen.Slip10.src_eddsa_Seed_Public = Expect.Slip10_src_eddsa_Seed_Public ∧
    Gen.Slip10.src_eddsa_Seed_HardenedOnly = Expect.Slip10_src_eddsa_Seed_HardenedOnly ∧
    Gen.Slip10.src_eddsa_Seed_Shift = Expect.Slip10_src_eddsa_Seed_Shift ∧
    Gen.Slip10.src_eddsa_PublicKey_Bytes = Expect.Slip10_src_eddsa_PublicKey_Bytes ∧
    Gen.Slip10.src_eddsa_PublicKey_IsPrivate = Expect.Slip10_src_eddsa_PublicKey_IsPrivate ∧
    Gen.Slip10.src_eddsa_PublicKey_Public = Expect.Slip10_src_eddsa_PublicKey_Public ∧
    Gen.Slip10.src_eddsa_PublicKey_HardenedOnly = Expect.Slip10_src_eddsa_PublicKey_HardenedOnly ∧
    Gen.Slip10.src_eddsa_PublicKey_Shift = Expect.Slip10_src_eddsa_PublicKey_Shift :=
  ⟨rfl, rfl, rfl, rfl, rfl, rfl, rfl, rfl, rfl, rfl, rfl, rfl, rfl, rfl, rfl, rfl, rfl, rfl, rfl, rfl, rfl, rfl, rfl, rfl, rfl, rfl, rfl, rfl, rfl, rfl, rfl, rfl⟩

/-- everything else the package declares (imports, constants, types, variables, build constraints and the functions not
pinned one by one) is unchanged too: no declaration of the modelled packages can change without a tie theorem failing. -/
theorem rest :
    Gen.Slip10.rest_slip10 = Expect.Slip10_rest_slip10 ∧
    Gen.Slip10.rest_elliptic = Expect.Slip10_rest_elliptic ∧
    Gen.Slip10.rest_eddsa = Expect.Slip10_rest_eddsa :=
  ⟨rfl, rfl, rfl⟩

end Iota.Tie.Slip10
