/-
Tie shared by C02 and C08: facts regenerated from pkg/slip10, pkg/slip10/elliptic, pkg/slip10/eddsa.
-/
import Iota.Gen.Slip10
import Iota.Tie.Expect
import Iota.Model.Slip10
import Iota.Proofs.Vectors.Slip10
import Iota.Tie.C17
import Iota.Tie.EllipticKeyCode

namespace Iota.Tie.Slip10
open Iota

theorem constants :
    Gen.Slip10.hardened = (Slip10.hardened : Int) ∧ Gen.Slip10.fingerprintSize = 4 ∧
    Gen.Slip10.chainCodeSize = 32 ∧ Gen.Slip10.privateKeySize = 32 ∧ Gen.Slip10.publicKeySize = 33 := by decide

/-- the models were written from exactly this code (incl. the HMAC keys "Bitcoin seed", "Nist256p1 seed",
"ed25519 seed", the retry predicates `errors.Is(err, ErrInvalidKey)` of both loops and the HardenedOnly check) -/
theorem src :
    Gen.Slip10.src_slip10_NewMasterKey = Expect.Slip10_src_slip10_NewMasterKey ∧
    Gen.Slip10.src_slip10_DeriveKeyFromPath = Expect.Slip10_src_slip10_DeriveKeyFromPath ∧
    Gen.Slip10.src_slip10_ExtendedKey_DeriveChild = Expect.Slip10_src_slip10_ExtendedKey_DeriveChild ∧
    Gen.Slip10.src_slip10_ExtendedKey_IsPrivate = Expect.Slip10_src_slip10_ExtendedKey_IsPrivate ∧
    Gen.Slip10.src_slip10_ExtendedKey_Public = Expect.Slip10_src_slip10_ExtendedKey_Public ∧
    Gen.Slip10.src_slip10_ExtendedKey_Fingerprint = Expect.Slip10_src_slip10_ExtendedKey_Fingerprint ∧
    Gen.Slip10.src_slip10_uint32Bytes = Expect.Slip10_src_slip10_uint32Bytes ∧
    Gen.Slip10.src_slip10_hmacSHA512 = Expect.Slip10_src_slip10_hmacSHA512 ∧
    Gen.Slip10.src_slip10_hash160 = Expect.Slip10_src_slip10_hash160 ∧
    Gen.Slip10.src_elliptic_secp256k1Curve_HmacKey = Expect.Slip10_src_elliptic_secp256k1Curve_HmacKey ∧
    Gen.Slip10.src_elliptic_nist256p1Curve_HmacKey = Expect.Slip10_src_elliptic_nist256p1Curve_HmacKey ∧
    Gen.Slip10.src_elliptic_PrivateKey_Bytes = Expect.Slip10_src_elliptic_PrivateKey_Bytes ∧
    Gen.Slip10.src_elliptic_PrivateKey_IsPrivate = Expect.Slip10_src_elliptic_PrivateKey_IsPrivate ∧
    Gen.Slip10.src_elliptic_PrivateKey_Public = Expect.Slip10_src_elliptic_PrivateKey_Public ∧
    Gen.Slip10.src_elliptic_PublicKey_Bytes = Expect.Slip10_src_elliptic_PublicKey_Bytes ∧
    Gen.Slip10.src_elliptic_PublicKey_IsPrivate = Expect.Slip10_src_elliptic_PublicKey_IsPrivate ∧
    Gen.Slip10.src_elliptic_PublicKey_Public = Expect.Slip10_src_elliptic_PublicKey_Public ∧
    Gen.Slip10.src_eddsa_ed25519Curve_NewPrivateKey = Expect.Slip10_src_eddsa_ed25519Curve_NewPrivateKey ∧
    Gen.Slip10.src_eddsa_ed25519Curve_HmacKey = Expect.Slip10_src_eddsa_ed25519Curve_HmacKey ∧
    Gen.Slip10.src_eddsa_Seed_Bytes = Expect.Slip10_src_eddsa_Seed_Bytes ∧
    Gen.Slip10.src_eddsa_Seed_IsPrivate = Expect.Slip10_src_eddsa_Seed_IsPrivate ∧
    Gen.Slip10.src_eddsa_Seed_Public = Expect.Slip10_src_eddsa_Seed_Public ∧
    Gen.Slip10.src_eddsa_Seed_HardenedOnly = Expect.Slip10_src_eddsa_Seed_HardenedOnly ∧
    Gen.Slip10.src_eddsa_Seed_Shift = Expect.Slip10_src_eddsa_Seed_Shift ∧
    Gen.Slip10.src_eddsa_PublicKey_Bytes = Expect.Slip10_src_eddsa_PublicKey_Bytes ∧
    Gen.Slip10.src_eddsa_PublicKey_IsPrivate = Expect.Slip10_src_eddsa_PublicKey_IsPrivate ∧
    Gen.Slip10.src_eddsa_PublicKey_Public = Expect.Slip10_src_eddsa_PublicKey_Public ∧
    Gen.Slip10.src_eddsa_PublicKey_HardenedOnly = Expect.Slip10_src_eddsa_PublicKey_HardenedOnly ∧
    Gen.Slip10.src_eddsa_PublicKey_Shift = Expect.Slip10_src_eddsa_PublicKey_Shift :=
  ⟨rfl, rfl, rfl, rfl, rfl, rfl, rfl, rfl, rfl, rfl, rfl, rfl, rfl, rfl, rfl, rfl, rfl, rfl, rfl, rfl, rfl, rfl, rfl, rfl, rfl, rfl, rfl, rfl, rfl⟩

/-- everything else the package declares (imports, constants, types, variables, build constraints and the functions not
pinned one by one) is unchanged too: no declaration of the modelled packages can change without a tie theorem failing. -/
theorem rest :
    Gen.Slip10.rest_slip10 = Expect.Slip10_rest_slip10 ∧
    Gen.Slip10.rest_elliptic = Expect.Slip10_rest_elliptic ∧
    Gen.Slip10.rest_eddsa = Expect.Slip10_rest_eddsa :=
  ⟨rfl, rfl, rfl⟩

/-- the secp256k1 curve the SLIP-10 derivations run on (`PublicKey.Shift` calls `ScalarBaseMult` and `Add`; C08's
unconditional statement for secp256k1 is about the C17 model): its constants are the regenerated ones, the exported copy
of the file is byte-identical, and the two entry points the derivation uses — regenerated as code from secp256k1.go on
every run — equal the C17 model for all inputs (`Tie/C17`, `Tie/SecpCode`). -/
theorem secp256k1_code {inv : Int → Int → Option Int} (E : Tie.SecpCode.Externs inv) :
    Gen.Secp256k1.copiesIdentical = true ∧
    (∀ x1 y1 x2 y2 : Int, Gen.Secp256k1Code.btccurve.koblitzCurve_Add inv Secp256k1.P x1 y1 x2 y2 = Secp256k1.add x1 y1 x2 y2) ∧
    (∀ k : List UInt8, Gen.Secp256k1Code.btccurve.koblitzCurve_ScalarBaseMult inv Secp256k1.P Secp256k1.Gx Secp256k1.Gy
        (k.map UInt8.toBitVec) = Secp256k1.scalarBaseMult k) :=
  ⟨Tie.C17.copies_identical, Tie.C17.code_add E, Tie.C17.code_scalarBaseMult E⟩

/-! ### pkg/slip10/elliptic — `Curve.NewPrivateKey`, `PrivateKey.Shift`, `PublicKey.Shift` — translated AS CODE = the model
(`Gen.EllipticKeyCode.key.*` in `Iota/Gen/EllipticKeyCode.lean`, stage 13 of the translator: receivers with `*big.Int` fields
and an `elliptic.Curve` field; `Params().N`, `ScalarBaseMult` and `Add` of that FOREIGN interface are parameters; the result
`slip10.Key` is `none` for nil, `some (0, [K])` for a new `*PrivateKey`, `some (1, [X, Y])` for a new `*PublicKey`).
`Externs w coords sbm add` says that the two curve methods compute the model curve's `baseMul` / `add` in the affine
coordinates `coords` and that the point at infinity is (0, 0).  Proofs: `Iota/Tie/EllipticKeyCode.lean`; for secp256k1 the
assumption is DISCHARGED with the generated curve code: `Iota/Tie/E2E/Slip10Secp.lean`.  Not pinned by source text. -/

open Iota.Tie.Bech32Code (bv)
open Iota.Tie.EllipticKeyCode (Externs encKey)
open Iota.Slip10 (Bytes WCurve WKey wCurve)

/-- **`NewPrivateKey` as code = the model: `ErrInvalidKey` exactly for the values 0 and ≥ N; cannot panic.** -/
theorem code_newPrivateKey {Pt : Type} (w : WCurve Pt) (hk : Bytes) (coords : Pt → Int × Int) (buf : Bytes) :
    Gen.EllipticKeyCode.key.Curve_NewPrivateKey (w.n : Int) (bv buf) = encKey coords ((wCurve w hk).newPrivateKey buf) :=
  EllipticKeyCode.code_newPrivateKey w hk coords buf

/-- **`PrivateKey.Shift` as code = the model, for every scalar and every byte string; never panics (N > 0).** -/
theorem code_privateShift {Pt : Type} (w : WCurve Pt) (hk : Bytes) (coords : Pt → Int × Int) (hn : 0 < w.n) (k : Nat) (buf : Bytes) :
    Gen.EllipticKeyCode.key.PrivateKey_Shift (w.n : Int) (k : Int) (bv buf) =
      some (encKey coords ((wCurve w hk).shift (.priv k) buf)) :=
  EllipticKeyCode.code_privateShift w hk coords hn k buf

/-- **`PublicKey.Shift` as code = the model, for every point and every byte string; never panics.** -/
theorem code_publicShift {Pt : Type} (w : WCurve Pt) (hk : Bytes) (coords : Pt → Int × Int)
    {sbm : List (BitVec 8) → Option (Int × Int)} {add : Int → Int → Int → Int → Option (Int × Int)}
    (E : Externs w coords sbm add) (p : Pt) (buf : Bytes) :
    Gen.EllipticKeyCode.key.PublicKey_Shift add (w.n : Int) sbm (coords p).1 (coords p).2 (bv buf) =
      some (encKey coords ((wCurve w hk).shift (.pub p) buf)) :=
  EllipticKeyCode.code_publicShift w hk coords E p buf

end Iota.Tie.Slip10
