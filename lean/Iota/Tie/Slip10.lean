/-
Tie shared by C02 and C08: facts regenerated from pkg/slip10, pkg/slip10/elliptic, pkg/slip10/eddsa.
-/
import Iota.Gen.Slip10
import Iota.Tie.Expect
import Iota.Model.Slip10
import Iota.Proofs.Vectors.Slip10
import Iota.Tie.C17

namespace Iota.Tie.Slip10
open Iota

theorem constants :
    Gen.Slip10.hardened = (Slip10.hardened : Int) ∧ Gen.Slip10.fingerprintSize = 4 ∧
    Gen.Slip10.chainCodeSize = 32 ∧ Gen.Slip10.privateKeySize = 32 ∧ Gen.Slip10.publicKeySize = 33 := by decide

/-- the models were written from exactly this code (incl. the HMAC keys "Bitcoin seed", "Nist256p1 seed",
"ed25519 seed", the retry predicates `errors.Is(err, ErrInvalidKey)` of both loops and the HardenedOnly check) -/
theorem src :
    Gen.Slip10.src_slip10_NewMasterKey = Expect.Slip10_src_slip10_NewMasterKey ∧
    Gen.Slip10.src_slip10_DeriveKeyFromPath = Expect.Slip10_src_slip10_DeriveKeyFromPath ∧
    Gen.Slip10.src_slip10_ExtendedKey_DeriveChild = Expect.Slip10_src_slip10_ExtendedKey_DeriveChild ∧
    Gen.Slip10.src_slip10_ExtendedKey_IsPrivate = Expect.Slip10_src_slip10_ExtendedKey_IsPrivate ∧
    Gen.Slip10.src_slip10_ExtendedKey_Public = Expect.Slip10_src_slip10_ExtendedKey_Public ∧
    Gen.Slip10.src_slip10_ExtendedKey_Fingerprint = Expect.Slip10_src_slip10_ExtendedKey_Fingerprint ∧
    Gen.Slip10.src_slip10_uint32Bytes = Expect.Slip10_src_slip10_uint32Bytes ∧
    Gen.Slip10.src_slip10_hmacSHA512 = Expect.Slip10_src_slip10_hmacSHA512 ∧
    Gen.Slip10.src_slip10_hash160 = Expect.Slip10_src_slip10_hash160 ∧
    Gen.Slip10.src_elliptic_Curve_NewPrivateKey = Expect.Slip10_src_elliptic_Curve_NewPrivateKey ∧
    Gen.Slip10.src_elliptic_secp256k1Curve_HmacKey = Expect.Slip10_src_elliptic_secp256k1Curve_HmacKey ∧
    Gen.Slip10.src_elliptic_nist256p1Curve_HmacKey = Expect.Slip10_src_elliptic_nist256p1Curve_HmacKey ∧
    Gen.Slip10.src_elliptic_PrivateKey_Bytes = Expect.Slip10_src_elliptic_PrivateKey_Bytes ∧
    Gen.Slip10.src_elliptic_PrivateKey_IsPrivate = Expect.Slip10_src_elliptic_PrivateKey_IsPrivate ∧
    Gen.Slip10.src_elliptic_PrivateKey_Public = Expect.Slip10_src_elliptic_PrivateKey_Public ∧
    Gen.Slip10.src_elliptic_PrivateKey_Shift = Expect.Slip10_src_elliptic_PrivateKey_Shift ∧
    Gen.Slip10.src_elliptic_PublicKey_Bytes = Expect.Slip10_src_elliptic_PublicKey_Bytes ∧
    Gen.Slip10.src_elliptic_PublicKey_IsPrivate = Expect.Slip10_src_elliptic_PublicKey_IsPrivate ∧
    Gen.Slip10.src_elliptic_PublicKey_Public = Expect.Slip10_src_elliptic_PublicKey_Public ∧
    Gen.Slip10.src_elliptic_PublicKey_Shift = Expect.Slip10_src_elliptic_PublicKey_Shift ∧
    Gen.Slip10.src_eddsa_ed25519Curve_NewPrivateKey = Expect.Slip10_src_eddsa_ed25519Curve_NewPrivateKey ∧
    Gen.Slip10.src_eddsa_ed25519Curve_HmacKey = Expect.Slip10_src_eddsa_ed25519Curve_HmacKey ∧
    Gen.Slip10.src_eddsa_Seed_Bytes = Expect.Slip10_src_eddsa_Seed_Bytes ∧
    Gen.Slip10.src_eddsa_Seed_IsPrivate = Expect.Slip10_src_eddsa_Seed_IsPrivate ∧
    Gen.Slip10.src_eddsa_Seed_Public = Expect.Slip10_src_eddsa_Seed_Public ∧
    Gen.Slip10.src_eddsa_Seed_HardenedOnly = Expect.Slip10_src_eddsa_Seed_HardenedOnly ∧
    Gen.Slip10.src_eddsa_Seed_Shift = Expect.Slip10_src_eddsa_Seed_Shift ∧
    Gen.Slip10.src_eddsa_PublicKey_Bytes = Expect.Slip10_src_eddsa_PublicKey_Bytes ∧
    Gen.Slip10.src_eddsa_PublicKey_IsPrivate = Expect.Slip10_src_eddsa_PublicKey_IsPrivate ∧
    Gen.Slip10.src_eddsa_PublicKey_Public = Expect.Slip10_src_eddsa_PublicKey_Public ∧
    Gen.Slip10.src_eddsa_PublicKey_HardenedOnly = Expect.Slip10_src_eddsa_PublicKey_HardenedOnly ∧
    Gen.Slip10.src_eddsa_PublicKey_Shift = Expect.Slip10_src_eddsa_PublicKey_Shift :=
  ⟨rfl, rfl, rfl, rfl, rfl, rfl, rfl, rfl, rfl, rfl, rfl, rfl, rfl, rfl, rfl, rfl, rfl, rfl, rfl, rfl, rfl, rfl, rfl, rfl, rfl, rfl, rfl, rfl, rfl, rfl, rfl, rfl⟩

/-- everything else the package declares (imports, constants, types, variables, build constraints and the functions not
pinned one by one) is unchanged too: no declaration of the modelled packages can change without a tie theorem failing. -/
theorem rest :
    Gen.Slip10.rest_slip10 = Expect.Slip10_rest_slip10 ∧
    Gen.Slip10.rest_elliptic = Expect.Slip10_rest_elliptic ∧
    Gen.Slip10.rest_eddsa = Expect.Slip10_rest_eddsa :=
  ⟨rfl, rfl, rfl⟩

/-- the secp256k1 curve the SLIP-10 derivations run on (`PublicKey.Shift` calls `ScalarBaseMult` and `Add`; C08's
unconditional statement for secp256k1 is about the C17 model): its constants are the regenerated ones, the exported copy
of the file is byte-identical, and the two entry points the derivation uses — regenerated as code from secp256k1.go on
every run — equal the C17 model for all inputs (`Tie/C17`, `Tie/SecpCode`). -/
theorem secp256k1_code {inv : Int → Int → Option Int} (E : Tie.SecpCode.Externs inv) :
    Gen.Secp256k1.copiesIdentical = true ∧
    (∀ x1 y1 x2 y2 : Int, Gen.Secp256k1Code.btccurve.koblitzCurve_Add inv Secp256k1.P x1 y1 x2 y2 = Secp256k1.add x1 y1 x2 y2) ∧
    (∀ k : List UInt8, Gen.Secp256k1Code.btccurve.koblitzCurve_ScalarBaseMult inv Secp256k1.P Secp256k1.Gx Secp256k1.Gy
        (k.map UInt8.toBitVec) = Secp256k1.scalarBaseMult k) :=
  ⟨Tie.C17.copies_identical, Tie.C17.code_add E, Tie.C17.code_scalarBaseMult E⟩

end Iota.Tie.Slip10
