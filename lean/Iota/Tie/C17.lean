/-
Tie for C17: curve constants of secp256k1.go (regenerated from init()); the exported copy
pkg/slip10/btccurve/secp256k1.go must be byte-identical to the internal one; and — since stage 10 of the translator — the
nine curve functions regenerated AS CODE (`Iota/Gen/Secp256k1Code.lean`, *big.Int as Int under a checked ownership
discipline) and proved equal to the model for all inputs (`Iota/Tie/SecpCode.lean`, re-exported below as `code_*`).  The
functions are no longer pinned by source text.
-/
import Iota.Gen.Secp256k1
import Iota.Tie.Expect
import Iota.Model.Secp256k1
import Iota.Tie.SecpCode
import Iota.Tie.SecpCodeExterns

namespace Iota.Tie.C17
open Iota

def hexNatU (s : String) : Nat :=
  s.toList.foldl (fun acc c =>
    acc * 16 + (if '0' ≤ c ∧ c ≤ '9' then c.toNat - 48 else if 'A' ≤ c ∧ c ≤ 'F' then c.toNat - 55
                else if 'a' ≤ c ∧ c ≤ 'f' then c.toNat - 87 else 0)) 0

theorem constants :
    (hexNatU Gen.Secp256k1.hexP : Int) = Secp256k1.P ∧ (hexNatU Gen.Secp256k1.hexN : Int) = Secp256k1.N ∧
    (hexNatU Gen.Secp256k1.hexB : Int) = Secp256k1.B ∧ (hexNatU Gen.Secp256k1.hexGx : Int) = Secp256k1.Gx ∧
    (hexNatU Gen.Secp256k1.hexGy : Int) = Secp256k1.Gy := by decide +kernel

theorem copies_identical : Gen.Secp256k1.copiesIdentical = true := by decide

/-- `init()`, which sets the curve constants, is unchanged (its hex literals are the regenerated facts of `constants`) -/
theorem src :
    Gen.Secp256k1.src_btccurve_init = Expect.Secp256k1_src_btccurve_init := rfl

/-- everything else the package declares (imports, constants, types, variables, build constraints and the functions not
pinned one by one) is unchanged too: no declaration of the modelled packages can change without a tie theorem failing. -/
theorem rest :
    Gen.Secp256k1.rest_btccurve = Expect.Secp256k1_rest_btccurve :=
  rfl

/-! ### the curve functions, translated as code (`Gen.Secp256k1Code.btccurve.*`), equal the model for all inputs
Proofs: `Iota/Tie/SecpCode.lean`.  The receiver's fields are parameters of the generated functions, instantiated with the
model's constants (`constants` above: they are what `init()` sets).  `big_ModInverse` is a parameter as well; `Externs inv`
says that on the modulus P it is the model's extended Euclid, which every function with the DOCUMENTED behaviour of
`(*big.Int).ModInverse` satisfies (`externs_of_spec`), and which can be met (`externs_satisfiable`). -/

open Iota.Gen.Secp256k1Code.btccurve
open Iota.Tie.SecpCode (Externs ExternsSpec)
open Iota.Secp256k1 (P B Gx Gy)

/-- **`IsOnCurve`, translated statement by statement, returns the model's verdict for ALL integers and never panics.** -/
theorem code_isOnCurve (x y : Int) : koblitzCurve_IsOnCurve P B x y = some (Secp256k1.isOnCurve x y) :=
  SecpCode.code_isOnCurve x y

theorem code_zForAffine (x y : Int) : zForAffine x y = Secp256k1.zForAffine x y := SecpCode.code_zForAffine x y

/-- **`doubleJacobian` (dbl-2009-l) as code = model, for all integers; never panics.** -/
theorem code_doubleJacobian (x y z : Int) :
    koblitzCurve_doubleJacobian P x y z = some (Secp256k1.doubleJacobian x y z) := SecpCode.code_doubleJacobian x y z

/-- **`addJacobian` (add-2007-bl with the identity and doubling cases) as code = model, for all integers; never panics.** -/
theorem code_addJacobian (x1 y1 z1 x2 y2 z2 : Int) :
    koblitzCurve_addJacobian P x1 y1 z1 x2 y2 z2 = some (Secp256k1.addJacobian x1 y1 z1 x2 y2 z2) :=
  SecpCode.code_addJacobian x1 y1 z1 x2 y2 z2

/-- **`affineFromJacobian` as code = model, panic outcome included** (`none` exactly when `ModInverse` returns nil for a
`z ≠ 0`, `code_affineFromJacobian_panics_iff`). -/
theorem code_affineFromJacobian {inv : Int → Int → Option Int} (E : Externs inv) (x y z : Int) :
    koblitzCurve_affineFromJacobian inv P x y z = Secp256k1.affineFromJacobian x y z :=
  SecpCode.code_affineFromJacobian E x y z

theorem code_affineFromJacobian_panics_iff {inv : Int → Int → Option Int} (E : Externs inv) (x y z : Int) :
    koblitzCurve_affineFromJacobian inv P x y z = none ↔ z ≠ 0 ∧ Secp256k1.modInverse z P = none :=
  SecpCode.code_affineFromJacobian_panics_iff E x y z

/-- **The exported `Add` as code = the model's `add`, for all integers.** -/
theorem code_add {inv : Int → Int → Option Int} (E : Externs inv) (x1 y1 x2 y2 : Int) :
    koblitzCurve_Add inv P x1 y1 x2 y2 = Secp256k1.add x1 y1 x2 y2 := SecpCode.code_add E x1 y1 x2 y2

/-- **The exported `Double` as code = the model's `double`.** -/
theorem code_double {inv : Int → Int → Option Int} (E : Externs inv) (x1 y1 : Int) :
    koblitzCurve_Double inv P x1 y1 = Secp256k1.double x1 y1 := SecpCode.code_double E x1 y1

/-- **The exported `ScalarMult` as code — the double-and-add loop over the bits of every byte of the scalar — = the model's
`scalarMult`, for all integers and EVERY byte string** (`bytes_surj`: every `List (BitVec 8)` is such a `k`). -/
theorem code_scalarMult {inv : Int → Int → Option Int} (E : Externs inv) (bx by_ : Int) (k : List UInt8) :
    koblitzCurve_ScalarMult inv P bx by_ (k.map UInt8.toBitVec) = Secp256k1.scalarMult bx by_ k :=
  SecpCode.code_scalarMult E bx by_ k

theorem code_scalarBaseMult {inv : Int → Int → Option Int} (E : Externs inv) (k : List UInt8) :
    koblitzCurve_ScalarBaseMult inv P Gx Gy (k.map UInt8.toBitVec) = Secp256k1.scalarBaseMult k :=
  SecpCode.code_scalarBaseMult E k

theorem bytes_surj (k : List (BitVec 8)) : ∃ k' : List UInt8, k'.map UInt8.toBitVec = k := SecpCode.bytes_surj k

/-- the assumption about `ModInverse` follows from its documented behaviour (inverse in `[0, n)` when it exists, nil only
when `g` and `n` are not coprime) … -/
theorem externs_of_spec {inv : Int → Int → Option Int} (S : ExternsSpec inv) : Externs inv := S.toExterns

/-- … and can be met: the model's extended Euclid has that behaviour for every modulus below 2^511 -/
theorem externs_satisfiable : ExternsSpec Secp256k1.modInverse ∧ Externs Secp256k1.modInverse :=
  ⟨SecpCode.externsSpec_inhabited, SecpCode.externs_inhabited⟩

end Iota.Tie.C17
