/-
Tie for C17: curve constants and source snapshot of secp256k1.go; the exported copy
pkg/slip10/btccurve/secp256k1.go must be byte-identical to the internal one.
-/
import Iota.Gen.Secp256k1
import Iota.Tie.Expect
import Iota.Model.Secp256k1

namespace Iota.Tie.C17
open Iota

def hexNatU (s : String) : Nat :=
  s.toList.foldl (fun acc c =>
    acc * 16 + (if '0' ≤ c ∧ c ≤ '9' then c.toNat - 48 else if 'A' ≤ c ∧ c ≤ 'F' then c.toNat - 55
                else if 'a' ≤ c ∧ c ≤ 'f' then c.toNat - 87 else 0)) 0

theorem constants :
    (hexNatU Gen.Secp256k1.hexP : Int) = Secp256k1.P ∧ (hexNatU Gen.Secp256k1.hexN : Int) = Secp256k1.N ∧
    (hexNatU Gen.Secp256k1.hexB : Int) = Secp256k1.B ∧ (hexNatU Gen.Secp256k1.hexGx : Int) = Secp256k1.Gx ∧
    (hexNatU Gen.Secp256k1.hexGy : Int) = Secp256k1.Gy := by decide +kernel

theorem copies_identical : Gen.Secp256k1.copiesIdentical = true := by decide

theorem src :
    Gen.Secp256k1.src_btccurve_koblitzCurve_IsOnCurve = Expect.Secp256k1_src_btccurve_koblitzCurve_IsOnCurve ∧
    Gen.Secp256k1.src_btccurve_koblitzCurve_affineFromJacobian = Expect.Secp256k1_src_btccurve_koblitzCurve_affineFromJacobian ∧
    Gen.Secp256k1.src_btccurve_zForAffine = Expect.Secp256k1_src_btccurve_zForAffine ∧
    Gen.Secp256k1.src_btccurve_koblitzCurve_Add = Expect.Secp256k1_src_btccurve_koblitzCurve_Add ∧
    Gen.Secp256k1.src_btccurve_koblitzCurve_addJacobian = Expect.Secp256k1_src_btccurve_koblitzCurve_addJacobian ∧
    Gen.Secp256k1.src_btccurve_koblitzCurve_Double = Expect.Secp256k1_src_btccurve_koblitzCurve_Double ∧
    Gen.Secp256k1.src_btccurve_koblitzCurve_doubleJacobian = Expect.Secp256k1_src_btccurve_koblitzCurve_doubleJacobian ∧
    Gen.Secp256k1.src_btccurve_koblitzCurve_ScalarMult = Expect.Secp256k1_src_btccurve_koblitzCurve_ScalarMult ∧
    Gen.Secp256k1.src_btccurve_koblitzCurve_ScalarBaseMult = Expect.Secp256k1_src_btccurve_koblitzCurve_ScalarBaseMult ∧
    Gen.Secp256k1.src_btccurve_init = Expect.Secp256k1_src_btccurve_init :=
  ⟨rfl, rfl, rfl, rfl, rfl, rfl, rfl, rfl, rfl, rfl⟩

/-- everything else the package declares (imports, constants, types, variables, build constraints and the functions not
pinned one by one) is unchanged too: no declaration of the modelled packages can change without a tie theorem failing. -/
theorem rest :
    Gen.Secp256k1.rest_btccurve = Expect.Secp256k1_rest_btccurve :=
  rfl

end Iota.Tie.C17
