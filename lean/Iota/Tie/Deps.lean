/-
Tie shared by all properties: the dependency versions of the repository.  The external libraries
(iota.go, filippo.io/edwards25519, golang.org/x/crypto, golang.org/x/text, …) are modelled, not verified,
at exactly the versions of go.mod; their content is fixed by go.sum.
-/
import Iota.Gen.Deps
import Iota.Tie.Expect

namespace Iota.Tie.Deps
open Iota

theorem gomod : Gen.Deps.gomod = Expect.Deps_gomod := rfl
theorem gosum : Gen.Deps.gosumSha256 = Expect.Deps_gosumSha256 := rfl

end Iota.Tie.Deps
