/-
Code tie for pkg/bip39 (bip39.go, utils.go): `computeChecksum`, `validateMnemonic`, `EntropyToMnemonic`, `MnemonicToEntropy`,
translated AS CODE by cmd/extract (stage 12, loops_big2.go) into `Iota/Gen/Bip39Code.lean` (`Gen.Bip39Code.big.*`; a `*big.Int`
is an `Int`, a `Mnemonic` a `List (List (BitVec 8))`, `error` is `Option String`, `none` as a result = run-time panic),
against the model `Iota/Model/Bip39.lean` (on `Nat`).  The helpers `validateEntropy`, `padBytes`, `entropyBitsToWordCount`,
`wordCountToEntropyBits` are the translations in `Iota/Gen/Bip39.lean`, tied in `Iota/Tie/Bip39Code.lean`.

Parameters of the generated functions: `sha256_Sum256` (related to the model's `H` by `hH : ∀ x, sum (bv x) = bv (H x)`; the
equations hold for every such pair — that the hash returns 32 bytes is the assumption under which translating a `[32]byte`
as a list is faithful, it is not needed for the equations) and the three methods of the word list, about which `Externs`
states what is assumed (`externs_inhabited`: it can be met).

* `code_computeChecksum`: panics exactly for more than 256 bits, otherwise the model's value.
* `code_entropyToMnemonic`: for EVERY entropy (shorter than 2^59 bytes) the result `(words, error)` of the model — so it
  never panics (`code_entropyToMnemonic_never_panics`), and the error is `ErrInvalidEntropySize` exactly for a length other
  than 16, 20, …, 64 (`code_entropyToMnemonic_error`).
* `code_validateMnemonic`, `code_mnemonicToEntropy`: for EVERY word sequence (fewer than 2^58 words) the result of the
  model: never panics (`code_mnemonicToEntropy_never_panics`), `ErrInvalidMnemonic` for a wrong count or an unknown word
  (`code_mnemonicToEntropy_invalid`), `ErrInvalidChecksum` / nil as the model says (`code_mnemonicToEntropy_error`).
-/
import Iota.Gen.Bip39Code
import Iota.Model.Bip39
import Iota.Tie.Bip39Code

namespace Iota.Tie.Bip39BigCode
open Iota Iota.Go
open Iota.Tie.Bech32Code (bv)
open Iota.Tie.Base32Code (sdiv_ofNat slt_ofNat toNat_ofNat_lt msb_ofNat_small)
open Iota.Tie.Bip39Code (mul_ofNat length_bv entropyBitsToWordCount_eq wordCountToEntropyBits_eq padBytes_eq validateEntropy_eq)
open Iota.Gen.Bip39Code
open Iota.Bip39 (Bytes Word Err)

/-- a word sequence of the model as the translated code sees it -/
def bvs (ws : List Word) : List (List (BitVec 8)) := ws.map bv

/-! ### the math/big operations on non-negative numbers are the `Nat` operations -/

theorem bigAnd_ofNat (a b : Nat) : Go.bigAnd (a : Int) (b : Int) = ((a &&& b : Nat) : Int) := rfl
theorem bigOr_ofNat (a b : Nat) : Go.bigOr (a : Int) (b : Int) = ((a ||| b : Nat) : Int) := rfl
theorem bigRsh_ofNat (a n : Nat) : Go.bigRsh (a : Int) n = ((a >>> n : Nat) : Int) := rfl
theorem bigLsh_ofNat (a n : Nat) : Go.bigLsh (a : Int) n = ((a <<< n : Nat) : Int) := by
  simp [Go.bigLsh, Nat.shiftLeft_eq]
theorem bigInt64_ofNat (a : Nat) : Go.bigInt64 (a : Int) = BitVec.ofNat 64 a := by
  simp [Go.bigInt64]
theorem bigCmp_ofNat (a b : Nat) : (Go.bigCmp (a : Int) (b : Int) != 0#64) = decide (a ≠ b) := by
  unfold Go.bigCmp
  rcases Nat.lt_trichotomy a b with h | h | h
  · have : ((a : Int) - b) < 0 := by omega
    rw [Int.sign_eq_neg_one_of_neg this]; simp; omega
  · subst h; simp
  · have : 0 < ((a : Int) - b) := by omega
    rw [Int.sign_eq_one_of_pos this]; simp; omega

/-- two's complement on negative operands, as math/big documents (`-5 & 3`, `-5 | 3`, …) -/
example : Go.bigAnd (-5) 3 = 3 ∧ Go.bigAnd 5 (-3) = 5 ∧ Go.bigAnd (-5) (-3) = -7 ∧ Go.bigOr (-5) 3 = -5 ∧
    Go.bigOr 5 (-3) = -3 ∧ Go.bigOr (-5) (-3) = -1 ∧ Go.bigRsh (-5) 1 = -3 ∧ Go.bigAnd (-1) 12345 = 12345 ∧
    Go.bigOr (-256) 255 = -1 := by decide

theorem setBytes_bv (b : Bytes) : Go.bigSetBytes (bv b) = (Bip39.setBytes b : Int) := by
  unfold Go.bigSetBytes Bip39.setBytes bv
  rw [List.foldl_map]
  rfl

/-! ### computeChecksum -/

theorem sub_ofNat_toNat (a b : Nat) (hab : b ≤ a) (ha : a < 2 ^ 64) :
    (BitVec.ofNat 64 a - BitVec.ofNat 64 b).toNat = a - b := by
  rw [BitVec.toNat_sub, BitVec.toNat_ofNat, BitVec.toNat_ofNat,
    Nat.mod_eq_of_lt ha, Nat.mod_eq_of_lt (by omega : b < 2 ^ 64)]
  omega

/-- `computeChecksum`: panics exactly for more than 256 bits; otherwise the model's value -/
theorem code_computeChecksum (sum : List (BitVec 8) → List (BitVec 8)) (H : Bytes → Bytes) (hH : ∀ x, sum (bv x) = bv (H x))
    (b : Bytes) (n : Nat) (hn : n < 2 ^ 63) :
    big.computeChecksum sum (bv b) (BitVec.ofNat 64 n) =
      if 256 < n then none else some (Bip39.computeChecksum H b n : Int) := by
  unfold big.computeChecksum Bip39.computeChecksum
  rw [show (256#64 : BitVec 64) = BitVec.ofNat 64 256 from rfl, slt_ofNat 256 n (by decide) hn]
  by_cases h : 256 < n
  · simp [h, Flow.result]
  · simp only [h, decide_false, Bool.false_eq_true, if_false, Flow.result, hH, setBytes_bv, bigRsh_ofNat]
    rw [sub_ofNat_toNat 256 n (by omega) (by decide)]

/-! ### what is assumed of the word-list parameters -/

/-- The three methods of the word list `wordList` holds during a call, for the list `W` of the model: `Contains` decides
membership, `Word(i)` is the `i`-th word for `0 ≤ i < 2048`, `Index(w)` is the position of a word of the list (the real
methods panic — `none` — for other arguments; nothing is assumed about those). -/
structure Externs (W : List Word) (contains : List (BitVec 8) → Bool) (word : BitVec 64 → Option (List (BitVec 8)))
    (index : List (BitVec 8) → Option (BitVec 64)) : Prop where
  length : W.length = 2048
  contains_eq : ∀ w : Word, contains (bv w) = W.contains w
  word_eq : ∀ i : Nat, i < 2048 → word (BitVec.ofNat 64 i) = some (bv (W.getD i []))
  index_eq : ∀ w : Word, w ∈ W → index (bv w) = some (BitVec.ofNat 64 (W.idxOf w))

/-- the assumptions can be met (2048 copies of the empty word; `Externs` does not ask for distinct words: the model's
`idxOf` is the FIRST position, which is the position when the words are distinct) -/
theorem externs_inhabited :
    Externs (List.replicate 2048 []) (fun a => a == []) (fun _ => some []) (fun _ => some 0#64) := by
  refine ⟨List.length_replicate .., ?_, ?_, ?_⟩
  · intro w
    rw [Bool.eq_iff_iff, List.contains_iff_mem, List.mem_replicate, beq_iff_eq]
    cases w <;> simp [bv]
  · intro i _
    rw [List.getD_eq_getElem?_getD, List.getElem?_replicate]
    split <;> rfl
  · intro w hw
    rw [List.eq_of_mem_replicate hw]
    show some 0#64 = some (BitVec.ofNat 64 (List.idxOf [] (List.replicate (2047 + 1) [])))
    rw [List.replicate_succ, List.idxOf_cons_self]

/-! #### the methods of a real list meet the assumptions -/

theorem bv_inj' {a b : List UInt8} (h : bv a = bv b) : a = b := by
  have := congrArg (List.map UInt8.ofBitVec) h
  rwa [Bech32Code.ofBitVec_bv, Bech32Code.ofBitVec_bv] at this

theorem idxOf_bvs (w : Word) : ∀ W : List Word, (bvs W).idxOf (bv w) = W.idxOf w := by
  intro W
  induction W with
  | nil => rfl
  | cons x xs ih =>
    simp only [bvs, List.map_cons, List.idxOf_cons]
    by_cases h : x = w
    · subst h; simp
    · have h1 : bv x ≠ bv w := fun hh => h (bv_inj' hh)
      have e1 : (bv x == bv w) = false := by simpa using h1
      have e2 : (x == w) = false := by simpa using h
      rw [e1, e2]
      simp only [cond_false]
      exact congrArg (· + 1) ih

/-- `Contains`, `Word`, `Index` of the list `W` itself (what `internal/wordlists` implements: membership, the array
element — a panic outside `0 … len-1` —, the position — a panic for an unknown word) -/
def containsOf (W : List Word) (a : List (BitVec 8)) : Bool := (bvs W).contains a
def wordOf (W : List Word) (i : BitVec 64) : Option (List (BitVec 8)) := if i.msb then none else (bvs W)[i.toNat]?
def indexOf (W : List Word) (a : List (BitVec 8)) : Option (BitVec 64) :=
  if (bvs W).contains a then some (BitVec.ofNat 64 ((bvs W).idxOf a)) else none

/-- every list of 2048 words, with its own methods, meets `Externs` -/
theorem externs_of (W : List Word) (hW : W.length = 2048) : Externs W (containsOf W) (wordOf W) (indexOf W) := by
  have hmem : ∀ w : Word, bv w ∈ bvs W ↔ w ∈ W := by
    intro w
    simp only [bvs, List.mem_map]
    constructor
    · rintro ⟨x, hx, hh⟩; rw [← bv_inj' hh]; exact hx
    · intro h; exact ⟨w, h, rfl⟩
  refine ⟨hW, ?_, ?_, ?_⟩
  · intro w
    rw [containsOf, Bool.eq_iff_iff, List.contains_iff_mem, List.contains_iff_mem, hmem]
  · intro i hi
    have hlt : i < W.length := by omega
    simp only [wordOf, msb_ofNat_small i (by omega), Bool.false_eq_true, if_false, toNat_ofNat_lt i (by omega), bvs,
      List.getElem?_map, List.getD_eq_getElem?_getD, List.getElem?_eq_getElem hlt, Option.map_some, Option.getD_some]
  · intro w hw
    have : (bvs W).contains (bv w) = true := by rw [List.contains_iff_mem, hmem]; exact hw
    simp only [indexOf, this, if_true, idxOf_bvs]

/-! ### EntropyToMnemonic -/

/-- the values of `i` in `for i := w - 1; i >= 0; i--` -/
def downList : Nat → List (BitVec 64)
  | 0 => []
  | w + 1 => BitVec.ofNat 64 w :: downList w

theorem forDown_downList (w : Nat) (hw : w < 2 ^ 63) :
    Go.forDown true true (BitVec.ofNat 64 w - 1#64) 0#64 1 = downList w := by
  induction w with
  | zero => decide
  | succ w ih =>
    have e : BitVec.ofNat 64 (w + 1) - 1#64 = BitVec.ofNat 64 w := by
      apply BitVec.eq_of_toNat_eq
      rw [show (1#64 : BitVec 64) = BitVec.ofNat 64 1 from rfl, sub_ofNat_toNat (w + 1) 1 (by omega) (by omega),
        toNat_ofNat_lt w (by omega)]
      omega
    rw [e, forDown_cons true true _ _ 1 (by decide) (by decide)
      (by simp [Go.cmpDown, BitVec.sle, toInt_ofNat_small w (by omega)])]
    rw [show BitVec.ofNat 64 1 = (1#64 : BitVec 64) from rfl, ih (by omega)]
    rfl

/-- the last value of `wordIndex` -/
def fillWi : Nat → Nat → Int → Int
  | 0, _, wi => wi
  | w + 1, N, _ => fillWi w (N >>> 11) ((N &&& 2047 : Nat) : Int)

/-- the loop of `EntropyToMnemonic` for a body `F` that does what the Go loop body does -/
theorem fill_loop {ρ : Type} (f : Nat → List (BitVec 8))
    (F : Int × List (List (BitVec 8)) × Int → BitVec 64 → Flow ρ (Int × List (List (BitVec 8)) × Int))
    (hF : ∀ (N : Nat) (ws : List (List (BitVec 8))) (wi : Int) (i : Nat), i < ws.length → i < 2 ^ 63 →
      F ((N : Int), ws, wi) (BitVec.ofNat 64 i) = Flow.run (((N >>> 11 : Nat) : Int), ws.set i (f (N &&& 2047)), ((N &&& 2047 : Nat) : Int)))
    (w : Nat) (hw : w < 2 ^ 63) (N : Nat) (sfx : List (List (BitVec 8))) (wi : Int) :
    Go.forIn (downList w) ((N : Int), List.replicate w [] ++ sfx, wi) F =
      Flow.run (((N >>> (11 * w) : Nat) : Int), (Bip39.splitIndices w N).map f ++ sfx, fillWi w N wi) := by
  induction w generalizing N sfx wi with
  | zero => simp [downList, Bip39.splitIndices, fillWi]
  | succ w ih =>
    have hset : (List.replicate (w + 1) ([] : List (BitVec 8)) ++ sfx).set w (f (N &&& 2047)) =
        List.replicate w [] ++ (f (N &&& 2047) :: sfx) := by
      rw [List.replicate_succ', List.append_assoc, List.set_append_right _ _ (by simp)]
      simp
    have h := ih (by omega) (N >>> 11) (f (N &&& 2047) :: sfx) ((N &&& 2047 : Nat) : Int)
    rw [downList, forIn_cons, hF N _ wi w (by simp; omega) (by omega), Flow.bind_run, hset, h]
    simp only [Bip39.splitIndices, List.map_append, List.map_cons, List.map_nil, List.append_assoc, List.singleton_append, fillWi]
    rw [← Nat.shiftRight_add, Nat.mul_succ, Nat.add_comm (11 * w) 11]

theorem fill_loop' {ρ : Type} (f : Nat → List (BitVec 8))
    (F : Int × List (List (BitVec 8)) × Int → BitVec 64 → Flow ρ (Int × List (List (BitVec 8)) × Int))
    (hF : ∀ (N : Nat) (ws : List (List (BitVec 8))) (wi : Int) (i : Nat), i < ws.length → i < 2 ^ 63 →
      F ((N : Int), ws, wi) (BitVec.ofNat 64 i) = Flow.run (((N >>> 11 : Nat) : Int), ws.set i (f (N &&& 2047)), ((N &&& 2047 : Nat) : Int)))
    (w : Nat) (hw : w < 2 ^ 63) (N : Nat) (wi : Int) :
    Go.forIn (downList w) ((N : Int), List.replicate w [], wi) F =
      Flow.run (((N >>> (11 * w) : Nat) : Int), (Bip39.splitIndices w N).map f, fillWi w N wi) := by
  have := fill_loop f F hF w hw N [] wi
  simpa using this

theorem bigAnd_2047 (N : Nat) : Go.bigAnd (N : Int) 2047 = ((N &&& 2047 : Nat) : Int) := rfl
theorem bigRsh_11 (N : Nat) : Go.bigRsh (N : Int) 11 = ((N >>> 11 : Nat) : Int) := rfl

theorem inRangeS_ofNat (m n : Nat) (hm : m < n) (hn : m < 2 ^ 63) : Go.inRangeS (BitVec.ofNat 64 m) n = true := by
  simp [Go.inRangeS, msb_ofNat_small m hn, toNat_ofNat_lt m (by omega), hm]

/-- the names under which the translation reports the package's error variables -/
def errName : Err → String
  | .invalidEntropySize => "ErrInvalidEntropySize"
  | .invalidMnemonic => "ErrInvalidMnemonic"
  | .invalidChecksum => "ErrInvalidChecksum"

/-- the model's result of `EntropyToMnemonic` as the Go results `(Mnemonic, error)` -/
def encWords : Except Err (List Word) → List (List (BitVec 8)) × Option String
  | .ok ws => (bvs ws, none)
  | .error e => ([], some (errName e))

/-- the model's result of `MnemonicToEntropy` as the Go results `([]byte, error)` -/
def encBytes : Except Err Bytes → List (BitVec 8) × Option String
  | .ok b => (bv b, none)
  | .error e => ([], some (errName e))

theorem mul8_ofNat (n : Nat) : BitVec.ofNat 64 n * 8#64 = BitVec.ofNat 64 (n * 8) := by
  rw [show (8#64 : BitVec 64) = BitVec.ofNat 64 8 from rfl, mul_ofNat, Nat.mul_comm]

theorem code_entropyToMnemonic {W : List Word} {contains : List (BitVec 8) → Bool} {word : BitVec 64 → Option (List (BitVec 8))}
    {index : List (BitVec 8) → Option (BitVec 64)} (E : Externs W contains word index)
    (sum : List (BitVec 8) → List (BitVec 8)) (H : Bytes → Bytes) (hH : ∀ x, sum (bv x) = bv (H x))
    (e : Bytes) (he : e.length < 2 ^ 59) :
    big.EntropyToMnemonic sum word (bv e) = some (encWords (Bip39.entropyToMnemonic H W e)) := by
  unfold big.EntropyToMnemonic Bip39.entropyToMnemonic
  rw [validateEntropy_eq e he]
  simp only [Bip39.entropyMultiple, Bip39.entropyMinBits, Bip39.entropyMaxBits]
  by_cases hv : e.length * 8 % 32 = 0 ∧ 128 ≤ e.length * 8 ∧ e.length * 8 ≤ 512
  · obtain ⟨h1, h2, h3⟩ := hv
    have hm : ¬ (e.length * 8 % 32 ≠ 0 ∨ 128 > e.length * 8 ∨ e.length * 8 > 512) := by omega
    simp only [h1, h2, h3, and_self, if_true, if_false, Option.isSome_none, Bool.false_eq_true, length_bv, mul8_ofNat]
    rw [show (32#64 : BitVec 64) = BitVec.ofNat 64 32 from rfl, sdiv_ofNat _ 32 (by omega) (by decide),
      code_computeChecksum sum H hH e _ (by omega), if_neg (by omega)]
    simp only [Go.call, Flow.bind_run, setBytes_bv]
    rw [toNat_ofNat_lt _ (by omega), bigLsh_ofNat, bigOr_ofNat, entropyBitsToWordCount_eq _ (by omega)]
    have hwc : Bip39.entropyBitsToWordCount (e.length * 8) ≤ 48 := by unfold Bip39.entropyBitsToWordCount; omega
    generalize Bip39.entropyBitsToWordCount (e.length * 8) = wc at hwc ⊢
    have hnn : Go.nonneg (BitVec.ofNat 64 wc) = true := by simp [Go.nonneg, msb_ofNat_small wc (by omega)]
    simp only [hnn, Bool.not_true, Bool.false_eq_true, if_false, toNat_ofNat_lt wc (by omega), List.length_replicate]
    rw [forDown_downList wc (by omega), show ((0 : Int)) = ((0 : Nat) : Int) from rfl,
      fill_loop' (fun i => bv (W.getD i [])) _ ?hF wc (by omega)]
    case hF =>
      intro N ws wi i hi hi2
      have hlt : N &&& 2047 < 2048 := Nat.lt_succ_of_le Nat.and_le_right
      simp only [bigAnd_2047, bigInt64_ofNat, E.word_eq _ hlt, Flow.bind_run, inRangeS_ofNat i _ hi hi2, Bool.not_true,
        Bool.false_eq_true, if_false, bigRsh_11, toNat_ofNat_lt i (by omega)]
    have hm' : ¬ (e.length * 8 < 128 ∨ 512 < e.length * 8) := by omega
    simp [Flow.result, encWords, bvs, hm', List.map_map, Function.comp_def]
  · have hm : (e.length * 8 % 32 ≠ 0 ∨ 128 > e.length * 8 ∨ e.length * 8 > 512) := by omega
    simp [hv, hm, Flow.result, encWords, errName]

/-! ### validateMnemonic -/

theorem srem_ofNat (a b : Nat) (ha : a < 2 ^ 63) (hb : b < 2 ^ 63) (hb0 : 0 < b) :
    BitVec.srem (BitVec.ofNat 64 a) (BitVec.ofNat 64 b) = BitVec.ofNat 64 (a % b) := by
  rw [BitVec.srem_eq, msb_ofNat_small a ha, msb_ofNat_small b hb]
  apply BitVec.eq_of_toNat_eq
  simp only [BitVec.toNat_umod, BitVec.toNat_ofNat]
  have h1 : a % b < b := Nat.mod_lt _ hb0
  rw [Nat.mod_eq_of_lt (by omega : a < 2 ^ 64), Nat.mod_eq_of_lt (by omega : b < 2 ^ 64),
    Nat.mod_eq_of_lt (by omega : a % b < 2 ^ 64)]

theorem ofNat_ne_zero (a : Nat) (ha : a < 2 ^ 64) : (BitVec.ofNat 64 a != 0#64) = decide (a ≠ 0) := by
  by_cases hz : a = 0
  · subst hz; simp
  · have : BitVec.ofNat 64 a ≠ 0#64 := by
      intro hh
      have := congrArg BitVec.toNat hh
      rw [toNat_ofNat_lt a ha] at this
      exact hz this
    simp [hz, this]

theorem bvs_length (m : List Word) : (bvs m).length = m.length := by simp [bvs]

/-- `validateMnemonic`: never panics; `ErrInvalidMnemonic` for a wrong word count or a word that is not in the list -/
theorem code_validateMnemonic {W : List Word} {contains : List (BitVec 8) → Bool} {word : BitVec 64 → Option (List (BitVec 8))}
    {index : List (BitVec 8) → Option (BitVec 64)} (E : Externs W contains word index)
    (m : List Word) (hm : m.length < 2 ^ 58) :
    big.validateMnemonic contains (bvs m) =
      some (if m.length % 3 ≠ 0 ∨ 12 > m.length ∨ m.length > 48 then some "ErrInvalidMnemonic"
        else if !m.all (fun w => W.contains w) then some "ErrInvalidMnemonic" else none) := by
  unfold big.validateMnemonic
  rw [show Gen.Bip39.code.entropyBitsToWordCount 128#64 = BitVec.ofNat 64 12 from by decide,
    show Gen.Bip39.code.entropyBitsToWordCount 512#64 = BitVec.ofNat 64 48 from by decide]
  simp only [bvs_length]
  rw [show (3#64 : BitVec 64) = BitVec.ofNat 64 3 from rfl, srem_ofNat _ 3 (by omega) (by decide) (by decide),
    ofNat_ne_zero _ (by omega), slt_ofNat _ 12 (by omega) (by decide), slt_ofNat 48 _ (by decide) (by omega)]
  by_cases hc : m.length % 3 ≠ 0 ∨ 12 > m.length ∨ m.length > 48
  · have : (decide (m.length % 3 ≠ 0) || decide (m.length < 12) || decide (48 < m.length)) = true := by
      rcases hc with h | h | h <;> simp [h] <;> omega
    rw [this]
    simp [hc, Flow.result]
  · have : (decide (m.length % 3 ≠ 0) || decide (m.length < 12) || decide (48 < m.length)) = false := by
      have h1 : m.length % 3 = 0 := by omega
      have h2 : ¬ m.length < 12 := by omega
      have h3 : ¬ 48 < m.length := by omega
      simp [h1, h2, h3]
    rw [this, forIn_any (bvs m) (fun a => !contains a) (some "ErrInvalidMnemonic") _ (fun a _ => rfl)]
    have hany : (bvs m).any (fun a => !contains a) = !m.all (fun w => W.contains w) := by
      simp only [bvs, List.any_map, Function.comp_def, E.contains_eq, List.not_all_eq_any_not]
    rw [hany]
    cases (m.all fun w => W.contains w) <;> simp [hc, Flow.result]

/-! ### MnemonicToEntropy -/

theorem natBytes_fuel (f1 : Nat) : ∀ (f2 n : Nat), n < 256 ^ f1 → n < 256 ^ f2 →
    Go.natBytesFuel f1 n = bv (Bip39.natBytesAux f2 n) := by
  induction f1 with
  | zero =>
    intro f2 n h1 _
    have : n = 0 := by simpa using h1
    subst this
    cases f2 <;> simp [Go.natBytesFuel, Bip39.natBytesAux, bv]
  | succ f1 ih =>
    intro f2 n h1 h2
    by_cases hn : n = 0
    · subst hn
      cases f2 <;> simp [Go.natBytesFuel, Bip39.natBytesAux, bv]
    · cases f2 with
      | zero => simp at h2; omega
      | succ f2 =>
        have d1 : n / 256 < 256 ^ f1 := by
          rw [Nat.div_lt_iff_lt_mul (by decide)]; rw [Nat.pow_succ] at h1; exact h1
        have d2 : n / 256 < 256 ^ f2 := by
          rw [Nat.div_lt_iff_lt_mul (by decide)]; rw [Nat.pow_succ] at h2; exact h2
        simp only [Go.natBytesFuel, Bip39.natBytesAux, hn, if_false, ih f2 (n / 256) d1 d2, Bip39Code.bv_append]
        rfl

theorem natBytes_length (f : Nat) : ∀ (n s : Nat), n < 256 ^ s → (Bip39.natBytesAux f n).length ≤ s := by
  induction f with
  | zero => intro n s _; simp [Bip39.natBytesAux]
  | succ f ih =>
    intro n s h
    by_cases hn : n = 0
    · simp [Bip39.natBytesAux, hn]
    · cases s with
      | zero => simp at h; omega
      | succ s =>
        have d : n / 256 < 256 ^ s := by
          rw [Nat.div_lt_iff_lt_mul (by decide)]; rw [Nat.pow_succ] at h; exact h
        simp only [Bip39.natBytesAux, hn, if_false, List.length_append, List.length_cons, List.length_nil]
        have := ih (n / 256) s d
        omega

theorem bigBytes_ofNat (n : Nat) (h : n < 256 ^ 80) : Go.bigBytes (n : Int) = bv (Bip39.natBytes n) := by
  unfold Go.bigBytes Bip39.natBytes
  rw [Int.natAbs_natCast]
  refine natBytes_fuel n 80 n ?_ h
  calc n < 2 ^ n := Nat.lt_two_pow_self
    _ ≤ 256 ^ n := Nat.pow_le_pow_left (by decide) n

theorem join_bound (W : List Word) (hW : W.length = 2048) : ∀ (m : List Word) (acc k : Nat), acc < 2 ^ k → (∀ w ∈ m, w ∈ W) →
    Bip39.joinIndices W acc m < 2 ^ (k + 11 * m.length) := by
  intro m
  induction m with
  | nil => intro acc k h _; simpa [Bip39.joinIndices] using h
  | cons w ws ih =>
    intro acc k h hall
    have hi : W.idxOf w < 2 ^ 11 := by
      have := List.idxOf_lt_length_of_mem (hall w (List.mem_cons_self ..))
      rw [hW] at this; exact this
    have h1 : acc <<< 11 < 2 ^ (k + 11) := by
      rw [Nat.shiftLeft_eq, Nat.pow_add]; exact Nat.mul_lt_mul_of_lt_of_le h (Nat.le_refl _) (by decide)
    have h2 : W.idxOf w < 2 ^ (k + 11) := Nat.lt_of_lt_of_le hi (Nat.pow_le_pow_right (by decide) (by omega))
    have := ih ((acc <<< 11) ||| W.idxOf w) (k + 11) (Nat.or_lt_two_pow h1 h2) (fun x hx => hall x (List.mem_cons_of_mem _ hx))
    simp only [Bip39.joinIndices, List.length_cons]
    rw [show k + 11 * (ws.length + 1) = k + 11 + 11 * ws.length by omega]
    exact this

/-- the decoder loop: a fold of `decoder = decoder<<11 | index(word)` -/
theorem join_fold {W : List Word} {contains : List (BitVec 8) → Bool} {word : BitVec 64 → Option (List (BitVec 8))}
    {index : List (BitVec 8) → Option (BitVec 64)} (E : Externs W contains word index) :
    ∀ (m : List Word) (acc : Nat), (∀ w ∈ m, w ∈ W) →
    (bvs m).foldl (fun s a => Go.bigOr (Go.bigLsh s 11) (BitVec.toInt ((index a).getD 0#64))) (acc : Int) =
      (Bip39.joinIndices W acc m : Int) := by
  intro m
  induction m with
  | nil => intro acc _; rfl
  | cons w ws ih =>
    intro acc hall
    have hi : W.idxOf w < 2048 := by
      have := List.idxOf_lt_length_of_mem (hall w (List.mem_cons_self ..))
      rw [E.length] at this; exact this
    simp only [bvs, List.map_cons, List.foldl_cons, E.index_eq w (hall w (List.mem_cons_self ..)), Option.getD_some,
      toInt_ofNat_small _ (by omega : W.idxOf w < 2 ^ 63), bigLsh_ofNat, bigOr_ofNat, Bip39.joinIndices]
    exact ih _ (fun x hx => hall x (List.mem_cons_of_mem _ hx))

theorem code_mnemonicToEntropy {W : List Word} {contains : List (BitVec 8) → Bool} {word : BitVec 64 → Option (List (BitVec 8))}
    {index : List (BitVec 8) → Option (BitVec 64)} (E : Externs W contains word index)
    (sum : List (BitVec 8) → List (BitVec 8)) (H : Bytes → Bytes) (hH : ∀ x, sum (bv x) = bv (H x))
    (m : List Word) (hm : m.length < 2 ^ 58) :
    big.MnemonicToEntropy sum contains index (bvs m) = some (encBytes (Bip39.mnemonicToEntropy H W m)) := by
  unfold big.MnemonicToEntropy Bip39.mnemonicToEntropy
  rw [code_validateMnemonic E m hm]
  simp only [Bip39.entropyBitsToWordCount, Bip39.entropyMinBits, Bip39.entropyMaxBits, Bip39.entropyMultiple,
    show 3 * 128 / 32 = 12 from rfl, show 3 * 512 / 32 = 48 from rfl, Go.call, Flow.bind_run]
  by_cases hc : m.length % 3 ≠ 0 ∨ 12 > m.length ∨ m.length > 48
  · simp [hc, Flow.result, encBytes, errName]
  · simp only [hc, if_false]
    cases hall : (m.all fun w => W.contains w)
    · simp [Flow.result, encBytes, errName]
    · have hmem : ∀ w ∈ m, w ∈ W := by
        intro w hw
        have := List.all_eq_true.mp hall w hw
        simpa using this
      obtain ⟨t, ht⟩ : ∃ t, m.length = 3 * t := ⟨m.length / 3, by omega⟩
      have ht4 : 4 ≤ t := by omega
      have ht16 : t ≤ 16 := by omega
      simp only [Bool.not_true, Bool.false_eq_true, if_false, Option.isSome_none, bvs_length]
      rw [wordCountToEntropyBits_eq _ (by omega)]
      have e1 : Bip39.wordCountToEntropyBits m.length = 32 * t := by unfold Bip39.wordCountToEntropyBits; omega
      rw [e1, show (32#64 : BitVec 64) = BitVec.ofNat 64 32 from rfl, show (8#64 : BitVec 64) = BitVec.ofNat 64 8 from rfl,
        sdiv_ofNat _ 32 (by omega) (by decide), sdiv_ofNat _ 8 (by omega) (by decide)]
      simp only [show 32 * t / 32 = t by omega, show 32 * t / 8 = 4 * t by omega, toNat_ofNat_lt t (by omega)]
      -- the decoder loop
      rw [show ((0 : Int)) = ((0 : Nat) : Int) from rfl,
        forIn_eq_foldl (bvs m) _ _ (fun s a => Go.bigOr (Go.bigLsh s 11) (BitVec.toInt ((index a).getD 0#64))) ?hF]
      case hF =>
        intro s a ha
        obtain ⟨w, hw, rfl⟩ := List.mem_map.mp ha
        have hi : W.idxOf w < 2048 := by
          have := List.idxOf_lt_length_of_mem (hmem w hw)
          rw [E.length] at this; exact this
        rw [E.index_eq w (hmem w hw)]
        simp only [Flow.bind_run, Option.getD_some]
        rw [show (0#64 : BitVec 64) = BitVec.ofNat 64 0 from rfl, slt_ofNat _ 0 (by omega) (by decide),
          show (2048#64 : BitVec 64) = BitVec.ofNat 64 2048 from rfl]
        have : BitVec.sle (BitVec.ofNat 64 2048) (BitVec.ofNat 64 (W.idxOf w)) = false := by
          rw [BitVec.sle, toInt_ofNat_small _ (by decide), toInt_ofNat_small _ (by omega)]
          exact decide_eq_false (by omega)
        simp [this]
      rw [join_fold E m 0 hmem, Flow.bind_run]
      have hdec := join_bound W E.length m 0 0 (by decide) hmem
      generalize Bip39.joinIndices W 0 m = dec at hdec ⊢
      rw [ht] at hdec
      have hd' : dec >>> t < 256 ^ (4 * t) := by
        rw [Nat.shiftRight_eq_div_pow, show (256 : Nat) = 2 ^ 8 from rfl, ← Nat.pow_mul,
          Nat.div_lt_iff_lt_mul (Nat.two_pow_pos t), ← Nat.pow_add]
        rw [show 0 + 11 * (3 * t) = 8 * (4 * t) + t by omega] at hdec
        exact hdec
      have hd80 : dec >>> t < 256 ^ 80 := Nat.lt_of_lt_of_le hd' (Nat.pow_le_pow_right (by decide) (by omega))
      have hlen : (Bip39.natBytes (dec >>> t)).length ≤ 4 * t := natBytes_length 80 _ _ hd'
      have hl : Go.bigLsh 1 t = ((1 <<< t : Nat) : Int) := bigLsh_ofNat 1 t
      have hmask : Go.bigLsh 1 t - (1 : Int) = (((1 <<< t) - 1 : Nat) : Int) := by
        rw [hl]
        have : 1 ≤ 1 <<< t := by rw [Nat.one_shiftLeft]; exact Nat.two_pow_pos t
        omega
      simp only [hmask, bigAnd_ofNat, bigRsh_ofNat, bigBytes_ofNat _ hd80]
      rw [padBytes_eq _ _ (by omega) (by omega), if_neg (by omega)]
      simp only [Flow.bind_run]
      rw [code_computeChecksum sum H hH _ t (by omega), if_neg (by omega)]
      simp only [Flow.bind_run, bigCmp_ofNat]
      by_cases hcs : dec &&& (1 <<< t - 1) = Bip39.computeChecksum H (Bip39.padBytes (Bip39.natBytes (dec >>> t)) (4 * t)) t
      · simp [hcs, Flow.result, encBytes]
      · simp [hcs, Flow.result, encBytes, errName]

/-! ### corollaries: no panic, the error kinds -/

variable {W : List Word} {contains : List (BitVec 8) → Bool} {word : BitVec 64 → Option (List (BitVec 8))}
  {index : List (BitVec 8) → Option (BitVec 64)}

/-- **`EntropyToMnemonic` never panics** (entropy shorter than 2^59 bytes): `words[i]` is in range, `wordList.Word` is only
asked for indices below 2048, `computeChecksum` for at most 16 ≤ 256 bits, and the word count is not negative -/
theorem code_entropyToMnemonic_never_panics (E : Externs W contains word index)
    (sum : List (BitVec 8) → List (BitVec 8)) (H : Bytes → Bytes) (hH : ∀ x, sum (bv x) = bv (H x))
    (e : Bytes) (he : e.length < 2 ^ 59) : big.EntropyToMnemonic sum word (bv e) ≠ none := by
  rw [code_entropyToMnemonic E sum H hH e he]; simp

/-- **`MnemonicToEntropy` never panics** (fewer than 2^58 words): `wordList.Index` is only asked for words of the list
(`validateMnemonic` has checked them), so `panic("invalid word index")` is unreachable; `padBytes` gets at most `size`
bytes (`panic("invalid byte size")`), `computeChecksum` at most 16 bits (`panic("invalid number of bits")`) -/
theorem code_mnemonicToEntropy_never_panics (E : Externs W contains word index)
    (sum : List (BitVec 8) → List (BitVec 8)) (H : Bytes → Bytes) (hH : ∀ x, sum (bv x) = bv (H x))
    (m : List Word) (hm : m.length < 2 ^ 58) : big.MnemonicToEntropy sum contains index (bvs m) ≠ none := by
  rw [code_mnemonicToEntropy E sum H hH m hm]; simp

/-- the error of `EntropyToMnemonic` is nil or `ErrInvalidEntropySize`, the latter exactly for a length other than
16, 20, …, 64 bytes -/
theorem code_entropyToMnemonic_error (E : Externs W contains word index)
    (sum : List (BitVec 8) → List (BitVec 8)) (H : Bytes → Bytes) (hH : ∀ x, sum (bv x) = bv (H x))
    (e : Bytes) (he : e.length < 2 ^ 59) :
    (big.EntropyToMnemonic sum word (bv e)).map (·.2) =
      some (if e.length % 4 = 0 ∧ 16 ≤ e.length ∧ e.length ≤ 64 then none else some "ErrInvalidEntropySize") := by
  rw [code_entropyToMnemonic E sum H hH e he]
  unfold Bip39.entropyToMnemonic
  simp only [Bip39.entropyMultiple, Bip39.entropyMinBits, Bip39.entropyMaxBits]
  by_cases h : e.length % 4 = 0 ∧ 16 ≤ e.length ∧ e.length ≤ 64
  · have : ¬ (e.length * 8 % 32 ≠ 0 ∨ 128 > e.length * 8 ∨ e.length * 8 > 512) := by omega
    simp [h, this, encWords]
  · have : (e.length * 8 % 32 ≠ 0 ∨ 128 > e.length * 8 ∨ e.length * 8 > 512) := by omega
    simp [h, this, encWords, errName]

/-- the error of `MnemonicToEntropy` is nil, `ErrInvalidMnemonic` or `ErrInvalidChecksum`, as the model says -/
theorem code_mnemonicToEntropy_error (E : Externs W contains word index)
    (sum : List (BitVec 8) → List (BitVec 8)) (H : Bytes → Bytes) (hH : ∀ x, sum (bv x) = bv (H x))
    (m : List Word) (hm : m.length < 2 ^ 58) :
    (big.MnemonicToEntropy sum contains index (bvs m)).map (·.2) =
      some (match Bip39.mnemonicToEntropy H W m with
        | .ok _ => none
        | .error .invalidEntropySize => some "ErrInvalidEntropySize"
        | .error .invalidMnemonic => some "ErrInvalidMnemonic"
        | .error .invalidChecksum => some "ErrInvalidChecksum") := by
  rw [code_mnemonicToEntropy E sum H hH m hm]
  cases h : Bip39.mnemonicToEntropy H W m with
  | ok b => simp [encBytes]
  | error e => cases e <;> simp [encBytes, errName]

/-- a wrong word count or an unknown word is `ErrInvalidMnemonic` -/
theorem code_mnemonicToEntropy_invalid (E : Externs W contains word index)
    (sum : List (BitVec 8) → List (BitVec 8)) (H : Bytes → Bytes) (hH : ∀ x, sum (bv x) = bv (H x))
    (m : List Word) (hm : m.length < 2 ^ 58)
    (hbad : m.length % 3 ≠ 0 ∨ m.length < 12 ∨ 48 < m.length ∨ ∃ w ∈ m, w ∉ W) :
    big.MnemonicToEntropy sum contains index (bvs m) = some ([], some "ErrInvalidMnemonic") := by
  rw [code_mnemonicToEntropy E sum H hH m hm]
  unfold Bip39.mnemonicToEntropy
  simp only [Bip39.entropyBitsToWordCount, Bip39.entropyMinBits, Bip39.entropyMaxBits,
    show 3 * 128 / 32 = 12 from rfl, show 3 * 512 / 32 = 48 from rfl]
  by_cases hc : m.length % 3 ≠ 0 ∨ 12 > m.length ∨ m.length > 48
  · simp [hc, encBytes, errName]
  · obtain ⟨w, hw, hnw⟩ : ∃ w ∈ m, w ∉ W := by
      rcases hbad with h | h | h | h
      · exact absurd (Or.inl h) hc
      · exact absurd (Or.inr (Or.inl h)) hc
      · exact absurd (Or.inr (Or.inr h)) hc
      · exact h
    have hex : ∃ x, x ∈ m ∧ ¬ x ∈ W := ⟨w, hw, hnw⟩
    simp [hc, hex, encBytes, errName]

/-- every argument of the generated functions is the image of a model value -/
theorem bytes_surj (k : List (BitVec 8)) : ∃ k' : Bytes, bv k' = k :=
  ⟨k.map UInt8.ofBitVec, Bech32Code.bv_ofBitVec k⟩

theorem words_surj (m : List (List (BitVec 8))) : ∃ m' : List Word, bvs m' = m :=
  ⟨m.map (·.map UInt8.ofBitVec), by
    simp only [bvs, List.map_map]
    conv => rhs; rw [← List.map_id m]
    apply List.map_congr_left
    intro a _
    exact Bech32Code.bv_ofBitVec a⟩

end Iota.Tie.Bip39BigCode
