/- Tie for C15: regenerated facts of pkg/merkle/merkle.go. -/
import Iota.Gen.Merkle
import Iota.Tie.Expect
import Iota.Proofs.Vectors.Hash
import Iota.Tie.MerkleCode

namespace Iota.Tie.C15
open Iota
open Iota.Tie.Bech32Code (bv)

theorem prefixes : Gen.Merkle.leafHashPrefix = 0 ∧ Gen.Merkle.nodeHashPrefix = 1 := by decide

/-- everything else the package declares (imports, constants, types, variables, build constraints and the functions not
pinned one by one) is unchanged too: no declaration of the modelled packages can change without a tie theorem failing. -/
theorem rest :
    Gen.Merkle.rest_merkle = Expect.Merkle_rest_merkle :=
  rfl

/-! ### the functions, translated as code (`Gen.Merkle.code.*`), equal the model for all inputs
Proofs: `Iota/Tie/MerkleCode.lean` (also `hashNode_eq`, `hashLeaf_eq`, `EmptyRoot_eq`, `bitsLen64_eq`, `Hash_fuel_irrelevant`).
`hash_sum` is the hash function of the `Hasher` as the translation sees it (bytes written ↦ digest); `H` is the same function
on the model's bytes (`hH`; `MerkleCode.exists_H`: every `hash_sum` has such an `H`).  A leaf is the pair `(bytes, error)` its
`MarshalBinary` returns; `MerkleCode.decLeaf` reads it as the model's `.ok bytes` / `.error e`. -/

/-- **The Go function `largestPowerOfTwo`, translated statement by statement, returns for every `int` `n ≥ 2` the value the
model uses as split point, `1 << ((bits.Len(n-1) - 1) & 63)`, and panics exactly for the `int`s `x ≤ 1`.** -/
theorem code_largestPowerOfTwo :
    (∀ n : Nat, 2 ≤ n → n < 2 ^ 63 →
      Gen.Merkle.code.largestPowerOfTwo (BitVec.ofNat 64 n) = some (BitVec.ofNat 64 (Merkle.largestPowerOfTwo n))) ∧
    (∀ x : BitVec 64, Gen.Merkle.code.largestPowerOfTwo x = none ↔ x.toInt ≤ 1) :=
  ⟨MerkleCode.largestPowerOfTwo_eq, MerkleCode.largestPowerOfTwo_none_iff⟩

/-- **The Go method `Hasher.Hash`, translated statement by statement (recursion included), computes exactly the model's
`Merkle.hash` — the function C15 is proved about — for every hash function, every list of fewer than 2^63 leaves and every
amount of fuel that is at least 1 and at least the number of leaves: it returns `(root, nil)` where the model returns the
root and `(nil, err)` where the model returns the first marshaling error.** -/
theorem code_hash (hash_sum : List (BitVec 8) → List (BitVec 8)) (H : Merkle.Bytes → Merkle.Bytes)
    (hH : ∀ x, hash_sum (bv x) = bv (H x)) (fuel : Nat) (data : List (List (BitVec 8) × Option String))
    (h63 : data.length < 2 ^ 63) (hf : data.length ≤ fuel) (hf0 : 0 < fuel) :
    Gen.Merkle.code.Hasher_Hash hash_sum fuel data =
      some (match Merkle.hash H (data.map MerkleCode.decLeaf) with
        | .ok r => (bv r, none)
        | .error e => ([], some e)) :=
  MerkleCode.Hash_eq hash_sum H hH fuel data h63 hf hf0

/-- **`Hasher.Hash` never panics: for no hash function and no list of leaves does it reach the `panic` of
`largestPowerOfTwo` or slice out of bounds (and `len(data)` levels of recursion, at least one, are enough).** -/
theorem code_hash_never_panics (hash_sum : List (BitVec 8) → List (BitVec 8)) (fuel : Nat)
    (data : List (List (BitVec 8) × Option String)) (h63 : data.length < 2 ^ 63)
    (hf : data.length ≤ fuel) (hf0 : 0 < fuel) :
    Gen.Merkle.code.Hasher_Hash hash_sum fuel data ≠ none :=
  MerkleCode.Hash_never_panics hash_sum fuel data h63 hf hf0

end Iota.Tie.C15
