/- Tie for C15: regenerated facts of pkg/merkle/merkle.go. -/
import Iota.Gen.Merkle
import Iota.Tie.Expect
import Iota.Proofs.Vectors.Hash

namespace Iota.Tie.C15
open Iota

theorem prefixes : Gen.Merkle.leafHashPrefix = 0 ∧ Gen.Merkle.nodeHashPrefix = 1 := by decide

/-- the model (Iota/Model/Merkle.lean) was written from exactly this code -/
theorem src :
    Gen.Merkle.src_merkle_Hasher_EmptyRoot = Expect.Merkle_src_merkle_Hasher_EmptyRoot ∧
    Gen.Merkle.src_merkle_Hasher_Hash = Expect.Merkle_src_merkle_Hasher_Hash ∧
    Gen.Merkle.src_merkle_Hasher_hashLeaf = Expect.Merkle_src_merkle_Hasher_hashLeaf ∧
    Gen.Merkle.src_merkle_Hasher_hashNode = Expect.Merkle_src_merkle_Hasher_hashNode ∧
    Gen.Merkle.src_merkle_largestPowerOfTwo = Expect.Merkle_src_merkle_largestPowerOfTwo :=
  ⟨rfl, rfl, rfl, rfl, rfl⟩

/-- everything else the package declares (imports, constants, types, variables, build constraints and the functions not
pinned one by one) is unchanged too: no declaration of the modelled packages can change without a tie theorem failing. -/
theorem rest :
    Gen.Merkle.rest_merkle = Expect.Merkle_rest_merkle :=
  rfl

end Iota.Tie.C15
