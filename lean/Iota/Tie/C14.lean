/-
Tie for C14: the facts regenerated from pkg/encoding/b1t6, b1t8 and iota.go/trinary
agree with the hand-written model the theorems are about.
-/
import Iota.Gen.B1T6
import Iota.Tie.Expect
import Iota.Model.B1T6
import Iota.Tie.B1T8Code
import Iota.Tie.BV
import Iota.Tie.B1T6Code

namespace Iota.Tie.C14
open Iota

theorem encodeGroup_eq : ∀ n, n < 256 →
    ((Gen.B1T6.encodeGroup (BitVec.ofNat 8 n)).1.toInt, (Gen.B1T6.encodeGroup (BitVec.ofNat 8 n)).2.toInt)
      = B1T6.encodeGroup (UInt8.ofNat n) := by decide +kernel

/-- on all pairs of tryte values (the only arguments the callers produce from valid input) -/
theorem decodeGroup_eq : ∀ a : Nat, a < 27 → ∀ b : Nat, b < 27 →
    Gen.B1T6.decodeGroup (BitVec.ofInt 8 ((a : Int) - 13)) (BitVec.ofInt 8 ((b : Int) - 13))
      = (match B1T6.decodeGroup ((a : Int) - 13) ((b : Int) - 13) with
         | some x => (x.toBitVec, true)
         | none => (0#8, false)) := by decide +kernel

theorem luts :
    Gen.B1T6.tryteValueToTritsLUT = B1T6.tryteValueToTritsLUT ∧
    Gen.B1T6.tryteValueToTryteLUT = B1T6.tryteValueToTryteLUT.map (fun c => (c.toNat : Int)) ∧
    Gen.B1T6.tryteToTryteValueLUT = B1T6.tryteToTryteValueLUT ∧
    Gen.B1T6.minTryteValue = -13 ∧ Gen.B1T6.tritsPerByte = 6 ∧ Gen.B1T6.trytesPerByte = 2 ∧
    Gen.B1T6.b1t8TritsPerByte = 8 := by decide +kernel

theorem b1t8_masks : Gen.B1T6.b1t8Masks = [1,2,4,8,16,32,64,128] ∧
    Gen.B1T6.b1t8Shifts = [0,1,2,3,4,5,6,7] := by decide

/-- pow and migration import iota.go's copy of b1t6; it is the same code. -/
theorem iotaGoCopy : Gen.B1T6.iotaGoCopyIdentical = true := by decide

/-! Neither b1t6.go nor b1t8.go is pinned by text any more: all their functions — and the four functions of iota.go's
`trinary` package that b1t6 calls — are translated as code and tied to the model in `Iota/Tie/B1T6Code.lean` and
`Iota/Tie/B1T8Code.lean` (re-exported below as `code_*`): for all inputs of realistic length where the model is total
(encoders, b1t8, the `trinary` helpers), and on the documented domain (trits in {-1,0,1}, characters `'9'…'Z'`) for the
b1t6 decoders, whose behaviour outside it is characterised separately (`decode_gen`, `decodeTrytes_gen`). -/

/-- everything else the package declares (imports, constants, types, variables, build constraints and the functions not
pinned one by one) is unchanged too: no declaration of the modelled packages can change without a tie theorem failing. -/
theorem rest :
    Gen.B1T6.rest_b1t6 = Expect.B1T6_rest_b1t6 ∧
    Gen.B1T6.rest_b1t8 = Expect.B1T6_rest_b1t8 :=
  ⟨rfl, rfl⟩

/-! ### b1t8 `Encode` / `Decode` translated AS CODE (output buffer, reslicing loop, nested loop with early return)
= the model, for all inputs; `none` = Go run-time panic (destination too short). `trits`/`ofTrits` convert between Go's
`int8` and the model's `Int` trits, `bv` between `UInt8` and `BitVec 8`. Proofs: `Iota/Tie/B1T8Code.lean`. -/
open Iota.Tie.Bech32Code (bv) in
open Iota.Tie.B1T8Code in
theorem code_b1t8_encode (dst : List (BitVec 8)) (src : List UInt8) :
    (8 * src.length ≤ dst.length → Gen.B1T6.b1t8.Encode dst (bv src) =
      some (BitVec.ofNat 64 (8 * src.length), ofTrits (B1T8.encode src) ++ dst.drop (8 * src.length))) ∧
    (dst.length < 8 * src.length → Gen.B1T6.b1t8.Encode dst (bv src) = none) :=
  ⟨encode_eq dst src, encode_panics dst src⟩
open Iota.Tie.Bech32Code (bv) in
open Iota.Tie.B1T8Code in
theorem code_b1t8_decode (dst src : List (BitVec 8)) (hlen : src.length < 2 ^ 63) :
    ((B1T8.decode (trits src)).1.length ≤ dst.length → Gen.B1T6.b1t8.Decode dst src =
      some (BitVec.ofNat 64 (B1T8.decode (trits src)).1.length, errOf (B1T8.decode (trits src)).2,
        bv (B1T8.decode (trits src)).1 ++ dst.drop (B1T8.decode (trits src)).1.length)) ∧
    (dst.length < (B1T8.decode (trits src)).1.length → Gen.B1T6.b1t8.Decode dst src = none) :=
  ⟨decode_eq dst src hlen, decode_panics dst src hlen⟩

/-! ### b1t6.go — and the four functions of iota.go's `trinary` package it calls — translated AS CODE = the model
(`Gen.B1T6.b1t6.*`, `Gen.B1T6.trinary.*`; `none` = Go run-time panic). Proofs: `Iota/Tie/B1T6Code.lean`, which also
characterises `Decode` / `DecodeTrytes` on input outside their documented domain (`decode_gen`, `decodeTrytes_gen`). -/
open Iota.Tie.Bech32Code (bv) in
open Iota.Tie.B1T8Code (trits ofTrits) in
open Iota.Tie.B1T6Code in
/-- the `trinary` helpers, for ALL arguments: exactly when they panic, and the model's table lookups otherwise -/
theorem code_trinary :
    (∀ (ts : List (BitVec 8)) (v : BitVec 8), Gen.B1T6.trinary.MustPutTryteTrits ts v =
      if 3 ≤ ts.length ∧ -13 ≤ v.toInt ∧ v.toInt ≤ 13 then some (ofTrits (B1T6.tryteTrits v.toInt) ++ ts.drop 3) else none) ∧
    (∀ ts : List (BitVec 8), Gen.B1T6.trinary.MustTritsToTryteValue ts =
      if 3 ≤ ts.length then some (tv (ts.getD 0 0#8) (ts.getD 1 0#8) (ts.getD 2 0#8)) else none) ∧
    (∀ a b c : BitVec 8, tv a b c = BitVec.ofInt 8 (B1T6.tritsToTryteValue a.toInt b.toInt c.toInt)) ∧
    (∀ v : BitVec 8, Gen.B1T6.trinary.MustTryteValueToTryte v =
      if -13 ≤ v.toInt ∧ v.toInt ≤ 13 then some (B1T6.tryteChar v.toInt).toBitVec else none) ∧
    (∀ t : BitVec 8, Gen.B1T6.trinary.MustTryteToTryteValue t =
      if 57 ≤ t.toNat ∧ t.toNat ≤ 90 then some (BitVec.ofInt 8 (B1T6.tryteValue (UInt8.ofBitVec t))) else none) :=
  ⟨mustPutTryteTrits_eq, mustTritsToTryteValue_eq, tv_eq_ofInt, mustTryteValueToTryte_eq, mustTryteToTryteValue_eq⟩
open Iota.Tie.Bech32Code (bv) in
open Iota.Tie.B1T8Code (trits ofTrits) in
open Iota.Tie.B1T6Code in
theorem code_b1t6_encode (dst : List (BitVec 8)) (src : List UInt8) (hlen : src.length < 2 ^ 60) :
    (6 * src.length ≤ dst.length → Gen.B1T6.b1t6.Encode dst (bv src) =
      some (BitVec.ofNat 64 (6 * src.length), ofTrits (B1T6.encode src) ++ dst.drop (6 * src.length))) ∧
    (dst.length < 6 * src.length → Gen.B1T6.b1t6.Encode dst (bv src) = none) := encode_spec dst src hlen
open Iota.Tie.Bech32Code (bv) in
open Iota.Tie.B1T6Code in
theorem code_b1t6_encodeToTrytes (src : List UInt8) (hlen : src.length < 2 ^ 60) :
    Gen.B1T6.b1t6.EncodeToTrytes (bv src) = some (bv (B1T6.encodeToTrytes src)) := encodeToTrytes_eq src hlen
open Iota.Tie.Bech32Code (bv) in
open Iota.Tie.B1T8Code (trits) in
open Iota.Tie.B1T6Code in
/-- `Decode` on valid trits is the model (count, error kind, bytes, untouched rest of `dst`; panic exactly when `dst` is
too short), and on ARBITRARY int8 input it does not panic when `dst` has `DecodedLen(len(src))` entries -/
theorem code_b1t6_decode (dst src : List (BitVec 8)) (hn : src.length < 2 ^ 62) :
    (B1T6.ValidTrits (trits src) →
      ((B1T6.decode (trits src)).1.length ≤ dst.length → Gen.B1T6.b1t6.Decode dst src =
        some (BitVec.ofNat 64 (B1T6.decode (trits src)).1.length, errOf (B1T6.decode (trits src)).2,
          bv (B1T6.decode (trits src)).1 ++ dst.drop (B1T6.decode (trits src)).1.length)) ∧
      (dst.length < (B1T6.decode (trits src)).1.length → Gen.B1T6.b1t6.Decode dst src = none)) ∧
    (src.length / 6 ≤ dst.length → Gen.B1T6.b1t6.Decode dst src ≠ none) :=
  ⟨fun hv => decode_spec dst src hn hv, decode_no_panic dst src hn⟩
open Iota.Tie.Bech32Code (bv) in
open Iota.Tie.B1T6Code in
/-- `DecodeTrytes` on characters `'9'`…`'Z'` is the model and never panics; on a lower-case character it panics
(index out of range in iota.go's `MustTryteToTryteValue`; documented as undefined input, and `migration.Decode` checks the
alphabet first) -/
theorem code_b1t6_decodeTrytes (src : List UInt8) (hn : 3 * src.length < 2 ^ 63)
    (hc : ∀ c ∈ src, 57 ≤ c.toNat ∧ c.toNat ≤ 90) :
    (Gen.B1T6.b1t6.DecodeTrytes (bv src) =
      match B1T6.decodeTrytes src with
      | .ok bs => some (bv bs, none)
      | .error e => some ([], errOf (some e))) ∧
    Gen.B1T6.b1t6.DecodeTrytes [97#8, 97#8] = none :=
  ⟨decodeTrytes_eq src hn hc, decodeTrytes_lowercase_panics⟩

/-- the two length helpers of b1t8.go, translated as code: `8·n` and `n / 8` (as long as `8·n` does not overflow) -/
theorem code_b1t8_lens (n : Nat) (h : n < 2 ^ 60) :
    Gen.B1T6.b1t8.EncodedLen (BitVec.ofNat 64 n) = BitVec.ofNat 64 (n * 8) ∧
    Gen.B1T6.b1t8.DecodedLen (BitVec.ofNat 64 n) = BitVec.ofNat 64 (n / 8) := by
  constructor
  · unfold Gen.B1T6.b1t8.EncodedLen
    apply BitVec.eq_of_toNat_eq
    simp [BitVec.toNat_mul]
  · unfold Gen.B1T6.b1t8.DecodedLen
    exact Iota.Tie.Base32Code.sdiv_ofNat n 8 (by omega) (by decide)

end Iota.Tie.C14
