/-
Tie for C14: the facts regenerated from pkg/encoding/b1t6, b1t8 and iota.go/trinary
agree with the hand-written model the theorems are about.
-/
import Iota.Gen.B1T6
import Iota.Tie.Expect
import Iota.Model.B1T6
import Iota.Tie.B1T8Code

namespace Iota.Tie.C14
open Iota

theorem encodeGroup_eq : ∀ n, n < 256 →
    ((Gen.B1T6.encodeGroup (BitVec.ofNat 8 n)).1.toInt, (Gen.B1T6.encodeGroup (BitVec.ofNat 8 n)).2.toInt)
      = B1T6.encodeGroup (UInt8.ofNat n) := by decide +kernel

/-- on all pairs of tryte values (the only arguments the callers produce from valid input) -/
theorem decodeGroup_eq : ∀ a : Nat, a < 27 → ∀ b : Nat, b < 27 →
    Gen.B1T6.decodeGroup (BitVec.ofInt 8 ((a : Int) - 13)) (BitVec.ofInt 8 ((b : Int) - 13))
      = (match B1T6.decodeGroup ((a : Int) - 13) ((b : Int) - 13) with
         | some x => (x.toBitVec, true)
         | none => (0#8, false)) := by decide +kernel

theorem luts :
    Gen.B1T6.tryteValueToTritsLUT = B1T6.tryteValueToTritsLUT ∧
    Gen.B1T6.tryteValueToTryteLUT = B1T6.tryteValueToTryteLUT.map (fun c => (c.toNat : Int)) ∧
    Gen.B1T6.tryteToTryteValueLUT = B1T6.tryteToTryteValueLUT ∧
    Gen.B1T6.minTryteValue = -13 ∧ Gen.B1T6.tritsPerByte = 6 ∧ Gen.B1T6.trytesPerByte = 2 ∧
    Gen.B1T6.b1t8TritsPerByte = 8 := by decide +kernel

theorem b1t8_masks : Gen.B1T6.b1t8Masks = [1,2,4,8,16,32,64,128] ∧
    Gen.B1T6.b1t8Shifts = [0,1,2,3,4,5,6,7] := by decide

/-- pow and migration import iota.go's copy of b1t6; it is the same code. -/
theorem iotaGoCopy : Gen.B1T6.iotaGoCopyIdentical = true := by decide

/-- b1t8 `Encode` / `Decode` are not pinned by text any more: they are translated as code and tied to the model for
all inputs in `Iota/Tie/B1T8Code.lean`. -/
theorem src :
    Gen.B1T6.src_b1t6_Encode = Expect.B1T6_src_b1t6_Encode ∧
    Gen.B1T6.src_b1t6_EncodeToTrytes = Expect.B1T6_src_b1t6_EncodeToTrytes ∧
    Gen.B1T6.src_b1t6_Decode = Expect.B1T6_src_b1t6_Decode ∧
    Gen.B1T6.src_b1t6_DecodeTrytes = Expect.B1T6_src_b1t6_DecodeTrytes :=
  ⟨rfl, rfl, rfl, rfl⟩

/-- everything else the package declares (imports, constants, types, variables, build constraints and the functions not
pinned one by one) is unchanged too: no declaration of the modelled packages can change without a tie theorem failing. -/
theorem rest :
    Gen.B1T6.rest_b1t6 = Expect.B1T6_rest_b1t6 ∧
    Gen.B1T6.rest_b1t8 = Expect.B1T6_rest_b1t8 :=
  ⟨rfl, rfl⟩

/-! ### b1t8 `Encode` / `Decode` translated AS CODE (output buffer, reslicing loop, nested loop with early return)
= the model, for all inputs; `none` = Go run-time panic (destination too short). `trits`/`ofTrits` convert between Go's
`int8` and the model's `Int` trits, `bv` between `UInt8` and `BitVec 8`. Proofs: `Iota/Tie/B1T8Code.lean`. -/
open Iota.Tie.Bech32Code (bv) in
open Iota.Tie.B1T8Code in
theorem code_b1t8_encode (dst : List (BitVec 8)) (src : List UInt8) :
    (8 * src.length ≤ dst.length → Gen.B1T6.b1t8.Encode dst (bv src) =
      some (BitVec.ofNat 64 (8 * src.length), ofTrits (B1T8.encode src) ++ dst.drop (8 * src.length))) ∧
    (dst.length < 8 * src.length → Gen.B1T6.b1t8.Encode dst (bv src) = none) :=
  ⟨encode_eq dst src, encode_panics dst src⟩
open Iota.Tie.Bech32Code (bv) in
open Iota.Tie.B1T8Code in
theorem code_b1t8_decode (dst src : List (BitVec 8)) (hlen : src.length < 2 ^ 63) :
    ((B1T8.decode (trits src)).1.length ≤ dst.length → Gen.B1T6.b1t8.Decode dst src =
      some (BitVec.ofNat 64 (B1T8.decode (trits src)).1.length, errOf (B1T8.decode (trits src)).2,
        bv (B1T8.decode (trits src)).1 ++ dst.drop (B1T8.decode (trits src)).1.length)) ∧
    (dst.length < (B1T8.decode (trits src)).1.length → Gen.B1T6.b1t8.Decode dst src = none) :=
  ⟨decode_eq dst src hlen, decode_panics dst src hlen⟩

end Iota.Tie.C14
