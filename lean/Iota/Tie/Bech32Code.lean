/-
Code tie for pkg/bech32/checksum.go: the four functions `bech32Polymod`, `bech32HrpExpand`,
`bech32CreateChecksum`, `bech32VerifyChecksum` and the package variable `gen`, translated AS CODE
(loops included, Go `int` = 64-bit two's complement) by cmd/extract into `Iota/Gen/Bech32.lean`, are
equal FOR ALL INPUTS to the hand-written model `Iota/Model/Bech32.lean` the theorems are about.

Coercion: the translated code works on `List (BitVec 8)` (bytes of a `[]byte` / `string`), the model on
`List UInt8`.  `bv : List UInt8 → List (BitVec 8) := List.map UInt8.toBitVec` is a bijection
(inverse `List.map UInt8.ofBitVec`, `ofBitVec_bv`/`bv_ofBitVec`); every theorem is stated in both directions.

The key fact is the loop invariant `chk < 2^30` of `bech32Polymod`: the accumulator never comes near
bit 63, so the arithmetic shift is a logical one, `<< 5` does not wrap, and the `BitVec 64` operations
agree with the `Nat` operations of the model.  It holds for ARBITRARY bytes (not only symbols < 32).
-/
import Iota.Gen.Bech32
import Iota.Tie.BV
import Iota.Model.Bech32

namespace Iota.Tie.Bech32Code
open Iota

/-! ### `gen` -/

/-- the package variable as translated for the code is the generator table of the model (and the
`List Int` rendering of it used by `Iota.Tie.Bech32.gen_eq`) -/
theorem var_gen_eq : Gen.Bech32.var_gen.map BitVec.toNat = Bech32.gen := by decide
theorem var_gen_eq_gen : Gen.Bech32.var_gen = Gen.Bech32.gen.map (BitVec.ofInt 64) := by decide

/-! ### `bech32HrpExpand` -/

theorem foldl_append_singleton {α β : Type} (f : α → β) (l : List α) (init : List β) :
    List.foldl (fun res x => res ++ [f x]) init l = init ++ l.map f := by
  induction l generalizing init with
  | nil => simp
  | cons a l ih => simp [ih]

theorem toBitVec_shr5 (x : UInt8) : (x >>> 5).toBitVec = x.toBitVec >>> 5 := by
  rw [UInt8.toBitVec_shiftRight]; rfl
theorem toBitVec_and31 (x : UInt8) : (x &&& 31).toBitVec = x.toBitVec &&& 31#8 := by
  rw [UInt8.toBitVec_and]; rfl

theorem hrpExpand_eq (s : List UInt8) :
    Gen.Bech32.bech32HrpExpand (bv s) = bv (Bech32.hrpExpand s) := by
  unfold Gen.Bech32.bech32HrpExpand Bech32.hrpExpand
  simp only [foldl_append_singleton, bv, List.nil_append, List.map_append, List.map_map, List.map_cons,
    List.map_nil]
  have e1 : ((fun x : BitVec 8 => x >>> 5) ∘ UInt8.toBitVec) = (UInt8.toBitVec ∘ fun (x : UInt8) => x >>> 5) := by
    funext x; exact (toBitVec_shr5 x).symm
  have e2 : ((fun x : BitVec 8 => x &&& 31#8) ∘ UInt8.toBitVec) = (UInt8.toBitVec ∘ fun (x : UInt8) => x &&& 31) := by
    funext x; exact (toBitVec_and31 x).symm
  rw [e1, e2]
  rfl

/-! ### `bech32Polymod` -/

/-- the inner loop `for i := range gen { if (b>>i)&1 != 0 { chk ^= gen[i] } }`, as generated -/
def inner (b chk : BitVec 64) : BitVec 64 :=
  List.foldl (fun (chk : BitVec 64) (i : BitVec 64) =>
      (if (((BitVec.sshiftRight b i.toNat) &&& 1#64) != 0#64) then
        (chk ^^^ (Gen.Bech32.var_gen.getD i.toNat 0#64)) else chk)) chk
    ((List.range Gen.Bech32.var_gen.length).map (BitVec.ofNat 64))

/-- the body of the outer loop, as generated -/
def step (chk : BitVec 64) (v : BitVec 8) : BitVec 64 :=
  let b : BitVec 64 := (BitVec.sshiftRight chk 25)
  let chk : BitVec 64 := (((chk &&& 33554431#64) <<< 5) ^^^ (BitVec.setWidth 64 v))
  inner b chk

theorem polymod_unfold (values : List (BitVec 8)) :
    Gen.Bech32.bech32Polymod values = values.foldl step 1#64 := rfl

theorem foldl_xor_factor (c : BitVec 64 → Bool) (g : BitVec 64 → BitVec 64) (l : List (BitVec 64))
    (chk : BitVec 64) :
    List.foldl (fun chk i => if c i then chk ^^^ g i else chk) chk l =
      chk ^^^ List.foldl (fun chk i => if c i then chk ^^^ g i else chk) 0#64 l := by
  induction l generalizing chk with
  | nil => simp
  | cons a l ih =>
    simp only [List.foldl_cons]
    rw [ih, ih (if c a then 0#64 ^^^ g a else 0#64)]
    split <;> simp [BitVec.xor_assoc]

theorem inner_factor (b chk : BitVec 64) : inner b chk = chk ^^^ inner b 0#64 := by
  unfold inner
  exact foldl_xor_factor (fun i => ((BitVec.sshiftRight b i.toNat) &&& 1#64) != 0#64)
    (fun i => Gen.Bech32.var_gen.getD i.toNat 0#64) _ chk

/-- the inner loop computes the `genMix` of the model, for every possible `b = chk >> 25` (`< 32`) -/
theorem inner_zero : ∀ n : Nat, n < 32 →
    inner (BitVec.ofNat 64 n) 0#64 = BitVec.ofNat 64 (Bech32.genMix n) := by decide +kernel

theorem genMix_lt : ∀ n : Nat, n < 32 → Bech32.genMix n < 2 ^ 30 := by decide +kernel

theorem and_mask_lt (c : Nat) : c &&& 33554431 < 2 ^ 25 := by
  have h : c &&& (2 ^ 25 - 1) = c % 2 ^ 25 := Nat.and_two_pow_sub_one_eq_mod c 25
  have h2 : c &&& 33554431 = c % 2 ^ 25 := h
  rw [h2]; exact Nat.mod_lt _ (by omega)

/-- one iteration: below 2^30 the translated step is the model step, and stays below 2^30 -/
theorem step_eq (c : BitVec 64) (v : UInt8) (hc : c.toNat < 2 ^ 30) :
    (step c v.toBitVec).toNat = Bech32.polymodStep c.toNat v ∧
    (step c v.toBitVec).toNat < 2 ^ 30 := by
  have hmsb : c.msb = false := by
    rw [BitVec.msb_eq_false_iff_two_mul_lt]; omega
  have hb : (BitVec.sshiftRight c 25) = BitVec.ofNat 64 (c.toNat >>> 25) := by
    rw [BitVec.sshiftRight_eq_of_msb_false hmsb]
    apply BitVec.eq_of_toNat_eq
    rw [BitVec.toNat_ushiftRight, BitVec.toNat_ofNat]
    have : c.toNat >>> 25 ≤ c.toNat := Nat.shiftRight_le _ _
    omega
  have hn : c.toNat >>> 25 < 32 := by
    rw [Nat.shiftRight_eq_div_pow]; omega
  have hg := genMix_lt _ hn
  have hm := and_mask_lt c.toNat
  have hsh : (c.toNat &&& 33554431) <<< 5 < 2 ^ 30 := by
    rw [Nat.shiftLeft_eq]; omega
  have hv : v.toNat < 2 ^ 30 := by have := v.toNat_lt; omega
  have hval : (step c v.toBitVec).toNat = Bech32.polymodStep c.toNat v := by
    unfold step Bech32.polymodStep
    simp only []
    rw [inner_factor, hb, inner_zero _ hn]
    simp only [BitVec.toNat_xor, BitVec.toNat_shiftLeft, BitVec.toNat_and, BitVec.toNat_setWidth,
      BitVec.toNat_ofNat, UInt8.toNat_toBitVec]
    have e1 : (c.toNat &&& 33554431 % 2 ^ 64) <<< 5 % 2 ^ 64 = (c.toNat &&& 0x1ffffff) <<< 5 := by
      have : (33554431 : Nat) % 2 ^ 64 = 33554431 := by decide
      rw [this]
      exact Nat.mod_eq_of_lt (by omega)
    have e2 : v.toNat % 2 ^ 64 = v.toNat := Nat.mod_eq_of_lt (by omega)
    have e3 : Bech32.genMix (c.toNat >>> 25) % 2 ^ 64 = Bech32.genMix (c.toNat >>> 25) :=
      Nat.mod_eq_of_lt (by omega)
    rw [e1, e2, e3]
  refine ⟨hval, ?_⟩
  rw [hval]
  unfold Bech32.polymodStep
  exact Nat.xor_lt_two_pow (Nat.xor_lt_two_pow hsh hv) hg

theorem foldl_step_eq (vs : List UInt8) (c : BitVec 64) (hc : c.toNat < 2 ^ 30) :
    ((bv vs).foldl step c).toNat = vs.foldl Bech32.polymodStep c.toNat ∧
    ((bv vs).foldl step c).toNat < 2 ^ 30 := by
  induction vs generalizing c with
  | nil => exact ⟨rfl, hc⟩
  | cons v vs ih =>
    have h := step_eq c v hc
    have := ih (step c v.toBitVec) h.2
    simp only [bv, List.map_cons, List.foldl_cons] at this ⊢
    rw [← h.1]
    exact this

/-- `bech32Polymod`, for arbitrary bytes: the translated code computes the model's `polymod` -/
theorem polymod_toNat (values : List UInt8) :
    (Gen.Bech32.bech32Polymod (bv values)).toNat = Bech32.polymod values := by
  rw [polymod_unfold]
  exact (foldl_step_eq values 1#64 (by decide)).1

/-- the loop invariant, for arbitrary bytes: no 64-bit wrap-around can occur -/
theorem polymod_lt (values : List UInt8) : (Gen.Bech32.bech32Polymod (bv values)).toNat < 2 ^ 30 := by
  rw [polymod_unfold]
  exact (foldl_step_eq values 1#64 (by decide)).2

theorem model_polymod_lt (values : List UInt8) : Bech32.polymod values < 2 ^ 30 := by
  rw [← polymod_toNat]; exact polymod_lt values

theorem polymod_eq (values : List UInt8) :
    Gen.Bech32.bech32Polymod (bv values) = BitVec.ofNat 64 (Bech32.polymod values) := by
  apply BitVec.eq_of_toNat_eq
  rw [polymod_toNat, BitVec.toNat_ofNat]
  have := model_polymod_lt values
  omega

/-- as a Go `int` the result is non-negative: the signed reading is the same number -/
theorem polymod_toInt (values : List UInt8) :
    (Gen.Bech32.bech32Polymod (bv values)).toInt = (Bech32.polymod values : Int) := by
  have h := polymod_lt values
  rw [BitVec.toInt_eq_toNat_of_lt (by omega), polymod_toNat]

/-! ### `bech32VerifyChecksum` -/

theorem verifyChecksum_eq (hrp data : List UInt8) :
    Gen.Bech32.bech32VerifyChecksum (bv hrp) (bv data) = Bech32.verifyChecksum hrp data := by
  unfold Gen.Bech32.bech32VerifyChecksum Bech32.verifyChecksum
  rw [hrpExpand_eq, ← bv_append, polymod_eq]
  have h := model_polymod_lt (Bech32.hrpExpand hrp ++ data)
  generalize Bech32.polymod (Bech32.hrpExpand hrp ++ data) = n at h
  by_cases hn : n = 1
  · subst hn; rfl
  · have : BitVec.ofNat 64 n ≠ 1#64 := by
      intro e
      have := congrArg BitVec.toNat e
      rw [BitVec.toNat_ofNat] at this
      have h1 : (1#64 : BitVec 64).toNat = 1 := rfl
      omega
    rw [beq_eq_false_iff_ne.mpr this, beq_eq_false_iff_ne.mpr hn]

/-! ### `bech32CreateChecksum` -/

/-- one output symbol: `byte((polymod >> k) & 31)` on a non-negative `int` below 2^63 -/
theorem field_eq (n k : Nat) (hn : n < 2 ^ 63) :
    BitVec.setWidth 8 ((BitVec.sshiftRight (BitVec.ofNat 64 n) k) &&& 31#64) =
      (UInt8.ofNat ((n >>> k) &&& 31)).toBitVec := by
  have hmsb : (BitVec.ofNat 64 n).msb = false := by
    rw [BitVec.msb_eq_false_iff_two_mul_lt, BitVec.toNat_ofNat]; omega
  rw [BitVec.sshiftRight_eq_of_msb_false hmsb]
  apply BitVec.eq_of_toNat_eq
  rw [BitVec.toNat_setWidth, BitVec.toNat_and, BitVec.toNat_ushiftRight, BitVec.toNat_ofNat,
    Nat.mod_eq_of_lt (by omega : n < 2 ^ 64)]
  show _ = ((n >>> k) &&& 31) % 2 ^ 8
  rfl

/-- the shift counts `5 * (5 - i)` of the loop, evaluated in 64-bit arithmetic: all non-negative -/
theorem shift_counts :
    ((List.range 6).map (BitVec.ofNat 64)).map (fun i => (5#64 * (5#64 - i)).toNat) =
      (List.range 6).map (fun i => 5 * (5 - i)) := by decide

theorem createChecksum_eq (hrp blocks : List UInt8) :
    Gen.Bech32.bech32CreateChecksum (bv hrp) (bv blocks) = bv (Bech32.createChecksum hrp blocks) := by
  unfold Gen.Bech32.bech32CreateChecksum Bech32.createChecksum
  have hz : ([0#8, 0#8, 0#8, 0#8, 0#8, 0#8] : List (BitVec 8)) = bv [0, 0, 0, 0, 0, 0] := rfl
  simp only []
  rw [hrpExpand_eq, hz, ← bv_append, ← bv_append, polymod_eq]
  have h := model_polymod_lt (Bech32.hrpExpand hrp ++ blocks ++ [0, 0, 0, 0, 0, 0])
  generalize Bech32.polymod (Bech32.hrpExpand hrp ++ blocks ++ [0, 0, 0, 0, 0, 0]) = n at h
  have hx : BitVec.ofNat 64 n ^^^ 1#64 = BitVec.ofNat 64 (n ^^^ 1) := by
    apply BitVec.eq_of_toNat_eq
    rw [BitVec.toNat_xor, BitVec.toNat_ofNat, BitVec.toNat_ofNat, BitVec.toNat_ofNat]
    have h1 : (1 : Nat) % 2 ^ 64 = 1 := by decide
    have : n ^^^ 1 < 2 ^ 30 := Nat.xor_lt_two_pow h (by omega)
    rw [h1, Nat.mod_eq_of_lt (by omega : n < 2 ^ 64), Nat.mod_eq_of_lt (by omega : n ^^^ 1 < 2 ^ 64)]
  rw [hx]
  have hm : n ^^^ 1 < 2 ^ 63 := by
    have : n ^^^ 1 < 2 ^ 30 := Nat.xor_lt_two_pow h (by omega)
    omega
  generalize n ^^^ 1 = m at hm
  have hr : ((List.range (List.replicate 6 (0#8 : BitVec 8)).length).map (BitVec.ofNat 64)) =
      [0#64, 1#64, 2#64, 3#64, 4#64, 5#64] := by decide
  rw [hr]
  simp only [List.foldl_cons, List.foldl_nil, field_eq _ _ hm]
  rfl

/-! ### the same statements for arbitrary inputs of the translated code -/

theorem hrpExpand_eq' (s : List (BitVec 8)) :
    (Gen.Bech32.bech32HrpExpand s).map UInt8.ofBitVec = Bech32.hrpExpand (s.map UInt8.ofBitVec) := by
  have := hrpExpand_eq (s.map UInt8.ofBitVec)
  rw [bv_ofBitVec] at this
  rw [this, ofBitVec_bv]

theorem polymod_toNat' (values : List (BitVec 8)) :
    (Gen.Bech32.bech32Polymod values).toNat = Bech32.polymod (values.map UInt8.ofBitVec) := by
  have := polymod_toNat (values.map UInt8.ofBitVec)
  rwa [bv_ofBitVec] at this

theorem createChecksum_eq' (hrp blocks : List (BitVec 8)) :
    (Gen.Bech32.bech32CreateChecksum hrp blocks).map UInt8.ofBitVec =
      Bech32.createChecksum (hrp.map UInt8.ofBitVec) (blocks.map UInt8.ofBitVec) := by
  have := createChecksum_eq (hrp.map UInt8.ofBitVec) (blocks.map UInt8.ofBitVec)
  rw [bv_ofBitVec, bv_ofBitVec] at this
  rw [this, ofBitVec_bv]

theorem verifyChecksum_eq' (hrp data : List (BitVec 8)) :
    Gen.Bech32.bech32VerifyChecksum hrp data =
      Bech32.verifyChecksum (hrp.map UInt8.ofBitVec) (data.map UInt8.ofBitVec) := by
  have := verifyChecksum_eq (hrp.map UInt8.ofBitVec) (data.map UInt8.ofBitVec)
  rwa [bv_ofBitVec, bv_ofBitVec] at this

end Iota.Tie.Bech32Code
