/-
Code tie for pkg/bech32/internal/base32/base32.go: `EncodedLen`, `DecodedLen`, `Encode`, `Decode`, translated AS CODE by
cmd/extract into `Iota/Gen/Bech32.lean` (namespace `Gen.Bech32.base32`; `none` = run-time panic), against the models
`encodedLen`, `decodedLen`, `b32Encode`, `b32Decode` of `Iota/Model/Bech32.lean`, FOR ALL INPUTS.

The Go code uses a `switch len(src)` with `default:` first and `fallthrough` through all clauses, `break` out of
the `for len(src) > 0` loop, a tagless `switch` for the padding test and `&CorruptInputError{Err…, offset}` errors; the
translator renders the clauses of a switch as consecutive conditionals on the tag (evaluated once), the loop as
`Go.whileFuelB` (body result `(true, state)` = `break`), and the errors as `some (name, offset)`.

Coercions: bytes `bv : List UInt8 → List (BitVec 8)` as in `Bech32Code`; `error` ↦ `errOf`.

`dst` is an OUTPUT BUFFER (translated under the assumption, checked by cmd/extract at the two call sites, that it does
not overlap `src`): the functions take the content of the slice passed as `dst` and return, as last component, its
content on return.  Results:
* `Encode dst src` (`encode_spec`, `len(src) < 2^63`): panics iff `len(dst) < EncodedLen(len(src))`; otherwise returns
  the 64-bit `EncodedLen(len(src))` (= the model's `encodedLen` iff `len(src) < 2^60`, `EncodedLen_eq`,
  `EncodedLen_overflow`) and `dst` = `b32Encode src` followed by the untouched entries.  So the true minimal
  destination is `EncodedLen(len(src))`: 8 per full group, 2 / 4 / 5 / 7 for a last group of 1 / 2 / 3 / 4 bytes.
* `Decode dst src` (`decode_spec`, `len(src) < 2^63`, symbols are arbitrary bytes): panics iff
  `len(dst) < minDst(len(src))`, where `minDst n = DecodedLen(n)` except for `n % 8 ∈ {3, 6}`, where it is `5 * (n / 8)`
  (1 resp. 3 less: the error is returned before the last group is written).  Otherwise it returns
  `(len(decBytes src), errOf (b32Decode src))` and `dst` = `decBytes src` followed by the untouched entries, where
  `decBytes src` are the bytes written when the function returns.  The model's `Except` keeps only one of the two: on
  `.ok bytes`, `decBytes src = bytes` (`decode_ok`); on `.error (e, off)` the error is `&CorruptInputError{e, off}` and
  `decBytes src` is what was decoded before it (`decode_error`, `written_invalidLength`, `written_nonZeroPadding`).
* with the destinations the callers in pkg/bech32/bech32.go allocate neither function panics (`encode_caller`,
  `decode_caller`, `encode_exact`, `decode_exact`, `encode_no_panic`, `decode_no_panic`).
-/
import Iota.Proofs.Base32
import Iota.Gen.Bech32
import Iota.Model.Bech32
import Iota.Tie.GoFlow
import Iota.Tie.Bech32Code

namespace Iota.Tie.Base32Code
open Iota Iota.Go Iota.Bech32
open Iota.Tie.Bech32Code (bv)
open Iota.Proofs.Base32

/-! ### 64-bit arithmetic on lengths -/

/-- `EncodedLen` in 64-bit arithmetic is the model's `encodedLen` as long as `n*8 + 4` does not overflow: `n < 2^60` -/
theorem EncodedLen_eq (n : Nat) (h : n < 2 ^ 60) :
    Gen.Bech32.base32.EncodedLen (BitVec.ofNat 64 n) = BitVec.ofNat 64 (encodedLen n) := by
  unfold Gen.Bech32.base32.EncodedLen encodedLen
  have : BitVec.ofNat 64 n * 8#64 + 4#64 = BitVec.ofNat 64 (n * 8 + 4) := by
    apply BitVec.eq_of_toNat_eq; simp [BitVec.toNat_add, BitVec.toNat_mul]
  rw [this]
  exact sdiv_ofNat (n * 8 + 4) 5 (by omega) (by decide)

/-- the bound is sharp: for `n = 2^60` the sum `n*8 + 4` is negative as an `int` -/
theorem EncodedLen_overflow :
    Gen.Bech32.base32.EncodedLen (BitVec.ofNat 64 (2 ^ 60)) ≠ BitVec.ofNat 64 (encodedLen (2 ^ 60)) := by decide

theorem decodedLen_def (n : Nat) : decodedLen n = n * 5 / 8 := rfl

/-- `DecodedLen` likewise, as long as `n*5` does not overflow -/
theorem DecodedLen_eq (n : Nat) (h : n * 5 < 2 ^ 63) :
    Gen.Bech32.base32.DecodedLen (BitVec.ofNat 64 n) = BitVec.ofNat 64 (decodedLen n) := by
  unfold Gen.Bech32.base32.DecodedLen
  rw [decodedLen_def]
  have : BitVec.ofNat 64 n * 5#64 = BitVec.ofNat 64 (n * 5) := by
    apply BitVec.eq_of_toNat_eq; simp [BitVec.toNat_mul]
  rw [this]
  exact sdiv_ofNat (n * 5) 8 h (by decide)

/-! ### `Encode` -/

abbrev Buf := List (BitVec 8) × List (BitVec 8)
abbrev ER := BitVec 64 × List (BitVec 8)
abbrev ESt := Buf × List (BitVec 8)

def encCond (st_1 : ESt) : Bool :=
      let src : List (BitVec 8) := st_1.2
      (BitVec.slt 0#64 (BitVec.ofNat 64 src.length))

/-- `default:` — runs for `len(src) ∉ {4,3,2,1}` -/
def encC5 (sw_2 : BitVec 64) (src : List (BitVec 8)) (dst : Buf) (carry : BitVec 8) : Flow ER (Buf × BitVec 8) :=
      (if (!((sw_2 == 4#64) || (sw_2 == 3#64) || (sw_2 == 2#64) || (sw_2 == 1#64))) then
          if !(decide (7 < dst.2.length)) then Go.Flow.panic else
          if !(decide (4 < src.length)) then Go.Flow.panic else
          let dst : (List (BitVec 8) × List (BitVec 8)) := (dst.1, dst.2.set 7 ((src.getD 4 0#8) &&& 31#8))
          if !(decide (4 < src.length)) then Go.Flow.panic else
          let carry : BitVec 8 := ((src.getD 4 0#8) >>> 5)
          Go.Flow.run (dst, carry)
        else
          Go.Flow.run (dst, carry))

/-- `case 4:` — also reached by fallthrough from `default` -/
def encC4 (sw_2 : BitVec 64) (src : List (BitVec 8)) (dst : Buf) (carry : BitVec 8) : Flow ER (Buf × BitVec 8) :=
      (if ((!((sw_2 == 4#64) || (sw_2 == 3#64) || (sw_2 == 2#64) || (sw_2 == 1#64))) || (sw_2 == 4#64)) then
          if !(decide (6 < dst.2.length)) then Go.Flow.panic else
          if !(decide (3 < src.length)) then Go.Flow.panic else
          let dst : (List (BitVec 8) × List (BitVec 8)) := (dst.1, dst.2.set 6 (carry ||| (((src.getD 3 0#8) <<< 3) &&& 31#8)))
          if !(decide (5 < dst.2.length)) then Go.Flow.panic else
          if !(decide (3 < src.length)) then Go.Flow.panic else
          let dst : (List (BitVec 8) × List (BitVec 8)) := (dst.1, dst.2.set 5 (((src.getD 3 0#8) >>> 2) &&& 31#8))
          if !(decide (3 < src.length)) then Go.Flow.panic else
          let carry : BitVec 8 := ((src.getD 3 0#8) >>> 7)
          Go.Flow.run (dst, carry)
        else
          Go.Flow.run (dst, carry))

def encC3 (sw_2 : BitVec 64) (src : List (BitVec 8)) (dst : Buf) (carry : BitVec 8) : Flow ER (Buf × BitVec 8) :=
      (if ((!((sw_2 == 4#64) || (sw_2 == 3#64) || (sw_2 == 2#64) || (sw_2 == 1#64))) || (sw_2 == 4#64) || (sw_2 == 3#64)) then
          if !(decide (4 < dst.2.length)) then Go.Flow.panic else
          if !(decide (2 < src.length)) then Go.Flow.panic else
          let dst : (List (BitVec 8) × List (BitVec 8)) := (dst.1, dst.2.set 4 (carry ||| (((src.getD 2 0#8) <<< 1) &&& 31#8)))
          if !(decide (2 < src.length)) then Go.Flow.panic else
          let carry : BitVec 8 := (((src.getD 2 0#8) >>> 4) &&& 31#8)
          Go.Flow.run (dst, carry)
        else
          Go.Flow.run (dst, carry))

def encC2 (sw_2 : BitVec 64) (src : List (BitVec 8)) (dst : Buf) (carry : BitVec 8) : Flow ER (Buf × BitVec 8) :=
      (if ((!((sw_2 == 4#64) || (sw_2 == 3#64) || (sw_2 == 2#64) || (sw_2 == 1#64))) || (sw_2 == 4#64) || (sw_2 == 3#64) || (sw_2 == 2#64)) then
          if !(decide (3 < dst.2.length)) then Go.Flow.panic else
          if !(decide (1 < src.length)) then Go.Flow.panic else
          let dst : (List (BitVec 8) × List (BitVec 8)) := (dst.1, dst.2.set 3 (carry ||| (((src.getD 1 0#8) <<< 4) &&& 31#8)))
          if !(decide (2 < dst.2.length)) then Go.Flow.panic else
          if !(decide (1 < src.length)) then Go.Flow.panic else
          let dst : (List (BitVec 8) × List (BitVec 8)) := (dst.1, dst.2.set 2 (((src.getD 1 0#8) >>> 1) &&& 31#8))
          if !(decide (1 < src.length)) then Go.Flow.panic else
          let carry : BitVec 8 := (((src.getD 1 0#8) >>> 6) &&& 31#8)
          Go.Flow.run (dst, carry)
        else
          Go.Flow.run (dst, carry))

def encC1 (sw_2 : BitVec 64) (src : List (BitVec 8)) (dst : Buf) (carry : BitVec 8) : Flow ER Buf :=
      (if ((!((sw_2 == 4#64) || (sw_2 == 3#64) || (sw_2 == 2#64) || (sw_2 == 1#64))) || (sw_2 == 4#64) || (sw_2 == 3#64) || (sw_2 == 2#64) || (sw_2 == 1#64)) then
          if !(decide (1 < dst.2.length)) then Go.Flow.panic else
          if !(decide (0 < src.length)) then Go.Flow.panic else
          let dst : (List (BitVec 8) × List (BitVec 8)) := (dst.1, dst.2.set 1 (carry ||| (((src.getD 0 0#8) <<< 2) &&& 31#8)))
          if !(decide (0 < dst.2.length)) then Go.Flow.panic else
          if !(decide (0 < src.length)) then Go.Flow.panic else
          let dst : (List (BitVec 8) × List (BitVec 8)) := (dst.1, dst.2.set 0 ((src.getD 0 0#8) >>> 3))
          Go.Flow.run dst
        else
          Go.Flow.run dst)

/-- `if len(src) < 5 { break }; src = src[5:]; dst = dst[8:]` -/
def encNext (src : List (BitVec 8)) (dst : Buf) : Flow ER (Bool × ESt) :=
      if (BitVec.slt (BitVec.ofNat 64 src.length) 5#64) then
        Go.Flow.run (true, (dst, src))
      else
      if !(decide (5 ≤ src.length)) then Go.Flow.panic else
      let src : List (BitVec 8) := (src.drop 5)
      if !(decide (8 ≤ dst.2.length)) then Go.Flow.panic else
      let dst : (List (BitVec 8) × List (BitVec 8)) := (dst.1 ++ dst.2.take 8, dst.2.drop 8)
      Go.Flow.run (false, (dst, src))

/-- the loop body, as generated (cut into the clauses of the switch) -/
def encBody (st_1 : ESt) : Flow ER (Bool × ESt) :=
      let dst : (List (BitVec 8) × List (BitVec 8)) := st_1.1
      let src : List (BitVec 8) := st_1.2
      let carry : BitVec 8 := 0#8
      let sw_2 : BitVec 64 := (BitVec.ofNat 64 src.length)
      Go.Flow.bind (encC5 sw_2 src dst carry) (fun (st_3 : (List (BitVec 8) × List (BitVec 8)) × BitVec 8) =>
      Go.Flow.bind (encC4 sw_2 src st_3.1 st_3.2) (fun (st_4 : (List (BitVec 8) × List (BitVec 8)) × BitVec 8) =>
      Go.Flow.bind (encC3 sw_2 src st_4.1 st_4.2) (fun (st_5 : (List (BitVec 8) × List (BitVec 8)) × BitVec 8) =>
      Go.Flow.bind (encC2 sw_2 src st_5.1 st_5.2) (fun (st_6 : (List (BitVec 8) × List (BitVec 8)) × BitVec 8) =>
      Go.Flow.bind (encC1 sw_2 src st_6.1 st_6.2) (fun (dst : (List (BitVec 8) × List (BitVec 8))) =>
      encNext src dst)))))

theorem Encode_unfold (dst src : List (BitVec 8)) :
    Gen.Bech32.base32.Encode dst src =
      Flow.result (Flow.bind (whileFuelB encCond encBody src.length ((([] : List (BitVec 8)), dst), src))
        (fun st => Flow.done (Gen.Bech32.base32.EncodedLen (BitVec.ofNat 64 src.length), st.1.1 ++ st.1.2))) := rfl

theorem bv_cons (a : UInt8) (l : List UInt8) : bv (a :: l) = a.toBitVec :: bv l := rfl
theorem bv_nil : bv [] = [] := rfl
theorem bv_length (l : List UInt8) : (bv l).length = l.length := by simp [bv]

/-- a full group of 5 bytes: 8 symbols are written (this needs a window of 8 entries) and the loop goes on -/
theorem encBody_5 (d w : List (BitVec 8)) (u0 u1 u2 u3 u4 : UInt8) (rest : List UInt8) (hl : rest.length + 5 < 2 ^ 63) :
    encBody ((d, w), bv (u0 :: u1 :: u2 :: u3 :: u4 :: rest)) =
      if 8 ≤ w.length then .run (false, ((d ++ bv (encQuantum [u0, u1, u2, u3, u4]), w.drop 8), bv rest)) else .panic := by
  have hL : (bv (u0 :: u1 :: u2 :: u3 :: u4 :: rest)).length = rest.length + 5 := by simp [bv]
  have e4 : (BitVec.ofNat 64 (bv (u0 :: u1 :: u2 :: u3 :: u4 :: rest)).length == 4#64) = false := by
    rw [hL, beq_ofNat _ 4 (by omega) (by decide)]; exact decide_eq_false (by omega)
  have e3 : (BitVec.ofNat 64 (bv (u0 :: u1 :: u2 :: u3 :: u4 :: rest)).length == 3#64) = false := by
    rw [hL, beq_ofNat _ 3 (by omega) (by decide)]; exact decide_eq_false (by omega)
  have e2 : (BitVec.ofNat 64 (bv (u0 :: u1 :: u2 :: u3 :: u4 :: rest)).length == 2#64) = false := by
    rw [hL, beq_ofNat _ 2 (by omega) (by decide)]; exact decide_eq_false (by omega)
  have e1 : (BitVec.ofNat 64 (bv (u0 :: u1 :: u2 :: u3 :: u4 :: rest)).length == 1#64) = false := by
    rw [hL, beq_ofNat _ 1 (by omega) (by decide)]; exact decide_eq_false (by omega)
  have hs : BitVec.slt (BitVec.ofNat 64 (bv (u0 :: u1 :: u2 :: u3 :: u4 :: rest)).length) 5#64 = false := by
    rw [hL, slt_ofNat _ 5 (by omega) (by decide)]; exact decide_eq_false (by omega)
  unfold encBody
  simp only [encC5, encC4, encC3, encC2, encC1, encNext, e4, e3, e2, e1, hs]
  by_cases h8 : 8 ≤ w.length
  · rw [if_pos h8]
    match w, h8 with
    | w0 :: w1 :: w2 :: w3 :: w4 :: w5 :: w6 :: w7 :: wr, _ =>
      simp [bv, encQuantum_5, Proofs.Base32.e0, Proofs.Base32.e1, Proofs.Base32.e2, Proofs.Base32.e3, Proofs.Base32.e4,
        Proofs.Base32.e5, Proofs.Base32.e6, Proofs.Base32.e7]
  · rw [if_neg h8]
    have : decide (7 < w.length) = false := decide_eq_false (by omega)
    simp [this]

/-- a last group of 1 byte: 2 symbols are written into the window, which is not moved, and the loop ends (`break`) -/
theorem encBody_1 (d w : List (BitVec 8)) (u0 : UInt8) :
    encBody ((d, w), bv [u0]) =
      if 2 ≤ w.length then .run (true, ((d, bv (encQuantum [u0]) ++ w.drop 2), bv [u0])) else .panic := by
  unfold encBody
  by_cases h : 2 ≤ w.length
  · rw [if_pos h]
    match w, h with
    | w0 :: w1 :: wr, _ =>
      simp [encC5, encC4, encC3, encC2, encC1, encNext, bv, encQuantum_1, Proofs.Base32.e0, Proofs.Base32.e1, BitVec.slt]
  · rw [if_neg h]
    have : w.length ≤ 1 := by omega
    simp [encC5, encC4, encC3, encC2, encC1, bv, this]

theorem encBody_2 (d w : List (BitVec 8)) (u0 u1 : UInt8) :
    encBody ((d, w), bv [u0, u1]) =
      if 4 ≤ w.length then .run (true, ((d, bv (encQuantum [u0, u1]) ++ w.drop 4), bv [u0, u1])) else .panic := by
  unfold encBody
  by_cases h : 4 ≤ w.length
  · rw [if_pos h]
    match w, h with
    | w0 :: w1 :: w2 :: w3 :: wr, _ =>
      simp [encC5, encC4, encC3, encC2, encC1, encNext, bv, encQuantum_2, Proofs.Base32.e0, Proofs.Base32.e1,
        Proofs.Base32.e2, Proofs.Base32.e3, BitVec.slt]
  · rw [if_neg h]
    have : w.length ≤ 3 := by omega
    simp [encC5, encC4, encC3, encC2, encC1, bv, this]

theorem encBody_3 (d w : List (BitVec 8)) (u0 u1 u2 : UInt8) :
    encBody ((d, w), bv [u0, u1, u2]) =
      if 5 ≤ w.length then .run (true, ((d, bv (encQuantum [u0, u1, u2]) ++ w.drop 5), bv [u0, u1, u2])) else .panic := by
  unfold encBody
  by_cases h : 5 ≤ w.length
  · rw [if_pos h]
    match w, h with
    | w0 :: w1 :: w2 :: w3 :: w4 :: wr, _ =>
      simp [encC5, encC4, encC3, encC2, encC1, encNext, bv, encQuantum_3, Proofs.Base32.e0, Proofs.Base32.e1,
        Proofs.Base32.e2, Proofs.Base32.e3, Proofs.Base32.e4, BitVec.slt]
  · rw [if_neg h]
    have : w.length ≤ 4 := by omega
    simp [encC5, encC4, encC3, encC2, encC1, bv, this]

theorem encBody_4 (d w : List (BitVec 8)) (u0 u1 u2 u3 : UInt8) :
    encBody ((d, w), bv [u0, u1, u2, u3]) =
      if 7 ≤ w.length then .run (true, ((d, bv (encQuantum [u0, u1, u2, u3]) ++ w.drop 7), bv [u0, u1, u2, u3])) else .panic := by
  unfold encBody
  by_cases h : 7 ≤ w.length
  · rw [if_pos h]
    match w, h with
    | w0 :: w1 :: w2 :: w3 :: w4 :: w5 :: w6 :: wr, _ =>
      simp [encC5, encC4, encC3, encC2, encC1, encNext, bv, encQuantum_4, Proofs.Base32.e0, Proofs.Base32.e1,
        Proofs.Base32.e2, Proofs.Base32.e3, Proofs.Base32.e4, Proofs.Base32.e5, Proofs.Base32.e6, BitVec.slt]
  · rw [if_neg h]
    have : w.length ≤ 6 := by omega
    simp [encC5, encC4, encC3, encC2, encC1, bv, this]

theorem encCond_eq (dst : Buf) (src : List (BitVec 8)) (h : src.length < 2 ^ 63) :
    encCond (dst, src) = decide (0 < src.length) :=
  slt_ofNat 0 src.length (by decide) h

theorem encodedLen_add5 (n : Nat) : encodedLen (n + 5) = encodedLen n + 8 := by
  unfold encodedLen; omega

/-- the loop of `Encode` from the state "`d` already passed, window `w`, `src` left", followed by `return n` -/
theorem encLoop (n : BitVec 64) (fuel : Nat) : ∀ (src : List UInt8) (d w : List (BitVec 8)),
    src.length ≤ fuel → src.length < 2 ^ 63 →
    (whileFuelB encCond encBody fuel ((d, w), bv src)).bind
        (fun st => (Flow.done (n, st.1.1 ++ st.1.2) : Flow ER ER)) =
      if encodedLen src.length ≤ w.length then
        .done (n, d ++ bv (b32Encode src) ++ w.drop (encodedLen src.length))
      else .panic := by
  have nil : ∀ (k : Nat) (d w : List (BitVec 8)),
      (whileFuelB encCond encBody k ((d, w), bv [])).bind (fun st => (Flow.done (n, st.1.1 ++ st.1.2) : Flow ER ER)) =
        if encodedLen ([] : List UInt8).length ≤ w.length then
          .done (n, d ++ bv (b32Encode []) ++ w.drop (encodedLen ([] : List UInt8).length))
        else .panic := by
    intro k d w
    have : whileFuelB encCond encBody k ((d, w), bv []) = .run ((d, w), bv []) := by
      cases k with
      | zero => rfl
      | succ k => rw [whileFuelB_succ, encCond_eq _ _ (by simp [bv])]; simp [bv]
    rw [this]
    simp [encodedLen, b32Encode, bv]
  induction fuel with
  | zero =>
    intro src d w hf _
    have : src = [] := List.length_eq_zero_iff.mp (by omega)
    subst this
    exact nil 0 d w
  | succ fuel ih =>
    intro src d w hf hlen
    match src, hf, hlen with
    | [], _, _ => exact nil (fuel + 1) d w
    | [u0], _, _ =>
      rw [whileFuelB_succ, encCond_eq _ _ (by simp [bv]), encBody_1]
      by_cases h : 2 ≤ w.length
      · simp [h, encodedLen, b32Encode, bv]
      · simp [h, encodedLen, bv]
    | [u0, u1], _, _ =>
      rw [whileFuelB_succ, encCond_eq _ _ (by simp [bv]), encBody_2]
      by_cases h : 4 ≤ w.length
      · simp [h, encodedLen, b32Encode, bv]
      · simp [h, encodedLen, bv]
    | [u0, u1, u2], _, _ =>
      rw [whileFuelB_succ, encCond_eq _ _ (by simp [bv]), encBody_3]
      by_cases h : 5 ≤ w.length
      · simp [h, encodedLen, b32Encode, bv]
      · simp [h, encodedLen, bv]
    | [u0, u1, u2, u3], _, _ =>
      rw [whileFuelB_succ, encCond_eq _ _ (by simp [bv]), encBody_4]
      by_cases h : 7 ≤ w.length
      · simp [h, encodedLen, b32Encode, bv]
      · simp [h, encodedLen, bv]
    | u0 :: u1 :: u2 :: u3 :: u4 :: rest, hf, hlen =>
      simp only [List.length_cons] at hf hlen
      rw [whileFuelB_succ, encCond_eq _ _ (by simp [bv]; omega), encBody_5 d w u0 u1 u2 u3 u4 rest (by omega)]
      have hpos : decide (0 < (bv (u0 :: u1 :: u2 :: u3 :: u4 :: rest)).length) = true := by simp [bv]
      rw [hpos, if_pos rfl]
      have hel : encodedLen (u0 :: u1 :: u2 :: u3 :: u4 :: rest).length = encodedLen rest.length + 8 := by
        simp only [List.length_cons]; exact encodedLen_add5 _
      rw [hel, b32Encode_5]
      by_cases h8 : 8 ≤ w.length
      · rw [if_pos h8, Flow.bind_run]
        simp only [Bool.false_eq_true, if_false]
        rw [ih rest _ _ (by omega) (by omega), List.length_drop]
        by_cases hfit : encodedLen rest.length ≤ w.length - 8
        · rw [if_pos hfit, if_pos (by omega)]
          simp only [Bech32Code.bv_append, List.append_assoc, List.drop_drop, Nat.add_comm 8]
        · rw [if_neg hfit, if_neg (by omega)]
      · rw [if_neg h8, Flow.bind_panic, Flow.bind_panic, if_neg (by omega)]

/-- **`Encode`, complete description** (`len(src) < 2^63` holds for every Go slice).  The minimal destination is
exactly `EncodedLen(len(src))` entries: a full group of 5 bytes needs 8 entries (its first statement is `dst[7] = …`),
a last group of 1, 2, 3, 4 bytes needs 2, 4, 5, 7 (`dst[1]`, `dst[3]`, `dst[4]`, `dst[6]` are written first) — the
same numbers as `EncodedLen`.  With that much room the function does not panic, returns `EncodedLen(len(src))` as
computed in 64-bit arithmetic, has overwritten the first `EncodedLen(len(src))` entries with the model's
`b32Encode src` and left the others untouched; with less room it panics. -/
theorem encode_spec (dst : List (BitVec 8)) (src : List UInt8) (hlen : src.length < 2 ^ 63) :
    Gen.Bech32.base32.Encode dst (bv src) =
      if encodedLen src.length ≤ dst.length then
        some (Gen.Bech32.base32.EncodedLen (BitVec.ofNat 64 src.length),
          bv (b32Encode src) ++ dst.drop (encodedLen src.length))
      else none := by
  rw [Encode_unfold, bv_length, encLoop _ src.length src [] dst (Nat.le_refl _) hlen]
  by_cases h : encodedLen src.length ≤ dst.length
  · rw [if_pos h, if_pos h]; rfl
  · rw [if_neg h, if_neg h]; rfl

/-- **`Encode`, enough room** (`len(src) < 2^60`, so that `n*8 + 4` does not overflow; sharp, see
`EncodedLen_overflow`): the result is `EncodedLen(len(src))` of the model and the encoded symbols followed by the
untouched rest of `dst`. -/
theorem encode_eq (dst : List (BitVec 8)) (src : List UInt8) (hlen : src.length < 2 ^ 60)
    (h : encodedLen src.length ≤ dst.length) :
    Gen.Bech32.base32.Encode dst (bv src) =
      some (BitVec.ofNat 64 (encodedLen src.length), bv (b32Encode src) ++ dst.drop (encodedLen src.length)) := by
  rw [encode_spec dst src (by omega), if_pos h, EncodedLen_eq _ hlen]

/-- **`Encode` panics exactly when `dst` is shorter than `EncodedLen(len(src))`.** -/
theorem encode_panics_iff (dst : List (BitVec 8)) (src : List UInt8) (hlen : src.length < 2 ^ 63) :
    Gen.Bech32.base32.Encode dst (bv src) = none ↔ dst.length < encodedLen src.length := by
  rw [encode_spec dst src hlen]
  by_cases h : encodedLen src.length ≤ dst.length
  · rw [if_pos h]; constructor
    · intro h'; cases h'
    · intro h'; omega
  · rw [if_neg h]; constructor
    · intro _; omega
    · intro _; rfl

/-- **no panic with the destination the caller allocates**: `bech32.Encode` passes
`make([]uint8, base32.EncodedLen(len(src))+checksumLength)`; with exactly `EncodedLen(len(src))` entries the whole
destination is the encoding. -/
theorem encode_exact (dst : List (BitVec 8)) (src : List UInt8) (hlen : src.length < 2 ^ 60)
    (h : dst.length = encodedLen src.length) :
    Gen.Bech32.base32.Encode dst (bv src) = some (BitVec.ofNat 64 (encodedLen src.length), bv (b32Encode src)) := by
  rw [encode_eq dst src hlen (by omega), ← h, List.drop_length, List.append_nil]

theorem encode_no_panic (dst : List (BitVec 8)) (src : List UInt8) (hlen : src.length < 2 ^ 63)
    (h : encodedLen src.length ≤ dst.length) : Gen.Bech32.base32.Encode dst (bv src) ≠ none := by
  rw [Ne, encode_panics_iff dst src hlen]; omega

/-! ### `Decode` -/

abbrev DR := BitVec 64 × Option (String × BitVec 64) × List (BitVec 8)
abbrev DSt := Buf × List (BitVec 8) × BitVec 64 × BitVec 64

def decCond (st_1 : DSt) : Bool :=
      let src : List (BitVec 8) := st_1.2.1
      (BitVec.slt 0#64 (BitVec.ofNat 64 src.length))

/-- `default:` — runs for `n ∉ {7,5,4,2}` -/
def decC8 (sw_2 : BitVec 64) (src : List (BitVec 8)) (dst : Buf) (written : BitVec 64) : Flow DR (Buf × BitVec 64) :=
      (if (!((sw_2 == 7#64) || (sw_2 == 5#64) || (sw_2 == 4#64) || (sw_2 == 2#64))) then
          if !(decide (4 < dst.2.length)) then Go.Flow.panic else
          if !(decide (6 < src.length)) then Go.Flow.panic else
          if !(decide (7 < src.length)) then Go.Flow.panic else
          let dst : (List (BitVec 8) × List (BitVec 8)) := (dst.1, dst.2.set 4 (((src.getD 6 0#8) <<< 5) ||| (src.getD 7 0#8)))
          let written : BitVec 64 := (written + 1#64)
          Go.Flow.run (dst, written)
        else
          Go.Flow.run (dst, written))

def decC7 (sw_2 : BitVec 64) (src : List (BitVec 8)) (dst : Buf) (written : BitVec 64) : Flow DR (Buf × BitVec 64) :=
      (if ((!((sw_2 == 7#64) || (sw_2 == 5#64) || (sw_2 == 4#64) || (sw_2 == 2#64))) || (sw_2 == 7#64)) then
          if !(decide (3 < dst.2.length)) then Go.Flow.panic else
          if !(decide (4 < src.length)) then Go.Flow.panic else
          if !(decide (5 < src.length)) then Go.Flow.panic else
          if !(decide (6 < src.length)) then Go.Flow.panic else
          let dst : (List (BitVec 8) × List (BitVec 8)) := (dst.1, dst.2.set 3 ((((src.getD 4 0#8) <<< 7) ||| ((src.getD 5 0#8) <<< 2)) ||| ((src.getD 6 0#8) >>> 3)))
          let written : BitVec 64 := (written + 1#64)
          Go.Flow.run (dst, written)
        else
          Go.Flow.run (dst, written))

def decC5 (sw_2 : BitVec 64) (src : List (BitVec 8)) (dst : Buf) (written : BitVec 64) : Flow DR (Buf × BitVec 64) :=
      (if ((!((sw_2 == 7#64) || (sw_2 == 5#64) || (sw_2 == 4#64) || (sw_2 == 2#64))) || (sw_2 == 7#64) || (sw_2 == 5#64)) then
          if !(decide (2 < dst.2.length)) then Go.Flow.panic else
          if !(decide (3 < src.length)) then Go.Flow.panic else
          if !(decide (4 < src.length)) then Go.Flow.panic else
          let dst : (List (BitVec 8) × List (BitVec 8)) := (dst.1, dst.2.set 2 (((src.getD 3 0#8) <<< 4) ||| ((src.getD 4 0#8) >>> 1)))
          let written : BitVec 64 := (written + 1#64)
          Go.Flow.run (dst, written)
        else
          Go.Flow.run (dst, written))

def decC4 (sw_2 : BitVec 64) (src : List (BitVec 8)) (dst : Buf) (written : BitVec 64) : Flow DR (Buf × BitVec 64) :=
      (if ((!((sw_2 == 7#64) || (sw_2 == 5#64) || (sw_2 == 4#64) || (sw_2 == 2#64))) || (sw_2 == 7#64) || (sw_2 == 5#64) || (sw_2 == 4#64)) then
          if !(decide (1 < dst.2.length)) then Go.Flow.panic else
          if !(decide (1 < src.length)) then Go.Flow.panic else
          if !(decide (2 < src.length)) then Go.Flow.panic else
          if !(decide (3 < src.length)) then Go.Flow.panic else
          let dst : (List (BitVec 8) × List (BitVec 8)) := (dst.1, dst.2.set 1 ((((src.getD 1 0#8) <<< 6) ||| ((src.getD 2 0#8) <<< 1)) ||| ((src.getD 3 0#8) >>> 4)))
          let written : BitVec 64 := (written + 1#64)
          Go.Flow.run (dst, written)
        else
          Go.Flow.run (dst, written))

def decC2 (sw_2 : BitVec 64) (src : List (BitVec 8)) (dst : Buf) (written : BitVec 64) : Flow DR (Buf × BitVec 64) :=
      (if ((!((sw_2 == 7#64) || (sw_2 == 5#64) || (sw_2 == 4#64) || (sw_2 == 2#64))) || (sw_2 == 7#64) || (sw_2 == 5#64) || (sw_2 == 4#64) || (sw_2 == 2#64)) then
          if !(decide (0 < dst.2.length)) then Go.Flow.panic else
          if !(decide (0 < src.length)) then Go.Flow.panic else
          if !(decide (1 < src.length)) then Go.Flow.panic else
          let dst : (List (BitVec 8) × List (BitVec 8)) := (dst.1, dst.2.set 0 (((src.getD 0 0#8) <<< 3) ||| ((src.getD 1 0#8) >>> 2)))
          let written : BitVec 64 := (written + 1#64)
          Go.Flow.run (dst, written)
        else
          Go.Flow.run (dst, written))

/-- `if n < 8 { switch { …padding… }; break }; dst = dst[5:]; src = src[8:]; read += 8` -/
def decNext (n : BitVec 64) (src : List (BitVec 8)) (dst : Buf) (written read : BitVec 64) : Flow DR (Bool × DSt) :=
      if (BitVec.slt n 8#64) then
        if !(!(n == 2#64) || (decide (1 < src.length))) then Go.Flow.panic else
        if ((n == 2#64) && (((src.getD 1 0#8) &&& 3#8) != 0#8)) then
          Go.Flow.done (written, (some ("ErrNonZeroPadding", (read + 1#64))), (dst.1 ++ dst.2))
        else
        if !(!(n == 4#64) || (decide (3 < src.length))) then Go.Flow.panic else
        if ((n == 4#64) && (((src.getD 3 0#8) &&& 15#8) != 0#8)) then
          Go.Flow.done (written, (some ("ErrNonZeroPadding", (read + 3#64))), (dst.1 ++ dst.2))
        else
        if !(!(n == 5#64) || (decide (4 < src.length))) then Go.Flow.panic else
        if ((n == 5#64) && (((src.getD 4 0#8) &&& 1#8) != 0#8)) then
          Go.Flow.done (written, (some ("ErrNonZeroPadding", (read + 4#64))), (dst.1 ++ dst.2))
        else
        if !(!(n == 7#64) || (decide (6 < src.length))) then Go.Flow.panic else
        if ((n == 7#64) && (((src.getD 6 0#8) &&& 7#8) != 0#8)) then
          Go.Flow.done (written, (some ("ErrNonZeroPadding", (read + 6#64))), (dst.1 ++ dst.2))
        else
        Go.Flow.run (true, (dst, src, written, read))
      else
      if !(decide (5 ≤ dst.2.length)) then Go.Flow.panic else
      let dst : (List (BitVec 8) × List (BitVec 8)) := (dst.1 ++ dst.2.take 5, dst.2.drop 5)
      if !(decide (8 ≤ src.length)) then Go.Flow.panic else
      let src : List (BitVec 8) := (src.drop 8)
      let read : BitVec 64 := (read + 8#64)
      Go.Flow.run (false, (dst, src, written, read))

/-- the loop body, as generated (cut into the clauses of the switch) -/
def decBody (st_1 : DSt) : Flow DR (Bool × DSt) :=
      let dst : (List (BitVec 8) × List (BitVec 8)) := st_1.1
      let src : List (BitVec 8) := st_1.2.1
      let written : BitVec 64 := st_1.2.2.1
      let read : BitVec 64 := st_1.2.2.2
      let n : BitVec 64 := (BitVec.ofNat 64 src.length)
      if (((n == 1#64) || (n == 3#64)) || (n == 6#64)) then
        Go.Flow.done (written, (some ("ErrInvalidLength", read)), (dst.1 ++ dst.2))
      else
      let sw_2 : BitVec 64 := n
      Go.Flow.bind (decC8 sw_2 src dst written) (fun (st_3 : (List (BitVec 8) × List (BitVec 8)) × BitVec 64) =>
      Go.Flow.bind (decC7 sw_2 src st_3.1 st_3.2) (fun (st_4 : (List (BitVec 8) × List (BitVec 8)) × BitVec 64) =>
      Go.Flow.bind (decC5 sw_2 src st_4.1 st_4.2) (fun (st_5 : (List (BitVec 8) × List (BitVec 8)) × BitVec 64) =>
      Go.Flow.bind (decC4 sw_2 src st_5.1 st_5.2) (fun (st_6 : (List (BitVec 8) × List (BitVec 8)) × BitVec 64) =>
      Go.Flow.bind (decC2 sw_2 src st_6.1 st_6.2) (fun (st_7 : (List (BitVec 8) × List (BitVec 8)) × BitVec 64) =>
      decNext n src st_7.1 st_7.2 read)))))

theorem Decode_unfold (dst src : List (BitVec 8)) :
    Gen.Bech32.base32.Decode dst src =
      Flow.result (Flow.bind (whileFuelB decCond decBody src.length ((([] : List (BitVec 8)), dst), src, 0#64, 0#64))
        (fun st => Flow.done (st.2.2.1, (none : Option (String × BitVec 64)), st.1.1 ++ st.1.2))) := rfl

theorem decCond_eq (dst : Buf) (src : List (BitVec 8)) (kw kr : BitVec 64) (h : src.length < 2 ^ 63) :
    decCond (dst, src, kw, kr) = decide (0 < src.length) :=
  slt_ofNat 0 src.length (by decide) h

/-- a full group of 8 symbols: 5 bytes are written (this needs a window of 5 entries) and the loop goes on -/
theorem decBody_8 (d w : List (BitVec 8)) (kw kr : BitVec 64) (s0 s1 s2 s3 s4 s5 s6 s7 : UInt8) (rest : List UInt8)
    (hl : rest.length + 8 < 2 ^ 63) :
    decBody ((d, w), bv (s0 :: s1 :: s2 :: s3 :: s4 :: s5 :: s6 :: s7 :: rest), kw, kr) =
      if 5 ≤ w.length then
        .run (false, ((d ++ bv (decQuantum [s0, s1, s2, s3, s4, s5, s6, s7]), w.drop 5), bv rest,
          kw + 1#64 + 1#64 + 1#64 + 1#64 + 1#64, kr + 8#64))
      else .panic := by
  have hL : (bv (s0 :: s1 :: s2 :: s3 :: s4 :: s5 :: s6 :: s7 :: rest)).length = rest.length + 8 := by simp [bv]
  have ne : ∀ c : Nat, c < 8 →
      (BitVec.ofNat 64 (bv (s0 :: s1 :: s2 :: s3 :: s4 :: s5 :: s6 :: s7 :: rest)).length == BitVec.ofNat 64 c) = false := by
    intro c hc
    rw [hL, beq_ofNat _ c (by omega) (by omega)]; exact decide_eq_false (by omega)
  have hs : BitVec.slt (BitVec.ofNat 64 (bv (s0 :: s1 :: s2 :: s3 :: s4 :: s5 :: s6 :: s7 :: rest)).length) 8#64 = false := by
    rw [hL, slt_ofNat _ 8 (by omega) (by decide)]; exact decide_eq_false (by omega)
  unfold decBody
  simp only [decC8, decC7, decC5, decC4, decC2, decNext, hs,
    ne 1 (by decide), ne 2 (by decide), ne 3 (by decide), ne 4 (by decide), ne 5 (by decide), ne 6 (by decide), ne 7 (by decide)]
  by_cases h5 : 5 ≤ w.length
  · rw [if_pos h5]
    match w, h5 with
    | w0 :: w1 :: w2 :: w3 :: w4 :: wr, _ =>
      simp [bv, decQuantum_8, Proofs.Base32.o0, Proofs.Base32.o1, Proofs.Base32.o2, Proofs.Base32.o3, Proofs.Base32.o4]
  · rw [if_neg h5]
    have : w.length ≤ 4 := by omega
    simp [this]

/-- the padding test on bytes: the translated code and the model agree -/
theorem pad_bv (x m : UInt8) : ((x.toBitVec &&& m.toBitVec) != 0#8) = decide (x &&& m ≠ 0) := by
  have : (x &&& m = 0) ↔ (x.toBitVec &&& m.toBitVec = 0#8) := by
    rw [← UInt8.toBitVec_and, ← UInt8.toBitVec_inj]; rfl
  by_cases h : x &&& m = 0
  · have h' := this.mp h
    simp [h, h']
  · have h' : ¬ (x.toBitVec &&& m.toBitVec = 0#8) := fun hh => h (this.mpr hh)
    simp [h, h']

/-- 1, 3 or 6 symbols left: `ErrInvalidLength` at the current read offset, nothing written -/
theorem decBody_1 (d w : List (BitVec 8)) (kw kr : BitVec 64) (s0 : UInt8) :
    decBody ((d, w), bv [s0], kw, kr) = .done (kw, some ("ErrInvalidLength", kr), d ++ w) := by
  simp [decBody, bv]
theorem decBody_3 (d w : List (BitVec 8)) (kw kr : BitVec 64) (s0 s1 s2 : UInt8) :
    decBody ((d, w), bv [s0, s1, s2], kw, kr) = .done (kw, some ("ErrInvalidLength", kr), d ++ w) := by
  simp [decBody, bv]
theorem decBody_6 (d w : List (BitVec 8)) (kw kr : BitVec 64) (s0 s1 s2 s3 s4 s5 : UInt8) :
    decBody ((d, w), bv [s0, s1, s2, s3, s4, s5], kw, kr) = .done (kw, some ("ErrInvalidLength", kr), d ++ w) := by
  simp [decBody, bv]

/-- 2 symbols left: one byte is written into the window (which is not moved); then the padding is tested -/
theorem decBody_2 (d w : List (BitVec 8)) (kw kr : BitVec 64) (s0 s1 : UInt8) :
    decBody ((d, w), bv [s0, s1], kw, kr) =
      if 1 ≤ w.length then
        if s1 &&& 3 ≠ 0 then
          .done (kw + 1#64, some ("ErrNonZeroPadding", kr + 1#64), d ++ (bv (decQuantum [s0, s1]) ++ w.drop 1))
        else .run (true, ((d, bv (decQuantum [s0, s1]) ++ w.drop 1), bv [s0, s1], kw + 1#64, kr))
      else .panic := by
  unfold decBody
  by_cases h : 1 ≤ w.length
  · rw [if_pos h]
    match w, h with
    | w0 :: wr, _ =>
      have hp := pad_bv s1 3
      rw [show (3 : UInt8).toBitVec = 3#8 from rfl] at hp
      by_cases hq : s1 &&& 3 = 0
      · simp [decC8, decC7, decC5, decC4, decC2, decNext, bv, decQuantum_2, Proofs.Base32.o0, BitVec.slt, hp, hq]
      · simp [decC8, decC7, decC5, decC4, decC2, decNext, bv, decQuantum_2, Proofs.Base32.o0, BitVec.slt, hp, hq]
  · rw [if_neg h]
    have : w = [] := List.length_eq_zero_iff.mp (by omega)
    simp [decC8, decC7, decC5, decC4, decC2, bv, this]

theorem decBody_4 (d w : List (BitVec 8)) (kw kr : BitVec 64) (s0 s1 s2 s3 : UInt8) :
    decBody ((d, w), bv [s0, s1, s2, s3], kw, kr) =
      if 2 ≤ w.length then
        if s3 &&& 15 ≠ 0 then
          .done (kw + 1#64 + 1#64, some ("ErrNonZeroPadding", kr + 3#64), d ++ (bv (decQuantum [s0, s1, s2, s3]) ++ w.drop 2))
        else .run (true, ((d, bv (decQuantum [s0, s1, s2, s3]) ++ w.drop 2), bv [s0, s1, s2, s3], kw + 1#64 + 1#64, kr))
      else .panic := by
  unfold decBody
  by_cases h : 2 ≤ w.length
  · rw [if_pos h]
    match w, h with
    | w0 :: w1 :: wr, _ =>
      have hp := pad_bv s3 15
      rw [show (15 : UInt8).toBitVec = 15#8 from rfl] at hp
      by_cases hq : s3 &&& 15 = 0
      · simp [decC8, decC7, decC5, decC4, decC2, decNext, bv, decQuantum_4, Proofs.Base32.o0, Proofs.Base32.o1, BitVec.slt, hp, hq]
      · simp [decC8, decC7, decC5, decC4, decC2, decNext, bv, decQuantum_4, Proofs.Base32.o0, Proofs.Base32.o1, BitVec.slt, hp, hq]
  · rw [if_neg h]
    have : w.length ≤ 1 := by omega
    simp [decC8, decC7, decC5, decC4, decC2, bv, this]

theorem decBody_5 (d w : List (BitVec 8)) (kw kr : BitVec 64) (s0 s1 s2 s3 s4 : UInt8) :
    decBody ((d, w), bv [s0, s1, s2, s3, s4], kw, kr) =
      if 3 ≤ w.length then
        if s4 &&& 1 ≠ 0 then
          .done (kw + 1#64 + 1#64 + 1#64, some ("ErrNonZeroPadding", kr + 4#64),
            d ++ (bv (decQuantum [s0, s1, s2, s3, s4]) ++ w.drop 3))
        else .run (true, ((d, bv (decQuantum [s0, s1, s2, s3, s4]) ++ w.drop 3), bv [s0, s1, s2, s3, s4],
          kw + 1#64 + 1#64 + 1#64, kr))
      else .panic := by
  unfold decBody
  by_cases h : 3 ≤ w.length
  · rw [if_pos h]
    match w, h with
    | w0 :: w1 :: w2 :: wr, _ =>
      have hp := pad_bv s4 1
      rw [show (1 : UInt8).toBitVec = 1#8 from rfl] at hp
      by_cases hq : s4 &&& 1 = 0
      · simp [decC8, decC7, decC5, decC4, decC2, decNext, bv, decQuantum_5, Proofs.Base32.o0, Proofs.Base32.o1,
          Proofs.Base32.o2, BitVec.slt, hp, hq]
      · simp [decC8, decC7, decC5, decC4, decC2, decNext, bv, decQuantum_5, Proofs.Base32.o0, Proofs.Base32.o1,
          Proofs.Base32.o2, BitVec.slt, hp, hq]
  · rw [if_neg h]
    have : w.length ≤ 2 := by omega
    simp [decC8, decC7, decC5, decC4, decC2, bv, this]

theorem decBody_7 (d w : List (BitVec 8)) (kw kr : BitVec 64) (s0 s1 s2 s3 s4 s5 s6 : UInt8) :
    decBody ((d, w), bv [s0, s1, s2, s3, s4, s5, s6], kw, kr) =
      if 4 ≤ w.length then
        if s6 &&& 7 ≠ 0 then
          .done (kw + 1#64 + 1#64 + 1#64 + 1#64, some ("ErrNonZeroPadding", kr + 6#64),
            d ++ (bv (decQuantum [s0, s1, s2, s3, s4, s5, s6]) ++ w.drop 4))
        else .run (true, ((d, bv (decQuantum [s0, s1, s2, s3, s4, s5, s6]) ++ w.drop 4), bv [s0, s1, s2, s3, s4, s5, s6],
          kw + 1#64 + 1#64 + 1#64 + 1#64, kr))
      else .panic := by
  unfold decBody
  by_cases h : 4 ≤ w.length
  · rw [if_pos h]
    match w, h with
    | w0 :: w1 :: w2 :: w3 :: wr, _ =>
      have hp := pad_bv s6 7
      rw [show (7 : UInt8).toBitVec = 7#8 from rfl] at hp
      by_cases hq : s6 &&& 7 = 0
      · simp [decC8, decC7, decC5, decC4, decC2, decNext, bv, decQuantum_7, Proofs.Base32.o0, Proofs.Base32.o1,
          Proofs.Base32.o2, Proofs.Base32.o3, BitVec.slt, hp, hq]
      · simp [decC8, decC7, decC5, decC4, decC2, decNext, bv, decQuantum_7, Proofs.Base32.o0, Proofs.Base32.o1,
          Proofs.Base32.o2, Proofs.Base32.o3, BitVec.slt, hp, hq]
  · rw [if_neg h]
    have : w.length ≤ 3 := by omega
    simp [decC8, decC7, decC5, decC4, decC2, bv, this]

/-! #### what the model says, and what it does not say

`b32Decode` returns either the bytes or `(error, offset)`; in the error case it drops the bytes decoded before the
error, which Go has written into `dst` and counts in its first result.  `decBytes src` is that observable output: the
bytes of all groups decoded when `Decode` returns (on success all of them; with `ErrNonZeroPadding` all of them as
well — the test comes after the last group has been written; with `ErrInvalidLength` those of the full groups). -/

def decBytes : List UInt8 → List UInt8
  | s0 :: s1 :: s2 :: s3 :: s4 :: s5 :: s6 :: s7 :: rest => decQuantum [s0, s1, s2, s3, s4, s5, s6, s7] ++ decBytes rest
  | tail => if tail.length = 0 ∨ tail.length = 1 ∨ tail.length = 3 ∨ tail.length = 6 then [] else decQuantum tail

theorem decBytes_8 (s0 s1 s2 s3 s4 s5 s6 s7 : UInt8) (rest : List UInt8) :
    decBytes (s0 :: s1 :: s2 :: s3 :: s4 :: s5 :: s6 :: s7 :: rest) =
      decQuantum [s0, s1, s2, s3, s4, s5, s6, s7] ++ decBytes rest := by
  rw [decBytes]

/-- the names of the package variables `ErrInvalidLength`, `ErrNonZeroPadding` -/
def errName : B32Err → String
  | .invalidLength => "ErrInvalidLength"
  | .nonZeroPadding => "ErrNonZeroPadding"

/-- the `error` result of `Decode`: `nil`, or `&CorruptInputError{Err…, offset}` -/
def errOf : Except (B32Err × Nat) (List UInt8) → Option (String × BitVec 64)
  | .ok _ => none
  | .error (e, off) => some (errName e, BitVec.ofNat 64 off)

theorem errOf_8 (r : Nat) (s0 s1 s2 s3 s4 s5 s6 s7 : UInt8) (rest : List UInt8) :
    errOf (b32DecodeAux r (s0 :: s1 :: s2 :: s3 :: s4 :: s5 :: s6 :: s7 :: rest)) = errOf (b32DecodeAux (r + 8) rest) := by
  rw [decodeAux_8]
  cases b32DecodeAux (r + 8) rest <;> rfl

theorem ofNat_add_lit (k c : Nat) : BitVec.ofNat 64 k + BitVec.ofNat 64 c = BitVec.ofNat 64 (k + c) := by
  apply BitVec.eq_of_toNat_eq; simp [BitVec.toNat_add]

abbrev decRet : DSt → Flow DR DR :=
  fun st => Flow.done (st.2.2.1, (none : Option (String × BitVec 64)), st.1.1 ++ st.1.2)

/-- the loop of `Decode` from the state "`d` already passed, window `w`, `src` left, `k` bytes written, `r` symbols
read", followed by `return written, nil` -/
theorem decLoop (fuel : Nat) : ∀ (src : List UInt8) (d w : List (BitVec 8)) (k r : Nat),
    src.length ≤ fuel → src.length < 2 ^ 63 →
    (whileFuelB decCond decBody fuel ((d, w), bv src, BitVec.ofNat 64 k, BitVec.ofNat 64 r)).bind decRet =
      if (decBytes src).length ≤ w.length then
        .done (BitVec.ofNat 64 (k + (decBytes src).length), errOf (b32DecodeAux r src),
          d ++ bv (decBytes src) ++ w.drop (decBytes src).length)
      else .panic := by
  have nil : ∀ (f : Nat) (d w : List (BitVec 8)) (k r : Nat),
      (whileFuelB decCond decBody f ((d, w), bv [], BitVec.ofNat 64 k, BitVec.ofNat 64 r)).bind decRet =
        if (decBytes []).length ≤ w.length then
          .done (BitVec.ofNat 64 (k + (decBytes []).length), errOf (b32DecodeAux r []),
            d ++ bv (decBytes []) ++ w.drop (decBytes []).length)
        else .panic := by
    intro f d w k r
    have : whileFuelB decCond decBody f ((d, w), bv [], BitVec.ofNat 64 k, BitVec.ofNat 64 r) =
        .run ((d, w), bv [], BitVec.ofNat 64 k, BitVec.ofNat 64 r) := by
      cases f with
      | zero => rfl
      | succ f => rw [whileFuelB_succ, decCond_eq _ _ _ _ (by simp [bv])]; simp [bv]
    rw [this]
    simp [decBytes, b32DecodeAux, errOf, bv, decRet]
  induction fuel with
  | zero =>
    intro src d w k r hf _
    have : src = [] := List.length_eq_zero_iff.mp (by omega)
    subst this
    exact nil 0 d w k r
  | succ fuel ih =>
    intro src d w k r hf hlen
    match src, hf, hlen with
    | [], _, _ => exact nil (fuel + 1) d w k r
    | [s0], _, _ =>
      rw [whileFuelB_succ, decCond_eq _ _ _ _ (by simp [bv]), decBody_1]
      simp [decBytes, b32DecodeAux, errOf, errName, bv]
    | [s0, s1, s2], _, _ =>
      rw [whileFuelB_succ, decCond_eq _ _ _ _ (by simp [bv]), decBody_3]
      simp [decBytes, b32DecodeAux, errOf, errName, bv]
    | [s0, s1, s2, s3, s4, s5], _, _ =>
      rw [whileFuelB_succ, decCond_eq _ _ _ _ (by simp [bv]), decBody_6]
      simp [decBytes, b32DecodeAux, errOf, errName, bv]
    | [s0, s1], _, _ =>
      rw [whileFuelB_succ, decCond_eq _ _ _ _ (by simp [bv]), decBody_2]
      have hq : (decQuantum [s0, s1]).length = 1 := by simp [decQuantum_2]
      by_cases h : 1 ≤ w.length <;> by_cases hp : s1 &&& 3 = 0 <;>
        simp [decBytes, b32DecodeAux, padCheck, errOf, errName, bv, h, hp, hq, ofNat_add_lit]
    | [s0, s1, s2, s3], _, _ =>
      rw [whileFuelB_succ, decCond_eq _ _ _ _ (by simp [bv]), decBody_4]
      have hq : (decQuantum [s0, s1, s2, s3]).length = 2 := by simp [decQuantum_4]
      by_cases h : 2 ≤ w.length <;> by_cases hp : s3 &&& 15 = 0 <;>
        simp [decBytes, b32DecodeAux, padCheck, errOf, errName, bv, h, hp, hq, ofNat_add_lit]
    | [s0, s1, s2, s3, s4], _, _ =>
      rw [whileFuelB_succ, decCond_eq _ _ _ _ (by simp [bv]), decBody_5]
      have hq : (decQuantum [s0, s1, s2, s3, s4]).length = 3 := by simp [decQuantum_5]
      by_cases h : 3 ≤ w.length <;> by_cases hp : s4 &&& 1 = 0 <;>
        simp [decBytes, b32DecodeAux, padCheck, errOf, errName, bv, h, hp, hq, ofNat_add_lit]
    | [s0, s1, s2, s3, s4, s5, s6], _, _ =>
      rw [whileFuelB_succ, decCond_eq _ _ _ _ (by simp [bv]), decBody_7]
      have hq : (decQuantum [s0, s1, s2, s3, s4, s5, s6]).length = 4 := by simp [decQuantum_7]
      by_cases h : 4 ≤ w.length <;> by_cases hp : s6 &&& 7 = 0 <;>
        simp [decBytes, b32DecodeAux, padCheck, errOf, errName, bv, h, hp, hq, ofNat_add_lit]
    | s0 :: s1 :: s2 :: s3 :: s4 :: s5 :: s6 :: s7 :: rest, hf, hlen =>
      simp only [List.length_cons] at hf hlen
      rw [whileFuelB_succ, decCond_eq _ _ _ _ (by simp [bv]; omega),
        decBody_8 d w _ _ s0 s1 s2 s3 s4 s5 s6 s7 rest (by omega)]
      have hpos : decide (0 < (bv (s0 :: s1 :: s2 :: s3 :: s4 :: s5 :: s6 :: s7 :: rest)).length) = true := by simp [bv]
      have hq : (decQuantum [s0, s1, s2, s3, s4, s5, s6, s7]).length = 5 := by simp [decQuantum_8]
      rw [hpos, if_pos rfl, decBytes_8, errOf_8, List.length_append, hq]
      by_cases h5 : 5 ≤ w.length
      · rw [if_pos h5, Flow.bind_run]
        simp only [Bool.false_eq_true, if_false, ofNat_add_lit]
        rw [ih rest _ _ _ _ (by omega) (by omega), List.length_drop]
        by_cases hfit : (decBytes rest).length ≤ w.length - 5
        · rw [if_pos hfit, if_pos (by omega)]
          simp only [Bech32Code.bv_append, List.append_assoc, List.drop_drop]
          rw [show k + 1 + 1 + 1 + 1 + 1 + (decBytes rest).length = k + (5 + (decBytes rest).length) by omega]
        · rw [if_neg hfit, if_neg (by omega)]
      · rw [if_neg h5, Flow.bind_panic, Flow.bind_panic, if_neg (by omega)]

/-- **`Decode`, complete description** (`len(src) < 2^63` holds for every Go slice; the symbols are ARBITRARY bytes,
nothing is assumed about them being below 32).  The minimal destination is `len(decBytes src)` entries (see
`decBytes_length`: 5 per full group of 8 symbols, and 0, 0, 1, 0, 2, 3, 0, 4 for a last group of 0 … 7 symbols).  With
that much room the function does not panic: it returns the number of bytes written, the error of the model
(`nil`, or `&CorruptInputError{Err…, offset}` with the model's offset), and has overwritten exactly the first
`len(decBytes src)` entries of `dst` with `decBytes src`; with less room it panics. -/
theorem decode_spec (dst : List (BitVec 8)) (src : List UInt8) (hlen : src.length < 2 ^ 63) :
    Gen.Bech32.base32.Decode dst (bv src) =
      if (decBytes src).length ≤ dst.length then
        some (BitVec.ofNat 64 (decBytes src).length, errOf (b32Decode src),
          bv (decBytes src) ++ dst.drop (decBytes src).length)
      else none := by
  rw [Decode_unfold, bv_length]
  have := decLoop src.length src [] dst 0 0 (Nat.le_refl _) hlen
  unfold decRet at this
  rw [show (0#64 : BitVec 64) = BitVec.ofNat 64 0 from rfl, this]
  by_cases h : (decBytes src).length ≤ dst.length
  · rw [if_pos h, if_pos h, Nat.zero_add]; rfl
  · rw [if_neg h, if_neg h]; rfl

/-- on success the model returns exactly the bytes that were written -/
theorem decBytes_of_ok (src : List UInt8) : ∀ (r : Nat) (bytes : List UInt8),
    b32DecodeAux r src = .ok bytes → decBytes src = bytes := by
  intro r
  fun_induction b32DecodeAux r src with
  | case1 read => intro bytes h; simp only [Except.ok.injEq] at h; rw [← h]; simp [decBytes]
  | case2 read s0 s1 s2 s3 s4 s5 s6 s7 rest bs hrec ih =>
    intro bytes h
    simp only [Except.ok.injEq] at h
    rw [decBytes_8, ih bs hrec, h]
  | case3 read s0 s1 s2 s3 s4 s5 s6 s7 rest e hrec ih => intro bytes h; simp at h
  | case4 read tail hne h8 hl => intro bytes h; simp at h
  | case5 read tail hne h8 hl off hpad => intro bytes h; simp at h
  | case6 read tail hne h8 hl hpad =>
    intro bytes h
    simp only [Except.ok.injEq] at h
    rw [← h, decBytes]
    · have h0 : tail.length ≠ 0 := fun h0 => hne (List.length_eq_zero_iff.mp h0)
      simp only [not_or] at hl
      simp [h0, hl.1, hl.2.1, hl.2.2]
    · intro s0 s1 s2 s3 s4 s5 s6 s7 rest hh; exact h8 s0 s1 s2 s3 s4 s5 s6 s7 rest hh

/-- the true minimal length of `dst` for `n` symbols: `DecodedLen(n)`, except for the invalid lengths `n % 8 ∈ {3, 6}`,
where `Decode` returns `ErrInvalidLength` before it writes the last group (1 resp. 3 bytes less) -/
def minDst (n : Nat) : Nat := if n % 8 = 3 ∨ n % 8 = 6 then 5 * (n / 8) else decodedLen n

theorem minDst_le (n : Nat) : minDst n ≤ decodedLen n := by
  unfold minDst; rw [decodedLen_def]; split <;> omega

theorem decBytes_length : ∀ src : List UInt8, (decBytes src).length = minDst src.length
  | [] => by simp [decBytes, minDst, decodedLen_def]
  | [s0] => by simp [decBytes, minDst, decodedLen_def]
  | [s0, s1] => by simp [decBytes, minDst, decodedLen_def, decQuantum_2]
  | [s0, s1, s2] => by simp [decBytes, minDst]
  | [s0, s1, s2, s3] => by simp [decBytes, minDst, decodedLen_def, decQuantum_4]
  | [s0, s1, s2, s3, s4] => by simp [decBytes, minDst, decodedLen_def, decQuantum_5]
  | [s0, s1, s2, s3, s4, s5] => by simp [decBytes, minDst]
  | [s0, s1, s2, s3, s4, s5, s6] => by simp [decBytes, minDst, decodedLen_def, decQuantum_7]
  | s0 :: s1 :: s2 :: s3 :: s4 :: s5 :: s6 :: s7 :: rest => by
    rw [decBytes_8, List.length_append, decBytes_length rest, decQuantum_8]
    simp only [List.length_cons, List.length_nil, minDst, decodedLen_def]
    have e1 : (rest.length + 1 + 1 + 1 + 1 + 1 + 1 + 1 + 1) % 8 = rest.length % 8 := by omega
    have e2 : (rest.length + 1 + 1 + 1 + 1 + 1 + 1 + 1 + 1) / 8 = rest.length / 8 + 1 := by omega
    simp only [e1, e2]
    split <;> omega

/-- the errors of the model and where they occur: `ErrInvalidLength` is reported for a last group of 1, 3 or 6
symbols, at the offset of that group, when only the full groups before it have been written -/
theorem invalidLength_iff (src : List UInt8) : ∀ (r off : Nat), b32DecodeAux r src = .error (.invalidLength, off) →
    (src.length % 8 = 1 ∨ src.length % 8 = 3 ∨ src.length % 8 = 6) ∧ off = r + 8 * (src.length / 8) := by
  intro r
  fun_induction b32DecodeAux r src with
  | case1 read => intro off h; simp at h
  | case2 read s0 s1 s2 s3 s4 s5 s6 s7 rest bs hrec ih => intro off h; simp at h
  | case3 read s0 s1 s2 s3 s4 s5 s6 s7 rest e hrec ih =>
    intro off h
    simp only [Except.error.injEq] at h
    have := ih off (by rw [hrec, h])
    simp only [List.length_cons]
    omega
  | case4 read tail hne h8 hl =>
    intro off h
    simp only [Except.error.injEq, Prod.mk.injEq, true_and] at h
    have hlt : tail.length < 8 := by
      match tail, h8 with
      | [], _ | [_], _ | [_, _], _ | [_, _, _], _ | [_, _, _, _], _ | [_, _, _, _, _], _ | [_, _, _, _, _, _], _
      | [_, _, _, _, _, _, _], _ => simp
      | s0 :: s1 :: s2 :: s3 :: s4 :: s5 :: s6 :: s7 :: rest, h8 => exact absurd rfl (h8 s0 s1 s2 s3 s4 s5 s6 s7 rest)
    omega
  | case5 read tail hne h8 hl off' hpad => intro off h; simp at h
  | case6 read tail hne h8 hl hpad => intro off h; simp at h

theorem padCheck_some (tail : List UInt8) (off : Nat) (h : padCheck tail = some off) :
    off + 1 = tail.length ∧ (tail.length = 2 ∨ tail.length = 4 ∨ tail.length = 5 ∨ tail.length = 7) := by
  simp only [padCheck] at h
  split at h
  · rename_i hc; simp only [Option.some.injEq] at h; omega
  · split at h
    · rename_i hc; simp only [Option.some.injEq] at h; omega
    · split at h
      · rename_i hc; simp only [Option.some.injEq] at h; omega
      · split at h
        · rename_i hc; simp only [Option.some.injEq] at h; omega
        · cases h

/-- `ErrNonZeroPadding` is reported for a last group of 2, 4, 5 or 7 symbols, at the offset of its last symbol, after
that group has been written -/
theorem nonZeroPadding_iff (src : List UInt8) : ∀ (r off : Nat), b32DecodeAux r src = .error (.nonZeroPadding, off) →
    (src.length % 8 = 2 ∨ src.length % 8 = 4 ∨ src.length % 8 = 5 ∨ src.length % 8 = 7) ∧ off + 1 = r + src.length := by
  intro r
  fun_induction b32DecodeAux r src with
  | case1 read => intro off h; simp at h
  | case2 read s0 s1 s2 s3 s4 s5 s6 s7 rest bs hrec ih => intro off h; simp at h
  | case3 read s0 s1 s2 s3 s4 s5 s6 s7 rest e hrec ih =>
    intro off h
    simp only [Except.error.injEq] at h
    have := ih off (by rw [hrec, h])
    simp only [List.length_cons]
    omega
  | case4 read tail hne h8 hl => intro off h; simp at h
  | case5 read tail hne h8 hl off' hpad =>
    intro off h
    simp only [Except.error.injEq, Prod.mk.injEq, true_and] at h
    have := padCheck_some tail off' hpad
    omega
  | case6 read tail hne h8 hl hpad => intro off h; simp at h

/-- with `ErrInvalidLength` at offset `off` the bytes written are the decoding of the `off` symbols before it -/
theorem decode_prefix : ∀ (src : List UInt8) (r : Nat),
    (src.length % 8 = 1 ∨ src.length % 8 = 3 ∨ src.length % 8 = 6) →
    b32DecodeAux r (src.take (8 * (src.length / 8))) = .ok (decBytes src)
  | [], _, h => by simp at h
  | [s0], _, _ => by simp [decBytes, b32DecodeAux]
  | [s0, s1], _, h => by simp at h
  | [s0, s1, s2], _, _ => by simp [decBytes, b32DecodeAux]
  | [s0, s1, s2, s3], _, h => by simp at h
  | [s0, s1, s2, s3, s4], _, h => by simp at h
  | [s0, s1, s2, s3, s4, s5], _, _ => by simp [decBytes, b32DecodeAux]
  | [s0, s1, s2, s3, s4, s5, s6], _, h => by simp at h
  | s0 :: s1 :: s2 :: s3 :: s4 :: s5 :: s6 :: s7 :: rest, r, h => by
    simp only [List.length_cons] at h ⊢
    have e : 8 * ((rest.length + 1 + 1 + 1 + 1 + 1 + 1 + 1 + 1) / 8) = 8 * (rest.length / 8) + 8 := by omega
    rw [e]
    simp only [List.take_succ_cons]
    rw [decodeAux_8, decode_prefix rest (r + 8) (by omega), decBytes_8]

/-! #### the statements in the form the properties use -/

/-- **`Decode`, model accepts**: if the model returns `bytes` and they fit into `dst`, the Go function returns
`(len(bytes), nil)` and has overwritten exactly the first `len(bytes)` entries of `dst` with `bytes`. -/
theorem decode_ok (dst : List (BitVec 8)) (src bytes : List UInt8) (hlen : src.length < 2 ^ 63)
    (hm : b32Decode src = .ok bytes) (hfit : bytes.length ≤ dst.length) :
    Gen.Bech32.base32.Decode dst (bv src) =
      some (BitVec.ofNat 64 bytes.length, none, bv bytes ++ dst.drop bytes.length) := by
  have hb := decBytes_of_ok src 0 bytes hm
  rw [decode_spec dst src hlen, hb, if_pos hfit, hm]; rfl

/-- **`Decode`, model rejects** with `(e, off)`: the Go function returns `&CorruptInputError{e, off}` and as first
result the number of bytes of `decBytes src` — the bytes written before the error, which the model's `Except` does
not keep; they are what `dst` starts with on return.  Their number is `5 * (off / 8)` for `ErrInvalidLength` (and they
are the decoding of the first `off` symbols, `decode_prefix`), and `DecodedLen(len(src))` for `ErrNonZeroPadding`. -/
theorem decode_error (dst : List (BitVec 8)) (src : List UInt8) (e : B32Err) (off : Nat) (hlen : src.length < 2 ^ 63)
    (hm : b32Decode src = .error (e, off)) (hfit : (decBytes src).length ≤ dst.length) :
    Gen.Bech32.base32.Decode dst (bv src) =
      some (BitVec.ofNat 64 (decBytes src).length, some (errName e, BitVec.ofNat 64 off),
        bv (decBytes src) ++ dst.drop (decBytes src).length) := by
  rw [decode_spec dst src hlen, if_pos hfit, hm]; rfl

theorem written_invalidLength (src : List UInt8) (off : Nat) (hm : b32Decode src = .error (.invalidLength, off)) :
    off = 8 * (src.length / 8) ∧ (decBytes src).length = 5 * (off / 8) ∧ b32Decode (src.take off) = .ok (decBytes src) := by
  have h := invalidLength_iff src 0 off hm
  have hoff : off = 8 * (src.length / 8) := by omega
  refine ⟨hoff, ?_, ?_⟩
  · rw [decBytes_length, minDst, decodedLen_def]
    split <;> omega
  · rw [hoff]; exact decode_prefix src 0 h.1

theorem written_nonZeroPadding (src : List UInt8) (off : Nat) (hm : b32Decode src = .error (.nonZeroPadding, off)) :
    off + 1 = src.length ∧ (decBytes src).length = decodedLen src.length := by
  have h := nonZeroPadding_iff src 0 off hm
  refine ⟨by omega, ?_⟩
  rw [decBytes_length, minDst, if_neg (by omega)]

/-- conversely, what the Go function returns determines the verdict of the model: `nil` only if the model accepts … -/
theorem ok_of_decode (dst : List (BitVec 8)) (src : List UInt8) (hlen : src.length < 2 ^ 63)
    (w : BitVec 64) (buf : List (BitVec 8)) (h : Gen.Bech32.base32.Decode dst (bv src) = some (w, none, buf)) :
    ∃ bytes, b32Decode src = .ok bytes ∧ w = BitVec.ofNat 64 bytes.length ∧ buf = bv bytes ++ dst.drop bytes.length := by
  rw [decode_spec dst src hlen] at h
  split at h
  · simp only [Option.some.injEq, Prod.mk.injEq] at h
    cases hm : b32Decode src with
    | ok bytes =>
      have hb := decBytes_of_ok src 0 bytes hm
      exact ⟨bytes, rfl, by rw [← hb]; exact h.1.symm, by rw [← hb]; exact h.2.2.symm⟩
    | error e => rw [hm] at h; cases e; simp [errOf] at h
  · cases h

/-- … and an error `(name, o)` only if the model rejects with that error at that offset. -/
theorem error_of_decode (dst : List (BitVec 8)) (src : List UInt8) (hlen : src.length < 2 ^ 63)
    (w : BitVec 64) (nm : String) (o : BitVec 64) (buf : List (BitVec 8))
    (h : Gen.Bech32.base32.Decode dst (bv src) = some (w, some (nm, o), buf)) :
    ∃ e off, b32Decode src = .error (e, off) ∧ nm = errName e ∧ o = BitVec.ofNat 64 off ∧
      w = BitVec.ofNat 64 (decBytes src).length ∧ buf = bv (decBytes src) ++ dst.drop (decBytes src).length := by
  rw [decode_spec dst src hlen] at h
  split at h
  · simp only [Option.some.injEq, Prod.mk.injEq] at h
    cases hm : b32Decode src with
    | ok bytes => rw [hm] at h; simp [errOf] at h
    | error e =>
      obtain ⟨e, off⟩ := e
      rw [hm] at h
      simp only [errOf, Option.some.injEq, Prod.mk.injEq] at h
      exact ⟨e, off, rfl, h.2.1.1.symm, h.2.1.2.symm, h.1.symm, h.2.2.symm⟩
  · cases h

/-- **`Decode` panics exactly when `dst` is shorter than `minDst(len(src))`**, which is `DecodedLen(len(src))` unless
`len(src) % 8 ∈ {3, 6}`. -/
theorem decode_panics_iff (dst : List (BitVec 8)) (src : List UInt8) (hlen : src.length < 2 ^ 63) :
    Gen.Bech32.base32.Decode dst (bv src) = none ↔ dst.length < minDst src.length := by
  rw [decode_spec dst src hlen, decBytes_length]
  by_cases h : minDst src.length ≤ dst.length
  · rw [if_pos h]; constructor
    · intro h'; cases h'
    · intro h'; omega
  · rw [if_neg h]; constructor
    · intro _; omega
    · intro _; rfl

/-- `DecodedLen(len(src))` is not the minimum for the invalid lengths 3 and 6 (mod 8): 1 resp. 3 entries less suffice -/
theorem minDst_lt (n : Nat) (h : n % 8 = 3 ∨ n % 8 = 6) : minDst n < decodedLen n := by
  unfold minDst; rw [if_pos h, decodedLen_def]; omega
theorem minDst_eq (n : Nat) (h : ¬ (n % 8 = 3 ∨ n % 8 = 6)) : minDst n = decodedLen n := by
  unfold minDst; rw [if_neg h]

/-- **no panic with the destination the caller allocates**: `bech32.Decode` passes
`make([]byte, base32.DecodedLen(len(data)))`. -/
theorem decode_no_panic (dst : List (BitVec 8)) (src : List UInt8) (hlen : src.length < 2 ^ 63)
    (h : decodedLen src.length ≤ dst.length) : Gen.Bech32.base32.Decode dst (bv src) ≠ none := by
  rw [Ne, decode_panics_iff dst src hlen]
  have := minDst_le src.length
  omega

/-- the model accepts only lengths that are not 1, 3, 6 (mod 8) -/
theorem length_of_ok (src : List UInt8) : ∀ (r : Nat) (bytes : List UInt8), b32DecodeAux r src = .ok bytes →
    ¬ (src.length % 8 = 1 ∨ src.length % 8 = 3 ∨ src.length % 8 = 6) := by
  intro r
  fun_induction b32DecodeAux r src with
  | case1 read => intro bytes _; simp
  | case2 read s0 s1 s2 s3 s4 s5 s6 s7 rest bs hrec ih =>
    intro bytes _
    have := ih bs hrec
    simp only [List.length_cons]
    omega
  | case3 read s0 s1 s2 s3 s4 s5 s6 s7 rest e hrec ih => intro bytes h; simp at h
  | case4 read tail hne h8 hl => intro bytes h; simp at h
  | case5 read tail hne h8 hl off hpad => intro bytes h; simp at h
  | case6 read tail hne h8 hl hpad =>
    intro bytes _
    have hlt : tail.length < 8 := by
      match tail, h8 with
      | [], _ | [_], _ | [_, _], _ | [_, _, _], _ | [_, _, _, _], _ | [_, _, _, _, _], _ | [_, _, _, _, _, _], _
      | [_, _, _, _, _, _, _], _ => simp
      | s0 :: s1 :: s2 :: s3 :: s4 :: s5 :: s6 :: s7 :: rest, h8 => exact absurd rfl (h8 s0 s1 s2 s3 s4 s5 s6 s7 rest)
    omega

/-- on success exactly `DecodedLen(len(src))` bytes are produced -/
theorem length_ok (src bytes : List UInt8) (hm : b32Decode src = .ok bytes) : bytes.length = decodedLen src.length := by
  rw [← decBytes_of_ok src 0 bytes hm, decBytes_length]
  apply minDst_eq
  have := length_of_ok src 0 bytes hm
  omega

/-- with exactly `DecodedLen(len(src))` entries: on success the whole destination is the decoded data -/
theorem decode_exact (dst : List (BitVec 8)) (src bytes : List UInt8) (hlen : src.length < 2 ^ 63)
    (h : dst.length = decodedLen src.length) (hm : b32Decode src = .ok bytes) :
    Gen.Bech32.base32.Decode dst (bv src) = some (BitVec.ofNat 64 bytes.length, none, bv bytes) := by
  have hl := length_ok src bytes hm
  rw [decode_ok dst src bytes hlen hm (by omega), hl, ← h, List.drop_length, List.append_nil]

/-! #### the destinations `pkg/bech32/bech32.go` allocates, computed by the translated `EncodedLen` / `DecodedLen` -/

/-- `bech32.Encode`: `data := make([]uint8, base32.EncodedLen(len(src))+checksumLength); base32.Encode(data, src)`
(`checksumLength = 6`): no panic; the symbols are followed by the 6 entries left for the checksum. -/
theorem encode_caller (dst : List (BitVec 8)) (src : List UInt8) (hlen : src.length < 2 ^ 60)
    (h : dst.length = (Gen.Bech32.base32.EncodedLen (BitVec.ofNat 64 src.length) + 6#64).toNat) :
    Gen.Bech32.base32.Encode dst (bv src) =
      some (BitVec.ofNat 64 (encodedLen src.length), bv (b32Encode src) ++ dst.drop (encodedLen src.length)) ∧
    (dst.drop (encodedLen src.length)).length = 6 := by
  rw [EncodedLen_eq _ hlen, show (6#64 : BitVec 64) = BitVec.ofNat 64 6 from rfl, ofNat_add_lit,
    toNat_ofNat_lt _ (by unfold encodedLen; omega)] at h
  exact ⟨encode_eq dst src hlen (by omega), by rw [List.length_drop]; omega⟩

/-- `bech32.Decode`: `dst := make([]byte, base32.DecodedLen(len(data))); base32.Decode(dst, data)`: no panic
(`len(data) * 5 < 2^63`, so that `DecodedLen` does not overflow; in `bech32.Decode` `len(data) ≤ 90`). -/
theorem decode_caller (dst : List (BitVec 8)) (src : List UInt8) (hlen : src.length * 5 < 2 ^ 63)
    (h : dst.length = (Gen.Bech32.base32.DecodedLen (BitVec.ofNat 64 src.length)).toNat) :
    Gen.Bech32.base32.Decode dst (bv src) ≠ none := by
  rw [DecodedLen_eq _ hlen, toNat_ofNat_lt _ (by rw [decodedLen_def]; omega)] at h
  exact decode_no_panic dst src (by omega) (by omega)

end Iota.Tie.Base32Code
