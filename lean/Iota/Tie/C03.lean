/-
Tie for C03 and C09: facts regenerated from pkg/bip39 (constants, PBKDF2 call arguments, both
embedded word lists, source snapshots).  The word lists embedded in the repository must be, index
for index, the committed official lists, and their files must hash to the official digests.
-/
import Iota.Tie.Bip39Code
import Iota.Gen.Bip39
import Iota.Tie.Expect
import Iota.Model.Mnemonic
import Iota.Spec.Bip39Words
import Iota.Proofs.Vectors.Bip39
import Iota.Proofs.Vectors.Hash
import Iota.Proofs.Vectors.Mac

namespace Iota.Tie.C03
open Iota

theorem constants :
    Gen.Bip39.entropyMultiple = (Bip39.entropyMultiple : Int) ∧
    Gen.Bip39.entropyMinBits = (Bip39.entropyMinBits : Int) ∧
    Gen.Bip39.entropyMaxBits = (Bip39.entropyMaxBits : Int) ∧
    Gen.Bip39.indexBits = (Bip39.indexBits : Int) ∧ Gen.Bip39.wordCount = 2048 ∧
    Gen.Bip39.wordIndexMask = 2047 ∧ Gen.Bip39.seedSize = 64 := by decide

/-- `pbkdf2.Key([]byte(mnemonic.String()), []byte("mnemonic"+passphrase), 2048, SeedSize, sha512.New)` -/
theorem pbkdf2_call :
    Gen.Bip39.pbkdf2Iterations = 2048 ∧ Gen.Bip39.pbkdf2KeyLen = 64 ∧
    Gen.Bip39.pbkdf2Password = "[]byte(mnemonic.String())" ∧
    Gen.Bip39.pbkdf2Salt = "[]byte(\"mnemonic\" + passphrase)" ∧
    Gen.Bip39.pbkdf2Hash = "sha512.New" ∧ Gen.Bip39.defaultLanguage = "english" := by
  refine ⟨by decide, by decide, rfl, rfl, rfl, rfl⟩

/-- the embedded lists are the official BIP-39 lists, index for index -/
theorem english_official : Gen.Bip39.english = Spec.Bip39Words.english.map (·.map UInt8.toNat) := by
  decide +kernel
theorem japanese_official : Gen.Bip39.japanese = Spec.Bip39Words.japanese.map (·.map UInt8.toNat) := by
  decide +kernel

/-- SHA-256 of the list bodies (words joined by and ending in '\n') = digests of the official
bip-0039/english.txt and japanese.txt (this replaces the two network tests that fail offline) -/
theorem official_digests :
    Gen.Bip39.englishSha256 = "2f5eed53a4727b4bf8880d8f3f199efc90e58503646d9ff8eff3a2ed3b24dbda" ∧
    Gen.Bip39.japaneseSha256 = "2eed0aef492291e061633d7ad8117f1a2b03eb80a29d0e4e3117ac2528d05ffd" ∧
    Gen.Bip39.englishCount = 2048 ∧ Gen.Bip39.japaneseCount = 2048 := ⟨rfl, rfl, rfl, rfl⟩

theorem src :
    Gen.Bip39.src_bip39_MnemonicToSeed = Expect.Bip39_src_bip39_MnemonicToSeed ∧
    Gen.Bip39.src_bip39_EntropyToMnemonic = Expect.Bip39_src_bip39_EntropyToMnemonic ∧
    Gen.Bip39.src_bip39_MnemonicToEntropy = Expect.Bip39_src_bip39_MnemonicToEntropy ∧
    Gen.Bip39.src_bip39_computeChecksum = Expect.Bip39_src_bip39_computeChecksum ∧
    Gen.Bip39.src_bip39_validateMnemonic = Expect.Bip39_src_bip39_validateMnemonic ∧
    Gen.Bip39.src_bip39_ParseMnemonic = Expect.Bip39_src_bip39_ParseMnemonic ∧
    Gen.Bip39.src_bip39_Mnemonic_String = Expect.Bip39_src_bip39_Mnemonic_String ∧
    Gen.Bip39.src_bip39_Mnemonic_MarshalText = Expect.Bip39_src_bip39_Mnemonic_MarshalText ∧
    Gen.Bip39.src_bip39_Mnemonic_UnmarshalText = Expect.Bip39_src_bip39_Mnemonic_UnmarshalText ∧
    Gen.Bip39.src_bip39_SetWordList = Expect.Bip39_src_bip39_SetWordList ∧
    Gen.Bip39.src_bip39_RegisterWordList = Expect.Bip39_src_bip39_RegisterWordList ∧
    Gen.Bip39.src_bip39_init = Expect.Bip39_src_bip39_init ∧
    Gen.Bip39.src_wordlists_newWordList = Expect.Bip39_src_wordlists_newWordList ∧
    Gen.Bip39.src_wordlists_wordList_Contains = Expect.Bip39_src_wordlists_wordList_Contains ∧
    Gen.Bip39.src_wordlists_wordList_Word = Expect.Bip39_src_wordlists_wordList_Word ∧
    Gen.Bip39.src_wordlists_wordList_Index = Expect.Bip39_src_wordlists_wordList_Index ∧
    Gen.Bip39.src_wordlists_English = Expect.Bip39_src_wordlists_English ∧
    Gen.Bip39.src_wordlists_Japanese = Expect.Bip39_src_wordlists_Japanese :=
  ⟨rfl, rfl, rfl, rfl, rfl, rfl, rfl, rfl, rfl, rfl, rfl, rfl, rfl, rfl, rfl, rfl, rfl, rfl⟩

/-- everything else the package declares (imports, constants, types, variables, build constraints and the functions not
pinned one by one) is unchanged too: no declaration of the modelled packages can change without a tie theorem failing. -/
theorem rest :
    Gen.Bip39.rest_bip39 = Expect.Bip39_rest_bip39 ∧
    Gen.Bip39.rest_wordlists_glue = Expect.Bip39_rest_wordlists_glue ∧
    Gen.Bip39.rest_wordlist = Expect.Bip39_rest_wordlist :=
  ⟨rfl, rfl, rfl⟩

/-! ### the helpers of bip39.go without library calls, translated AS CODE = the model (proofs: `Iota/Tie/Bip39Code.lean`) -/
open Iota.Tie.Bech32Code (bv) in
theorem code_helpers :
    (∀ n, 3 * n < 2 ^ 63 →
      Gen.Bip39.code.entropyBitsToWordCount (BitVec.ofNat 64 n) = BitVec.ofNat 64 (Bip39.entropyBitsToWordCount n)) ∧
    (∀ n, 32 * n < 2 ^ 63 →
      Gen.Bip39.code.wordCountToEntropyBits (BitVec.ofNat 64 n) = BitVec.ofNat 64 (Bip39.wordCountToEntropyBits n)) ∧
    (∀ (b : List UInt8) (size : Nat), b.length < 2 ^ 63 → size < 2 ^ 63 →
      Gen.Bip39.code.padBytes (bv b) (BitVec.ofNat 64 size) =
        if size < b.length then none else some (bv (Bip39.padBytes b size))) ∧
    (∀ e : List UInt8, e.length < 2 ^ 59 →
      Gen.Bip39.code.validateEntropy (bv e) =
        if (e.length * 8) % Bip39.entropyMultiple = 0 ∧ Bip39.entropyMinBits ≤ e.length * 8 ∧ e.length * 8 ≤ Bip39.entropyMaxBits
        then none else some "ErrInvalidEntropySize") :=
  ⟨Bip39Code.entropyBitsToWordCount_eq, Bip39Code.wordCountToEntropyBits_eq, Bip39Code.padBytes_eq, Bip39Code.validateEntropy_eq⟩

end Iota.Tie.C03
