/-
Tie for C03 and C09: facts regenerated from pkg/bip39 (constants, PBKDF2 call arguments, both
embedded word lists, source snapshots).  The word lists embedded in the repository must be, index
for index, the committed official lists, and their files must hash to the official digests.
-/
import Iota.Tie.Bip39Code
import Iota.Tie.Bip39BigCode
import Iota.Gen.Bip39
import Iota.Tie.Expect
import Iota.Model.Mnemonic
import Iota.Spec.Bip39Words
import Iota.Proofs.Vectors.Bip39
import Iota.Proofs.Vectors.Hash
import Iota.Proofs.Vectors.Mac

namespace Iota.Tie.C03
open Iota

theorem constants :
    Gen.Bip39.entropyMultiple = (Bip39.entropyMultiple : Int) ∧
    Gen.Bip39.entropyMinBits = (Bip39.entropyMinBits : Int) ∧
    Gen.Bip39.entropyMaxBits = (Bip39.entropyMaxBits : Int) ∧
    Gen.Bip39.indexBits = (Bip39.indexBits : Int) ∧ Gen.Bip39.wordCount = 2048 ∧
    Gen.Bip39.wordIndexMask = 2047 ∧ Gen.Bip39.seedSize = 64 := by decide

/-- `pbkdf2.Key([]byte(mnemonic.String()), []byte("mnemonic"+passphrase), 2048, SeedSize, sha512.New)` -/
theorem pbkdf2_call :
    Gen.Bip39.pbkdf2Iterations = 2048 ∧ Gen.Bip39.pbkdf2KeyLen = 64 ∧
    Gen.Bip39.pbkdf2Password = "[]byte(mnemonic.String())" ∧
    Gen.Bip39.pbkdf2Salt = "[]byte(\"mnemonic\" + passphrase)" ∧
    Gen.Bip39.pbkdf2Hash = "sha512.New" ∧ Gen.Bip39.defaultLanguage = "english" := by
  refine ⟨by decide, by decide, rfl, rfl, rfl, rfl⟩

/-- the embedded lists are the official BIP-39 lists, index for index -/
theorem english_official : Gen.Bip39.english = Spec.Bip39Words.english.map (·.map UInt8.toNat) := by
  decide +kernel
theorem japanese_official : Gen.Bip39.japanese = Spec.Bip39Words.japanese.map (·.map UInt8.toNat) := by
  decide +kernel

/-- SHA-256 of the list bodies (words joined by and ending in '\n') = digests of the official
bip-0039/english.txt and japanese.txt (this replaces the two network tests that fail offline) -/
theorem official_digests :
    Gen.Bip39.englishSha256 = "2f5eed53a4727b4bf8880d8f3f199efc90e58503646d9ff8eff3a2ed3b24dbda" ∧
    Gen.Bip39.japaneseSha256 = "2eed0aef492291e061633d7ad8117f1a2b03eb80a29d0e4e3117ac2528d05ffd" ∧
    Gen.Bip39.englishCount = 2048 ∧ Gen.Bip39.japaneseCount = 2048 := ⟨rfl, rfl, rfl, rfl⟩

theorem src :
    Gen.Bip39.src_bip39_MnemonicToSeed = Expect.Bip39_src_bip39_MnemonicToSeed ∧
    Gen.Bip39.src_bip39_ParseMnemonic = Expect.Bip39_src_bip39_ParseMnemonic ∧
    Gen.Bip39.src_bip39_Mnemonic_String = Expect.Bip39_src_bip39_Mnemonic_String ∧
    Gen.Bip39.src_bip39_Mnemonic_MarshalText = Expect.Bip39_src_bip39_Mnemonic_MarshalText ∧
    Gen.Bip39.src_bip39_Mnemonic_UnmarshalText = Expect.Bip39_src_bip39_Mnemonic_UnmarshalText ∧
    Gen.Bip39.src_bip39_SetWordList = Expect.Bip39_src_bip39_SetWordList ∧
    Gen.Bip39.src_bip39_RegisterWordList = Expect.Bip39_src_bip39_RegisterWordList ∧
    Gen.Bip39.src_bip39_init = Expect.Bip39_src_bip39_init ∧
    Gen.Bip39.src_wordlists_newWordList = Expect.Bip39_src_wordlists_newWordList ∧
    Gen.Bip39.src_wordlists_wordList_Contains = Expect.Bip39_src_wordlists_wordList_Contains ∧
    Gen.Bip39.src_wordlists_wordList_Word = Expect.Bip39_src_wordlists_wordList_Word ∧
    Gen.Bip39.src_wordlists_wordList_Index = Expect.Bip39_src_wordlists_wordList_Index ∧
    Gen.Bip39.src_wordlists_English = Expect.Bip39_src_wordlists_English ∧
    Gen.Bip39.src_wordlists_Japanese = Expect.Bip39_src_wordlists_Japanese :=
  ⟨rfl, rfl, rfl, rfl, rfl, rfl, rfl, rfl, rfl, rfl, rfl, rfl, rfl, rfl⟩

/-- everything else the package declares (imports, constants, types, variables, build constraints and the functions not
pinned one by one) is unchanged too: no declaration of the modelled packages can change without a tie theorem failing. -/
theorem rest :
    Gen.Bip39.rest_bip39 = Expect.Bip39_rest_bip39 ∧
    Gen.Bip39.rest_wordlists_glue = Expect.Bip39_rest_wordlists_glue ∧
    Gen.Bip39.rest_wordlist = Expect.Bip39_rest_wordlist :=
  ⟨rfl, rfl, rfl⟩

/-! ### the helpers of bip39.go without library calls, translated AS CODE = the model (proofs: `Iota/Tie/Bip39Code.lean`) -/
open Iota.Tie.Bech32Code (bv) in
theorem code_helpers :
    (∀ n, 3 * n < 2 ^ 63 →
      Gen.Bip39.code.entropyBitsToWordCount (BitVec.ofNat 64 n) = BitVec.ofNat 64 (Bip39.entropyBitsToWordCount n)) ∧
    (∀ n, 32 * n < 2 ^ 63 →
      Gen.Bip39.code.wordCountToEntropyBits (BitVec.ofNat 64 n) = BitVec.ofNat 64 (Bip39.wordCountToEntropyBits n)) ∧
    (∀ (b : List UInt8) (size : Nat), b.length < 2 ^ 63 → size < 2 ^ 63 →
      Gen.Bip39.code.padBytes (bv b) (BitVec.ofNat 64 size) =
        if size < b.length then none else some (bv (Bip39.padBytes b size))) ∧
    (∀ e : List UInt8, e.length < 2 ^ 59 →
      Gen.Bip39.code.validateEntropy (bv e) =
        if (e.length * 8) % Bip39.entropyMultiple = 0 ∧ Bip39.entropyMinBits ≤ e.length * 8 ∧ e.length * 8 ≤ Bip39.entropyMaxBits
        then none else some "ErrInvalidEntropySize") :=
  ⟨Bip39Code.entropyBitsToWordCount_eq, Bip39Code.wordCountToEntropyBits_eq, Bip39Code.padBytes_eq, Bip39Code.validateEntropy_eq⟩

/-! ### bip39.go — `EntropyToMnemonic`, `MnemonicToEntropy`, `computeChecksum`, `validateMnemonic` — translated AS CODE = the
model (`Gen.Bip39Code.big.*` in `Iota/Gen/Bip39Code.lean`, stage 12 of the translator: `*big.Int` as `Int` with `SetBytes`,
`Bytes`, `Int64`, `And`, `Or`, `Lsh`, `Rsh`, the package-level constants `wordIndexMask` and `bigOne`, the named `[]string`
type `Mnemonic`; `none` as a result = Go run-time panic).  `sha256.Sum256` is a PARAMETER `sum` (`hH`: it is `H` on model
bytes) and so are the three methods of the package-level interface variable `wordList`; `Externs W contains word index` says
that they are the methods of a list `W` of 2048 words (met by every such list with its own methods, `externs_of`).
Proofs: `Iota/Tie/Bip39BigCode.lean`; end-to-end corollaries on the generated functions alone: `Iota/Tie/E2E/Bip39.lean`.
These four functions are no longer pinned by source text. -/

open Iota.Tie.Bech32Code (bv)
open Iota.Tie.Bip39BigCode (Externs bvs encWords encBytes containsOf wordOf indexOf)
open Iota.Bip39 (Bytes Word)

/-- **The Go function `EntropyToMnemonic`, translated statement by statement, returns for EVERY entropy byte string (shorter
than 2^59) exactly what the model returns — the sentence, or `ErrInvalidEntropySize` — and never panics.** -/
theorem code_entropyToMnemonic {W : List Word} {contains : List (BitVec 8) → Bool} {word : BitVec 64 → Option (List (BitVec 8))}
    {index : List (BitVec 8) → Option (BitVec 64)} (E : Externs W contains word index)
    (sum : List (BitVec 8) → List (BitVec 8)) (H : Bytes → Bytes) (hH : ∀ x, sum (bv x) = bv (H x))
    (e : Bytes) (he : e.length < 2 ^ 59) :
    Gen.Bip39Code.big.EntropyToMnemonic sum word (bv e) = some (encWords (Bip39.entropyToMnemonic H W e)) :=
  Bip39BigCode.code_entropyToMnemonic E sum H hH e he

/-- **The Go function `MnemonicToEntropy`, translated statement by statement (the big.Int decoder loop, the checksum mask,
`Rsh(...).Bytes()`, `padBytes`, the comparison), returns for EVERY word sequence (fewer than 2^58 words) exactly what the
model returns — the entropy, `ErrInvalidMnemonic` or `ErrInvalidChecksum` — and never panics: `panic("invalid word index")`,
the panics of `wordList.Index`, `padBytes` and `computeChecksum` are unreachable.** -/
theorem code_mnemonicToEntropy {W : List Word} {contains : List (BitVec 8) → Bool} {word : BitVec 64 → Option (List (BitVec 8))}
    {index : List (BitVec 8) → Option (BitVec 64)} (E : Externs W contains word index)
    (sum : List (BitVec 8) → List (BitVec 8)) (H : Bytes → Bytes) (hH : ∀ x, sum (bv x) = bv (H x))
    (m : List Word) (hm : m.length < 2 ^ 58) :
    Gen.Bip39Code.big.MnemonicToEntropy sum contains index (bvs m) = some (encBytes (Bip39.mnemonicToEntropy H W m)) :=
  Bip39BigCode.code_mnemonicToEntropy E sum H hH m hm

/-- `computeChecksum` as code: the first `n` bits of the digest; panics exactly for `n > 256` -/
theorem code_computeChecksum (sum : List (BitVec 8) → List (BitVec 8)) (H : Bytes → Bytes) (hH : ∀ x, sum (bv x) = bv (H x))
    (b : Bytes) (n : Nat) (hn : n < 2 ^ 63) :
    Gen.Bip39Code.big.computeChecksum sum (bv b) (BitVec.ofNat 64 n) =
      if 256 < n then none else some (Bip39.computeChecksum H b n : Int) :=
  Bip39BigCode.code_computeChecksum sum H hH b n hn

/-- the assumption about the word-list methods is met by every list of 2048 words with its own methods — in particular by
the two official lists the repository's lists are tied to (`wordlists` above) -/
theorem code_externs_satisfiable (W : List Word) (hW : W.length = 2048) :
    Externs W (containsOf W) (wordOf W) (indexOf W) := Bip39BigCode.externs_of W hW

end Iota.Tie.C03
