/-
Tie shared by C01, C07, C18: facts regenerated from pkg/ed25519 and pkg/vrf.
-/
import Iota.Gen.Ed
import Iota.Tie.Expect
import Iota.Model.Vrf
import Iota.Tie.VrfCode
import Iota.Proofs.Vectors.Ed
import Iota.Proofs.Vectors.Hash

namespace Iota.Tie.Ed
open Iota

theorem sizes :
    Gen.Ed.publicKeySize = 32 ∧ Gen.Ed.privateKeySize = 64 ∧ Gen.Ed.signatureSize = 64 ∧ Gen.Ed.seedSize = 32 ∧
    Gen.Ed.vrfProofSize = (Vrf.proofSize : Int) ∧ Gen.Ed.vrfPtLen = (Vrf.ptLen : Int) ∧
    Gen.Ed.vrfCLen = (Vrf.cLen : Int) ∧ Gen.Ed.vrfQLen = (Vrf.qLen : Int) := by decide

/-- suite string 0x03 and the domain separators 0x01/0x00, 0x02/0x00, 0x03/0x00 -/
theorem vrf_constants :
    Gen.Ed.vrfSuiteString = Vrf.suiteString.map (fun b => (b.toNat : Int)) ∧
    Gen.Ed.vrfSeparators = [[1], [0], [2], [0], [3], [0]] ∧
    Gen.Ed.vrfNonCanonicalSignBytes = Vrf.nonCanonicalSignBytes.map (·.map fun b => (b.toNat : Int)) := by decide

/-- `isCanonicalY` is not pinned by text any more: it is translated as code and tied to the model for all inputs in
`Iota/Tie/VrfCode.lean`. -/
theorem src :
    Gen.Ed.src_ed25519_PrivateKey_Public = Expect.Ed_src_ed25519_PrivateKey_Public ∧
    Gen.Ed.src_ed25519_PrivateKey_Seed = Expect.Ed_src_ed25519_PrivateKey_Seed ∧
    Gen.Ed.src_ed25519_PrivateKey_Sign = Expect.Ed_src_ed25519_PrivateKey_Sign ∧
    Gen.Ed.src_ed25519_GenerateKey = Expect.Ed_src_ed25519_GenerateKey ∧
    Gen.Ed.src_ed25519_NewKeyFromSeed = Expect.Ed_src_ed25519_NewKeyFromSeed ∧
    Gen.Ed.src_ed25519_newKeyFromSeed = Expect.Ed_src_ed25519_newKeyFromSeed ∧
    Gen.Ed.src_ed25519_Sign = Expect.Ed_src_ed25519_Sign ∧
    Gen.Ed.src_ed25519_sign = Expect.Ed_src_ed25519_sign ∧
    Gen.Ed.src_ed25519_Verify = Expect.Ed_src_ed25519_Verify ∧
    Gen.Ed.src_vrf_Prove = Expect.Ed_src_vrf_Prove ∧
    Gen.Ed.src_vrf_ProofToHash = Expect.Ed_src_vrf_ProofToHash ∧
    Gen.Ed.src_vrf_Verify = Expect.Ed_src_vrf_Verify ∧
    Gen.Ed.src_vrf_encodeToCurveTryAndIncrement = Expect.Ed_src_vrf_encodeToCurveTryAndIncrement ∧
    Gen.Ed.src_vrf_challengeGeneration = Expect.Ed_src_vrf_challengeGeneration ∧
    Gen.Ed.src_vrf_validateKey = Expect.Ed_src_vrf_validateKey ∧
    Gen.Ed.src_vrf_Proof_Hash = Expect.Ed_src_vrf_Proof_Hash ∧
    Gen.Ed.src_vrf_Proof_Bytes = Expect.Ed_src_vrf_Proof_Bytes ∧
    Gen.Ed.src_vrf_Proof_SetBytes = Expect.Ed_src_vrf_Proof_SetBytes ∧
    Gen.Ed.src_vrf_Proof_UnmarshalBinary = Expect.Ed_src_vrf_Proof_UnmarshalBinary ∧
    Gen.Ed.src_vrf_newPointFromCanonicalBytes = Expect.Ed_src_vrf_newPointFromCanonicalBytes :=
  ⟨rfl, rfl, rfl, rfl, rfl, rfl, rfl, rfl, rfl, rfl, rfl, rfl, rfl, rfl, rfl, rfl, rfl, rfl, rfl, rfl⟩

/-- everything else the package declares (imports, constants, types, variables, build constraints and the functions not
pinned one by one) is unchanged too: no declaration of the modelled packages can change without a tie theorem failing. -/
theorem rest :
    Gen.Ed.rest_ed25519 = Expect.Ed_rest_ed25519 ∧
    Gen.Ed.rest_vrf = Expect.Ed_rest_vrf :=
  ⟨rfl, rfl⟩

/-! ### vrf `isCanonicalY` translated AS CODE (early returns inside the loop, checked indexing) = the model on every
input of at least 32 bytes; shorter inputs panic in Go (`none`) — the callers pass exactly 32 bytes. -/
open Iota.Tie.Bech32Code (bv) in
theorem code_isCanonicalY (x : List UInt8) (hx : 32 ≤ x.length) :
    Gen.Ed.vrf.isCanonicalY (bv x) = some (Vrf.isCanonicalY x) := Iota.Tie.VrfCode.isCanonicalY_eq x hx
open Iota.Tie.Bech32Code (bv) in
theorem code_isCanonicalY_short (x : List UInt8) (hx : x.length < 32) :
    Gen.Ed.vrf.isCanonicalY (bv x) = none := Iota.Tie.VrfCode.isCanonicalY_panics x hx

end Iota.Tie.Ed
