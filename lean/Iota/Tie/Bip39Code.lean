/-
Code tie for pkg/bip39: the four helpers without library calls — `entropyBitsToWordCount`, `wordCountToEntropyBits`,
`padBytes`, `validateEntropy` — translated AS CODE by cmd/extract into `Iota/Gen/Bip39.lean` (`Gen.Bip39.code.*`; Go `int`
is `BitVec 64`, `[]byte` is `List (BitVec 8)`, `none` = run-time panic), against the model of `Iota/Model/Bip39.lean`.
Their text is not pinned: a rewrite that keeps the meaning re-proves, a changed constant or comparison breaks a theorem.
-/
import Iota.Gen.Bip39
import Iota.Model.Bip39
import Iota.Tie.BV

namespace Iota.Tie.Bip39Code
open Iota Iota.Go
open Iota.Tie.Bech32Code (bv)
open Iota.Tie.Base32Code (sdiv_ofNat slt_ofNat)

theorem mul_ofNat (c n : Nat) : BitVec.ofNat 64 c * BitVec.ofNat 64 n = BitVec.ofNat 64 (c * n) := by
  apply BitVec.eq_of_toNat_eq; simp [BitVec.toNat_mul]

/-- `entropyBitsToWordCount` is `3·n / 32` as long as `3·n` does not overflow -/
theorem entropyBitsToWordCount_eq (n : Nat) (h : 3 * n < 2 ^ 63) :
    Gen.Bip39.code.entropyBitsToWordCount (BitVec.ofNat 64 n) = BitVec.ofNat 64 (Bip39.entropyBitsToWordCount n) := by
  unfold Gen.Bip39.code.entropyBitsToWordCount Bip39.entropyBitsToWordCount
  rw [show (3#64 : BitVec 64) = BitVec.ofNat 64 3 from rfl, mul_ofNat]
  exact sdiv_ofNat (3 * n) 32 h (by decide)

/-- `wordCountToEntropyBits` is `32·n / 3` as long as `32·n` does not overflow -/
theorem wordCountToEntropyBits_eq (n : Nat) (h : 32 * n < 2 ^ 63) :
    Gen.Bip39.code.wordCountToEntropyBits (BitVec.ofNat 64 n) = BitVec.ofNat 64 (Bip39.wordCountToEntropyBits n) := by
  unfold Gen.Bip39.code.wordCountToEntropyBits Bip39.wordCountToEntropyBits
  rw [show (32#64 : BitVec 64) = BitVec.ofNat 64 32 from rfl, mul_ofNat]
  exact sdiv_ofNat (32 * n) 3 h (by decide)

theorem length_bv (b : List UInt8) : (bv b).length = b.length := by simp [bv]

theorem bv_append (a b : List UInt8) : bv (a ++ b) = bv a ++ bv b := by simp [bv]

theorem bv_replicate (n : Nat) : bv (List.replicate n 0) = List.replicate n 0#8 := by
  simp [bv]

/-- `padBytes(b, size)`: panics exactly when `b` is longer than `size`; otherwise `b` with leading zero bytes up to `size` -/
theorem padBytes_eq (b : List UInt8) (size : Nat) (hb : b.length < 2 ^ 63) (hs : size < 2 ^ 63) :
    Gen.Bip39.code.padBytes (bv b) (BitVec.ofNat 64 size) =
      if size < b.length then none else some (bv (Bip39.padBytes b size)) := by
  unfold Gen.Bip39.code.padBytes Bip39.padBytes
  simp only [length_bv]
  rw [slt_ofNat size b.length hs hb]
  by_cases h : size < b.length
  · simp [h, Flow.result]
  · have hsub : (BitVec.ofNat 64 size - BitVec.ofNat 64 b.length).toNat = size - b.length := by
      rw [BitVec.toNat_sub, BitVec.toNat_ofNat, BitVec.toNat_ofNat,
        Nat.mod_eq_of_lt (by omega : size < 2 ^ 64), Nat.mod_eq_of_lt (by omega : b.length < 2 ^ 64)]
      omega
    have hnn : Go.nonneg (BitVec.ofNat 64 size - BitVec.ofNat 64 b.length) = true := by
      unfold Go.nonneg
      rw [BitVec.msb_eq_false_iff_two_mul_lt.mpr (by rw [hsub]; omega)]
      rfl
    simp only [h, decide_false, Bool.false_eq_true, if_false, hnn, Bool.not_true, Flow.result]
    rw [hsub, bv_append, bv_replicate]

/-- `validateEntropy`: nil exactly for 16, 20, …, 64 bytes (128 … 512 bits in steps of 32), `ErrInvalidEntropySize` otherwise -/
theorem validateEntropy_eq (e : List UInt8) (h : e.length < 2 ^ 59) :
    Gen.Bip39.code.validateEntropy (bv e) =
      if (e.length * 8) % Bip39.entropyMultiple = 0 ∧ Bip39.entropyMinBits ≤ e.length * 8 ∧ e.length * 8 ≤ Bip39.entropyMaxBits
      then none else some "ErrInvalidEntropySize" := by
  unfold Gen.Bip39.code.validateEntropy Bip39.entropyMultiple Bip39.entropyMinBits Bip39.entropyMaxBits
  simp only [length_bv]
  have hm : BitVec.ofNat 64 e.length * 8#64 = BitVec.ofNat 64 (e.length * 8) := by
    rw [show (8#64 : BitVec 64) = BitVec.ofNat 64 8 from rfl, mul_ofNat, Nat.mul_comm]
  rw [hm]
  have hlt : e.length * 8 < 2 ^ 63 := by omega
  have hrem : BitVec.srem (BitVec.ofNat 64 (e.length * 8)) 32#64 = BitVec.ofNat 64 (e.length * 8 % 32) := by
    rw [BitVec.srem_eq, Base32Code.msb_ofNat_small _ hlt,
      show (32#64 : BitVec 64) = BitVec.ofNat 64 32 from rfl, Base32Code.msb_ofNat_small 32 (by decide)]
    apply BitVec.eq_of_toNat_eq
    simp only [BitVec.toNat_umod, BitVec.toNat_ofNat]
    have h32 : e.length * 8 % 32 < 32 := Nat.mod_lt _ (by decide)
    rw [Nat.mod_eq_of_lt (by omega : e.length * 8 < 2 ^ 64), show (32 % 2 ^ 64 : Nat) = 32 from rfl,
      Nat.mod_eq_of_lt (by omega : e.length * 8 % 32 < 2 ^ 64)]
  rw [hrem, show (128#64 : BitVec 64) = BitVec.ofNat 64 128 from rfl, show (512#64 : BitVec 64) = BitVec.ofNat 64 512 from rfl,
    slt_ofNat _ 128 hlt (by decide), slt_ofNat 512 _ (by decide) hlt]
  have hne : (BitVec.ofNat 64 (e.length * 8 % 32) != 0#64) = decide (e.length * 8 % 32 ≠ 0) := by
    have : (BitVec.ofNat 64 (e.length * 8 % 32) = 0#64) ↔ e.length * 8 % 32 = 0 := by
      constructor
      · intro hh
        have := congrArg BitVec.toNat hh
        simp only [BitVec.toNat_ofNat] at this
        omega
      · intro hh; rw [hh]
    by_cases hz : e.length * 8 % 32 = 0
    · simp [hz]
    · simp [hz, this]
  rw [hne]
  by_cases h1 : e.length * 8 % 32 = 0 <;> by_cases h2 : e.length * 8 < 128 <;> by_cases h3 : 512 < e.length * 8 <;>
    simp [h1, h2, h3] <;> omega

end Iota.Tie.Bip39Code
