/-
Code tie for pkg/curl/transform.go: `transformGeneric`, translated AS CODE by cmd/extract into `Iota/Gen/Curl.lean`
(`Gen.Curl.code.transformGeneric : List (BitVec 64) → … → Option (List (BitVec 64) × … )`, `none` = run-time panic,
the four components = the final contents of the caller's four arrays), against the model `Curl.transformGeneric`
of `Iota/Model/Curl.lean`.

* `transformGeneric_eq`: for all four planes (lists of length 729 = the lists of `Plane`s) the translated code and the
  model agree: same panic behaviour, same final contents of all four arrays.
* `sBox_eq`: the translated `sBox` is the model's.
* `transformGeneric_some` / `transformGeneric_ne_none`: with `Proofs.Curl.transformGeneric_eq` the translated code
  never panics on arrays of length 729 and returns the closed form (`roundsW 81` in the to-arrays, `roundsW 80` left
  in the from-arrays).

Route: the generated definition is restated once (`code_eq`, by `rfl`) in terms of `roundC` / `bodyC` / `qC` (a quarter
of the inner loop body, in continuation-passing style); the model's `loopBody` is restated as four quarters `qM`;
`qC_rel` ties one quarter (all inputs, including the failing index checks), `bodyC_rel` the body, `inner_rel` the inner
loop (`Go.forUp true true 1 725 4` = 182 indices), `roundC_eq` a round, `rounds_eq` the 81 rounds with the tag
bookkeeping of the swapped array pointers, ended by `Go.byTag`.
-/
import Iota.Gen.Curl
import Iota.Model.Curl
import Iota.Tie.GoFlow
import Iota.Proofs.Curl.Transform

namespace Iota.Tie.CurlCodePerm
open Iota Iota.Go

abbrev W := BitVec 64
abbrev Res := List W × List W × List W × List W
/-- an array-pointer variable: (tag, content) -/
abbrev PL := Nat × List W
abbrev InSt := PL × PL × W × W × W × W × W
abbrev OutSt := PL × PL × PL × PL

/-- a quarter of the inner loop body, in continuation-passing style: `t` is the index already updated -/
def qC {σ : Type} (lfrom hfrom : PL) (t idx : W) (lto hto : PL) (pL pH : W)
    (K : PL → PL → W → W → Flow Res σ) : Flow Res σ :=
  if !(Go.inRangeS t 729) then Go.Flow.panic else
  let nL : W := (lfrom.2.getD t.toNat 0#64)
  if !(Go.inRangeS t 729) then Go.Flow.panic else
  let nH : W := (hfrom.2.getD t.toNat 0#64)
  let r : W × W := Gen.Curl.code.sBox pL pH nL nH
  if !(Go.inRangeS idx 729) then Go.Flow.panic else
  let lto : PL := (lto.1, lto.2.set idx.toNat r.1)
  if !(Go.inRangeS idx 729) then Go.Flow.panic else
  let hto : PL := (hto.1, hto.2.set idx.toNat r.2)
  K lto hto nL nH

def bodyC (lfrom hfrom : PL) (st : InSt) (i : W) : Flow Res InSt :=
  let t1 : W := st.2.2.2.2.2.2 + 364#64
  qC lfrom hfrom t1 (i + 0#64) st.1 st.2.1 st.2.2.2.2.1 st.2.2.2.2.2.1 fun lto hto aL aH =>
  let t2 : W := t1 - 365#64
  qC lfrom hfrom t2 (i + 1#64) lto hto aL aH fun lto hto bL bH =>
  let t3 : W := t2 + 364#64
  qC lfrom hfrom t3 (i + 2#64) lto hto bL bH fun lto hto aL aH =>
  let t4 : W := t3 - 365#64
  qC lfrom hfrom t4 (i + 3#64) lto hto aL aH fun lto hto bL bH =>
  Go.Flow.run (lto, hto, aL, aH, bL, bH, t4)

def roundC (st : OutSt) (_r : W) : Flow Res OutSt :=
  let lto : PL := st.1
  let hto : PL := st.2.1
  let lfrom : PL := st.2.2.1
  let hfrom : PL := st.2.2.2
  let aL : W := lfrom.2.getD 0 0#64
  let aH : W := hfrom.2.getD 0 0#64
  let bL : W := lfrom.2.getD 364 0#64
  let bH : W := hfrom.2.getD 364 0#64
  let s : W × W := Gen.Curl.code.sBox aL aH bL bH
  let lto : PL := (lto.1, lto.2.set 0 s.1)
  let hto : PL := (hto.1, hto.2.set 0 s.2)
  Go.Flow.bind (Go.forIn (Go.forUp true true 1#64 725#64 4) (lto, hto, aL, aH, bL, bH, 364#64) (bodyC lfrom hfrom))
    fun st7 => Go.Flow.run (lfrom, hfrom, st7.1, st7.2.1)

def finC (st : OutSt) : Flow Res Res :=
  let lto : PL := st.1
  let hto : PL := st.2.1
  let lfrom : PL := st.2.2.1
  let hfrom : PL := st.2.2.2
  Go.Flow.done ((Go.byTag [lto, hto, lfrom, hfrom] 0), (Go.byTag [lto, hto, lfrom, hfrom] 1), (Go.byTag [lto, hto, lfrom, hfrom] 2), (Go.byTag [lto, hto, lfrom, hfrom] 3))

theorem code_eq (lto hto lfrom hfrom : List W) :
    Gen.Curl.code.transformGeneric lto hto lfrom hfrom =
      Go.Flow.result (Go.Flow.bind
        (Go.forIn (Go.forDown true false 81#64 0#64 1) ((0, lto), (1, hto), (2, lfrom), (3, hfrom)) roundC) finC) := rfl


/-! ### the model, restated in the same shape -/

open Iota.Curl (Plane LoopSt Bufs rd wr)

def qM (lfrom hfrom : Plane) (t i : Nat) (lto hto : Plane) (pL pH : W)
    (k : Plane → Plane → W → W → Option LoopSt) : Option LoopSt :=
  (rd lfrom t).bind fun nL => (rd hfrom t).bind fun nH =>
  (wr lto i (Curl.sBox pL pH nL nH).1).bind fun lto' =>
  (wr hto i (Curl.sBox pL pH nL nH).2).bind fun hto' => k lto' hto' nL nH

theorem sBox_eq (aL aH bL bH : BitVec 64) : Gen.Curl.code.sBox aL aH bL bH = Curl.sBox aL aH bL bH := rfl

/-! ### small facts -/

theorem inRangeS_ofNat (m : Nat) (h : m < 2 ^ 63) :
    Go.inRangeS (BitVec.ofNat 64 m) 729 = decide (m < 729) := by
  unfold Go.inRangeS
  rw [BitVec.msb_eq_decide, BitVec.toNat_ofNat, Nat.mod_eq_of_lt (by omega : m < 2 ^ 64)]
  have : decide (2 ^ (64 - 1) ≤ m) = false := decide_eq_false (by omega)
  rw [this]; rfl

theorem toNat_ofNat_small (m : Nat) (h : m < 2 ^ 63) : (BitVec.ofNat 64 m).toNat = m := by
  rw [BitVec.toNat_ofNat, Nat.mod_eq_of_lt (by omega : m < 2 ^ 64)]

theorem ofNat_sub365 (m : Nat) (h : 365 ≤ m) (h2 : m < 2 ^ 63) :
    BitVec.ofNat 64 m - 365#64 = BitVec.ofNat 64 (m - 365) := by
  apply BitVec.eq_of_toNat_eq
  rw [BitVec.toNat_sub, BitVec.toNat_ofNat, BitVec.toNat_ofNat, BitVec.toNat_ofNat]
  omega

theorem inRangeS_sub365 (m : Nat) (h : m < 365) :
    Go.inRangeS (BitVec.ofNat 64 m - 365#64) 729 = false := by
  unfold Go.inRangeS
  rw [BitVec.toNat_sub, BitVec.toNat_ofNat, BitVec.toNat_ofNat]
  have : decide ((2 ^ 64 - 365 % 2 ^ 64 + m % 2 ^ 64) % 2 ^ 64 < 729) = false := decide_eq_false (by omega)
  rw [this, Bool.and_false]

theorem getD_toList (v : Plane) (i : Nat) (h : i < 729) : v.toList.getD i 0#64 = v[i] := by
  simp [List.getD_eq_getElem?_getD, h]


/-! ### the inner loop body -/

def enc (tl th : Nat) (aL aH : W) (s : LoopSt) : InSt :=
  ((tl, s.lto.toList), (th, s.hto.toList), aL, aH, s.bL, s.bH, BitVec.ofNat 64 s.t)

/-- the code's outcome is the model's outcome (`aL`, `aH` are dead at the loop head and not part of the model state).
An inductive predicate, not a definition by cases on the model's outcome: elaboration must not be tempted to
evaluate the model. -/
inductive Rel (tl th : Nat) : Flow Res InSt → Option LoopSt → Prop
  | panic : Rel tl th .panic none
  | run (aL aH : W) (s : LoopSt) (h : s.t < 729) : Rel tl th (.run (enc tl th aL aH s)) (some s)

theorem Rel.of_none {tl th : Nat} {f : Flow Res InSt} (h : Rel tl th f none) : f = .panic := by
  cases h; rfl

theorem Rel.of_some {tl th : Nat} {f : Flow Res InSt} {s : LoopSt} (h : Rel tl th f (some s)) :
    (∃ aL aH, f = .run (enc tl th aL aH s)) ∧ s.t < 729 := by
  cases h with
  | run aL aH s h => exact ⟨⟨aL, aH, rfl⟩, h⟩

theorem qC_panic {σ : Type} (lfrom hfrom : PL) (t idx : W) (lto hto : PL) (pL pH : W)
    (K : PL → PL → W → W → Flow Res σ) (h : Go.inRangeS t 729 = false) :
    qC lfrom hfrom t idx lto hto pL pH K = .panic := by
  unfold qC; rw [h]; rfl

theorem qC_rel (lfrom hfrom : Plane) (fl fh tl th tn i : Nat) (htn : tn < 2 ^ 63) (hi : i < 2 ^ 63)
    (lto hto : Plane) (pL pH : W) (K : PL → PL → W → W → Flow Res InSt)
    (k : Plane → Plane → W → W → Option LoopSt)
    (hK : tn < 729 → ∀ lto' hto' nL nH,
      Rel tl th (K (tl, lto'.toList) (th, hto'.toList) nL nH) (k lto' hto' nL nH)) :
    Rel tl th (qC (fl, lfrom.toList) (fh, hfrom.toList) (BitVec.ofNat 64 tn) (BitVec.ofNat 64 i)
        (tl, lto.toList) (th, hto.toList) pL pH K)
      (qM lfrom hfrom tn i lto hto pL pH k) := by
  unfold qC qM rd wr
  simp only [inRangeS_ofNat tn htn, inRangeS_ofNat i hi, toNat_ofNat_small tn htn, toNat_ofNat_small i hi]
  by_cases h1 : tn < 729
  · by_cases h2 : i < 729
    · simp only [h1, h2, dif_pos, decide_true, Bool.not_true, Bool.false_eq_true, if_false, Option.bind_some]
      rw [getD_toList _ _ h1, getD_toList _ _ h1, ← Vector.toList_set, ← Vector.toList_set, sBox_eq]
      exact hK h1 _ _ _ _
    · simp [h1, h2]
      exact Rel.panic
  · simp [h1]
    exact Rel.panic


theorem ofNat_add' (a b : Nat) : BitVec.ofNat 64 a + BitVec.ofNat 64 b = BitVec.ofNat 64 (a + b) :=
  (BitVec.ofNat_add a b).symm

/-- `loopBody` as four quarters, with the four values of `t` named (tactics such as `subst` put `t - 365` into weak
head normal form, which unfolds `Nat.sub` 365 times: the subtractions stay in hypotheses, for `omega`) -/
theorem loopBody_eq' (lfrom hfrom : Plane) (i t : Nat) (bL bH : W) (lto hto : Plane) (t1 t2 t3 t4 : Nat)
    (h1 : t1 = t + 364) (h2 : t2 = t1 - 365) (h3 : t3 = t2 + 364) (h4 : t4 = t3 - 365) :
    Curl.loopBody lfrom hfrom i ⟨t, bL, bH, lto, hto⟩ =
      qM lfrom hfrom t1 (i + 0) lto hto bL bH fun lto hto aL aH =>
      if t1 < 365 then none else
      qM lfrom hfrom t2 (i + 1) lto hto aL aH fun lto hto bL bH =>
      qM lfrom hfrom t3 (i + 2) lto hto bL bH fun lto hto aL aH =>
      if t3 < 365 then none else
      qM lfrom hfrom t4 (i + 3) lto hto aL aH fun lto hto bL bH =>
      some { t := t4, bL := bL, bH := bH, lto := lto, hto := hto } := by
  rw [h4, h3, h2, h1]; rfl

theorem ofNat_sub365' (m m' : Nat) (h : 365 ≤ m) (h2 : m < 2 ^ 63) (e : m' = m - 365) :
    BitVec.ofNat 64 m - 365#64 = BitVec.ofNat 64 m' := by
  rw [e]; exact ofNat_sub365 m h h2

theorem bodyC_rel (lfrom hfrom : Plane) (fl fh tl th : Nat) (aL aH : W) (s : LoopSt) (i : Nat)
    (ht : s.t < 729) (hi : i < 2 ^ 62) :
    Rel tl th (bodyC (fl, lfrom.toList) (fh, hfrom.toList) (enc tl th aL aH s) (BitVec.ofNat 64 i))
      (Curl.loopBody lfrom hfrom i s) := by
  obtain ⟨t, bL, bH, lto, hto⟩ := s
  simp only at ht
  obtain ⟨t1, h1⟩ : ∃ t1, t1 = t + 364 := ⟨_, rfl⟩
  obtain ⟨t2, h2⟩ : ∃ t2, t2 = t1 - 365 := ⟨_, rfl⟩
  obtain ⟨t3, h3⟩ : ∃ t3, t3 = t2 + 364 := ⟨_, rfl⟩
  obtain ⟨t4, h4⟩ : ∃ t4, t4 = t3 - 365 := ⟨_, rfl⟩
  rw [loopBody_eq' lfrom hfrom i t bL bH lto hto t1 t2 t3 t4 h1 h2 h3 h4]
  unfold bodyC enc
  simp only [ofNat_add']
  rw [← h1]
  apply @qC_rel lfrom hfrom fl fh tl th _ _ (by omega) (by omega)
  intro c0 lto1 hto1 aL1 aH1
  by_cases c1 : t1 < 365
  · rw [if_pos c1, qC_panic _ _ _ _ _ _ _ _ _ (inRangeS_sub365 _ c1)]; exact Rel.panic
  rw [if_neg c1, ofNat_sub365' t1 t2 (by omega) (by omega) h2]
  apply @qC_rel lfrom hfrom fl fh tl th _ _ (by omega) (by omega)
  intro c2 lto2 hto2 bL2 bH2
  simp only [ofNat_add']
  rw [← h3]
  apply @qC_rel lfrom hfrom fl fh tl th _ _ (by omega) (by omega)
  intro c3 lto3 hto3 aL3 aH3
  by_cases c4 : t3 < 365
  · rw [if_pos c4, qC_panic _ _ _ _ _ _ _ _ _ (inRangeS_sub365 _ c4)]; exact Rel.panic
  rw [if_neg c4, ofNat_sub365' t3 t4 (by omega) (by omega) h4]
  apply @qC_rel lfrom hfrom fl fh tl th _ _ (by omega) (by omega)
  intro c5 lto4 hto4 bL4 bH4
  exact Rel.run aL3 aH3 ⟨t4, bL4, bH4, lto4, hto4⟩ c5

/-! ### the inner loop -/

/-- the `n` loop indices `i, i+4, …` -/
def idxs (n i : Nat) : List W := (List.range n).map fun m => BitVec.ofNat 64 (i + m * 4)

theorem idxs_succ (n i : Nat) : idxs (n + 1) i = BitVec.ofNat 64 i :: idxs n (i + 4) := by
  unfold idxs
  rw [List.range_succ_eq_map, List.map_cons, List.map_map]
  congr 1
  apply List.map_congr_left
  intro m _
  simp only [Function.comp, Nat.succ_eq_add_one]
  congr 1; omega

theorem forUp_idxs : Go.forUp true true 1#64 725#64 4 = idxs 182 1 :=
  Go.forUp_int true 1 725 4 (by decide) (by decide)

theorem innerLoop_succ (lfrom hfrom : Plane) (n i : Nat) (s : LoopSt) :
    Curl.innerLoop lfrom hfrom (n + 1) i s =
      (Curl.loopBody lfrom hfrom i s).bind fun s' => Curl.innerLoop lfrom hfrom n (i + 4) s' := rfl

theorem inner_rel (lfrom hfrom : Plane) (fl fh tl th : Nat) (n : Nat) :
    ∀ (i : Nat) (aL aH : W) (s : LoopSt), s.t < 729 → i + 4 * n < 2 ^ 62 →
      Rel tl th (Go.forIn (idxs n i) (enc tl th aL aH s) (bodyC (fl, lfrom.toList) (fh, hfrom.toList)))
        (Curl.innerLoop lfrom hfrom n i s) := by
  induction n with
  | zero =>
    intro i aL aH s ht _
    exact Rel.run aL aH s ht
  | succ n ih =>
    intro i aL aH s ht hi
    rw [idxs_succ, Go.forIn_cons, innerLoop_succ]
    have hb := bodyC_rel lfrom hfrom fl fh tl th aL aH s i ht (by omega)
    cases hlb : Curl.loopBody lfrom hfrom i s with
    | none =>
      rw [hlb] at hb
      rw [hb.of_none]
      exact Rel.panic
    | some s' =>
      rw [hlb] at hb
      obtain ⟨⟨aL', aH', e⟩, ht'⟩ := hb.of_some
      rw [e, Go.Flow.bind_run, Option.bind_some]
      exact ih (i + 4) aL' aH' s' ht' (by omega)

/-! ### one round -/

theorem rd0 (v : Plane) (i : Nat) (h : i < 729) : rd v i = some v[i] := by unfold rd; rw [dif_pos h]
theorem wr0 (v : Plane) (i : Nat) (x : W) (h : i < 729) : wr v i x = some (v.set i x) := by
  unfold wr; rw [dif_pos h]

theorem roundGo_eq (lto hto lfrom hfrom : Plane) :
    Curl.roundGo lto hto lfrom hfrom =
      (Curl.innerLoop lfrom hfrom 182 1
        { t := 364, bL := lfrom[364], bH := hfrom[364],
          lto := lto.set 0 (Curl.sBox lfrom[0] hfrom[0] lfrom[364] hfrom[364]).1,
          hto := hto.set 0 (Curl.sBox lfrom[0] hfrom[0] lfrom[364] hfrom[364]).2 }).bind
        fun s => some (s.lto, s.hto) := by
  unfold Curl.roundGo
  rw [rd0 lfrom 0 (by decide), rd0 hfrom 0 (by decide), rd0 lfrom 364 (by decide), rd0 hfrom 364 (by decide)]
  simp only [Option.bind_eq_bind, Option.bind_some, wr0 _ 0 _ (by decide : 0 < 729), Option.pure_def]

/-- a model outcome as a code outcome -/
def roundOut (tl th fl fh : Nat) (lfrom hfrom : Plane) : Option (Plane × Plane) → Flow Res OutSt
  | none => .panic
  | some lh => .run ((fl, lfrom.toList), (fh, hfrom.toList), (tl, lh.1.toList), (th, lh.2.toList))

theorem roundC_eq (lto hto lfrom hfrom : Plane) (tl th fl fh : Nat) (r : W) :
    roundC ((tl, lto.toList), (th, hto.toList), (fl, lfrom.toList), (fh, hfrom.toList)) r =
      roundOut tl th fl fh lfrom hfrom (Curl.roundGo lto hto lfrom hfrom) := by
  rw [roundGo_eq]
  unfold roundC
  simp only [forUp_idxs]
  have hr := inner_rel lfrom hfrom fl fh tl th 182 1 lfrom[0] hfrom[0]
    { t := 364, bL := lfrom[364], bH := hfrom[364],
      lto := lto.set 0 (Curl.sBox lfrom[0] hfrom[0] lfrom[364] hfrom[364]).1,
      hto := hto.set 0 (Curl.sBox lfrom[0] hfrom[0] lfrom[364] hfrom[364]).2 } (by decide : (364 : Nat) < 729) (by omega)
  simp only [enc, Vector.toList_set] at hr
  rw [getD_toList lfrom 0 (by decide), getD_toList hfrom 0 (by decide), getD_toList lfrom 364 (by decide),
    getD_toList hfrom 364 (by decide), sBox_eq]
  cases hin : Curl.innerLoop lfrom hfrom 182 1 _ with
  | none =>
    rw [hin] at hr
    rw [hr.of_none]
    rfl
  | some s' =>
    rw [hin] at hr
    obtain ⟨⟨aL', aH', e⟩, _⟩ := hr.of_some
    rw [e]
    rfl

/-! ### the rounds, with the pointer swap -/

/-- the four array-pointer variables `(lto, hto, lfrom, hfrom)` of the code, for the model's buffers `b` (named
after the caller's arrays): not swapped they carry the tags 0, 1, 2, 3; swapped, `lto`/`hto` point to the caller's
from-arrays (tags 2, 3) and `lfrom`/`hfrom` to the caller's to-arrays (tags 0, 1) -/
def encB (swapped : Bool) (b : Bufs) : OutSt :=
  if swapped then ((2, b.lfrom.toList), (3, b.hfrom.toList), (0, b.lto.toList), (1, b.hto.toList))
  else ((0, b.lto.toList), (1, b.hto.toList), (2, b.lfrom.toList), (3, b.hfrom.toList))

def out (b : Bufs) : Res := (b.lto.toList, b.hto.toList, b.lfrom.toList, b.hfrom.toList)

def toFlow : Option Bufs → Flow Res Res
  | none => .panic
  | some b => .done (out b)

theorem finC_encB (swapped : Bool) (b : Bufs) : finC (encB swapped b) = .done (out b) := by
  cases swapped <;> rfl

theorem roundsGo_succ_false (n : Nat) (b : Bufs) :
    Curl.roundsGo (n + 1) false b =
      (Curl.roundGo b.lto b.hto b.lfrom b.hfrom).bind fun lh =>
        Curl.roundsGo n true { b with lto := lh.1, hto := lh.2 } := by
  rw [Curl.roundsGo]
  simp only [Bool.false_eq_true, if_false, Option.bind_eq_bind]

theorem roundsGo_succ_true (n : Nat) (b : Bufs) :
    Curl.roundsGo (n + 1) true b =
      (Curl.roundGo b.lfrom b.hfrom b.lto b.hto).bind fun lh =>
        Curl.roundsGo n false { b with lfrom := lh.1, hfrom := lh.2 } := by
  rw [Curl.roundsGo]
  simp only [if_true, Option.bind_eq_bind]

/-- the loop over the rounds (the loop variable is not used by the body: only the number of rounds matters) -/
theorem rounds_eq (l : List W) : ∀ (swapped : Bool) (b : Bufs),
    (Go.forIn l (encB swapped b) roundC).bind finC = toFlow (Curl.roundsGo l.length swapped b) := by
  induction l with
  | nil =>
    intro swapped b
    rw [Go.forIn_nil, Go.Flow.bind_run, finC_encB]
    rfl
  | cons r l ih =>
    intro swapped b
    rw [Go.forIn_cons, List.length_cons]
    cases swapped with
    | false =>
      rw [roundsGo_succ_false]
      rw [show encB false b = ((0, b.lto.toList), (1, b.hto.toList), (2, b.lfrom.toList), (3, b.hfrom.toList))
        from rfl, roundC_eq]
      cases Curl.roundGo b.lto b.hto b.lfrom b.hfrom with
      | none => rfl
      | some lh => exact ih true { b with lto := lh.1, hto := lh.2 }
    | true =>
      rw [roundsGo_succ_true]
      rw [show encB true b = ((2, b.lfrom.toList), (3, b.hfrom.toList), (0, b.lto.toList), (1, b.hto.toList))
        from rfl, roundC_eq]
      cases Curl.roundGo b.lfrom b.hfrom b.lto b.hto with
      | none => rfl
      | some lh => exact ih false { b with lfrom := lh.1, hfrom := lh.2 }

theorem forDown_length : (Go.forDown true false 81#64 0#64 1).length = 81 := by decide

/-! ### the theorems -/

/-- **the translated code is the model, for all four planes**: same panic behaviour, same final contents of all
four arrays -/
theorem transformGeneric_eq (b : Curl.Bufs) :
    Gen.Curl.code.transformGeneric b.lto.toList b.hto.toList b.lfrom.toList b.hfrom.toList =
      (Curl.transformGeneric b).map
        (fun r => (r.lto.toList, r.hto.toList, r.lfrom.toList, r.hfrom.toList)) := by
  rw [code_eq]
  have h := rounds_eq (Go.forDown true false 81#64 0#64 1) false b
  rw [forDown_length] at h
  rw [show ((0, b.lto.toList), (1, b.hto.toList), (2, b.lfrom.toList), (3, b.hfrom.toList)) = encB false b
    from rfl, h]
  unfold Curl.transformGeneric Curl.numRounds
  cases Curl.roundsGo 81 false b <;> rfl

/-- the translated code never panics on arrays of length 729, and its result is the closed form of
`Proofs.Curl.transformGeneric_eq` -/
theorem transformGeneric_some (b : Curl.Bufs) :
    Gen.Curl.code.transformGeneric b.lto.toList b.hto.toList b.lfrom.toList b.hfrom.toList =
      some ((Spec.CurlW.roundsW 81 (b.lfrom, b.hfrom)).1.toList, (Spec.CurlW.roundsW 81 (b.lfrom, b.hfrom)).2.toList,
        (Spec.CurlW.roundsW 80 (b.lfrom, b.hfrom)).1.toList, (Spec.CurlW.roundsW 80 (b.lfrom, b.hfrom)).2.toList) := by
  rw [transformGeneric_eq, Proofs.Curl.transformGeneric_eq]
  rfl

/-- … for any four lists of length 729 -/
theorem transformGeneric_ne_none (lto hto lfrom hfrom : List (BitVec 64))
    (h1 : lto.length = 729) (h2 : hto.length = 729) (h3 : lfrom.length = 729) (h4 : hfrom.length = 729) :
    Gen.Curl.code.transformGeneric lto hto lfrom hfrom ≠ none := by
  have h := transformGeneric_some
    { lto := ⟨lto.toArray, by simpa using h1⟩, hto := ⟨hto.toArray, by simpa using h2⟩,
      lfrom := ⟨lfrom.toArray, by simpa using h3⟩, hfrom := ⟨hfrom.toArray, by simpa using h4⟩ }
  simp only [Vector.toList_mk] at h
  rw [h]
  exact Option.some_ne_none _


end Iota.Tie.CurlCodePerm
