/-
Code tie for pkg/migration (`Encode`, `Decode`) and the two iota.go packages it calls — `guards.IsTrytesOfExactLength` and
iota.go's copy of `encoding/b1t6` —, translated AS CODE by cmd/extract into `Iota/Gen/Migration.lean`
(`Gen.Migration.{guards, iotago_b1t6, migration}.*`; a string / `[]byte` / `[32]byte` is `List (BitVec 8)`, `error` is
`Option String`, `none` as a result = run-time panic), against the model of `Iota/Model/Address.lean` (`Iota.Migration`).

`blake2b.Sum256` is a PARAMETER `sum : List (BitVec 8) → List (BitVec 8)` of the generated `Encode` / `Decode`.  The model
has the hash as a parameter `H : List UInt8 → List UInt8` too; the two are related by `hH : ∀ x, sum (bv x) = bv (H x)`
(for a given `sum` such an `H` always exists: `Hof sum`, `Hof_spec`).

* `copy_*`: the six functions of iota.go's `encoding/b1t6` are the SAME Lean terms as the translations of
  pkg/encoding/b1t6 in `Iota/Gen/B1T6.lean` (`rfl`), so the theorems of `Iota/Tie/B1T6Code.lean` apply to them
  (`EncodeToTrytes_eq`, `DecodeTrytes_eq`).
* `IsTrytesOfExactLength_eq`: the guard — a loop over the RUNES of the string — is the model's test on the BYTES, for every
  byte string (a byte ≥ 0x80 starts a rune ≥ 128 or yields U+FFFD; neither is in `A..Z`, `9`), and never panics.
* `Decode_eq`: for EVERY byte string `t` (of a length a Go string can have, `< 2^63`) the generated `Decode` returns what the
  model's `decode` returns: the address and a nil error, or the zero address and the error (`errName`).
  NO hypothesis about the length of `sum`'s results is needed: the translation checks the bounds of
  `hash[:len(checksumBytes)]` against the length 32 of the array TYPE (and `len(checksumBytes)` is 4 here); the VALUE is
  `List.take`, which is total.  (That `sum` returns 32 bytes is the ASSUMPTION under which the translation of a `[32]byte`
  as a list is faithful to Go; the equation itself holds for every `sum`.)
* `Decode_never_panics` / `Decode_never_panics_any`: the generated `Decode` does not panic, for ANY function passed as
  `sum`: `IsTrytesOfExactLength` guarantees 81 characters of the tryte alphabet, so the table lookup in
  `trinary.MustTryteToTryteValue` (which panics on lower-case input: `B1T6Code.decodeTrytes_lowercase_panics`) is in range
  and all slice bounds are valid.
* `Encode_eq`: for every 32-byte address the generated `Encode` is the model's `encode`; it never panics.
-/
import Iota.Gen.Migration
import Iota.Model.Address
import Iota.Proofs.Address
import Iota.Tie.B1T6Code
import Iota.Tie.Bech32ApiCode

namespace Iota.Tie.MigrationCode
open Iota Iota.Go
open Iota.Tie.Bech32Code (bv bv_append bv_ofBitVec ofBitVec_bv)
open Iota.Tie.Bech32CharsCode (bv_cons bv_nil bv_length runeWidth_ascii)
open Iota.Tie.Bech32ApiCode (runeValue_ascii runeValue_high bv_take bv_drop bv_inj)
open Iota.Tie.Base32Code (toNat_ofNat_lt beq_ofNat)
open Iota.Gen.Migration
open Iota.Migration (Bytes pfx sfx)

/-! ### iota.go's copy of b1t6 is the code of pkg/encoding/b1t6 -/

theorem copy_EncodedLen : iotago_b1t6.EncodedLen = Gen.B1T6.b1t6.EncodedLen := rfl
theorem copy_DecodedLen : iotago_b1t6.DecodedLen = Gen.B1T6.b1t6.DecodedLen := rfl
theorem copy_encodeGroup : iotago_b1t6.encodeGroup = Gen.B1T6.b1t6.encodeGroup := rfl
theorem copy_decodeGroup : iotago_b1t6.decodeGroup = Gen.B1T6.b1t6.decodeGroup := rfl
theorem copy_EncodeToTrytes : iotago_b1t6.EncodeToTrytes = Gen.B1T6.b1t6.EncodeToTrytes := rfl
theorem copy_DecodeTrytes : iotago_b1t6.DecodeTrytes = Gen.B1T6.b1t6.DecodeTrytes := rfl

/-- **iota.go's `b1t6.EncodeToTrytes`** (`len(src) < 2^60`): never panics; the model's `encodeToTrytes` -/
theorem EncodeToTrytes_eq (src : List UInt8) (hlen : src.length < 2 ^ 60) :
    iotago_b1t6.EncodeToTrytes (bv src) = some (bv (B1T6.encodeToTrytes src)) := by
  rw [copy_EncodeToTrytes]; exact B1T6Code.encodeToTrytes_eq src hlen

/-- **iota.go's `b1t6.DecodeTrytes`, all characters within `'9'` … `'Z'`**: never panics; the model's `decodeTrytes` -/
theorem DecodeTrytes_eq (src : List UInt8) (hn : 3 * src.length < 2 ^ 63)
    (hc : ∀ c ∈ src, 57 ≤ c.toNat ∧ c.toNat ≤ 90) :
    iotago_b1t6.DecodeTrytes (bv src) =
      match B1T6.decodeTrytes src with
      | .ok bs => some (bv bs, none)
      | .error e => some ([], B1T6Code.errOf (some e)) := by
  rw [copy_DecodeTrytes]; exact B1T6Code.decodeTrytes_eq src hn hc

/-- … and it panics on lower-case input, e.g. on `"aa"` -/
theorem DecodeTrytes_lowercase_panics : iotago_b1t6.DecodeTrytes [97#8, 97#8] = none := by
  rw [copy_DecodeTrytes]; exact B1T6Code.decodeTrytes_lowercase_panics

/-! ### `guards.IsTrytesOfExactLength`: a loop over runes = the model's test on bytes -/

/-- the test of the loop body on a rune (an `int32`): `(r < 'A' || r > 'Z') && r != '9'` -/
def badRune (r : BitVec 32) : Bool := ((BitVec.slt r 65#32) || (BitVec.slt 90#32 r)) && (r != 57#32)

theorem badRune_small (r : BitVec 32) (h : r.toNat < 2 ^ 31) :
    badRune r = !(decide (r.toNat = 57) || (decide (65 ≤ r.toNat) && decide (r.toNat ≤ 90))) := by
  have h57 : (r != 57#32) = !decide (r.toNat = 57) := by
    by_cases e : r = 57#32
    · subst e; rfl
    · have : r.toNat ≠ 57 := fun h' => e (BitVec.eq_of_toNat_eq h')
      simp [e, this]
  unfold badRune
  rw [h57, BitVec.slt, BitVec.slt, BitVec.toInt_eq_toNat_of_lt (by omega)]
  have e65 : (65#32 : BitVec 32).toInt = 65 := by decide
  have e90 : (90#32 : BitVec 32).toInt = 90 := by decide
  rw [e65, e90]
  by_cases a : r.toNat = 57
  · simp [a]
  · by_cases b : 65 ≤ r.toNat <;> by_cases c : r.toNat ≤ 90 <;> simp [a, b, c] <;> omega

theorem isTryteChar_nat (c : UInt8) :
    B1T6.isTryteChar c = (decide (c.toNat = 57) || (decide (65 ≤ c.toNat) && decide (c.toNat ≤ 90))) := by
  unfold B1T6.isTryteChar
  congr 1
  by_cases e : c = 57
  · subst e; rfl
  · have : c.toNat ≠ 57 := fun h' => e (UInt8.toNat_inj.mp h')
    simp [e, this]

theorem isTryteChar_range {c : UInt8} (h : B1T6.isTryteChar c = true) : 57 ≤ c.toNat ∧ c.toNat ≤ 90 := by
  rw [isTryteChar_nat] at h
  simp only [Bool.or_eq_true, Bool.and_eq_true, decide_eq_true_eq] at h
  omega

/-- the rune at the start of `c :: rest` fails the test of the loop exactly when the byte `c` is not a tryte character: a
byte `≥ 0x80` starts a rune `≥ 128` or yields U+FFFD -/
theorem badRune_rune (c : UInt8) (rest : List (BitVec 8)) :
    badRune (runeValue (c.toBitVec :: rest)) = !B1T6.isTryteChar c := by
  have hlt := c.toNat_lt
  by_cases hc : c.toNat < 128
  · rw [runeValue_ascii _ _ (by rwa [UInt8.toNat_toBitVec]), UInt8.toNat_toBitVec,
      badRune_small _ (by rw [BitVec.toNat_ofNat]; omega), BitVec.toNat_ofNat, Nat.mod_eq_of_lt (by omega),
      isTryteChar_nat]
  · have hv := runeValue_high c.toBitVec rest (by rw [UInt8.toNat_toBitVec]; omega)
    rw [badRune_small _ (by omega), isTryteChar_nat]
    have h1 : ¬ ((runeValue (c.toBitVec :: rest)).toNat ≤ 90) := by omega
    have h2 : ¬ ((runeValue (c.toBitVec :: rest)).toNat = 57) := by omega
    have h3 : ¬ (c.toNat ≤ 90) := by omega
    have h4 : ¬ (c.toNat = 57) := by omega
    simp [h1, h2, h3, h4]

/-- **`for _, r := range trytes { if (r < 'A' || r > 'Z') && r != '9' { return false } }`**: the loop over the runes returns
`false` exactly when some BYTE is not a tryte character -/
theorem guard_loop (body : Unit → BitVec 64 × BitVec 32 → Flow Bool Unit)
    (hbody : ∀ rk, body () rk = if badRune rk.2 then .done false else .run ()) :
    ∀ (p : List UInt8) (fuel off : Nat), p.length ≤ fuel →
      forIn (runesFrom fuel off (bv p)) () body =
        if p.all B1T6.isTryteChar then .run () else .done false := by
  intro p
  induction p with
  | nil => intro fuel off _; cases fuel <;> rfl
  | cons c cs ih =>
    intro fuel off hf
    obtain ⟨fuel, rfl⟩ : ∃ f, fuel = f + 1 := ⟨fuel - 1, by simp at hf; omega⟩
    rw [bv_cons]
    rw [show runesFrom (fuel + 1) off (c.toBitVec :: bv cs) =
      (BitVec.ofNat 64 off, runeValue (c.toBitVec :: bv cs)) ::
        runesFrom fuel (off + runeWidth (c.toBitVec :: bv cs)) ((c.toBitVec :: bv cs).drop (runeWidth (c.toBitVec :: bv cs)))
      from rfl, forIn_cons, hbody, badRune_rune, List.all_cons]
    cases hv : B1T6.isTryteChar c
    · simp
    · have hw := runeWidth_ascii c.toBitVec (bv cs) (by rw [UInt8.toNat_toBitVec]; have := isTryteChar_range hv; omega)
      simp only [Bool.not_true, Bool.false_eq_true, if_false, Flow.bind_run, hw, List.drop_succ_cons, List.drop_zero,
        Bool.true_and]
      exact ih fuel (off + 1) (by simpa using hf)

/-- **`guards.IsTrytesOfExactLength`** for every byte string (of a length a Go string can have) and every length `n`: it never
panics and is the model's `isTrytesOfExactLength`: exactly `n` bytes, not empty, every byte in `A..Z` or `9` -/
theorem IsTrytesOfExactLength_eq (t : List UInt8) (n : Nat) (ht : t.length < 2 ^ 63) (hn : n < 2 ^ 63) :
    guards.IsTrytesOfExactLength (bv t) (BitVec.ofNat 64 n) = some (Migration.isTrytesOfExactLength t n) := by
  unfold guards.IsTrytesOfExactLength Migration.isTrytesOfExactLength
  rw [bv_length, bne, beq_ofNat _ _ (by omega) (by omega), beq_ofNat t.length 0 (by omega) (by decide)]
  by_cases h1 : t.length = n
  · subst h1
    by_cases h2 : t.length = 0
    · simp [h2]
    · have hloop := guard_loop (fun (_ : Unit) (rk_1 : BitVec 64 × BitVec 32) =>
        let runeVal : BitVec 32 := rk_1.2
        if (((BitVec.slt runeVal 65#32) || (BitVec.slt 90#32 runeVal)) && (runeVal != 57#32)) then
          (Flow.done false : Flow Bool Unit)
        else Flow.run ()) (fun _ => rfl) t (bv t).length 0 (by rw [bv_length]; exact Nat.le_refl _)
      simp only [h2, decide_true, decide_false, Bool.not_true, Bool.or_false, Bool.false_eq_true, if_false]
      unfold runes
      rw [hloop]
      cases t.all B1T6.isTryteChar <;> simp [h2]
  · simp [h1]

/-! ### lists of bytes: `bv` and the string functions -/

theorem toBitVec_beq (a b : UInt8) : (a.toBitVec == b.toBitVec) = (a == b) := by
  by_cases h : a = b
  · subst h; simp
  · have : a.toBitVec ≠ b.toBitVec := fun h' => h (UInt8.toBitVec_inj.mp h')
    rw [beq_eq_false_iff_ne.mpr this, beq_eq_false_iff_ne.mpr h]

theorem isPrefixOf_bv (p t : List UInt8) : (bv p).isPrefixOf (bv t) = p.isPrefixOf t := by
  induction p generalizing t with
  | nil => simp [bv]
  | cons a p ih =>
    cases t with
    | nil => simp [bv]
    | cons b t =>
      rw [bv_cons, bv_cons, List.isPrefixOf_cons_cons, List.isPrefixOf_cons_cons, toBitVec_beq, ih]

theorem bv_reverse (l : List UInt8) : (bv l).reverse = bv l.reverse := by simp [bv]

theorem isSuffixOf_bv (p t : List UInt8) : (bv p).isSuffixOf (bv t) = p.isSuffixOf t := by
  unfold List.isSuffixOf
  rw [bv_reverse, bv_reverse, isPrefixOf_bv]

theorem isPrefixOf_take (p t : List UInt8) : p.isPrefixOf t = decide (t.take p.length = p) := by
  rw [Bool.eq_iff_iff, List.isPrefixOf_iff_prefix, List.prefix_iff_eq_take, decide_eq_true_eq]
  exact eq_comm

theorem isSuffixOf_drop (p t : List UInt8) : p.isSuffixOf t = decide (t.drop (t.length - p.length) = p) := by
  rw [Bool.eq_iff_iff, List.isSuffixOf_iff_suffix, List.suffix_iff_eq_drop, decide_eq_true_eq]
  exact eq_comm

theorem bv_beq (a b : List UInt8) : (bv a == bv b) = decide (a = b) := by
  by_cases h : a = b
  · subst h; simp
  · have : bv a ≠ bv b := fun h' => h (bv_inj h')
    simp [h, this]

/-! ### the model's b1t6 decoder on a string of even length -/

open Iota.Proofs.B1T6 (decodeTrytesAux_nil decodeTrytesAux_cons2) in
theorem aux_even : ∀ (n : Nat) (cs : List UInt8), cs.length ≤ n → cs.length % 2 = 0 →
    (B1T6.decodeTrytesAux cs).2 ≠ some .invalidLength
  | _, [], _, _ => by rw [decodeTrytesAux_nil]; simp
  | _, [_], _, h => by simp at h
  | 0, _ :: _ :: _, hn, _ => by simp at hn
  | n + 1, c1 :: c2 :: rest, hn, h => by
    rw [decodeTrytesAux_cons2]
    split
    · simp
    · exact aux_even n rest (by simp at hn; omega) (by simp at h; omega)

/-- on a string of even length the only error is `invalidTrits` (`ErrInvalidTrits`) -/
theorem decodeTrytes_error_even (cs : List UInt8) (h : cs.length % 2 = 0) (e : B1T6.Err)
    (he : B1T6.decodeTrytes cs = .error e) : e = .invalidTrits := by
  have := aux_even cs.length cs (Nat.le_refl _) h
  unfold B1T6.decodeTrytes at he
  split at he
  · cases he
  · rename_i e' hx
    rw [hx] at this
    cases he
    cases e
    · rfl
    · exact absurd rfl this

open Iota.Proofs.B1T6 (decodeTrytes_ok_iff) in
theorem decodeTrytes_ok_length (cs bs : List UInt8) (hv : ∀ c ∈ cs, B1T6.isTryteChar c = true)
    (h : B1T6.decodeTrytes cs = .ok bs) : cs.length = 2 * bs.length := by
  rw [(decodeTrytes_ok_iff cs hv bs).mp h, Proofs.Migration.encodeToTrytes_length]

/-! ### `Decode` -/

/-- the names the generated code gives to the errors of `Decode` (`errors.Is`; the message texts are not modelled).
`fmt.Errorf` without `%w` is an opaque name made from its format; the two `%w` errors both wrap `b1t6.ErrInvalidTrits` (for a
string of 64 resp. 8 characters `b1t6.ErrInvalidLength` cannot occur), so the generated code does not tell them apart. -/
def errName : Migration.Err → String
  | .invalidLength => "consts.ErrInvalidTrytesLength"
  | .noPrefix => "fmt.Errorf(\"expected prefix '%s'\")"
  | .noSuffix => "fmt.Errorf(\"expected suffix '%s'\")"
  | .addrEncoding => "b1t6.ErrInvalidTrits"
  | .checksumEncoding => "b1t6.ErrInvalidTrits"
  | .invalidChecksum => "consts.ErrInvalidChecksum"

abbrev DRes := List (BitVec 8) × Option String

/-- a result of the model's `decode` as the generated code returns it: the address and nil, or the zero address (the
named result `addr` is never assigned before an error return) and the error -/
def encDec : Except Migration.Err Bytes → DRes
  | .ok a => (bv a, none)
  | .error e => (List.replicate 32 0#8, some (errName e))

/-- `Decode` after the prefix and the suffix have been removed -/
def cTail (blake2b_Sum256 : List (BitVec 8) → List (BitVec 8)) (trytes : List (BitVec 8)) : Flow DRes DRes :=
  let addr : List (BitVec 8) := (List.replicate 32 0#8)
  let addrTrytesLen : BitVec 64 := (BitVec.sdiv (iotago_b1t6.EncodedLen 32#64) 3#64)
  if !(Go.sliceOK 0#64 addrTrytesLen trytes.length) then Go.Flow.panic else
  Go.Flow.bind (Go.call (iotago_b1t6.DecodeTrytes (trytes.take addrTrytesLen.toNat))) (fun (st_2 : List (BitVec 8) × Option String) =>
  let addrBytes : List (BitVec 8) := st_2.1
  let err : Option String := (Go.errQual "b1t6" st_2.2)
  if (err).isSome then
    Go.Flow.done (addr, (Go.errWrap err))
  else
  if !(Go.sliceFromS addrTrytesLen trytes.length) then Go.Flow.panic else
  Go.Flow.bind (Go.call (iotago_b1t6.DecodeTrytes (trytes.drop addrTrytesLen.toNat))) (fun (st_3 : List (BitVec 8) × Option String) =>
  let checksumBytes : List (BitVec 8) := st_3.1
  let err : Option String := (Go.errQual "b1t6" st_3.2)
  if (err).isSome then
    Go.Flow.done (addr, (Go.errWrap err))
  else
  let hash : List (BitVec 8) := (blake2b_Sum256 addrBytes)
  if !(Go.sliceOK 0#64 (BitVec.ofNat 64 checksumBytes.length) 32) then Go.Flow.panic else
  if (!(Go.bytesEqual checksumBytes (hash.take (BitVec.ofNat 64 checksumBytes.length).toNat))) then
    Go.Flow.done (addr, (some "consts.ErrInvalidChecksum"))
  else
  let addr : List (BitVec 8) := (Go.copy addr addrBytes)
  Go.Flow.done (addr, (none : Option String))))

theorem Decode_unfold (sum : List (BitVec 8) → List (BitVec 8)) (trytes : List (BitVec 8)) :
    migration.Decode sum trytes = Flow.result (
      Flow.bind (Go.call (guards.IsTrytesOfExactLength trytes 81#64)) (fun (st_1 : Bool) =>
      if (!st_1) then Flow.done (List.replicate 32 0#8, some "consts.ErrInvalidTrytesLength")
      else if (!(Go.hasPrefix trytes (bv pfx))) then
        Flow.done (List.replicate 32 0#8, some "fmt.Errorf(\"expected prefix '%s'\")")
      else if (!(Go.hasSuffix (Go.trimPrefix trytes (bv pfx)) (bv sfx))) then
        Flow.done (List.replicate 32 0#8, some "fmt.Errorf(\"expected suffix '%s'\")")
      else cTail sum (Go.trimSuffix (Go.trimPrefix trytes (bv pfx)) (bv sfx)))) := rfl

/-- the model's `decode` after the prefix and the suffix have been removed -/
def mTail (H : Bytes → Bytes) (t2 : Bytes) : Except Migration.Err Bytes :=
  match B1T6.decodeTrytes (t2.take 64) with
  | .error _ => .error .addrEncoding
  | .ok addrBytes =>
    match B1T6.decodeTrytes (t2.drop 64) with
    | .error _ => .error .checksumEncoding
    | .ok checksumBytes =>
      if checksumBytes ≠ (H addrBytes).take checksumBytes.length then .error .invalidChecksum
      else .ok addrBytes

theorem decode_stages (H : Bytes → Bytes) (t : Bytes) : Migration.decode H t =
    if !Migration.isTrytesOfExactLength t 81 then .error .invalidLength
    else if t.take 8 ≠ pfx then .error .noPrefix
    else if (t.drop 8).drop ((t.drop 8).length - 1) ≠ sfx then .error .noSuffix
    else mTail H ((t.drop 8).take ((t.drop 8).length - 1)) := rfl

theorem addrTrytesLen_eq : BitVec.sdiv (iotago_b1t6.EncodedLen 32#64) 3#64 = 64#64 := by decide

/-- **the tail of `Decode`** on 72 tryte characters: two `DecodeTrytes` calls within their domain, all slice bounds valid -/
theorem cTail_eq (sum : List (BitVec 8) → List (BitVec 8)) (H : Bytes → Bytes) (hH : ∀ x, sum (bv x) = bv (H x))
    (t2 : Bytes) (hl : t2.length = 72) (hc : ∀ c ∈ t2, B1T6.isTryteChar c = true) :
    cTail sum (bv t2) = .done (encDec (mTail H t2)) := by
  have hl1 : (t2.take 64).length = 64 := by rw [List.length_take, hl]; rfl
  have hl2 : (t2.drop 64).length = 8 := by rw [List.length_drop, hl]
  have hc1 : ∀ c ∈ t2.take 64, B1T6.isTryteChar c = true := fun c h => hc c (List.mem_of_mem_take h)
  have hc2 : ∀ c ∈ t2.drop 64, B1T6.isTryteChar c = true := fun c h => hc c (List.mem_of_mem_drop h)
  have d1 := DecodeTrytes_eq (t2.take 64) (by rw [hl1]; decide) (fun c h => isTryteChar_range (hc1 c h))
  have d2 := DecodeTrytes_eq (t2.drop 64) (by rw [hl2]; decide) (fun c h => isTryteChar_range (hc2 c h))
  unfold cTail mTail
  simp only [addrTrytesLen_eq, bv_length, hl]
  rw [show Go.sliceOK 0#64 64#64 72 = true by decide, show Go.sliceFromS 64#64 72 = true by decide,
    show (64#64 : BitVec 64).toNat = 64 by decide, bv_take, bv_drop, d1, d2]
  simp only [Bool.not_true, Bool.false_eq_true, if_false]
  cases h1 : B1T6.decodeTrytes (t2.take 64) with
  | error e =>
    have := decodeTrytes_error_even _ (by rw [hl1]) e h1
    subst this
    rfl
  | ok ab =>
    have la : ab.length = 32 := by have := decodeTrytes_ok_length _ _ hc1 h1; omega
    simp only [Go.call, Flow.bind_run, Go.errQual, Option.map_none, Option.isSome_none, Bool.false_eq_true, if_false]
    cases h2 : B1T6.decodeTrytes (t2.drop 64) with
    | error e =>
      have := decodeTrytes_error_even _ (by rw [hl2]) e h2
      subst this
      rfl
    | ok cb =>
      have lc : cb.length = 4 := by have := decodeTrytes_ok_length _ _ hc2 h2; omega
      simp only [Flow.bind_run, Option.map_none, Option.isSome_none, Bool.false_eq_true, if_false, bv_length, lc]
      rw [show Go.sliceOK 0#64 (BitVec.ofNat 64 4) 32 = true by decide,
        show (BitVec.ofNat 64 4).toNat = 4 by decide, hH, bv_take, Go.bytesEqual, bv_beq]
      simp only [Bool.not_true, Bool.false_eq_true, if_false]
      have hcopy : Go.copy (List.replicate 32 0#8) (bv ab) = bv ab := by
        unfold Go.copy
        rw [List.length_replicate, List.take_of_length_le (by rw [bv_length, la]; exact Nat.le_refl _),
          List.drop_of_length_le (by rw [List.length_replicate, bv_length, la]; exact Nat.le_refl _), List.append_nil]
      by_cases hk : cb = (H ab).take 4
      · rw [decide_eq_true hk, if_neg (show ¬ (!true) = true by decide), hcopy, if_neg (show ¬ (cb ≠ (H ab).take 4) from fun h => h hk)]; rfl
      · rw [decide_eq_false hk, if_pos (show (!false) = true from rfl), if_pos (show cb ≠ (H ab).take 4 from hk)]; rfl

/-- the generated `Decode` is the model's `decode`, as `encDec` renders its result -/
theorem Decode_enc (sum : List (BitVec 8) → List (BitVec 8)) (H : Bytes → Bytes) (hH : ∀ x, sum (bv x) = bv (H x))
    (t : List UInt8) (ht : t.length < 2 ^ 63) :
    migration.Decode sum (bv t) = some (encDec (Migration.decode H t)) := by
  rw [Decode_unfold, IsTrytesOfExactLength_eq t 81 ht (by decide), decode_stages]
  simp only [Go.call, Flow.bind_run]
  cases hg : Migration.isTrytesOfExactLength t 81 with
  | false => rfl
  | true =>
    have hg' := hg
    unfold Migration.isTrytesOfExactLength at hg'
    simp only [Bool.and_eq_true, beq_iff_eq, List.all_eq_true] at hg'
    obtain ⟨⟨hlen, _⟩, hch⟩ := hg'
    simp only [Bool.not_true, Bool.false_eq_true, if_false]
    rw [Go.hasPrefix, isPrefixOf_bv, isPrefixOf_take, show pfx.length = 8 from rfl]
    by_cases hp : t.take 8 = pfx
    · have hpre : (bv pfx).isPrefixOf (bv t) = true := by
        rw [isPrefixOf_bv, isPrefixOf_take, show pfx.length = 8 from rfl, decide_eq_true hp]
      have htp : Go.trimPrefix (bv t) (bv pfx) = bv (t.drop 8) := by
        unfold Go.trimPrefix
        rw [hpre, if_pos rfl, bv_length, bv_drop]; rfl
      have hl1 : (t.drop 8).length = 73 := by rw [List.length_drop, hlen]
      rw [decide_eq_true hp, if_neg (show ¬ (!true) = true by decide), if_neg (show ¬ (t.take 8 ≠ pfx) from fun h => h hp), htp, Go.hasSuffix, isSuffixOf_bv,
        isSuffixOf_drop, show sfx.length = 1 from rfl, hl1]
      by_cases hs : (t.drop 8).drop (73 - 1) = sfx
      · have hsuf : (bv sfx).isSuffixOf (bv (t.drop 8)) = true := by
          rw [isSuffixOf_bv, isSuffixOf_drop, show sfx.length = 1 from rfl, hl1, decide_eq_true hs]
        have hts : Go.trimSuffix (bv (t.drop 8)) (bv sfx) = bv ((t.drop 8).take (73 - 1)) := by
          unfold Go.trimSuffix
          rw [hsuf, if_pos rfl, bv_length, bv_length, hl1, bv_take]; rfl
        rw [decide_eq_true hs, if_neg (show ¬ (!true) = true by decide), if_neg (show ¬ ((t.drop 8).drop (73 - 1) ≠ sfx) from fun h => h hs), hts,
          cTail_eq sum H hH _ (by rw [List.length_take, hl1]; rfl)
            (fun c h => hch c (List.mem_of_mem_drop (List.mem_of_mem_take h)))]
        rfl
      · rw [decide_eq_false hs, if_pos (show (!false) = true from rfl), if_pos (show (t.drop 8).drop (73 - 1) ≠ sfx from hs)]; rfl
    · rw [decide_eq_false hp, if_pos (show (!false) = true from rfl), if_pos (show t.take 8 ≠ pfx from hp)]; rfl

/-- **MAIN: `migration.Decode` for EVERY byte string** (of a length a Go string can have): the generated code — guard over the
runes, prefix / suffix tests, two calls of iota.go's `b1t6.DecodeTrytes`, `blake2b.Sum256` as the parameter `sum`, the
checksum comparison, `copy` into the result array — never panics and returns what the model's `decode` returns: the 32-byte
address and a nil error, or the zero address and the error.  The only hypothesis about `sum` is that `H` describes it. -/
theorem Decode_eq (sum : List (BitVec 8) → List (BitVec 8)) (H : Bytes → Bytes) (hH : ∀ x, sum (bv x) = bv (H x))
    (t : List UInt8) (ht : t.length < 2 ^ 63) :
    migration.Decode sum (bv t) = some (match Migration.decode H t with
      | .ok a => (bv a, none)
      | .error e => (List.replicate 32 0#8, some (errName e))) := by
  rw [Decode_enc sum H hH t ht]
  cases Migration.decode H t <;> rfl

/-- the model hash that describes a given `sum` -/
def Hof (sum : List (BitVec 8) → List (BitVec 8)) : Bytes → Bytes := fun x => (sum (bv x)).map UInt8.ofBitVec

theorem Hof_spec (sum : List (BitVec 8) → List (BitVec 8)) (x : Bytes) : sum (bv x) = bv (Hof sum x) :=
  (bv_ofBitVec _).symm

theorem Hof_length (sum : List (BitVec 8) → List (BitVec 8)) (x : Bytes) : (Hof sum x).length = (sum (bv x)).length := by
  simp [Hof]

/-- **`Decode` never panics**, whatever function is passed for `blake2b.Sum256` and whatever bytes the string consists of
(lower case, non-ASCII, any length below 2^63) -/
theorem Decode_never_panics_any (sum : List (BitVec 8) → List (BitVec 8)) (s : List (BitVec 8)) (hs : s.length < 2 ^ 63) :
    migration.Decode sum s ≠ none := by
  have h := Decode_enc sum (Hof sum) (Hof_spec sum) (s.map UInt8.ofBitVec) (by simpa using hs)
  rw [bv_ofBitVec] at h
  rw [h]; exact Option.some_ne_none _

theorem Decode_never_panics (sum : List (BitVec 8) → List (BitVec 8)) (t : List UInt8) (ht : t.length < 2 ^ 63) :
    migration.Decode sum (bv t) ≠ none :=
  Decode_never_panics_any sum (bv t) (by rwa [bv_length])

/-! ### `Encode` -/

/-- **`migration.Encode` for every 32-byte address**: never panics; the model's `encode` (prefix, the b1t6 trytes of the
address followed by the first four bytes of its hash, suffix).  Nothing is assumed about the length of `sum`'s results. -/
theorem Encode_eq (sum : List (BitVec 8) → List (BitVec 8)) (H : Bytes → Bytes) (hH : ∀ x, sum (bv x) = bv (H x))
    (a : List UInt8) (ha : a.length = 32) :
    migration.Encode sum (bv a) = some (bv (Migration.encode H a)) := by
  unfold migration.Encode Migration.encode
  simp only [show Go.sliceOK 0#64 4#64 32 = true by decide, hH, bv_take, ← bv_append]
  rw [EncodeToTrytes_eq _ (by
      rw [List.length_append, ha, List.length_take]
      have : min Migration.checksumSize (H a).length ≤ 4 := Nat.min_le_left _ _
      omega)]
  simp only [Bool.not_true, Bool.false_eq_true, if_false, Go.call, Flow.bind_run, Flow.result_done, bv_append]
  rfl

theorem Encode_never_panics (sum : List (BitVec 8) → List (BitVec 8)) (a : List (BitVec 8)) (ha : a.length = 32) :
    migration.Encode sum a ≠ none := by
  have h := Encode_eq sum (Hof sum) (Hof_spec sum) (a.map UInt8.ofBitVec) (by simpa using ha)
  rw [bv_ofBitVec] at h
  rw [h]; exact Option.some_ne_none _

/-! ### examples (kernel evaluation of the generated code with a toy hash in the place of `blake2b.Sum256`) -/

/-- a toy "hash" with 32-byte results: byte `i` is `i` plus the sum of the input bytes -/
def toySum (x : List (BitVec 8)) : List (BitVec 8) := (List.range 32).map (fun i => x.foldl (· + ·) (BitVec.ofNat 8 i))

/-- the address `200, 209, 218, …` (`200 + 9·i mod 256`) -/
def exAddr : List (BitVec 8) :=
[200#8, 209#8, 218#8, 227#8, 236#8, 245#8, 254#8, 7#8, 16#8, 25#8, 34#8, 43#8, 52#8, 61#8, 70#8, 79#8, 88#8, 97#8,
   106#8, 115#8, 124#8, 133#8, 142#8, 151#8, 160#8, 169#8, 178#8, 187#8, 196#8, 205#8, 214#8, 223#8]

/-- `"TRANSFERYYGYPZYZGZP9Y9G9PAYAGAPBYBGBPCYCGCPDYDGDPELVUWCWLWUXCXLXUYCYLYUZDDEDFDGD9"` -/
def exTrytes : List (BitVec 8) :=
[84#8, 82#8, 65#8, 78#8, 83#8, 70#8, 69#8, 82#8, 89#8, 89#8, 71#8, 89#8, 80#8, 90#8, 89#8, 90#8, 71#8, 90#8, 80#8, 57#8,
   89#8, 57#8, 71#8, 57#8, 80#8, 65#8, 89#8, 65#8, 71#8, 65#8, 80#8, 66#8, 89#8, 66#8, 71#8, 66#8, 80#8, 67#8, 89#8,
   67#8, 71#8, 67#8, 80#8, 68#8, 89#8, 68#8, 71#8, 68#8, 80#8, 69#8, 76#8, 86#8, 85#8, 87#8, 67#8, 87#8, 76#8, 87#8,
   85#8, 88#8, 67#8, 88#8, 76#8, 88#8, 85#8, 89#8, 67#8, 89#8, 76#8, 89#8, 85#8, 90#8, 68#8, 68#8, 69#8, 68#8, 70#8,
   68#8, 71#8, 68#8, 57#8]

/-- `Encode` of the address … -/
example : migration.Encode toySum exAddr = some exTrytes := by decide +kernel
/-- … and `Decode` of the result -/
example : migration.Decode toySum exTrytes = some (exAddr, none) := by decide +kernel
/-- one tryte of the address part changed (`G` → `H`): the checksum does not match -/
example : migration.Decode toySum (exTrytes.set 10 72#8) = some (List.replicate 32 0#8, some "consts.ErrInvalidChecksum") := by
  decide +kernel
/-- a group of two trytes that is no byte (`MM` = 13 + 27·13), in the address part and in the checksum part -/
example : migration.Decode toySum ((exTrytes.set 8 77#8).set 9 77#8) = some (List.replicate 32 0#8, some "b1t6.ErrInvalidTrits") := by
  decide +kernel
example : migration.Decode toySum ((exTrytes.set 78 77#8).set 79 77#8) = some (List.replicate 32 0#8, some "b1t6.ErrInvalidTrits") := by
  decide +kernel
/-- wrong prefix (`URANSFER…`), wrong suffix (`…A`) -/
example : migration.Decode toySum (exTrytes.set 0 85#8) =
    some (List.replicate 32 0#8, some "fmt.Errorf(\"expected prefix '%s'\")") := by decide +kernel
example : migration.Decode toySum (exTrytes.set 80 65#8) =
    some (List.replicate 32 0#8, some "fmt.Errorf(\"expected suffix '%s'\")") := by decide +kernel
/-- a lower-case character (`g`), on which `b1t6.DecodeTrytes` alone would panic, is rejected by the guard; so are a two-byte
UTF-8 sequence (`é`), 80 characters and the empty string -/
example : migration.Decode toySum (exTrytes.set 10 103#8) = some (List.replicate 32 0#8, some "consts.ErrInvalidTrytesLength") := by
  decide +kernel
example : migration.Decode toySum ((exTrytes.set 10 0xC3#8).set 11 0xA9#8) =
    some (List.replicate 32 0#8, some "consts.ErrInvalidTrytesLength") := by decide +kernel
example : migration.Decode toySum (exTrytes.take 80) = some (List.replicate 32 0#8, some "consts.ErrInvalidTrytesLength") := by
  decide +kernel
example : migration.Decode toySum [] = some (List.replicate 32 0#8, some "consts.ErrInvalidTrytesLength") := by decide +kernel
example : iotago_b1t6.DecodeTrytes ((exTrytes.set 10 103#8).drop 8 |>.take 64) = none := by decide +kernel
example : guards.IsTrytesOfExactLength exTrytes 81#64 = some true ∧ guards.IsTrytesOfExactLength exTrytes 80#64 = some false ∧
    guards.IsTrytesOfExactLength (exTrytes.set 10 103#8) 81#64 = some false := by decide +kernel

end Iota.Tie.MigrationCode
