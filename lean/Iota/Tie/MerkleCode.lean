/-
Code tie for pkg/merkle: `largestPowerOfTwo`, `Hasher.hashNode`, `Hasher.hashLeaf`, `Hasher.EmptyRoot` and the recursive
`Hasher.Hash`, translated AS CODE by cmd/extract into `Iota/Gen/Merkle.lean` (`Gen.Merkle.code.*`; Go `int`/`uint` is
`BitVec 64`, `[]byte` is `List (BitVec 8)`, a leaf is the result `(bytes, error)` of its `MarshalBinary`, the hash function
is the parameter `hash_sum`, `none` = run-time panic or — for the recursive function — fuel exhausted), against the model of
`Iota/Model/Merkle.lean`, for all inputs.  Their text is not pinned: a rewrite that keeps the meaning re-proves, a changed
prefix, split point, order of the subtrees or error path breaks a theorem.
-/
import Iota.Gen.Merkle
import Iota.Proofs.Merkle
import Iota.Tie.BV

namespace Iota.Tie.MerkleCode
open Iota Iota.Go
open Iota.Tie.Bech32Code (bv bv_ofBitVec ofBitVec_bv bv_append)
open Iota.Tie.Base32Code (toNat_ofNat_lt beq_ofNat msb_ofNat_small)
open Iota.Gen.Merkle

/-! ### `bits.Len` -/

/-- the search `Go.bitsLen64` performs: one more than the highest position below `n` at which `p` holds, 0 if there is none -/
def hiBit (p : Nat → Bool) (n : Nat) : Nat := (((List.range n).reverse.find? p).map (· + 1)).getD 0

theorem hiBit_succ (p : Nat → Bool) (n : Nat) : hiBit p (n + 1) = if p n then n + 1 else hiBit p n := by
  unfold hiBit
  rw [List.range_succ, List.reverse_append, List.reverse_singleton, List.singleton_append, List.find?_cons]
  cases p n <;> simp

theorem hiBit_testBit (n m : Nat) (h : m < 2 ^ n) : hiBit m.testBit n = Merkle.bitsLen m := by
  induction n with
  | zero =>
    have : m = 0 := by simpa using h
    subst this; rfl
  | succ n ih =>
    rw [hiBit_succ]
    by_cases hb : 2 ^ n ≤ m
    · have hdiv : m / 2 ^ n = 1 := Nat.div_eq_of_lt_le (by omega) (by rw [Nat.pow_succ] at h; omega)
      have ht : m.testBit n = true := by rw [Nat.testBit_eq_decide_div_mod_eq, hdiv]; rfl
      have hm : m ≠ 0 := by have := Nat.two_pow_pos n; omega
      rw [ht, if_pos rfl]
      unfold Merkle.bitsLen
      rw [if_neg hm, (Nat.log2_eq_iff hm).mpr ⟨hb, h⟩]
    · have ht : m.testBit n = false := Nat.testBit_lt_two_pow (by omega)
      rw [ht]
      exact ih (by omega)

/-- **`bits.Len` as translated (a search for the highest set bit) is `Merkle.bitsLen` (`log2 + 1`, 0 for 0), for every
64-bit value.** -/
theorem bitsLen64_eq' (x : BitVec 64) : Go.bitsLen64 x = BitVec.ofNat 64 (Merkle.bitsLen x.toNat) := by
  show BitVec.ofNat 64 (hiBit (fun i => x.toNat.testBit i) 64) = _
  rw [show (fun i => x.toNat.testBit i) = x.toNat.testBit from rfl, hiBit_testBit 64 x.toNat x.isLt]

theorem bitsLen_le (n m : Nat) (h : m < 2 ^ n) : Merkle.bitsLen m ≤ n := by
  unfold Merkle.bitsLen
  by_cases hm : m = 0
  · simp [hm]
  · rw [if_neg hm]
    exact (Nat.log2_lt hm).mpr h

theorem bitsLen64_eq (m : Nat) (h : m < 2 ^ 64) : (Go.bitsLen64 (BitVec.ofNat 64 m)).toNat = Merkle.bitsLen m := by
  rw [bitsLen64_eq', toNat_ofNat_lt m h, toNat_ofNat_lt]
  have := bitsLen_le 64 m h
  omega

/-! ### `largestPowerOfTwo` -/

theorem ofNat_sub_one (a : Nat) (h1 : 1 ≤ a) (h : a < 2 ^ 64) : BitVec.ofNat 64 a - 1#64 = BitVec.ofNat 64 (a - 1) := by
  apply BitVec.eq_of_toNat_eq
  rw [BitVec.toNat_sub, toNat_ofNat_lt a h, toNat_ofNat_lt (a - 1) (by omega)]
  show (2 ^ 64 - 1 + a) % 2 ^ 64 = a - 1
  omega

/-- **`largestPowerOfTwo(n)` for an `int` `n ≥ 2` does not panic and returns the model's value
`1 << ((bits.Len(n-1) - 1) & 63)`** (which `Props.C15.split_point` shows is the power of two `k` with `k < n ≤ 2k`). -/
theorem largestPowerOfTwo_eq (n : Nat) (h2 : 2 ≤ n) (h63 : n < 2 ^ 63) :
    code.largestPowerOfTwo (BitVec.ofNat 64 n) = some (BitVec.ofNat 64 (Merkle.largestPowerOfTwo n)) := by
  unfold code.largestPowerOfTwo Merkle.largestPowerOfTwo
  have hsle : BitVec.sle (BitVec.ofNat 64 n) 1#64 = false := by
    rw [BitVec.sle_eq_decide, toInt_ofNat_small n h63]
    exact decide_eq_false (by show ¬ ((n : Int) ≤ 1); omega)
  have hb1 : 1 ≤ Merkle.bitsLen (n - 1) := by
    unfold Merkle.bitsLen; rw [if_neg (by omega)]; omega
  have hb64 := bitsLen_le 64 (n - 1) (by omega)
  have hand : (Merkle.bitsLen (n - 1) - 1) &&& 63 ≤ 63 := Nat.and_le_right
  have hlog : (Go.bitsLen64 (BitVec.ofNat 64 n - 1#64) - 1#64) &&& 63#64
      = BitVec.ofNat 64 ((Merkle.bitsLen (n - 1) - 1) &&& 63) := by
    rw [ofNat_sub_one n (by omega) (by omega), bitsLen64_eq', toNat_ofNat_lt (n - 1) (by omega),
      ofNat_sub_one _ hb1 (by omega), BitVec.ofNat_and]
  have hnn : Go.nonneg (BitVec.ofNat 64 ((Merkle.bitsLen (n - 1) - 1) &&& 63)) = true := by
    unfold Go.nonneg; rw [msb_ofNat_small _ (by omega)]; rfl
  simp only [hsle, hlog, hnn, toNat_ofNat_lt _ (show (Merkle.bitsLen (n - 1) - 1) &&& 63 < 2 ^ 64 by omega),
    Bool.false_eq_true, if_false, Bool.not_true, Flow.result]
  rfl

/-- **`largestPowerOfTwo(x)` panics for every `int` `x ≤ 1`** (the explicit `panic` of the Go function). -/
theorem largestPowerOfTwo_panics (x : BitVec 64) (h : x.toInt ≤ 1) : code.largestPowerOfTwo x = none := by
  unfold code.largestPowerOfTwo
  have : BitVec.sle x 1#64 = true := by
    rw [BitVec.sle_eq_decide]; exact decide_eq_true (by show x.toInt ≤ 1; exact h)
  rw [this]; rfl

/-- it panics in no other case -/
theorem largestPowerOfTwo_none_iff (x : BitVec 64) : code.largestPowerOfTwo x = none ↔ x.toInt ≤ 1 := by
  constructor
  · intro hn
    refine Decidable.by_contra fun hx => ?_
    have hlt := @BitVec.toInt_lt 64 x
    have hnat : x.toInt = x.toNat := by
      rw [BitVec.toInt_eq_toNat_cond] at hx ⊢
      split at hx <;> rename_i hc
      · rw [if_pos hc]
      · omega
    have h63 : x.toNat < 2 ^ 63 := by omega
    have := largestPowerOfTwo_eq x.toNat (by omega) h63
    rw [BitVec.ofNat_toNat, BitVec.setWidth_eq, hn] at this
    cases this
  · exact largestPowerOfTwo_panics x

/-! ### the hash function, leaves and nodes

The model is parametrised by `H : Bytes → Bytes`, the translated code by `hash_sum : List (BitVec 8) → List (BitVec 8)`; they
are the same function when `hash_sum (bv x) = bv (H x)` for all `x` (hypothesis `hH` below).  That is no restriction on
`hash_sum`: `exists_H`. -/

/-- bytes of the translated code as bytes of the model (the inverse of `bv`) -/
def un (l : List (BitVec 8)) : List UInt8 := l.map UInt8.ofBitVec

theorem bv_un (l : List (BitVec 8)) : bv (un l) = l := bv_ofBitVec l
theorem un_bv (l : List UInt8) : un (bv l) = l := ofBitVec_bv l

/-- every `hash_sum` is `H` seen through `bv`, for `H x := un (hash_sum (bv x))` -/
theorem exists_H (hash_sum : List (BitVec 8) → List (BitVec 8)) :
    ∃ H : Merkle.Bytes → Merkle.Bytes, ∀ x, hash_sum (bv x) = bv (H x) :=
  ⟨fun x => un (hash_sum (bv x)), fun _ => (bv_un _).symm⟩

section
variable (hash_sum : List (BitVec 8) → List (BitVec 8)) (H : Merkle.Bytes → Merkle.Bytes)
  (hH : ∀ x, hash_sum (bv x) = bv (H x))
include hH

/-- **`EmptyRoot` is the hash of the empty string.** -/
theorem EmptyRoot_eq : code.Hasher_EmptyRoot hash_sum = bv (H []) := hH []

/-- **`hashNode(l, r)` is `H(0x01 ‖ l ‖ r)`.** -/
theorem hashNode_eq (l r : Merkle.Bytes) :
    code.Hasher_hashNode hash_sum (bv l) (bv r) = bv (Merkle.hashNode H l r) := by
  unfold code.Hasher_hashNode Merkle.hashNode
  rw [← hH]
  simp [bv]

/-- **`hashLeaf` of a leaf that marshals to `b` is `H(0x00 ‖ b)` and no error; of a leaf whose `MarshalBinary` fails it
is that error (and an empty slice).** -/
theorem hashLeaf_eq (b : List (BitVec 8)) (err : Option String) :
    code.Hasher_hashLeaf hash_sum (b, err) =
      match err with
      | none => (bv (Merkle.hashLeaf H (un b)), none)
      | some e => ([], some e) := by
  unfold code.Hasher_hashLeaf Merkle.hashLeaf
  cases err with
  | some e => rfl
  | none =>
    simp only [Option.isSome_none, Bool.false_eq_true, if_false]
    rw [← hH, show bv (0 :: un b) = 0#8 :: bv (un b) from rfl, bv_un]
    rfl
end

/-! ### `Hasher.Hash`

A leaf of the translated code is the pair `(bytes, error)` its `MarshalBinary` returns; the model's leaf is
`Except String Bytes`.  The code never looks at the bytes when the error is not nil, so the theorem is stated for an ARBITRARY
list of pairs, decoded by `decLeaf`. -/

/-- what the model sees of a leaf `(bytes, error)` of the translated code -/
def decLeaf : List (BitVec 8) × Option String → Except String Merkle.Bytes
  | (b, none) => .ok (un b)
  | (_, some e) => .error e

/-- a result (or a leaf) of the model as the pair `(bytes, error)` of the translated code: `(digest, nil)` or `(nil, err)` -/
def enc : Except String Merkle.Bytes → List (BitVec 8) × Option String
  | .ok r => (bv r, none)
  | .error e => ([], some e)

theorem decLeaf_enc (x : Except String Merkle.Bytes) : decLeaf (enc x) = x := by
  cases x with
  | ok b => show Except.ok (un (bv b)) = _; rw [un_bv]
  | error e => rfl

section
variable (hash_sum : List (BitVec 8) → List (BitVec 8)) (H : Merkle.Bytes → Merkle.Bytes)
  (hH : ∀ x, hash_sum (bv x) = bv (H x))
include hH

theorem Hash_eq_aux : ∀ (n fuel : Nat) (data : List (List (BitVec 8) × Option String)),
    data.length = n → n < 2 ^ 63 → n ≤ fuel → 0 < fuel →
    code.Hasher_Hash hash_sum fuel data = some (enc (Merkle.hash H (data.map decLeaf))) := by
  intro n
  induction n using Nat.strongRecOn with
  | _ n ih =>
    intro fuel data hn h63 hf hf0
    obtain ⟨fuel, rfl⟩ : ∃ f, fuel = f + 1 := ⟨fuel - 1, by omega⟩
    rw [code.Hasher_Hash]
    by_cases h0 : n = 0
    · have : data = [] := List.length_eq_zero_iff.mp (by omega)
      subst this
      rw [List.map_nil, Proofs.Merkle.hash_nil]
      simp only [List.length_nil, beq_self_eq_true, if_true, Flow.result_done,
        EmptyRoot_eq hash_sum H hH]
      rfl
    by_cases h1 : n = 1
    · obtain ⟨⟨b, err⟩, rfl⟩ := List.length_eq_one_iff.mp (by omega : data.length = 1)
      rw [List.map_singleton, Proofs.Merkle.hash_single]
      have e0 : (BitVec.ofNat 64 1 == 0#64) = false := by decide
      have e1 : (BitVec.ofNat 64 1 == 1#64) = true := by decide
      simp only [List.length_singleton, e0, e1, Bool.false_eq_true, if_false, if_true, Nat.lt_one_iff,
        decide_true, Bool.not_true, List.getD_cons_zero, Flow.result_done, hashLeaf_eq hash_sum H hH]
      cases err <;> rfl
    have h2 : 2 ≤ n := by omega
    have e0 : (BitVec.ofNat 64 data.length == 0#64) = false := by
      rw [hn, show (0#64 : BitVec 64) = BitVec.ofNat 64 0 from rfl, beq_ofNat n 0 (by omega) (by omega)]
      exact decide_eq_false h0
    have e1 : (BitVec.ofNat 64 data.length == 1#64) = false := by
      rw [hn, show (1#64 : BitVec 64) = BitVec.ofNat 64 1 from rfl, beq_ofNat n 1 (by omega) (by omega)]
      exact decide_eq_false h1
    obtain ⟨hkpos, hklt⟩ := Merkle.lpo2_pos_lt n h2
    have hkn : (BitVec.ofNat 64 (Merkle.largestPowerOfTwo n)).toNat = Merkle.largestPowerOfTwo n :=
      toNat_ofNat_lt _ (by omega)
    have hsl : Go.sliceFromU (BitVec.ofNat 64 (Merkle.largestPowerOfTwo n)) data.length = true := by
      unfold Go.sliceFromU; rw [hkn]; exact decide_eq_true (by omega)
    have hl := ih (Merkle.largestPowerOfTwo n) hklt fuel (data.take (Merkle.largestPowerOfTwo n))
      (by rw [List.length_take]; omega) (by omega) (by omega) (by omega)
    have hr := ih (n - Merkle.largestPowerOfTwo n) (by omega) fuel (data.drop (Merkle.largestPowerOfTwo n))
      (by rw [List.length_drop]; omega) (by omega) (by omega) (by omega)
    rw [Proofs.Merkle.hash_split H _ (by rw [List.length_map]; omega), List.length_map, ← List.map_take,
      ← List.map_drop]
    simp only [e0, e1, Bool.false_eq_true, if_false]
    rw [hn, largestPowerOfTwo_eq n h2 h63] at *
    simp only [Go.call, Flow.bind_run, hsl, hkn, Bool.not_true, Bool.false_eq_true, if_false, hl]
    cases hhl : Merkle.hash H (List.map decLeaf (List.take (Merkle.largestPowerOfTwo n) data)) with
    | error e => rfl
    | ok l =>
      simp only [enc, Option.isSome_none, Bool.false_eq_true, if_false, hr, Flow.bind_run]
      cases hhr : Merkle.hash H (List.map decLeaf (List.drop (Merkle.largestPowerOfTwo n) data)) with
      | error e => rfl
      | ok r =>
        simp only [Option.isSome_none, Bool.false_eq_true, if_false, Flow.result_done, hashNode_eq hash_sum H hH]

/-- **MAIN: the translated `Hasher.Hash` computes exactly the model's `Merkle.hash`** — for every hash function, every
list of fewer than 2^63 leaves `(bytes, error)` and every fuel that is at least 1 and at least the number of leaves: it
does not panic (not in `largestPowerOfTwo`, not at a slice bound), and returns `(root, nil)` where the model returns the
root, `(nil, err)` where the model returns the first marshaling error. -/
theorem Hash_eq (fuel : Nat) (data : List (List (BitVec 8) × Option String)) (h63 : data.length < 2 ^ 63)
    (hf : data.length ≤ fuel) (hf0 : 0 < fuel) :
    code.Hasher_Hash hash_sum fuel data = some (enc (Merkle.hash H (data.map decLeaf))) :=
  Hash_eq_aux hash_sum H hH data.length fuel data rfl h63 hf hf0

/-- the same for leaves given at the model level -/
theorem Hash_enc (fuel : Nat) (leaves : List (Except String Merkle.Bytes)) (h63 : leaves.length < 2 ^ 63)
    (hf : leaves.length ≤ fuel) (hf0 : 0 < fuel) :
    code.Hasher_Hash hash_sum fuel (leaves.map enc) = some (enc (Merkle.hash H leaves)) := by
  rw [Hash_eq hash_sum H hH fuel _ (by rwa [List.length_map]) (by rwa [List.length_map]) hf0, List.map_map]
  congr 3
  rw [show decLeaf ∘ enc = id from funext decLeaf_enc, List.map_id]
end

/-- without fuel the translated function reports `none`: `0 < fuel` is needed even for the empty list -/
theorem Hash_fuel_zero (hash_sum : List (BitVec 8) → List (BitVec 8)) (data : List (List (BitVec 8) × Option String)) :
    code.Hasher_Hash hash_sum 0 data = none := rfl

/-- **`Hasher.Hash` never panics** (and the fuel suffices): no `hash_sum`, no list of fewer than 2^63 leaves reaches the
`panic` of `largestPowerOfTwo` or a slice bound violation. -/
theorem Hash_never_panics (hash_sum : List (BitVec 8) → List (BitVec 8)) (fuel : Nat)
    (data : List (List (BitVec 8) × Option String)) (h63 : data.length < 2 ^ 63)
    (hf : data.length ≤ fuel) (hf0 : 0 < fuel) :
    code.Hasher_Hash hash_sum fuel data ≠ none := by
  obtain ⟨H, hH⟩ := exists_H hash_sum
  rw [Hash_eq hash_sum H hH fuel data h63 hf hf0]
  exact Option.some_ne_none _

/-- **the fuel is irrelevant**: any two sufficient amounts give the same result -/
theorem Hash_fuel_irrelevant (hash_sum : List (BitVec 8) → List (BitVec 8)) (fuel fuel' : Nat)
    (data : List (List (BitVec 8) × Option String)) (h63 : data.length < 2 ^ 63)
    (hf : data.length ≤ fuel) (hf0 : 0 < fuel) (hf' : data.length ≤ fuel') (hf0' : 0 < fuel') :
    code.Hasher_Hash hash_sum fuel data = code.Hasher_Hash hash_sum fuel' data := by
  obtain ⟨H, hH⟩ := exists_H hash_sum
  rw [Hash_eq hash_sum H hH fuel data h63 hf hf0, Hash_eq hash_sum H hH fuel' data h63 hf' hf0']

/-- `data.length < fuel` is a convenient sufficient amount -/
theorem Hash_eq_of_lt (hash_sum : List (BitVec 8) → List (BitVec 8)) (H : Merkle.Bytes → Merkle.Bytes)
    (hH : ∀ x, hash_sum (bv x) = bv (H x)) (fuel : Nat) (data : List (List (BitVec 8) × Option String))
    (h63 : data.length < 2 ^ 63) (hf : data.length < fuel) :
    code.Hasher_Hash hash_sum fuel data = some (enc (Merkle.hash H (data.map decLeaf))) :=
  Hash_eq hash_sum H hH fuel data h63 (by omega) (by omega)

/-! ### the statements are not vacuous: the translated function evaluated on small inputs

`toy` "hashes" a string to itself behind its length, so the result shows the tree: 3 leaves are split 2 | 1. -/

/-- a toy hash function: the input behind its length -/
def toy (l : List (BitVec 8)) : List (BitVec 8) := BitVec.ofNat 8 l.length :: l

example : code.Hasher_Hash toy 1 [] = some ([0x00#8], none) := by decide
example : code.Hasher_Hash toy 1 [([0xaa#8], none)] = some ([0x02#8, 0x00#8, 0xaa#8], none) := by decide
example : code.Hasher_Hash toy 3 [([0xaa#8], none), ([0xbb#8], none), ([0xcc#8], none)] =
    some ([0x0c#8, 0x01#8, 0x07#8, 0x01#8, 0x02#8, 0x00#8, 0xaa#8, 0x02#8, 0x00#8, 0xbb#8, 0x02#8, 0x00#8, 0xcc#8], none) := by
  decide
/-- the first error in index order, and no bytes -/
example : code.Hasher_Hash toy 3 [([0xaa#8], none), ([0xbb#8], some "E"), ([0xcc#8], some "F")] = some ([], some "E") := by
  decide
/-- the bytes of a leaf with an error are never looked at -/
example : code.Hasher_Hash toy 1 [([0xaa#8], some "E")] = code.Hasher_Hash toy 1 [([], some "E")] := by decide
/-- too little fuel is `none` (3 leaves need 3, 2 leaves need 2): the hypothesis on the fuel cannot be dropped -/
example : code.Hasher_Hash toy 2 [([0xaa#8], none), ([0xbb#8], none), ([0xcc#8], none)] = none := by decide
example : code.Hasher_Hash toy 1 [([0xaa#8], none), ([0xbb#8], none)] = none := by decide
example : code.Hasher_Hash toy 0 [] = none := by decide
example : code.largestPowerOfTwo 5#64 = some 4#64 := by decide
example : code.largestPowerOfTwo 8#64 = some 4#64 := by decide
example : code.largestPowerOfTwo 9#64 = some 8#64 := by decide
example : code.largestPowerOfTwo 1#64 = none := by decide
example : code.largestPowerOfTwo (BitVec.ofInt 64 (-3)) = none := by decide

end Iota.Tie.MerkleCode
