/-
Lemmas about the support definitions of translated Go code (`Iota/Model/GoBits.lean`): the `Go.Flow`
combinators, the loops `Go.forIn` / `Go.whileFuel`, and the index lists `Go.forUp` / `Go.forDown` of
three-clause loops.  Used by the code ties `VrfCode`, `PowCode`, `B1T8Code`.
-/
import Iota.Model.GoBits

namespace Iota.Go

variable {α ρ σ τ : Type}

@[simp] theorem Flow.bind_run (s : σ) (f : σ → Flow ρ τ) : (Flow.run s : Flow ρ σ).bind f = f s := rfl
@[simp] theorem Flow.bind_done (r : ρ) (f : σ → Flow ρ τ) : (Flow.done r : Flow ρ σ).bind f = .done r := rfl
@[simp] theorem Flow.bind_panic (f : σ → Flow ρ τ) : (Flow.panic : Flow ρ σ).bind f = .panic := rfl
@[simp] theorem Flow.result_run (r : ρ) : (Flow.run r : Flow ρ ρ).result = some r := rfl
@[simp] theorem Flow.result_done (r : ρ) : (Flow.done r : Flow ρ ρ).result = some r := rfl
@[simp] theorem Flow.result_panic : (Flow.panic : Flow ρ ρ).result = none := rfl

@[simp] theorem forIn_nil (s : σ) (f : σ → α → Flow ρ σ) : forIn [] s f = .run s := rfl
@[simp] theorem forIn_cons (a : α) (l : List α) (s : σ) (f : σ → α → Flow ρ σ) :
    forIn (a :: l) s f = (f s a).bind (fun s' => forIn l s' f) := rfl

theorem forIn_append (l₁ l₂ : List α) (s : σ) (f : σ → α → Flow ρ σ) :
    forIn (l₁ ++ l₂) s f = (forIn l₁ s f).bind (fun s' => forIn l₂ s' f) := by
  induction l₁ generalizing s with
  | nil => rfl
  | cons a l ih =>
    simp only [List.cons_append, forIn_cons]
    cases f s a <;> simp [ih]

/-- a loop whose body never returns or panics on the elements of the list is a fold -/
theorem forIn_eq_foldl (l : List α) (s : σ) (f : σ → α → Flow ρ σ) (g : σ → α → σ)
    (h : ∀ s, ∀ a ∈ l, f s a = .run (g s a)) : forIn l s f = .run (l.foldl g s) := by
  induction l generalizing s with
  | nil => rfl
  | cons a l ih =>
    rw [forIn_cons, h s a (List.mem_cons_self ..), Flow.bind_run, List.foldl_cons]
    exact ih _ (fun s b hb => h s b (List.mem_cons_of_mem _ hb))

/-- a loop without state that returns `r` at the first element satisfying `p` -/
theorem forIn_any (l : List α) (p : α → Bool) (r : ρ) (f : Unit → α → Flow ρ Unit)
    (h : ∀ a ∈ l, f () a = if p a then .done r else .run ()) :
    forIn l () f = if l.any p then .done r else .run () := by
  induction l with
  | nil => rfl
  | cons a l ih =>
    rw [forIn_cons, h a (List.mem_cons_self ..), List.any_cons]
    cases hp : p a
    · simpa using ih (fun b hb => h b (List.mem_cons_of_mem _ hb))
    · simp

@[simp] theorem whileFuel_zero (c : σ → Bool) (b : σ → Flow ρ σ) (s : σ) : whileFuel c b 0 s = .run s := rfl
theorem whileFuel_succ (c : σ → Bool) (b : σ → Flow ρ σ) (n : Nat) (s : σ) :
    whileFuel c b (n + 1) s = if c s then (b s).bind (whileFuel c b n) else .run s := rfl

@[simp] theorem forInB_nil (s : σ) (f : σ → α → Flow ρ (Bool × σ)) : forInB [] s f = .run s := rfl
@[simp] theorem forInB_cons (a : α) (l : List α) (s : σ) (f : σ → α → Flow ρ (Bool × σ)) :
    forInB (a :: l) s f = (f s a).bind (fun r => if r.1 then .run r.2 else forInB l r.2 f) := rfl

@[simp] theorem whileFuelB_zero (c : σ → Bool) (b : σ → Flow ρ (Bool × σ)) (s : σ) : whileFuelB c b 0 s = .run s := rfl
theorem whileFuelB_succ (c : σ → Bool) (b : σ → Flow ρ (Bool × σ)) (n : Nat) (s : σ) :
    whileFuelB c b (n + 1) s =
      if c s then (b s).bind (fun r => if r.1 then .run r.2 else whileFuelB c b n r.2) else .run s := rfl

/-- a body that never breaks: the loops with `break` are the plain ones -/
theorem forInB_eq_forIn (l : List α) (s : σ) (f : σ → α → Flow ρ σ) :
    forInB l s (fun s a => (f s a).bind (fun s' => .run (false, s'))) = forIn l s f := by
  induction l generalizing s with
  | nil => rfl
  | cons a l ih =>
    rw [forInB_cons, forIn_cons]
    cases f s a <;> simp [ih]

theorem whileFuelB_eq_whileFuel (c : σ → Bool) (b : σ → Flow ρ σ) (n : Nat) (s : σ) :
    whileFuelB c (fun s => (b s).bind (fun s' => .run (false, s'))) n s = whileFuel c b n s := by
  induction n generalizing s with
  | zero => rfl
  | succ n ih =>
    rw [whileFuelB_succ, whileFuel_succ]
    cases c s
    · rfl
    · simp only [if_true]
      cases b s <;> simp [ih]

/-! ### index lists of three-clause loops -/

/-- `for i := a; i < b; i++` on `uint`: `a, a+1, …, b-1` -/
theorem forUp_uint_lt (a b : BitVec 64) :
    forUp false false a b 1 = (List.range (b.toNat - a.toNat)).map (fun m => BitVec.ofNat 64 (a.toNat + m)) := by
  unfold forUp
  simp only [Bool.false_eq_true, if_false, Nat.add_sub_cancel, Nat.div_one, Nat.mul_one]
  by_cases h : a.toNat < b.toNat
  · have hlt : a.ult b = true := by simp [BitVec.ult, h]
    rw [if_pos hlt]
    have hsub : (b - a).toNat = b.toNat - a.toNat := by
      rw [BitVec.toNat_sub]; have := a.isLt; have := b.isLt; omega
    rw [hsub]
    apply List.map_congr_left
    intro m _
    apply BitVec.eq_of_toNat_eq
    simp [BitVec.toNat_add]
  · have hlt : a.ult b = false := by simp [BitVec.ult, h]
    have : b.toNat - a.toNat = 0 := by omega
    simp [hlt, this]

theorem toInt_ofNat_small (a : Nat) (ha : a < 2 ^ 63) : (BitVec.ofNat 64 a).toInt = a := by
  rw [BitVec.toInt_eq_toNat_of_lt (by rw [BitVec.toNat_ofNat]; omega), BitVec.toNat_ofNat]
  congr 1; omega

/-- `for i := a; i <= b; i += k` / `i < b` on `int`, for bounds `0 ≤ a ≤ b < 2^63` -/
theorem forUp_int (incl : Bool) (a b k : Nat) (hab : if incl then a ≤ b else a < b) (hb : b < 2 ^ 63) :
    forUp true incl (BitVec.ofNat 64 a) (BitVec.ofNat 64 b) k =
      (List.range (if incl then (b - a) / k + 1 else (b - a + k - 1) / k)).map
        (fun m => BitVec.ofNat 64 (a + m * k)) := by
  have ha : a < 2 ^ 63 := by cases incl <;> simp at hab <;> omega
  have hle : a ≤ b := by cases incl <;> simp at hab <;> omega
  have hsub : (BitVec.ofNat 64 b - BitVec.ofNat 64 a).toNat = b - a := by
    rw [BitVec.toNat_sub, BitVec.toNat_ofNat, BitVec.toNat_ofNat]
    rw [Nat.mod_eq_of_lt (by omega : a < 2 ^ 64), Nat.mod_eq_of_lt (by omega : b < 2 ^ 64)]
    omega
  unfold forUp
  have henter : (if incl = true then (BitVec.ofNat 64 a).sle (BitVec.ofNat 64 b)
      else (BitVec.ofNat 64 a).slt (BitVec.ofNat 64 b)) = true := by
    cases incl
    · simp only [Bool.false_eq_true, if_false] at hab ⊢
      rw [BitVec.slt, toInt_ofNat_small a ha, toInt_ofNat_small b hb]
      exact decide_eq_true (by omega)
    · simp only [if_true] at hab ⊢
      rw [BitVec.sle, toInt_ofNat_small a ha, toInt_ofNat_small b hb]
      exact decide_eq_true (by omega)
  simp only [if_true, henter, hsub]
  apply List.map_congr_left
  intro m _
  apply BitVec.eq_of_toNat_eq
  simp [BitVec.toNat_add]

/-! ### the index lists are what the loop headers compute, step by step, in 64-bit arithmetic -/

/-- the value of a 64-bit word as an `int` / `uint` -/
def ord (signed : Bool) (x : BitVec 64) : Int := if signed then x.toInt else x.toNat
def maxOrd (signed : Bool) : Int := if signed then 2 ^ 63 - 1 else 2 ^ 64 - 1
def minOrd (signed : Bool) : Int := if signed then -2 ^ 63 else 0

theorem cmpUp_iff (signed incl : Bool) (b i : BitVec 64) :
    cmpUp signed incl b i = true ↔ (if incl then ord signed i ≤ ord signed b else ord signed i < ord signed b) := by
  cases signed <;> cases incl <;> simp [cmpUp, ord, BitVec.slt, BitVec.sle, BitVec.ult, BitVec.ule] <;> omega

theorem ord_bounds (signed : Bool) (x : BitVec 64) : minOrd signed ≤ ord signed x ∧ ord signed x ≤ maxOrd signed := by
  have := x.isLt
  cases signed <;> simp [ord, minOrd, maxOrd, BitVec.toInt_eq_toNat_cond] <;> omega

theorem sub_toNat (signed : Bool) (a b : BitVec 64) (h : ord signed a ≤ ord signed b) :
    ((b - a).toNat : Int) = ord signed b - ord signed a := by
  have := a.isLt; have := b.isLt
  cases signed <;> simp [ord, BitVec.toInt_eq_toNat_cond, BitVec.toNat_sub] at h ⊢ <;> omega

theorem ord_add (signed : Bool) (a : BitVec 64) (k : Nat) (h : ord signed a + k ≤ maxOrd signed) :
    ord signed (a + BitVec.ofNat 64 k) = ord signed a + k := by
  have := a.isLt
  cases signed <;> simp [ord, maxOrd, BitVec.toInt_eq_toNat_cond, BitVec.toNat_add] at h ⊢ <;> omega

/-- number of iterations of `forUp` -/
def countUp (incl : Bool) (d k : Nat) : Nat := if incl then d / k + 1 else (d + k - 1) / k

theorem forUp_eq (signed incl : Bool) (a b : BitVec 64) (k : Nat) :
    forUp signed incl a b k =
      if cmpUp signed incl b a then
        (List.range (countUp incl (b - a).toNat k)).map (fun m => a + BitVec.ofNat 64 (m * k))
      else [] := rfl

/-- unfolding one iteration: if the condition holds for `a`, and `i += k` cannot wrap around before the condition
fails (`b + k ≤ max` for `<=`, `b - 1 + k ≤ max` for `<`), then the list is `a` followed by the list from `a + k` -/
theorem forUp_cons (signed incl : Bool) (a b : BitVec 64) (k : Nat) (hk : 0 < k)
    (hsafe : ord signed b + (if incl then (k : Int) else k - 1) ≤ maxOrd signed)
    (henter : cmpUp signed incl b a = true) :
    forUp signed incl a b k = a :: forUp signed incl (a + BitVec.ofNat 64 k) b k := by
  have hA := (cmpUp_iff signed incl b a).mp henter
  have hle : ord signed a ≤ ord signed b := by cases incl <;> simp at hA <;> omega
  have hadd : ord signed (a + BitVec.ofNat 64 k) = ord signed a + k :=
    ord_add signed a k (by cases incl <;> simp at hA hsafe <;> omega)
  have hd := sub_toNat signed a b hle
  rw [forUp_eq, forUp_eq, if_pos henter]
  by_cases h2 : cmpUp signed incl b (a + BitVec.ofNat 64 k) = true
  · have hB := (cmpUp_iff signed incl b _).mp h2
    rw [hadd] at hB
    have hle2 : ord signed (a + BitVec.ofNat 64 k) ≤ ord signed b := by
      rw [hadd]; cases incl <;> simp at hB <;> omega
    have hd2 := sub_toNat signed (a + BitVec.ofNat 64 k) b hle2
    rw [hadd] at hd2
    have hdk : (b - a).toNat = (b - (a + BitVec.ofNat 64 k)).toNat + k := by omega
    have hcount : countUp incl (b - a).toNat k = countUp incl (b - (a + BitVec.ofNat 64 k)).toNat k + 1 := by
      rw [hdk]
      cases incl
      · simp only [countUp, Bool.false_eq_true, if_false]
        rw [show (b - (a + BitVec.ofNat 64 k)).toNat + k + k - 1 = ((b - (a + BitVec.ofNat 64 k)).toNat + k - 1) + k by omega,
          Nat.add_div_right _ hk]
      · simp only [countUp, if_true]
        rw [Nat.add_div_right _ hk]
    rw [if_pos h2, hcount, List.range_succ_eq_map, List.map_cons, List.map_map]
    congr 1
    · simp
    · apply List.map_congr_left
      intro m _
      simp only [Function.comp, Nat.succ_eq_add_one]
      rw [Nat.add_mul, Nat.one_mul, Nat.add_comm (m * k) k, BitVec.ofNat_add, BitVec.add_assoc]
  · have hB : ¬ (if incl then ord signed (a + BitVec.ofNat 64 k) ≤ ord signed b
        else ord signed (a + BitVec.ofNat 64 k) < ord signed b) :=
      fun h => h2 ((cmpUp_iff signed incl b (a + BitVec.ofNat 64 k)).mpr h)
    rw [hadd] at hB
    have hcount : countUp incl (b - a).toNat k = 1 := by
      cases incl
      · simp only [countUp, Bool.false_eq_true, if_false] at hA hB hsafe ⊢
        have h1 : k ≤ (b - a).toNat + k - 1 := by omega
        have h3 : (b - a).toNat + k - 1 < 2 * k := by omega
        have h4 := Nat.div_le_div_right (c := k) h1
        rw [Nat.div_self hk] at h4
        have h5 : ((b - a).toNat + k - 1) / k < 2 := (Nat.div_lt_iff_lt_mul hk).mpr h3
        omega
      · simp only [countUp, if_true] at hA hB hsafe ⊢
        rw [Nat.div_eq_of_lt (by omega)]
    rw [if_neg h2, hcount]
    simp

/-- **`forUp` is the list of values the loop variable really takes**: under the side condition the translator checks,
running the loop header `for i := a; i < b (i <= b); i += k` step by step in 64-bit arithmetic, with any bound on
the number of steps larger than the length of `forUp`, visits exactly `forUp signed incl a b k` and then finds the
condition false. -/
theorem forUp_sound (signed incl : Bool) (b : BitVec 64) (k : Nat) (hk : 0 < k)
    (hsafe : ord signed b + (if incl then (k : Int) else k - 1) ≤ maxOrd signed) :
    ∀ (fuel : Nat) (a : BitVec 64), (forUp signed incl a b k).length < fuel →
      loopIdx (cmpUp signed incl b) (· + BitVec.ofNat 64 k) fuel a = forUp signed incl a b k := by
  intro fuel
  induction fuel with
  | zero => intro a h; omega
  | succ fuel ih =>
    intro a h
    rw [loopIdx]
    by_cases henter : cmpUp signed incl b a = true
    · rw [if_pos henter]
      rw [forUp_cons signed incl a b k hk hsafe henter] at h ⊢
      rw [ih _ (by simpa using h)]
    · rw [if_neg henter, forUp_eq, if_neg henter]

theorem cmpDown_iff (signed incl : Bool) (b i : BitVec 64) :
    cmpDown signed incl b i = true ↔ (if incl then ord signed b ≤ ord signed i else ord signed b < ord signed i) := by
  cases signed <;> cases incl <;> simp [cmpDown, ord, BitVec.slt, BitVec.sle, BitVec.ult, BitVec.ule] <;> omega

theorem ord_sub (signed : Bool) (a : BitVec 64) (k : Nat) (h : minOrd signed ≤ ord signed a - k) :
    ord signed (a - BitVec.ofNat 64 k) = ord signed a - k := by
  have := a.isLt
  cases signed <;> simp [ord, minOrd, BitVec.toInt_eq_toNat_cond, BitVec.toNat_sub] at h ⊢ <;> omega

theorem forDown_eq (signed incl : Bool) (a b : BitVec 64) (k : Nat) :
    forDown signed incl a b k =
      if cmpDown signed incl b a then
        (List.range (countUp incl (a - b).toNat k)).map (fun m => a - BitVec.ofNat 64 (m * k))
      else [] := rfl

theorem forDown_cons (signed incl : Bool) (a b : BitVec 64) (k : Nat) (hk : 0 < k)
    (hsafe : minOrd signed ≤ ord signed b - (if incl then (k : Int) else k - 1))
    (henter : cmpDown signed incl b a = true) :
    forDown signed incl a b k = a :: forDown signed incl (a - BitVec.ofNat 64 k) b k := by
  have hA := (cmpDown_iff signed incl b a).mp henter
  have hle : ord signed b ≤ ord signed a := by cases incl <;> simp at hA <;> omega
  have hadd : ord signed (a - BitVec.ofNat 64 k) = ord signed a - k :=
    ord_sub signed a k (by cases incl <;> simp at hA hsafe <;> omega)
  have hd := sub_toNat signed b a hle
  rw [forDown_eq, forDown_eq, if_pos henter]
  by_cases h2 : cmpDown signed incl b (a - BitVec.ofNat 64 k) = true
  · have hB := (cmpDown_iff signed incl b _).mp h2
    rw [hadd] at hB
    have hle2 : ord signed b ≤ ord signed (a - BitVec.ofNat 64 k) := by
      rw [hadd]; cases incl <;> simp at hB <;> omega
    have hd2 := sub_toNat signed b (a - BitVec.ofNat 64 k) hle2
    rw [hadd] at hd2
    have hdk : (a - b).toNat = (a - BitVec.ofNat 64 k - b).toNat + k := by omega
    have hcount : countUp incl (a - b).toNat k = countUp incl (a - BitVec.ofNat 64 k - b).toNat k + 1 := by
      rw [hdk]
      cases incl
      · simp only [countUp, Bool.false_eq_true, if_false]
        rw [show (a - BitVec.ofNat 64 k - b).toNat + k + k - 1 = ((a - BitVec.ofNat 64 k - b).toNat + k - 1) + k by omega,
          Nat.add_div_right _ hk]
      · simp only [countUp, if_true]
        rw [Nat.add_div_right _ hk]
    rw [if_pos h2, hcount, List.range_succ_eq_map, List.map_cons, List.map_map]
    congr 1
    · simp
    · apply List.map_congr_left
      intro m _
      simp only [Function.comp, Nat.succ_eq_add_one]
      rw [Nat.add_mul, Nat.one_mul, Nat.add_comm (m * k) k, BitVec.ofNat_add, BitVec.sub_sub]
  · have hB : ¬ (if incl then ord signed b ≤ ord signed (a - BitVec.ofNat 64 k)
        else ord signed b < ord signed (a - BitVec.ofNat 64 k)) :=
      fun h => h2 ((cmpDown_iff signed incl b (a - BitVec.ofNat 64 k)).mpr h)
    rw [hadd] at hB
    have hcount : countUp incl (a - b).toNat k = 1 := by
      cases incl
      · simp only [countUp, Bool.false_eq_true, if_false] at hA hB hsafe ⊢
        have h1 : k ≤ (a - b).toNat + k - 1 := by omega
        have h3 : (a - b).toNat + k - 1 < 2 * k := by omega
        have h4 := Nat.div_le_div_right (c := k) h1
        rw [Nat.div_self hk] at h4
        have h5 : ((a - b).toNat + k - 1) / k < 2 := (Nat.div_lt_iff_lt_mul hk).mpr h3
        omega
      · simp only [countUp, if_true] at hA hB hsafe ⊢
        rw [Nat.div_eq_of_lt (by omega)]
    rw [if_neg h2, hcount]
    simp

/-- **`forDown` is the list of values the loop variable really takes** (as `forUp_sound`, for
`for i := a; i > b (i >= b); i -= k`; side condition: `b - k ≥ min` for `>=`, `b + 1 - k ≥ min` for `>`). -/
theorem forDown_sound (signed incl : Bool) (b : BitVec 64) (k : Nat) (hk : 0 < k)
    (hsafe : minOrd signed ≤ ord signed b - (if incl then (k : Int) else k - 1)) :
    ∀ (fuel : Nat) (a : BitVec 64), (forDown signed incl a b k).length < fuel →
      loopIdx (cmpDown signed incl b) (· - BitVec.ofNat 64 k) fuel a = forDown signed incl a b k := by
  intro fuel
  induction fuel with
  | zero => intro a h; omega
  | succ fuel ih =>
    intro a h
    rw [loopIdx]
    by_cases henter : cmpDown signed incl b a = true
    · rw [if_pos henter]
      rw [forDown_cons signed incl a b k hk hsafe henter] at h ⊢
      rw [ih _ (by simpa using h)]
    · rw [if_neg henter, forDown_eq, if_neg henter]

/-- with step 1 and a strict comparison the side condition always holds -/
theorem forUp_sound_one (signed : Bool) (b : BitVec 64) (fuel : Nat) (a : BitVec 64)
    (h : (forUp signed false a b 1).length < fuel) :
    loopIdx (cmpUp signed false b) (· + 1#64) fuel a = forUp signed false a b 1 :=
  forUp_sound signed false b 1 (by decide) (by have := (ord_bounds signed b).2; simpa using this) fuel a h

theorem forDown_sound_one (signed : Bool) (b : BitVec 64) (fuel : Nat) (a : BitVec 64)
    (h : (forDown signed false a b 1).length < fuel) :
    loopIdx (cmpDown signed false b) (· - 1#64) fuel a = forDown signed false a b 1 :=
  forDown_sound signed false b 1 (by decide) (by have := (ord_bounds signed b).1; simpa using this) fuel a h
/-- `Go.shl` is the left shift -/
theorem shl_eq {w : Nat} (x : BitVec w) (n : Nat) : shl x n = x <<< n := by
  unfold shl
  split
  · rename_i h
    apply BitVec.eq_of_getLsbD_eq
    intro i hi
    simp [BitVec.getLsbD_shiftLeft]
    intro _ hge
    omega
  · rfl

end Iota.Go
