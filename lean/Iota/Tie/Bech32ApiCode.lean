/-
Code tie for pkg/bech32/bech32.go: `Encode`, `Decode`, `validateCase`, `firstUpper`, `firstLower`, `isValidHRPChar`,
translated AS CODE by cmd/extract into `Iota/Gen/Bech32.lean` (`namespace api`; result `Option …`, `none` = Go run-time
panic), against the hand-written model `Iota/Model/Bech32.lean` (`Bech32.encode`, `Bech32.decode`, …).

What the translation does not define is a parameter of the generated functions: `strings.ToLower`, `strings.ToUpper`,
`strings.LastIndex` and the two tables of the package variable `charset`.  The tables are those `newEncoding` builds
(`encTable`, `decTable`: `Bech32CharsCode.newEncoding_charset`).  About the three library functions exactly the content of
the structure `Externs` is ASSUMED (ASCII case mapping on ASCII strings — nothing about other strings —, and
`LastIndex(s, "1")` = byte index of the last '1' or -1); `Externs.model` shows that the assumptions are satisfiable.

* `Decode_eq` (`decode_enc`): for every `E : Externs` and EVERY byte string `s` (ASCII or not, valid UTF-8 or not;
  `len(s) < 2^63`, which holds for every Go string: `len` is the list length read as a 64-bit `int`) the generated
  `Decode` returns the model's outcome: the same accepted pair, the same error variable, the same `SyntaxError` offset.
  `decode_never_panics` (`decode_never_panics_bits` for an arbitrary argument): `Decode` never panics.
  Points that needed an argument: the Go code ranges over the RUNES of the human-readable part, the model over its bytes
  (`hrp_loop`: the first rune failing `33 ≤ r ≤ 126` starts at the first byte failing the byte predicate, because the
  bytes before it are ASCII, hence runes of width 1, and a byte `≥ 0x80` at a rune start yields a rune `≥ 128` or U+FFFD,
  `runeValue_high`); `strings.ToLower` / `ToUpper` are only applied to strings already checked to be ASCII (both parts and
  the separator), so `lower_ascii` / `upper_ascii` suffice; `for i := range s` in `firstUpper` / `firstLower` is then the
  loop over all byte offsets (`runeStarts_all_ascii`); the `errors.As` branch maps the qualified base32 errors.
* `Encode_eq` (`encode_enc`): for every `E`, `hrp`, `src` with `len(src) < 2^60` and
  `len(hrp) + EncodedLen(len(src)) + 7 < 2^63` (`Encode_eq'`: `len(hrp) < 2^62`), the generated `Encode` returns the model's
  outcome; `encode_never_panics`.  The bounds only say that the length test at the top of `Encode` is evaluated without
  64-bit overflow; the one on `src` is sharp (`encode_panics_at_2_60`: with `len(src) = 2^60`, `EncodedLen` is negative, the
  test passes and `make` panics) — of no practical relevance, such a slice cannot exist.
* `isValidHRPChar_iff`, `isValidHRPChar_lt256`, `firstUpper_eq`, `firstLower_eq`, `validateCase_eq`: the small functions.
* the `example`s at the end evaluate the generated functions (kernel) on BIP-173 vectors and on rejected strings.

No difference between code and model was found.  Core Lean only.
-/
import Iota.Gen.Bech32
import Iota.Model.Bech32
import Iota.Tie.GoFlow
import Iota.Tie.Bech32Code
import Iota.Tie.Base32Code
import Iota.Tie.Bech32CharsCode
import Iota.Proofs.Bech32Checksum
import Iota.Proofs.Bech32Strings

namespace Iota.Tie.Bech32ApiCode
open Iota Iota.Go
open Iota.Tie.Bech32Code (bv bv_append ofBitVec_bv bv_ofBitVec)
open Iota.Tie.Bech32CharsCode (encTable decTable bv_cons bv_nil bv_length runeWidth_ascii)
open Iota.Tie.Base32Code (toNat_ofNat_lt slt_ofNat msb_ofNat_small beq_ofNat ofNat_add_lit)
open Iota.Gen.Bech32 (api.isValidHRPChar api.Decode api.Encode api.validateCase api.firstUpper api.firstLower
  base32.Decode base32.Encode base32.DecodedLen base32.EncodedLen chars.encoding_decode chars.encoding_encode
  bech32VerifyChecksum bech32CreateChecksum)

/-! ### what is assumed about the library functions -/

structure Externs where
  toLower : List (BitVec 8) → List (BitVec 8)
  toUpper : List (BitVec 8) → List (BitVec 8)
  lastIndex : List (BitVec 8) → List (BitVec 8) → BitVec 64
  /-- on ASCII strings `strings.ToLower` / `ToUpper` are the ASCII case mappings -/
  lower_ascii : ∀ s : List UInt8, (∀ c ∈ s, c.toNat < 128) → toLower (bv s) = bv (Bech32.lower s)
  upper_ascii : ∀ s : List UInt8, (∀ c ∈ s, c.toNat < 128) → toUpper (bv s) = bv (Bech32.upper s)
  /-- `strings.LastIndex(s, "1")` is the byte index of the last '1', or -1 -/
  lastIndex_sep : ∀ s : List UInt8, s.length < 2 ^ 62 →
    lastIndex (bv s) [49#8] =
      match Bech32.lastIndexSep s with
      | some i => BitVec.ofNat 64 i
      | none => BitVec.ofInt 64 (-1)

/-- the assumptions are satisfiable: the model's functions, transported to `List (BitVec 8)` -/
def Externs.model : Externs where
  toLower l := bv (Bech32.lower (l.map UInt8.ofBitVec))
  toUpper l := bv (Bech32.upper (l.map UInt8.ofBitVec))
  lastIndex l _ :=
    match Bech32.lastIndexSep (l.map UInt8.ofBitVec) with
    | some i => BitVec.ofNat 64 i
    | none => BitVec.ofInt 64 (-1)
  lower_ascii s _ := by rw [ofBitVec_bv]
  upper_ascii s _ := by rw [ofBitVec_bv]
  lastIndex_sep s _ := by rw [ofBitVec_bv]

theorem externs_satisfiable : Nonempty Externs := ⟨Externs.model⟩

/-! ### encodings of the model's outcomes -/

def kindName : Bech32.ErrKind → String
  | .invalidLength => "ErrInvalidLength"
  | .missingSeparator => "ErrMissingSeparator"
  | .invalidSeparator => "ErrInvalidSeparator"
  | .invalidCharacter => "ErrInvalidCharacter"
  | .mixedCase => "ErrMixedCase"
  | .invalidChecksum => "ErrInvalidChecksum"
  | .b32InvalidLength => "base32.ErrInvalidLength"
  | .b32NonZeroPadding => "base32.ErrNonZeroPadding"

/-- a model error as the translated code represents it: the name of the wrapped error variable and, for a
`*SyntaxError`, its offset -/
def encErr (e : Bech32.Err) : Option (String × Option (BitVec 64)) :=
  some (kindName e.1, e.2.map (BitVec.ofNat 64))

/-- an optional index as a Go `int`: `none ↦ -1` -/
def encIdx : Option Nat → BitVec 64
  | some i => BitVec.ofNat 64 i
  | none => BitVec.ofInt 64 (-1)

/-! ### `isValidHRPChar` and the runes of Go's UTF-8 decoder -/

/-- `r >= 33 && r <= 126` on an `int32` -/
theorem isValidHRPChar_toInt (r : BitVec 32) :
    api.isValidHRPChar r = (decide (33 ≤ r.toInt) && decide (r.toInt ≤ 126)) := by
  unfold api.isValidHRPChar BitVec.sle
  rfl

theorem isValidHRPChar_small (r : BitVec 32) (h : r.toNat < 2 ^ 31) :
    api.isValidHRPChar r = (decide (33 ≤ r.toNat) && decide (r.toNat ≤ 126)) := by
  rw [isValidHRPChar_toInt, BitVec.toInt_eq_toNat_of_lt (by omega)]
  congr 2 <;> exact propext (by omega)

/-- the shape of `runeWidth`: 1, or the length of the sequence the first byte announces -/
theorem runeWidth_cases (c : BitVec 8) (rest : List (BitVec 8)) (w : Nat) (hw : runeWidth (c :: rest) = w) :
    w = 1 ∨ (w = 2 ∧ 0xC2 ≤ c.toNat ∧ c.toNat < 0xE0) ∨
    (w = 3 ∧ 0xE0 ≤ c.toNat ∧ c.toNat < 0xF0 ∧ utf8Second c.toNat (rest.getD 0 0).toNat = true) ∨
    (w = 4 ∧ 0xF0 ≤ c.toNat ∧ c.toNat < 0xF5 ∧ utf8Second c.toNat (rest.getD 0 0).toNat = true) := by
  unfold runeWidth at hw
  by_cases h1 : c.toNat < 0xC2
  · left; simp [h1] at hw; omega
  by_cases h2 : c.toNat < 0xE0
  · simp only [h1, h2, if_true, if_false] at hw
    repeat' split at hw
    all_goals simp_all
    all_goals omega
  by_cases h3 : c.toNat < 0xF0
  · simp only [h1, h2, h3, if_true, if_false] at hw
    repeat' split at hw
    all_goals simp_all
    all_goals omega
  by_cases h4 : c.toNat < 0xF5
  · simp only [h1, h2, h3, h4, if_true, if_false] at hw
    repeat' split at hw
    all_goals simp_all
    all_goals omega
  · left; simp [h1, h2, h3, h4] at hw; omega

/-- on the rune of an ASCII byte (and on any rune value below 256) it is the model's byte predicate -/
theorem isValidHRPChar_byte (c : UInt8) :
    api.isValidHRPChar (BitVec.ofNat 32 c.toNat) = Bech32.isValidHRPChar c := by
  have hc : c.toNat < 256 := c.toNat_lt
  rw [isValidHRPChar_small _ (by rw [BitVec.toNat_ofNat]; omega), BitVec.toNat_ofNat,
    Nat.mod_eq_of_lt (by omega)]
  rfl

/-- on rune values below 256 the translated `isValidHRPChar` is the model's byte predicate … -/
theorem isValidHRPChar_lt256 (n : Nat) (hn : n < 256) :
    api.isValidHRPChar (BitVec.ofNat 32 n) = Bech32.isValidHRPChar (UInt8.ofNat n) := by
  have := isValidHRPChar_byte (UInt8.ofNat n)
  rwa [UInt8.toNat_ofNat', Nat.mod_eq_of_lt hn] at this

/-- … and on all rune values (an `int32`) it accepts exactly 33 … 126 -/
theorem isValidHRPChar_iff (r : BitVec 32) : api.isValidHRPChar r = true ↔ 33 ≤ r.toInt ∧ r.toInt ≤ 126 := by
  rw [isValidHRPChar_toInt]; simp

/-- an ASCII byte is the rune with that value -/
theorem runeValue_ascii (c : BitVec 8) (rest : List (BitVec 8)) (hc : c.toNat < 128) :
    runeValue (c :: rest) = BitVec.ofNat 32 c.toNat := by
  unfold runeValue
  rw [runeWidth_ascii c rest hc]
  simp [hc]

/-- what `utf8Second` says about the second byte of a sequence -/
theorem utf8Second_E0 (b0 b1 : Nat) (h : utf8Second b0 b1 = true) :
    b1 ≤ 0xBF ∧ 0x80 ≤ b1 ∧ (b0 = 0xE0 → 0xA0 ≤ b1) ∧ (b0 = 0xF0 → 0x90 ≤ b1) := by
  unfold utf8Second at h
  simp only [Bool.and_eq_true, decide_eq_true_eq] at h
  obtain ⟨hlo, hhi⟩ := h
  by_cases e0 : b0 = 0xE0
  · subst e0; simp at hlo hhi; omega
  by_cases f0 : b0 = 0xF0
  · subst f0; simp at hlo hhi; omega
  have e0' : (b0 == 0xE0) = false := by simpa using e0
  have f0' : (b0 == 0xF0) = false := by simpa using f0
  simp only [e0', f0', Bool.false_eq_true, if_false] at hlo
  refine ⟨?_, hlo, fun h => absurd h e0, fun h => absurd h f0⟩
  revert hhi
  split
  · intro; omega
  · split <;> intro <;> omega

/-- **a byte `≥ 0x80` at a rune start yields a rune `≥ 128`** (a decoded 2–4 byte sequence, or U+FFFD) -/
theorem runeValue_high (c : BitVec 8) (rest : List (BitVec 8)) (hc : 128 ≤ c.toNat) :
    127 < (runeValue (c :: rest)).toNat ∧ (runeValue (c :: rest)).toNat < 2 ^ 21 := by
  have hlt := c.isLt
  have g0 : (c :: rest).getD 0 0 = c := rfl
  have g1 : (c :: rest).getD 1 0 = rest.getD 0 0 := rfl
  rcases runeWidth_cases c rest _ rfl with h | ⟨h, h1, h2⟩ | ⟨h, h1, h2, h3⟩ | ⟨h, h1, h2, h3⟩
  · unfold runeValue
    rw [h]
    simp only [g0, if_neg (show ¬ c.toNat < 128 by omega)]
    decide
  · unfold runeValue
    rw [h]
    simp only [g0, BitVec.toNat_ofNat]
    omega
  · have := utf8Second_E0 _ _ h3
    unfold runeValue
    rw [h]
    simp only [g0, g1, BitVec.toNat_ofNat]
    omega
  · have := utf8Second_E0 _ _ h3
    unfold runeValue
    rw [h]
    simp only [g0, g1, BitVec.toNat_ofNat]
    omega

/-! ### `Decode` in stages -/

abbrev DRes := List (BitVec 8) × List (BitVec 8) × Option (String × Option (BitVec 64))

/-- `Decode` after the checksum test -/
def cB32 (hrp : List (BitVec 8)) (hrpLen : BitVec 64) (data : List (BitVec 8)) : Flow DRes DRes :=
  if !(Go.sliceOK 0#64 ((BitVec.ofNat 64 data.length) - 6#64) data.length) then Go.Flow.panic else
  let data : List (BitVec 8) := (data.take ((BitVec.ofNat 64 data.length) - 6#64).toNat)
  if !(Go.nonneg (base32.DecodedLen (BitVec.ofNat 64 data.length))) then Go.Flow.panic else
  let dst : List (BitVec 8) := (List.replicate (base32.DecodedLen (BitVec.ofNat 64 data.length)).toNat 0#8)
  Go.Flow.bind (Go.call (base32.Decode dst data)) (fun (st_4 : BitVec 64 × Option (String × BitVec 64) × List (BitVec 8)) =>
  let dst : List (BitVec 8) := st_4.2.2
  let err_3 : Option (String × Option (BitVec 64)) := (Go.errOfAt (Go.errQualAt "base32" st_4.2.1))
  if (err_3).isSome then
    if (err_3).isSome then
      Go.Flow.done (([] : List (BitVec 8)), ([] : List (BitVec 8)), (some ((Go.errName err_3), some ((hrpLen + 1#64) + (Go.errOff err_3)))))
    else
    Go.Flow.done (([] : List (BitVec 8)), ([] : List (BitVec 8)), err_3)
  else
  Go.Flow.done (hrp, dst, (none : Option (String × Option (BitVec 64)))))

/-- `Decode` after `s = strings.ToLower(s)` -/
def cChars (charset_decMap : List (BitVec 8)) (s : List (BitVec 8)) (hrpLen : BitVec 64) : Flow DRes DRes :=
  if !(Go.sliceOK 0#64 hrpLen s.length) then Go.Flow.panic else
  let hrp : List (BitVec 8) := (s.take hrpLen.toNat)
  if !(Go.sliceFromS (hrpLen + 1#64) s.length) then Go.Flow.panic else
  let chars_2 : List (BitVec 8) := (s.drop (hrpLen + 1#64).toNat)
  Go.Flow.bind (Go.call (chars.encoding_decode charset_decMap chars_2)) (fun (st_3 : List (BitVec 8) × Option String) =>
  let data : List (BitVec 8) := st_3.1
  let err_2 : Option (String × Option (BitVec 64)) := (Go.errOfPlain st_3.2)
  if (err_2).isSome then
    Go.Flow.done (([] : List (BitVec 8)), ([] : List (BitVec 8)), (some ("ErrInvalidCharacter", some ((hrpLen + 1#64) + (BitVec.ofNat 64 data.length)))))
  else
  if ((BitVec.slt (BitVec.ofNat 64 data.length) 6#64) || (!(bech32VerifyChecksum hrp data))) then
    Go.Flow.done (([] : List (BitVec 8)), ([] : List (BitVec 8)), (some ("ErrInvalidChecksum", some ((BitVec.ofNat 64 s.length) - 6#64))))
  else
  cB32 hrp hrpLen data)

/-- `Decode` from the call of `validateCase` on -/
def cCase (dm : List (BitVec 8)) (tl tu : List (BitVec 8) → List (BitVec 8)) (s : List (BitVec 8)) (hrpLen : BitVec 64) :
    Flow DRes DRes :=
  Go.Flow.bind (Go.call (api.validateCase tl tu s)) (fun (st_2 : Option (String × BitVec 64)) =>
  let err : Option (String × Option (BitVec 64)) := (Go.errOfAt st_2)
  if (err).isSome then
    Go.Flow.done (([] : List (BitVec 8)), ([] : List (BitVec 8)), err)
  else
  cChars dm (tl s) hrpLen)

/-- the body of the loop over the runes of the human-readable part -/
def hrpBody (_ : Unit) (rk_1 : BitVec 64 × BitVec 32) : Flow DRes Unit :=
  if (!(api.isValidHRPChar rk_1.2)) then
    Go.Flow.done (([] : List (BitVec 8)), ([] : List (BitVec 8)), (some ("ErrInvalidCharacter", some rk_1.1)))
  else
  Go.Flow.run ()

/-- the body of the loop over the bytes of the data part -/
def dataBody (s : List (BitVec 8)) (_ : Unit) (i : BitVec 64) : Flow DRes Unit :=
  if !(Go.inRangeS i s.length) then Go.Flow.panic else
  if (BitVec.ule 128#8 (s.getD i.toNat 0#8)) then
    Go.Flow.done (([] : List (BitVec 8)), ([] : List (BitVec 8)), (some ("ErrInvalidCharacter", some i)))
  else
  Go.Flow.run ()

/-- `Decode` from the second loop on -/
def cData (dm : List (BitVec 8)) (tl tu : List (BitVec 8) → List (BitVec 8)) (s : List (BitVec 8)) (hrpLen : BitVec 64) :
    Flow DRes DRes :=
  Go.Flow.bind (Go.forIn (Go.forUp true false (hrpLen + 1#64) (BitVec.ofNat 64 s.length) 1) () (dataBody s))
    (fun (_ : Unit) => cCase dm tl tu s hrpLen)

/-- `Decode` from the first loop on -/
def cHrp (dm : List (BitVec 8)) (tl tu : List (BitVec 8) → List (BitVec 8)) (s : List (BitVec 8)) (hrpLen : BitVec 64) :
    Flow DRes DRes :=
  Go.Flow.bind (Go.forIn (Go.runes (s.take hrpLen.toNat)) () hrpBody) (fun (_ : Unit) => cData dm tl tu s hrpLen)

theorem Decode_unfold (dm : List (BitVec 8)) (li : List (BitVec 8) → List (BitVec 8) → BitVec 64)
    (tl tu : List (BitVec 8) → List (BitVec 8)) (s : List (BitVec 8)) :
    api.Decode dm li tl tu s = Flow.result (
      if (BitVec.slt 90#64 (BitVec.ofNat 64 s.length)) then
        Go.Flow.done (([] : List (BitVec 8)), ([] : List (BitVec 8)), (some ("ErrInvalidLength", some 90#64)))
      else
      if (li s [49#8] == (BitVec.ofInt 64 (-1))) then
        Go.Flow.done (([] : List (BitVec 8)), ([] : List (BitVec 8)), (some ("ErrMissingSeparator", none)))
      else
      if ((BitVec.slt (li s [49#8]) 1#64) || (BitVec.slt (BitVec.ofNat 64 s.length) (li s [49#8] + 6#64))) then
        Go.Flow.done (([] : List (BitVec 8)), ([] : List (BitVec 8)), (some ("ErrInvalidSeparator", some (li s [49#8]))))
      else
      if !(Go.sliceOK 0#64 (li s [49#8]) s.length) then Go.Flow.panic else
      cHrp dm tl tu s (li s [49#8])) := rfl

/-! ### the model's `decode` in the same stages -/

section
open Iota.Bech32

/-- the model's `decode` after the checksum test -/
def mB32 (hrp : Str) (hrpLen : Nat) (payload : List UInt8) : Except Err (Str × List UInt8) :=
  match b32Decode payload with
  | .error (.invalidLength, off) => .error (.b32InvalidLength, some (hrpLen + 1 + off))
  | .error (.nonZeroPadding, off) => .error (.b32NonZeroPadding, some (hrpLen + 1 + off))
  | .ok dst => .ok (hrp, dst)

/-- … after lower-casing (`len` is the length of the string) -/
def mChars (len : Nat) (sl : Str) (hrpLen : Nat) : Except Err (Str × List UInt8) :=
  match charsetDecode (sl.drop (hrpLen + 1)) with
  | .error n => .error (.invalidCharacter, some (hrpLen + 1 + n))
  | .ok data =>
    if data.length < checksumLength ∨ !verifyChecksum (sl.take hrpLen) data then
      .error (.invalidChecksum, some (len - checksumLength))
    else mB32 (sl.take hrpLen) hrpLen (data.take (data.length - checksumLength))

def mCase (s : Str) (hrpLen : Nat) : Except Err (Str × List UInt8) :=
  match validateCase s with
  | some off => .error (.mixedCase, some off)
  | none => mChars s.length (lower s) hrpLen

def mData (s : Str) (hrpLen : Nat) : Except Err (Str × List UInt8) :=
  match (s.drop (hrpLen + 1)).findIdx? (fun c => decide (c.toNat ≥ 128)) with
  | some i => .error (.invalidCharacter, some (hrpLen + 1 + i))
  | none => mCase s hrpLen

def mHrp (s : Str) (hrpLen : Nat) : Except Err (Str × List UInt8) :=
  match (s.take hrpLen).findIdx? (fun c => !isValidHRPChar c) with
  | some i => .error (.invalidCharacter, some i)
  | none => mData s hrpLen

theorem decode_stages (s : Str) : Bech32.decode s =
    if s.length > maxStringLength then .error (.invalidLength, some maxStringLength)
    else match lastIndexSep s with
    | none => .error (.missingSeparator, none)
    | some hrpLen =>
      if hrpLen < 1 ∨ hrpLen + checksumLength > s.length then .error (.invalidSeparator, some hrpLen)
      else mHrp s hrpLen := rfl

end

/-! ### the last stages of `Decode`: base32, charset -/

/-- the outcome of the model's `decode` as the translated `Decode` represents it -/
def encDec : Except Bech32.Err (Bech32.Str × List UInt8) → DRes
  | .ok (hrp, d) => (bv hrp, bv d, none)
  | .error e => ([], [], encErr e)

theorem ofNat_sub_lit (k c : Nat) (h : c ≤ k) : BitVec.ofNat 64 k - BitVec.ofNat 64 c = BitVec.ofNat 64 (k - c) := by
  have : BitVec.ofNat 64 k = BitVec.ofNat 64 (k - c) + BitVec.ofNat 64 c := by
    rw [ofNat_add_lit, Nat.sub_add_cancel h]
  rw [this, BitVec.add_sub_cancel]

theorem sliceOK_ofNat (a b n : Nat) (hab : a ≤ b) (hbn : b ≤ n) (hn : n < 2 ^ 63) :
    sliceOK (BitVec.ofNat 64 a) (BitVec.ofNat 64 b) n = true := by
  simp [sliceOK, msb_ofNat_small a (by omega), msb_ofNat_small b (by omega), toNat_ofNat_lt a (by omega),
    toNat_ofNat_lt b (by omega), hab, hbn]

theorem sliceFromS_ofNat (a n : Nat) (han : a ≤ n) (hn : n < 2 ^ 63) : sliceFromS (BitVec.ofNat 64 a) n = true := by
  simp [sliceFromS, msb_ofNat_small a (by omega), toNat_ofNat_lt a (by omega), han]

theorem inRangeS_ofNat (a n : Nat) (han : a < n) (hn : n ≤ 2 ^ 63) : inRangeS (BitVec.ofNat 64 a) n = true :=
  Iota.Tie.Bech32CharsCode.inRangeS_ofNat a n han hn

theorem nonneg_ofNat (a : Nat) (ha : a < 2 ^ 63) : nonneg (BitVec.ofNat 64 a) = true := by
  simp [nonneg, msb_ofNat_small a ha]

theorem bv_take (n : Nat) (l : List UInt8) : (bv l).take n = bv (l.take n) := by simp [bv, List.map_take]
theorem bv_drop (n : Nat) (l : List UInt8) : (bv l).drop n = bv (l.drop n) := by simp [bv, List.map_drop]

theorem bv_inj {a b : List UInt8} (h : bv a = bv b) : a = b := by
  have := congrArg (List.map UInt8.ofBitVec) h
  rwa [ofBitVec_bv, ofBitVec_bv] at this

theorem cB32_eq (hrp data : List UInt8) (i : Nat) (h6 : 6 ≤ data.length) (hl : data.length * 5 < 2 ^ 63) :
    cB32 (bv hrp) (BitVec.ofNat 64 i) (bv data) = .done (encDec (mB32 hrp i (data.take (data.length - 6)))) := by
  have hpl : (data.take (data.length - 6)).length = data.length - 6 := by
    rw [List.length_take]; omega
  have hdl : (data.length - 6) * 5 < 2 ^ 63 := by omega
  unfold cB32
  rw [bv_length, ofNat_sub_lit _ _ h6, sliceOK_ofNat 0 _ _ (Nat.zero_le _) (Nat.sub_le _ _) (by omega),
    toNat_ofNat_lt _ (by omega), bv_take]
  simp only [Bool.not_true, Bool.false_eq_true, if_false, bv_length, hpl]
  rw [Base32Code.DecodedLen_eq _ hdl, nonneg_ofNat _ (by rw [Base32Code.decodedLen_def]; omega),
    toNat_ofNat_lt _ (by rw [Base32Code.decodedLen_def]; omega)]
  simp only [Bool.not_true, Bool.false_eq_true, if_false]
  have hfit : (Base32Code.decBytes (data.take (data.length - 6))).length ≤ (List.replicate (Bech32.decodedLen (data.length - 6)) 0#8).length := by
    rw [Base32Code.decBytes_length, List.length_replicate, hpl]; exact Base32Code.minDst_le _
  rw [Base32Code.decode_spec _ _ (by rw [hpl]; omega), if_pos hfit]
  unfold mB32
  cases hm : Bech32.b32Decode (data.take (data.length - 6)) with
  | ok bytes =>
    have hb := Base32Code.decBytes_of_ok _ 0 bytes hm
    have hlen := Base32Code.length_ok _ bytes hm
    rw [hpl] at hlen
    simp only [Go.call, Flow.bind_run, Base32Code.errOf, errQualAt, errOfAt, Option.map_none, Option.isSome_none,
      Bool.false_eq_true, if_false, encDec, hb]
    rw [← hlen, List.drop_of_length_le (by simp), List.append_nil]
  | error e =>
    obtain ⟨e, off⟩ := e
    cases e <;>
    simp only [Go.call, Flow.bind_run, Base32Code.errOf, errQualAt, errOfAt, Option.map_some, Option.isSome_some, if_true,
      Go.errName, Go.errOff, Option.getD_some, Option.bind_some, encDec, encErr, kindName, Base32Code.errName, ofNat_add_lit] <;> rfl


theorem cChars_eq (sl : List UInt8) (i : Nat) (hi : i + 6 ≤ sl.length) (hl : sl.length * 5 < 2 ^ 63) :
    cChars decTable (bv sl) (BitVec.ofNat 64 i) = .done (encDec (mChars sl.length sl i)) := by
  have hcl : (sl.drop (i + 1)).length = sl.length - (i + 1) := List.length_drop
  unfold cChars
  rw [bv_length, sliceOK_ofNat 0 i _ (Nat.zero_le _) (by omega) (by omega), ofNat_add_lit,
    sliceFromS_ofNat (i + 1) _ (by omega) (by omega), toNat_ofNat_lt i (by omega), toNat_ofNat_lt (i + 1) (by omega),
    bv_take, bv_drop]
  simp only [Bool.not_true, Bool.false_eq_true, if_false]
  rw [Bech32CharsCode.decode_eq _ (by omega)]
  unfold mChars
  cases hc : Bech32.charsetDecode (sl.drop (i + 1)) with
  | error m =>
    have hm := (Bech32CharsCode.charsetDecode_error _ m hc).1
    simp only [Go.call, Flow.bind_run, errOfPlain, Option.map_some, Option.isSome_some, if_true, bv_length,
      List.length_map, List.length_take, Nat.min_eq_left (Nat.le_of_lt hm), ofNat_add_lit, encDec, encErr, kindName,
      Option.map_some]
  | ok ds =>
    have hds : ds.length = sl.length - (i + 1) := by
      rw [(Bech32CharsCode.charsetDecode_ok _ ds hc).1, List.length_map, hcl]
    simp only [Go.call, Flow.bind_run, errOfPlain, Option.map_none, Option.isSome_none, Bool.false_eq_true, if_false,
      bv_length, slt_ofNat ds.length 6 (by omega) (by omega), Bech32Code.verifyChecksum_eq]
    by_cases hck : ds.length < Bech32.checksumLength ∨ (!Bech32.verifyChecksum (sl.take i) ds) = true
    · rw [if_pos hck, if_pos (by simpa [Bech32.checksumLength] using hck)]
      simp only [ofNat_sub_lit sl.length 6 (by omega), encDec, encErr, kindName, Option.map_some, Bech32.checksumLength]
    · rw [if_neg hck, if_neg (by simpa [Bech32.checksumLength] using hck)]
      have h6 : 6 ≤ ds.length := by simp [Bech32.checksumLength] at hck; omega
      exact cB32_eq (sl.take i) ds i h6 (by omega)

/-! ### `firstUpper`, `firstLower`, `validateCase` on ASCII strings -/

/-- a loop without state over consecutive offsets `a, a+1, …` that returns `R off` at the first offset whose element
satisfies `q` -/
theorem forIn_firstIdx {ρ : Type} (R : BitVec 64 → ρ) (q : UInt8 → Bool) (body : Unit → BitVec 64 → Flow ρ Unit) :
    ∀ (l : List UInt8) (a : Nat),
      (∀ k, k < l.length → body () (BitVec.ofNat 64 (a + k)) =
        if q (l.getD k 0) then .done (R (BitVec.ofNat 64 (a + k))) else .run ()) →
      forIn ((List.range' a l.length).map (BitVec.ofNat 64)) () body =
        match l.findIdx? q with
        | some j => .done (R (BitVec.ofNat 64 (a + j)))
        | none => .run () := by
  intro l
  induction l with
  | nil => intro a _; rfl
  | cons c cs ih =>
    intro a h
    rw [List.length_cons, List.range'_succ, List.map_cons, forIn_cons]
    have h0 := h 0 (by simp)
    rw [Nat.add_zero] at h0
    rw [h0, List.findIdx?_cons]
    simp only [List.getD_cons_zero]
    cases hq : q c
    · simp only [Bool.false_eq_true, if_false, Flow.bind_run]
      rw [ih (a + 1) (fun k hk => by
        have := h (k + 1) (by simp; omega)
        rw [List.getD_cons_succ, show a + (k + 1) = a + 1 + k by omega] at this
        exact this)]
      cases cs.findIdx? q with
      | none => rfl
      | some j => simp only [Option.map_some]; rw [show a + 1 + j = a + (j + 1) by omega]
    · simp

theorem bv_getD (l : List UInt8) (k : Nat) : (bv l).getD k 0#8 = (l.getD k 0).toBitVec :=
  Bech32CharsCode.getD_map UInt8.toBitVec l k 0

theorem getD_map_lt {α β : Type} (f : α → β) (l : List α) (k : Nat) (hk : k < l.length) (d : α) (d' : β) :
    (l.map f).getD k d' = f (l.getD k d) := by
  simp only [List.getD_eq_getElem?_getD, List.getElem?_map, List.getElem?_eq_getElem hk, Option.map_some,
    Option.getD_some]

theorem toBitVec_bne (x y : UInt8) : (x.toBitVec != y.toBitVec) = (x != y) := by
  by_cases h : x = y
  · subst h; rw [bne_self_eq_false, bne_self_eq_false]
  · have : x.toBitVec ≠ y.toBitVec := fun he => h (UInt8.toBitVec_inj.mp he)
    rw [bne_iff_ne.mpr h, bne_iff_ne.mpr this]

abbrev caseBody (other s : List (BitVec 8)) (_ : Unit) (i : BitVec 64) : Flow (BitVec 64) Unit :=
  if !(Go.inRangeS i other.length) then Go.Flow.panic else
  if ((other.getD i.toNat 0#8) != (s.getD i.toNat 0#8)) then Go.Flow.done i else Go.Flow.run ()

theorem firstUpper_unfold (tl : List (BitVec 8) → List (BitVec 8)) (s : List (BitVec 8)) :
    api.firstUpper tl s = Flow.result
      (Flow.bind (forIn (runeStarts s) () (caseBody (tl s) s)) fun _ => .done (BitVec.ofInt 64 (-1))) := rfl
theorem firstLower_unfold (tu : List (BitVec 8) → List (BitVec 8)) (s : List (BitVec 8)) :
    api.firstLower tu s = Flow.result
      (Flow.bind (forIn (runeStarts s) () (caseBody (tu s) s)) fun _ => .done (BitVec.ofInt 64 (-1))) := rfl

/-- the common loop of `firstUpper` / `firstLower` on an ASCII string: the first byte the mapping `f` changes -/
theorem case_loop (f : UInt8 → UInt8) (q : UInt8 → Bool) (hq : ∀ c, (f c != c) = q c) (s : List UInt8)
    (hascii : ∀ c ∈ s, c.toNat < 128) (hl : s.length < 2 ^ 63) :
    Flow.result (Flow.bind (forIn (runeStarts (bv s)) () (caseBody (bv (s.map f)) (bv s)))
      fun _ => .done (BitVec.ofInt 64 (-1))) = some (encIdx (s.findIdx? q)) := by
  have hstarts : runeStarts (bv s) = (List.range' 0 s.length).map (BitVec.ofNat 64) := by
    rw [Bech32CharsCode.runeStarts_all_ascii, bv_length, List.range_eq_range']
    intro b hb
    obtain ⟨c, hc, rfl⟩ := List.mem_map.mp hb
    exact hascii c hc
  rw [hstarts, forIn_firstIdx id q _ s 0]
  · cases s.findIdx? q with
    | none => rfl
    | some j => simp [encIdx]
  · intro k hk
    rw [Nat.zero_add]
    simp only [caseBody, bv_length, List.length_map, inRangeS_ofNat k _ hk (by omega), toNat_ofNat_lt k (by omega),
      bv_getD, getD_map_lt f s k hk 0 0, toBitVec_bne, hq, Bool.not_true, Bool.false_eq_true, if_false, id]


theorem lower_bne (c : UInt8) : (Bech32.toLowerAscii c != c) = Bech32.isUpperAscii c := by
  cases h : Bech32.isUpperAscii c
  · rw [Proofs.Bech32.lower_id_c c h, bne_self_eq_false]
  · exact bne_iff_ne.mpr (Proofs.Bech32.lower_ne_c c h)

theorem upper_bne (c : UInt8) : (Bech32.toUpperAscii c != c) = Bech32.isLowerAscii c := by
  cases h : Bech32.isLowerAscii c
  · rw [Proofs.Bech32.upper_id_c c h, bne_self_eq_false]
  · exact bne_iff_ne.mpr (Proofs.Bech32.upper_ne_c c h)

/-- **`firstUpper` on an ASCII string** is the model's (`none ↦ -1`); no panic -/
theorem firstUpper_eq (E : Externs) (s : List UInt8) (hascii : ∀ c ∈ s, c.toNat < 128) (hl : s.length < 2 ^ 63) :
    api.firstUpper E.toLower (bv s) = some (encIdx (Bech32.firstUpper s)) := by
  rw [firstUpper_unfold, E.lower_ascii s hascii]
  exact case_loop Bech32.toLowerAscii _ lower_bne s hascii hl

/-- **`firstLower` on an ASCII string** -/
theorem firstLower_eq (E : Externs) (s : List UInt8) (hascii : ∀ c ∈ s, c.toNat < 128) (hl : s.length < 2 ^ 63) :
    api.firstLower E.toUpper (bv s) = some (encIdx (Bech32.firstLower s)) := by
  rw [firstLower_unfold, E.upper_ascii s hascii]
  exact case_loop Bech32.toUpperAscii _ upper_bne s hascii hl

theorem validateCase_unfold (tl tu : List (BitVec 8) → List (BitVec 8)) (s : List (BitVec 8)) :
    api.validateCase tl tu s = Flow.result (
      Flow.bind (Go.call (api.firstUpper tl s)) fun upper =>
      Flow.bind (Go.call (api.firstLower tu s)) fun lower =>
      if ((BitVec.slt upper lower) && (BitVec.sle 0#64 upper)) then Flow.done (some ("ErrMixedCase", lower))
      else if ((BitVec.slt lower upper) && (BitVec.sle 0#64 lower)) then Flow.done (some ("ErrMixedCase", upper))
      else Flow.done (none : Option (String × BitVec 64))) := rfl

/-- `-1` for `none` -/
def idxInt : Option Nat → Int
  | some i => (i : Int)
  | none => -1

theorem encIdx_toInt (o : Option Nat) (h : ∀ i, o = some i → i < 2 ^ 63) : (encIdx o).toInt = idxInt o := by
  cases o with
  | none => rfl
  | some i => exact toInt_ofNat_small i (h i rfl)

/-- the comparison of the two indices in `validateCase` -/
theorem case_verdict (U L : Option Nat) (hU : ∀ i, U = some i → i < 2 ^ 63) (hL : ∀ i, L = some i → i < 2 ^ 63) :
    (if ((BitVec.slt (encIdx U) (encIdx L)) && (BitVec.sle 0#64 (encIdx U))) then
        (Flow.done (some ("ErrMixedCase", encIdx L)) : Flow (Option (String × BitVec 64)) (Option (String × BitVec 64)))
      else if ((BitVec.slt (encIdx L) (encIdx U)) && (BitVec.sle 0#64 (encIdx L))) then
        Flow.done (some ("ErrMixedCase", encIdx U))
      else Flow.done none).result =
    some ((match U, L with
      | some u, some l => if u < l then some l else if l < u then some u else none
      | _, _ => none).map fun off => ("ErrMixedCase", BitVec.ofNat 64 off)) := by
  simp only [BitVec.slt, BitVec.sle, encIdx_toInt U hU, encIdx_toInt L hL, BitVec.toInt_zero]
  cases U with
  | none =>
    cases L with
    | none => simp [idxInt]
    | some l =>
      have : ¬ ((l : Int) < -1) := by omega
      simp [idxInt, this]
  | some u =>
    cases L with
    | none =>
      have : ¬ ((u : Int) < -1) := by omega
      simp [idxInt, this]
    | some l =>
      simp only [idxInt, Int.ofNat_lt, Int.natCast_nonneg, decide_true, Bool.and_true, decide_eq_true_eq, encIdx]
      by_cases h1 : u < l
      · simp [h1]
      · by_cases h2 : l < u
        · simp [h1, h2]
        · simp [h1, h2]

/-- **`validateCase` on an ASCII string** is the model's; no panic -/
theorem validateCase_eq (E : Externs) (s : List UInt8) (hascii : ∀ c ∈ s, c.toNat < 128) (hl : s.length < 2 ^ 63) :
    api.validateCase E.toLower E.toUpper (bv s) =
      some ((Bech32.validateCase s).map fun off => ("ErrMixedCase", BitVec.ofNat 64 off)) := by
  rw [validateCase_unfold, firstUpper_eq E s hascii hl, firstLower_eq E s hascii hl]
  exact case_verdict _ _ (fun i h => Nat.lt_trans (Proofs.Bech32.findIdx_some_lt _ s i h) hl)
    (fun i h => Nat.lt_trans (Proofs.Bech32.findIdx_some_lt _ s i h) hl)

/-! ### the loop over the runes of the human-readable part -/

theorem valid_ascii {c : UInt8} (h : Bech32.isValidHRPChar c = true) : c.toNat < 128 := by
  have := (Proofs.Bech32.valid_iff_c c).mp h
  omega

/-- the rune at the start of `c :: rest` passes `isValidHRPChar` exactly when the byte `c` passes the model's test: a byte
`≥ 0x80` starts a rune `≥ 128` or yields U+FFFD -/
theorem isValidHRPChar_rune (c : UInt8) (rest : List (BitVec 8)) :
    api.isValidHRPChar (runeValue (c.toBitVec :: rest)) = Bech32.isValidHRPChar c := by
  by_cases hc : c.toNat < 128
  · rw [runeValue_ascii _ _ (by rwa [UInt8.toNat_toBitVec]), UInt8.toNat_toBitVec, isValidHRPChar_byte]
  · have hv := runeValue_high c.toBitVec rest (by rw [UInt8.toNat_toBitVec]; omega)
    rw [isValidHRPChar_small _ (by omega)]
    have h1 : ¬ ((runeValue (c.toBitVec :: rest)).toNat ≤ 126) := by omega
    have h2 : ¬ (c.toNat ≤ 126) := by omega
    simp [Bech32.isValidHRPChar, h1, h2]

/-- **`for i, c := range hrp { if !isValidHRPChar(c) { return … i … } }`**: the loop over the runes returns at the first
BYTE that fails the model's test, with its byte offset -/
theorem hrp_loop {ρ : Type} (R : BitVec 64 → ρ) (body : Unit → BitVec 64 × BitVec 32 → Flow ρ Unit)
    (hbody : ∀ rk, body () rk = if (!(api.isValidHRPChar rk.2)) then .done (R rk.1) else .run ()) :
    ∀ (p : List UInt8) (fuel off : Nat), p.length ≤ fuel →
      forIn (runesFrom fuel off (bv p)) () body =
        match p.findIdx? (fun c => !Bech32.isValidHRPChar c) with
        | some j => .done (R (BitVec.ofNat 64 (off + j)))
        | none => .run () := by
  intro p
  induction p with
  | nil => intro fuel off _; cases fuel <;> rfl
  | cons c cs ih =>
    intro fuel off hf
    obtain ⟨fuel, rfl⟩ : ∃ f, fuel = f + 1 := ⟨fuel - 1, by simp at hf; omega⟩
    rw [bv_cons]
    rw [show runesFrom (fuel + 1) off (c.toBitVec :: bv cs) =
      (BitVec.ofNat 64 off, runeValue (c.toBitVec :: bv cs)) ::
        runesFrom fuel (off + runeWidth (c.toBitVec :: bv cs)) ((c.toBitVec :: bv cs).drop (runeWidth (c.toBitVec :: bv cs)))
      from rfl, forIn_cons, hbody, isValidHRPChar_rune, List.findIdx?_cons]
    cases hv : Bech32.isValidHRPChar c
    · simp
    · have hw := runeWidth_ascii c.toBitVec (bv cs) (by rw [UInt8.toNat_toBitVec]; exact valid_ascii hv)
      simp only [Bool.not_true, Bool.false_eq_true, if_false, Flow.bind_run, hw, List.drop_succ_cons, List.drop_zero]
      rw [ih fuel (off + 1) (by simpa using hf)]
      cases cs.findIdx? (fun c => !Bech32.isValidHRPChar c) with
      | none => rfl
      | some j => simp only [Option.map_some]; rw [show off + 1 + j = off + (j + 1) by omega]

theorem runes_loop {ρ : Type} (R : BitVec 64 → ρ) (body : Unit → BitVec 64 × BitVec 32 → Flow ρ Unit)
    (hbody : ∀ rk, body () rk = if (!(api.isValidHRPChar rk.2)) then .done (R rk.1) else .run ()) (p : List UInt8) :
    forIn (runes (bv p)) () body =
      match p.findIdx? (fun c => !Bech32.isValidHRPChar c) with
      | some j => .done (R (BitVec.ofNat 64 j))
      | none => .run () := by
  have := hrp_loop R body hbody p (bv p).length 0 (by rw [bv_length]; exact Nat.le_refl _)
  simpa [runes] using this

/-! ### the middle stages of `Decode`: `validateCase`, the loop over the data part, the loop over the human-readable part -/

theorem cCase_eq (E : Externs) (s : List UInt8) (i : Nat) (hascii : ∀ c ∈ s, c.toNat < 128)
    (hi : i + 6 ≤ s.length) (hl : s.length * 5 < 2 ^ 63) :
    cCase decTable E.toLower E.toUpper (bv s) (BitVec.ofNat 64 i) = .done (encDec (mCase s i)) := by
  unfold cCase mCase
  rw [validateCase_eq E s hascii (by omega)]
  cases Bech32.validateCase s with
  | some off =>
    simp only [Go.call, Flow.bind_run, Option.map_some, errOfAt, Option.isSome_some, if_true, encDec, encErr, kindName]
  | none =>
    simp only [Go.call, Flow.bind_run, Option.map_none, errOfAt, Option.isSome_none, Bool.false_eq_true, if_false]
    rw [E.lower_ascii s hascii]
    have := cChars_eq (Bech32.lower s) i (by rw [Proofs.Bech32.lower_length]; exact hi)
      (by rw [Proofs.Bech32.lower_length]; exact hl)
    rw [Proofs.Bech32.lower_length] at this
    exact this

/-- `for i := a; i < b; i++` on `int`, `0 ≤ a < b` -/
theorem forUp_lt (a b : Nat) (hab : a < b) (hb : b < 2 ^ 63) :
    forUp true false (BitVec.ofNat 64 a) (BitVec.ofNat 64 b) 1 = (List.range' a (b - a)).map (BitVec.ofNat 64) := by
  rw [forUp_int false a b 1 (by simpa using hab) hb, List.range'_eq_map_range, List.map_map]
  simp only [Bool.false_eq_true, if_false, Nat.add_sub_cancel, Nat.div_one, Nat.mul_one]
  rfl

theorem ule_128 (x : UInt8) : BitVec.ule 128#8 x.toBitVec = decide (x.toNat ≥ 128) := by
  simp [BitVec.ule, UInt8.toNat_toBitVec]

theorem getD_drop (l : List UInt8) (n k : Nat) : (l.drop n).getD k 0 = l.getD (n + k) 0 := by
  simp only [List.getD_eq_getElem?_getD, List.getElem?_drop]

theorem cData_eq (E : Externs) (s : List UInt8) (i : Nat) (hhrp : ∀ c ∈ s.take i, c.toNat < 128)
    (hsplit : s = s.take i ++ [Bech32.separator] ++ s.drop (i + 1))
    (hi : i + 6 ≤ s.length) (hl : s.length * 5 < 2 ^ 63) :
    cData decTable E.toLower E.toUpper (bv s) (BitVec.ofNat 64 i) = .done (encDec (mData s i)) := by
  unfold cData mData
  have hdl : (s.drop (i + 1)).length = s.length - (i + 1) := List.length_drop
  rw [bv_length, ofNat_add_lit, forUp_lt (i + 1) s.length (by omega) (by omega), ← hdl,
    forIn_firstIdx (fun off => (([] : List (BitVec 8)), ([] : List (BitVec 8)), some ("ErrInvalidCharacter", some off)))
      (fun c => decide (c.toNat ≥ 128)) (dataBody (bv s)) (s.drop (i + 1)) (i + 1)]
  · cases hf : (s.drop (i + 1)).findIdx? (fun c => decide (c.toNat ≥ 128)) with
    | some j => simp only [Flow.bind_done, encDec, encErr, kindName, Option.map_some]
    | none =>
      simp only [Flow.bind_run]
      refine cCase_eq E s i ?_ hi hl
      intro c hc
      rw [hsplit] at hc
      simp only [List.mem_append, List.mem_singleton] at hc
      rcases hc with (hc | hc) | hc
      · exact hhrp c hc
      · subst hc; decide
      · have := (Proofs.Bech32.findIdx_none_iff _ _).mp hf c hc
        simpa using this
  · intro k hk
    rw [hdl] at hk
    simp only [dataBody, bv_length, inRangeS_ofNat (i + 1 + k) s.length (by omega) (by omega),
      toNat_ofNat_lt (i + 1 + k) (by omega), bv_getD, ule_128, getD_drop, Bool.not_true, Bool.false_eq_true, if_false]

theorem cHrp_eq (E : Externs) (s : List UInt8) (i : Nat)
    (hsplit : s = s.take i ++ [Bech32.separator] ++ s.drop (i + 1))
    (hi : i + 6 ≤ s.length) (hl : s.length * 5 < 2 ^ 63) :
    cHrp decTable E.toLower E.toUpper (bv s) (BitVec.ofNat 64 i) = .done (encDec (mHrp s i)) := by
  unfold cHrp mHrp
  rw [toNat_ofNat_lt i (by omega), bv_take,
    runes_loop (fun off => (([] : List (BitVec 8)), ([] : List (BitVec 8)), some ("ErrInvalidCharacter", some off)))
      hrpBody (fun _ => rfl)]
  cases hf : (s.take i).findIdx? (fun c => !Bech32.isValidHRPChar c) with
  | some j => simp only [Flow.bind_done, encDec, encErr, kindName, Option.map_some]
  | none =>
    simp only [Flow.bind_run]
    refine cData_eq E s i ?_ hsplit hi hl
    intro c hc
    have := (Proofs.Bech32.findIdx_none_iff _ _).mp hf c hc
    exact valid_ascii (by simpa using this)

/-! ### **`Decode`, all byte strings** -/

theorem ofNat_beq_neg1 (i : Nat) (hi : i < 2 ^ 63) : (BitVec.ofNat 64 i == BitVec.ofInt 64 (-1)) = false := by
  apply beq_eq_false_iff_ne.mpr
  intro he
  have := congrArg BitVec.toNat he
  rw [toNat_ofNat_lt i (by omega)] at this
  have h1 : (BitVec.ofInt 64 (-1)).toNat = 2 ^ 64 - 1 := by decide
  omega

/-- **`Decode` on ALL byte strings** (of a length Go can represent) is the model's `decode` -/
theorem decode_enc (E : Externs) (s : List UInt8) (hlen : s.length < 2 ^ 63) :
    api.Decode decTable E.lastIndex E.toLower E.toUpper (bv s) = some (encDec (Bech32.decode s)) := by
  rw [Decode_unfold, decode_stages, bv_length, slt_ofNat 90 s.length (by omega) hlen]
  by_cases h90 : s.length > Bech32.maxStringLength
  · rw [if_pos h90, if_pos (by simpa [Bech32.maxStringLength] using h90)]
    rfl
  · rw [if_neg h90, if_neg (by simpa [Bech32.maxStringLength] using h90)]
    have hn : s.length ≤ 90 := by simpa [Bech32.maxStringLength] using h90
    rw [E.lastIndex_sep s (by omega)]
    cases hli : Bech32.lastIndexSep s with
    | none => rfl
    | some i =>
      obtain ⟨hilt, hsplit, _⟩ := Proofs.Bech32.lastIndexSep_some s i hli
      simp only [ofNat_beq_neg1 i (by omega), Bool.false_eq_true, if_false, ofNat_add_lit,
        slt_ofNat i 1 (by omega) (by omega), slt_ofNat s.length (i + 6) (by omega) (by omega)]
      by_cases hsep : i < 1 ∨ i + Bech32.checksumLength > s.length
      · rw [if_pos hsep, if_pos (by simpa [Bech32.checksumLength] using hsep)]
        rfl
      · rw [if_neg hsep, if_neg (by simpa [Bech32.checksumLength] using hsep)]
        have hi : i + 6 ≤ s.length := by simp [Bech32.checksumLength] at hsep; omega
        rw [sliceOK_ofNat 0 i s.length (Nat.zero_le _) (by omega) (by omega)]
        simp only [Bool.not_true, Bool.false_eq_true, if_false]
        rw [cHrp_eq E s i hsplit hi (by omega)]
        rfl

/-- **`Decode`, all byte strings**, in full -/
theorem Decode_eq (E : Externs) (s : List UInt8) (hlen : s.length < 2 ^ 63) :
    api.Decode decTable E.lastIndex E.toLower E.toUpper (bv s) =
      some (match Bech32.decode s with
        | .ok (hrp, d) => (bv hrp, bv d, none)
        | .error e => ([], [], encErr e)) := by
  rw [decode_enc E s hlen]
  cases Bech32.decode s with
  | ok r => rfl
  | error e => rfl

/-- **the generated `Decode` never panics** -/
theorem decode_never_panics (E : Externs) (s : List UInt8) (hlen : s.length < 2 ^ 63) :
    api.Decode decTable E.lastIndex E.toLower E.toUpper (bv s) ≠ none := by
  rw [decode_enc E s hlen]
  exact fun h => nomatch h

/-! ### `Encode` in stages -/

abbrev ERes := List (BitVec 8) × Option (String × Option (BitVec 64))

/-- the body of the loop over the runes of `hrp` in `Encode` -/
def eHrpBody (_ : Unit) (rk_1 : BitVec 64 × BitVec 32) : Flow ERes Unit :=
  if (!(api.isValidHRPChar rk_1.2)) then
    Go.Flow.done (([] : List (BitVec 8)), (some ("ErrInvalidCharacter", none)))
  else
  Go.Flow.run ()

/-- `Encode` after `hrpLower := strings.ToLower(hrp)` -/
def eTail (charset_enc : List (BitVec 8)) (strings_ToUpper : List (BitVec 8) → List (BitVec 8))
    (hrp hrpLower src : List (BitVec 8)) (dataLen : BitVec 64) : Flow ERes ERes :=
  if !(Go.nonneg ((base32.EncodedLen (BitVec.ofNat 64 src.length)) + 6#64)) then Go.Flow.panic else
  let data : List (BitVec 8) := (List.replicate ((base32.EncodedLen (BitVec.ofNat 64 src.length)) + 6#64).toNat 0#8)
  Go.Flow.bind (Go.call (base32.Encode data src)) (fun (st_3 : BitVec 64 × List (BitVec 8)) =>
  let data : List (BitVec 8) := st_3.2
  if !(Go.sliceOK 0#64 dataLen data.length) then Go.Flow.panic else
  if !(Go.sliceFromS dataLen data.length) then Go.Flow.panic else
  let data : List (BitVec 8) := (data.take dataLen.toNat ++ Go.copy (data.drop dataLen.toNat) (bech32CreateChecksum hrpLower (data.take dataLen.toNat)))
  Go.Flow.bind (Go.call (chars.encoding_encode charset_enc data)) (fun (st_4 : List (BitVec 8)) =>
  let chars_2 : List (BitVec 8) := st_4
  let res : List (BitVec 8) := ([] : List (BitVec 8))
  let res : List (BitVec 8) := (res ++ hrp)
  let res : List (BitVec 8) := (res ++ [49#8])
  let res : List (BitVec 8) := (res ++ chars_2)
  if (hrp == hrpLower) then
    Go.Flow.done (res, (none : Option (String × Option (BitVec 64))))
  else
  Go.Flow.done ((strings_ToUpper res), (none : Option (String × Option (BitVec 64))))))

/-- `Encode` from the call of `validateCase` on -/
def eCase (ce : List (BitVec 8)) (tl tu : List (BitVec 8) → List (BitVec 8)) (hrp src : List (BitVec 8))
    (dataLen : BitVec 64) : Flow ERes ERes :=
  Go.Flow.bind (Go.call (api.validateCase tl tu hrp)) (fun (st_2 : Option (String × BitVec 64)) =>
  let err : Option (String × Option (BitVec 64)) := (Go.errOfAt st_2)
  if (err).isSome then
    Go.Flow.done (([] : List (BitVec 8)), err)
  else
  eTail ce tu hrp (tl hrp) src dataLen)

theorem Encode_unfold (ce : List (BitVec 8)) (tl tu : List (BitVec 8) → List (BitVec 8)) (hrp src : List (BitVec 8)) :
    api.Encode ce tl tu hrp src = Flow.result (
      if (BitVec.slt 90#64 ((((BitVec.ofNat 64 hrp.length) + base32.EncodedLen (BitVec.ofNat 64 src.length)) + 6#64) + 1#64)) then
        Go.Flow.done (([] : List (BitVec 8)), (some ("ErrInvalidLength", none)))
      else
      if (BitVec.slt (BitVec.ofNat 64 hrp.length) 1#64) then
        Go.Flow.done (([] : List (BitVec 8)), (some ("ErrInvalidLength", none)))
      else
      Go.Flow.bind (Go.forIn (Go.runes hrp) () eHrpBody) (fun (_ : Unit) =>
      eCase ce tl tu hrp src (base32.EncodedLen (BitVec.ofNat 64 src.length)))) := rfl

section
open Iota.Bech32

/-- the model's `encode` after the case check -/
def mTail (hrp : Str) (src : List UInt8) : Except Err Str :=
  let hrpLower := lower hrp
  let data := b32Encode src
  let chars := charsetEncode (data ++ createChecksum hrpLower data)
  let res := hrp ++ [separator] ++ chars
  if hrp = hrpLower then .ok res else .ok (upper res)

def mECase (hrp : Str) (src : List UInt8) : Except Err Str :=
  match validateCase hrp with
  | some off => .error (.mixedCase, some off)
  | none => mTail hrp src

theorem encode_stages (hrp : Str) (src : List UInt8) : Bech32.encode hrp src =
    if hrp.length + encodedLen src.length + checksumLength + 1 > maxStringLength then .error (.invalidLength, none)
    else if hrp.length < 1 then .error (.invalidLength, none)
    else if !hrp.all isValidHRPChar then .error (.invalidCharacter, none)
    else mECase hrp src := rfl

end

/-- the outcome of the model's `encode` as the translated `Encode` represents it -/
def encEnc : Except Bech32.Err Bech32.Str → ERes
  | .ok r => (bv r, none)
  | .error e => ([], encErr e)

theorem charset_ascii_lt : ∀ n : Nat, n < 32 → (Bech32.charset.getD n 0).toNat < 128 := by decide

theorem charset_ascii (n : Nat) : (Bech32.charset.getD n 0).toNat < 128 := by
  by_cases h : n < 32
  · exact charset_ascii_lt n h
  · have hlen : Bech32.charset.length ≤ n := by simp [Bech32.charset]; omega
    rw [List.getD_eq_getElem?_getD, List.getElem?_eq_none hlen]; decide

theorem charsetEncode_ascii (syms : List UInt8) : ∀ c ∈ Bech32.charsetEncode syms, c.toNat < 128 := by
  intro c hc
  obtain ⟨s, _, rfl⟩ := List.mem_map.mp hc
  exact charset_ascii _

theorem eTail_eq (E : Externs) (hrp src : List UInt8) (hascii : ∀ c ∈ hrp, c.toNat < 128)
    (hs : src.length < 2 ^ 60) :
    eTail encTable E.toUpper (bv hrp) (bv (Bech32.lower hrp)) (bv src) (BitVec.ofNat 64 (Bech32.encodedLen src.length)) =
      .done (encEnc (mTail hrp src)) := by
  have hel : Bech32.encodedLen src.length < 2 ^ 62 := by unfold Bech32.encodedLen; omega
  have hD := Proofs.Base32.b32Encode_length src
  have hC := Proofs.Bech32.createChecksum_spec (Bech32.lower hrp) (Bech32.b32Encode src)
  unfold eTail
  rw [bv_length, Base32Code.EncodedLen_eq _ hs, ofNat_add_lit, nonneg_ofNat _ (by omega), toNat_ofNat_lt _ (by omega),
    toNat_ofNat_lt _ (by omega)]
  simp only [Bool.not_true, Bool.false_eq_true, if_false]
  rw [Base32Code.encode_eq _ src hs (by simp)]
  simp only [Go.call, Flow.bind_run]
  have hlen : (bv (Bech32.b32Encode src) ++ (List.replicate (Bech32.encodedLen src.length + 6) 0#8).drop
      (Bech32.encodedLen src.length)).length = Bech32.encodedLen src.length + 6 := by
    simp [bv_length, hD]
  have htake : (bv (Bech32.b32Encode src) ++ (List.replicate (Bech32.encodedLen src.length + 6) 0#8).drop
      (Bech32.encodedLen src.length)).take (Bech32.encodedLen src.length) = bv (Bech32.b32Encode src) :=
    List.take_left' (by rw [bv_length, hD])
  have hdrop : (bv (Bech32.b32Encode src) ++ (List.replicate (Bech32.encodedLen src.length + 6) 0#8).drop
      (Bech32.encodedLen src.length)).drop (Bech32.encodedLen src.length) = List.replicate 6 0#8 := by
    rw [List.drop_left' (by rw [bv_length, hD])]; simp
  have hcopy : Go.copy (List.replicate 6 0#8) (bv (Bech32.createChecksum (Bech32.lower hrp) (Bech32.b32Encode src))) =
      bv (Bech32.createChecksum (Bech32.lower hrp) (Bech32.b32Encode src)) := by
    unfold Go.copy
    rw [List.length_replicate, bv_length, hC.1, List.take_of_length_le (by rw [bv_length, hC.1]; exact Nat.le_refl _),
      List.drop_of_length_le (by simp), List.append_nil]
  rw [hlen, sliceOK_ofNat 0 _ _ (Nat.zero_le _) (by omega) (by omega), sliceFromS_ofNat _ _ (by omega) (by omega),
    htake, hdrop, Bech32Code.createChecksum_eq, hcopy, ← bv_append]
  simp only [Bool.not_true, Bool.false_eq_true, if_false]
  rw [Bech32CharsCode.encode_ok _ (by simp [hD, hC.1]; omega) (by
    intro s hs
    rcases List.mem_append.mp hs with h | h
    · exact Proofs.Base32.b32Encode_lt src s h
    · exact hC.2 s h)]
  simp only [Flow.bind_run, List.nil_append]
  have hres : bv hrp ++ [49#8] ++ bv (Bech32.charsetEncode (Bech32.b32Encode src ++
      Bech32.createChecksum (Bech32.lower hrp) (Bech32.b32Encode src))) =
      bv (hrp ++ [Bech32.separator] ++ Bech32.charsetEncode (Bech32.b32Encode src ++
        Bech32.createChecksum (Bech32.lower hrp) (Bech32.b32Encode src))) := by
    rw [bv_append, bv_append]; rfl
  rw [hres]
  unfold mTail
  by_cases hlow : hrp = Bech32.lower hrp
  · rw [if_pos (by rw [← hlow]; exact beq_self_eq_true _)]
    simp only [if_pos hlow, encEnc]
  · rw [if_neg (by
      intro h
      exact hlow (bv_inj (eq_of_beq h)))]
    simp only [if_neg hlow, encEnc]
    rw [E.upper_ascii]
    intro c hc
    simp only [List.mem_append, List.mem_singleton] at hc
    rcases hc with (hc | hc) | hc
    · exact hascii c hc
    · subst hc; decide
    · exact charsetEncode_ascii _ c hc

/-! ### **`Encode`** -/

theorem eCase_eq (E : Externs) (hrp src : List UInt8) (hascii : ∀ c ∈ hrp, c.toNat < 128) (hh : hrp.length < 2 ^ 63)
    (hs : src.length < 2 ^ 60) :
    eCase encTable E.toLower E.toUpper (bv hrp) (bv src) (BitVec.ofNat 64 (Bech32.encodedLen src.length)) =
      .done (encEnc (mECase hrp src)) := by
  unfold eCase mECase
  rw [validateCase_eq E hrp hascii hh]
  cases Bech32.validateCase hrp with
  | some off =>
    simp only [Go.call, Flow.bind_run, Option.map_some, errOfAt, Option.isSome_some, if_true, encEnc, encErr, kindName]
  | none =>
    simp only [Go.call, Flow.bind_run, Option.map_none, errOfAt, Option.isSome_none, Bool.false_eq_true, if_false]
    rw [E.lower_ascii hrp hascii]
    exact eTail_eq E hrp src hascii hs

/-- **`Encode`** is the model's `encode`, as long as the length test at its top is evaluated without overflow -/
theorem encode_enc (E : Externs) (hrp src : List UInt8) (hs : src.length < 2 ^ 60)
    (hsum : hrp.length + Bech32.encodedLen src.length + 7 < 2 ^ 63) :
    api.Encode encTable E.toLower E.toUpper (bv hrp) (bv src) = some (encEnc (Bech32.encode hrp src)) := by
  rw [Encode_unfold, encode_stages, bv_length, bv_length, Base32Code.EncodedLen_eq _ hs, ofNat_add_lit, ofNat_add_lit,
    ofNat_add_lit, slt_ofNat 90 _ (by omega) (by omega), slt_ofNat hrp.length 1 (by omega) (by omega)]
  by_cases h1 : hrp.length + Bech32.encodedLen src.length + Bech32.checksumLength + 1 > Bech32.maxStringLength
  · rw [if_pos h1, if_pos (by simpa [Bech32.checksumLength, Bech32.maxStringLength] using h1)]
    rfl
  rw [if_neg h1, if_neg (by simpa [Bech32.checksumLength, Bech32.maxStringLength] using h1)]
  by_cases h2 : hrp.length < 1
  · rw [if_pos h2, if_pos (by simpa using h2)]
    rfl
  rw [if_neg h2, if_neg (by simpa using h2),
    runes_loop (fun _ => (([] : List (BitVec 8)), some ("ErrInvalidCharacter", (none : Option (BitVec 64)))))
      eHrpBody (fun _ => rfl)]
  cases hf : hrp.findIdx? (fun c => !Bech32.isValidHRPChar c) with
  | some j =>
    have hall : (!hrp.all Bech32.isValidHRPChar) = true := by
      cases ha : hrp.all Bech32.isValidHRPChar
      · rfl
      · have : hrp.findIdx? (fun c => !Bech32.isValidHRPChar c) = none :=
          (Proofs.Bech32.findIdx_none_iff _ _).mpr (fun c hc => by simp [List.all_eq_true.mp ha c hc])
        rw [this] at hf; cases hf
    rw [if_pos hall]
    rfl
  | none =>
    have hvalid : ∀ c ∈ hrp, Bech32.isValidHRPChar c = true := by
      intro c hc
      simpa using (Proofs.Bech32.findIdx_none_iff _ _).mp hf c hc
    have hall : ¬ ((!hrp.all Bech32.isValidHRPChar) = true) := by
      rw [List.all_eq_true.mpr hvalid]; simp
    rw [if_neg hall]
    simp only [Flow.bind_run]
    rw [eCase_eq E hrp src (fun c hc => valid_ascii (hvalid c hc)) (by omega) hs]
    rfl

/-- **`Encode`**, in full -/
theorem Encode_eq (E : Externs) (hrp src : List UInt8) (hs : src.length < 2 ^ 60)
    (hsum : hrp.length + Bech32.encodedLen src.length + 7 < 2 ^ 63) :
    api.Encode encTable E.toLower E.toUpper (bv hrp) (bv src) =
      some (match Bech32.encode hrp src with
        | .ok r => (bv r, none)
        | .error e => ([], encErr e)) := by
  rw [encode_enc E hrp src hs hsum]
  cases Bech32.encode hrp src <;> rfl

/-- the same for `len(hrp) < 2^62`, `len(src) < 2^60` -/
theorem Encode_eq' (E : Externs) (hrp src : List UInt8) (hh : hrp.length < 2 ^ 62) (hs : src.length < 2 ^ 60) :
    api.Encode encTable E.toLower E.toUpper (bv hrp) (bv src) =
      some (match Bech32.encode hrp src with
        | .ok r => (bv r, none)
        | .error e => ([], encErr e)) :=
  Encode_eq E hrp src hs (by unfold Bech32.encodedLen; omega)

/-- **the generated `Encode` does not panic** under these bounds -/
theorem encode_never_panics (E : Externs) (hrp src : List UInt8) (hh : hrp.length < 2 ^ 62) (hs : src.length < 2 ^ 60) :
    api.Encode encTable E.toLower E.toUpper (bv hrp) (bv src) ≠ none := by
  rw [Encode_eq' E hrp src hh hs]
  exact fun h => nomatch h

/-! ### every argument; sharpness of the bound on `src` -/

/-- `bv` is onto: the statements about `bv s` cover every argument of the generated functions -/
theorem decode_never_panics_bits (E : Externs) (l : List (BitVec 8)) (hlen : l.length < 2 ^ 63) :
    api.Decode decTable E.lastIndex E.toLower E.toUpper l ≠ none := by
  have := decode_never_panics E (l.map UInt8.ofBitVec) (by simpa using hlen)
  rwa [bv_ofBitVec] at this

theorem encode_never_panics_bits (E : Externs) (hrp src : List (BitVec 8)) (hh : hrp.length < 2 ^ 62)
    (hs : src.length < 2 ^ 60) : api.Encode encTable E.toLower E.toUpper hrp src ≠ none := by
  have := encode_never_panics E (hrp.map UInt8.ofBitVec) (src.map UInt8.ofBitVec) (by simpa using hh) (by simpa using hs)
  rwa [bv_ofBitVec, bv_ofBitVec] at this

/-- **the bound on `src` is sharp**: for a (hypothetical) `src` of `2^60` bytes `base32.EncodedLen(len(src))` overflows to a
negative `int`, the length test at the top of `Encode` passes, and `make([]uint8, EncodedLen(len(src))+6)` panics -/
theorem encode_panics_at_2_60 (E : Externs) (src : List UInt8) (hs : src.length = 2 ^ 60) :
    api.Encode encTable E.toLower E.toUpper (bv [97]) (bv src) = none := by
  have hv : ∀ c ∈ ([97] : List UInt8), c.toNat < 128 := by decide
  rw [Encode_unfold, bv_length, bv_length, hs,
    runes_loop (fun _ => (([] : List (BitVec 8)), some ("ErrInvalidCharacter", (none : Option (BitVec 64)))))
      eHrpBody (fun _ => rfl)]
  rw [if_neg (by decide), if_neg (by decide)]
  rw [show ([97] : List UInt8).findIdx? (fun c => !Bech32.isValidHRPChar c) = none by decide]
  simp only [Flow.bind_run]
  unfold eCase
  rw [validateCase_eq E [97] hv (by decide)]
  rw [show Bech32.validateCase [97] = none by decide]
  simp only [Go.call, Flow.bind_run, Option.map_none, errOfAt, Option.isSome_none, Bool.false_eq_true, if_false]
  unfold eTail
  rw [bv_length, hs, if_pos (by decide)]
  rfl

/-! ### non-vacuity: the generated functions evaluated with the concrete library functions `Externs.model` -/

/-- the generated functions with the concrete library functions `Externs.model` -/
abbrev DecodeM (s : List (BitVec 8)) := api.Decode decTable Externs.model.lastIndex Externs.model.toLower Externs.model.toUpper s
abbrev EncodeM (hrp src : List (BitVec 8)) := api.Encode encTable Externs.model.toLower Externs.model.toUpper hrp src

/-- "a12uel5l" (BIP-173 test vector): hrp "a", no data -/
example : DecodeM (bv [97, 49, 50, 117, 101, 108, 53, 108]) = some (bv [97], [], none) := by decide +kernel

/-- "A12UEL5L": the same, lower-cased -/
example : DecodeM (bv [65, 49, 50, 85, 69, 76, 53, 76]) = some (bv [97], [], none) := by decide +kernel

/-- "A12uEL5L": mixed case, reported at the first lower-case letter after the upper-case `A` (offset 3) -/
example : DecodeM (bv [65, 49, 50, 117, 69, 76, 53, 76]) = some ([], [], some ("ErrMixedCase", some 3#64)) := by
  decide +kernel

/-- "é1qqqqqq" (bytes C3 A9 31 71…): the rune U+00E9 is rejected at byte offset 0 -/
example : DecodeM (bv [0xC3, 0xA9, 49, 113, 113, 113, 113, 113, 113]) =
    some ([], [], some ("ErrInvalidCharacter", some 0#64)) := by decide +kernel

/-- "a\x801qqqqqq": an ill-formed byte (U+FFFD) after a valid one: offset 1 -/
example : DecodeM (bv [97, 0x80, 49, 113, 113, 113, 113, 113, 113]) =
    some ([], [], some ("ErrInvalidCharacter", some 1#64)) := by decide +kernel

/-- `Encode("a", nil) = "a12uel5l"` -/
example : EncodeM (bv [97]) [] = some (bv [97, 49, 50, 117, 101, 108, 53, 108], none) := by decide +kernel

/-- `Encode("A", nil) = "A12UEL5L"`: an upper-case `hrp` gives an upper-case string (`strings.ToUpper`) -/
example : EncodeM (bv [65]) [] = some (bv [65, 49, 50, 85, 69, 76, 53, 76], none) := by decide +kernel

/-- `Encode("aB", nil)`: mixed case, offset of the first upper-case letter after the lower-case one -/
example : EncodeM (bv [97, 66]) [] = some ([], some ("ErrMixedCase", some 1#64)) := by decide +kernel

/-- "abcdef1qpzry9x8gf2tvdw0s3jn54khce6mua7lmqqqxw" (BIP-173): the 32 symbols 0 … 31 are the 20 bytes 00 44 32 14 … -/
example : DecodeM (bv [97, 98, 99, 100, 101, 102, 49, 113, 112, 122, 114, 121, 57, 120, 56, 103, 102, 50, 116, 118, 100, 119, 48, 115, 51, 106, 110, 53, 52, 107, 104, 99, 101, 54, 109, 117, 97, 55, 108, 109, 113, 113, 113, 120, 119]) =
    some (bv [97, 98, 99, 100, 101, 102], bv [0, 68, 50, 20, 199, 66, 84, 182, 53, 207, 132, 101, 58, 86, 215, 198, 117, 190, 119, 223], none) := by decide +kernel

example : EncodeM (bv [97, 98, 99, 100, 101, 102]) (bv [0, 68, 50, 20, 199, 66, 84, 182, 53, 207, 132, 101, 58, 86, 215, 198, 117, 190, 119, 223]) =
    some (bv [97, 98, 99, 100, 101, 102, 49, 113, 112, 122, 114, 121, 57, 120, 56, 103, 102, 50, 116, 118, 100, 119, 48, 115, 51, 106, 110, 53, 52, 107, 104, 99, 101, 54, 109, 117, 97, 55, 108, 109, 113, 113, 113, 120, 119], none) := by decide +kernel

/-- the last character changed: `ErrInvalidChecksum` at `len(s) - 6` -/
example : DecodeM (bv [97, 98, 99, 100, 101, 102, 49, 113, 112, 122, 114, 121, 57, 120, 56, 103, 102, 50, 116, 118, 100, 119, 48, 115, 51, 106, 110, 53, 52, 107, 104, 99, 101, 54, 109, 117, 97, 55, 108, 109, 113, 113, 113, 120, 113]) = some ([], [], some ("ErrInvalidChecksum", some 39#64)) := by
  decide +kernel

/-- "a1pv7wwwr": a valid checksum over ONE data symbol: `base32.ErrInvalidLength` through the `errors.As` branch, offset
`hrpLen + 1 + 0` -/
example : DecodeM (bv [97, 49, 112, 118, 55, 119, 119, 119, 114]) = some ([], [], some ("base32.ErrInvalidLength", some 2#64)) := by
  decide +kernel

/-- "a1llttal5m": two data symbols with non-zero padding bits: `base32.ErrNonZeroPadding` at `hrpLen + 1 + 1` -/
example : DecodeM (bv [97, 49, 108, 108, 116, 116, 97, 108, 53, 109]) = some ([], [], some ("base32.ErrNonZeroPadding", some 3#64)) := by
  decide +kernel

/-! the remaining guards (added after the third audit, REPORT-3 finding 13) -/

/-- 91 bytes: `ErrInvalidLength` as a `SyntaxError` at offset 90 -/
example : DecodeM (List.replicate 91 97#8) = some ([], [], some ("ErrInvalidLength", some 90#64)) := by decide +kernel

/-- "aqqqqqq": no separator (a plain error, no offset) -/
example : DecodeM (bv [97, 113, 113, 113, 113, 113, 113]) = some ([], [], some ("ErrMissingSeparator", none)) := by
  decide +kernel

/-- "1qqqqqq": the separator at position 0 -/
example : DecodeM (bv [49, 113, 113, 113, 113, 113, 113]) = some ([], [], some ("ErrInvalidSeparator", some 0#64)) := by
  decide +kernel
/-- "aaa1qqq": fewer than six characters after the separator -/
example : DecodeM (bv [97, 97, 97, 49, 113, 113, 113]) = some ([], [], some ("ErrInvalidSeparator", some 3#64)) := by
  decide +kernel

/-- a byte ≥ 0x80 in the data part: offset of that byte -/
example : DecodeM (bv [97, 49, 0x80, 113, 113, 113, 113, 113]) = some ([], [], some ("ErrInvalidCharacter", some 2#64)) := by
  decide +kernel
/-- a non-charset ASCII character (`b`) in the data part -/
example : DecodeM (bv [97, 49, 98, 113, 113, 113, 113, 113, 113]) = some ([], [], some ("ErrInvalidCharacter", some 2#64)) := by
  decide +kernel

/-- `Encode`: empty prefix -/
example : EncodeM [] [] = some ([], some ("ErrInvalidLength", none)) := by decide +kernel
/-- `Encode`: a prefix of 84 characters (84 + 1 + 6 > 90) -/
example : EncodeM (List.replicate 84 97#8) [] = some ([], some ("ErrInvalidLength", none)) := by decide +kernel
/-- `Encode`: a space in the prefix -/
example : EncodeM (bv [32]) [] = some ([], some ("ErrInvalidCharacter", none)) := by decide +kernel

end Iota.Tie.Bech32ApiCode
