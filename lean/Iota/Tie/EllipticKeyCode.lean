/-
Code tie for pkg/slip10/elliptic: `Curve.NewPrivateKey` (curve.go), `PrivateKey.Shift`, `PublicKey.Shift` (key.go), translated
AS CODE by cmd/extract (stage 13, loops_key.go) into `Iota/Gen/EllipticKeyCode.lean` (`Gen.EllipticKeyCode.key.*`), against
the fields `newPrivateKey` and `shift` of the model `Iota.Slip10.wCurve` (`Iota/Model/Slip10.lean`).  A `*big.Int` is an
`Int`; the first result `Option (Nat × List Int)` is `none` for a nil `slip10.Key`, `some (0, [K])` for a new `*PrivateKey`,
`some (1, [X, Y])` for a new `*PublicKey` (`encKey`); the error is `some "slip10.ErrInvalidKey"`; an outer `none` = panic.
The curve is a set of parameters: `curve_N` is instantiated with the model's `w.n`; `Externs` states what is assumed of
`curve_ScalarBaseMult` / `curve_Add` (they compute the model's `baseMul` / `add` in affine coordinates `coords`, and the
model's `isInfinity` is "both coordinates are 0").
-/
import Iota.Gen.EllipticKeyCode
import Iota.Model.Slip10
import Iota.Tie.BV

namespace Iota.Tie.EllipticKeyCode
open Iota Iota.Go
open Iota.Tie.Bech32Code (bv)
open Iota.Gen.EllipticKeyCode
open Iota.Slip10 (Bytes WCurve WKey KeyErr wCurve beNat)

variable {Pt : Type}

/-- the model's result as the Go results `(slip10.Key, error)` of the translation -/
def encKey (coords : Pt → Int × Int) : Except KeyErr (WKey Pt) → Option (Nat × List Int) × Option String
  | .ok (.priv k) => (some (0, [(k : Int)]), none)
  | .ok (.pub p) => (some (1, [(coords p).1, (coords p).2]), none)
  | .error _ => (none, some "slip10.ErrInvalidKey")

theorem setBytes_bv (b : Bytes) : Go.bigSetBytes (bv b) = (beNat b : Int) := by
  unfold Go.bigSetBytes beNat bv
  rw [List.foldl_map]
  rfl

theorem bigSign_eq_zero (x : Int) : (Go.bigSign x == 0#64) = decide (x = 0) := by
  unfold Go.bigSign
  rcases Int.lt_trichotomy x 0 with h | h | h
  · rw [Int.sign_eq_neg_one_of_neg h]; have : x ≠ 0 := by omega
    simp [this]
  · subst h; simp
  · rw [Int.sign_eq_one_of_pos h]; have : x ≠ 0 := by omega
    simp [this]

theorem bigCmp_ge (a b : Int) : BitVec.sle 0#64 (Go.bigCmp a b) = decide (b ≤ a) := by
  unfold Go.bigCmp
  rcases Int.lt_trichotomy (a - b) 0 with h | h | h
  · rw [Int.sign_eq_neg_one_of_neg h]; have : ¬ b ≤ a := by omega
    simp [this]
  · rw [h]; have : b ≤ a := by omega
    simp [this]
  · rw [Int.sign_eq_one_of_pos h]; have : b ≤ a := by omega
    simp [this]

/-- **`Curve.NewPrivateKey`**, every byte string: `ErrInvalidKey` iff the value is 0 or ≥ N; never panics (plain-valued) -/
theorem code_newPrivateKey (w : WCurve Pt) (hk : Bytes) (coords : Pt → Int × Int) (buf : Bytes) :
    key.Curve_NewPrivateKey (w.n : Int) (bv buf) = encKey coords ((wCurve w hk).newPrivateKey buf) := by
  unfold key.Curve_NewPrivateKey wCurve
  simp only [setBytes_bv, bigSign_eq_zero, bigCmp_ge]
  by_cases h : beNat buf = 0 ∨ beNat buf ≥ w.n
  · have : (decide ((beNat buf : Int) = 0) || decide ((w.n : Int) ≤ (beNat buf : Int))) = true := by
      rcases h with h | h <;> simp [h] <;> omega
    simp [this, h, encKey]
  · have : (decide ((beNat buf : Int) = 0) || decide ((w.n : Int) ≤ (beNat buf : Int))) = false := by
      have h1 : beNat buf ≠ 0 := fun e => h (Or.inl e)
      have h2 : ¬ w.n ≤ beNat buf := fun e => h (Or.inr e)
      simp; omega
    simp [this, h, encKey]

/-- **`PrivateKey.Shift`** for a key with scalar `k`, every byte string, `N > 0` (for `N = 0` the `Mod` panics) -/
theorem code_privateShift (w : WCurve Pt) (hk : Bytes) (coords : Pt → Int × Int) (hn : 0 < w.n) (k : Nat) (buf : Bytes) :
    key.PrivateKey_Shift (w.n : Int) (k : Int) (bv buf) = some (encKey coords ((wCurve w hk).shift (.priv k) buf)) := by
  unfold key.PrivateKey_Shift wCurve
  simp only [setBytes_bv, bigSign_eq_zero, bigCmp_ge]
  have hn0 : (w.n : Int) ≠ 0 := by omega
  have hmod : ((beNat buf : Int) + (k : Int)) % (w.n : Int) = (((beNat buf + k) % w.n : Nat) : Int) := by
    simp [Int.natCast_emod, Int.natCast_add]
  by_cases h : beNat buf ≥ w.n
  · have : decide ((w.n : Int) ≤ (beNat buf : Int)) = true := by simp; omega
    simp [this, h, encKey, Flow.result]
  · have : decide ((w.n : Int) ≤ (beNat buf : Int)) = false := by simp; omega
    simp only [this, Bool.false_eq_true, if_false, hn0, ne_eq, not_false_eq_true, decide_true, Bool.not_true, hmod, h]
    by_cases hz : (beNat buf + k) % w.n = 0
    · simp [hz, encKey, Flow.result]
    · have : ¬ (((beNat buf + k) % w.n : Nat) : Int) = 0 := by omega
      have t2 : ¬ ((beNat buf : Int) + (k : Int)) % (w.n : Int) = 0 := by rw [hmod]; exact this
      simp [hz, t2, encKey, Flow.result]

theorem code_privateShift_never_panics (w : WCurve Pt) (hk : Bytes) (coords : Pt → Int × Int) (hn : 0 < w.n) (k : Nat) (buf : Bytes) :
    key.PrivateKey_Shift (w.n : Int) (k : Int) (bv buf) ≠ none := by
  rw [code_privateShift w hk coords hn k buf]; simp

/-- what is assumed of the two curve methods: in the affine coordinates `coords` they compute the model's `baseMul` and
`add` (and do not panic), and the model's point at infinity is the point with both coordinates 0 -/
structure Externs (w : WCurve Pt) (coords : Pt → Int × Int) (sbm : List (BitVec 8) → Option (Int × Int))
    (add : Int → Int → Int → Int → Option (Int × Int)) : Prop where
  sbm_eq : ∀ b : Bytes, sbm (bv b) = some (coords (w.baseMul b))
  add_eq : ∀ p q : Pt, add (coords p).1 (coords p).2 (coords q).1 (coords q).2 = some (coords (w.add p q))
  inf_eq : ∀ p : Pt, w.isInfinity p = decide ((coords p).1 = 0 ∧ (coords p).2 = 0)

/-- the assumptions can be met -/
theorem externs_inhabited : Externs (Pt := Int × Int)
    { n := 1, baseMul := fun _ => (0, 0), add := fun _ _ => (0, 0), isInfinity := fun p => decide (p.1 = 0 ∧ p.2 = 0), compress := fun _ => [] }
    id (fun _ => some (0, 0)) (fun _ _ _ _ => some (0, 0)) :=
  ⟨fun _ => rfl, fun _ _ => rfl, fun _ => rfl⟩

/-- **`PublicKey.Shift`** for the key with point `p`, every byte string -/
theorem code_publicShift (w : WCurve Pt) (hk : Bytes) (coords : Pt → Int × Int) {sbm : List (BitVec 8) → Option (Int × Int)}
    {add : Int → Int → Int → Int → Option (Int × Int)} (E : Externs w coords sbm add) (p : Pt) (buf : Bytes) :
    key.PublicKey_Shift add (w.n : Int) sbm (coords p).1 (coords p).2 (bv buf) =
      some (encKey coords ((wCurve w hk).shift (.pub p) buf)) := by
  unfold key.PublicKey_Shift wCurve
  simp only [setBytes_bv, bigSign_eq_zero, bigCmp_ge, E.sbm_eq, Go.call, Flow.bind_run, E.add_eq]
  by_cases h : beNat buf ≥ w.n
  · have : decide ((w.n : Int) ≤ (beNat buf : Int)) = true := by simp; omega
    simp [this, h, encKey, Flow.result]
  · have : decide ((w.n : Int) ≤ (beNat buf : Int)) = false := by simp; omega
    simp only [this, Bool.false_eq_true, if_false, h, E.inf_eq]
    by_cases hi : (coords (w.add p (w.baseMul buf))).1 = 0 ∧ (coords (w.add p (w.baseMul buf))).2 = 0
    · simp [hi, encKey, Flow.result]
    · have : (decide ((coords (w.add p (w.baseMul buf))).1 = 0) && decide ((coords (w.add p (w.baseMul buf))).2 = 0)) = false := by
        rw [← Bool.decide_and]; simpa using hi
      simp [hi, this, encKey, Flow.result]

theorem code_publicShift_never_panics (w : WCurve Pt) (hk : Bytes) (coords : Pt → Int × Int) {sbm : List (BitVec 8) → Option (Int × Int)}
    {add : Int → Int → Int → Int → Option (Int × Int)} (E : Externs w coords sbm add) (p : Pt) (buf : Bytes) :
    key.PublicKey_Shift add (w.n : Int) sbm (coords p).1 (coords p).2 (bv buf) ≠ none := by
  rw [code_publicShift w hk coords E p buf]; simp

end Iota.Tie.EllipticKeyCode
