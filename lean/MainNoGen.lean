import Iota.Driver.All

open Iota.Driver

def table : List (String × Handler) := Iota.Driver.modelOps

def reply (line : String) : String :=
  match (line.trimAscii.toString.splitOn " ").filter (· ≠ "") with
  | [] => badOp
  | op :: args =>
    match table.lookup op with
    | some h => h args
    | none => badOp

partial def loop (h : IO.FS.Stream) (out : IO.FS.Stream) : IO Unit := do
  let line ← h.getLine
  if line.isEmpty then return ()
  out.putStrLn (reply line)
  loop h out

def main : IO Unit := do
  let stdin ← IO.getStdin
  let stdout ← IO.getStdout
  loop stdin stdout
  stdout.flush
