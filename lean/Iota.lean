-- Root of the `Iota` library: every property, tie and driver module.
import Iota.Driver.All
import Iota.Tie.C14
import Iota.Props.C14
import Iota.Tie.C10
import Iota.Props.C10
import Iota.Tie.C15
import Iota.Props.C15
import Iota.Tie.Bech32
import Iota.Props.C04
import Iota.Props.C05
import Iota.Tie.C19
import Iota.Props.C19
import Iota.Props.C16
import Iota.Tie.C03
import Iota.Props.C03
import Iota.Tie.Curl
import Iota.Props.C06
