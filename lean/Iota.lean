import Iota.Model.B1T6
